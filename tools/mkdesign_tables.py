#!/usr/bin/env python3
"""Refresh the generated tables inside DESIGN.md (between <!-- BEGIN:name --> / <!-- END:name --> markers)
from conf/*.json, evidence/*.json, findings.d/*.json, seeded/*/meta.json and /repo's git log."""
import json, glob, os, re, subprocess
ROOT = os.path.dirname(os.path.dirname(os.path.abspath(__file__)))

def status_table():
    claimed = set(open(os.path.join(ROOT, "conf/claimed.txt")).read().split())
    out = ["| id | level | theorems (audited) | tie: compared / bit-equal | cases (quick) | families | quick wall | claimed |", "|---|---|---|---|---|---|---|---|"]
    for p in sorted(glob.glob(os.path.join(ROOT, "conf/C*.json"))):
        c = json.load(open(p)); pid = c["id"]
        try:
            ev = json.load(open(os.path.join(ROOT, "evidence", pid + ".json")))
        except Exception:
            ev = {}
        cov = ev.get("coverage", {}); corr = cov.get("correspondence", {})
        out.append("| %s | %s | %s | %s / %s | %s | %s | %s s | %s |" % (
            pid, c.get("level"), cov.get("discharged", "–"), corr.get("compared", "–"), corr.get("bit_equal", "–"), cov.get("evaluations", "–"),
            len(cov.get("input_distribution", {}).get("families", {})), ev.get("wall_s", "–"), "yes" if pid in claimed else "no"))
    return "\n".join(out)

def findings_table(status):
    out = ["| property | finding | call site | what | %s |" % ("fix commit" if status == "fixed" else "witness"), "|---|---|---|---|---|"]
    seen = set()
    for p in sorted(glob.glob(os.path.join(ROOT, "findings.d/*.json"))):
        for f in json.load(open(p)).get("findings", []):
            if f.get("status") != status:
                continue
            key = (f["property"], re.sub(r"[@].*$", "", f["id"]).rsplit("-", 0)[0][:40], f.get("fix_commit", ""))
            base = re.sub(r"(-x|-y|-box|-path|-fit|-dots|-parser|-arc-to|-nesting|-arc-panic)$", "", f["id"].split("@")[0])
            if (f["property"], base) in seen:
                continue
            seen.add((f["property"], base))
            what = f.get("what", "").replace("|", "/").replace("\n", " ")
            if len(what) > 300:
                what = what[:297] + "…"
            last = f.get("fix_commit", "") if status == "fixed" else f.get("witness", "").replace("|", "/")[:200]
            out.append("| %s | `%s` (class `%s`) | %s | %s | %s |" % (f["property"], base, f.get("class", ""), f.get("call_site", "").replace("crates/", ""), what, last))
    return "\n".join(out)

def seeds_table():
    out = ["| seed | property | change | needs | caught by (quick tier) |", "|---|---|---|---|---|"]
    for d in sorted(glob.glob(os.path.join(ROOT, "seeded/*/meta.json"))):
        m = json.load(open(d)); name = os.path.basename(os.path.dirname(d))
        caught = []
        for p, v in m.get("checks", {}).items():
            if v.get("caught"):
                how = "oracle" if any("oracle fail" in l for l in v.get("log", [])) else "tie"
                if any("mismatch=0" not in l and "mismatch=" in l for l in v.get("log", [])) and how == "oracle":
                    how = "oracle+tie" if not any(" mismatch=0 " in l for l in v.get("log", [])) else "oracle"
                caught.append("%s (%s)" % (p, how))
            else:
                caught.append("%s: NOT caught" % p)
        out.append("| %s | %s | %s | %s | %s |" % (name, m.get("property"), (m.get("summary") or "").replace("|", "/")[:220], (m.get("needs") or "").replace("|", "/")[:220], "; ".join(caught)))
    return "\n".join(out)

def commits_table():
    log = subprocess.run(["git", "-C", "/repo", "log", "--format=%h %s", "5a917f09..HEAD"], stdout=subprocess.PIPE).stdout.decode().strip().split("\n")
    out = ["| commit | kind | subject |", "|---|---|---|"]
    for l in reversed(log):
        h, s = l.split(" ", 1)
        kind = "fix" if s.startswith("fix:") else ("hook" if "hook" in s else "other")
        out.append("| %s | %s | %s |" % (h, kind, s.replace("|", "/")))
    return "\n".join(out)

def props_section():
    titles = {json.loads(l)["id"]: json.loads(l)["title"] for l in open(os.path.join(ROOT, "properties.jsonl"))}
    out = []
    for p in sorted(glob.glob(os.path.join(ROOT, "conf/C*.json"))):
        c = json.load(open(p)); pid = c["id"]; m = c.get("manifest", {})
        out.append("### %s — %s" % (pid, titles.get(pid, "")))
        out.append("")
        out.append("**Level** `%s`. **Technique** %s." % (c.get("level"), m.get("technique", "").rstrip(".")))
        out.append("")
        out.append(m.get("text", "").strip())
        out.append("")
        mods = c.get("props_modules") or [c.get("props_module")]
        out.append("*Theorem modules:* %s. *Model executable:* `%s` (`%s`). *Harness:* `harness/src/bin/%s.rs`." % (", ".join("`%s`" % x for x in mods), c.get("exe"), c.get("exe_root", ""), c.get("bin")))
        req = c.get("required_theorems", [])
        if req:
            out.append("")
            out.append("*Required theorems (%d):* %s" % (len(req), ", ".join("`%s`" % r.split(".")[-1] for r in req[:40]) + (" …" if len(req) > 40 else "")))
        out.append("")
        out.append("*Trusted / assumed:* " + m.get("level_note", "").strip())
        ass = c.get("assumptions", [])
        if ass:
            out.append("")
            for a in ass[:8]:
                out.append("* " + a.replace("\n", " "))
        out.append("")
    return "\n".join(out)

tables = {"props": props_section(), "status": status_table(), "fixed": findings_table("fixed"), "open": findings_table("open"), "seeds": seeds_table(), "commits": commits_table()}
p = os.path.join(ROOT, "DESIGN.md")
s = open(p).read()
for k, v in tables.items():
    s = re.sub(r"(<!-- BEGIN:%s -->).*?(<!-- END:%s -->)" % (k, k), lambda m: m.group(1) + "\n" + v + "\n" + m.group(2), s, flags=re.S)
open(p, "w").write(s)
print("tables refreshed:", ", ".join(tables))
