#!/usr/bin/env python3
"""
Evaluate a seeded defect produced by an independent sub-agent.

  tools/seeded_eval.py <worktree> <n> <PROP> [more PROPs…] [--no-repo | --no-scratch]

1. (scratch phase) In the scratch worktree: apply seeded/<n>/patch.diff, run the existing test
   suite (must pass), run the demo (must fail); revert, run the demo (must pass).
   Result cached in seeded/<n>/scratch.json.  `--no-repo` stops here (parallelisable).
2. (repo phase) In /repo: apply the patch, run ./check PROP for each property given, revert.
   `--no-scratch` reuses the cached scratch result.
Confirmed seeds are stored under /verif/seeded/<PROP>-<n>/.  Never leaves /repo modified; evidence
files are restored (they must describe runs on the unchanged tree).
"""
import sys, os, json, subprocess, shutil, re, time

args = [a for a in sys.argv[1:] if not a.startswith("--")]
flags = [a for a in sys.argv[1:] if a.startswith("--")]
wt, n = args[0], args[1]
props = args[2:]
NO_REPO = "--no-repo" in flags
NO_SCRATCH = "--no-scratch" in flags
sd = os.path.join(wt, "seeded", n)
meta = json.load(open(os.path.join(sd, "meta.json")))
env = dict(os.environ, CARGO_NET_OFFLINE="true")
NAME = next((a.split("=",1)[1] for a in sys.argv[1:] if a.startswith("--name=")), None)


def sh(cmd, cwd, timeout=3600):
    p = subprocess.run(cmd, shell=True, cwd=cwd, env=dict(env, **({"VERIF_REPO_LOCK_HELD": "1"} if os.environ.get("VERIF_REPO_LOCK_HELD") else {})), stdout=subprocess.PIPE, stderr=subprocess.STDOUT, timeout=timeout)
    return p.returncode, p.stdout.decode("utf-8", "replace")


res = {"property": meta.get("property"), "summary": meta.get("summary"), "needs": meta.get("needs")}
patch = os.path.join(sd, "patch.diff")
scratch_json = os.path.join(sd, "scratch.json")


def scratch_phase():
    sh("git checkout -- . ", wt)
    rc, out = sh("git apply --check %s" % patch, wt)
    r = {"applies": rc == 0}
    if rc != 0:
        r["error"] = out[-500:]
        return r
    demo_cmd = "mkdir -p crates/geom/tests crates/path/tests crates/tessellation/tests crates/algorithms/tests crates/extra/tests; " + meta["demo_cmd"]
    sh("git apply %s" % patch, wt)
    rc, out = sh("cargo test --workspace --offline --no-fail-fast 2>&1 | grep -E '^test result|FAILED|^error' ", wt)
    lines = out.strip().split("\n")
    passed = sum(int(m.group(1)) for m in re.finditer(r"(\d+) passed", out))
    failed = sum(int(m.group(1)) for m in re.finditer(r"(\d+) failed", out))
    r["suite_with_patch"] = {"passed": passed, "failed": failed, "errors": [l for l in lines if l.startswith("error")][:3]}
    rc, out = sh(demo_cmd, wt)
    r["demo_with_patch_fails"] = rc != 0
    sh("git checkout -- . ", wt)
    rc, out = sh(demo_cmd, wt)
    r["demo_without_patch_passes"] = rc == 0
    sh("git clean -fdq crates", wt)
    return r


if NO_SCRATCH and os.path.exists(scratch_json):
    res.update(json.load(open(scratch_json)))
else:
    r = scratch_phase()
    json.dump(r, open(scratch_json, "w"))
    res.update(r)
if not res.get("applies"):
    print(json.dumps(res, indent=1))
    sys.exit(1)
ok = res["suite_with_patch"]["failed"] == 0 and not res["suite_with_patch"]["errors"] and res["suite_with_patch"]["passed"] > 300 \
     and res["demo_with_patch_fails"] and res["demo_without_patch_passes"]
res["confirmed"] = bool(ok)
if NO_REPO:
    print(json.dumps(res, indent=1))
    sys.exit(0)

# --- /repo
# exclusive lock on /repo while it is mutated (ordinary ./check runs hold it shared)
import fcntl
os.makedirs("/verif/.work", exist_ok=True)
_repo_lock = open("/verif/.work/repo.lock", "w")
_marker = "/verif/.work/repo.writer"
open(_marker, "w").write(str(os.getpid()))
try:
    fcntl.flock(_repo_lock, fcntl.LOCK_EX)
finally:
    try:
        os.remove(_marker)
    except OSError:
        pass
os.environ["VERIF_REPO_LOCK_HELD"] = "1"
rc, out = sh("git status --porcelain --untracked-files=no", "/repo")
if out.strip():
    res["error"] = "/repo not clean: " + out[:200]
    print(json.dumps(res, indent=1))
    sys.exit(1)
rc, out = sh("git apply --check %s" % patch, "/repo")
if rc != 0:
    res["error"] = "patch does not apply to /repo (it moved on): " + out[-300:]
    print(json.dumps(res, indent=1))
    sys.exit(1)
sh("git apply %s" % patch, "/repo")
res["checks"] = {}
saved = {}
for p in props:
    ef = "/verif/evidence/%s.json" % p
    if os.path.exists(ef):
        saved[ef] = open(ef, "rb").read()
try:
    for p in props:
        t0 = time.time()
        rc, out = sh("./check %s --tier quick" % p, "/verif")
        viol = [l for l in out.split("\n") if l.startswith("VIOLATION")]
        summ = [l for l in out.split("\n") if "cases=" in l or "oracle fail" in l or "mismatch id" in l][:6]
        res["checks"][p] = {"rc": rc, "violation_lines": viol[:4], "log": summ, "wall_s": round(time.time() - t0)}
finally:
    sh("git checkout -- .", "/repo")
    for ef, data in saved.items():
        open(ef, "wb").write(data)
rc, out = sh("git status --porcelain --untracked-files=no", "/repo")
res["repo_clean_after"] = out.strip() == ""

if ok:
    dst = os.path.join("/verif/seeded", NAME or "%s-%s" % (meta.get("property", "X"), n))
    os.makedirs(dst, exist_ok=True)
    shutil.copyfile(patch, os.path.join(dst, "patch.diff"))
    for f in os.listdir(sd):
        if f.endswith(".rs"):
            shutil.copyfile(os.path.join(sd, f), os.path.join(dst, f))
    m = dict(meta)
    m["confirmed_by_main"] = {"suite_with_patch": res["suite_with_patch"], "demo_with_patch_fails": True, "demo_without_patch_passes": True,
                              "how": "tools/seeded_eval.py in a scratch worktree of /repo"}
    m["checks"] = {p: {"caught": v["rc"] == 1 and bool(v["violation_lines"]), "violation_lines": v["violation_lines"], "log": v["log"]} for p, v in res["checks"].items()}
    json.dump(m, open(os.path.join(dst, "meta.json"), "w"), indent=1)
print(json.dumps(res, indent=1))
