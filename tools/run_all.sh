#!/bin/sh
# usage: tools/run_all.sh <tier> [seed ...]   — setup, then every claimed check at the given tier/seeds
cd "$(dirname "$0")/.." || exit 2
tier=${1:-quick}; shift
seeds=${*:-20260929}
./check --setup > /tmp/verif_setup.log 2>&1 || { echo "SETUP FAILED"; tail -30 /tmp/verif_setup.log; }
for p in $(cat conf/claimed.txt); do
  for s in $seeds; do
    t0=$(date +%s)
    out=$(./check $p --tier $tier --seed $s 2>&1); rc=$?
    t1=$(date +%s)
    echo "== $p tier=$tier seed=$s rc=$rc wall=$((t1-t0))s"
    echo "$out" | grep -E "cases=|obligations:|VIOLATION|oracle fail|mismatch id|KNOWN-FINDING" | cut -c1-260
  done
done
