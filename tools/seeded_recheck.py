#!/usr/bin/env python3
"""Re-run the check(s) against a confirmed seeded change kept under /verif/seeded/<name>/:
   tools/seeded_recheck.py <name> [PROP …]   (default: the seed's own property)
Applies patch.diff to /repo, runs ./check PROP --tier quick, reverts, restores evidence, updates meta.json."""
import sys, os, json, subprocess, time
name = sys.argv[1]; d = os.path.join("/verif/seeded", name)
meta = json.load(open(os.path.join(d, "meta.json")))
props = sys.argv[2:] or [meta["property"]]
def sh(cmd, cwd):
    p = subprocess.run(cmd, shell=True, cwd=cwd, stdout=subprocess.PIPE, stderr=subprocess.STDOUT)
    return p.returncode, p.stdout.decode("utf-8", "replace")
# exclusive lock on /repo while it is mutated (ordinary ./check runs hold it shared)
import fcntl
os.makedirs("/verif/.work", exist_ok=True)
_repo_lock = open("/verif/.work/repo.lock", "w")
_marker = "/verif/.work/repo.writer"
open(_marker, "w").write(str(os.getpid()))
try:
    fcntl.flock(_repo_lock, fcntl.LOCK_EX)
finally:
    try:
        os.remove(_marker)
    except OSError:
        pass
os.environ["VERIF_REPO_LOCK_HELD"] = "1"
rc, out = sh("git status --porcelain --untracked-files=no", "/repo")
if out.strip():
    print("repo not clean"); sys.exit(2)
rc, out = sh("git apply --check %s/patch.diff" % d, "/repo")
if rc != 0:
    print(name, "patch no longer applies:", out[-200:]); sys.exit(2)
sh("git apply %s/patch.diff" % d, "/repo")
saved = {}
for p in props:
    ef = "/verif/evidence/%s.json" % p
    if os.path.exists(ef): saved[ef] = open(ef, "rb").read()
try:
    for p in props:
        rc, out = sh("./check %s --tier quick" % p, "/verif")
        viol = [l for l in out.split("\n") if l.startswith("VIOLATION")]
        log = [l for l in out.split("\n") if "cases=" in l or "oracle fail" in l or "mismatch id" in l][:6]
        meta.setdefault("checks", {})[p] = {"caught": rc == 1 and bool(viol), "violation_lines": viol[:4], "log": log}
        print(name, p, "CAUGHT" if rc == 1 and viol else "missed", (log[0][log[0].find("mismatch="):] if log else "")[:80])
finally:
    sh("git checkout -- .", "/repo")
    for ef, data in saved.items(): open(ef, "wb").write(data)
json.dump(meta, open(os.path.join(d, "meta.json"), "w"), indent=1)
