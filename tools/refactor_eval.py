#!/usr/bin/env python3
"""tools/refactor_eval.py <patch.diff> PROP… : apply a behaviour-preserving refactoring to /repo, run the checks, revert.
Reports whether any check raises an alarm (a false alarm if the refactoring really preserves behaviour)."""
import sys, os, json, subprocess
patch = sys.argv[1]; props = sys.argv[2:]
def sh(cmd, cwd):
    p = subprocess.run(cmd, shell=True, cwd=cwd, stdout=subprocess.PIPE, stderr=subprocess.STDOUT)
    return p.returncode, p.stdout.decode("utf-8", "replace")
# exclusive lock on /repo while it is mutated (ordinary ./check runs hold it shared)
import fcntl
os.makedirs("/verif/.work", exist_ok=True)
_repo_lock = open("/verif/.work/repo.lock", "w")
_marker = "/verif/.work/repo.writer"
open(_marker, "w").write(str(os.getpid()))
try:
    fcntl.flock(_repo_lock, fcntl.LOCK_EX)
finally:
    try:
        os.remove(_marker)
    except OSError:
        pass
os.environ["VERIF_REPO_LOCK_HELD"] = "1"
rc, out = sh("git status --porcelain --untracked-files=no", "/repo")
if out.strip(): print("repo not clean"); sys.exit(2)
rc, out = sh("git apply --check %s" % patch, "/repo")
if rc != 0: print("patch does not apply:", out[-300:]); sys.exit(2)
sh("git apply %s" % patch, "/repo")
saved = {}
for p in props:
    ef = "/verif/evidence/%s.json" % p
    if os.path.exists(ef): saved[ef] = open(ef, "rb").read()
res = {}
try:
    for p in props:
        rc, out = sh("./check %s --tier quick" % p, "/verif")
        line = [l for l in out.split("\n") if "cases=" in l]
        viol = [l for l in out.split("\n") if l.startswith("VIOLATION")]
        res[p] = (rc, (line[0][line[0].find("agree(bit)"):] if line else out[-200:])[:110], viol[:2])
finally:
    sh("git checkout -- .", "/repo")
    for ef, data in saved.items(): open(ef, "wb").write(data)
for p, (rc, line, viol) in res.items():
    print("  %s rc=%d %s %s" % (p, rc, line, viol))
