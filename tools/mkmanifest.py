#!/usr/bin/env python3
"""Assemble /verif/MANIFEST.json from conf/Cxx.json (one per claimed property)."""
import json, glob, os, subprocess
ROOT = os.path.dirname(os.path.dirname(os.path.abspath(__file__)))
props = [json.loads(l) for l in open(os.path.join(ROOT, "properties.jsonl"))]
confs = {}
for p in sorted(glob.glob(os.path.join(ROOT, "conf", "C*.json"))):
    c = json.load(open(p))
    confs[c["id"]] = c
hooks = json.load(open(os.path.join(ROOT, "conf", "hooks.json")))
# only properties whose check I have seen pass on the unchanged tree are claimed
claimed = set(open(os.path.join(ROOT, "conf", "claimed.txt")).read().split())
checks, na = [], []
for p in props:
    pid = p["id"]
    c = confs.get(pid)
    if not c or not c.get("manifest") or pid not in claimed:
        na.append({"property_id": pid, "reason": (c or {}).get("not_applicable_reason", "check not built yet (work in progress; design in DESIGN.md section 5)")})
        continue
    m = c["manifest"]
    checks.append({
        "property_id": pid,
        "quick_cmd": "./check %s --tier quick" % pid,
        "thorough_cmd": "./check %s --tier thorough" % pid,
        "evidence_file": "/verif/evidence/%s.json" % pid,
        "replay_cmd_template": "./check %s --replay {path}" % pid,
        "engine": "lean-model+correspondence",
        "level_claimed": {"category": c["level"], "text": m["text"], "design_ref": m.get("design_ref", "DESIGN.md section 5, " + pid)},
        "level_note": m["level_note"],
        "technique": m["technique"],
    })
man = {
    "version": 1,
    "setup_cmd": "./check --setup",
    "hooks": hooks,
    "engines": [{
        "name": "lean-model+correspondence",
        "path": "/verif/check",
        "serves_properties": [c["property_id"] for c in checks],
        "kind_free_text": "Lean 4 theorems about a hand-written model (lean/LyonVerif/Props), model tied to /repo on every run by a correspondence check "
                          "(Rust harness calling the real code in-process vs the compiled Lean model, same inputs, bit-level comparison), plus an oracle search "
                          "for a failing input on the implementation",
    }],
    "checks": checks,
    "not_applicable": na,
    "notes": "See DESIGN.md. ./check Cxx honours VERIF_SEED and VERIF_TIER. Known findings: known_findings.json.",
}
json.dump(man, open(os.path.join(ROOT, "MANIFEST.json"), "w"), indent=1)
print("claimed:", [c["property_id"] for c in checks], "unclaimed:", len(na))
