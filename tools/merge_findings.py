#!/usr/bin/env python3
"""Rewrite known_findings.json from findings.d/*.json (development-time helper; never run by a check)."""
import json, glob, os
ROOT = os.path.dirname(os.path.dirname(os.path.abspath(__file__)))
kf = json.load(open(os.path.join(ROOT, "known_findings.json")))
out = []
for p in sorted(glob.glob(os.path.join(ROOT, "findings.d", "*.json"))):
    out += json.load(open(p)).get("findings", [])
kf["findings"] = out
json.dump(kf, open(os.path.join(ROOT, "known_findings.json"), "w"), indent=1)
print(len(out), "findings")
