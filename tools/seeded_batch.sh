#!/bin/sh
# usage: tools/seeded_batch.sh <round-tag> <worktree> [extra PROPs…]  — evaluate seeded/1..N of a seeding worktree,
# storing confirmed seeds as /verif/seeded/<PROP>-<round-tag><n>/
tag=$1; wt=$2; shift 2
cd "$(dirname "$0")/.." || exit 2
for d in "$wt"/seeded/*/; do
  n=$(basename "$d")
  [ -f "$d/meta.json" ] || continue
  prop=$(python3 -c "import json,sys;print(json.load(open('$d/meta.json'))['property'])")
  echo "=== $wt seeded/$n property=$prop"
  python3 tools/seeded_eval.py "$wt" "$n" "$prop" "$@" --name="$prop-$tag$n" 2>&1 | python3 -c "
import sys,json
t=sys.stdin.read()
try:
    d=json.loads(t[t.index('{'):])
    print(' confirmed=',d.get('confirmed'),' suite=',d.get('suite_with_patch'),' demo_fails=',d.get('demo_with_patch_fails'),' demo_ok_clean=',d.get('demo_without_patch_passes'), d.get('error',''))
    for p,c in d.get('checks',{}).items(): print('  ',p,'rc=',c['rc'],c['violation_lines'][:2],[l[:160] for l in c['log'][:3]])
except Exception as e:
    print(t[-1500:])
"
done
