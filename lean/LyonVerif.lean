import LyonVerif.Model.Scalar
