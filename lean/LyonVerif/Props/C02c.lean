/-
  C02 (growth 2) — the ADVANCED monotone tessellator's discrete facts, and the geometric core of
  "tile the interior" for the BASIC monotone tessellator over an ordered field.

  Model: `Model/Tess/Monotone.lean` (`Basic`, `Adv`, `flushSide`; mirrors lyon incl. fix 9b7220fb),
  tied bit-for-bit to `monotone.rs` through hook H2 (`harness/src/bin/c02.rs`, family `mono`).
  Helper lemmas: `Lemmas/MonotoneAdvFlush.lean`, `Lemmas/MonotoneAdv.lean`,
  `Lemmas/MonotoneGeom{,Area,Valid,Inv,Run}.lean`.  (`Props/C02b.lean` + `Lemmas/Monotone.lean`
  are an earlier, stale version of part 1 written against the pre-9b7220fb model; superseded.)

  1. Discrete, for EVERY (position, side) sequence and every scalar type (floats included):
     `flush_levels_count/ids/distinct`, `flush_side_spec` (the doubling loop of `flush_side` cuts a
     chain of `len` ids into `len − 2` triangles on positions `a < b < c`), `adv_invariant`,
     `adv_count` (n − 2 triangles), `adv_ids_distinct`, `adv_ids_valid`, `basic_ids_valid`.
  2. Geometry of the basic tessellator over an ordered field `K`
     (`wind a b c = (a − b) × (c − b)`: lyon's own commented-out assertion in `push_triangle`):
     * `basic_tris_nonneg`   — EVERY sequence: every emitted triangle has `wind ≥ 0` (none flipped);
     * `basic_area_ge`       — EVERY sequence: `Σ wind(triangles) ≥ shoelace(polygon)`
                               (telescoping: every triangle removes one vertex from the remaining
                               polygon; the only slack is a fan triangle swapped by the winding test);
     * `basic_fan_strict`    — valid sweep sequence (`SweepValid`, decidable): at a change of side
                               every fan triangle is STRICTLY positive in the side-determined order,
                               so the winding test never swaps;
     * `basic_area_sum`      — valid sweep sequence: `Σ wind(triangles) = shoelace(polygon)`;
     * `basic_triangles_oriented` — no three vertices collinear: every triangle has `wind > 0`;
     * `basic_tiling_core`   — valid + general position: `n − 2` triangles, each strictly positively
                               oriented, areas adding up to the polygon's area.
     `basic_collinear_zero_area_witness`: without general position a valid sequence does get a
     zero-area triangle (three collinear chain vertices pass the `cross ≥ 0` ear test) — outside the
     property's statement ("none references the same vertex twice"), recorded as an observation.

  3. Signed area of the ADVANCED tessellator, EVERY sequence: `flush_area_sum` (the triangles of
     `flush_side` add up exactly to the buffered chain polygon's area) and `adv_area_ge`
     (`Σ wind(Adv.run seq) ≥ shoelace(polygon)`; potential = emitted + inner stack polygon + chain
     polygons + the quadrilateral between the chain heads and tails).

  4. Orientation of the ADVANCED tessellator: `flush_tris_convex` (a sorted, locally convex buffered
     chain is fanned into non-negatively oriented triangles), `adv_tris_nonneg` (for EVERY sequence
     sorted in sweep order no triangle of `Adv.run` is flipped: the `outward_turn` test keeps the
     chains convex), `adv_triangles_oriented` (strict in general position), `adv_tiling_partial`
     (`_partial`: count + strict orientation + area sum ≥ polygon; the missing half, area sum ≤
     polygon i.e. no overlap, depends on the sides_are_close / reference-x heuristics and is not proved).

  Not proved: pairwise interior-disjointness / containment as point sets (only its algebraic core:
  count + consistent strict orientation + area sum); the geometry of the ADVANCED tessellator's
  chain fans (`flush_side` emits without an orientation test; valid only when the buffered chain is
  convex and no opposite vertex enters its hull — the sides_are_close / outward_turn heuristics).
-/
import LyonVerif.Lemmas.MonotoneGeomRun
import LyonVerif.Lemmas.MonotoneAdvRun
import LyonVerif.Lemmas.MonotoneAdvNonneg

set_option linter.unusedSectionVars false
set_option linter.unusedVariables false

namespace Lyon.C02c
open Lyon Lyon.Mono Lyon.C02

variable {α : Type} [Scalar α]

/-! ### 1. the doubling loop of `flush_side` -/

/-- **`flush_side` emits `len − 2` triangles**: at level `step` the live chain positions are the
multiples of `step` below `len` (`(len−1)/step + 1` of them); the level removes all odd multiples
(`(len−1)/step − (len−1)/(2·step)` triangles); the loop stops with 2 live positions. -/
theorem flush_levels_count (ev : Array Nat) (len : Nat) (right : Bool) :
    (flushLevels ev len right (len + 1) 1).length = len - 2 :=
  flushLevels_count ev len right

/-- **every triangle of `flush_side` sits on three different chain positions** `a < b < c < len`,
in increasing order on the left side, in an odd permutation (`(b,a,c)` or `(a,c,b)`) on the right. -/
theorem flush_levels_ids (ev : Array Nat) (len : Nat) (right : Bool) :
    ∀ t ∈ flushLevels ev len right (len + 1) 1, ChainTri ev len right t :=
  flushLevels_ids ev len right

/-- hence with pairwise distinct buffered ids every chain triangle has three distinct ids -/
theorem flush_levels_distinct (l : List Nat) (right : Bool) (hnd : l.Nodup) :
    ∀ t ∈ flushLevels l.toArray l.length right (l.length + 1) 1, TriDistinct t :=
  fun t ht => chainTri_distinct l right hnd t (flushLevels_ids _ _ right t ht)

/-- `flush_side` on a chain of `len ≥ 2` ids: `len − 2` triangles, the chain restarts from its last
vertex, which is forwarded to the inner tessellator. -/
theorem flush_side_spec (s : SideEv α) (r : Bool) (h : 2 ≤ s.events.length) :
    (flushSide s r).2.1.length = s.events.length - 2 ∧ (flushSide s r).2.2 = some s.last ∧
      (flushSide s r).1.events = [s.last.id] := by
  rcases flushSide_cases s r with ⟨h', _⟩ | ⟨_, e1, _, e3, e4⟩
  · omega
  · exact ⟨by rw [e3, flushLevels_count], e4, e1⟩

/-- non-vacuity: a 7-id chain, left and right: 5 triangles each. -/
example : flushLevels #[10, 11, 12, 13, 14, 15, 16] 7 false 8 1
    = [(10, 11, 12), (12, 13, 14), (14, 15, 16), (10, 12, 14), (10, 14, 16)] := by decide
example : flushLevels #[10, 11, 12, 13, 14, 15, 16] 7 true 8 1
    = [(11, 10, 12), (13, 12, 14), (15, 14, 16), (12, 10, 14), (10, 16, 14)] := by decide
example : [10, 11, 12, 13, 14, 15, 16].Nodup := by decide
example : 2 ≤ (⟨⟨⟨0⟩, ⟨0⟩⟩, ⟨0⟩, [1, 2, 3], ⟨⟨0⟩, ⟨0⟩⟩, ⟨⟨⟨0⟩, ⟨0⟩⟩, 3, true⟩⟩ : SideEv ZS).events.length := by decide

/-! ### 2. the advanced tessellator: n − 2 triangles, distinct valid ids -/

/-- the invariant behind the three theorems, for every reachable state (`k` vertices fed, ids
`0…k−1`): `triangles + inner stack + Σ_sides (buffered − 1) = k`, the inner stack is non-empty,
every id is in exactly one place. -/
theorem adv_invariant (p0 : P α) (vs : List (P α × Bool)) :
    AInv (afeed (Adv.begin Adv.new p0 0) 1 vs) (1 + vs.length) :=
  afeed_inv vs _ 1 (begin_inv Adv.new p0)

/-- **n − 2 triangles**: for every begin / vertex* / end sequence with `n ≥ 2` vertices in total, on
any sides and at any positions, over any scalar type, the advanced monotone tessellator emits
exactly `n − 2` triangles. -/
theorem adv_count (seq : List (P α × Bool)) (h : 2 ≤ seq.length) :
    (Adv.run seq).length = seq.length - 2 :=
  (run_spec seq).1 h

/-- **three pairwise distinct vertices per triangle** (ids are `0, 1, 2, …` in feeding order). -/
theorem adv_ids_distinct (seq : List (P α × Bool)) : ∀ t ∈ Adv.run seq, TriDistinct t :=
  (run_spec seq).2

/-- **every id is a fed vertex**: all three ids of every triangle are `< n`. -/
theorem adv_ids_valid (seq : List (P α × Bool)) :
    ∀ t ∈ Adv.run seq, t.1 < seq.length ∧ t.2.1 < seq.length ∧ t.2.2 < seq.length :=
  run_ids_lt seq

/-- the same for the basic tessellator (count and distinctness: `Props/C02.lean`) -/
theorem basic_ids_valid (seq : List (P α × Bool)) :
    ∀ t ∈ Basic.run seq, t.1 < seq.length ∧ t.2.1 < seq.length ∧ t.2.2 < seq.length :=
  basic_run_ids_lt seq

/-- non-vacuity (integer coordinates scaled by 10): lyon's own third unit test of `monotone.rs`,
7 vertices all on the right side, run through the advanced tessellator: 5 triangles … -/
example : Adv.run (α := ZS)
    [(⟨⟨0⟩, ⟨0⟩⟩, true), (⟨⟨10⟩, ⟨10⟩⟩, false), (⟨⟨30⟩, ⟨20⟩⟩, false), (⟨⟨10⟩, ⟨30⟩⟩, false),
     (⟨⟨10⟩, ⟨40⟩⟩, false), (⟨⟨40⟩, ⟨50⟩⟩, false), (⟨⟨0⟩, ⟨60⟩⟩, true)]
    = [(2, 1, 3), (1, 0, 3), (3, 0, 4), (4, 0, 6), (5, 4, 6)] := by decide

/-- … and a wide left chain that is buffered whole: one `flush_side` of 6 ids at `end`. -/
example : Adv.run (α := ZS)
    [(⟨⟨0⟩, ⟨0⟩⟩, true), (⟨⟨-500⟩, ⟨1⟩⟩, true), (⟨⟨-900⟩, ⟨2⟩⟩, true), (⟨⟨-1200⟩, ⟨3⟩⟩, true),
     (⟨⟨-1400⟩, ⟨4⟩⟩, true), (⟨⟨-1500⟩, ⟨5⟩⟩, true), (⟨⟨0⟩, ⟨6⟩⟩, false)]
    = [(0, 1, 2), (2, 3, 4), (0, 4, 5), (0, 2, 4), (0, 5, 6)] := by decide

/-! ### 3. geometry of the basic tessellator -/

section Geometry
variable {K : Type} [Field K] [LinearOrder K] [IsStrictOrderedRing K]

/-- **same-side branch**: the ear `(b, a, cur)` is cut only when `cross(cur − b, a − b) ≥ 0`
(`a, b` = last popped, stack top; swapped on the right side), and that cross product IS
`wind b a cur`: the ear is emitted non-negatively oriented. -/
theorem same_side_ear_convex (cur lp top : MV K) (h : earConvex cur lp top = true) :
    (cur.left = true ∧ earTri cur lp top = (top.id, lp.id, cur.id) ∧ 0 ≤ wind top.pos lp.pos cur.pos) ∨
    (cur.left = false ∧ earTri cur lp top = (lp.id, top.id, cur.id) ∧ 0 ≤ wind lp.pos top.pos cur.pos) :=
  earTri_cases cur lp top h

/-- **changed-side branch**: each fan triangle is emitted in the order that makes it non-negatively
oriented (the swap on `winding == false` makes it strictly positive). -/
theorem fan_tri_oriented (cur a b : MV K) :
    (fanTri cur a b = (a.id, b.id, cur.id) ∧ 0 ≤ wind a.pos b.pos cur.pos) ∨
    (fanTri cur a b = (b.id, a.id, cur.id) ∧ 0 < wind b.pos a.pos cur.pos) :=
  fanTri_cases cur a b

/-- **no triangle of the basic tessellator is flipped**: for every (position, side) sequence —
monotone or not — every emitted triangle `(a, b, c)` has `(a − b) × (c − b) ≥ 0`. -/
theorem basic_tris_nonneg (seq : List (P K × Bool)) : ∀ t ∈ Basic.run seq, 0 ≤ triW (posOf seq) t :=
  run_gInv seq

/-- **area, every sequence**: the `wind`s of the emitted triangles (each in its emitted vertex order)
add up to at least the shoelace area of the polygon `apex, left chain ↓, bottom, right chain ↑`.
(Telescoping identity: each ear / fan triangle is exactly what the not-yet-triangulated stack
polygon loses; the excess is twice the area of the fan triangles swapped by the winding test.) -/
theorem basic_area_ge (seq : List (P K × Bool)) (h : 2 ≤ seq.length) :
    shoelaceW (polygonOf seq) ≤ sumW (posOf seq) (Basic.run seq) :=
  (run_area seq h).1

/-- **no swap on valid sequences**: in a state reached on a valid sweep sequence (`VInv`), when the
next vertex `cur` (index `k`; the bottom vertex if `k + 1 = n`) changes side, every fan pair
`(s_i, s_{i+1})` of the stack has `± wind(s_i, s_{i+1}, cur) > 0` with the sign of the stack's
side: lyon's winding test takes the side-determined branch and the fan triangle is non-degenerate. -/
theorem basic_fan_strict (seq : List (P K × Bool)) (s : Basic K) (k : Nat) (cur : MV K)
    (hval : SweepValid seq) (h : VInv seq s k) (hk : k < seq.length) (hid : cur.id = k)
    (hpos : cur.pos = posOf seq cur.id) (hsd : k + 1 = seq.length ∨ sideAt seq k = cur.left)
    (hchg : cur.left ≠ s.previous.left) :
    FanPosT s.previous.left cur.pos (s.stack.map (·.pos)) :=
  (valid_noFlip seq s k cur hval h hk hid hpos hsd).2 hchg

/-- **area, valid sweep sequence** (strictly y-monotone simple polygon: positions strictly sorted by
`(y, x)`, each chain strictly on its side of every edge of the other chain): the emitted triangles'
`wind`s add up EXACTLY to the polygon's shoelace area. -/
theorem basic_area_sum (seq : List (P K × Bool)) (h : 2 ≤ seq.length) (hval : SweepValid seq) :
    sumW (posOf seq) (Basic.run seq) = shoelaceW (polygonOf seq) :=
  (run_area seq h).2 hval

/-- **strict consistent orientation**: with no three vertices on a line every emitted triangle has
`wind > 0` — non-degenerate, all with the same strict sign (for every sequence in general position). -/
theorem basic_triangles_oriented (seq : List (P K × Bool)) (hc : NoCollinear seq) :
    ∀ t ∈ Basic.run seq, 0 < triW (posOf seq) t :=
  run_strict seq hc

/-- **algebraic core of "tile the interior"** for the basic monotone tessellator: a valid sweep
sequence in general position with `n` vertices is cut into exactly `n − 2` triangles, each on three
distinct fed vertices, each strictly positively oriented, whose areas add up to the polygon's area. -/
theorem basic_tiling_core (seq : List (P K × Bool)) (h : 2 ≤ seq.length) (hval : SweepValid seq)
    (hc : NoCollinear seq) :
    (Basic.run seq).length = seq.length - 2 ∧
    (∀ t ∈ Basic.run seq, TriDistinct t ∧ t.1 < seq.length ∧ t.2.1 < seq.length ∧ t.2.2 < seq.length ∧
      0 < triW (posOf seq) t) ∧
    sumW (posOf seq) (Basic.run seq) = shoelaceW (polygonOf seq) :=
  ⟨run_count seq h,
   fun t ht => ⟨run_ids_distinct seq t ht, (basic_run_ids_lt seq t ht).1, (basic_run_ids_lt seq t ht).2.1,
     (basic_run_ids_lt seq t ht).2.2, run_strict seq hc t ht⟩,
   (run_area seq h).2 hval⟩

/-! ### 4. signed area of the advanced tessellator -/

/-- **`flush_side` is area-exact**: for EVERY input the `wind`s of the triangles `flush_side` emits
for a buffered chain `e_0 … e_{len−1}` add up to the `wind`-area of the closed chain polygon
(left side; its negative on the right side, where the triangles are emitted in odd permutations).
`flush_side` performs no orientation test, so a chain triangle with negative `wind` is one lying
outside the chain polygon (a non-convex chain). -/
theorem flush_area_sum (pos : Nat → P K) (ev : List Nat) (right : Bool) :
    sumW pos (flushLevels ev.toArray ev.length right (ev.length + 1) 1) =
      (if right then -1 else 1) * chainPoly pos ev := by
  rw [flush_area, ← chainPoly_eq]; rfl

/-- **area, advanced tessellator, every sequence**: the `wind`s of the triangles of `Adv.run`
(each in its emitted order) add up to at least the polygon's shoelace area — the chain fans
contribute exactly their polygons' areas, every vertex forwarded to the inner basic tessellator
a non-negative excess (zero unless its winding test swaps a fan triangle). -/
theorem adv_area_ge (seq : List (P K × Bool)) (h : 2 ≤ seq.length) :
    shoelaceW (polygonOf seq) ≤ sumW (posOf seq) (Adv.run seq) :=
  adv_run_area seq h

/-! ### 5. orientation of the advanced tessellator's triangles -/

/-- **convex chains fan correctly**: if the buffered chain is strictly sorted in sweep order and
locally convex on its side at every interior vertex (`± wind(e_i, e_{i+1}, e_{i+2}) ≥ 0`), every
triangle `flush_side` emits for it has `wind ≥ 0` (local ⟹ global convexity on the sweep's
half-plane of directions). -/
theorem flush_tris_convex (pos : Nat → P K) (ev : List Nat) (right : Bool)
    (hsort : ∀ i, i + 1 < ev.length → After (evPos pos ev (i + 1)) (evPos pos ev i))
    (hconv : ∀ i, i + 2 < ev.length →
      0 ≤ sg (!right) * wind (evPos pos ev i) (evPos pos ev (i + 1)) (evPos pos ev (i + 2))) :
    ∀ t ∈ flushLevels ev.toArray ev.length right (ev.length + 1) 1, 0 ≤ triW pos t :=
  fun t ht => chainTri_nonneg pos ev right hsort hconv t (flushLevels_ids _ _ _ t ht)

/-- a valid sweep sequence is in particular sorted -/
theorem valid_sorted (seq : List (P K × Bool)) (h : SweepValid seq) : SweepSorted seq := h.1

/-- **no triangle of the advanced tessellator is flipped**: for every sequence whose positions are
strictly increasing in the sweep order — whatever the sides — every triangle of `Adv.run` has
`wind ≥ 0`.  (lyon's `outward_turn` test keeps every buffered chain locally convex, the chains are
sorted, so `flush_side`'s untested fans are non-negatively oriented; the inner basic tessellator's
triangles always are.) -/
theorem adv_tris_nonneg (seq : List (P K × Bool)) (hs : SweepSorted seq) :
    ∀ t ∈ Adv.run seq, 0 ≤ triW (posOf seq) t :=
  adv_run_nonneg seq hs

/-- **strict consistent orientation, advanced tessellator**: sorted and no three vertices collinear ⟹
every triangle of `Adv.run` has `wind > 0`. -/
theorem adv_triangles_oriented (seq : List (P K × Bool)) (hs : SweepSorted seq) (hc : NoCollinear seq) :
    ∀ t ∈ Adv.run seq, 0 < triW (posOf seq) t := by
  intro t ht
  have h1 := adv_run_nonneg seq hs t ht
  have h2 := (run_spec seq).2 t ht
  have h3 := run_ids_lt seq t ht
  have h4 := hc t.1 h3.1 t.2.1 h3.2.1 t.2.2 h3.2.2 h2.1 h2.2.1 h2.2.2
  exact lt_of_le_of_ne h1 (Ne.symm h4)

/-- **what is proved about the advanced tessellator's geometry**: on a sorted sequence in general
position with `n` vertices: `n − 2` triangles on distinct fed vertices, each strictly positively
oriented, with total area AT LEAST the polygon's area — so the only way left to violate C02 at the
monotone stage is overlap (total area strictly larger), exactly the shape of the chain-fan defect
repaired by 9b7220fb; `basic_tiling_core` excludes it for the basic tessellator. -/
theorem adv_tiling_partial (seq : List (P K × Bool)) (h : 2 ≤ seq.length) (hs : SweepSorted seq)
    (hc : NoCollinear seq) :
    (Adv.run seq).length = seq.length - 2 ∧
    (∀ t ∈ Adv.run seq, TriDistinct t ∧ t.1 < seq.length ∧ t.2.1 < seq.length ∧ t.2.2 < seq.length ∧
      0 < triW (posOf seq) t) ∧
    shoelaceW (polygonOf seq) ≤ sumW (posOf seq) (Adv.run seq) :=
  ⟨(run_spec seq).1 h,
   fun t ht => ⟨(run_spec seq).2 t ht, (run_ids_lt seq t ht).1, (run_ids_lt seq t ht).2.1, (run_ids_lt seq t ht).2.2,
     adv_triangles_oriented seq hs hc t ht⟩,
   adv_run_area seq h⟩

/-- on a valid sweep sequence the basic tessellator's area sum is the polygon's area and the advanced
tessellator's is at least that: any difference between the two is overlap of the advanced one -/
theorem adv_area_ge_basic (seq : List (P K × Bool)) (h : 2 ≤ seq.length) (hval : SweepValid seq) :
    sumW (posOf seq) (Basic.run seq) ≤ sumW (posOf seq) (Adv.run seq) := by
  rw [(run_area seq h).2 hval]; exact adv_run_area seq h

/-- the shoelace sum written out -/
theorem shoelace_formula (a : P K) (r : List (P K)) :
    shoelaceW (a :: r) = (((a :: r).zip (r ++ [a])).map (fun e => e.2.x * e.1.y - e.2.y * e.1.x)).sum :=
  shoelaceW_eq_sum a r

end Geometry

/-! ### non-vacuity over ℚ -/

/-- a 6-vertex strictly y-monotone polygon, chains interleaved L R L R -/
def exSeq : List (P ℚ × Bool) :=
  [(⟨0, 0⟩, true), (⟨-2, 1⟩, true), (⟨2, 2⟩, false), (⟨-1, 3⟩, true), (⟨3, 4⟩, false), (⟨0, 6⟩, true)]

example : 2 ≤ exSeq.length := by decide
example : SweepValid exSeq := by decide +kernel
example : NoCollinear exSeq := by decide +kernel
example : Basic.run exSeq = [(0, 1, 2), (2, 1, 3), (2, 3, 4), (4, 3, 5)] := by decide +kernel
example : sumW (posOf exSeq) (Basic.run exSeq) = 31 ∧ shoelaceW (polygonOf exSeq) = 31 := by decide +kernel

/-- a 7-vertex one with a reflex left chain (an ear `(0, 1, 2)` is cut on the same side, vertex 3
waits on the stack) -/
def exSeq2 : List (P ℚ × Bool) :=
  [(⟨0, 0⟩, true), (⟨-2, 1⟩, true), (⟨-1, 2⟩, true), (⟨-3, 3⟩, true), (⟨2, 4⟩, false), (⟨3, 5⟩, false),
   (⟨0, 6⟩, true)]

example : SweepValid exSeq2 ∧ NoCollinear exSeq2 := by decide +kernel
example : Basic.run exSeq2 = [(0, 1, 2), (0, 2, 4), (2, 3, 4), (4, 3, 5), (5, 3, 6)] := by decide +kernel

/-- the advanced tessellator on the same polygon: area sum = shoelace area (`adv_area_ge` is tight) -/
example : sumW (posOf exSeq2) (Adv.run exSeq2) = shoelaceW (polygonOf exSeq2) ∧ 0 < shoelaceW (polygonOf exSeq2) := by
  decide +kernel

example : SweepSorted exSeq2 := by decide +kernel

/-- a left chain on a parabola: sorted and convex -/
def exChainPos (i : Nat) : P ℚ := ⟨-((i : ℚ) * (10 - i)), i⟩

/-- non-vacuity of `flush_tris_convex` -/
example : (∀ i, i + 1 < [0, 1, 2, 3, 4, 5].length →
      After (evPos exChainPos [0, 1, 2, 3, 4, 5] (i + 1)) (evPos exChainPos [0, 1, 2, 3, 4, 5] i)) ∧
    (∀ i, i + 2 < [0, 1, 2, 3, 4, 5].length →
      0 ≤ sg (!false) * wind (evPos exChainPos [0, 1, 2, 3, 4, 5] i) (evPos exChainPos [0, 1, 2, 3, 4, 5] (i + 1))
        (evPos exChainPos [0, 1, 2, 3, 4, 5] (i + 2))) := by
  have h1 : ∀ i, i < 5 → After (evPos exChainPos [0, 1, 2, 3, 4, 5] (i + 1)) (evPos exChainPos [0, 1, 2, 3, 4, 5] i) := by
    decide +kernel
  have h2 : ∀ i, i < 4 → 0 ≤ sg (!false) * wind (evPos exChainPos [0, 1, 2, 3, 4, 5] i)
      (evPos exChainPos [0, 1, 2, 3, 4, 5] (i + 1)) (evPos exChainPos [0, 1, 2, 3, 4, 5] (i + 2)) := by
    decide +kernel
  exact ⟨fun i hi => h1 i (by simp at hi; omega), fun i hi => h2 i (by simp at hi; omega)⟩

/-- a chain that `flush_side` fans (6 buffered ids on the left): 4 triangles whose `wind`s add up to
the chain polygon's area, which is positive -/
example : sumW exChainPos (flushLevels #[0, 1, 2, 3, 4, 5] 6 false 7 1) = chainPoly exChainPos [0, 1, 2, 3, 4, 5] := by
  have := flush_area_sum exChainPos [0, 1, 2, 3, 4, 5] false
  simpa using this

/-- non-vacuity of `basic_fan_strict`: the state before the fourth vertex of `exSeq` (index 3, left;
stack `[2, 1]`, previous on the right) satisfies `VInv`, that vertex changes side, and the theorem
applies: the fan pair `(1, 2)` is strictly positive for the right-hand stack -/
example : FanPosT false (⟨-1, 3⟩ : P ℚ) [⟨2, 2⟩, ⟨-2, 1⟩] :=
  basic_fan_strict exSeq
    ((Basic.begin (⟨0, 0⟩ : P ℚ) 0 |>.vertex ⟨⟨-2, 1⟩, 1, true⟩).vertex ⟨⟨2, 2⟩, 2, false⟩) 3 ⟨⟨-1, 3⟩, 3, true⟩
    (by decide +kernel)
    (vertex_vInv exSeq _ 2 _ (vertex_vInv exSeq _ 1 _ (begin_vInv exSeq _ rfl) rfl rfl rfl) rfl rfl rfl)
    (by decide) rfl rfl (Or.inr rfl) (by decide +kernel)

/-- non-vacuity of `same_side_ear_convex`: a convex ear on the left chain -/
example : earConvex (⟨⟨0, 2⟩, 2, true⟩ : MV ℚ) ⟨⟨-1, 1⟩, 1, true⟩ ⟨⟨0, 0⟩, 0, true⟩ = true := by decide +kernel

/-- a valid sequence that is NOT in general position: three collinear left-chain vertices -/
def exCol : List (P ℚ × Bool) :=
  [(⟨0, 0⟩, true), (⟨-1, 1⟩, true), (⟨-2, 2⟩, true), (⟨-3, 3⟩, true), (⟨0, 4⟩, false)]

/-- **observation (not a finding)**: on a valid sweep sequence with three collinear chain vertices
the ear test `cross ≥ 0` passes and a zero-area triangle `(0, 1, 2)` is emitted (three DISTINCT ids,
so C02's "none references the same vertex twice" holds); `NoCollinear` in
`basic_triangles_oriented` cannot be dropped. -/
theorem basic_collinear_zero_area_witness :
    SweepValid exCol ∧ (0, 1, 2) ∈ Basic.run exCol ∧ triW (posOf exCol) (0, 1, 2) = 0 := by
  decide +kernel

end Lyon.C02c
