/-
  C03 (growth c) — `tessellate_circle` END TO END on the model, as theorems.

  `fill_circle` (`basic_shapes.rs`, model `Shapes.fillCircle`, tied bit for bit by `shape:32`) emits
  its triangles directly by recursive arc subdivision.  Over an ordered field with `cos`, `sin`, `π`,
  `sqrt` as parameters and the laws `CircTrig` (`Lemmas/CircleCoverTrig.lean`: `cos² + sin² = 1`,
  addition formulas, `sin > 0` on `(0, π)`, `π > 0`, `cos(π/2) = 0`, `sin x ≤ x`):

  * `circle_tris_cover_edges`     (no law at all) a point on the inner side of every boundary edge
                                  of the mesh lies in an emitted triangle
  * `circle_tris_cover_polygon`   the emitted triangles cover the inscribed regular `4·2ⁿ`-gon
                                  `V k = c + |r|·(cos kδ, sin kδ)`, `δ = π/(2·2ⁿ)`, `n = circleRecursions`
                                  (every point on the inner side of its `4·2ⁿ` sides is in an emitted
                                  triangle), the polygon closes (`V (4·2ⁿ) = V 0`), and every point of
                                  every emitted triangle is in the closed disc of radius `|r|`
                                  (each triangle is non-degenerate with its vertices on the circle)
  * `circle_tris_union_eq_polygon`  and nothing else: a point is in an emitted triangle IFF it is on the
                                  inner side of all sides of that polygon (every polygon vertex is on
                                  the inner side of every side; a non-degenerate triangle with its
                                  vertices in a half-plane lies in it)
  * `circle_polygon_vertices_emitted`  that polygon is the polygon of the emitted vertices: the
                                  boundary edges of the mesh are exactly its sides, every `V k` is an
                                  emitted vertex
  * `circle_covers_inner_disc`    every point within `|r|·cos(π/(4·2ⁿ))` of the centre is covered
  * `circle_sagitta_le_tolerance` `arc_len/step ≤ 2ⁿ` ⟹ `|r| − min(tol,|r|) ≤ |r|·cos(π/(4·2ⁿ))`
  * `fill_circle_within_tolerance` both directions of the property for the circle: every point
                                  farther than `tol` inside the circle is covered, no point outside
                                  the circle is covered — hypotheses: the laws, `sqrt` is a square
                                  root, and the depth inequality `arc_len/step ≤ 2^circleRecursions`
                                  (what `.ceil().log2().ceil() as u32` computes; discharged over ℝ in
                                  `Props/C03Real.lean`: `fill_circle_within_tolerance_real` has no
                                  hypothesis but `r ≠ 0`, `tol > 0`).

  Path-builder helpers (`builder.rs` `add_circle`, `add_rounded_rectangle`, model `PathShapes`, tied
  by `helpers:32`): `Props/C03d.lean`.

  Non-vacuity of `CircTrig`: `real_circTrig` (`Props/C03Real.lean`).
-/
import LyonVerif.Lemmas.CircleCoverInside

set_option linter.unusedSectionVars false
set_option linter.unusedVariables false

namespace Lyon.C03c
open Lyon Lyon.Shapes Lyon.C03

variable {K : Type} [Field K] [LinearOrder K] [IsStrictOrderedRing K] [Transc K]

/-- **`fill_circle` covers the polygon of its boundary edges** — for every `cos`/`sin`:
a point on the inner side of each of the `4·2ⁿ` boundary edges of the mesh (the leaves of the four
`fill_border_radius` recursions) lies in one of the emitted triangles. -/
theorem circle_tris_cover_edges (c : P K) (r tol : K) (m : Mesh K) (h : fillCircle c r tol = some m)
    (p : P K)
    (hp : ∀ e ∈ circleEdges c (Scalar.abs r) (circleRecursions (Scalar.abs r) tol), Inner e p) :
    Covered m p ∧ (circleEdges c (Scalar.abs r) (circleRecursions (Scalar.abs r) tol)).length
      = 4 * 2 ^ circleRecursions (Scalar.abs r) tol :=
  ⟨circle_covers_edges c r tol m h p hp, circleEdges_length ..⟩

/-- **The triangles `fill_circle` emits cover the inscribed regular `4·2ⁿ`-gon and stay inside the
circle.**  `V k = regVert c |r| n k = c + |r|·(cos kδ, sin kδ)` with `δ = π/(2·2ⁿ)`,
`n = circleRecursions |r| tol`:
1. a point on the inner side of all `4·2ⁿ` sides `V k → V (k+1)` lies in an emitted triangle;
2. the polygon is closed: `V (4·2ⁿ) = V 0`, and every `V k` is on the circle;
3. every point of every emitted (closed) triangle is in the closed disc of radius `|r|`. -/
theorem circle_tris_cover_polygon (L : CircTrig K) (c : P K) (r tol : K) (m : Mesh K)
    (h : fillCircle c r tol = some m) :
    (∀ p : P K,
      (∀ k : Nat, k < 4 * 2 ^ circleRecursions (Scalar.abs r) tol →
        Inner (regVert c (Scalar.abs r) (circleRecursions (Scalar.abs r) tol) k,
               regVert c (Scalar.abs r) (circleRecursions (Scalar.abs r) tol) (k + 1)) p) →
      Covered m p) ∧
    (regVert c (Scalar.abs r) (circleRecursions (Scalar.abs r) tol) (4 * 2 ^ circleRecursions (Scalar.abs r) tol)
        = regVert c (Scalar.abs r) (circleRecursions (Scalar.abs r) tol) 0 ∧
      ∀ k, OnCircle c (Scalar.abs r) (regVert c (Scalar.abs r) (circleRecursions (Scalar.abs r) tol) k)) ∧
    (∀ p : P K, Covered m p → (p - c).sqLen ≤ Scalar.abs r * Scalar.abs r) := by
  set R := Scalar.abs r
  set n := circleRecursions R tol
  refine ⟨?_, ⟨?_, fun k => pos_on_circle L ..⟩, fun p hc => (circle_good L c r tol m h).covered_in_disc hc⟩
  · intro p hp
    apply circle_covers_edges c r tol m h p
    intro e he
    obtain ⟨k, hk, rfl⟩ := circleEdges_regular L c R n e he
    exact hp k hk
  · have hne : (2 : K) ^ n ≠ 0 := pow_ne_zero _ two_ne_zero
    have e1 : ((4 * 2 ^ n : Nat) : K) * ((Transc.pi : K) / (2 * 2 ^ n)) = 2 * Transc.pi := by
      push_cast; field_simp; ring
    apply P.ext'
    · simp only [regVert, pos_x, e1, L.cos_two_pi, Nat.cast_zero, zero_mul, L.cos_zero]
    · simp only [regVert, pos_y, e1, L.sin_two_pi, Nat.cast_zero, zero_mul, L.sin_zero]

/-- **The union of the triangles `fill_circle` emits IS the inscribed regular `4·2ⁿ`-gon**: a point
lies in some emitted (closed) triangle iff it is on the inner side of all `4·2ⁿ` sides
`V k → V (k+1)` of the polygon of the emitted vertices. -/
theorem circle_tris_union_eq_polygon (L : CircTrig K) (c : P K) (r tol : K) (m : Mesh K)
    (h : fillCircle c r tol = some m) (p : P K) :
    Covered m p ↔
      ∀ k : Nat, k < 4 * 2 ^ circleRecursions (Scalar.abs r) tol →
        Inner (regVert c (Scalar.abs r) (circleRecursions (Scalar.abs r) tol) k,
               regVert c (Scalar.abs r) (circleRecursions (Scalar.abs r) tol) (k + 1)) p :=
  ⟨fun hc k hk => circle_tris_inside_polygon L c r tol m h p hc k hk,
   fun hp => (circle_tris_cover_polygon L c r tol m h).1 p hp⟩

/-- **The polygon of `circle_tris_cover_polygon` is the polygon of the emitted vertices.**
A pair of points is a boundary edge of the mesh (a leaf of one of the four `fill_border_radius`
recursions) iff it is a side `V k → V (k+1)`, `k < 4·2ⁿ`; every `V k` (`k ≤ 4·2ⁿ`) is one of the
`4·2ⁿ` vertices `fill_circle` emits. -/
theorem circle_polygon_vertices_emitted (L : CircTrig K) (c : P K) (r tol : K) (m : Mesh K)
    (h : fillCircle c r tol = some m) :
    (∀ e : P K × P K, e ∈ circleEdges c (Scalar.abs r) (circleRecursions (Scalar.abs r) tol) ↔
      ∃ k : Nat, k < 4 * 2 ^ circleRecursions (Scalar.abs r) tol ∧
        e = (regVert c (Scalar.abs r) (circleRecursions (Scalar.abs r) tol) k,
             regVert c (Scalar.abs r) (circleRecursions (Scalar.abs r) tol) (k + 1))) ∧
    (∀ k : Nat, k ≤ 4 * 2 ^ circleRecursions (Scalar.abs r) tol →
      regVert c (Scalar.abs r) (circleRecursions (Scalar.abs r) tol) k ∈ m.verts) ∧
    m.verts.length = 4 * 2 ^ circleRecursions (Scalar.abs r) tol := by
  set R := Scalar.abs r
  set n := circleRecursions R tol
  refine ⟨mem_circleEdges_iff L c R n, ?_, (circle_counts c r tol m h).1⟩
  intro k hk
  have hv := circle_edge_verts c r tol m h
  have hp : 0 < 2 ^ n := Nat.pos_of_ne_zero (by positivity)
  by_cases hlt : k < 4 * 2 ^ n
  · exact (hv _ ((mem_circleEdges_iff L c R n _).2 ⟨k, hlt, rfl⟩)).1
  · have hk1 : k = (4 * 2 ^ n - 1) + 1 := by omega
    rw [hk1]
    exact (hv _ ((mem_circleEdges_iff L c R n _).2 ⟨4 * 2 ^ n - 1, by omega, rfl⟩)).2

/-- **Every point within the polygon's inner radius `|r|·cos(π/(4·2ⁿ))` of the centre is covered.** -/
theorem circle_covers_inner_disc (L : CircTrig K) (c : P K) (r tol : K) (m : Mesh K)
    (h : fillCircle c r tol = some m) (p : P K)
    (hp : (p - c).sqLen ≤ (Scalar.abs r * Transc.cos (halfStep K (circleRecursions (Scalar.abs r) tol)))
        * (Scalar.abs r * Transc.cos (halfStep K (circleRecursions (Scalar.abs r) tol)))) :
    Covered m p := by
  set R := Scalar.abs r with hR
  set n := circleRecursions R tol
  apply circle_covers_edges c r tol m h p
  intro e he
  obtain ⟨k, hk, rfl⟩ := circleEdges_regular L c R n e he
  have hne : (2 : K) ^ n ≠ 0 := pow_ne_zero _ two_ne_zero
  have ea : (k : K) * ((Transc.pi : K) / (2 * 2 ^ n)) = (2 * (k : K) + 1) * halfStep K n - halfStep K n := by
    unfold halfStep; field_simp; ring
  have eb : ((k + 1 : Nat) : K) * ((Transc.pi : K) / (2 * 2 ^ n)) = (2 * (k : K) + 1) * halfStep K n + halfStep K n := by
    unfold halfStep; push_cast; field_simp; ring
  simp only [regVert]
  rw [ea, eb]
  exact chord_inner L c R _ _ p (abs_nonneg r) (le_of_lt (halfStep_sin_pos L n))
    (le_of_lt (halfStep_cos_pos L n)) hp

/-- **The depth is enough**: when `arc_len / step ≤ 2ⁿ` the polygon's inner radius is within the
(clamped) tolerance of the radius. -/
theorem circle_sagitta_le_tolerance (L : CircTrig K) (r tol : K) (n : Nat) (hr : 0 < r) (ht : 0 < tol)
    (hsq : ∀ x : K, 0 ≤ x → Transc.sqrt x * Transc.sqrt x = x) (hsq0 : ∀ x : K, 0 ≤ Transc.sqrt x)
    (hdepth : Scalar.half * Transc.pi * r / circleFlatteningStep r tol ≤ 2 ^ n) :
    r - min tol r ≤ r * Transc.cos (halfStep K n) :=
  inner_radius_ge L r tol n hr ht hsq hsq0 hdepth

/-- **`tessellate_circle` fills the circle to within the tolerance** (model, exact arithmetic).
For `r ≠ 0`, `tol > 0`: a mesh is produced; every point at distance `≤ |r| − tol` from the centre
(farther than `tol` inside the boundary circle) lies in an emitted triangle, and every point of an
emitted triangle is at distance `≤ |r|` from the centre (nothing outside the circle is covered).
Hypotheses beyond the laws: `sqrt` is the square root, and `hdepth`: the depth computed by
`(arc_len/step).ceil().log2().ceil() as u32` satisfies `arc_len/step ≤ 2^depth`. -/
theorem fill_circle_within_tolerance (L : CircTrig K) (c : P K) (r tol : K) (hr : r ≠ 0) (ht : 0 < tol)
    (hsq : ∀ x : K, 0 ≤ x → Transc.sqrt x * Transc.sqrt x = x) (hsq0 : ∀ x : K, 0 ≤ Transc.sqrt x)
    (hdepth : Scalar.half * Transc.pi * |r| / circleFlatteningStep |r| tol
      ≤ 2 ^ circleRecursions |r| tol) :
    ∃ m, fillCircle c r tol = some m ∧
      (∀ p : P K, tol ≤ |r| → (p - c).sqLen ≤ (|r| - tol) * (|r| - tol) → Covered m p) ∧
      (∀ p : P K, Covered m p → (p - c).sqLen ≤ |r| * |r|) := by
  have hR : 0 < |r| := abs_pos.2 hr
  have hsome : ∃ m, fillCircle c r tol = some m := by
    unfold fillCircle
    simp only []
    have : ¬ ((Scalar.abs r == (Scalar.zero : K)) = true) := by
      rw [sc_beq]; simp only [sc_abs, sc_zero]; exact ne_of_gt hR
    rw [if_neg this]
    exact ⟨_, rfl⟩
  obtain ⟨m, hm⟩ := hsome
  refine ⟨m, hm, ?_, (circle_tris_cover_polygon L c r tol m hm).2.2⟩
  intro p htr hp
  apply circle_covers_inner_disc L c r tol m hm p
  have hin := inner_radius_ge L |r| tol (circleRecursions |r| tol) hR ht hsq hsq0 hdepth
  rw [min_eq_left htr] at hin
  show _ ≤ (|r| * _) * (|r| * _)
  have h0 : 0 ≤ |r| - tol := by linarith
  exact le_trans hp (mul_self_le_mul_self h0 hin)

end Lyon.C03c

/-! ### non-vacuity (the laws: `real_circTrig` in `Props/C03Real.lean`) -/

namespace Lyon.C03c.Toy
open Lyon Lyon.Shapes Lyon.C03 Lyon.C03c

set_option warn.classDefReducibility false

/-- a `Transc ℚ` with constant `cos = 1`, `sin = 0`, depth 0: enough to run `fillCircle` to the
square of the axis vertices and instantiate the law-free theorem -/
def toyTransc : Transc ℚ where
  sqrt := fun x => x
  cbrt := fun x => x
  sin := fun _ => 0
  cos := fun _ => 1
  tan := fun _ => 0
  acos := fun _ => 0
  atan2 := fun _ _ => 0
  pow := fun x _ => x
  log2 := fun _ => 0
  ln := fun _ => 0
  floor := fun x => x
  ceil := fun x => x
  toNat := fun _ => 0
  fmod := fun x _ => x
  eps := 0
  pi := 3
  isNaN := fun _ => false
  isFinite := fun _ => true

attribute [local instance] toyTransc

/-- `circle_tris_cover_edges` on a concrete input: the centre of the circle of radius 2 is on the
inner side of the four boundary edges of the depth-0 mesh (the square), hence covered. -/
example : (∃ m, fillCircle (⟨0, 0⟩ : P ℚ) 2 1 = some m) ∧ circleRecursions (Scalar.abs (2 : ℚ)) 1 = 0 ∧
    (∀ e ∈ circleEdges (⟨0, 0⟩ : P ℚ) (Scalar.abs 2) 0, Inner e (⟨0, 0⟩ : P ℚ)) := by
  refine ⟨⟨_, by simp [fillCircle, geom]; rfl⟩, rfl, ?_⟩
  intro e he
  simp only [circleEdges, leafEdges, axisVerts, List.getD_cons_zero, List.getD_cons_succ, List.mem_append,
    List.mem_cons, List.not_mem_nil, or_false] at he
  rcases he with ((he | he) | he) | he <;> subst he <;> simp [Inner, geom]

end Lyon.C03c.Toy
