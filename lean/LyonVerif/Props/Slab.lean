/-
  Soundness of the slab checker (`Model/Slab.lean`, DESIGN.md 4.3).

  `check inp` runs on exact rationals in the model executables (C01, C02, C03, C06, C18: the real
  output of lyon's tessellators is the input).  Here it is proved, over every linearly ordered
  field, that an empty failure list means what the properties need:

  * `check_sound`   if `check inp` records no failure then at EVERY generic point `q` of the plane
                    the mode's formula holds for the winding number of the outline and the number
                    of triangles covering `q`, or `q` is within the tolerance `d2` (squared
                    distance) of an outline edge.
  * `mem_ordinates_only`, `generic_of`, `generic_not_vertexLevel`
                    what "generic" means in terms of the input: a cut ordinate is the ordinate of
                    a vertex of the outline or of a triangle, or of a crossing of two segments'
                    supporting lines; so `q` is generic if it is level with none of these and not
                    on a segment's supporting line at its own height.
  * `ratScalar_eq_fieldScalar`, `check_sound_rat`
                    the executable `Scalar ℚ` instance (`Model/RatScalar.lean`) IS the field
                    instance at `K = ℚ`, so the theorem is about the function the executables run.
  * `check0`, `generic0`   non-vacuity: a concrete input (a triangle covered by itself) passes the
                    checker, evaluated inside the logic, and has generic points.

  The proof: `Lemmas/SlabAlg.lean` (order preservation inside a slab, convexity of the band,
  bisection), `Lemmas/SlabList.lean` (cut ordinates), `Lemmas/SlabSweep.lean` (sweep invariant,
  meaning of the counters).
-/
import LyonVerif.Lemmas.SlabSweep
import LyonVerif.Model.RatScalar

set_option linter.unusedSectionVars false
set_option linter.unusedVariables false

namespace Lyon.Slab
open Lyon

-- In this file every `Scalar` instance is the ordered-field one; the executable rational instance
-- is only referred to by name (`ratScalar_eq_fieldScalar`).
attribute [-instance] Lyon.instScalarRat

variable {K : Type} [Field K] [LinearOrder K] [IsStrictOrderedRing K]

/-- `q` is in general position with respect to the checker's input: its ordinate is not a cut
ordinate (not level with any vertex of the outline or of a triangle, nor with a crossing of two
segments — see `generic_iff`), and `q` is not on the supporting line of a segment whose y-range
contains `q.y`. The excluded set is a finite union of lines and segments. -/
structure Generic (inp : Input K) (q : P K) : Prop where
  level : q.y ∉ ordinates (checkItems inp) (checkExtra inp)
  offLine : ∀ it ∈ checkItems inp, it.a.y ≤ q.y → q.y < it.b.y → it.xAt q.y ≠ q.x

/-- `q` lies in the tolerance band: within squared distance `d2` of one outline edge -/
def InBand (inp : Input K) (q : P K) : Prop := ∃ e ∈ inp.edges, sqDistSeg q e.1 e.2 ≤ inp.d2

/-! ### auxiliary facts -/

theorem holds_zero (m : Mode) (r : Rule) : m.holds r 0 0 = true := by
  cases m <;> cases r <;> rfl

theorem foldl_fails {β F : Type} (g : β → List F × Nat) : ∀ (l : List β) (acc : Nat × Nat × List F),
    (l.foldl (fun (acc : Nat × Nat × List F) (yy : β) =>
        (acc.1 + 1, acc.2.1 + (g yy).2, (g yy).1 ++ acc.2.2)) acc).2.2 = [] →
      acc.2.2 = [] ∧ ∀ yy ∈ l, (g yy).1 = []
  | [], acc, h => ⟨h, by simp⟩
  | y :: l, acc, h => by
    rw [List.foldl_cons] at h
    obtain ⟨h1, h2⟩ := foldl_fails g l _ h
    simp only [List.append_eq_nil_iff] at h1
    refine ⟨h1.2, ?_⟩
    intro yy hyy
    rcases List.mem_cons.mp hyy with rfl | h'
    · exact h1.1
    · exact h2 yy h'

/-- no failure overall means no failure in any slab -/
theorem check_slabs (inp : Input K) (hok : (check inp).fails = []) :
    ∀ p ∈ slabPairs (ordinates (checkItems inp) (checkExtra inp)),
      (sweepSlab inp.mode inp.rule inp.edges inp.d2 inp.tris.length (checkItems inp) p.1 p.2).1 = [] := by
  unfold check at hok
  exact (foldl_fails (fun yy : K × K =>
    sweepSlab inp.mode inp.rule inp.edges inp.d2 inp.tris.length (checkItems inp) yy.1 yy.2) _ _ hok).2

theorem mem_checkItems {inp : Input K} {it : Item K} (h : it ∈ checkItems inp) :
    it.a.y < it.b.y ∧ it.tri ≤ inp.tris.length := by
  unfold checkItems at h
  rcases List.mem_append.mp h with h | h
  · have := mem_edgeItems h
    exact ⟨this.1, by omega⟩
  · have := mem_triItems h
    exact ⟨this.1, this.2.2.1⟩

theorem slabSorted_pairwise (items : List (Item K)) (y0 y1 : K) :
    (slabSorted items y0 y1).Pairwise (fun a b => a.1 ≤ b.1) := by
  unfold slabSorted
  have h := List.pairwise_mergeSort (le := fun (a b : K × Item K) => decide (a.1 ≤ b.1))
    (fun a b c hab hbc => by simp only [decide_eq_true_eq] at *; exact le_trans hab hbc)
    (fun a b => by simp only [Bool.or_eq_true, decide_eq_true_eq]; exact le_total a.1 b.1)
    ((items.filter (fun it => it.spans y0 y1)).map (fun it => (it.xAt ((y0 + y1) / Scalar.two), it)))
  exact h.imp (fun {a b} hab => by simpa using hab)

theorem slabSorted_perm (items : List (Item K)) (y0 y1 : K) :
    (slabSorted items y0 y1).Perm
      ((items.filter (fun it => it.spans y0 y1)).map (fun it => (it.xAt ((y0 + y1) / Scalar.two), it))) :=
  List.mergeSort_perm _ _

theorem mem_slabSorted {items : List (Item K)} {y0 y1 : K} {a : K × Item K}
    (h : a ∈ slabSorted items y0 y1) :
    a.2 ∈ items ∧ a.2.spans y0 y1 = true ∧ a.1 = a.2.xAt ((y0 + y1) / Scalar.two) := by
  have h' := (slabSorted_perm items y0 y1).mem_iff.mp h
  obtain ⟨it, hit, rfl⟩ := List.mem_map.mp h'
  obtain ⟨h1, h2⟩ := List.mem_filter.mp hit
  exact ⟨h1, h2, rfl⟩

/-! ### the soundness theorem -/

/-- **Soundness of the slab checker.**  If `check inp` records no failure, then at every generic
point `q` the formula of the mode holds for the winding number `winding inp.edges q` of the outline
and the number `coverage inp.tris q` of triangles covering `q`, or `q` lies within the tolerance of
an outline edge. -/
theorem check_sound (inp : Input K) (hok : (check inp).fails = []) (q : P K) (hgen : Generic inp q) :
    inp.mode.holds inp.rule (winding inp.edges q) (coverage inp.tris q) = true ∨ InBand inp q := by
  rw [winding_eq, coverage_eq]
  have hslabs := check_slabs inp hok
  obtain ⟨hlevel, hoff⟩ := hgen
  generalize hitems : checkItems inp = items at *
  generalize hys : ordinates items (checkExtra inp) = ys at *
  have hit : ∀ it ∈ items, it.a.y < it.b.y ∧ it.tri ≤ inp.tris.length := by
    intro it h; rw [← hitems] at h; exact mem_checkItems h
  have hend : ∀ it ∈ items, it.a.y ∈ ys ∧ it.b.y ∈ ys := by
    intro it h
    rw [← hys, mem_ordinates, mem_ordinates]
    unfold rawOrdinates
    constructor
    · apply List.mem_append_left; apply List.mem_append_left
      exact List.mem_flatMap.mpr ⟨it, h, by simp⟩
    · apply List.mem_append_left; apply List.mem_append_left
      exact List.mem_flatMap.mpr ⟨it, h, by simp⟩
  have hcross : ∀ i ∈ items, ∀ j ∈ items, ∀ y, crossY i j = some y → crossY j i = some y → y ∈ ys := by
    intro i hi j hj y h1 h2
    rw [← hys, mem_ordinates]
    unfold rawOrdinates
    exact List.mem_append_right _ (mem_allCrossings items i j y hi hj h1 h2)
  -- nothing left of `q`: both counters are zero
  have hzero : items.filter (fun it => it.leftOf q) = [] →
      (inp.mode.holds inp.rule (wSum (items.filter (fun it => it.leftOf q)))
        (fCount inp.tris.length (items.filter (fun it => it.leftOf q))) = true ∨ InBand inp q) := by
    intro h
    left
    rw [h, fCount_nil]
    exact holds_zero _ _
  have hstrict : ys.Pairwise (· < ·) := by rw [← hys]; exact ordinates_strict _ _
  rcases slab_locate ys hstrict q.y hlevel with hlow | hhigh | ⟨p, hp, hp1, hp2, hp3⟩
  · -- below every cut ordinate
    apply hzero
    rw [List.filter_eq_nil_iff]
    intro it h hl
    rw [leftOf_iff] at hl
    exact absurd (hlow _ (hend it h).1) (not_lt.mpr hl.1)
  · -- above every cut ordinate
    apply hzero
    rw [List.filter_eq_nil_iff]
    intro it h hl
    rw [leftOf_iff] at hl
    exact absurd (hhigh _ (hend it h).2) (not_lt.mpr hl.2.1.le)
  · -- strictly inside the slab `(y0, y1)`
    obtain ⟨y0, y1⟩ := p
    simp only at hp1 hp2 hp3
    have hfail := hslabs (y0, y1) hp
    simp only at hfail
    have e2 : (Scalar.two : K) = 2 := sc_two
    have hym0 : y0 < (y0 + y1) / Scalar.two := by rw [e2]; linarith
    have hym1 : (y0 + y1) / Scalar.two < y1 := by rw [e2]; linarith
    generalize hymdef : (y0 + y1) / Scalar.two = ym at *
    -- an item's half-open y-range contains `q.y` iff the item spans the slab
    have hspan : ∀ it ∈ items, (it.spans y0 y1 = true ↔ (it.a.y ≤ q.y ∧ q.y < it.b.y)) := by
      intro it h
      rw [spans_iff]
      constructor
      · rintro ⟨h1, h2⟩; exact ⟨by linarith, by linarith⟩
      · rintro ⟨h1, h2⟩
        constructor
        · rcases hp3 _ (hend it h).1 with h3 | h3
          · exact h3
          · linarith
        · rcases hp3 _ (hend it h).2 with h3 | h3
          · linarith
          · exact h3
    have hmem : ∀ a ∈ slabSorted items y0 y1,
        a.2 ∈ items ∧ a.2.spans y0 y1 = true ∧ a.1 = a.2.xAt ym := by
      intro a ha
      have := mem_slabSorted ha
      rw [hymdef] at this
      exact this
    -- sides: an item of the slab is strictly left or strictly right of `q`
    have hleft : ∀ a ∈ slabSorted items y0 y1, a.2.leftOf q = true → a.2.xAt q.y < q.x := by
      intro a ha h; rw [leftOf_iff] at h; exact h.2.2
    have hright : ∀ a ∈ slabSorted items y0 y1, a.2.leftOf q = false → q.x < a.2.xAt q.y := by
      intro a ha h
      obtain ⟨h1, h2, _⟩ := hmem a ha
      have hs := (hspan _ h1).mp h2
      have hne := hoff _ h1 hs.1 hs.2
      have hnl : ¬ a.2.xAt q.y < q.x := by
        intro hlt
        have : a.2.leftOf q = true := (leftOf_iff _ _).mpr ⟨hs.1, hs.2, hlt⟩
        rw [h] at this; exact absurd this (by simp)
      exact lt_of_le_of_ne (not_lt.mp hnl) (Ne.symm hne)
    -- the order at the mid-ordinate separates the two sides
    have hsep : ∀ a b, a ∈ slabSorted items y0 y1 → b ∈ slabSorted items y0 y1 →
        a.2.leftOf q = false → b.2.leftOf q = true → ¬ a.1 ≤ b.1 := by
      intro a b ha hb hpa hpb hle
      obtain ⟨ha1, ha2, ha3⟩ := hmem a ha
      obtain ⟨hb1, hb2, hb3⟩ := hmem b hb
      rw [spans_iff] at ha2 hb2
      rw [ha3, hb3] at hle
      have hlt : b.2.xAt q.y < a.2.xAt q.y := lt_trans (hleft b hb hpb) (hright a ha hpa)
      obtain ⟨y, hy0, hy1, hc1, hc2⟩ := order_cross b.2 a.2 y0 y1 q.y ym hb2.1 hb2.2 ha2.1 ha2.2
        hp1 hp2 hym0 hym1 hlt hle
      rcases hp3 y (hcross _ hb1 _ ha1 y hc1 hc2) with h | h
      · exact absurd hy0 (not_lt.mpr h)
      · exact absurd hy1 (not_lt.mpr h)
    have hsplit := pairwise_split (fun (a b : K × Item K) => a.1 ≤ b.1)
      (fun xi : K × Item K => xi.2.leftOf q) (slabSorted items y0 y1)
      (slabSorted_pairwise items y0 y1) hsep
    -- the items left of `q` are (a permutation of) the first part
    have hperm : ((slabSorted items y0 y1).filter (fun xi : K × Item K => xi.2.leftOf q)).map Prod.snd
        |>.Perm (items.filter (fun it => it.leftOf q)) := by
      have e1 : ((slabSorted items y0 y1).filter (fun xi : K × Item K => xi.2.leftOf q)).map Prod.snd
          = ((slabSorted items y0 y1).map Prod.snd).filter (fun it => it.leftOf q) := by
        rw [List.filter_map]; rfl
      rw [e1]
      have p1 : ((slabSorted items y0 y1).map Prod.snd).Perm (items.filter (fun it => it.spans y0 y1)) := by
        have := (slabSorted_perm items y0 y1).map Prod.snd
        rw [List.map_map] at this
        rw [hymdef] at this
        have e : (Prod.snd ∘ fun it : Item K => (it.xAt ym, it)) = id := rfl
        rw [e, List.map_id] at this
        exact this
      have p2 := p1.filter (fun it => it.leftOf q)
      rw [List.filter_filter] at p2
      have e3 : items.filter (fun it => it.leftOf q && it.spans y0 y1)
          = items.filter (fun it => it.leftOf q) := by
        apply List.filter_congr
        intro it h
        by_cases hl : it.leftOf q = true
        · have h' := (leftOf_iff _ _).mp hl
          rw [hl, (hspan it h).mpr ⟨h'.1, h'.2.1⟩]; rfl
        · have : it.leftOf q = false := by simpa using hl
          rw [this]; rfl
      rw [e3] at p2
      exact p2
    generalize hL : (slabSorted items y0 y1).filter (fun xi : K × Item K => xi.2.leftOf q) = L at *
    generalize hR : (slabSorted items y0 y1).filter (fun xi : K × Item K => !xi.2.leftOf q) = R at *
    have hLmem : ∀ a ∈ L, a ∈ slabSorted items y0 y1 ∧ a.2.leftOf q = true := by
      intro a ha; rw [← hL] at ha; exact List.mem_filter.mp ha
    have hRmem : ∀ a ∈ R, a ∈ slabSorted items y0 y1 ∧ a.2.leftOf q = false := by
      intro a ha; rw [← hR] at ha
      have := List.mem_filter.mp ha
      exact ⟨this.1, by simpa using this.2⟩
    rw [← wSum_perm hperm, ← fCount_perm _ hperm]
    cases L with
    | nil =>
      have : items.filter (fun it => it.leftOf q) = [] := by
        have := hperm.symm
        simpa using this
      have hz := hzero this
      rw [this] at hz
      exact hz
    | cons xi L' =>
      -- the sweep starts with `xi`, passes `L'`, and examines the boundary to `R`
      unfold sweepSlab at hfail
      rw [hsplit] at hfail
      simp only [List.cons_append] at hfail
      have hgo := sweepGo_ok inp.mode inp.rule inp.edges inp.d2 y0 y1 ((y0 + y1) / Scalar.two) L'
        ((Acc.init inp.tris.length).step xi.2) xi.2 R hfail
      rw [hymdef] at hgo
      have hrun : ((Acc.init inp.tris.length).step xi.2).run (L'.map Prod.snd)
          = (Acc.init inp.tris.length).run ((xi :: L').map Prod.snd) := rfl
      rw [hrun] at hgo
      have htri : ∀ it ∈ (xi :: L').map Prod.snd, it.tri ≤ inp.tris.length := by
        intro it h
        obtain ⟨a, ha, rfl⟩ := List.mem_map.mp h
        exact (hit _ (hmem a (hLmem a ha).1).1).2
      obtain ⟨hw, hf⟩ := run_init inp.tris.length ((xi :: L').map Prod.snd) htri
      rw [hw, hf] at hgo
      cases R with
      | nil => left; exact hgo.1 rfl
      | cons xr R' =>
        obtain ⟨x, r⟩ := xr
        -- the last item passed is strictly left of `r` at the mid-ordinate
        have hlast : (L'.map Prod.snd).getLastD xi.2 ∈ (xi :: L').map Prod.snd := by
          have := getLastD_mem (L'.map Prod.snd) xi.2
          simpa using this
        obtain ⟨a, ha, hae⟩ := List.mem_map.mp hlast
        have hr := hRmem (x, r) (by simp)
        have hlt : ((L'.map Prod.snd).getLastD xi.2).xAt ym < x := by
          have h1 := hsep (x, r) a hr.1 (hLmem a ha).1 hr.2 (hLmem a ha).2
          have h2 := (hmem a (hLmem a ha).1).2.2
          rw [← hae, ← h2]
          exact not_le.mp h1
        have hgap := hgo.2 x r R' rfl hlt
        unfold gapOk at hgap
        rw [Bool.or_eq_true] at hgap
        rcases hgap with hgap | hgap
        · left; exact hgap
        · right
          have hne : y0 ≠ y1 := by intro e; rw [e] at hp1; exact lt_irrefl _ (lt_trans hp1 hp2)
          refine bandRec_sound inp.edges inp.d2 q bandDepth y0 y1 _ _ _ _ hgap (lt_trans hp1 hp2)
            hp1.le hp2.le ?_ ?_
          · rw [← xAt_lerp _ y0 y1 q.y hne, ← hae]
            exact (hleft a (hLmem a ha).1 (hLmem a ha).2).le
          · rw [← xAt_lerp _ y0 y1 q.y hne]
            exact (hright (x, r) hr.1 hr.2).le


/-! ### what `Generic` means in terms of the input -/

theorem mkItem_ends {p q : P K} {e : Bool} {tri : Nat} {it : Item K} (h : mkItem p q e tri = some it) :
    (it.a = p ∧ it.b = q) ∨ (it.a = q ∧ it.b = p) := by
  unfold mkItem at h
  by_cases h1 : p.y < q.y
  · rw [if_pos h1] at h; cases h; exact Or.inl ⟨rfl, rfl⟩
  · rw [if_neg h1] at h
    by_cases h2 : q.y < p.y
    · rw [if_pos h2] at h; cases h; exact Or.inr ⟨rfl, rfl⟩
    · rw [if_neg h2] at h; cases h

/-- `y` is the ordinate of a vertex of the outline or of a triangle -/
def VertexLevel (inp : Input K) (y : K) : Prop :=
  (∃ e ∈ inp.edges, y = e.1.y ∨ y = e.2.y) ∨ (∃ t ∈ inp.tris, y = t.1.y ∨ y = t.2.1.y ∨ y = t.2.2.y)

theorem mem_checkExtra (inp : Input K) (y : K) : y ∈ checkExtra inp ↔ VertexLevel inp y := by
  unfold checkExtra VertexLevel
  simp only [List.mem_append, List.mem_flatMap, List.mem_cons, List.mem_nil_iff, or_false]

theorem ends_vertexLevel {inp : Input K} {it : Item K} (h : it ∈ checkItems inp) :
    VertexLevel inp it.a.y ∧ VertexLevel inp it.b.y := by
  unfold checkItems at h
  rcases List.mem_append.mp h with h | h
  · unfold edgeItems at h
    obtain ⟨e, he, hm⟩ := List.mem_filterMap.mp h
    rcases mkItem_ends hm with ⟨ha, hb⟩ | ⟨ha, hb⟩
    · exact ⟨Or.inl ⟨e, he, Or.inl (by rw [ha])⟩, Or.inl ⟨e, he, Or.inr (by rw [hb])⟩⟩
    · exact ⟨Or.inl ⟨e, he, Or.inr (by rw [ha])⟩, Or.inl ⟨e, he, Or.inl (by rw [hb])⟩⟩
  · rw [triItems_eq] at h
    obtain ⟨ti, hti, hit⟩ := List.mem_flatMap.mp h
    have ht : ti.1 ∈ inp.tris := by
      have := (List.mem_zipIdx_iff_getElem?.mp hti)
      exact List.mem_of_getElem? this
    unfold triOf at hit
    obtain ⟨o, ho, he⟩ := List.mem_filterMap.mp hit
    simp only [id] at he
    subst he
    simp only [List.mem_cons, List.mem_nil_iff, or_false] at ho
    rcases ho with ho | ho | ho <;> rcases mkItem_ends ho.symm with ⟨ha, hb⟩ | ⟨ha, hb⟩ <;>
      (rw [ha, hb]; exact ⟨Or.inr ⟨ti.1, ht, by simp⟩, Or.inr ⟨ti.1, ht, by simp⟩⟩)

theorem exists_of_mem_allCrossings : ∀ (l : List (Item K)) (y : K), y ∈ allCrossings l →
    ∃ i ∈ l, ∃ j ∈ l, crossY i j = some y
  | [], y, h => by simp [allCrossings] at h
  | a :: t, y, h => by
    rw [allCrossings, List.mem_append] at h
    rcases h with h | h
    · obtain ⟨j, hj, hc⟩ := List.mem_filterMap.mp h
      exact ⟨a, by simp, j, List.mem_cons_of_mem _ hj, hc⟩
    · obtain ⟨i, hi, j, hj, hc⟩ := exists_of_mem_allCrossings t y h
      exact ⟨i, List.mem_cons_of_mem _ hi, j, List.mem_cons_of_mem _ hj, hc⟩

/-- **The cut ordinates are exactly what `Generic` is documented to exclude**: an ordinate is a cut
ordinate only if it is the ordinate of a vertex of the outline or of a triangle, or the ordinate
at which the supporting lines of two segments cross (inside both segments' y-ranges). -/
theorem mem_ordinates_only (inp : Input K) (y : K)
    (h : y ∈ ordinates (checkItems inp) (checkExtra inp)) :
    VertexLevel inp y ∨ ∃ i ∈ checkItems inp, ∃ j ∈ checkItems inp, crossY i j = some y := by
  rw [mem_ordinates] at h
  unfold rawOrdinates at h
  rcases List.mem_append.mp h with h | h
  · rcases List.mem_append.mp h with h | h
    · obtain ⟨it, hit, hy⟩ := List.mem_flatMap.mp h
      simp only [List.mem_cons, List.mem_nil_iff, or_false] at hy
      rcases hy with rfl | rfl
      · exact Or.inl (ends_vertexLevel hit).1
      · exact Or.inl (ends_vertexLevel hit).2
    · exact Or.inl ((mem_checkExtra inp y).mp h)
  · exact Or.inr (exists_of_mem_allCrossings _ y h)

/-- a sufficient condition for `Generic` in elementary terms -/
theorem generic_of (inp : Input K) (q : P K) (hV : ¬ VertexLevel inp q.y)
    (hX : ∀ i ∈ checkItems inp, ∀ j ∈ checkItems inp, crossY i j ≠ some q.y)
    (hoff : ∀ it ∈ checkItems inp, it.a.y ≤ q.y → q.y < it.b.y → it.xAt q.y ≠ q.x) : Generic inp q := by
  refine ⟨fun h => ?_, hoff⟩
  rcases mem_ordinates_only inp q.y h with h | ⟨i, hi, j, hj, hc⟩
  · exact hV h
  · exact hX i hi j hj hc

/-- every vertex ordinate is a cut ordinate (so a generic point is level with no vertex) -/
theorem generic_not_vertexLevel (inp : Input K) (q : P K) (h : Generic inp q) : ¬ VertexLevel inp q.y := by
  intro hv
  apply h.level
  rw [mem_ordinates]
  unfold rawOrdinates
  exact List.mem_append_left _ (List.mem_append_right _ ((mem_checkExtra inp q.y).mpr hv))

/-! ### the executable instance -/

/-- **The rational instance the executables run is the field instance at `ℚ`**: `check` as
compiled into `model_c01` … (`Model/RatScalar.lean`) is the function `check_sound` speaks about. -/
theorem ratScalar_eq_fieldScalar : (instScalarRat : Scalar ℚ) = fieldScalar := by
  unfold instScalarRat fieldScalar
  congr
  funext a
  split_ifs with h
  · exact (abs_of_neg h).symm
  · exact (abs_of_nonneg (not_lt.mp h)).symm

/-- `check_sound` for the executable checker on rationals -/
theorem check_sound_rat (inp : Input ℚ) (hok : (@check ℚ instScalarRat inp).fails = []) (q : P ℚ)
    (hgen : Generic inp q) :
    inp.mode.holds inp.rule (winding inp.edges q) (coverage inp.tris q) = true ∨ InBand inp q := by
  rw [ratScalar_eq_fieldScalar] at hok
  exact check_sound inp hok q hgen

/-! ### non-vacuity: a concrete input that passes, evaluated inside the logic -/

section Example

/-- outline = the triangle (0,0) (4,0) (1,3), covered by exactly that triangle -/
noncomputable def inp0 : Input ℚ :=
  { edges := [(⟨0, 0⟩, ⟨4, 0⟩), (⟨4, 0⟩, ⟨1, 3⟩), (⟨1, 3⟩, ⟨0, 0⟩)],
    tris := [(⟨0, 0⟩, ⟨4, 0⟩, ⟨1, 3⟩)], rule := .nonZero, mode := .tiling, d2 := 0 }

noncomputable def e1 : Item ℚ := ⟨⟨4,0⟩, ⟨1,3⟩, 1, 0⟩
noncomputable def e2 : Item ℚ := ⟨⟨0,0⟩, ⟨1,3⟩, -1, 0⟩
noncomputable def t1 : Item ℚ := ⟨⟨4,0⟩, ⟨1,3⟩, 0, 1⟩
noncomputable def t2 : Item ℚ := ⟨⟨0,0⟩, ⟨1,3⟩, 0, 1⟩

theorem items0 : checkItems inp0 = [e1, e2, t1, t2] := by
  norm_num [List.filterMap_cons, checkItems, inp0, edgeItems, triItems, mkItem, List.zipIdx, e1, e2, t1, t2]

theorem extra0 : checkExtra inp0 = [0, 0, 0, 3, 3, 0, 0, 0, 3] := by
  simp [checkExtra, inp0]

theorem cross0 : allCrossings [e1, e2, t1, t2] = [3, 3, 3, 3] := by
  norm_num [List.filterMap_cons, allCrossings, crossY, crossYLines, sc_beq, e1, e2, t1, t2]


set_option maxRecDepth 10000 in
theorem ys0 : ordinates (checkItems inp0) (checkExtra inp0) = [0, 3] := by
  rw [items0, extra0]
  unfold ordinates
  rw [cross0]
  norm_num [e1, e2, t1, t2, List.mergeSort, List.MergeSort.Internal.splitInTwo, dedupSorted]

theorem two_eq : (Scalar.two : ℚ) = 2 := sc_two
theorem one_eq : (Scalar.one : ℚ) = 1 := sc_one

theorem sorted0 : slabSorted [e1, e2, t1, t2] 0 3 = [(1/2, e2), (1/2, t2), (5/2, e1), (5/2, t1)] := by
  norm_num [slabSorted, Item.spans, Item.xAt, e1, e2, t1, t2, List.mergeSort,
    List.MergeSort.Internal.splitInTwo, List.filter_cons, two_eq, List.merge]


theorem sweep0 : (sweepSlab .tiling .nonZero inp0.edges 0 1 [e1, e2, t1, t2] 0 3).1 = [] := by
  unfold sweepSlab
  rw [sorted0]
  norm_num [sweepGo, gapAt, gapOk, Acc.step, Acc.init, toggle, Mode.holds, Rule.isIn, Item.xAt,
    e1, e2, t1, t2, two_eq]

theorem check0 : (check inp0).fails = [] := by
  unfold check
  simp only []
  rw [ys0, items0]
  simp only [slabPairs, List.foldl_cons, List.foldl_nil]
  have := sweep0
  simp only [inp0, List.length_cons, List.length_nil] at this ⊢
  rw [this]
  rfl


/-- the point (1,1) is generic for `inp0` -/
theorem generic0 : Generic inp0 ⟨1, 1⟩ := by
  refine ⟨?_, ?_⟩
  · rw [ys0]; norm_num
  · rw [items0]
    intro it hit
    simp only [List.mem_cons, List.mem_nil_iff, or_false] at hit
    rcases hit with rfl | rfl | rfl | rfl <;> norm_num [Item.xAt, e1, e2, t1, t2]

/-- hypotheses of `check_sound` are satisfiable, and its conclusion at (1,1) -/
example : inp0.mode.holds inp0.rule (winding inp0.edges ⟨1, 1⟩) (coverage inp0.tris ⟨1, 1⟩) = true
    ∨ InBand inp0 ⟨1, 1⟩ := check_sound inp0 check0 _ generic0

end Example

end Lyon.Slab
