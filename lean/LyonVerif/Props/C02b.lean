/-
  C02 (growth) — the ADVANCED monotone tessellator (`AdvancedMonotoneTessellator`, the one the fill
  actually uses: `type MonotoneTessellator = AdvancedMonotoneTessellator`) and the orientation of
  the basic tessellator's triangles.

  Model: `Model/Tess/Monotone.lean` (`Adv`, `flushSide`, `flushLevels`), tied bit-for-bit to
  `monotone.rs` through hook H2 (`harness/src/bin/c02.rs`, family `mono`).  Helper lemmas:
  `Lemmas/Monotone.lean`.

  * `flush_levels_count`, `flush_levels_ids`, `flush_levels_distinct`, `flush_side_spec` — the
    doubling loop of `flush_side` cuts a buffered chain of `len` ids into exactly `len − 2` triangles,
    each on three chain positions `a < b < c < len`.
  * `advanced_count`, `advanced_ids_distinct` — for EVERY begin / vertex* / end sequence (any
    positions, any sides, any scalar type, floats included) `Adv.run` emits exactly `n − 2` triangles,
    each with three pairwise distinct vertex ids.
  * `same_side_ear_convex`, `fan_tri_oriented`, `basic_tris_oriented`, `basic_area_nonneg` — over an
    ordered field every triangle `(a, b, c)` the BASIC tessellator emits satisfies lyon's own
    (commented-out) assertion `(a − b) × (c − b) ≥ 0`: no triangle is flipped, for every input.

  Not proved (stated precisely in the report): the chain triangles of `flush_side` are emitted
  WITHOUT an orientation test; they are non-negatively oriented only when the buffered chain is
  convex — and they lie inside the piece only if, in addition, no opposite-side vertex enters the
  chain's hull.  The latter is the open known finding (`advanced-fan-overlap`).
-/
import LyonVerif.Lemmas.Monotone

set_option linter.unusedSectionVars false
set_option linter.unusedVariables false

namespace Lyon.C02b
open Lyon Lyon.Mono Lyon.C02

variable {α : Type} [Scalar α]

/-! ### 1. the doubling loop of `flush_side` -/

/-- **`flush_side` emits `len − 2` triangles**: at level `step` the live chain positions are the
multiples of `step` below `len` (`(len−1)/step + 1` of them); the level removes all odd multiples
(`(len−1)/step − (len−1)/(2·step)` triangles); the loop stops with 2 live positions. -/
theorem flush_levels_count (ev : Array Nat) (len : Nat) (right : Bool) :
    (flushLevels ev len right (len + 1) 1).length = len - 2 :=
  flushLevels_count ev len right

/-- **every triangle of `flush_side` sits on three different chain positions** `a < b < c < len`,
in increasing order on the left side, in an odd permutation (`(b,a,c)` or `(a,c,b)`) on the right. -/
theorem flush_levels_ids (ev : Array Nat) (len : Nat) (right : Bool) :
    ∀ t ∈ flushLevels ev len right (len + 1) 1, ChainTri ev len right t :=
  flushLevels_ids ev len right

/-- hence with pairwise distinct buffered ids every chain triangle has three distinct ids -/
theorem flush_levels_distinct (l : List Nat) (right : Bool) (hnd : l.Nodup) :
    ∀ t ∈ flushLevels l.toArray l.length right (l.length + 1) 1, TriDistinct t :=
  fun t ht => chainTri_distinct l right hnd t (flushLevels_ids _ _ right t ht)

/-- `flush_side` on a chain of `len ≥ 2` ids: `len − 2` triangles, the chain restarts from its last
vertex, which is forwarded to the inner tessellator. -/
theorem flush_side_spec (s : SideEv α) (r : Bool) (h : 2 ≤ s.events.length) :
    (flushSide s r).2.1.length = s.events.length - 2 ∧ (flushSide s r).2.2 = some s.last ∧
      (flushSide s r).1.events = [s.last.id] := by
  rcases flushSide_cases s r with ⟨h', _⟩ | ⟨_, e1, _, e3, e4⟩
  · omega
  · exact ⟨by rw [e3, flushLevels_count], e4, e1⟩

/-- non-vacuity: a 7-id chain, left and right: 5 triangles each, e.g. `(0,1,2) (2,3,4) (4,5,6)`,
then `(0,2,4)`, then the leftover `(0,4,6)`. -/
example : flushLevels #[10, 11, 12, 13, 14, 15, 16] 7 false 8 1
    = [(10, 11, 12), (12, 13, 14), (14, 15, 16), (10, 12, 14), (10, 14, 16)] := by decide
example : flushLevels #[10, 11, 12, 13, 14, 15, 16] 7 true 8 1
    = [(11, 10, 12), (13, 12, 14), (15, 14, 16), (12, 10, 14), (10, 16, 14)] := by decide
example : [10, 11, 12, 13, 14, 15, 16].Nodup := by decide

/-! ### 2./3. the advanced tessellator: n − 2 triangles with distinct ids -/

/-- the invariant behind both theorems, for every reachable state (`k` vertices fed, ids `0…k−1`):
`triangles + inner stack + Σ_sides (buffered − 1) = k`, the inner stack is non-empty, every id is in
exactly one place. -/
theorem advanced_invariant (p0 : P α) (vs : List (P α × Bool)) :
    AInv (afeed (Adv.begin Adv.new p0 0) 1 vs) (1 + vs.length) :=
  afeed_inv vs _ 1 (begin_inv Adv.new p0)

/-- **n − 2 triangles**: for every begin / vertex* / end sequence with `n ≥ 2` vertices in total, on
any sides and at any positions, the advanced monotone tessellator emits exactly `n − 2` triangles. -/
theorem advanced_count (seq : List (P α × Bool)) (h : 2 ≤ seq.length) :
    (Adv.run seq).length = seq.length - 2 :=
  (run_spec seq).1 h

/-- **three distinct vertices per triangle** (ids are `0, 1, 2, …` in feeding order). -/
theorem advanced_ids_distinct (seq : List (P α × Bool)) : ∀ t ∈ Adv.run seq, TriDistinct t :=
  (run_spec seq).2

/-- non-vacuity (integer coordinates scaled by 10): lyon's own third unit test of `monotone.rs`,
7 vertices all on the right side, run through the advanced tessellator: 5 triangles … -/
example : Adv.run (α := ZS)
    [(⟨⟨0⟩, ⟨0⟩⟩, true), (⟨⟨10⟩, ⟨10⟩⟩, false), (⟨⟨30⟩, ⟨20⟩⟩, false), (⟨⟨10⟩, ⟨30⟩⟩, false),
     (⟨⟨10⟩, ⟨40⟩⟩, false), (⟨⟨40⟩, ⟨50⟩⟩, false), (⟨⟨0⟩, ⟨60⟩⟩, true)]
    = [(2, 1, 3), (1, 0, 3), (3, 0, 4), (4, 0, 6), (5, 4, 6)] := by decide

/-- … and a wide left chain that is buffered whole: one `flush_side` of 6 ids at `end`
(`(0,1,2) (2,3,4)`, leftover `(0,4,5)`, then level 2: `(0,2,4)`), then the inner `end` fan. -/
example : Adv.run (α := ZS)
    [(⟨⟨0⟩, ⟨0⟩⟩, true), (⟨⟨-500⟩, ⟨1⟩⟩, true), (⟨⟨-900⟩, ⟨2⟩⟩, true), (⟨⟨-1200⟩, ⟨3⟩⟩, true),
     (⟨⟨-1400⟩, ⟨4⟩⟩, true), (⟨⟨-1500⟩, ⟨5⟩⟩, true), (⟨⟨0⟩, ⟨6⟩⟩, false)]
    = [(0, 1, 2), (2, 3, 4), (0, 4, 5), (0, 2, 4), (0, 5, 6)] := by decide

/-! ### 4. orientation of the basic tessellator's triangles -/

section Geometry
variable {K : Type} [Field K] [LinearOrder K] [IsStrictOrderedRing K]

/-- **same-side branch**: the ear `(b, a, cur)` is cut only when `cross(cur − b, a − b) ≥ 0`
(`a, b` = last popped, stack top; swapped on the right side), and that cross product IS
`wind b a cur = (b − a) × (cur − a)`: the ear is emitted non-negatively oriented. -/
theorem same_side_ear_convex (cur lp top : MV K) (h : earConvex cur lp top = true) :
    (cur.left = true ∧ earTri cur lp top = (top.id, lp.id, cur.id) ∧ 0 ≤ wind top.pos lp.pos cur.pos) ∨
    (cur.left = false ∧ earTri cur lp top = (lp.id, top.id, cur.id) ∧ 0 ≤ wind lp.pos top.pos cur.pos) :=
  earTri_cases cur lp top h

/-- **changed-side branch**: each fan triangle is emitted in the order that makes it non-negatively
oriented (the swap on `winding == false`, which then makes it strictly positive). -/
theorem fan_tri_oriented (cur a b : MV K) :
    (fanTri cur a b = (a.id, b.id, cur.id) ∧ 0 ≤ wind a.pos b.pos cur.pos) ∨
    (fanTri cur a b = (b.id, a.id, cur.id) ∧ 0 < wind b.pos a.pos cur.pos) :=
  fanTri_cases cur a b

/-- **no triangle of the basic tessellator is flipped**: for every (position, side) sequence — monotone
or not — every emitted triangle `(a, b, c)` has `(a − b) × (c − b) ≥ 0` at the fed positions. -/
theorem basic_tris_oriented (seq : List (P K × Bool)) : ∀ t ∈ Basic.run seq, TriWind (posOf seq) t :=
  run_gInv seq

/-- hence the signed areas, in emitted vertex order, sum to a non-negative number -/
theorem basic_area_nonneg (seq : List (P K × Bool)) :
    0 ≤ ((Basic.run seq).map (fun t => wind (posOf seq t.1) (posOf seq t.2.1) (posOf seq t.2.2))).sum := by
  have h := basic_tris_oriented seq
  generalize Basic.run seq = l at h
  induction l with
  | nil => simp
  | cons t r ih =>
    simp only [List.map_cons, List.sum_cons]
    exact add_nonneg (h t (by simp)) (ih (fun t ht => h t (List.mem_cons_of_mem _ ht)))

end Geometry

end Lyon.C02b
