/-
  C13c — the Bézier sentence of the property for the end-point form, the direction of the pieces,
  and the second Hausdorff direction.  All over ℝ with Mathlib's functions (instance of
  `Props/C13.lean`), no hypothesis about a transcendental function.

  §1  `SvgArc::for_each_quadratic_bezier(_with_t)` / `for_each_cubic_bezier` (`svgQuadsWithT`,
      `svgCubics`): for a non-degenerate end-point arc every point of every emitted piece is within
      0.32 % / 0.2 % of the larger radius of the ellipse of `from_svg_arc` — which passes through
      `from` and `to` with the (scaled) radii (`svg_arc_beziers_near_ellipse_real`); a degenerate one
      is replaced by pieces that stay on the segment `from → to` (`svg_arc_beziers_straight_real`).
      With `svg_arc_beziers_real` (`Props/C13Real.lean`: non-empty, from `from` to `to`) the
      property's sentence about the Bézier sequences is a theorem for the end-point form too.
  §2  direction (`arc_beziers_direction_real`): about the centre, the polar angle of every emitted
      piece moves monotonically in the direction of the arc:
      `rx·ry·signum(sweep) · ((B(t₁) − c) × (B(t₂) − c)) ≥ 0` for `0 ≤ t₁ ≤ t₂ ≤ 1`
      (the arc itself: `arc_direction_real`).  With `t₁ = 0` resp. `t₂ = 1`: the piece stays in the
      angular sector between its end points `arc.sample (j/n)`, `arc.sample ((j+1)/n)`
      (`arc_beziers_on_arc_real`).  Reason: the cross products `P_i × P_j` (`i < j`) of the control
      points all have the sign of the step (cubic: because `|α| ≤ |tan(δ/2)|`) and the Bernstein basis
      is totally positive.
  §3  the other Hausdorff direction: every point of the arc piece is within 0.32 % / 0.2 % of the
      larger radius of a point of its Bézier piece (`quad_piece_covers_arc_real`,
      `cubic_piece_covers_arc_real`: intermediate value theorem on the ray through the arc point), and
      for `0 < |sweep| ≤ 2π` every point `arc.sample s`, `s ∈ [0,1]`, is that close to a point of the
      emitted sequence (`arc_within_beziers_real`).  Together with `arc_quads_near_ellipse_real` /
      `arc_cubics_near_ellipse_real`: the Hausdorff distance between the arc and each of its Bézier
      sequences is at most `0.0032·max(rx, ry)` resp. `0.002·max(rx, ry)`.
-/
import LyonVerif.Lemmas.SvgArcRealHaus
import LyonVerif.Props.C13Real

set_option linter.unusedSectionVars false
set_option linter.unusedVariables false
set_option linter.unusedSimpArgs false

namespace Lyon.C13
open Lyon Scalar ArcConv

/-! ## §1 the end-point form -/

/-- **`svg_arc_beziers_near_ellipse_real`**: for a non-degenerate `SvgArc` (the function's own test,
any `S::EPSILON ≥ 0`) the sequences of `SvgArc::for_each_quadratic_bezier(_with_t)` and
`for_each_cubic_bezier` stay within `0.32 %` resp. `0.2 %` of the larger radius of the ellipse `E` of
`from_svg_arc a` — centre `center a`, radii `(rx a, ry a)` (the given ones, scaled by `√rf` if too
small), the given x-rotation —, which passes through `a.from` and `a.to`. -/
theorem svg_arc_beziers_near_ellipse_real [Eps ℝ] (heps : 0 ≤ (Eps.eps : ℝ)) (a : SvgArc ℝ)
    (hs : isStraightLine a = false) (t : ℝ) (ht0 : 0 ≤ t) (ht1 : t ≤ 1) :
    (∀ x ∈ svgQuadsWithT a, ∃ u : P ℝ, u.x * u.x + u.y * u.y = 1
        ∧ sqDist (x.1.sample t) (ellMap (fromSvgArc a) u)
          ≤ (Max.max |rx a| |ry a| * (32 / 10000)) * (Max.max |rx a| |ry a| * (32 / 10000)))
    ∧ (∀ x ∈ svgCubics a, ∃ u : P ℝ, u.x * u.x + u.y * u.y = 1
        ∧ sqDist (x.sample t) (ellMap (fromSvgArc a) u)
          ≤ (Max.max |rx a| |ry a| * (2 / 1000)) * (Max.max |rx a| |ry a| * (2 / 1000)))
    ∧ (∃ u : P ℝ, u.x * u.x + u.y * u.y = 1 ∧ ellMap (fromSvgArc a) u = a.from_)
    ∧ (∃ u : P ℝ, u.x * u.x + u.y * u.y = 1 ∧ ellMap (fromSvgArc a) u = a.to) := by
  have hQ : svgQuadsWithT a = quadsWithT (fromSvgArc a) := by simp only [svgQuadsWithT, hs]; rfl
  have hC : svgCubics a = cubics (fromSvgArc a) := by simp only [svgCubics, hs]; rfl
  obtain ⟨⟨e0, e1⟩, _⟩ := svg_arc_real heps a hs
  refine ⟨?_, ?_, ?_, ?_⟩
  · intro x hx
    rw [hQ] at hx
    exact arc_quads_near_ellipse_real (fromSvgArc a) x hx t ht0 ht1
  · intro x hx
    rw [hC] at hx
    exact arc_cubics_near_ellipse_real (fromSvgArc a) x hx t ht0 ht1
  · exact ⟨⟨Real.cos ((fromSvgArc a).getAngle 0), Real.sin ((fromSvgArc a).getAngle 0)⟩,
      exactTrig_real.cos_sq_add_sin_sq _, e0⟩
  · exact ⟨⟨Real.cos ((fromSvgArc a).getAngle 1), Real.sin ((fromSvgArc a).getAngle 1)⟩,
      exactTrig_real.cos_sq_add_sin_sq _, e1⟩

/-- **`svg_arc_beziers_straight_real`**: a degenerate end-point arc (a radius within `S::EPSILON` of 0,
or `from = to`) is replaced by ONE quadratic and ONE cubic, all of whose points lie on the segment
`from → to` (at the parameters `t²` resp. `t²(3 − 2t)`). -/
theorem svg_arc_beziers_straight_real [Eps ℝ] (a : SvgArc ℝ) (hs : isStraightLine a = true)
    (t : ℝ) (ht0 : 0 ≤ t) (ht1 : t ≤ 1) :
    (∀ x ∈ svgQuadsWithT a, ∃ s : ℝ, 0 ≤ s ∧ s ≤ 1
        ∧ x.1.sample t = ⟨a.from_.x + s * (a.to.x - a.from_.x), a.from_.y + s * (a.to.y - a.from_.y)⟩)
    ∧ (∀ x ∈ svgCubics a, ∃ s : ℝ, 0 ≤ s ∧ s ≤ 1
        ∧ x.sample t = ⟨a.from_.x + s * (a.to.x - a.from_.x), a.from_.y + s * (a.to.y - a.from_.y)⟩) := by
  have hQ : svgQuadsWithT a = [(⟨a.from_, a.from_, a.to⟩, Scalar.zero, Scalar.one)] := by
    simp only [svgQuadsWithT, hs, if_true]
  have hC : svgCubics a = [⟨a.from_, a.from_, a.to, a.to⟩] := by
    simp only [svgCubics, hs, if_true]
  constructor
  · intro x hx
    rw [hQ, List.mem_singleton] at hx
    subst hx
    refine ⟨t * t, by positivity, by nlinarith, ?_⟩
    apply P.ext' <;> · simp only [Quad.sample, geom, Nat.cast_ofNat, Nat.cast_one]; ring
  · intro x hx
    rw [hC, List.mem_singleton] at hx
    subst hx
    refine ⟨t * t * (3 - 2 * t), by nlinarith [mul_self_nonneg t], ?_, ?_⟩
    · nlinarith [mul_nonneg (mul_self_nonneg (1 - t)) (by linarith : 0 ≤ 1 + 2 * t)]
    · apply P.ext' <;> · simp only [Cubic.sample, geom, Nat.cast_ofNat, Nat.cast_one]; ring

/-! ## §2 direction -/

/-- **`arc_direction_real`**: about its centre the arc turns in the direction `rx·ry·signum(sweep)`:
for parameters `s₁ ≤ s₂` at most half a turn apart,
`rx·ry·signum(sweep) · ((arc.sample s₁ − c) × (arc.sample s₂ − c)) ≥ 0`. -/
theorem arc_direction_real (arc : Arc ℝ) (s1 s2 : ℝ) (h12 : s1 ≤ s2)
    (hhalf : |arc.sweep| * (s2 - s1) ≤ Real.pi) :
    0 ≤ (arc.radii.x * arc.radii.y * signum arc.sweep)
      * (arc.sample s1 - arc.center).cross (arc.sample s2 - arc.center) := by
  have hx := exactTrig_real.cos_sq_add_sin_sq arc.xrot
  have e1 : arc.sample s1 = ellMap arc ⟨Real.cos (arc.getAngle s1), Real.sin (arc.getAngle s1)⟩ := rfl
  have e2 : arc.sample s2 = ellMap arc ⟨Real.cos (arc.getAngle s2), Real.sin (arc.getAngle s2)⟩ := rfl
  rw [e1, e2, ellMap_cross arc _ _ hx]
  have hsin : (⟨Real.cos (arc.getAngle s1), Real.sin (arc.getAngle s1)⟩ : P ℝ).cross
      ⟨Real.cos (arc.getAngle s2), Real.sin (arc.getAngle s2)⟩ = Real.sin (arc.sweep * (s2 - s1)) := by
    have := Real.sin_sub (arc.getAngle s2) (arc.getAngle s1)
    rw [show arc.getAngle s2 - arc.getAngle s1 = arc.sweep * (s2 - s1) by simp only [Arc.getAngle]; ring] at this
    rw [this]; simp only [geom]; ring
  rw [hsin]
  have hσ := signum_real arc.sweep
  have hd : 0 ≤ s2 - s1 := by linarith
  have habs : signum arc.sweep * arc.sweep = |arc.sweep| := by
    have := abs_mul_signum arc.sweep
    have h2 : signum arc.sweep * signum arc.sweep = (1 : ℝ) := by
      rcases hσ with h | h <;> rw [h] <;> norm_num
    calc signum arc.sweep * arc.sweep = signum arc.sweep * (|arc.sweep| * signum arc.sweep) := by rw [this]
      _ = |arc.sweep| * (signum arc.sweep * signum arc.sweep) := by ring
      _ = |arc.sweep| := by rw [h2, mul_one]
  have h0 : 0 ≤ signum arc.sweep * (arc.sweep * (s2 - s1)) := by
    rw [← mul_assoc, habs]; exact mul_nonneg (abs_nonneg _) hd
  have hle : |arc.sweep * (s2 - s1)| ≤ Real.pi := by
    rw [abs_mul, abs_of_nonneg hd]; exact hhalf
  have := sign_mul_sin_nonneg (signum arc.sweep) (arc.sweep * (s2 - s1)) hσ h0 hle
  calc (0 : ℝ) ≤ (arc.radii.x * arc.radii.y) * (arc.radii.x * arc.radii.y)
        * (signum arc.sweep * Real.sin (arc.sweep * (s2 - s1))) :=
        mul_nonneg (mul_self_nonneg _) this
    _ = _ := by ring

/-- **`arc_beziers_direction_real`**: for EVERY real arc and every emitted quadratic and cubic,
the polar angle about the centre moves monotonically in the direction of the arc
(`arc_direction_real`): for `0 ≤ t₁ ≤ t₂ ≤ 1`
`rx·ry·signum(sweep) · ((B(t₁) − c) × (B(t₂) − c)) ≥ 0`.
In particular (`t₁ = 0`, `t₂ = 1`) each piece stays in the angular sector between its end points. -/
theorem arc_beziers_direction_real (arc : Arc ℝ) (t1 t2 : ℝ) (ht0 : 0 ≤ t1) (ht : t1 ≤ t2) (ht1 : t2 ≤ 1) :
    (∀ x ∈ quadsWithT arc, 0 ≤ (arc.radii.x * arc.radii.y * signum arc.sweep)
        * (x.1.sample t1 - arc.center).cross (x.1.sample t2 - arc.center))
    ∧ (∀ x ∈ cubics arc, 0 ≤ (arc.radii.x * arc.radii.y * signum arc.sweep)
        * (x.sample t1 - arc.center).cross (x.sample t2 - arc.center)) := by
  have hx := exactTrig_real.cos_sq_add_sin_sq arc.xrot
  obtain ⟨hq, hc, b1, b2⟩ := emitted_pieces_real arc
  obtain ⟨g1, g2⟩ := step_sign_real arc
  have hσ := signum_real arc.sweep
  constructor
  · intro x hxm
    obtain ⟨a1, e⟩ := hq x hxm
    rw [e, quad_piece_affine_image arc a1 _ t1 Real.cos_zero Real.sin_zero,
      quad_piece_affine_image arc a1 _ t2 Real.cos_zero Real.sin_zero, ellMap_cross arc _ _ hx]
    have := quad_unit_dir_real arc a1 (stepQ arc) (signum arc.sweep) t1 t2 hσ b1 g1 ht0 ht ht1
    calc (0 : ℝ) ≤ (arc.radii.x * arc.radii.y) * (arc.radii.x * arc.radii.y)
          * (signum arc.sweep * ((quadAt (unitArc arc) a1 (stepQ arc)).sample t1).cross
              ((quadAt (unitArc arc) a1 (stepQ arc)).sample t2)) :=
          mul_nonneg (mul_self_nonneg _) this
      _ = _ := by ring
  · intro x hxm
    obtain ⟨a1, e⟩ := hc x hxm
    rw [e, cubic_piece_affine_image arc a1 _ t1 Real.cos_zero Real.sin_zero,
      cubic_piece_affine_image arc a1 _ t2 Real.cos_zero Real.sin_zero, ellMap_cross arc _ _ hx]
    have := cubic_unit_dir_real arc a1 (stepC arc) (signum arc.sweep) t1 t2 hσ b2 g2 ht0 ht ht1
    calc (0 : ℝ) ≤ (arc.radii.x * arc.radii.y) * (arc.radii.x * arc.radii.y)
          * (signum arc.sweep * ((cubicAt (unitArc arc) a1 (stepC arc)).sample t1).cross
              ((cubicAt (unitArc arc) a1 (stepC arc)).sample t2)) :=
          mul_nonneg (mul_self_nonneg _) this
      _ = _ := by ring

/-! ## §3 the other Hausdorff direction -/

/-- **`quad_piece_covers_arc_real`**: every point of the arc between the end points of a quadratic
piece (step `|δ| ≤ 45°`; angle `a₁ + u·δ`, `u ∈ [0,1]`) is within `0.32 %` of the larger radius of a
point of the piece. -/
theorem quad_piece_covers_arc_real (arc : Arc ℝ) (a1 d u : ℝ) (hd : |d| ≤ Real.pi / 4)
    (hu0 : 0 ≤ u) (hu1 : u ≤ 1) :
    ∃ t : ℝ, 0 ≤ t ∧ t ≤ 1 ∧ sqDist (pointAt arc (a1 + u * d)) ((quadAt arc a1 d).sample t)
      ≤ (Max.max |arc.radii.x| |arc.radii.y| * (32 / 10000)) * (Max.max |arc.radii.x| |arc.radii.y| * (32 / 10000)) := by
  obtain ⟨t, l, t0, t1, e, l0, l1⟩ := quad_unit_covers_real arc a1 d u hd hu0 hu1
  refine ⟨t, t0, t1, ?_⟩
  rw [quad_piece_affine_image arc a1 d t Real.cos_zero Real.sin_zero, e, pointAt_eq_ellMap]
  exact ellMap_radial_sqDist arc _ l _ (by rw [abs_le]; constructor <;> linarith)

/-- **`cubic_piece_covers_arc_real`**: the same for a cubic piece (step `|δ| ≤ 90°`), `0.2 %`. -/
theorem cubic_piece_covers_arc_real (arc : Arc ℝ) (a1 d u : ℝ) (hd : |d| ≤ Real.pi / 2)
    (hu0 : 0 ≤ u) (hu1 : u ≤ 1) :
    ∃ t : ℝ, 0 ≤ t ∧ t ≤ 1 ∧ sqDist (pointAt arc (a1 + u * d)) ((cubicAt arc a1 d).sample t)
      ≤ (Max.max |arc.radii.x| |arc.radii.y| * (2 / 1000)) * (Max.max |arc.radii.x| |arc.radii.y| * (2 / 1000)) := by
  obtain ⟨t, l, t0, t1, e, l0, l1⟩ := cubic_unit_covers_real arc a1 d u hd hu0 hu1
  refine ⟨t, t0, t1, ?_⟩
  rw [cubic_piece_affine_image arc a1 d t Real.cos_zero Real.sin_zero, e, pointAt_eq_ellMap]
  exact ellMap_radial_sqDist arc _ l _ (by rw [abs_le]; constructor <;> linarith)

/-- **`arc_within_beziers_real`** — the second Hausdorff direction for the emitted sequences: for every
real arc with `0 < |sweep| ≤ 2π` every point `arc.sample s`, `s ∈ [0,1]`, is within `0.32 %` of the
larger radius of a point of an emitted quadratic and within `0.2 %` of a point of an emitted cubic.
(Beyond `2π` the sequences cover one turn only: open finding C13-bezier-sweep-clamped; every point
of the arc is still on the covered ellipse, but not at its own parameter.) -/
theorem arc_within_beziers_real (arc : Arc ℝ) (hsw : |arc.sweep| ≤ 2 * Real.pi) (hne : arc.sweep ≠ 0)
    (s : ℝ) (hs0 : 0 ≤ s) (hs1 : s ≤ 1) :
    (∃ x ∈ quadsWithT arc, ∃ t : ℝ, 0 ≤ t ∧ t ≤ 1 ∧ sqDist (arc.sample s) (x.1.sample t)
        ≤ (Max.max |arc.radii.x| |arc.radii.y| * (32 / 10000)) * (Max.max |arc.radii.x| |arc.radii.y| * (32 / 10000)))
    ∧ (∃ x ∈ cubics arc, ∃ t : ℝ, 0 ≤ t ∧ t ≤ 1 ∧ sqDist (arc.sample s) (x.sample t)
        ≤ (Max.max |arc.radii.x| |arc.radii.y| * (2 / 1000)) * (Max.max |arc.radii.x| |arc.radii.y| * (2 / 1000))) := by
  obtain ⟨_, _, nq, nc⟩ := nSteps_pos_real arc hne
  obtain ⟨c1, c2⟩ := cast_faithful_real arc
  obtain ⟨b1, b2⟩ := step_bounds_real arc
  constructor
  · obtain ⟨j, u, hj, u0, u1, hang⟩ := arc_angle_in_piece arc (nStepsQ arc) (nQ arc) nq c1 hsw s hs0 hs1
    obtain ⟨t, t0, t1, hd⟩ := quad_piece_covers_arc_real arc (angleAt arc (stepQ arc) j) (stepQ arc) u b1 u0 u1
    refine ⟨_, List.mem_of_getElem? (quads_get arc j hj), t, t0, t1, ?_⟩
    rw [quadPiece_eq_quadAt]
    have : arc.sample s = pointAt arc (angleAt arc (stepQ arc) j + u * stepQ arc) := by
      rw [← pointAt_getAngle, hang]; rfl
    rw [this]; exact hd
  · obtain ⟨j, u, hj, u0, u1, hang⟩ := arc_angle_in_piece arc (nStepsC arc) (nC arc) nc c2 hsw s hs0 hs1
    obtain ⟨t, t0, t1, hd⟩ := cubic_piece_covers_arc_real arc (angleAt arc (stepC arc) j) (stepC arc) u b2 u0 u1
    refine ⟨_, List.mem_of_getElem? (cubics_get arc j hj), t, t0, t1, ?_⟩
    rw [cubicPiece_eq_cubicAt]
    have : arc.sample s = pointAt arc (angleAt arc (stepC arc) j + u * stepC arc) := by
      rw [← pointAt_getAngle, hang]; rfl
    rw [this]; exact hd

/-! ## non-vacuity -/

/-- `svg_arc_beziers_near_ellipse_real` applies to the example arc of `Props/C13.lean` -/
example : ∃ u : P ℝ, u.x * u.x + u.y * u.y = 1 ∧ ellMap (fromSvgArc exampleArc) u = exampleArc.to :=
  (svg_arc_beziers_near_ellipse_real exampleEps_nonneg exampleArc exampleArc_not_straight
    (1 / 2) (by norm_num) (by norm_num)).2.2.2

/-- a degenerate end-point arc (zero radius) -/
example : isStraightLine (⟨⟨0, 0⟩, ⟨1, 0⟩, ⟨0, 1⟩, 0, false, true⟩ : SvgArc ℝ) = true := by
  simp only [isStraightLine, Bool.or_eq_true, decide_eq_true_eq, sc_abs]
  left; left
  show |(0 : ℝ)| ≤ 1 / 100000000
  norm_num

/-- hypotheses of `arc_direction_real` / `arc_within_beziers_real`: a clockwise three-quarter turn -/
example : |(⟨⟨1, 2⟩, ⟨3, 1⟩, 1, -(3 * Real.pi / 2), 1 / 3⟩ : Arc ℝ).sweep| ≤ 2 * Real.pi
    ∧ (⟨⟨1, 2⟩, ⟨3, 1⟩, 1, -(3 * Real.pi / 2), 1 / 3⟩ : Arc ℝ).sweep ≠ 0
    ∧ |(⟨⟨1, 2⟩, ⟨3, 1⟩, 1, -(3 * Real.pi / 2), 1 / 3⟩ : Arc ℝ).sweep| * (1 / 2 - 0) ≤ Real.pi := by
  have hpi := Real.pi_pos
  refine ⟨?_, ?_, ?_⟩
  · show |(-(3 * Real.pi / 2))| ≤ 2 * Real.pi
    rw [abs_neg, abs_of_pos (by positivity)]; linarith
  · show -(3 * Real.pi / 2) ≠ 0
    intro h; linarith
  · show |(-(3 * Real.pi / 2))| * (1 / 2 - 0) ≤ Real.pi
    rw [abs_neg, abs_of_pos (by positivity)]; linarith

end Lyon.C13
