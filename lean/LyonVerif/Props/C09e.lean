/-
  C09, part e — the VIOLATION certificate of the exact arc checker (`Lyon.ArcChk.arcViol`,
  Model/Geom/FlattenCertArc.lean): `chk_arc_violation_sound(_rat)`.

  The driver takes, for a chord that fails the sagitta test, the unit point `q` whose half-angle tangent
  is the mean of the two advice tangents; the checker verifies with exact rationals that `q` is on the
  unit circle, that it lies in the cone of the two advice points (cross products), and that the ellipse
  point `A(q)` is farther than `√r2` from EVERY emitted segment. Then `A(q)` is a point of the arc
  between the two advice points (a non-negative combination of them, the form `chk_arc_sound` covers)
  that is farther than `√r2` from the whole polyline: a certified failing input for `r2 = (tol + 2·eps)²`.
-/
import LyonVerif.Lemmas.FlattenCertExactArc
import LyonVerif.Model.RatScalar

set_option linter.unusedSectionVars false
set_option linter.unusedVariables false

namespace Lyon.C09
open Lyon Scalar Lyon.Flat Lyon.FlatChk Lyon.ArcChk

attribute [-instance] Lyon.instScalarRat

variable {K : Type} [Field K] [LinearOrder K] [IsStrictOrderedRing K]

/-- cone membership by cross products gives non-negative coefficients -/
theorem in_cone_coeffs (p0 p1 q : P K) (h : inCone p0 p1 q = true) :
    ∃ lam mu : K, 0 ≤ lam ∧ 0 ≤ mu ∧ q.x = lam * p0.x + mu * p1.x ∧ q.y = lam * p0.y + mu * p1.y := by
  simp only [inCone, Bool.or_eq_true, Bool.and_eq_true, decide_eq_true_eq, sc_zero] at h
  have hd : p0.cross p1 ≠ 0 := by
    rcases h with ⟨⟨h1, _⟩, _⟩ | ⟨⟨h1, _⟩, _⟩
    · exact ne_of_gt h1
    · exact ne_of_lt h1
  refine ⟨q.cross p1 / p0.cross p1, p0.cross q / p0.cross p1, ?_, ?_, ?_, ?_⟩
  · rcases h with ⟨⟨h1, _⟩, h3⟩ | ⟨⟨h1, _⟩, h3⟩
    · exact div_nonneg h3 (le_of_lt h1)
    · exact div_nonneg_of_nonpos h3 (le_of_lt h1)
  · rcases h with ⟨⟨h1, h2⟩, _⟩ | ⟨⟨h1, h2⟩, _⟩
    · exact div_nonneg h2 (le_of_lt h1)
    · exact div_nonneg_of_nonpos h2 (le_of_lt h1)
  · rw [div_mul_eq_mul_div, div_mul_eq_mul_div, ← add_div, eq_div_iff hd]
    simp only [P.cross]; ring
  · rw [div_mul_eq_mul_div, div_mul_eq_mul_div, ← add_div, eq_div_iff hd]
    simp only [P.cross]; ring

/-- **chk_arc_violation_sound**: if `arcViol f r2 x q l` holds then `q` is a unit vector, a
non-negative combination of the advice points of the segment `x` (so `A(q)` is a point of the arc
between them — the points `chk_arc_sound` speaks about, with `ν = 1`), and `A(q)` is farther than `√r2`
from every point of every emitted segment. -/
theorem chk_arc_violation_sound (f : Frame K) (r2 : K) (x : ArcSeg K) (q : P K) (l : List (ArcSeg K))
    (h : arcViol f r2 x q l = true) :
    q.sqLen = 1
    ∧ (∃ lam mu : K, 0 ≤ lam ∧ 0 ≤ mu ∧ (1 : K) * q.x = lam * x.pa.x + mu * x.pb.x
        ∧ (1 : K) * q.y = lam * x.pa.y + mu * x.pb.y)
    ∧ ∀ y ∈ l, ∀ s : K, 0 ≤ s → s ≤ 1 → r2 < (f.map q - y.sg.a.lerp y.sg.b s).sqLen := by
  simp only [arcViol, Bool.and_eq_true, sc_beq, sc_one] at h
  obtain ⟨⟨hq, hc⟩, hf⟩ := h
  obtain ⟨lam, mu, hl, hm, hx, hy⟩ := in_cone_coeffs x.pa x.pb q hc
  refine ⟨hq, ⟨lam, mu, hl, hm, by rw [one_mul]; exact hx, by rw [one_mul]; exact hy⟩, ?_⟩
  intro y hy' s hs0 hs1
  exact far_from_sound (f.map q) r2 _ hf y.sg (List.mem_map.mpr ⟨y, hy', rfl⟩) s hs0 hs1

theorem ratScalar_eq_fieldScalar_c09e : (instScalarRat : Scalar ℚ) = fieldScalar := by
  unfold instScalarRat fieldScalar
  congr
  funext a
  split_ifs with h
  · exact (abs_of_neg h).symm
  · exact (abs_of_nonneg (not_lt.mp h)).symm

/-- `chk_arc_violation_sound` for the executable checker on rationals -/
theorem chk_arc_violation_sound_rat (f : Frame ℚ) (r2 : ℚ) (x : ArcSeg ℚ) (q : P ℚ) (l : List (ArcSeg ℚ))
    (h : @arcViol ℚ instScalarRat f r2 x q l = true) :
    q.sqLen = 1
    ∧ (∃ lam mu : ℚ, 0 ≤ lam ∧ 0 ≤ mu ∧ (1 : ℚ) * q.x = lam * x.pa.x + mu * x.pb.x
        ∧ (1 : ℚ) * q.y = lam * x.pa.y + mu * x.pb.y)
    ∧ ∀ y ∈ l, ∀ s : ℚ, 0 ≤ s → s ≤ 1 → r2 < (f.map q - y.sg.a.lerp y.sg.b s).sqLen := by
  rw [ratScalar_eq_fieldScalar_c09e] at h
  exact chk_arc_violation_sound f r2 x q l h

/-- the averaged half-angle tangent gives a unit point (whatever the tangents) -/
theorem mid_advice_on_circle (ua ub : K) (flip : Bool) : (unitPt ((ua + ub) / 2) flip).sqLen = 1 :=
  unit_pt_on_circle _ _

/-- non-vacuity: the unit circle of radius 5 around the origin, the quarter from `(5,0)` to `(0,5)`
emitted as ONE chord; `q = (3/5,4/5)` (half-angle tangent `1/2`, the mean of `0` and `1`) is in the cone
of `(1,0)` and `(0,1)`, and `A(q) = (3,4)` is farther than `1` from the chord (`|3+4−5|/√2 = √2`) -/
example : arcViol (⟨⟨0,0⟩, 5, 5, 1, 0⟩ : Frame ℚ) 1 ⟨⟨⟨5,0⟩,⟨0,5⟩,0,1⟩, ⟨1,0⟩, ⟨0,1⟩⟩
    (unitPt ((0 + 1) / 2) false) [⟨⟨⟨5,0⟩,⟨0,5⟩,0,1⟩, ⟨1,0⟩, ⟨0,1⟩⟩] = true := by
  simp only [arcViol, inCone, farFrom, unitPt, Frame.map, Slab.sqDistSeg, List.map_cons, List.map_nil,
    List.all_cons, List.all_nil, sc_beq, geom, Bool.and_eq_true, Bool.or_eq_true, decide_eq_true_eq]
  norm_num

end Lyon.C09
