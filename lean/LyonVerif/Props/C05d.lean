/-
  C05d — index validity of the COMPLETE stroker model for ALL joins, `LineJoin::MiterClip` with a
  fixed width and curves included (the combination `Props/C05c.lean` had to leave out), and the
  numeric clauses that are exact-arithmetic facts.

  §1  `stroke_indices_valid_sqrt`: over every ordered field, for ALL event lists (lines, quadratics,
      cubics, open / closed / empty / single-point sub-paths, any order of events), all joins, caps,
      fixed and variable width, every emitted triangle has — at the moment `add_triangle` is called —
      three pairwise distinct ids returned by an earlier `add_stroke_vertex` (`VertexId::INVALID`
      never reaches `add_triangle`), GIVEN, for the combination fixed width + `MiterClip` only, the
      hypotheses `ClipHyp` (`Lemmas/StrokeIdxClipGeo.lean`): the `sqrt` laws, the exact
      `Line::intersection` with determinant guard `eps ≥ 0`, `line_width ≥ 0`, `miter_limit ≥ 1`,
      merge threshold `> 0` (the former hypothesis `line_width > 2·eps` is gone since /repo fix
      ede203df of finding C05-miter-clip-unscaled-fallback: when the guard fires the side point now
      stays where it is, `clip_fallback`).  Every other transcendental function, `is_nan`, the curve flattening
      stay arbitrary.  The proof is the LINKED window invariant of `Lemmas/StrokeIdxClipRun.lean`:
      the clipped front side point of a `MiterClip` join lies behind the join along the next edge, so
      the two dot products `flattened_step` tests add up to `≥ 2·|prev_edge|²`.
      `miter_limit ≥ 1` is needed: below 1 the real tessellator does hand `VertexId::INVALID` to
      `add_triangle` (3 % of random curve strokes with `options.miter_limit` in (0.05, 1) set through
      the public field; `with_miter_limit` asserts `≥ 1`; outside the property: an observation).
  §2  numeric clauses: advancement of a fixed-width polyline, reach of a single segment.
-/
import LyonVerif.Lemmas.StrokeIdxClipGeo
import LyonVerif.Lemmas.StrokeIdxClipAdv
import LyonVerif.Lemmas.StrokeIdxClipSeg
import LyonVerif.Props.C05c

set_option linter.unusedSectionVars false
set_option linter.unusedVariables false

namespace Lyon.C05d
open Lyon Scalar Lyon.Stroke Lyon.Stroke.Full Lyon.C05 Lyon.C05b Lyon.C05c
open Lyon.StrokeQuad (lineIntersection)

/-! ## §1 index validity for all joins -/

section Field
variable {K : Type} [Field K] [LinearOrder K] [IsStrictOrderedRing K] [Transc K] [Asin K] [FlatConst K]

/-- **Fixed width + `MiterClip`, all event lists** (curves included) over an ordered field under
`ClipHyp`: the emission sequence is valid and the linked window invariant holds at the end -/
theorem stroke_indices_valid_miter_clip (e : Env K) (store : Nat → List K) (evs : List (IdEv K)) (eps : K)
    (hfw : e.o.varWidth = false) (h : ClipHyp e eps) :
    VSteps (VertexOK e store (evIds evs)) (Out.empty 0) (runEvents e store evs).st.out :=
  (runEvents_specL (linkReg_field h store (evIds evs) hfw) hfw store
    (K := fun id => id ∈ evIds evs ∨ id = unset) (Or.inr rfl) evs
    (evOK_std e store evs _ _ trivial (Or.inl fun _ => trivial))).base.steps

/-- **`stroke_indices_valid`, every join, every width mode, every event list**, over an ordered field
(exact arithmetic).  `ClipHyp` is asked for only when the width is fixed and the join is `MiterClip`;
in every other case no law of any function is assumed (`stroke_indices_valid_partial`). -/
theorem stroke_indices_valid_sqrt (e : Env K) (store : Nat → List K) (evs : List (IdEv K)) (eps : K)
    (h : e.o.varWidth = false → e.o.join = .miterClip → ClipHyp e eps) :
    VSteps (VertexOK e store (evIds evs)) (Out.empty 0) (runEvents e store evs).st.out := by
  rcases Bool.eq_false_or_eq_true e.o.varWidth with hvw | hvw
  · exact stroke_indices_valid_partial e store evs (Or.inl hvw)
  · by_cases hj : e.o.join = .miterClip
    · exact stroke_indices_valid_miter_clip e store evs eps hvw (h hvw hj)
    · exact stroke_indices_valid_partial e store evs (Or.inr hj)

/-- **`stroke_indices_valid_full`**: the statement of `stroke_indices_valid_sqrt` with the hypotheses
spelled out.  Ordered field, ANY event list, ANY option record with `line_width ≥ 0` and
`miter_limit ≥ 1` (the property's own preconditions, needed for fixed width + `MiterClip` only),
the two `sqrt` laws, the exact `Line::intersection` with any determinant guard `eps ≥ 0`, a positive
merge threshold: every triangle, when it is emitted, has three distinct ids returned before. -/
theorem stroke_indices_valid_full (e : Env K) (store : Nat → List K) (evs : List (IdEv K)) (eps : K)
    (hs0 : ∀ x : K, 0 ≤ x → 0 ≤ Transc.sqrt x) (hs : ∀ x : K, 0 ≤ x → Transc.sqrt x * Transc.sqrt x = x)
    (hix : e.ix = lineIntersection eps) (heps : 0 ≤ eps) (hw : 0 ≤ e.o.lineWidth) (hml : 1 ≤ e.o.miterLimit)
    (hthr : 0 < e.thr) :
    VSteps (VertexOK e store (evIds evs)) (Out.empty 0) (runEvents e store evs).st.out :=
  stroke_indices_valid_sqrt e store evs eps (fun _ _ => ⟨hs0, hs, hix, heps, hw, hml, hthr⟩)

/-- the finished mesh and the per-vertex data, all joins: ids are positions in the vertex list; every
triangle has three distinct valid ids; no `VertexId::INVALID`; every vertex's source names an
endpoint / an edge of the input, its half width is the source's, `position = position_on_path +
normal · half_width` -/
theorem stroke_mesh_sqrt (e : Env K) (store : Nat → List K) (evs : List (IdEv K)) (eps : K)
    (h : e.o.varWidth = false → e.o.join = .miterClip → ClipHyp e eps) :
    let o := (runEvents e store evs).st.out
    o.nextId = o.verts.length
    ∧ (∀ t ∈ o.tris, Tri.Distinct t ∧ Tri.Below t o.verts.length)
    ∧ (o.verts.length ≤ unset → ∀ t ∈ o.tris, t.1 ≠ unset ∧ t.2.1 ≠ unset ∧ t.2.2 ≠ unset)
    ∧ ∀ d ∈ o.verts, VertexOK e store (evIds evs) d.src d.halfWidth
        ∧ d.read.position = d.positionOnPath + d.normal.smul d.halfWidth := by
  obtain ⟨a, b, c, d⟩ := mesh_of_vsteps (stroke_indices_valid_sqrt e store evs eps h)
  exact ⟨a, b, d, fun v hv => ⟨c v hv, rfl⟩⟩

/-- whatever `tessellate_with_ids` / the `StrokeBuilder` interface returns is a valid emission
sequence, all joins -/
theorem stroke_indices_valid_tessellateIds_sqrt (e : Env K) (store : Nat → List K) (evs : List (IdEv K)) (eps : K)
    (h : e.o.varWidth = false → e.o.join = .miterClip → ClipHyp e eps) (out : Out K)
    (ho : tessellateIds e store evs = some out) :
    VSteps (VertexOK e store (evIds evs)) (Out.empty 0) out := by
  rw [tessellateIds_out ho]
  exact stroke_indices_valid_sqrt e store evs eps h

/-- `square_merge_threshold` is positive (`max(…, 1e-8)`) -/
theorem squareMergeThreshold_pos (tol lw : K) : 0 < squareMergeThreshold tol lw := by
  unfold squareMergeThreshold
  simp only [geom]
  apply lt_of_lt_of_le _ (le_max_right _ _)
  positivity

/-- `ClipHyp` for the environment the tessellator builds (`Env.new`): the merge threshold needs no
hypothesis -/
theorem clipHyp_new (o : Opts K) (eps : K)
    (hs0 : ∀ x : K, 0 ≤ x → 0 ≤ Transc.sqrt x) (hs : ∀ x : K, 0 ≤ x → Transc.sqrt x * Transc.sqrt x = x)
    (heps : 0 ≤ eps) (hw : 0 ≤ o.lineWidth) (hml : 1 ≤ o.miterLimit) :
    ClipHyp (Env.new o (lineIntersection eps)) eps :=
  ⟨hs0, hs, rfl, heps, hw, hml, squareMergeThreshold_pos _ _⟩

/-- **the public entry point `StrokeTessellator::tessellate`** (`tessellate_fw`: fixed width) with the
environment it builds, all joins, all paths: whatever it returns is a valid emission sequence, given
the `sqrt` laws, `line_width ≥ 0`, `miter_limit ≥ 1` -/
theorem stroke_indices_valid_tessellate_sqrt (o : Opts K) (eps : K) (evs : List (PathEv K))
    (hs0 : ∀ x : K, 0 ≤ x → 0 ≤ Transc.sqrt x) (hs : ∀ x : K, 0 ≤ x → Transc.sqrt x * Transc.sqrt x = x)
    (heps : 0 ≤ eps) (hw : 0 ≤ o.lineWidth) (hml : 1 ≤ o.miterLimit)
    (out : Out K) (ho : tessellateFw (Env.new o (lineIntersection eps)) evs = some out) :
    VSteps (VertexOK { Env.new o (lineIntersection eps) with o := { o with varWidth := false } }
      (fun _ => []) (evIds (assignIds evs 0))) (Out.empty 0) out := by
  unfold tessellateFw at ho
  rw [tessellateIds_out ho]
  refine stroke_indices_valid_sqrt _ _ _ eps (fun _ _ => ?_)
  exact ⟨hs0, hs, rfl, heps, hw, hml, squareMergeThreshold_pos _ _⟩

end Field

/-! ### the hypotheses are satisfiable: `ℝ` with the real square root -/

section Real
open Lyon.StrokeQuad (clipIntersections)

attribute [local instance] realTransc
@[instance_reducible] noncomputable def realAsin : Asin ℝ := ⟨id⟩
@[instance_reducible] noncomputable def realFlat : FlatConst ℝ := ⟨1 / 10000, fun m e => (m : ℝ) / 10 ^ e, 1 / 5⟩
attribute [local instance] realAsin realFlat

/-- options of a fixed-width `MiterClip` stroke: tolerance 0.1, width 1, miter limit 4 -/
noncomputable def exOptsR : Opts ℝ := ⟨1 / 10, 1, 4, .miterClip, .butt, .round, false, 0⟩

/-- `ClipHyp` holds over `ℝ` (`Real.sqrt`, lyon's `1e-8` determinant guard) -/
theorem clipHyp_real : ClipHyp (Env.new exOptsR (lineIntersection (1 / 10 ^ 8))) (1 / 10 ^ 8 : ℝ) :=
  clipHyp_new exOptsR _ (fun x _ => Real.sqrt_nonneg x) (fun x hx => Real.mul_self_sqrt hx)
    (by positivity) (by norm_num [exOptsR]) (by norm_num [exOptsR])

/-- … so a closed `MiterClip` path with a line, a quadratic and a cubic has a valid emission
sequence (whatever `sin`, `cos`, `acos`, the flattening constants … are) -/
example (store : Nat → List ℝ) :
    let evs : List (IdEv ℝ) := [.begin 0 ⟨0, 0⟩, .line 1 ⟨10, 0⟩, .quad ⟨12, 1⟩ 2 ⟨0, 2⟩,
      .cubic ⟨-3, 5⟩ ⟨4, 4⟩ 3 ⟨1, -7⟩, .end_ true]
    VSteps (VertexOK (Env.new exOptsR (lineIntersection (1 / 10 ^ 8))) store (evIds evs)) (Out.empty 0)
      (runEvents (Env.new exOptsR (lineIntersection (1 / 10 ^ 8))) store evs).st.out :=
  stroke_indices_valid_sqrt _ store _ (1 / 10 ^ 8) (fun _ _ => clipHyp_real)

/-- the clipped branch is not vacuous: at the 5-12-13 turn `(12/13, 5/13) → (−12/13, 5/13)` (a left
turn of about 135°) the miter normal has `|n|² = 169/25 > 4 = (2·miter_limit)²` for `miter_limit = 1`,
the hypotheses of `clip_behind` hold and the clipped point lies behind the unclipped one -/
example (a : P ℝ) : ∃ lam : ℝ, lam ≤ 0 ∧
    (clipIntersections (lineIntersection (1 / 10 ^ 8)) a
        ⟨-(-1 * (1 / 2) * (5 / 13)), -1 * (1 / 2) * (-12 / 13)⟩
        ((computeNormal (⟨12 / 13, 5 / 13⟩ : P ℝ) ⟨-12 / 13, 5 / 13⟩).smul (-1)) (1 * (1 / 2))).2
      = ⟨-(-1 * (1 / 2) * (5 / 13)) + lam * (-12 / 13), -1 * (1 / 2) * (-12 / 13) + lam * (5 / 13)⟩ := by
  have hpt : (⟨12 / 13, 5 / 13⟩ : P ℝ).sqLen = 1 := by simp only [geom]; norm_num
  have hnt : (⟨-12 / 13, 5 / 13⟩ : P ℝ).sqLen = 1 := by simp only [geom]; norm_num
  have hnn : (0 : ℝ) ≤ ((⟨12 / 13, 5 / 13⟩ : P ℝ) + ⟨-12 / 13, 5 / 13⟩).sqLen := by simp only [geom]; norm_num
  have hg : ¬ ((⟨12 / 13, 5 / 13⟩ : P ℝ) + ⟨-12 / 13, 5 / 13⟩).sqLen < normalEpsilon := by
    rw [normalEpsilon_eq]; simp only [geom]; norm_num
  have h3 := (compute_normal_miter (K := ℝ) ⟨12 / 13, 5 / 13⟩ ⟨-12 / 13, 5 / 13⟩ hpt hnt hg
    (Real.sqrt_nonneg _) (Real.mul_self_sqrt hnn)).2.2
  have hex : (computeNormal (⟨12 / 13, 5 / 13⟩ : P ℝ) ⟨-12 / 13, 5 / 13⟩).sqLen > 1 * 1 * 4 := by
    have e : (1 : ℝ) + (⟨12 / 13, 5 / 13⟩ : P ℝ).dot ⟨-12 / 13, 5 / 13⟩ = 50 / 169 := by
      simp only [geom]; norm_num
    rw [e] at h3
    linarith
  exact clip_behind (fun x _ => Real.sqrt_nonneg x) (fun x hx => Real.mul_self_sqrt hx)
    (1 / 10 ^ 8) (1 / 2) 1 (by positivity) (by norm_num) (le_refl _) ⟨12 / 13, 5 / 13⟩ ⟨-12 / 13, 5 / 13⟩
    hpt hnt a (-1) (Or.inl ⟨rfl, by simp only [geom]; norm_num⟩) hex

/-- the guard branch is not vacuous either: with a half width of `1e-9` the determinant `1e-9·(N·nt)`
is within lyon's `1e-8` guard, `Line::intersection` answers `None` and the side point stays put -/
example (a : P ℝ) (k : ℝ) :
    (clipIntersections (lineIntersection (1 / 10 ^ 8)) a
        ⟨-(1 / 10 ^ 9 * (0 : ℝ)), 1 / 10 ^ 9 * 1⟩ ⟨2, 0⟩ k).2 = ⟨-(1 / 10 ^ 9 * (0 : ℝ)), 1 / 10 ^ 9 * 1⟩ :=
  clip_fallback (1 / 10 ^ 8) a ⟨2, 0⟩ ⟨1, 0⟩ (1 / 10 ^ 9) k (by
    show |(1 / 10 ^ 9 : ℝ) * (2 * 1 + 0 * 0)| ≤ 1 / 10 ^ 8
    rw [abs_of_nonneg (by positivity)]; norm_num)

end Real

/-! ## §2 numeric clauses that are exact facts about the model's bookkeeping -/

section Advancement
variable {α : Type} [Scalar α] [Transc α] [Asin α] [FlatConst α]

/-- **(b) advancement of a fixed-width polyline, every scalar type** (floats included: the sums are
the model's own additions in the model's order, tied bit for bit to lyon).  Sub-path
`begin p0, line_to p1, line_to …, end(false)` at the start of a tessellation, no merged points, join
Miter / MiterClip / Bevel, butt or square caps, `is_nan(NaN) = true`: every emitted vertex names an
endpoint `k` of the input, sits on it (`position_on_path = p_k`) and reports the advancement
`advTable`'s entry `k`: `0` at the first point, `a_{k-1} + |p_k − p_{k-1}|` at the `k`-th, i.e. the
sum of the lengths of the first `k` edges; the vertices of the last point report the total length.

`_partial`: the hypotheses on join and caps are no longer needed (`Props/C05f.lean`
`stroke_polyline_advancement_open`, `stroke_path_advancement_partial`: round joins / caps and later
sub-paths are covered there); merged points, closed sub-paths, later sub-paths (which start at the
previous sub-path's end advancement) and curves are not covered; the oracle clause
`stroke/advancement-arc-length` explores them. -/
theorem stroke_polyline_advancement_partial (e : Env α) (store : Nat → List α) (hfw : e.o.varWidth = false)
    (hj : e.o.join ≠ .round) (hs : e.o.startCap ≠ .round) (he : e.o.endCap ≠ .round)
    (hnan : Transc.isNaN (nan : α) = true)
    (i0 i1 : Nat) (p0 p1 : P α) (rest : List (Nat × P α))
    (hm : NoMerge e.thr (p0 :: p1 :: rest.map (·.2))) :
    ∀ v ∈ (runEvents e store (IdEv.begin i0 p0 :: IdEv.line i1 p1 :: (lineEvs rest ++ [IdEv.end_ false]))).st.out.verts,
      ∃ t ∈ advTable zero ((i0, p0) :: (i1, p1) :: rest),
        v.src = .endpoint t.1 ∧ v.positionOnPath = t.2.1 ∧ v.advancement = t.2.2 :=
  polyline_advancement e store hfw hnan i0 i1 p0 p1 rest hm

end Advancement

section AdvField
variable {K : Type} [Field K] [LinearOrder K] [IsStrictOrderedRing K] [Transc K]

/-- with `sqrt ≥ 0` the advancements of the table start at `a` and never decrease along the path -/
theorem advTable_ge (hs0 : ∀ x : K, 0 ≤ x → 0 ≤ Transc.sqrt x) :
    ∀ (pts : List (Nat × P K)) (a : K), ∀ t ∈ advTable a pts, a ≤ t.2.2 := by
  intro pts
  induction pts with
  | nil => intro a t ht; simp [advTable] at ht
  | cons q r ih =>
    intro a t ht
    cases r with
    | nil => simp [advTable] at ht; subst ht; exact le_refl _
    | cons q' r' =>
      simp only [advTable, List.mem_cons] at ht
      rcases ht with rfl | ht
      · exact le_refl _
      · have h1 := ih (a + len (q'.2 - q.2)) t ht
        have h2 : (0 : K) ≤ len (q'.2 - q.2) := by
          unfold len
          exact hs0 _ (by simp only [geom]; exact add_nonneg (mul_self_nonneg _) (mul_self_nonneg _))
        have h3 : a ≤ a + len (q'.2 - q.2) := le_add_of_nonneg_right h2
        exact le_trans h3 h1

/-- **monotone**: the advancements along the path are non-decreasing (`0 ≤ length`) -/
theorem advTable_sorted (hs0 : ∀ x : K, 0 ≤ x → 0 ≤ Transc.sqrt x) :
    ∀ (pts : List (Nat × P K)) (a : K), ((advTable a pts).map (·.2.2)).Pairwise (· ≤ ·) := by
  intro pts
  induction pts with
  | nil => intro a; simp [advTable]
  | cons q r ih =>
    intro a
    cases r with
    | nil => simp [advTable]
    | cons q' r' =>
      simp only [advTable, List.map_cons, List.pairwise_cons]
      refine ⟨?_, ih _⟩
      intro x hx
      simp only [List.mem_map] at hx
      obtain ⟨t, ht, rfl⟩ := hx
      have h1 := advTable_ge hs0 _ _ t ht
      have h2 : (0 : K) ≤ len (q'.2 - q.2) := by
        unfold len
        exact hs0 _ (by simp only [geom]; exact add_nonneg (mul_self_nonneg _) (mul_self_nonneg _))
      have h3 : a ≤ a + len (q'.2 - q.2) := le_add_of_nonneg_right h2
      exact le_trans h3 h1

end AdvField

section AdvExample
open Lyon.C05b (toyTransc)

/-- `toyTransc` with an `is_nan` that recognises the field's stand-in for NaN (`0/0 = 0`) -/
@[instance_reducible] def toyNaN : Transc ℚ := { toyTransc with isNaN := fun x => decide (x = 0) }
attribute [local instance] toyNaN toyAsin toyFlat

/-- hypotheses of `stroke_polyline_advancement_partial`: `is_nan(NaN) = true`, and `NoMerge` on the
3-4-5 polyline `(0,0) → (3,4) → (3,10)` (advancements `0, 5, 11`) -/
example : Transc.isNaN (nan : ℚ) = true := by
  show decide ((nan : ℚ) = 0) = true
  simp [nan, geom]

example : NoMerge (Env.new (⟨1 / 10, 1, 4, .miterClip, .butt, .square, false, 0⟩ : Opts ℚ) (fun _ _ _ _ => none)).thr
    [⟨0, 0⟩, ⟨3, 4⟩, ⟨3, 10⟩] := by
  simp [NoMerge, pointsAreTooClose, Env.new, squareMergeThreshold, geom]
  norm_num

example : (advTable (0 : ℚ) [(0, ⟨0, 0⟩), (1, ⟨3, 4⟩), (2, ⟨3, 10⟩)]).map (·.2.2) = [0, 5, 11] := by
  decide +kernel

end AdvExample

/-! ### (c) reach in the simplest regime: a single segment -/

section Segment
variable {K : Type} [Field K] [LinearOrder K] [IsStrictOrderedRing K] [Transc K] [Asin K] [FlatConst K]

/-- **(c) reach of a single-segment stroke**, exact arithmetic.  Fixed width `2·hw` with `hw > 0`, butt
or square caps (start and end cap independently), `Line::intersection` with determinant guard `eps`,
the `sqrt` laws, an edge longer than `eps`: every vertex that `begin p0, line_to p1, end(false)` emits
sits on one of the two endpoints, at squared distance exactly `hw²` (butt) or `2·hw²` (square: `√2·hw`)
from it, according to the cap at that end.  (The four corners are `p ± perp(t)·hw (± t·hw)`:
`Lemmas/StrokeIdxClipSeg.lean`, using `Lyon.C06.cap_side_butt / cap_side_square`.) -/
theorem stroke_segment_reach (e : Env K) (eps : K) (hix : e.ix = lineIntersection eps) (heps : 0 ≤ eps)
    (hs0 : ∀ x : K, 0 ≤ x → 0 ≤ Transc.sqrt x) (hs : ∀ x : K, 0 ≤ x → Transc.sqrt x * Transc.sqrt x = x)
    (store : Nat → List K) (hfw : e.o.varWidth = false)
    (hsc : e.o.startCap ≠ .round) (hec : e.o.endCap ≠ .round)
    (i0 i1 : Nat) (p0 p1 : P K) (hfar : pointsAreTooClose e.thr p0 p1 = false)
    (hlen : eps < len (p1 - p0)) (hhw : 0 < e.hwFw) :
    ∀ v ∈ (runEvents e store [IdEv.begin i0 p0, IdEv.line i1 p1, IdEv.end_ false]).st.out.verts,
      (v.positionOnPath = p1 ∧ (v.read.position - p1).sqLen = capReachSq e.o.endCap e.hwFw)
      ∨ (v.positionOnPath = p0 ∧ (v.read.position - p0).sqLen = capReachSq e.o.startCap e.hwFw) :=
  segment_reach e eps hix heps hs0 hs store hfw hsc hec i0 i1 p0 p1 hfar hlen hhw

end Segment

section SegmentReal
attribute [local instance] realTransc realAsin realFlat

/-- the hypotheses of `stroke_segment_reach` hold over `ℝ` for the segment `(0,0) → (3,4)` (length 5),
width 1, butt start cap, square end cap: its end vertices are `√2/2` from `(3,4)`, its start
vertices `1/2` from `(0,0)` -/
example (store : Nat → List ℝ) :
    let e : Env ℝ := Env.new ⟨1 / 10, 1, 4, .miter, .butt, .square, false, 0⟩ (lineIntersection (1 / 10 ^ 8))
    ∀ v ∈ (runEvents e store [IdEv.begin 0 ⟨0, 0⟩, IdEv.line 1 ⟨3, 4⟩, IdEv.end_ false]).st.out.verts,
      (v.positionOnPath = ⟨3, 4⟩ ∧ (v.read.position - ⟨3, 4⟩).sqLen = capReachSq .square e.hwFw)
      ∨ (v.positionOnPath = ⟨0, 0⟩ ∧ (v.read.position - ⟨0, 0⟩).sqLen = capReachSq .butt e.hwFw) := by
  intro e
  have h5 : len ((⟨3, 4⟩ : P ℝ) - ⟨0, 0⟩) = 5 := by
    show Real.sqrt _ = 5
    rw [show ((⟨3, 4⟩ : P ℝ) - ⟨0, 0⟩).sqLen = 5 ^ 2 by simp only [geom]; norm_num]
    exact Real.sqrt_sq (by norm_num)
  refine stroke_segment_reach e (1 / 10 ^ 8) rfl (by positivity) (fun x _ => Real.sqrt_nonneg x)
    (fun x hx => Real.mul_self_sqrt hx) store rfl (by decide) (by decide) 0 1 ⟨0, 0⟩ ⟨3, 4⟩ ?_ ?_ ?_
  · simp [e, pointsAreTooClose, Env.new, squareMergeThreshold, geom]
    norm_num
  · rw [h5]; norm_num
  · show (0 : ℝ) < 1 * half
    have : (half : ℝ) = 1 / 2 := sc_half
    rw [this]; norm_num

end SegmentReal

end Lyon.C05d
