/-
  C18 (part e) — the winding number changes sign when the path is reversed, at the level of the
  stored points.

  `windingAt_flip` (Props/C18.lean) negates the winding number when every EDGE of an edge list is
  flipped.  `Path::reversed` reverses the POINT lists (and the order of the sub-paths): the closed
  outline of the reversed list is a rotation of the flipped outline, with a different implicit
  closing edge.  For ALL query points, ALL polygonal paths, over any linearly ordered field:

  * `subEdges_reverse_winding`   the per-sub-path crossing sum of the reversed point list is the
                                  negation;
  * `windingAt_path_reversed`    `path_winding_number_at_position` of the reversed path is the
                                  negation — so non-zero hit tests agree and even-odd ones too
                                  (`hitTest_path_reversed_evenOdd`).
-/
import LyonVerif.Props.C18
import Mathlib.Tactic.Ring
import Mathlib.Tactic.Linarith

set_option linter.unusedSectionVars false
set_option linter.unusedVariables false

namespace Lyon.C18
open Lyon Lyon.Winding
variable {K : Type} [Field K] [LinearOrder K] [IsStrictOrderedRing K]

theorem testSegment_self (q a : P K) : testSegment q a a = 0 := by
  have := testSegment_flip q a a
  omega

/-- open chain of crossing contributions over consecutive points -/
noncomputable def wchain (q : P K) : List (P K) → Int
  | a :: b :: r => testSegment q a b + wchain q (b :: r)
  | _ => 0

theorem wchain_split (q : P K) (l : List (P K)) (m : P K) (y : List (P K)) :
    wchain q (l ++ m :: y) = wchain q (l ++ [m]) + wchain q (m :: y) := by
  induction l with
  | nil => simp [wchain]
  | cons a l ih =>
    cases l with
    | nil => simp [wchain]
    | cons b l' =>
      simp only [List.cons_append, wchain] at ih ⊢
      rw [ih]; ring

theorem wchain_reverse (q : P K) (l : List (P K)) : wchain q l.reverse = - wchain q l := by
  induction l with
  | nil => simp [wchain]
  | cons a r ih =>
    cases r with
    | nil => simp [wchain]
    | cons b r' =>
      have e : (a :: b :: r').reverse = r'.reverse ++ b :: [a] := by simp
      have e2 : r'.reverse ++ [b] = (b :: r').reverse := by simp
      rw [e, wchain_split, e2, ih]
      simp only [wchain, testSegment_flip q a b]
      ring

/-- crossing sum of an edge list -/
noncomputable def wsum (q : P K) (es : List (P K × P K)) : Int := (es.map (fun e => testSegment q e.1 e.2)).sum

theorem subEdgesFrom_wchain (q f u : P K) (r : List (P K)) :
    wsum q (subEdgesFrom f (u :: r)) = wchain q (u :: r ++ [f]) := by
  induction r generalizing u with
  | nil => simp [wsum, subEdgesFrom, wchain]
  | cons p r ih =>
    have := ih p
    simp only [wsum, subEdgesFrom, List.map_cons, List.sum_cons, List.cons_append, wchain] at this ⊢
    rw [this]

theorem subEdges_wchain (q a : P K) (r : List (P K)) :
    wsum q (subEdges (a :: r)) = wchain q (a :: r ++ [a]) := by
  unfold subEdges; exact subEdgesFrom_wchain q a a r

/-- **reversing the point list of a sub-path negates its crossing sum** -/
theorem subEdges_reverse_winding (q : P K) (pts : List (P K)) :
    wsum q (subEdges pts.reverse) = - wsum q (subEdges pts) := by
  cases pts with
  | nil => simp [subEdges, wsum]
  | cons a r =>
    rw [subEdges_wchain]
    cases r with
    | nil =>
      have : [a].reverse = [a] := rfl
      rw [this, subEdges_wchain]
      simp [wchain, testSegment_self]
    | cons b r' =>
      cases h : (b :: r').reverse with
      | nil => simp at h
      | cons z w =>
        have e1 : (a :: b :: r').reverse = z :: (w ++ [a]) := by
          rw [List.reverse_cons, h]; rfl
        rw [e1, subEdges_wchain]
        have e2 : z :: (w ++ [a]) ++ [z] = (z :: w) ++ a :: [z] := by simp
        rw [e2, wchain_split]
        have e3 : (a :: (b :: r') ++ [a]).reverse = a :: z :: (w ++ [a]) := by
          have : a :: (b :: r') ++ [a] = (a :: b :: r') ++ [a] := rfl
          rw [this, List.reverse_append, e1]; rfl
        have e4 := wchain_reverse q (a :: (b :: r') ++ [a])
        rw [e3] at e4
        have e5 : wchain q (a :: z :: (w ++ [a])) = testSegment q a z + wchain q (z :: w ++ [a]) := by
          simp [wchain]
        rw [e5] at e4
        have e6 : wchain q [a, z] = testSegment q a z := by simp [wchain]
        rw [e6]
        omega

theorem windingAt_pathEdges (q : P K) (subs : List (List (P K))) :
    windingAt q (pathEdges subs) = (subs.map (fun s => wsum q (subEdges s))).sum := by
  rw [windingAt_eq_sum]
  unfold pathEdges
  induction subs with
  | nil => simp
  | cons s r ih =>
    simp only [List.flatMap_cons, List.map_append, List.sum_append, List.map_cons, List.sum_cons]
    rw [ih]; rfl

/-- **`path_winding_number_at_position` of the reversed path** (sub-paths in opposite order, each
with its points reversed) **is the negation**, for every query point -/
theorem windingAt_path_reversed (q : P K) (subs : List (List (P K))) :
    windingAt q (pathEdges (subs.reverse.map List.reverse)) = - windingAt q (pathEdges subs) := by
  rw [windingAt_pathEdges, windingAt_pathEdges, List.map_map, List.map_reverse, List.sum_reverse]
  induction subs with
  | nil => simp
  | cons s r ih =>
    simp only [List.map_cons, List.sum_cons, Function.comp_apply, subEdges_reverse_winding] at ih ⊢
    rw [ih]; ring

/-- the hit test does not depend on the direction of the path (either rule) -/
theorem hitTest_path_reversed (evenOdd : Bool) (q : P K) (subs : List (List (P K))) :
    hitTest evenOdd q (subs.reverse.map List.reverse) = hitTest evenOdd q subs := by
  unfold hitTest
  rw [windingAt_path_reversed]
  unfold hitRule
  generalize windingAt q (pathEdges subs) = w
  have key : ∀ x : Int, (-x != 0) = (x != 0) := by
    intro x
    by_cases h : x = 0
    · simp [h]
    · have h' : -x ≠ 0 := by omega
      rw [bne_iff_ne.mpr h, bne_iff_ne.mpr h']
  cases evenOdd
  · simpa using key w
  · simpa [Int.neg_tmod] using key (w.tmod 2)

end Lyon.C18
