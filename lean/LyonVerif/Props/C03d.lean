/-
  C03 (growth d) — how far the curves of the path-builder shape helpers are from the exact shape.

  builder.rs `add_circle` and `add_rounded_rectangle` (model `Model/Path/Shapes.lean`, tied bit for
  bit to the real helpers by the family `helpers:32`) draw each quarter circle as ONE cubic with the
  constant `0.55191505`.  `Lemmas/CircleCoverHelper.lean` proves the radial deviation of that cubic
  (`QuarterArc.radial`: within `±2·10⁻⁴` of the radius).  Here, over every ordered field:

  * `add_circle_quarter_arcs`        the four cubics of `add_circle` are the quarter arcs of radius
                                     `|r|` about the centre between the axis directions, in order
  * `add_circle_radial_error`        every point of every cubic `add_circle` draws is within
                                     `2·10⁻⁴·|r|` of the circle the user asked for (squared form),
                                     the end points exactly on it
  * `fill_add_circle_eighth_arcs`,
    `fill_add_circle_radial_error`   `FillBuilder::add_circle` (fill.rs, its own routine: eight quadratics,
                                     constants `0.41421357`, `FRAC_1_SQRT_2`): every point of them at
                                     squared distance in `[|r|²(1 − 10⁻⁷), (1.0032·|r|)²]` of the centre
  * `rounded_rect_corner_arcs`       the 16 points of `add_rounded_rectangle` form four quarter arcs
                                     about the corner centres with the clamped radii
  * `rounded_rect_cubics`            every cubic in the emitted call list (either winding, radii that
                                     are 0 emit none) is one of these (or its reverse)
  * `rounded_rect_outline`           box not inverted: the emitted outline starts/ends every corner
                                     curve ON the box sides at the radius positions, consecutive
                                     tangent points on a side are in order (arcs do not overlap),
                                     the control points lie on the sides (tangent continuity with
                                     the straight segments), every point of every corner cubic is in
                                     its corner square inside the box and within `2·10⁻⁴·ρ` of the
                                     exact corner circle of radius `ρ`

  So the exact curved outline these helpers hand to the tessellator deviates from the ideal
  circle / rounded rectangle by at most `2·10⁻⁴` of the (corner) radius; the oracle band of
  `chk_curve` allows `3·10⁻⁴·r` for it.  Over ℝ (`Props/C03Real.lean`): distances instead of squares.
-/
import LyonVerif.Lemmas.CircleCoverHelper
import LyonVerif.Props.C03b

set_option linter.unusedSectionVars false
set_option linter.unusedVariables false
set_option linter.unusedSimpArgs false
set_option linter.unusedTactic false
set_option linter.unreachableTactic false
set_option linter.unnecessarySeqFocus false

namespace Lyon.C03d
open Lyon Lyon.Path Lyon.PathShapes

variable {K : Type} [Field K] [LinearOrder K] [IsStrictOrderedRing K]

/-- the cubic Bézier segments a call list draws (`cur` = current point) -/
def cubicSegsFrom : P K → Calls K → List (Cubic K)
  | _, [] => []
  | _, .begin p _ :: r => cubicSegsFrom p r
  | _, .line p _ :: r => cubicSegsFrom p r
  | _, .quad _ p _ :: r => cubicSegsFrom p r
  | cur, .cubic a b p _ :: r => ⟨cur, a, b, p⟩ :: cubicSegsFrom p r
  | cur, .end_ _ :: r => cubicSegsFrom cur r

/-- the cubic segments of a call list that starts with `begin` -/
def cubicSegs (l : Calls K) : List (Cubic K) := cubicSegsFrom ⟨0, 0⟩ l

/-! ### `add_circle` -/

/-- `±1` by winding -/
def dirK (pos : Bool) : K := if pos then 1 else -1

theorem dirK_sq (pos : Bool) : (dirK pos : K) * dirK pos = 1 := by cases pos <;> simp [dirK]

/-- **the four cubics of `add_circle`**: quarter arcs of radius `|r|` about the centre,
`(−1,0) → (0,−dir) → (1,0) → (0,dir) → (−1,0)` -/
theorem add_circle_quarter_arcs (c : P K) (r : K) (pos : Bool) :
    ∃ q1 q2 q3 q4 : Cubic K, cubicSegs (addCircle c r pos) = [q1, q2, q3, q4] ∧
      QuarterArc c |r| ⟨-1, 0⟩ ⟨0, -dirK pos⟩ q1 ∧ QuarterArc c |r| ⟨0, -dirK pos⟩ ⟨1, 0⟩ q2 ∧
      QuarterArc c |r| ⟨1, 0⟩ ⟨0, dirK pos⟩ q3 ∧ QuarterArc c |r| ⟨0, dirK pos⟩ ⟨-1, 0⟩ q4 := by
  have hd := dirK_sq (K := K) pos
  have hk : (circleK : K) = kC := circleK_eq
  refine ⟨_, _, _, _, rfl, ?_, ?_, ?_, ?_⟩
  all_goals
    constructor <;>
      first
        | (simp only [mul_zero, zero_mul, add_zero, zero_add, mul_neg, neg_mul, neg_neg, mul_one, one_mul,
            neg_zero] <;> linarith)
        | (cases pos <;> simp only [cubicSegs, cubicSegsFrom, addCircle, off, dirOf, dirK, kC, geom] <;> push_cast <;>
            (try simp only [Bool.false_eq_true, if_false, ↓reduceIte]) <;> ring)

/-- **radial error of `add_circle`**: every point of each of the four cubics `add_circle(center,
radius, winding)` draws is within `2·10⁻⁴·|radius|` of the circle of radius `|radius|` about
`center` (squared form), for both windings, every `t ∈ [0,1]`; there are exactly four cubics. -/
theorem add_circle_radial_error (c : P K) (r : K) (pos : Bool) :
    (cubicSegs (addCircle c r pos)).length = 4 ∧
    ∀ q ∈ cubicSegs (addCircle c r pos), ∀ t : K, 0 ≤ t → t ≤ 1 →
      (|r| * (1 - 2 / 10 ^ 4)) ^ 2 ≤ (q.sample t - c).sqLen ∧
      (q.sample t - c).sqLen ≤ (|r| * (1 + 2 / 10 ^ 4)) ^ 2 := by
  obtain ⟨q1, q2, q3, q4, he, h1, h2, h3, h4⟩ := add_circle_quarter_arcs c r pos
  rw [he]
  refine ⟨rfl, ?_⟩
  intro q hq t h0 ht
  simp only [List.mem_cons, List.not_mem_nil, or_false] at hq
  rcases hq with rfl | rfl | rfl | rfl
  · exact h1.radial t h0 ht
  · exact h2.radial t h0 ht
  · exact h3.radial t h0 ht
  · exact h4.radial t h0 ht

/-! ### `FillBuilder::add_circle` (fill.rs): eight quadratics -/

/-- the quadratic Bézier segments a call list draws (`cur` = current point) -/
def quadSegsFrom : P K → Calls K → List (Quad K)
  | _, [] => []
  | _, .begin p _ :: r => quadSegsFrom p r
  | _, .line p _ :: r => quadSegsFrom p r
  | cur, .quad c p _ :: r => ⟨cur, c, p⟩ :: quadSegsFrom p r
  | _, .cubic _ _ p _ :: r => quadSegsFrom p r
  | cur, .end_ _ :: r => quadSegsFrom cur r

def quadSegs (l : Calls K) : List (Quad K) := quadSegsFrom ⟨0, 0⟩ l

/-- **the eight quadratics of `FillBuilder::add_circle`**: each quarter `u → v` of the circle is
drawn as the eighth `u → k(u+v)` followed by the mirror image of the eighth `v → k(u+v)` -/
theorem fill_add_circle_eighth_arcs (c : P K) (r : K) (pos : Bool) :
    ∃ q0 q1 q2 q3 q4 q5 q6 q7 : Quad K,
      quadSegs (fillAddCircle c r pos) = [q0, q1, q2, q3, q4, q5, q6, q7] ∧
      EighthArc c |r| ⟨-1, 0⟩ ⟨0, -dirK pos⟩ q0 ∧ EighthArc c |r| ⟨0, -dirK pos⟩ ⟨-1, 0⟩ q1.flip ∧
      EighthArc c |r| ⟨0, -dirK pos⟩ ⟨1, 0⟩ q2 ∧ EighthArc c |r| ⟨1, 0⟩ ⟨0, -dirK pos⟩ q3.flip ∧
      EighthArc c |r| ⟨1, 0⟩ ⟨0, dirK pos⟩ q4 ∧ EighthArc c |r| ⟨0, dirK pos⟩ ⟨1, 0⟩ q5.flip ∧
      EighthArc c |r| ⟨0, dirK pos⟩ ⟨-1, 0⟩ q6 ∧ EighthArc c |r| ⟨-1, 0⟩ ⟨0, dirK pos⟩ q7.flip := by
  have hd := dirK_sq (K := K) pos
  refine ⟨_, _, _, _, _, _, _, _, rfl, ?_, ?_, ?_, ?_, ?_, ?_, ?_, ?_⟩
  all_goals
    constructor <;>
      first
        | (simp only [mul_zero, zero_mul, add_zero, zero_add, mul_neg, neg_mul, neg_neg, mul_one, one_mul,
            neg_zero] <;> linarith)
        | (cases pos <;> simp only [Quad.flip, off, diag, dirOf, dirK, tC, kS, geom] <;> push_cast <;>
            (try simp only [Bool.false_eq_true, if_false, ↓reduceIte]) <;> ring)

/-- **radial error of `FillBuilder::add_circle`**: every point of each of the eight quadratics is at
squared distance within `[|r|²(1 − 10⁻⁷), (1.0032·|r|)²]` of the centre: the curves run (up to the
rounding of the decimal constants `0.41421357`, `FRAC_1_SQRT_2`) outside the circle, within `0.32 %`
of the radius. -/
theorem fill_add_circle_radial_error (c : P K) (r : K) (pos : Bool) :
    (quadSegs (fillAddCircle c r pos)).length = 8 ∧
    ∀ q ∈ quadSegs (fillAddCircle c r pos), ∀ t : K, 0 ≤ t → t ≤ 1 →
      |r| ^ 2 * (1 - 1 / 10 ^ 7) ≤ (q.sample t - c).sqLen ∧
      (q.sample t - c).sqLen ≤ (|r| * (1 + 32 / 10 ^ 4)) ^ 2 := by
  obtain ⟨q0, q1, q2, q3, q4, q5, q6, q7, he, h0, h1, h2, h3, h4, h5, h6, h7⟩ := fill_add_circle_eighth_arcs c r pos
  rw [he]
  refine ⟨rfl, ?_⟩
  intro q hq t ht0 ht1
  have hrev : ∀ q' : Quad K, q'.sample t = q'.flip.sample (1 - t) := by
    intro q'
    have := quad_flip_sample q'.flip t
    exact this
  simp only [List.mem_cons, List.not_mem_nil, or_false] at hq
  rcases hq with rfl | rfl | rfl | rfl | rfl | rfl | rfl | rfl
  · exact h0.radial t ht0 ht1
  · rw [hrev]; exact h1.radial _ (by linarith) (by linarith)
  · exact h2.radial t ht0 ht1
  · rw [hrev]; exact h3.radial _ (by linarith) (by linarith)
  · exact h4.radial t ht0 ht1
  · rw [hrev]; exact h5.radial _ (by linarith) (by linarith)
  · exact h6.radial t ht0 ht1
  · rw [hrev]; exact h7.radial _ (by linarith) (by linarith)

/-! ### `add_rounded_rectangle` -/

/-- the corner centres and radii of a rounded rectangle -/
def cornerTL (mn mx : P K) (r : Radii K) : P K := ⟨mn.x + r.tl, mn.y + r.tl⟩
def cornerTR (mn mx : P K) (r : Radii K) : P K := ⟨mx.x - r.tr, mn.y + r.tr⟩
def cornerBR (mn mx : P K) (r : Radii K) : P K := ⟨mx.x - r.br, mx.y - r.br⟩
def cornerBL (mn mx : P K) (r : Radii K) : P K := ⟨mn.x + r.bl, mx.y - r.bl⟩

/-- the four corner cubics in `Winding::Positive` order, from the 16 points -/
noncomputable def rrCubic (mn mx : P K) (r : Radii K) (i : Nat) : Cubic K :=
  ⟨(rrPoints mn mx r).getD (4 * i) origin, (rrPoints mn mx r).getD (4 * i + 1) origin,
   (rrPoints mn mx r).getD (4 * i + 2) origin, (rrPoints mn mx r).getD (4 * i + 3) origin⟩

/-- **the 16 points form four quarter arcs** about the corner centres: top-left
`(−1,0) → (0,−1)`, top-right `(0,−1) → (1,0)`, bottom-right `(1,0) → (0,1)`, bottom-left
`(0,1) → (−1,0)` (for ANY radii: the clamping only decides their size) -/
theorem rounded_rect_corner_arcs (mn mx : P K) (r : Radii K) :
    QuarterArc (cornerTL mn mx r) r.tl ⟨-1, 0⟩ ⟨0, -1⟩ (rrCubic mn mx r 0) ∧
    QuarterArc (cornerTR mn mx r) r.tr ⟨0, -1⟩ ⟨1, 0⟩ (rrCubic mn mx r 1) ∧
    QuarterArc (cornerBR mn mx r) r.br ⟨1, 0⟩ ⟨0, 1⟩ (rrCubic mn mx r 2) ∧
    QuarterArc (cornerBL mn mx r) r.bl ⟨0, 1⟩ ⟨-1, 0⟩ (rrCubic mn mx r 3) := by
  have hk : (circleK : K) = kC := circleK_eq
  refine ⟨?_, ?_, ?_, ?_⟩
  all_goals
    constructor <;>
      first
        | (simp only [mul_zero, zero_mul, add_zero, zero_add, mul_neg, neg_mul, neg_neg, mul_one, one_mul,
            neg_zero] <;> linarith)
        | (simp only [rrCubic, rrPoints, mul_one, mul_zero, Nat.reduceMul, Nat.reduceAdd, Array.getD_eq_getD_getElem?,
            List.size_toArray, List.length_cons, List.length_nil, zero_add, Nat.reduceLT, getElem?_pos,
            List.getElem_toArray, List.getElem_cons_succ, List.getElem_cons_zero, Option.getD_some] <;>
           simp only [off, kC, cornerTL, cornerTR, cornerBR, cornerBL, geom] <;> push_cast <;> ring)

/-- `(u, v)` is the pair of axis directions `(a, b)` in either order -/
def AxisPair (u v a b : P K) : Prop := (u = a ∧ v = b) ∨ (u = b ∧ v = a)

/-- a cubic is one of the four corner arcs (with the radius `r` has for that corner), drawn
forwards or backwards -/
def IsCornerArc (mn mx : P K) (r : Radii K) (q : Cubic K) : Prop :=
  ∃ u v : P K,
    (QuarterArc (cornerTL mn mx r) r.tl u v q ∧ AxisPair u v ⟨-1, 0⟩ ⟨0, -1⟩) ∨
    (QuarterArc (cornerTR mn mx r) r.tr u v q ∧ AxisPair u v ⟨0, -1⟩ ⟨1, 0⟩) ∨
    (QuarterArc (cornerBR mn mx r) r.br u v q ∧ AxisPair u v ⟨1, 0⟩ ⟨0, 1⟩) ∨
    (QuarterArc (cornerBL mn mx r) r.bl u v q ∧ AxisPair u v ⟨0, 1⟩ ⟨-1, 0⟩)

theorem cubicSegsFrom_append_line (cur p : P K) (l1 l2 : Calls K) :
    cubicSegsFrom cur (l1 ++ Call.line p () :: l2) = cubicSegsFrom cur (l1 ++ [Call.line p ()]) ++ cubicSegsFrom p l2 := by
  induction l1 generalizing cur with
  | nil => simp [cubicSegsFrom]
  | cons c r ih => cases c <;> simp [cubicSegsFrom, ih]

/-- **every cubic `add_rounded_rectangle` emits is a corner quarter arc** with the radius the
code uses for that corner (clamped), in either winding; corners of radius 0 emit no curve -/
theorem rounded_rect_cubics (mn mx : P K) (radii : Radii K) (pos : Bool) :
    ∀ q ∈ cubicSegs (addRoundedRectangle mn mx radii pos),
      IsCornerArc mn mx (clampRadii (mx.x - mn.x) (mx.y - mn.y) radii) q := by
  set r := clampRadii (mx.x - mn.x) (mx.y - mn.y) radii with hr
  obtain ⟨a0, a1, a2, a3⟩ := rounded_rect_corner_arcs mn mx r
  have f0 := a0.flip
  have f1 := a1.flip
  have f2 := a2.flip
  have f3 := a3.flip
  have hw : addRoundedRectangle mn mx radii pos = rrCalls (rrPoints mn mx r) r pos := rfl
  rw [hw]
  intro q hq
  cases pos
  · -- Negative: bl, br, tr, tl, each drawn backwards
    simp only [cubicSegs, rrCalls, cornerCubic, Bool.false_eq_true, if_false] at hq
    have m0 : IsCornerArc mn mx r ⟨(rrPoints mn mx r).getD 3 origin, (rrPoints mn mx r).getD 2 origin,
        (rrPoints mn mx r).getD 1 origin, (rrPoints mn mx r).getD 0 origin⟩ :=
      ⟨_, _, Or.inl ⟨f0, Or.inr ⟨rfl, rfl⟩⟩⟩
    have m1 : IsCornerArc mn mx r ⟨(rrPoints mn mx r).getD 7 origin, (rrPoints mn mx r).getD 6 origin,
        (rrPoints mn mx r).getD 5 origin, (rrPoints mn mx r).getD 4 origin⟩ :=
      ⟨_, _, Or.inr (Or.inl ⟨f1, Or.inr ⟨rfl, rfl⟩⟩)⟩
    have m2 : IsCornerArc mn mx r ⟨(rrPoints mn mx r).getD 11 origin, (rrPoints mn mx r).getD 10 origin,
        (rrPoints mn mx r).getD 9 origin, (rrPoints mn mx r).getD 8 origin⟩ :=
      ⟨_, _, Or.inr (Or.inr (Or.inl ⟨f2, Or.inr ⟨rfl, rfl⟩⟩))⟩
    have m3 : IsCornerArc mn mx r ⟨(rrPoints mn mx r).getD 15 origin, (rrPoints mn mx r).getD 14 origin,
        (rrPoints mn mx r).getD 13 origin, (rrPoints mn mx r).getD 12 origin⟩ :=
      ⟨_, _, Or.inr (Or.inr (Or.inr ⟨f3, Or.inr ⟨rfl, rfl⟩⟩))⟩
    split_ifs at hq <;>
      simp only [List.cons_append, List.nil_append, List.append_nil, cubicSegsFrom, List.mem_cons,
        List.not_mem_nil, or_false] at hq <;>
      (rcases hq with rfl | rfl | rfl | rfl <;> assumption)
  · simp only [cubicSegs, rrCalls, cornerCubic, if_true] at hq
    have m0 : IsCornerArc mn mx r ⟨(rrPoints mn mx r).getD 0 origin, (rrPoints mn mx r).getD 1 origin,
        (rrPoints mn mx r).getD 2 origin, (rrPoints mn mx r).getD 3 origin⟩ :=
      ⟨_, _, Or.inl ⟨a0, Or.inl ⟨rfl, rfl⟩⟩⟩
    have m1 : IsCornerArc mn mx r ⟨(rrPoints mn mx r).getD 4 origin, (rrPoints mn mx r).getD 5 origin,
        (rrPoints mn mx r).getD 6 origin, (rrPoints mn mx r).getD 7 origin⟩ :=
      ⟨_, _, Or.inr (Or.inl ⟨a1, Or.inl ⟨rfl, rfl⟩⟩)⟩
    have m2 : IsCornerArc mn mx r ⟨(rrPoints mn mx r).getD 8 origin, (rrPoints mn mx r).getD 9 origin,
        (rrPoints mn mx r).getD 10 origin, (rrPoints mn mx r).getD 11 origin⟩ :=
      ⟨_, _, Or.inr (Or.inr (Or.inl ⟨a2, Or.inl ⟨rfl, rfl⟩⟩))⟩
    have m3 : IsCornerArc mn mx r ⟨(rrPoints mn mx r).getD 12 origin, (rrPoints mn mx r).getD 13 origin,
        (rrPoints mn mx r).getD 14 origin, (rrPoints mn mx r).getD 15 origin⟩ :=
      ⟨_, _, Or.inr (Or.inr (Or.inr ⟨a3, Or.inl ⟨rfl, rfl⟩⟩))⟩
    split_ifs at hq <;>
      simp only [List.cons_append, List.nil_append, List.append_nil, cubicSegsFrom, List.mem_cons,
        List.not_mem_nil, or_false] at hq <;>
      (rcases hq with rfl | rfl | rfl | rfl <;> assumption)

/-- a corner arc stays in its corner square and within `2·10⁻⁴·ρ` of its corner circle -/
theorem IsCornerArc.bounds {mn mx : P K} {r : Radii K} {q : Cubic K} (h : IsCornerArc mn mx r q)
    (h0 : 0 ≤ r.tl ∧ 0 ≤ r.tr ∧ 0 ≤ r.bl ∧ 0 ≤ r.br) (t : K) (ht0 : 0 ≤ t) (ht1 : t ≤ 1) :
    ∃ (ctr : P K) (ρ sx sy : K),
      ((ctr = cornerTL mn mx r ∧ ρ = r.tl ∧ sx = -1 ∧ sy = -1) ∨ (ctr = cornerTR mn mx r ∧ ρ = r.tr ∧ sx = 1 ∧ sy = -1) ∨
       (ctr = cornerBR mn mx r ∧ ρ = r.br ∧ sx = 1 ∧ sy = 1) ∨ (ctr = cornerBL mn mx r ∧ ρ = r.bl ∧ sx = -1 ∧ sy = 1)) ∧
      (∃ a b : K, 0 ≤ a ∧ a ≤ ρ ∧ 0 ≤ b ∧ b ≤ ρ ∧ (q.sample t).x = ctr.x + sx * a ∧ (q.sample t).y = ctr.y + sy * b) ∧
      (ρ * (1 - 2 / 10 ^ 4)) ^ 2 ≤ (q.sample t - ctr).sqLen ∧
      (q.sample t - ctr).sqLen ≤ (ρ * (1 + 2 / 10 ^ 4)) ^ 2 := by
  obtain ⟨h1, h2, h3, h4⟩ := h0
  obtain ⟨u, v, hc⟩ := h
  have key : ∀ (ctr : P K) (ρ sx sy : K), 0 ≤ ρ → QuarterArc ctr ρ u v q →
      AxisPair u v ⟨sx, 0⟩ ⟨0, sy⟩ ∨ AxisPair u v ⟨0, sy⟩ ⟨sx, 0⟩ →
      (∃ a b : K, 0 ≤ a ∧ a ≤ ρ ∧ 0 ≤ b ∧ b ≤ ρ ∧ (q.sample t).x = ctr.x + sx * a ∧ (q.sample t).y = ctr.y + sy * b) ∧
      (ρ * (1 - 2 / 10 ^ 4)) ^ 2 ≤ (q.sample t - ctr).sqLen ∧
      (q.sample t - ctr).sqLen ≤ (ρ * (1 + 2 / 10 ^ 4)) ^ 2 := by
    intro ctr ρ sx sy hρ hq hax
    refine ⟨?_, hq.radial t ht0 ht1⟩
    obtain ⟨a, b, a0, a1, b0, b1, hs⟩ := hq.in_corner t ht0 ht1
    have hx := congrArg P.x hs
    have hy := congrArg P.y hs
    simp only [] at hx hy
    have hax2 : (u = ⟨sx, 0⟩ ∧ v = ⟨0, sy⟩) ∨ (u = ⟨0, sy⟩ ∧ v = ⟨sx, 0⟩) := by
      rcases hax with (h | h) | (h | h)
      · exact Or.inl h
      · exact Or.inr h
      · exact Or.inr h
      · exact Or.inl h
    rcases hax2 with ⟨rfl, rfl⟩ | ⟨rfl, rfl⟩
    · exact ⟨ρ * a, ρ * b, mul_nonneg hρ a0, mul_le_of_le_one_right hρ a1, mul_nonneg hρ b0,
        mul_le_of_le_one_right hρ b1, by rw [hx]; ring, by rw [hy]; ring⟩
    · exact ⟨ρ * b, ρ * a, mul_nonneg hρ b0, mul_le_of_le_one_right hρ b1, mul_nonneg hρ a0,
        mul_le_of_le_one_right hρ a1, by rw [hx]; ring, by rw [hy]; ring⟩
  rcases hc with ⟨hq, hax⟩ | ⟨hq, hax⟩ | ⟨hq, hax⟩ | ⟨hq, hax⟩
  · exact ⟨_, _, -1, -1, Or.inl ⟨rfl, rfl, rfl, rfl⟩, key _ _ _ _ h1 hq (Or.inl hax)⟩
  · exact ⟨_, _, 1, -1, Or.inr (Or.inl ⟨rfl, rfl, rfl, rfl⟩), key _ _ _ _ h2 hq (Or.inr hax)⟩
  · exact ⟨_, _, 1, 1, Or.inr (Or.inr (Or.inl ⟨rfl, rfl, rfl, rfl⟩)), key _ _ _ _ h4 hq (Or.inl hax)⟩
  · exact ⟨_, _, -1, 1, Or.inr (Or.inr (Or.inr ⟨rfl, rfl, rfl, rfl⟩)), key _ _ _ _ h3 hq (Or.inr hax)⟩

/-- **The outline `add_rounded_rectangle` hands to the tessellator** (box not inverted, ANY
requested radii; `r` = the clamped radii, `g i` = the 16 points):
1. every corner curve starts and ends ON the box sides, at distance `r.corner` from the corner;
2. along each side the two tangent points are in order and inside the side: the straight segments
   run along the sides and the corner arcs never overlap;
3. the control points lie on the sides too: each curve leaves and reaches the sides tangentially
   (tangent continuity with the straight segments);
4. in either winding, every point of every emitted cubic lies inside the box, in the corner square
   of its corner, and within `2·10⁻⁴·ρ` of the exact corner circle (centre = corner centre, radius
   `ρ` = that corner's clamped radius). -/
theorem rounded_rect_outline (mn mx : P K) (hx : mn.x ≤ mx.x) (hy : mn.y ≤ mx.y) (radii : Radii K) :
    let r := clampRadii (mx.x - mn.x) (mx.y - mn.y) radii
    let g := fun i => (rrPoints mn mx r).getD i origin
    (g 0 = ⟨mn.x, mn.y + r.tl⟩ ∧ g 3 = ⟨mn.x + r.tl, mn.y⟩ ∧ g 4 = ⟨mx.x - r.tr, mn.y⟩ ∧
     g 7 = ⟨mx.x, mn.y + r.tr⟩ ∧ g 8 = ⟨mx.x, mx.y - r.br⟩ ∧ g 11 = ⟨mx.x - r.br, mx.y⟩ ∧
     g 12 = ⟨mn.x + r.bl, mx.y⟩ ∧ g 15 = ⟨mn.x, mx.y - r.bl⟩) ∧
    (mn.x ≤ (g 3).x ∧ (g 3).x ≤ (g 4).x ∧ (g 4).x ≤ mx.x ∧ mn.y ≤ (g 7).y ∧ (g 7).y ≤ (g 8).y ∧ (g 8).y ≤ mx.y ∧
     mn.x ≤ (g 12).x ∧ (g 12).x ≤ (g 11).x ∧ (g 11).x ≤ mx.x ∧ mn.y ≤ (g 0).y ∧ (g 0).y ≤ (g 15).y ∧ (g 15).y ≤ mx.y) ∧
    ((g 1).x = mn.x ∧ (g 2).y = mn.y ∧ (g 5).y = mn.y ∧ (g 6).x = mx.x ∧
     (g 9).x = mx.x ∧ (g 10).y = mx.y ∧ (g 13).y = mx.y ∧ (g 14).x = mn.x) ∧
    (∀ pos, ∀ q ∈ cubicSegs (addRoundedRectangle mn mx radii pos), ∀ t : K, 0 ≤ t → t ≤ 1 →
      (mn.x ≤ (q.sample t).x ∧ (q.sample t).x ≤ mx.x ∧ mn.y ≤ (q.sample t).y ∧ (q.sample t).y ≤ mx.y) ∧
      ∃ (ctr : P K) (ρ : K),
        ((ctr = cornerTL mn mx r ∧ ρ = r.tl) ∨ (ctr = cornerTR mn mx r ∧ ρ = r.tr) ∨
         (ctr = cornerBR mn mx r ∧ ρ = r.br) ∨ (ctr = cornerBL mn mx r ∧ ρ = r.bl)) ∧
        (ρ * (1 - 2 / 10 ^ 4)) ^ 2 ≤ (q.sample t - ctr).sqLen ∧
        (q.sample t - ctr).sqLen ≤ (ρ * (1 + 2 / 10 ^ 4)) ^ 2) := by
  intro r g
  have hw : (0 : K) ≤ mx.x - mn.x := sub_nonneg.2 hx
  have hh : (0 : K) ≤ mx.y - mn.y := sub_nonneg.2 hy
  obtain ⟨⟨p1, p2, p3, p4⟩, _, s1, s2, s3, s4⟩ := C03b.rounded_rect_radii_fit _ _ hw hh radii
  have hg : ∀ i, g i = (rrPoints mn mx r).getD i origin := fun _ => rfl
  have ev : ∀ i (hi : i < 16), g i = (rrPoints mn mx r).toList.getD i origin := by
    intro i hi; simp [hg]
  have pts : (g 0 = ⟨mn.x, mn.y + r.tl⟩ ∧ g 3 = ⟨mn.x + r.tl, mn.y⟩ ∧ g 4 = ⟨mx.x - r.tr, mn.y⟩ ∧
      g 7 = ⟨mx.x, mn.y + r.tr⟩ ∧ g 8 = ⟨mx.x, mx.y - r.br⟩ ∧ g 11 = ⟨mx.x - r.br, mx.y⟩ ∧
      g 12 = ⟨mn.x + r.bl, mx.y⟩ ∧ g 15 = ⟨mn.x, mx.y - r.bl⟩) := by
    refine ⟨?_, ?_, ?_, ?_, ?_, ?_, ?_, ?_⟩ <;>
      (simp only [hg, rrPoints, Array.getD_eq_getD_getElem?, List.size_toArray, List.length_cons, List.length_nil,
        zero_add, Nat.reduceAdd, Nat.reduceLT, getElem?_pos, List.getElem_toArray, List.getElem_cons_succ,
        List.getElem_cons_zero, Option.getD_some, Nat.ofNat_pos]
       try (apply P.ext' <;> simp only [off, geom] <;> push_cast <;> ring))
  obtain ⟨e0, e3, e4, e7, e8, e11, e12, e15⟩ := pts
  refine ⟨⟨e0, e3, e4, e7, e8, e11, e12, e15⟩, ?_, ?_, ?_⟩
  · rw [e0, e3, e4, e7, e8, e11, e12, e15]
    simp only []
    change 0 ≤ r.tl at p1; change 0 ≤ r.tr at p2; change 0 ≤ r.bl at p3; change 0 ≤ r.br at p4
    change r.tl + r.tr ≤ mx.x - mn.x at s1; change r.bl + r.br ≤ mx.x - mn.x at s2
    change r.tr + r.br ≤ mx.y - mn.y at s3; change r.tl + r.bl ≤ mx.y - mn.y at s4
    refine ⟨?_, ?_, ?_, ?_, ?_, ?_, ?_, ?_, ?_, ?_, ?_, ?_⟩ <;> linarith
  · refine ⟨?_, ?_, ?_, ?_, ?_, ?_, ?_, ?_⟩ <;>
      (simp only [hg, rrPoints, Array.getD_eq_getD_getElem?, List.size_toArray, List.length_cons, List.length_nil,
        zero_add, Nat.reduceAdd, Nat.reduceLT, getElem?_pos, List.getElem_toArray, List.getElem_cons_succ,
        List.getElem_cons_zero, Option.getD_some, Nat.ofNat_pos]
       simp only [off, geom]
       try push_cast
       try ring)
  · intro pos q hq t ht0 ht1
    have hc := rounded_rect_cubics mn mx radii pos q hq
    obtain ⟨ctr, ρ, sx, sy, hcase, ⟨a, b, a0, a1, b0, b1, hxs, hys⟩, lo, hi⟩ :=
      hc.bounds ⟨p1, p2, p3, p4⟩ t ht0 ht1
    change 0 ≤ r.tl at p1; change 0 ≤ r.tr at p2; change 0 ≤ r.bl at p3; change 0 ≤ r.br at p4
    change r.tl + r.tr ≤ mx.x - mn.x at s1; change r.bl + r.br ≤ mx.x - mn.x at s2
    change r.tr + r.br ≤ mx.y - mn.y at s3; change r.tl + r.bl ≤ mx.y - mn.y at s4
    constructor
    · rw [hxs, hys]
      rcases hcase with ⟨rfl, rfl, rfl, rfl⟩ | ⟨rfl, rfl, rfl, rfl⟩ | ⟨rfl, rfl, rfl, rfl⟩ | ⟨rfl, rfl, rfl, rfl⟩ <;>
        simp only [cornerTL, cornerTR, cornerBR, cornerBL] <;>
        refine ⟨?_, ?_, ?_, ?_⟩ <;> linarith
    · refine ⟨ctr, ρ, ?_, lo, hi⟩
      rcases hcase with ⟨h1, h2, _⟩ | ⟨h1, h2, _⟩ | ⟨h1, h2, _⟩ | ⟨h1, h2, _⟩
      · exact Or.inl ⟨h1, h2⟩
      · exact Or.inr (Or.inl ⟨h1, h2⟩)
      · exact Or.inr (Or.inr (Or.inl ⟨h1, h2⟩))
      · exact Or.inr (Or.inr (Or.inr ⟨h1, h2⟩))

/-! ### non-vacuity -/

/-- a 10 × 6 box with requested radii (4, 9, 1, 0): clamped to radii that fit; the hypotheses of
`rounded_rect_outline` hold and the clamped radii are not all zero (curves ARE emitted) -/
example : (⟨0, 0⟩ : P ℚ).x ≤ (⟨10, 6⟩ : P ℚ).x ∧ (⟨0, 0⟩ : P ℚ).y ≤ (⟨10, 6⟩ : P ℚ).y ∧
    clampRadii (10 : ℚ) 6 ⟨4, 9, 1, 0⟩ = ⟨4, 6, 1, 0⟩ := by
  refine ⟨by norm_num, by norm_num, ?_⟩
  simp [clampRadii, clampLeft, clampRight, clampBottom, clampTop, radiiInit, excess, geom]
  norm_num

/-- the polynomial bound at a concrete parameter -/
example : (1 - 2 / 10 ^ 4 : ℚ) ^ 2 ≤ bern kC (1 / 2) ^ 2 + bern kC (1 - 1 / 2) ^ 2 := by
  simp only [bern, kC]; norm_num

end Lyon.C03d
