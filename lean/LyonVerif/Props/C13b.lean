/-
  C13b — the Bézier sequences of an arc stay within a small fixed fraction of the radius of the
  true ellipse: theorems (the last clause of the property; an oracle-only gap until now for the
  cubics, and for the quadratics a theorem about `quadAt` only).

  §1  (any ordered field, laws of sin/cos/tan/sqrt as hypotheses) one CUBIC piece of a circular arc,
      exactly: `|B(t) − centre|² − r² = −r²·β²·(4t(1−t))³`, `β = sin(δ/2)/2 − 3·α·cos(δ/2)/4`
      (`cubic_arc_deviation_circle_eq`) — lyon's `α` (Maisonobe) is the root of
      `3α² + 4·s·c·α = 4s²`, which makes the cubic osculate the circle at both ends; hence for
      `t ∈ [0,1]`: `r²(1 − β²) ≤ |B(t) − centre|² ≤ r²` (`cubic_arc_deviation_circle`): the piece never
      leaves the disc and is farthest from the circle at `t = 1/2`.  Elliptic arcs are affine images
      (`cubic_piece_affine_image`).
  §2  over ℝ with Mathlib's functions, no hypothesis on trigonometry: for every step `|δ| ≤ π/2`
      `0.998·r ≤ |B(t) − centre| ≤ r` (`cubic_arc_deviation_circle_real`; the bound is sharp to
      2 %: `cubic_quarter_turn_mid_witness`, the mid point of a quarter-turn piece is at
      `√(1 − (8 − 3√7)/16)·r ≈ 0.998037·r`), and for ellipses every point of a piece is within
      `0.002·max(rx, ry)` of a point of the ellipse (`cubic_arc_deviation_ellipse_real`).
      The quadratic counterpart of the witness: `quad_eighth_turn_mid_witness` (mid point of a 45°
      piece at `√(1 + (10 − 7√2)/16)·r ≈ 1.003136·r`, against the proved `1.0032·r`).
  §3  the sequences that `arc_to_quadratic_beziers_with_t` / `arc_to_cubic_beziers` actually emit for
      a real arc — ANY sweep (also beyond a turn), radii, centre, rotation: every emitted quadratic
      stays within `0.0032·max(rx, ry)` and every emitted cubic within `0.002·max(rx, ry)` of the
      ellipse, for all `t ∈ [0,1]` (`arc_quads_near_ellipse_real`, `arc_cubics_near_ellipse_real`);
      for circles `r ≤ |Q(t) − c| ≤ 1.0032·r` and `0.998·r ≤ |B(t) − c| ≤ r`
      (`arc_beziers_near_circle_real`); in the unit-circle frame of the ellipse — the oracle's
      measure — the radius stays in `[1, 1.0032]` resp. `[0.998, 1]` (`arc_beziers_unit_frame_real`).
      lyon's steps are at most 45° / 90° because
      `n = ⌈|sweep| / (π/4)⌉` resp. `⌈|sweep| / (π/2)⌉` (`step_bounds_real`).

  Distances to the ellipse are stated with the witness point `ellMap arc u`, `u` on the unit circle
  (the radial projection in the unit-circle frame); rounding is outside (oracle allowance).
-/
import LyonVerif.Lemmas.SvgArcRealDev

set_option linter.unusedSectionVars false
set_option linter.unusedVariables false
set_option linter.unusedSimpArgs false

namespace Lyon.C13
open Lyon Scalar ArcConv

/-! ## §1 one cubic piece of a circular arc, over any ordered field -/

section field
variable {K : Type} [Field K] [LinearOrder K] [IsStrictOrderedRing K] [Transc K] [ArcConv.Eps K]

/-- **deviation of one cubic piece of a circular arc, exactly.**  For a circle (`radii = (r, r)`, any
centre, any x-rotation), any start angle `a1`, any step `δ` with half-angle data `c = cos(δ/2)`,
`sn = sin(δ/2)` and any parameter `t`:
`|B(t) − centre|² − r² = −r²·β²·(4t(1−t))³` with `β = sn/2 − 3·α·c/4`, `α = cubicAlpha δ`. -/
theorem cubic_arc_deviation_circle_eq (arc : Arc K) (r a1 d t c sn : K) (hr : arc.radii = ⟨r, r⟩)
    (hx : Transc.cos arc.xrot * Transc.cos arc.xrot + Transc.sin arc.xrot * Transc.sin arc.xrot = 1)
    (h1 : Transc.cos a1 * Transc.cos a1 + Transc.sin a1 * Transc.sin a1 = 1)
    (hc : Transc.cos (a1 + d) = Transc.cos a1 * Transc.cos d - Transc.sin a1 * Transc.sin d)
    (hs : Transc.sin (a1 + d) = Transc.sin a1 * Transc.cos d + Transc.cos a1 * Transc.sin d)
    (hu : c * c + sn * sn = 1)
    (hcos : Transc.cos d = 1 - 2 * (sn * sn)) (hsin : Transc.sin d = 2 * (sn * c))
    (hal : 3 * (cubicAlpha d * cubicAlpha d) + 4 * (sn * c) * cubicAlpha d = 4 * (sn * sn)) :
    sqDist ((cubicAt arc a1 d).sample t) arc.center - r * r
      = -(r * r) * ((sn / 2 - 3 * cubicAlpha d * c / 4) * (sn / 2 - 3 * cubicAlpha d * c / 4))
          * (4 * t * (1 - t)) ^ 3 := by
  have key := cubic_unit_dev c sn (cubicAlpha d) t hu hal
  simp only [cubicAt]
  generalize cubicAlpha d = al at hal key ⊢
  unfold cubX cubY at key
  simp only [sqDist, Cubic.sample, pointAt, tangentAtAngle, Arc.sampleEllipse, Arc.rotate, geom, hc, hs,
    hr, hcos, hsin, Nat.cast_ofNat, Nat.cast_one]
  generalize Transc.cos a1 = c1 at h1 ⊢
  generalize Transc.sin a1 = s1 at h1 ⊢
  generalize Transc.cos arc.xrot = cx at hx ⊢
  generalize Transc.sin arc.xrot = sx at hx ⊢
  linear_combination
    (r * r * (((1 - t) ^ 3 + 3 * (1 - t) ^ 2 * t + 3 * (1 - t) * t ^ 2 * ((1 - 2 * (sn * sn)) + al * (2 * (sn * c)))
        + t ^ 3 * (1 - 2 * (sn * sn))) ^ 2
      + (3 * (1 - t) ^ 2 * t * al + 3 * (1 - t) * t ^ 2 * (2 * (sn * c) - al * (1 - 2 * (sn * sn)))
        + t ^ 3 * (2 * (sn * c))) ^ 2) * (cx * cx + sx * sx)) * h1
    + (r * r * (((1 - t) ^ 3 + 3 * (1 - t) ^ 2 * t + 3 * (1 - t) * t ^ 2 * ((1 - 2 * (sn * sn)) + al * (2 * (sn * c)))
        + t ^ 3 * (1 - 2 * (sn * sn))) ^ 2
      + (3 * (1 - t) ^ 2 * t * al + 3 * (1 - t) * t ^ 2 * (2 * (sn * c) - al * (1 - 2 * (sn * sn)))
        + t ^ 3 * (2 * (sn * c))) ^ 2)) * hx
    + (r * r) * key

/-- **`cubic_arc_deviation_circle`**: for `t ∈ [0,1]` the squared distance of the cubic piece from the
centre lies between `r²·(1 − β²)` and `r²`, `β = sn/2 − 3·α·c/4`; equality on the right at both
ends, on the left at `t = 1/2`. -/
theorem cubic_arc_deviation_circle (arc : Arc K) (r a1 d t c sn : K) (hr : arc.radii = ⟨r, r⟩)
    (hx : Transc.cos arc.xrot * Transc.cos arc.xrot + Transc.sin arc.xrot * Transc.sin arc.xrot = 1)
    (h1 : Transc.cos a1 * Transc.cos a1 + Transc.sin a1 * Transc.sin a1 = 1)
    (hc : Transc.cos (a1 + d) = Transc.cos a1 * Transc.cos d - Transc.sin a1 * Transc.sin d)
    (hs : Transc.sin (a1 + d) = Transc.sin a1 * Transc.cos d + Transc.cos a1 * Transc.sin d)
    (hu : c * c + sn * sn = 1)
    (hcos : Transc.cos d = 1 - 2 * (sn * sn)) (hsin : Transc.sin d = 2 * (sn * c))
    (hal : 3 * (cubicAlpha d * cubicAlpha d) + 4 * (sn * c) * cubicAlpha d = 4 * (sn * sn))
    (ht0 : 0 ≤ t) (ht1 : t ≤ 1) :
    r * r * (1 - (sn / 2 - 3 * cubicAlpha d * c / 4) * (sn / 2 - 3 * cubicAlpha d * c / 4))
        ≤ sqDist ((cubicAt arc a1 d).sample t) arc.center
    ∧ sqDist ((cubicAt arc a1 d).sample t) arc.center ≤ r * r
    ∧ sqDist ((cubicAt arc a1 d).sample 0) arc.center = r * r
    ∧ sqDist ((cubicAt arc a1 d).sample 1) arc.center = r * r
    ∧ sqDist ((cubicAt arc a1 d).sample (1 / 2)) arc.center
        = r * r * (1 - (sn / 2 - 3 * cubicAlpha d * c / 4) * (sn / 2 - 3 * cubicAlpha d * c / 4)) := by
  have e := fun t => cubic_arc_deviation_circle_eq arc r a1 d t c sn hr hx h1 hc hs hu hcos hsin hal
  set B := (sn / 2 - 3 * cubicAlpha d * c / 4) * (sn / 2 - 3 * cubicAlpha d * c / 4) with hB
  have hB0 : 0 ≤ B := mul_self_nonneg _
  have hr2 : 0 ≤ r * r := mul_self_nonneg r
  have hw0 : 0 ≤ 4 * t * (1 - t) := by nlinarith
  have hw1 : 4 * t * (1 - t) ≤ 1 := by nlinarith [mul_self_nonneg (2 * t - 1)]
  have hw3 : 0 ≤ (4 * t * (1 - t)) ^ 3 ∧ (4 * t * (1 - t)) ^ 3 ≤ 1 :=
    ⟨pow_nonneg hw0 3, pow_le_one₀ hw0 hw1⟩
  have hrb : 0 ≤ r * r * B := mul_nonneg hr2 hB0
  refine ⟨?_, ?_, ?_, ?_, ?_⟩
  · have := e t
    nlinarith [mul_le_mul_of_nonneg_left hw3.2 hrb]
  · have := e t
    nlinarith [mul_nonneg hrb hw3.1]
  · have := e 0
    linear_combination this
  · have := e 1
    linear_combination this
  · have := e (1 / 2)
    linear_combination this

end field

/-! ## §2 over ℝ -/

section real
open Real

/-- **`cubic_arc_deviation_circle_real`**: a cubic piece of a circular arc of radius `r ≥ 0` with a
step of at most 90° (lyon's `n_steps = ⌈|sweep|/(π/2)⌉` guarantees this) stays inside the disc and
within `0.2 %` of the radius of the circle, for every start angle, x-rotation and `t ∈ [0,1]`:
`0.998·r ≤ |B(t) − centre| ≤ r`. -/
theorem cubic_arc_deviation_circle_real (arc : Arc ℝ) (r a1 d t : ℝ) (hr : arc.radii = ⟨r, r⟩)
    (hr0 : 0 ≤ r) (hd : |d| ≤ Real.pi / 2) (ht0 : 0 ≤ t) (ht1 : t ≤ 1) :
    r * (998 / 1000) ≤ Real.sqrt (sqDist ((cubicAt arc a1 d).sample t) arc.center)
    ∧ Real.sqrt (sqDist ((cubicAt arc a1 d).sample t) arc.center) ≤ r := by
  obtain ⟨hu, hcos, hsin, hal, hβ⟩ := cubic_half_angle_real d hd
  obtain ⟨lo, hi, _⟩ := cubic_arc_deviation_circle arc r a1 d t (Real.cos (d / 2)) (Real.sin (d / 2)) hr
    (exactTrig_real.cos_sq_add_sin_sq _) (exactTrig_real.cos_sq_add_sin_sq _)
    (Real.cos_add a1 d) (Real.sin_add a1 d) hu hcos hsin hal ht0 ht1
  have hr2 : 0 ≤ r * r := mul_self_nonneg r
  constructor
  · calc r * (998 / 1000) = Real.sqrt ((r * (998 / 1000)) * (r * (998 / 1000))) :=
          (Real.sqrt_mul_self (by positivity)).symm
      _ ≤ Real.sqrt (sqDist ((cubicAt arc a1 d).sample t) arc.center) := by
          apply Real.sqrt_le_sqrt
          nlinarith [mul_le_mul_of_nonneg_left hβ hr2]
  · rw [Real.sqrt_le_left hr0]
    nlinarith

/-- **the affine-image corollary for ellipses**: every point of a cubic piece (step ≤ 90°) of an
elliptic arc — any radii, centre, x-rotation, start angle — is within `0.2 %` of the LARGER radius
of a point of the ellipse (`ellMap arc u` with `u` on the unit circle; squared form). -/
theorem cubic_arc_deviation_ellipse_real (arc : Arc ℝ) (a1 d t : ℝ)
    (hd : |d| ≤ Real.pi / 2) (ht0 : 0 ≤ t) (ht1 : t ≤ 1) :
    ∃ u : P ℝ, u.x * u.x + u.y * u.y = 1
      ∧ sqDist ((cubicAt arc a1 d).sample t) (ellMap arc u)
          ≤ (Max.max |arc.radii.x| |arc.radii.y| * (2 / 1000)) * (Max.max |arc.radii.x| |arc.radii.y| * (2 / 1000)) := by
  have h0c : Transc.cos (0 : ℝ) = 1 := Real.cos_zero
  have h0s : Transc.sin (0 : ℝ) = 0 := Real.sin_zero
  set Q := (cubicAt (unitArc arc) a1 d).sample t with hQ
  obtain ⟨lo, hi⟩ := cubic_arc_deviation_circle_real (unitArc arc) 1 a1 d t rfl zero_le_one hd ht0 ht1
  rw [← hQ] at lo hi
  have hsq : sqDist Q (unitArc arc).center = Q.x * Q.x + Q.y * Q.y := by
    simp [sqDist, unitArc]
  rw [hsq] at lo hi
  set ρ := Real.sqrt (Q.x * Q.x + Q.y * Q.y) with hρ
  have hρ2 : ρ * ρ = Q.x * Q.x + Q.y * Q.y :=
    Real.mul_self_sqrt (add_nonneg (mul_self_nonneg _) (mul_self_nonneg _))
  have hρ0 : ρ ≠ 0 := by linarith
  refine ⟨⟨Q.x / ρ, Q.y / ρ⟩, ?_, ?_⟩
  · show Q.x / ρ * (Q.x / ρ) + Q.y / ρ * (Q.y / ρ) = 1
    field_simp; linarith
  · rw [cubic_piece_affine_image arc a1 d t h0c h0s, ← hQ]
    have hm := ellMap_sqDist_le arc Q ⟨Q.x / ρ, Q.y / ρ⟩ (Max.max |arc.radii.x| |arc.radii.y|)
      (exactTrig_real.cos_sq_add_sin_sq _) (le_max_left _ _) (le_max_right _ _)
    have hdist : sqDist Q ⟨Q.x / ρ, Q.y / ρ⟩ = (ρ - 1) * (ρ - 1) := by
      simp only [sqDist]
      field_simp
      nlinarith [hρ2]
    rw [hdist] at hm
    have hm0 : 0 ≤ Max.max |arc.radii.x| |arc.radii.y| := le_trans (abs_nonneg _) (le_max_left _ _)
    have h2 : (ρ - 1) * (ρ - 1) ≤ (2 / 1000) * (2 / 1000) := by nlinarith
    nlinarith [mul_le_mul_of_nonneg_left h2 (mul_self_nonneg (Max.max |arc.radii.x| |arc.radii.y|))]

/-- **sharpness witness**: the mid point of a quarter-turn cubic piece of a circle is at squared
distance exactly `r²·(1 − (8 − 3√7)/16)` from the centre, i.e. at `≈ 0.998037·r`: the bound `0.998·r`
of `cubic_arc_deviation_circle_real` is attained up to 2 %, and lyon's cubics miss the circle by
`1.96·10⁻³·r` — seven times the `2.7·10⁻⁴·r` of the best cubic approximation of a quarter circle
(Maisonobe's `α` matches the curvature at the ends instead of minimising the radial error). -/
theorem cubic_quarter_turn_mid_witness (arc : Arc ℝ) (r a1 : ℝ) (hr : arc.radii = ⟨r, r⟩) :
    sqDist ((cubicAt arc a1 (Real.pi / 2)).sample (1 / 2)) arc.center
      = r * r * (1 - (8 - 3 * Real.sqrt 7) / 16)
    ∧ sqDist ((cubicAt arc a1 (Real.pi / 2)).sample (1 / 2)) arc.center ≤ r * r * (1 - 39 / 10000) := by
  have hpi := Real.pi_pos
  have hd : |Real.pi / 2| ≤ Real.pi / 2 := by rw [abs_of_pos (by positivity)]
  obtain ⟨hu, hcos, hsin, hal, _⟩ := cubic_half_angle_real (Real.pi / 2) hd
  obtain ⟨_, _, _, _, hmid⟩ := cubic_arc_deviation_circle arc r a1 (Real.pi / 2) (1 / 2)
    (Real.cos (Real.pi / 2 / 2)) (Real.sin (Real.pi / 2 / 2)) hr
    (exactTrig_real.cos_sq_add_sin_sq _) (exactTrig_real.cos_sq_add_sin_sq _)
    (Real.cos_add a1 _) (Real.sin_add a1 _) hu hcos hsin hal (by norm_num) (by norm_num)
  have h4 : Real.pi / 2 / 2 = Real.pi / 4 := by ring
  have hα : cubicAlpha (Real.pi / 2) = (Real.sqrt 7 - 1) / 3 := by
    have hh : (Scalar.half : ℝ) = 1 / 2 := sc_half
    simp only [cubicAlpha, geom, Nat.cast_ofNat, Nat.cast_one, transc_sin_real, transc_tan_real,
      transc_sqrt_real, hh, Real.sin_pi_div_two]
    rw [show Real.pi / 2 * ((5 : ℝ) / 10 ^ 1) = Real.pi / 4 by ring, Real.tan_pi_div_four,
      show (4 : ℝ) + 3 * 1 * 1 = 7 by norm_num]
    ring
  rw [h4, Real.cos_pi_div_four, Real.sin_pi_div_four, hα] at hmid
  have h2 : Real.sqrt 2 * Real.sqrt 2 = 2 := Real.mul_self_sqrt (by norm_num)
  have h7 : Real.sqrt 7 * Real.sqrt 7 = 7 := Real.mul_self_sqrt (by norm_num)
  have e : (Real.sqrt 2 / 2 / 2 - 3 * ((Real.sqrt 7 - 1) / 3) * (Real.sqrt 2 / 2) / 4)
      * (Real.sqrt 2 / 2 / 2 - 3 * ((Real.sqrt 7 - 1) / 3) * (Real.sqrt 2 / 2) / 4)
      = (8 - 3 * Real.sqrt 7) / 16 := by
    linear_combination ((3 - Real.sqrt 7) * (3 - Real.sqrt 7) / 64) * h2 + (1 / 32) * h7
  rw [e] at hmid
  refine ⟨hmid, ?_⟩
  rw [hmid]
  have h7u : Real.sqrt 7 ≤ 26458 / 10000 := by
    rw [Real.sqrt_le_left (by norm_num)]; norm_num
  have hr2 : 0 ≤ r * r := mul_self_nonneg r
  nlinarith [mul_le_mul_of_nonneg_left h7u hr2]

/-- **sharpness witness for the quadratics**: the mid point of a 45° quadratic piece of a circle is at
squared distance exactly `r²·(1 + (10 − 7√2)/16)` from the centre, i.e. at `≈ 1.003136·r`, OUTSIDE the
circle: the bound `1.0032·r` of `quad_arc_deviation_circle_real` is attained up to 2 %. -/
theorem quad_eighth_turn_mid_witness (arc : Arc ℝ) (r a1 : ℝ) (hr : arc.radii = ⟨r, r⟩) :
    sqDist ((quadAt arc a1 (Real.pi / 4)).sample (1 / 2)) arc.center
      = r * r * (1 + (10 - 7 * Real.sqrt 2) / 16)
    ∧ r * r * (1 + 62 / 10000) ≤ sqDist ((quadAt arc a1 (Real.pi / 4)).sample (1 / 2)) arc.center := by
  have hpi := Real.pi_pos
  have hd : |Real.pi / 4| ≤ Real.pi / 4 := by rw [abs_of_pos (by positivity)]
  obtain ⟨hu, hcos, hsin, htan, hcp, _⟩ := half_angle_real (Real.pi / 4) hd
  have e := quad_arc_deviation_circle_eq arc r a1 (Real.pi / 4) (1 / 2)
    (Real.cos (Real.pi / 4 / 2)) (Real.sin (Real.pi / 4 / 2)) hr
    (exactTrig_real.cos_sq_add_sin_sq _) (exactTrig_real.cos_sq_add_sin_sq _)
    (Real.cos_add a1 _) (Real.sin_add a1 _) hu hcos hsin htan
  rw [Real.cos_pi_div_four] at hcos
  have h2 : Real.sqrt 2 * Real.sqrt 2 = 2 := Real.mul_self_sqrt (by norm_num)
  rw [transc_tan_real] at e
  generalize Real.tan (Real.pi / 4 * Scalar.half) = τ at htan e
  generalize Real.cos (Real.pi / 4 / 2) = c at hu hcos hsin htan hcp e
  generalize Real.sin (Real.pi / 4 / 2) = sn at hu hcos hsin htan e
  have hX : sn * sn = (2 - Real.sqrt 2) / 4 := by linarith
  have hY : c * c = (2 + Real.sqrt 2) / 4 := by linarith
  have hY0 : c * c ≠ 0 := by positivity
  have hv : (sn * τ) * (sn * τ) * (c * c) = (10 - 7 * Real.sqrt 2) / 4 * (c * c) := by
    have : (sn * τ) * (sn * τ) * (c * c) = (sn * sn) * ((τ * c) * (τ * c)) := by ring
    rw [this, htan, hX, hY]
    linear_combination (1 / 2) * h2
  have hv2 : (sn * τ) * (sn * τ) = (10 - 7 * Real.sqrt 2) / 4 := mul_right_cancel₀ hY0 hv
  have hmid : sqDist ((quadAt arc a1 (Real.pi / 4)).sample (1 / 2)) arc.center
      = r * r * (1 + (10 - 7 * Real.sqrt 2) / 16) := by
    linear_combination e + (r * r / 4) * hv2
  refine ⟨hmid, ?_⟩
  rw [hmid]
  have h2u : Real.sqrt 2 ≤ 141422 / 100000 := by
    rw [Real.sqrt_le_left (by norm_num)]; norm_num
  have hr2 : 0 ≤ r * r := mul_self_nonneg r
  nlinarith [mul_le_mul_of_nonneg_left h2u hr2]

/-! ## §3 the emitted sequences -/

/-- **`arc_quads_near_ellipse_real`**: for EVERY real arc (any sweep, also beyond a full turn; any
radii, centre, x-rotation) every point of every quadratic emitted by
`arc_to_quadratic_beziers_with_t` is within `0.32 %` of the larger radius of a point of the ellipse. -/
theorem arc_quads_near_ellipse_real (arc : Arc ℝ) (x : Quad ℝ × ℝ × ℝ) (hx : x ∈ quadsWithT arc)
    (t : ℝ) (ht0 : 0 ≤ t) (ht1 : t ≤ 1) :
    ∃ u : P ℝ, u.x * u.x + u.y * u.y = 1
      ∧ sqDist (x.1.sample t) (ellMap arc u)
          ≤ (Max.max |arc.radii.x| |arc.radii.y| * (32 / 10000)) * (Max.max |arc.radii.x| |arc.radii.y| * (32 / 10000)) := by
  obtain ⟨hq, _, b, _⟩ := emitted_pieces_real arc
  obtain ⟨a1, e⟩ := hq x hx
  rw [e]
  exact quad_arc_deviation_ellipse_real arc a1 (stepQ arc) t b ht0 ht1

/-- **`arc_cubics_near_ellipse_real`**: for EVERY real arc every point of every cubic emitted by
`arc_to_cubic_beziers` is within `0.2 %` of the larger radius of a point of the ellipse. -/
theorem arc_cubics_near_ellipse_real (arc : Arc ℝ) (x : Cubic ℝ) (hx : x ∈ cubics arc)
    (t : ℝ) (ht0 : 0 ≤ t) (ht1 : t ≤ 1) :
    ∃ u : P ℝ, u.x * u.x + u.y * u.y = 1
      ∧ sqDist (x.sample t) (ellMap arc u)
          ≤ (Max.max |arc.radii.x| |arc.radii.y| * (2 / 1000)) * (Max.max |arc.radii.x| |arc.radii.y| * (2 / 1000)) := by
  obtain ⟨_, hc, _, b⟩ := emitted_pieces_real arc
  obtain ⟨a1, e⟩ := hc x hx
  rw [e]
  exact cubic_arc_deviation_ellipse_real arc a1 (stepC arc) t b ht0 ht1

/-- **`arc_beziers_near_circle_real`**: for every real CIRCULAR arc of radius `r ≥ 0` the emitted
quadratics run outside the circle, within `0.32 %` of `r`, and the emitted cubics inside it, within
`0.2 %` of `r`: `r ≤ |Q(t) − c| ≤ 1.0032·r`, `0.998·r ≤ |B(t) − c| ≤ r` for all `t ∈ [0,1]`. -/
theorem arc_beziers_near_circle_real (arc : Arc ℝ) (r : ℝ) (hr : arc.radii = ⟨r, r⟩) (hr0 : 0 ≤ r)
    (t : ℝ) (ht0 : 0 ≤ t) (ht1 : t ≤ 1) :
    (∀ x ∈ quadsWithT arc, r ≤ Real.sqrt (sqDist (x.1.sample t) arc.center)
        ∧ Real.sqrt (sqDist (x.1.sample t) arc.center) ≤ r * (10032 / 10000))
    ∧ (∀ x ∈ cubics arc, r * (998 / 1000) ≤ Real.sqrt (sqDist (x.sample t) arc.center)
        ∧ Real.sqrt (sqDist (x.sample t) arc.center) ≤ r) := by
  obtain ⟨hq, hc, b1, b2⟩ := emitted_pieces_real arc
  constructor
  · intro x hx
    obtain ⟨a1, e⟩ := hq x hx
    rw [e]
    exact quad_arc_deviation_circle_real arc r a1 (stepQ arc) t hr hr0 b1 ht0 ht1
  · intro x hx
    obtain ⟨a1, e⟩ := hc x hx
    rw [e]
    exact cubic_arc_deviation_circle_real arc r a1 (stepC arc) t hr hr0 b2 ht0 ht1

/-- **`arc_beziers_unit_frame_real`** — the quantity the oracle measures (`|radius − 1|` in the frame
in which the ellipse is the unit circle): every point of every emitted piece of EVERY real arc is
the `ellMap` image of a point `Q` whose distance from the origin is in `[1, 1.0032]` (quadratics)
resp. `[0.998, 1]` (cubics). -/
theorem arc_beziers_unit_frame_real (arc : Arc ℝ) (t : ℝ) (ht0 : 0 ≤ t) (ht1 : t ≤ 1) :
    (∀ x ∈ quadsWithT arc, ∃ Q : P ℝ, x.1.sample t = ellMap arc Q
        ∧ 1 ≤ Q.x * Q.x + Q.y * Q.y ∧ Q.x * Q.x + Q.y * Q.y ≤ (10032 / 10000) ^ 2)
    ∧ (∀ x ∈ cubics arc, ∃ Q : P ℝ, x.sample t = ellMap arc Q
        ∧ (998 / 1000) ^ 2 ≤ Q.x * Q.x + Q.y * Q.y ∧ Q.x * Q.x + Q.y * Q.y ≤ 1) := by
  have h0c : Transc.cos (0 : ℝ) = 1 := Real.cos_zero
  have h0s : Transc.sin (0 : ℝ) = 0 := Real.sin_zero
  obtain ⟨hq, hc, b1, b2⟩ := emitted_pieces_real arc
  constructor
  · intro x hx
    obtain ⟨a1, e⟩ := hq x hx
    refine ⟨(quadAt (unitArc arc) a1 (stepQ arc)).sample t, ?_, ?_⟩
    · rw [e]; exact quad_piece_affine_image arc a1 _ t h0c h0s
    · obtain ⟨lo, hi⟩ := quad_arc_deviation_circle_real (unitArc arc) 1 a1 (stepQ arc) t rfl zero_le_one b1 ht0 ht1
      have hsq : sqDist ((quadAt (unitArc arc) a1 (stepQ arc)).sample t) (unitArc arc).center
          = ((quadAt (unitArc arc) a1 (stepQ arc)).sample t).x * ((quadAt (unitArc arc) a1 (stepQ arc)).sample t).x
            + ((quadAt (unitArc arc) a1 (stepQ arc)).sample t).y * ((quadAt (unitArc arc) a1 (stepQ arc)).sample t).y := by
        simp [sqDist, unitArc]
      rw [hsq] at lo hi
      rw [Real.one_le_sqrt] at lo
      rw [Real.sqrt_le_left (by norm_num)] at hi
      exact ⟨lo, by linarith⟩
  · intro x hx
    obtain ⟨a1, e⟩ := hc x hx
    refine ⟨(cubicAt (unitArc arc) a1 (stepC arc)).sample t, ?_, ?_⟩
    · rw [e]; exact cubic_piece_affine_image arc a1 _ t h0c h0s
    · obtain ⟨lo, hi⟩ := cubic_arc_deviation_circle_real (unitArc arc) 1 a1 (stepC arc) t rfl zero_le_one b2 ht0 ht1
      have hsq : sqDist ((cubicAt (unitArc arc) a1 (stepC arc)).sample t) (unitArc arc).center
          = ((cubicAt (unitArc arc) a1 (stepC arc)).sample t).x * ((cubicAt (unitArc arc) a1 (stepC arc)).sample t).x
            + ((cubicAt (unitArc arc) a1 (stepC arc)).sample t).y * ((cubicAt (unitArc arc) a1 (stepC arc)).sample t).y := by
        simp [sqDist, unitArc]
      rw [hsq] at lo hi
      rw [Real.le_sqrt' (by norm_num)] at lo
      rw [Real.sqrt_le_left (by norm_num)] at hi
      exact ⟨by linarith, by linarith⟩

/-! ## non-vacuity -/

/-- a rotated elliptic arc of 1.5 turns has emitted pieces (8 quadratics, 4 cubics) -/
example : ∃ arc : Arc ℝ, (quadsWithT arc).length = 8 ∧ (cubics arc).length = 4 := by
  refine ⟨⟨⟨1, 2⟩, ⟨3, 1⟩, 1, 3 * Real.pi, 1 / 3⟩, ?_⟩
  have hpi := Real.pi_pos
  obtain ⟨_, _, _, nq, nc⟩ := nSteps_full_turn_real (⟨⟨1, 2⟩, ⟨3, 1⟩, 1, 3 * Real.pi, 1 / 3⟩ : Arc ℝ)
    (by show Real.pi * 2 ≤ |3 * Real.pi|; rw [abs_of_pos (by positivity)]; linarith)
  exact ⟨by rw [quads_closed_form, List.length_map, List.length_range']; exact nq,
    by rw [cubics_closed_form, List.length_map, List.length_range']; exact nc⟩

/-- the hypotheses of the ℝ theorems: a circle of radius 2, a quarter-turn step, `t = 1/3` -/
example : (⟨⟨0, 0⟩, ⟨2, 2⟩, 0, 1, 0⟩ : Arc ℝ).radii = ⟨2, 2⟩ ∧ (0 : ℝ) ≤ 2
    ∧ |Real.pi / 2| ≤ Real.pi / 2 ∧ (0 : ℝ) ≤ 1 / 3 ∧ (1 / 3 : ℝ) ≤ 1 := by
  refine ⟨rfl, by norm_num, ?_, by norm_num, by norm_num⟩
  rw [abs_of_pos (by have := Real.pi_pos; positivity)]

/-- the field hypotheses of `cubic_arc_deviation_circle` hold over ℝ for every step up to 90° -/
example (arc : Arc ℝ) (r a1 d t : ℝ) (hr : arc.radii = ⟨r, r⟩) (hd : |d| ≤ Real.pi / 2)
    (ht0 : 0 ≤ t) (ht1 : t ≤ 1) :
    sqDist ((cubicAt arc a1 d).sample t) arc.center ≤ r * r := by
  obtain ⟨hu, hcos, hsin, hal, _⟩ := cubic_half_angle_real d hd
  exact (cubic_arc_deviation_circle arc r a1 d t (Real.cos (d / 2)) (Real.sin (d / 2)) hr
    (exactTrig_real.cos_sq_add_sin_sq _) (exactTrig_real.cos_sq_add_sin_sq _)
    (Real.cos_add a1 d) (Real.sin_add a1 d) hu hcos hsin hal ht0 ht1).2.1

end real

end Lyon.C13
