/-
  C09 over ℝ: the trigonometric hypotheses (`TrigLaws`) of the arc tolerance theorems of
  `Props/C09b.lean` discharged for Mathlib's real `sin`, `cos`, `arccos`, `π`.

  Result: `arc_flat_within_tolerance_real` / `circle_arc_flat_within_tolerance_real` — for real arcs
  no hypothesis about trigonometry is left; what remains are the two facts about the code
  (`hfuel`: the loop ended by its `break`; `heps`: the `EPSILON` guard of `flattening_step` does not
  fire on the whole arc).  `real_trig_laws` is also the non-vacuity proof of `TrigLaws`;
  the closing `example` is a concrete two-segment arc with lyon's constants satisfying every hypothesis.
-/
import LyonVerif.Props.C09b
import Mathlib.Analysis.SpecialFunctions.Trigonometric.Inverse
import Mathlib.Analysis.Real.Pi.Bounds
import Mathlib.Analysis.SpecialFunctions.Pow.Real

set_option linter.unusedSectionVars false
set_option linter.unusedVariables false
set_option linter.style.haveILetI false
set_option warn.classDefReducibility false

namespace Lyon.C09
open Lyon Lyon.Flat

/-- `Transc ℝ` with Mathlib's real functions (fields the arc flattening code does not use are
placeholders) -/
noncomputable def realTransc : Transc ℝ where
  sqrt := Real.sqrt
  cbrt := fun _ => 0
  sin := Real.sin
  cos := Real.cos
  tan := Real.tan
  acos := Real.arccos
  atan2 := fun _ _ => 0
  pow := fun x y => x ^ y
  log2 := fun _ => 0
  ln := Real.log
  floor := fun x => (⌊x⌋ : ℝ)
  ceil := fun x => (⌈x⌉ : ℝ)
  toNat := fun x => ⌊x⌋.toNat
  fmod := fun x _ => x
  eps := 0
  pi := Real.pi
  isNaN := fun _ => false
  isFinite := fun _ => true

attribute [local instance] realTransc

/-- **`TrigLaws` holds for the real functions** (also: `TrigLaws` is satisfiable) -/
theorem real_trig_laws : TrigLaws ℝ where
  cos_sq_add_sin_sq := fun x => by
    have := Real.cos_sq_add_sin_sq x
    show Real.cos x * Real.cos x + Real.sin x * Real.sin x = 1
    nlinarith
  cos_add := fun x y => Real.cos_add x y
  sin_add := fun x y => Real.sin_add x y
  cos_neg := fun x => Real.cos_neg x
  sin_neg := fun x => Real.sin_neg x
  cos_antitone := fun x y hx hxy hy => Real.cos_le_cos_of_nonneg_of_le_pi hx hy hxy
  acos_nonneg := fun x => Real.arccos_nonneg x
  acos_le_pi := fun x => Real.arccos_le_pi x
  le_cos_acos := fun x hx1 => by
    show x ≤ Real.cos (Real.arccos x)
    rcases le_or_gt (-1) x with h | h
    · rw [Real.cos_arccos h hx1]
    · rw [Real.arccos_of_le_neg_one (le_of_lt h), Real.cos_pi]; exact le_of_lt h

variable [FlatConst ℝ]

/-- **arc_flat_within_tolerance_real**: for every real arc (circle or ellipse, any rotation and
sweep) with largest radius `R > 0` and every tolerance `tol ≥ 0`, every point of the arc is within
`tol` of the emitted segment whose parameter range contains its parameter — no trigonometric
hypothesis. (`hfuel`, `heps1`, `heps`: see `arc_flat_within_tolerance`.) -/
theorem arc_flat_within_tolerance_real (a : Arc ℝ) (R tol : ℝ) (fuel : Nat)
    (hRdef : R = Max.max |a.radii.x| |a.radii.y|) (hR : 0 < R) (ht : 0 ≤ tol)
    (heps1 : (FlatConst.epsilon : ℝ) ≤ 1)
    (heps : FlatConst.epsilon * |a.sweep| ≤ 2 * Real.arccos ((R - tol) / R))
    (hfuel : (a.forEachFlattenedWithT tol fuel).length ≤ fuel)
    (t : ℝ) (ht0 : 0 ≤ t) (ht1 : t ≤ 1) :
    ∃ sg ∈ a.forEachFlattenedWithT tol fuel, sg.t0 ≤ t ∧ t ≤ sg.t1 ∧
      ∃ s : ℝ, 0 ≤ s ∧ s ≤ 1 ∧ (a.sample t - sg.a.lerp sg.b s).sqLen ≤ tol * tol :=
  arc_flat_within_tolerance real_trig_laws a R tol fuel hRdef hR ht heps1 heps hfuel t ht0 ht1

/-- **arc_flat_within_tolerance_real_fuel**: the same with the fuel hypothesis discharged
(`1 ≤ ε·fuel`): the only hypothesis left about the code is that the `EPSILON` guard does not fire. -/
theorem arc_flat_within_tolerance_real_fuel (a : Arc ℝ) (R tol : ℝ) (fuel : Nat)
    (hRdef : R = Max.max |a.radii.x| |a.radii.y|) (hR : 0 < R) (ht : 0 ≤ tol)
    (heps0 : (0 : ℝ) < FlatConst.epsilon) (heps1 : (FlatConst.epsilon : ℝ) ≤ 1)
    (hfe : 1 ≤ (FlatConst.epsilon : ℝ) * fuel)
    (heps : FlatConst.epsilon * |a.sweep| ≤ 2 * Real.arccos ((R - tol) / R))
    (t : ℝ) (ht0 : 0 ≤ t) (ht1 : t ≤ 1) :
    ∃ sg ∈ a.forEachFlattenedWithT tol fuel, sg.t0 ≤ t ∧ t ≤ sg.t1 ∧
      ∃ s : ℝ, 0 ≤ s ∧ s ≤ 1 ∧ (a.sample t - sg.a.lerp sg.b s).sqLen ≤ tol * tol :=
  arc_flat_within_tolerance_fuel real_trig_laws a R tol fuel hRdef hR ht heps0 heps1 hfe heps t ht0 ht1

/-- **circle_arc_flat_within_tolerance_real**: circular arcs `radii = (r, r)`, `r > 0`, `tol > 0`;
and every point `sample t` (hence every vertex) is at distance exactly `r` from the centre. -/
theorem circle_arc_flat_within_tolerance_real (a : Arc ℝ) (r tol : ℝ) (fuel : Nat)
    (hrad : a.radii = ⟨r, r⟩) (hr : 0 < r) (ht : 0 < tol)
    (heps1 : (FlatConst.epsilon : ℝ) ≤ 1)
    (heps : FlatConst.epsilon * |a.sweep| ≤ 2 * Real.arccos ((r - tol) / r))
    (hfuel : (a.forEachFlattenedWithT tol fuel).length ≤ fuel)
    (t : ℝ) (ht0 : 0 ≤ t) (ht1 : t ≤ 1) :
    (∃ sg ∈ a.forEachFlattenedWithT tol fuel, sg.t0 ≤ t ∧ t ≤ sg.t1 ∧
      ∃ s : ℝ, 0 ≤ s ∧ s ≤ 1 ∧ (a.sample t - sg.a.lerp sg.b s).sqLen ≤ tol * tol)
    ∧ (a.sample t - a.center).sqLen = r * r :=
  ⟨circle_arc_flat_within_tolerance real_trig_laws a r tol fuel hrad hr ht heps1 heps hfuel t ht0 ht1,
   circle_arc_vertices_on_circle a r t hrad real_trig_laws.cos_sq_add_sin_sq⟩

/-- **arc_flat_vertices_on_arc_real**: every vertex of the flattening of a real arc is a point of
the arc, with parameters inside [0,1] and non-decreasing. -/
theorem arc_flat_vertices_on_arc_real (a : Arc ℝ) (tol : ℝ) (fuel : Nat)
    (heps1 : (FlatConst.epsilon : ℝ) ≤ 1)
    (heps : FlatConst.epsilon * |a.sweep|
      ≤ 2 * Real.arccos ((Max.max |a.radii.x| |a.radii.y| - tol) / Max.max |a.radii.x| |a.radii.y|))
    (hfuel : (a.forEachFlattenedWithT tol fuel).length ≤ fuel) :
    ∀ sg ∈ a.forEachFlattenedWithT tol fuel,
      sg.a = a.sample sg.t0 ∧ sg.b = a.sample sg.t1 ∧ 0 ≤ sg.t0 ∧ sg.t0 ≤ sg.t1 ∧ sg.t1 ≤ 1 :=
  arc_flat_vertices_on_arc a tol fuel (Real.arccos_nonneg _) heps1 heps hfuel

/-! ## Cubic: the number of quadratics, over ℝ -/

/-- the cast `to_u32` of `num_quadratics_impl`'s result is exact over ℝ when it is below 2³² -/
theorem real_num_quadratics_cast (c : Cubic ℝ) (tol : ℝ)
    (hlt : c.numQuadraticsImpl tol < 4294967296) :
    (((toU32 (c.numQuadraticsImpl tol)).getD 1 : Nat) : ℝ) = c.numQuadraticsImpl tol := by
  obtain ⟨m, hm1, hm⟩ : ∃ m : ℤ, 1 ≤ m ∧ c.numQuadraticsImpl tol = (m : ℝ) := by
    obtain ⟨x, hx⟩ : ∃ x : ℝ, c.numQuadraticsImpl tol = Max.max ((⌈x⌉ : ℤ) : ℝ) 1 :=
      ⟨_, by simp only [Cubic.numQuadraticsImpl, sc_max, sc_one]; rfl⟩
    refine ⟨Max.max ⌈x⌉ 1, le_max_right _ _, ?_⟩
    rw [hx, Int.cast_max, Int.cast_one]
  rw [hm] at hlt ⊢
  have h1 : (-(Scalar.one : ℝ) < (m : ℝ) ∧ (m : ℝ) < Scalar.ofNat 4294967296) := by
    refine ⟨?_, ?_⟩
    · have : (1 : ℝ) ≤ (m : ℝ) := by exact_mod_cast hm1
      simp only [sc_one]; linarith
    · simpa [ofNat_eq] using hlt
  simp only [toU32, h1, and_self, if_true, Option.getD_some]
  show ((⌊(m : ℝ)⌋.toNat : ℕ) : ℝ) = (m : ℝ)
  rw [Int.floor_intCast]
  have : ((m.toNat : ℕ) : ℤ) = m := Int.toNat_of_nonneg (by linarith)
  exact_mod_cast this

/-- **cubic_quads_within_split_tolerance_real**: over ℝ, with `powf` = real power and `ceil` the
real ceiling, the pieces chosen by `for_each_quadratic_bezier_with_t` for the tolerance `tolc > 0`
are each within `tolc` of the cubic over their range and cover [0,1] — no hypothesis about `powf`,
`ceil` or the cast left (only: the count is below 2³²). The code passes `tolc = 0.4·tolerance`. -/
theorem cubic_quads_within_split_tolerance_real (c : Cubic ℝ) (tolc : ℝ) (ht : 0 < tolc)
    (hlt : c.numQuadraticsImpl tolc < 4294967296) :
    (∀ p ∈ c.forEachQuadraticWithT tolc, ∀ u : ℝ, 0 ≤ u → u ≤ 1 →
      (c.sample (p.2.1 + u * (p.2.2 - p.2.1)) - p.1.sample u).sqLen ≤ tolc * tolc)
    ∧ (∀ t : ℝ, 0 ≤ t → t ≤ 1 → ∃ p ∈ c.forEachQuadraticWithT tolc,
      ∃ u : ℝ, 0 ≤ u ∧ u ≤ 1 ∧ t = p.2.1 + u * (p.2.2 - p.2.1)) := by
  have hy : 0 ≤ (((c.b - c.c2.smul 3) + c.c1.smul 3) - c.a).sqLen / (432 * tolc * tolc) :=
    div_nonneg (sqLen_nonneg _) (by positivity)
  refine cubic_quads_within_split_tolerance c tolc ht (fun x => Int.le_ceil x) ⟨?_, ?_⟩
    (real_num_quadratics_cast c tolc hlt)
  · exact Real.rpow_nonneg hy _
  · show _ ≤ (Real.rpow _ (1 / 6)) ^ 6
    have := Real.rpow_inv_natCast_pow hy (by norm_num : (6 : ℕ) ≠ 0)
    rw [one_div]
    exact le_of_eq this.symm

/-- non-vacuity, on a concrete arc with lyon's constants: the unit circle arc of sweep 4 rad,
tolerance 1 (`acos 0 = π/2`: steps of `π` rad — two segments), `EPSILON = 1e-4`, the driver's fuel
100000: every hypothesis of `arc_flat_within_tolerance_real_fuel` /
`circle_arc_flat_within_tolerance_real` holds. -/
example : let a : Arc ℝ := ⟨⟨0, 0⟩, ⟨1, 1⟩, 0, 4, 0⟩
    (1 : ℝ) = Max.max |a.radii.x| |a.radii.y| ∧ (0 : ℝ) < 1 / 10000 ∧ (1 / 10000 : ℝ) ≤ 1
    ∧ 1 ≤ (1 / 10000 : ℝ) * (100000 : ℕ)
    ∧ (1 / 10000 : ℝ) * |a.sweep| ≤ 2 * Real.arccos ((1 - 1) / 1)
    ∧ |a.sweep| ≤ ((100000 : ℕ) : ℝ) * (2 * Real.arccos ((1 - 1) / 1)) := by
  intro a
  have h : Real.arccos ((1 - 1) / 1) = Real.pi / 2 := by norm_num
  have hpi := Real.pi_gt_three
  have hs : |a.sweep| = 4 := by show |(4 : ℝ)| = 4; exact abs_of_pos (by norm_num)
  refine ⟨by simp [a], by norm_num, by norm_num, by norm_num, ?_, ?_⟩
  · rw [h, hs]; linarith
  · rw [h, hs]; push_cast; linarith

end Lyon.C09
