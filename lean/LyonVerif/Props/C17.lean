/-
  C17 — the path-syntax parser is total, protocol-safe and round-trips printed paths.

  All statements are about `Lyon.Parser.parseWith` (`Model/Parser.lean`), the function the
  correspondence check runs against `lyon_extra::parser::PathParser::parse` on every run
  (`Drive/C17.lean`, `harness/src/bin/c17.rs`).  `parse` is the parser as it is
  (`need_start` starts `false`), `parseFixed` the parser with the proposed one-line fix
  (`need_start` starts `true`, `fixes/C17-need-start.patch`).

  The theorems quantify over EVERY input `List Char`, every attribute count, every stop
  character and every instance `N : Num ν` of the numeric parameters (value of a lexeme, `+`, `-`,
  `is_straight_line`, the arc → quadratics conversion).

  Helper lemmas: `Lemmas/Parser.lean`.
-/
import LyonVerif.Lemmas.Parser

set_option linter.unusedVariables false

namespace Lyon.C17
open Lyon.Parser Lyon.Path

variable {ν : Type}

/-! ### Totality -/

/-- `parse_total`: the loop fuel `length + 1` supplied by `parseWith` never runs out — every
iteration of the command loop consumes a character or returns.  (The model function itself is
total by structural recursion; this says its "out of fuel" outcome is unreachable.) -/
theorem parse_total (fix : Bool) (N : Num ν) (na : Nat) (stop : Option Char)
    (inp : List Char) : (parseWith fix N na stop inp).outcome ≠ .stuck := by
  unfold parseWith
  apply loop_not_stuck
  · have := skipWs_len_le (Src.new inp)
    simp only [Src.len, Src.new] at this ⊢
    omega
  · simp [St.init]
  · simp [St.init]

/-- No panic, fixed parser: if the arc conversion of `lyon_geom` does not panic, neither does
the parser. -/
theorem parse_no_panic_fixed (N : Num ν) (na : Nat) (stop : Option Char) (inp : List Char)
    (harc : ∀ pos a, N.arc pos a ≠ none) : (parseFixed N na stop inp).outcome ≠ .panic := by
  unfold parseFixed parseWith
  apply loop_no_panic _ N na stop harc
  · simp [St.init]
  · simp [St.init]
  · right; intro h; simp [St.init] at h

/-- No panic, current code, PARTIAL: only without custom attributes.  With attributes an arc
before the first move-to indexes an empty `prev_attributes` (`parse_no_panic_witness`). -/
theorem parse_no_panic_partial (N : Num ν) (stop : Option Char) (inp : List Char)
    (harc : ∀ pos a, N.arc pos a ≠ none) : (parse N 0 stop inp).outcome ≠ .panic := by
  unfold parse parseWith
  apply loop_no_panic _ N 0 stop harc
  · simp [St.init]
  · simp [St.init]
  · left; rfl

/-- `parse_result_shape` (result part): the parser returns `Ok` or `Err` (given the arc
conversion does not panic). -/
theorem parse_result_shape (N : Num ν) (na : Nat) (stop : Option Char) (inp : List Char)
    (harc : ∀ pos a, N.arc pos a ≠ none) : (parseFixed N na stop inp).closed := by
  have h1 := parse_total true N na stop inp
  have h2 := parse_no_panic_fixed N na stop inp harc
  unfold parseFixed at h2 ⊢
  unfold Result.closed
  cases h : (parseWith true N na stop inp).outcome with
  | ok => exact Or.inl rfl
  | err e => exact Or.inr ⟨e, rfl⟩
  | panic => exact absurd h h2
  | stuck => exact absurd h h1

/-! ### Error positions -/

/-- `parse_result_shape` (position part): an error carries the `line`/`col` the source had after
some number `n` of `advance_one` steps from `Source::new(input)` — i.e. the position of the
`n`-th character (the offending token's first character, or the last character at end of input).
`position_tracks` below says what these two numbers are. -/
theorem parse_error_position (fix : Bool) (N : Num ν) (na : Nat) (stop : Option Char)
    (inp : List Char) (e : Err) (h : (parseWith fix N na stop inp).outcome = .err e) :
    ∃ n, e.line = (advN n (Src.new inp)).line ∧ e.col = (advN n (Src.new inp)).col := by
  unfold parseWith at h
  obtain ⟨t, ⟨n, rfl⟩, hl, hc⟩ :=
    ErrAt.mono (skipWs_reach (Src.new inp)) ((loop_pos fix N na stop _ _ _).2 e h)
  exact ⟨n, hl, hc⟩

/-- `position_tracks`: after `n` steps (`n < length`) the source stands on character `n`;
`line` = number of newlines among characters `0..n` (inclusive);
`col` = `n` if no newline occurs at an index in `1..n`, and `t - 1` if the last newline at an
index ≥ 1 is followed by `t` further characters up to `n` (so the newline itself has column -1 and
the character after it column 0).  A newline at index 0 does NOT reset the column — the
`leading-newline` finding. -/
theorem position_tracks (inp : List Char) (n : Nat) (hn : n < inp.length) :
    (advN n (Src.new inp)).inp = inp.drop n ∧
    (advN n (Src.new inp)).line = nlCount (inp.take (n + 1)) ∧
    ((∀ c ∈ inp.tail.take n, c ≠ '\n') → (advN n (Src.new inp)).col = n) ∧
    (∀ j t, j + 1 + t = n → (inp.drop (j + 1)).head? = some '\n' →
      (∀ c ∈ (inp.drop (j + 2)).take t, c ≠ '\n') →
      (advN n (Src.new inp)).col = (t : Int) - 1) := by
  have hlen : n < (Src.new inp).inp.length := hn
  refine ⟨by simp [advN_inp, Src.new], ?_, ?_, ?_⟩
  · rw [advN_line n _ hlen]
    simp only [Src.new, nextLine_eq, nlCount_take_succ inp n]
    omega
  · intro h
    rw [advN_col_plain n _ hlen h]; simp [Src.new]
  · intro j t hjt hnl hrest
    subst hjt
    rw [advN_add]
    have hj : j < inp.length := by omega
    have hdj : (advN j (Src.new inp)).inp = inp.drop j := by simp [advN_inp, Src.new]
    have hj1 : j + 1 < inp.length := by omega
    have e1 : inp.drop j = inp[j] :: inp.drop (j + 1) := List.drop_eq_getElem_cons hj
    have e2 : inp.drop (j + 1) = '\n' :: inp.drop (j + 2) := by
      have := List.drop_eq_getElem_cons hj1
      rw [this] at hnl ⊢
      simp only [List.head?_cons, Option.some.injEq] at hnl
      rw [hnl]
    have hs1 : (advN (j + 1) (Src.new inp)) = (advN j (Src.new inp)).adv := by
      rw [advN_add j 1]; rfl
    have hcol : (advN (j + 1) (Src.new inp)).col = -1 := by
      rw [hs1]; exact adv_col_newline _ inp[j] (inp.drop (j + 2)) (by rw [hdj, e1, e2])
    have hinp : (advN (j + 1) (Src.new inp)).inp = '\n' :: inp.drop (j + 2) := by
      rw [advN_inp]; simpa [Src.new] using e2
    have hlt : t < (advN (j + 1) (Src.new inp)).inp.length := by
      rw [hinp]; simp; omega
    rw [advN_col_plain t _ hlt (by rw [hinp]; exact hrest), hcol]; omega

/-- once the input is exhausted the position no longer changes: errors at end of input carry
the position of the last character -/
theorem position_at_end (s : Src) (k : Nat) (h : s.inp.length ≤ 1) :
    (advN k s).line = s.line ∧ (advN k s).col = s.col := by
  induction k generalizing s with
  | zero => exact ⟨rfl, rfl⟩
  | succ k ih =>
    have hadv : s.adv.line = s.line ∧ s.adv.col = s.col ∧ s.adv.inp.length ≤ 1 := by
      unfold Src.adv
      cases hs : s.inp with
      | nil => simp [hs]
      | cons c r =>
        cases r with
        | nil => simp [nextLine, nextCol]
        | cons d t => simp [hs] at h
    obtain ⟨h1, h2⟩ := ih s.adv hadv.2.2
    simp only [advN]; rw [h1, h2]; exact ⟨hadv.1, hadv.2.1⟩

/-! ### Protocol safety -/

/-- `parse_trace_wellnested` for the FIXED parser: for every input string — success or error —
the calls sent to the builder are `(begin edge* end)*`. -/
theorem parse_trace_wellnested_fixed (N : Num ν) (na : Nat) (stop : Option Char)
    (inp : List Char) (hc : (parseFixed N na stop inp).closed) :
    WellNested (parseFixed N na stop inp).trace := by
  unfold parseFixed parseWith at hc ⊢
  obtain ⟨b, hb, hcl⟩ := loop_nest _ N na stop (inp.length + 1) (St.init N true)
    (Src.new inp).skipWs (Or.inr rfl) (by simp [St.init]) (by simp [St.init])
  rw [hcl hc] at hb
  exact (wellNestedFrom_iff_nestState _ _).2 hb

/-- Prefix safety (fixed parser), also when the arc conversion panics: no call is ever out of
place. -/
theorem parse_trace_prefix_safe_fixed (N : Num ν) (na : Nat) (stop : Option Char)
    (inp : List Char) : ∃ b, nestState false (parseFixed N na stop inp).trace = some b := by
  unfold parseFixed parseWith
  obtain ⟨b, hb, _⟩ := loop_nest _ N na stop (inp.length + 1) (St.init N true)
    (Src.new inp).skipWs (Or.inr rfl) (by simp [St.init]) (by simp [St.init])
  exact ⟨b, hb⟩

/-- `parse_trace_wellnested` for the CURRENT code, PARTIAL: the calls are well nested provided
the first call (if any) is a `begin`.  What is missing: inputs whose first command is a drawing
or close command — those are accepted and their calls are issued outside any sub-path
(`parse_trace_wellnested_witness`). -/
theorem parse_trace_wellnested_partial (N : Num ν) (na : Nat) (stop : Option Char)
    (inp : List Char) (hc : (parse N na stop inp).closed)
    (hstart : startsOk (parse N na stop inp).trace) :
    WellNested (parse N na stop inp).trace := by
  unfold parse parseWith at hc hstart ⊢
  obtain ⟨b, hb, hcl⟩ := loop_nest_start _ N na stop (inp.length + 1) (St.init N false)
    (Src.new inp).skipWs rfl (by simp [St.init]) (by simp [St.init]) hstart
  rw [hcl hc] at hb
  exact (wellNestedFrom_iff_nestState _ _).2 hb

/-! ### Path data must start with a move-to -/

/-- `missing_move_to` for the FIXED parser: if the first character that is not a separator is an
ASCII letter other than `m`/`M` (and not the stop character), the input is rejected — with
`MissingMoveTo` for a drawing/close command, `Command` for an unknown letter — and the builder
has not been called at all. -/
theorem missing_move_to_fixed (N : Num ν) (na : Nat) (stop : Option Char) (inp : List Char)
    (hne : (Src.new inp).skipWs.inp ≠ [])
    (hstop : stop ≠ some (Src.new inp).skipWs.cur)
    (halpha : (Src.new inp).skipWs.cur.isAlpha = true)
    (hm : (Src.new inp).skipWs.cur ≠ 'm') (hM : (Src.new inp).skipWs.cur ≠ 'M') :
    (parseFixed N na stop inp).trace = [] ∧
    ((parseFixed N na stop inp).outcome =
        .err (.missingMoveTo (Src.new inp).skipWs.cur (Src.new inp).skipWs.line
          (Src.new inp).skipWs.col) ∨
     (parseFixed N na stop inp).outcome =
        .err (.command (Src.new inp).skipWs.cur (Src.new inp).skipWs.line
          (Src.new inp).skipWs.col)) := by
  generalize hs : (Src.new inp).skipWs = s at *
  unfold parseFixed parseWith
  rw [hs, loop_succ]
  have hf : s.fin = false := by
    cases h : s.inp with
    | nil => exact absurd h hne
    | cons a r => simp [Src.fin, h]
  have hst : (stop == some s.cur) = false := by
    cases h : (stop == some s.cur)
    · rfl
    · exact absurd (by simpa using h) hstop
  simp only [hf, hst, Bool.false_eq_true, if_false]
  have hcmd : cmdOf (St.init N true) s = s.cur := by simp [cmdOf, halpha]
  unfold step
  rw [hcmd]
  by_cases hd : isDrawingCmd s.cur = true
  · simp [St.init, needStartBlocks, hd, Result.trace, closing]
  · have hblk : needStartBlocks true s.cur = false := by simp [needStartBlocks, hd]
    simp only [hblk, Bool.and_false, Bool.false_eq_true, if_false]
    unfold dispatchCmd
    have hnone : edgeCmd N na s.cur (St.init N true) = none := by
      cases he : edgeCmd N na s.cur (St.init N true) with
      | none => rfl
      | some m => exact absurd (edgeCmd_drawing N na _ _ m he) hd
    have ha : (s.cur == 'a' || s.cur == 'A') = false := by
      cases h : (s.cur == 'a' || s.cur == 'A')
      · rfl
      · exfalso; apply hd
        rcases (by simpa using h : s.cur = 'a' ∨ s.cur = 'A') with h' | h' <;> (rw [h']; decide)
    have hz : (s.cur == 'z' || s.cur == 'Z') = false := by
      cases h : (s.cur == 'z' || s.cur == 'Z')
      · rfl
      · exfalso; apply hd
        rcases (by simpa using h : s.cur = 'z' ∨ s.cur = 'Z') with h' | h' <;> (rw [h']; decide)
    have hmm : (s.cur == 'm' || s.cur == 'M') = false := by simp [hm, hM]
    rw [hnone]
    simp [ha, hz, hmm, St.init, Result.trace, closing]

/-- `missing_move_to`, CURRENT code, PARTIAL: once a sub-path has been closed (`need_start`
set by `Z`), anything but a move-to is rejected with `MissingMoveTo` at the command's position.
What is missing: the same at the start of the input (`missing_move_to_witness`). -/
theorem missing_move_to_partial (N : Num ν) (na : Nat) (st : St ν) (s : Src)
    (hns : st.needStart = true) (hm : cmdOf st s ≠ 'm') (hM : cmdOf st s ≠ 'M') :
    step false N na st s =
      .fail (.missingMoveTo (cmdOf st s) s.line s.col) st.needEnd (afterCmd s) [] := by
  simp [step, needStartBlocks, hns, hm, hM]

/-! ### Witnesses on the model (current code) -/

/-- a trivial numeric instance: all values are `()`; every arc is one quadratic segment -/
def unitNum : Num Unit where
  zero := ()
  add := fun _ _ => ()
  sub := fun _ _ => ()
  ofLexeme := fun _ => ()
  arcStraight := fun _ => false
  arc := fun _ a => some [(((), ()), ((), ()), a.attrs)]

/-- `L 1 1` is accepted and sends a `line_to` outside any sub-path. -/
theorem parse_trace_wellnested_witness :
    (parse unitNum 0 none ['L', ' ', '1', ' ', '1']).outcome = .ok ∧
    (parse unitNum 0 none ['L', ' ', '1', ' ', '1']).trace = [.line ((), ()) []] ∧
    ¬ WellNested (parse unitNum 0 none ['L', ' ', '1', ' ', '1']).trace := by
  decide

/-- `Z` and `H 3` as well. -/
theorem missing_move_to_witness :
    (parse unitNum 0 none ['Z']).outcome = .ok ∧
    (parse unitNum 0 none ['Z']).trace = [.end_ true] ∧
    (parse unitNum 0 none ['H', ' ', '3']).outcome = .ok ∧
    (parse unitNum 0 none ['H', ' ', '3']).trace = [.line ((), ()) []] := by
  decide

/-- With one custom attribute, an arc before any move-to panics (index out of bounds). -/
theorem parse_no_panic_witness :
    (parse unitNum 1 none "A1 1 0 0 0 5 5 7".toList).outcome = .panic := by
  decide

/-- non-vacuity of `missing_move_to_fixed`: `" L 1 1"` satisfies its hypotheses -/
example : (Src.new [' ', 'L', ' ', '1', ' ', '1']).skipWs.inp ≠ [] ∧
    (Src.new [' ', 'L', ' ', '1', ' ', '1']).skipWs.cur.isAlpha = true ∧
    (Src.new [' ', 'L', ' ', '1', ' ', '1']).skipWs.cur ≠ 'm' := by decide

/-- non-vacuity of the `closed` / `startsOk` hypotheses: `"M 0 0 L 1 1 Z"` -/
example : (parse unitNum 0 none "M 0 0 L 1 1 Z".toList).closed ∧
    startsOk (parse unitNum 0 none "M 0 0 L 1 1 Z".toList).trace ∧
    (parse unitNum 0 none "M 0 0 L 1 1 Z".toList).trace =
      [.begin ((), ()) [], .line ((), ()) [], .end_ true] := by
  refine ⟨Or.inl (by decide), ?_, by decide⟩
  have : (parse unitNum 0 none "M 0 0 L 1 1 Z".toList).trace =
      [.begin ((), ()) [], .line ((), ()) [], .end_ true] := by decide
  rw [this]; trivial

/-- the arc hypothesis of the no-panic theorems holds for `unitNum` -/
example : ∀ pos a, unitNum.arc pos a ≠ none := by intro pos a; simp [unitNum]

end Lyon.C17
