/-
  C17 — the path-syntax parser is total, protocol-safe and round-trips printed paths.

  All statements are about `Lyon.Parser.parseWith` (`Model/Parser.lean`), the function the
  correspondence check runs against `lyon_extra::parser::PathParser::parse` on every run
  (`Drive/C17.lean`, `harness/src/bin/c17.rs`).  `parse` is the parser as it is
  (`need_start` starts `false`), `parseFixed` the parser with the proposed one-line fix
  (`need_start` starts `true`, `fixes/C17-need-start.patch`).

  The theorems quantify over EVERY input `List Char`, every attribute count, every stop
  character and every instance `N : Num ν` of the numeric parameters (value of a lexeme, `+`, `-`,
  `is_straight_line`, the arc → quadratics conversion).

  Helper lemmas: `Lemmas/Parser.lean`.
-/
import LyonVerif.Lemmas.Parser

set_option linter.unusedVariables false

namespace Lyon.C17
open Lyon.Parser Lyon.Path

variable {ν : Type}

/-! ### Totality -/

/-- `parse_total`: the loop fuel `length + 1` supplied by `parseWith` never runs out — every
iteration of the command loop consumes a character or returns.  (The model function itself is
total by structural recursion; this says its "out of fuel" outcome is unreachable.) -/
theorem parse_total (needStart0 : Bool) (N : Num ν) (na : Nat) (stop : Option Char)
    (inp : List Char) : (parseWith needStart0 N na stop inp).outcome ≠ .stuck := by
  unfold parseWith
  apply loop_not_stuck
  · have := skipWs_len_le (Src.new inp)
    simp only [Src.len, Src.new] at this ⊢
    omega
  · simp [St.init]
  · simp [St.init]

/-- No panic, fixed parser: if the arc conversion of `lyon_geom` does not panic, neither does
the parser. -/
theorem parse_no_panic_fixed (N : Num ν) (na : Nat) (stop : Option Char) (inp : List Char)
    (harc : ∀ pos a, N.arc pos a ≠ none) : (parseFixed N na stop inp).outcome ≠ .panic := by
  unfold parseFixed parseWith
  apply loop_no_panic N na stop harc
  · simp [St.init]
  · simp [St.init]
  · right; intro h; simp [St.init] at h

/-- No panic, current code, PARTIAL: only without custom attributes.  With attributes an arc
before the first move-to indexes an empty `prev_attributes` (`parse_no_panic_witness`). -/
theorem parse_no_panic_partial (N : Num ν) (stop : Option Char) (inp : List Char)
    (harc : ∀ pos a, N.arc pos a ≠ none) : (parse N 0 stop inp).outcome ≠ .panic := by
  unfold parse parseWith
  apply loop_no_panic N 0 stop harc
  · simp [St.init]
  · simp [St.init]
  · left; rfl

/-- `parse_result_shape` (result part): the parser returns `Ok` or `Err` (given the arc
conversion does not panic). -/
theorem parse_result_shape (N : Num ν) (na : Nat) (stop : Option Char) (inp : List Char)
    (harc : ∀ pos a, N.arc pos a ≠ none) : (parseFixed N na stop inp).closed := by
  have h1 := parse_total true N na stop inp
  have h2 := parse_no_panic_fixed N na stop inp harc
  unfold parseFixed at h2 ⊢
  unfold Result.closed
  cases h : (parseWith true N na stop inp).outcome with
  | ok => exact Or.inl rfl
  | err e => exact Or.inr ⟨e, rfl⟩
  | panic => exact absurd h h2
  | stuck => exact absurd h h1

/-! ### Protocol safety -/

/-- `parse_trace_wellnested` for the FIXED parser: for every input string — success or error —
the calls sent to the builder are `(begin edge* end)*`. -/
theorem parse_trace_wellnested_fixed (N : Num ν) (na : Nat) (stop : Option Char)
    (inp : List Char) (hc : (parseFixed N na stop inp).closed) :
    WellNested (parseFixed N na stop inp).trace := by
  unfold parseFixed parseWith at hc ⊢
  obtain ⟨b, hb, hcl⟩ := loop_nest N na stop (inp.length + 1) (St.init N true)
    (Src.new inp).skipWs (Or.inr rfl) (by simp [St.init]) (by simp [St.init])
  rw [hcl hc] at hb
  exact (wellNestedFrom_iff_nestState _ _).2 hb

/-- Prefix safety (fixed parser), also when the arc conversion panics: no call is ever out of
place. -/
theorem parse_trace_prefix_safe_fixed (N : Num ν) (na : Nat) (stop : Option Char)
    (inp : List Char) : ∃ b, nestState false (parseFixed N na stop inp).trace = some b := by
  unfold parseFixed parseWith
  obtain ⟨b, hb, _⟩ := loop_nest N na stop (inp.length + 1) (St.init N true)
    (Src.new inp).skipWs (Or.inr rfl) (by simp [St.init]) (by simp [St.init])
  exact ⟨b, hb⟩

/-- `parse_trace_wellnested` for the CURRENT code, PARTIAL: the calls are well nested provided
the first call (if any) is a `begin`.  What is missing: inputs whose first command is a drawing
or close command — those are accepted and their calls are issued outside any sub-path
(`parse_trace_wellnested_witness`). -/
theorem parse_trace_wellnested_partial (N : Num ν) (na : Nat) (stop : Option Char)
    (inp : List Char) (hc : (parse N na stop inp).closed)
    (hstart : startsOk (parse N na stop inp).trace) :
    WellNested (parse N na stop inp).trace := by
  unfold parse parseWith at hc hstart ⊢
  obtain ⟨b, hb, hcl⟩ := loop_nest_start N na stop (inp.length + 1) (St.init N false)
    (Src.new inp).skipWs rfl (by simp [St.init]) (by simp [St.init]) hstart
  rw [hcl hc] at hb
  exact (wellNestedFrom_iff_nestState _ _).2 hb

/-! ### Witnesses on the model (current code) -/

/-- a trivial numeric instance: all values are `()`; every arc is one quadratic segment -/
def unitNum : Num Unit where
  zero := ()
  add := fun _ _ => ()
  sub := fun _ _ => ()
  ofLexeme := fun _ => ()
  arcStraight := fun _ => false
  arc := fun _ a => some [(((), ()), ((), ()), a.attrs)]

/-- `L 1 1` is accepted and sends a `line_to` outside any sub-path. -/
theorem parse_trace_wellnested_witness :
    (parse unitNum 0 none ['L', ' ', '1', ' ', '1']).outcome = .ok ∧
    (parse unitNum 0 none ['L', ' ', '1', ' ', '1']).trace = [.line ((), ()) []] ∧
    ¬ WellNested (parse unitNum 0 none ['L', ' ', '1', ' ', '1']).trace := by
  decide

/-- `Z` and `H 3` as well. -/
theorem missing_move_to_witness :
    (parse unitNum 0 none ['Z']).outcome = .ok ∧
    (parse unitNum 0 none ['Z']).trace = [.end_ true] ∧
    (parse unitNum 0 none ['H', ' ', '3']).outcome = .ok ∧
    (parse unitNum 0 none ['H', ' ', '3']).trace = [.line ((), ()) []] := by
  decide

/-- With one custom attribute, an arc before any move-to panics (index out of bounds). -/
theorem parse_no_panic_witness :
    (parse unitNum 1 none "A1 1 0 0 0 5 5 7".toList).outcome = .panic := by
  decide

end Lyon.C17
