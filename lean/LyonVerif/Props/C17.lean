/-
  C17 — the path-syntax parser is total, protocol-safe and round-trips printed paths.

  All statements are about `Lyon.Parser.parse` (`Model/Parser.lean`), the function the
  correspondence check runs against `lyon_extra::parser::PathParser::parse` on every run
  (`Drive/C17.lean`, `harness/src/bin/c17.rs`).  The model mirrors the code after the two
  repairs made for this property:

  * 00996849 "fix: path parser rejects drawing commands before the first move-to"
    (`need_start` starts `true`; the `need_start` test rejects the drawing/close letters).
    Before it the model had the witnesses (proved by `decide`, now gone with the old code):
    `L 1 1` → Ok with trace `[line]`, `Z` → Ok with `[end(true)]`, `H 3` → Ok with `[line]`
    (calls outside any sub-path), and with one attribute `A1 1 0 0 0 5 5 7` → panic
    (`prev_attributes[0]` on an empty buffer); the nesting / no-panic / missing-move-to
    theorems were only provable as `_partial`.
  * c7c34442 "fix: parser Source resets the column when the input starts with a newline".
    Before it `"\nx"` reported column 1 and `position_tracks` needed the exception "a newline
    at index 0 does not reset the column".

  The theorems quantify over EVERY input `List Char`, every attribute count, every stop
  character and every instance `N : Num ν` of the numeric parameters (value of a lexeme, `+`, `-`,
  `is_straight_line`, the arc → quadratics conversion).

  Helper lemmas: `Lemmas/Parser.lean`.
-/
import LyonVerif.Lemmas.Parser

set_option linter.unusedVariables false

namespace Lyon.C17
open Lyon.Parser Lyon.Path

variable {ν : Type}

/-! ### Totality -/

/-- `parse_total`: the loop fuel `length + 1` supplied by `parse` never runs out — every
iteration of the command loop consumes a character or returns.  (The model function itself is
total by structural recursion; this says its "out of fuel" outcome is unreachable.) -/
theorem parse_total (N : Num ν) (na : Nat) (stop : Option Char) (inp : List Char) :
    (parse N na stop inp).outcome ≠ .stuck := by
  unfold parse
  apply loop_not_stuck
  · have := skipWs_len_le (Src.new inp)
    simp only [Src.len, Src.new] at this ⊢
    omega
  · simp [St.init]
  · simp [St.init]

/-- `parse_no_panic`: if the arc conversion of `lyon_geom` does not panic, neither does the
parser — for every input, attribute count and stop character. -/
theorem parse_no_panic (N : Num ν) (na : Nat) (stop : Option Char) (inp : List Char)
    (harc : ∀ pos a, N.arc pos a ≠ none) : (parse N na stop inp).outcome ≠ .panic := by
  unfold parse
  apply loop_no_panic N na stop harc
  · simp [St.init]
  · simp [St.init]
  · right; intro h; simp [St.init] at h

/-- `parse_result_shape` (result part): the parser returns `Ok` or `Err`. -/
theorem parse_result_shape (N : Num ν) (na : Nat) (stop : Option Char) (inp : List Char)
    (harc : ∀ pos a, N.arc pos a ≠ none) : (parse N na stop inp).closed := by
  have h1 := parse_total N na stop inp
  have h2 := parse_no_panic N na stop inp harc
  unfold Result.closed
  cases h : (parse N na stop inp).outcome with
  | ok => exact Or.inl rfl
  | err e => exact Or.inr ⟨e, rfl⟩
  | panic => exact absurd h h2
  | stuck => exact absurd h h1

/-! ### Error positions -/

/-- `parse_error_position`: an error carries the `line`/`col` the source had after some number
`n` of `advance_one` steps from `Source::new(input)` — i.e. the position of the `n`-th character
(the offending token's first character, or the last character at end of input).
`position_tracks` says what these two numbers are. -/
theorem parse_error_position (N : Num ν) (na : Nat) (stop : Option Char)
    (inp : List Char) (e : Err) (h : (parse N na stop inp).outcome = .err e) :
    ∃ n, e.line = (advN n (Src.new inp)).line ∧ e.col = (advN n (Src.new inp)).col := by
  unfold parse at h
  obtain ⟨t, ⟨n, rfl⟩, hl, hc⟩ :=
    ErrAt.mono (skipWs_reach (Src.new inp)) ((loop_pos N na stop _ _ _).2 e h)
  exact ⟨n, hl, hc⟩

/-- `position_tracks`: after `n` steps (`n < length`) the source stands on character `n`;
`line` = number of newlines among characters `0..n` (inclusive);
`col`  = offset since the last newline: `n` if characters `0..n` contain no newline, and `t - 1`
if the last newline, at index `j`, is followed by `t` further characters up to `n = j + t`
(the newline itself has column -1, the character after it column 0). -/
theorem position_tracks (inp : List Char) (n : Nat) (hn : n < inp.length) :
    (advN n (Src.new inp)).inp = inp.drop n ∧
    (advN n (Src.new inp)).line = nlCount (inp.take (n + 1)) ∧
    ((∀ c ∈ inp.take (n + 1), c ≠ '\n') → (advN n (Src.new inp)).col = n) ∧
    (∀ j t, j + t = n → (inp.drop j).head? = some '\n' →
      (∀ c ∈ (inp.drop (j + 1)).take t, c ≠ '\n') →
      (advN n (Src.new inp)).col = (t : Int) - 1) := by
  have hlen : n < (Src.new inp).inp.length := hn
  refine ⟨by simp [advN_inp, Src.new], ?_, ?_, ?_⟩
  · rw [advN_line n _ hlen]
    simp only [Src.new, nextLine_eq, nlCount_take_succ inp n]
    omega
  · intro h
    cases inp with
    | nil => simp at hn
    | cons c r =>
      have hc : c ≠ '\n' := h c (by simp)
      rw [advN_col_plain n _ hlen (by
        intro x hx; apply h x
        simp only [Src.new, List.tail_cons] at hx
        simp only [List.take_succ_cons]; exact List.mem_cons_of_mem _ hx)]
      simp [Src.new, startCol, hc]
  · intro j t hjt hnl hrest
    subst hjt
    cases j with
    | zero =>
      cases inp with
      | nil => simp at hn
      | cons c r =>
        simp only [List.drop_zero, List.head?_cons, Option.some.injEq] at hnl
        subst hnl
        simp only [Nat.zero_add] at hrest hlen ⊢
        rw [advN_col_plain t _ hlen (by simpa [Src.new] using hrest)]
        simp only [Src.new, startCol, beq_self_eq_true, if_true]
        omega
    | succ j =>
      rw [show j + 1 + t = (j + 1) + t from rfl, advN_add]
      have hj : j < inp.length := by omega
      have hdj : (advN j (Src.new inp)).inp = inp.drop j := by simp [advN_inp, Src.new]
      have hj1 : j + 1 < inp.length := by omega
      have e1 : inp.drop j = inp[j] :: inp.drop (j + 1) := List.drop_eq_getElem_cons hj
      have e2 : inp.drop (j + 1) = '\n' :: inp.drop (j + 2) := by
        have := List.drop_eq_getElem_cons hj1
        rw [this] at hnl ⊢
        simp only [List.head?_cons, Option.some.injEq] at hnl
        rw [hnl]
      have hs1 : (advN (j + 1) (Src.new inp)) = (advN j (Src.new inp)).adv := by
        rw [advN_add j 1]; rfl
      have hcol : (advN (j + 1) (Src.new inp)).col = -1 := by
        rw [hs1]; exact adv_col_newline _ inp[j] (inp.drop (j + 2)) (by rw [hdj, e1, e2])
      have hinp : (advN (j + 1) (Src.new inp)).inp = '\n' :: inp.drop (j + 2) := by
        rw [advN_inp]; simpa [Src.new] using e2
      have hlt : t < (advN (j + 1) (Src.new inp)).inp.length := by
        rw [hinp]; simp; omega
      rw [advN_col_plain t _ hlt (by rw [hinp]; exact hrest), hcol]; omega

/-- once the input is exhausted the position no longer changes: errors at end of input carry
the position of the last character -/
theorem position_at_end (s : Src) (k : Nat) (h : s.inp.length ≤ 1) :
    (advN k s).line = s.line ∧ (advN k s).col = s.col := by
  induction k generalizing s with
  | zero => exact ⟨rfl, rfl⟩
  | succ k ih =>
    have hadv : s.adv.line = s.line ∧ s.adv.col = s.col ∧ s.adv.inp.length ≤ 1 := by
      unfold Src.adv
      cases hs : s.inp with
      | nil => simp [hs]
      | cons c r =>
        cases r with
        | nil => simp [nextLine, nextCol]
        | cons d t => simp [hs] at h
    obtain ⟨h1, h2⟩ := ih s.adv hadv.2.2
    simp only [advN]; rw [h1, h2]; exact ⟨hadv.1, hadv.2.1⟩

/-! ### Protocol safety -/

/-- `parse_trace_wellnested`: for every input string — success or error — the calls sent to
the builder, including the clean-up `end(false)`, are `(begin edge* end)*`. -/
theorem parse_trace_wellnested (N : Num ν) (na : Nat) (stop : Option Char)
    (inp : List Char) (hc : (parse N na stop inp).closed) :
    WellNested (parse N na stop inp).trace := by
  unfold parse at hc ⊢
  obtain ⟨b, hb, hcl⟩ := loop_nest N na stop (inp.length + 1) (St.init N)
    (Src.new inp).skipWs (Or.inr rfl) (by simp [St.init]) (by simp [St.init])
  rw [hcl hc] at hb
  exact (wellNestedFrom_iff_nestState _ _).2 hb

/-- `parse_trace_prefix_safe`: no call is ever out of place — also should the arc conversion
panic (no hypothesis on `N`). -/
theorem parse_trace_prefix_safe (N : Num ν) (na : Nat) (stop : Option Char)
    (inp : List Char) : ∃ b, nestState false (parse N na stop inp).trace = some b := by
  unfold parse
  obtain ⟨b, hb, _⟩ := loop_nest N na stop (inp.length + 1) (St.init N)
    (Src.new inp).skipWs (Or.inr rfl) (by simp [St.init]) (by simp [St.init])
  exact ⟨b, hb⟩

/-! ### Path data must start with a move-to -/

/-- `missing_move_to`: if the first character that is not a separator is an ASCII letter other
than `m`/`M` (and not the stop character), the input is rejected — with `MissingMoveTo` for a
drawing/close command, `Command` for an unknown letter, at that character's position — and the
builder has not been called at all. -/
theorem missing_move_to (N : Num ν) (na : Nat) (stop : Option Char) (inp : List Char)
    (hne : (Src.new inp).skipWs.inp ≠ [])
    (hstop : stop ≠ some (Src.new inp).skipWs.cur)
    (halpha : (Src.new inp).skipWs.cur.isAlpha = true)
    (hm : (Src.new inp).skipWs.cur ≠ 'm') (hM : (Src.new inp).skipWs.cur ≠ 'M') :
    (parse N na stop inp).trace = [] ∧
    ((parse N na stop inp).outcome =
        .err (.missingMoveTo (Src.new inp).skipWs.cur (Src.new inp).skipWs.line
          (Src.new inp).skipWs.col) ∨
     (parse N na stop inp).outcome =
        .err (.command (Src.new inp).skipWs.cur (Src.new inp).skipWs.line
          (Src.new inp).skipWs.col)) := by
  generalize hs : (Src.new inp).skipWs = s at *
  unfold parse
  rw [hs, loop_succ]
  have hf : s.fin = false := by
    cases h : s.inp with
    | nil => exact absurd h hne
    | cons a r => simp [Src.fin, h]
  have hst : (stop == some s.cur) = false := by
    cases h : (stop == some s.cur)
    · rfl
    · exact absurd (by simpa using h) hstop
  simp only [hf, hst, Bool.false_eq_true, if_false]
  have hcmd : cmdOf (St.init N) s = s.cur := by simp [cmdOf, halpha]
  unfold step
  rw [hcmd]
  by_cases hd : isDrawingCmd s.cur = true
  · simp [St.init, hd, Result.trace, closing]
  · have hblk : isDrawingCmd s.cur = false := by simpa using hd
    simp only [hblk, Bool.and_false, Bool.false_eq_true, if_false]
    unfold dispatchCmd
    have hnone : edgeCmd N na s.cur (St.init N) = none := by
      cases he : edgeCmd N na s.cur (St.init N) with
      | none => rfl
      | some m => exact absurd (edgeCmd_drawing N na _ _ m he) hd
    have ha : (s.cur == 'a' || s.cur == 'A') = false := by
      cases h : (s.cur == 'a' || s.cur == 'A')
      · rfl
      · exfalso; apply hd
        rcases (by simpa using h : s.cur = 'a' ∨ s.cur = 'A') with h' | h' <;> (rw [h']; decide)
    have hz : (s.cur == 'z' || s.cur == 'Z') = false := by
      cases h : (s.cur == 'z' || s.cur == 'Z')
      · rfl
      · exfalso; apply hd
        rcases (by simpa using h : s.cur = 'z' ∨ s.cur = 'Z') with h' | h' <;> (rw [h']; decide)
    have hmm : (s.cur == 'm' || s.cur == 'M') = false := by simp [hm, hM]
    rw [hnone]
    simp [ha, hz, hmm, St.init, Result.trace, closing]

/-- the same inside the path: once a sub-path has been closed, a drawing/close command is
rejected with `MissingMoveTo` at the command's position -/
theorem missing_move_to_after_close (N : Num ν) (na : Nat) (st : St ν) (s : Src)
    (hns : st.needStart = true) (hd : isDrawingCmd (cmdOf st s) = true) :
    step N na st s =
      .fail (.missingMoveTo (cmdOf st s) s.line s.col) st.needEnd (afterCmd s) [] := by
  simp [step, hns, hd]

/-! ### Round trip -/

/-- `print_parse_roundtrip`: take any stored path — represented by the well-nested builder calls
that created it, every endpoint carrying `na` custom attributes — print it as
`impl Debug for PathSlice` does (`printCalls`, the text between the quotes) and parse the text
with `na` attributes: the parser succeeds and sends exactly the same calls (same points, same
attributes, same `close` flags) to the output builder.

Hypothesis `PrintOK` on the number printer `pn`: a printed number is accepted by
`f32::from_str`, reads back as the same value, does not start with a separator, and is a single
lexer token when followed by a space or the end of the text.  `printOK_of_debug_shape` discharges
all of it except the value law for every printer whose output has the shape
`-? D+ (. D+)? (e -? D+)?`. -/
theorem print_parse_roundtrip (N : Num ν) (pn : ν → List Char) (hp : PrintOK N pn) (na : Nat)
    (tr : List (PCall ν)) (hwn : WellNested tr) (hal : AttrsLen na tr) :
    (parse N na none (printCalls pn tr)).trace = tr ∧
    (parse N na none (printCalls pn tr)).outcome = .ok := by
  have h := loop_roundtrip N pn hp na tr false hwn hal ((printCalls pn tr).length + 1)
    (St.init N) (Src.new (printCalls pn tr)) rfl (by simp [Src.new])
    (fun h => by cases h) (fun h => ⟨rfl, rfl⟩)
  simpa [parse, St.init] using h

/-- `printOK_of_debug_shape`: what `<f32 as Debug>::fmt` prints for a finite value is
`-? D+ . D+` or `-? D (. D+)? e -? D+` (checked on every printed number by the harness' oracle
clause `roundtrip/debug-shape`); every text of the more general shape
`-? D+ (. D+)? (e -? D+)?` (ASCII digits) is accepted by `f32::from_str`, does not start with a
separator and is exactly one lexer token before a space or the end of the text.  So the only
thing the round trip assumes about the printer beyond its shape is
`parseNum (printNum x) = x`. -/
theorem printOK_of_debug_shape (N : Num ν) (pn : ν → List Char)
    (hshape : ∀ x, ∃ neg d1 f e, pn x = debugText neg d1 f e ∧ ShapeOK d1 f e)
    (hval : ∀ x, N.ofLexeme (pn x) = x) : PrintOK N pn :=
  printOK_of_debugShape N pn hshape hval

/-- the round trip with the shape hypothesis instead of `PrintOK` -/
theorem print_parse_roundtrip_debug_shape (N : Num ν) (pn : ν → List Char)
    (hshape : ∀ x, ∃ neg d1 f e, pn x = debugText neg d1 f e ∧ ShapeOK d1 f e)
    (hval : ∀ x, N.ofLexeme (pn x) = x) (na : Nat)
    (tr : List (PCall ν)) (hwn : WellNested tr) (hal : AttrsLen na tr) :
    (parse N na none (printCalls pn tr)).trace = tr ∧
    (parse N na none (printCalls pn tr)).outcome = .ok :=
  print_parse_roundtrip N pn (printOK_of_debug_shape N pn hshape hval) na tr hwn hal

/-! ### Non-vacuity -/

/-- a trivial numeric instance: all values are `()`; every arc is one quadratic segment -/
def unitNum : Num Unit where
  zero := ()
  add := fun _ _ => ()
  sub := fun _ _ => ()
  ofLexeme := fun _ => ()
  arcStraight := fun _ => false
  arc := fun _ a => some [(((), ()), ((), ()), a.attrs)]

/-- the arc hypothesis of `parse_no_panic` holds for `unitNum` -/
example : ∀ pos a, unitNum.arc pos a ≠ none := by intro pos a; simp [unitNum]

/-- the former defect witnesses are now rejected without any builder call -/
example : (parse unitNum 0 none ['L', ' ', '1', ' ', '1']).outcome =
      .err (.missingMoveTo 'L' 0 0) ∧
    (parse unitNum 0 none ['L', ' ', '1', ' ', '1']).trace = [] ∧
    (parse unitNum 0 none ['Z']).outcome = .err (.missingMoveTo 'Z' 0 0) ∧
    (parse unitNum 0 none ['H', ' ', '3']).outcome = .err (.missingMoveTo 'H' 0 0) ∧
    (parse unitNum 1 none "A1 1 0 0 0 5 5 7".toList).outcome = .err (.missingMoveTo 'A' 0 0) ∧
    (parse unitNum 0 none ['\n', 'x']).outcome = .err (.command 'x' 1 0) := by
  decide

/-- `missing_move_to`: `" L 1 1"` satisfies its hypotheses -/
example : (Src.new [' ', 'L', ' ', '1', ' ', '1']).skipWs.inp ≠ [] ∧
    (Src.new [' ', 'L', ' ', '1', ' ', '1']).skipWs.cur.isAlpha = true ∧
    (Src.new [' ', 'L', ' ', '1', ' ', '1']).skipWs.cur ≠ 'm' := by decide

/-- a successful parse with its trace; an error with an open sub-path is closed by the clean-up -/
example : (parse unitNum 0 none "M 0 0 L 1 1 Z".toList).trace =
      [.begin ((), ()) [], .line ((), ()) [], .end_ true] ∧
    (parse unitNum 0 none "M 0 0 L 1 x".toList).trace = [.begin ((), ()) [], .end_ false] ∧
    (parse unitNum 0 none "M 0 0 L 1 x".toList).outcome = .err (.number [] 0 10) := by
  decide

/-- a two-valued number type whose printer has the `{:?}` shapes: `true ↦ "1.5"`,
`false ↦ "-2e-7"` -/
def boolNum : Num Bool where
  zero := false
  add := fun a _ => a
  sub := fun a _ => a
  ofLexeme := fun l => l == ['1', '.', '5']
  arcStraight := fun _ => true
  arc := fun _ _ => some []

def boolPrint : Bool → List Char
  | true => ['1', '.', '5']
  | false => ['-', '2', 'e', '-', '7']

/-- the hypotheses of `printOK_of_debug_shape` / `print_parse_roundtrip_debug_shape` hold for it -/
theorem printOK_example : PrintOK boolNum boolPrint := by
  apply printOK_of_debug_shape
  · intro x
    cases x
    · refine ⟨true, ['2'], none, some (true, ['7']), rfl, ⟨⟨by simp, by decide⟩, ?_, ?_⟩⟩
      · intro d h; cases h
      · intro n d h; cases h; exact ⟨by simp, by decide⟩
    · refine ⟨false, ['1'], some ['5'], none, rfl, ⟨⟨by simp, by decide⟩, ?_, ?_⟩⟩
      · intro d h; cases h; exact ⟨by simp, by decide⟩
      · intro n d h; cases h
  · intro x; cases x <;> decide

/-- `print_parse_roundtrip`: a path with two sub-paths and one attribute satisfies its
hypotheses -/
example : WellNested ([.begin (true, false) [true], .line (false, false) [false], .end_ false,
      .begin (true, true) [false], .quad (false, true) (true, true) [true], .end_ true] :
      List (PCall Bool)) ∧
    AttrsLen 1 ([.begin (true, false) [true], .line (false, false) [false], .end_ false,
      .begin (true, true) [false], .quad (false, true) (true, true) [true], .end_ true] :
      List (PCall Bool)) := by
  refine ⟨by decide, ?_⟩
  intro c hc
  simp only [List.mem_cons, List.mem_nil_iff, or_false] at hc
  rcases hc with rfl | rfl | rfl | rfl | rfl | rfl <;> simp [callAttrsOK]

end Lyon.C17
