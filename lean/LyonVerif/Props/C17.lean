/-
  C17 — the path-syntax parser is total, protocol-safe and round-trips printed paths.

  All statements are about `Lyon.Parser.parse` (`Model/Parser.lean`), the function the
  correspondence check runs against `lyon_extra::parser::PathParser::parse` on every run
  (`Drive/C17.lean`, `harness/src/bin/c17.rs`).  The model mirrors the code after the two
  repairs made for this property:

  * 00996849 "fix: path parser rejects drawing commands before the first move-to"
    (`need_start` starts `true`; the `need_start` test rejects the drawing/close letters).
    Before it the model had the witnesses (proved by `decide`, now gone with the old code):
    `L 1 1` → Ok with trace `[line]`, `Z` → Ok with `[end(true)]`, `H 3` → Ok with `[line]`
    (calls outside any sub-path), and with one attribute `A1 1 0 0 0 5 5 7` → panic
    (`prev_attributes[0]` on an empty buffer); the nesting / no-panic / missing-move-to
    theorems were only provable as `_partial`.
  * c7c34442 "fix: parser Source resets the column when the input starts with a newline".
    Before it `"\nx"` reported column 1 and `position_tracks` needed the exception "a newline
    at index 0 does not reset the column".

  The theorems quantify over EVERY input `List Char`, every attribute count, every stop
  character and every instance `N : Num ν` of the numeric parameters (value of a lexeme, `+`, `-`,
  `is_straight_line`, the arc → quadratics conversion).

  Helper lemmas: `Lemmas/Parser.lean`.
-/
import LyonVerif.Lemmas.Parser

set_option linter.unusedVariables false

namespace Lyon.C17
open Lyon.Parser Lyon.Path

variable {ν : Type}

/-! ### Totality -/

/-- `parse_total`: the loop fuel `length + 1` supplied by `parse` never runs out — every
iteration of the command loop consumes a character or returns.  (The model function itself is
total by structural recursion; this says its "out of fuel" outcome is unreachable.) -/
theorem parse_total (N : Num ν) (na : Nat) (stop : Option Char) (inp : List Char) :
    (parse N na stop inp).outcome ≠ .stuck := by
  unfold parse
  apply loop_not_stuck
  · have := skipWs_len_le (Src.new inp)
    simp only [Src.len, Src.new] at this ⊢
    omega
  · simp [St.init]
  · simp [St.init]

/-- `parse_no_panic`: if the arc conversion of `lyon_geom` does not panic, neither does the
parser — for every input, attribute count and stop character. -/
theorem parse_no_panic (N : Num ν) (na : Nat) (stop : Option Char) (inp : List Char)
    (harc : ∀ pos a, N.arc pos a ≠ none) : (parse N na stop inp).outcome ≠ .panic := by
  unfold parse
  apply loop_no_panic N na stop harc
  · simp [St.init]
  · simp [St.init]
  · right; intro h; simp [St.init] at h

/-- `parse_result_shape` (result part): the parser returns `Ok` or `Err`. -/
theorem parse_result_shape (N : Num ν) (na : Nat) (stop : Option Char) (inp : List Char)
    (harc : ∀ pos a, N.arc pos a ≠ none) : (parse N na stop inp).closed := by
  have h1 := parse_total N na stop inp
  have h2 := parse_no_panic N na stop inp harc
  unfold Result.closed
  cases h : (parse N na stop inp).outcome with
  | ok => exact Or.inl rfl
  | err e => exact Or.inr ⟨e, rfl⟩
  | panic => exact absurd h h2
  | stuck => exact absurd h h1

/-! ### Error positions -/

/-- `parse_error_position`: an error carries the `line`/`col` the source had after some number
`n` of `advance_one` steps from `Source::new(input)` — i.e. the position of the `n`-th character
(the offending token's first character, or the last character at end of input).
`position_tracks` says what these two numbers are. -/
theorem parse_error_position (N : Num ν) (na : Nat) (stop : Option Char)
    (inp : List Char) (e : Err) (h : (parse N na stop inp).outcome = .err e) :
    ∃ n, e.line = (advN n (Src.new inp)).line ∧ e.col = (advN n (Src.new inp)).col := by
  unfold parse at h
  obtain ⟨t, ⟨n, rfl⟩, hl, hc⟩ :=
    ErrAt.mono (skipWs_reach (Src.new inp)) ((loop_pos N na stop _ _ _).2 e h)
  exact ⟨n, hl, hc⟩

/-- `position_tracks`: after `n` steps (`n < length`) the source stands on character `n`;
`line` = number of newlines among characters `0..n` (inclusive);
`col`  = offset since the last newline: `n` if characters `0..n` contain no newline, and `t - 1`
if the last newline, at index `j`, is followed by `t` further characters up to `n = j + t`
(the newline itself has column -1, the character after it column 0). -/
theorem position_tracks (inp : List Char) (n : Nat) (hn : n < inp.length) :
    (advN n (Src.new inp)).inp = inp.drop n ∧
    (advN n (Src.new inp)).line = nlCount (inp.take (n + 1)) ∧
    ((∀ c ∈ inp.take (n + 1), c ≠ '\n') → (advN n (Src.new inp)).col = n) ∧
    (∀ j t, j + t = n → (inp.drop j).head? = some '\n' →
      (∀ c ∈ (inp.drop (j + 1)).take t, c ≠ '\n') →
      (advN n (Src.new inp)).col = (t : Int) - 1) := by
  have hlen : n < (Src.new inp).inp.length := hn
  refine ⟨by simp [advN_inp, Src.new], ?_, ?_, ?_⟩
  · rw [advN_line n _ hlen]
    simp only [Src.new, nextLine_eq, nlCount_take_succ inp n]
    omega
  · intro h
    cases inp with
    | nil => simp at hn
    | cons c r =>
      have hc : c ≠ '\n' := h c (by simp)
      rw [advN_col_plain n _ hlen (by
        intro x hx; apply h x
        simp only [Src.new, List.tail_cons] at hx
        simp only [List.take_succ_cons]; exact List.mem_cons_of_mem _ hx)]
      simp [Src.new, startCol, hc]
  · intro j t hjt hnl hrest
    subst hjt
    cases j with
    | zero =>
      cases inp with
      | nil => simp at hn
      | cons c r =>
        simp only [List.drop_zero, List.head?_cons, Option.some.injEq] at hnl
        subst hnl
        simp only [Nat.zero_add] at hrest hlen ⊢
        rw [advN_col_plain t _ hlen (by simpa [Src.new] using hrest)]
        simp only [Src.new, startCol, beq_self_eq_true, if_true]
        omega
    | succ j =>
      rw [show j + 1 + t = (j + 1) + t from rfl, advN_add]
      have hj : j < inp.length := by omega
      have hdj : (advN j (Src.new inp)).inp = inp.drop j := by simp [advN_inp, Src.new]
      have hj1 : j + 1 < inp.length := by omega
      have e1 : inp.drop j = inp[j] :: inp.drop (j + 1) := List.drop_eq_getElem_cons hj
      have e2 : inp.drop (j + 1) = '\n' :: inp.drop (j + 2) := by
        have := List.drop_eq_getElem_cons hj1
        rw [this] at hnl ⊢
        simp only [List.head?_cons, Option.some.injEq] at hnl
        rw [hnl]
      have hs1 : (advN (j + 1) (Src.new inp)) = (advN j (Src.new inp)).adv := by
        rw [advN_add j 1]; rfl
      have hcol : (advN (j + 1) (Src.new inp)).col = -1 := by
        rw [hs1]; exact adv_col_newline _ inp[j] (inp.drop (j + 2)) (by rw [hdj, e1, e2])
      have hinp : (advN (j + 1) (Src.new inp)).inp = '\n' :: inp.drop (j + 2) := by
        rw [advN_inp]; simpa [Src.new] using e2
      have hlt : t < (advN (j + 1) (Src.new inp)).inp.length := by
        rw [hinp]; simp; omega
      rw [advN_col_plain t _ hlt (by rw [hinp]; exact hrest), hcol]; omega

/-- once the input is exhausted the position no longer changes: errors at end of input carry
the position of the last character -/
theorem position_at_end (s : Src) (k : Nat) (h : s.inp.length ≤ 1) :
    (advN k s).line = s.line ∧ (advN k s).col = s.col := by
  induction k generalizing s with
  | zero => exact ⟨rfl, rfl⟩
  | succ k ih =>
    have hadv : s.adv.line = s.line ∧ s.adv.col = s.col ∧ s.adv.inp.length ≤ 1 := by
      unfold Src.adv
      cases hs : s.inp with
      | nil => simp [hs]
      | cons c r =>
        cases r with
        | nil => simp [nextLine, nextCol]
        | cons d t => simp [hs] at h
    obtain ⟨h1, h2⟩ := ih s.adv hadv.2.2
    simp only [advN]; rw [h1, h2]; exact ⟨hadv.1, hadv.2.1⟩

/-! ### Protocol safety -/

/-- `parse_trace_wellnested`: for every input string — success or error — the calls sent to
the builder, including the clean-up `end(false)`, are `(begin edge* end)*`. -/
theorem parse_trace_wellnested (N : Num ν) (na : Nat) (stop : Option Char)
    (inp : List Char) (hc : (parse N na stop inp).closed) :
    WellNested (parse N na stop inp).trace := by
  unfold parse at hc ⊢
  obtain ⟨b, hb, hcl⟩ := loop_nest N na stop (inp.length + 1) (St.init N)
    (Src.new inp).skipWs (Or.inr rfl) (by simp [St.init]) (by simp [St.init])
  rw [hcl hc] at hb
  exact (wellNestedFrom_iff_nestState _ _).2 hb

/-- `parse_trace_prefix_safe`: no call is ever out of place — also should the arc conversion
panic (no hypothesis on `N`). -/
theorem parse_trace_prefix_safe (N : Num ν) (na : Nat) (stop : Option Char)
    (inp : List Char) : ∃ b, nestState false (parse N na stop inp).trace = some b := by
  unfold parse
  obtain ⟨b, hb, _⟩ := loop_nest N na stop (inp.length + 1) (St.init N)
    (Src.new inp).skipWs (Or.inr rfl) (by simp [St.init]) (by simp [St.init])
  exact ⟨b, hb⟩

/-! ### Path data must start with a move-to -/

/-- `missing_move_to`: if the first character that is not a separator is an ASCII letter other
than `m`/`M` (and not the stop character), the input is rejected — with `MissingMoveTo` for a
drawing/close command, `Command` for an unknown letter, at that character's position — and the
builder has not been called at all. -/
theorem missing_move_to (N : Num ν) (na : Nat) (stop : Option Char) (inp : List Char)
    (hne : (Src.new inp).skipWs.inp ≠ [])
    (hstop : stop ≠ some (Src.new inp).skipWs.cur)
    (halpha : (Src.new inp).skipWs.cur.isAlpha = true)
    (hm : (Src.new inp).skipWs.cur ≠ 'm') (hM : (Src.new inp).skipWs.cur ≠ 'M') :
    (parse N na stop inp).trace = [] ∧
    ((parse N na stop inp).outcome =
        .err (.missingMoveTo (Src.new inp).skipWs.cur (Src.new inp).skipWs.line
          (Src.new inp).skipWs.col) ∨
     (parse N na stop inp).outcome =
        .err (.command (Src.new inp).skipWs.cur (Src.new inp).skipWs.line
          (Src.new inp).skipWs.col)) := by
  generalize hs : (Src.new inp).skipWs = s at *
  unfold parse
  rw [hs, loop_succ]
  have hf : s.fin = false := by
    cases h : s.inp with
    | nil => exact absurd h hne
    | cons a r => simp [Src.fin, h]
  have hst : (stop == some s.cur) = false := by
    cases h : (stop == some s.cur)
    · rfl
    · exact absurd (by simpa using h) hstop
  simp only [hf, hst, Bool.false_eq_true, if_false]
  have hcmd : cmdOf (St.init N) s = s.cur := by simp [cmdOf, halpha]
  unfold step
  rw [hcmd]
  by_cases hd : isDrawingCmd s.cur = true
  · simp [St.init, hd, Result.trace, closing]
  · have hblk : isDrawingCmd s.cur = false := by simpa using hd
    simp only [hblk, Bool.and_false, Bool.false_eq_true, if_false]
    unfold dispatchCmd
    have hnone : edgeCmd N na s.cur (St.init N) = none := by
      cases he : edgeCmd N na s.cur (St.init N) with
      | none => rfl
      | some m => exact absurd (edgeCmd_drawing N na _ _ m he) hd
    have ha : (s.cur == 'a' || s.cur == 'A') = false := by
      cases h : (s.cur == 'a' || s.cur == 'A')
      · rfl
      · exfalso; apply hd
        rcases (by simpa using h : s.cur = 'a' ∨ s.cur = 'A') with h' | h' <;> (rw [h']; decide)
    have hz : (s.cur == 'z' || s.cur == 'Z') = false := by
      cases h : (s.cur == 'z' || s.cur == 'Z')
      · rfl
      · exfalso; apply hd
        rcases (by simpa using h : s.cur = 'z' ∨ s.cur = 'Z') with h' | h' <;> (rw [h']; decide)
    have hmm : (s.cur == 'm' || s.cur == 'M') = false := by simp [hm, hM]
    rw [hnone]
    simp [ha, hz, hmm, St.init, Result.trace, closing]

/-- the same inside the path: once a sub-path has been closed, a drawing/close command is
rejected with `MissingMoveTo` at the command's position -/
theorem missing_move_to_after_close (N : Num ν) (na : Nat) (st : St ν) (s : Src)
    (hns : st.needStart = true) (hd : isDrawingCmd (cmdOf st s) = true) :
    step N na st s =
      .fail (.missingMoveTo (cmdOf st s) s.line s.col) st.needEnd (afterCmd s) [] := by
  simp [step, hns, hd]

/-! ### Round trip -/

/-- `print_is_parseable` — the structural half of the round trip, with NO hypothesis on numeric
values: if printed numbers are tokens (`TokenOK`: accepted by `f32::from_str`, not starting
with a separator, one lexer token before a space / the end), then for every well-nested call
list with `na` attributes per endpoint the text `impl Debug for PathSlice` prints is accepted by
`parse` (result `Ok`), and the calls it sends are the original calls with every number replaced
by the value read back from its printed form (`rvCall`): same commands, same structure, same
`close` flags. -/
theorem print_is_parseable (N : Num ν) (pn : ν → List Char) (ht : TokenOK pn) (na : Nat)
    (tr : List (PCall ν)) (hwn : WellNested tr) (hal : AttrsLen na tr) :
    (parse N na none (printCalls pn tr)).outcome = .ok ∧
    (parse N na none (printCalls pn tr)).trace = tr.map (rvCall N pn) := by
  have h := loop_print_parse N pn ht na tr false hwn hal ((printCalls pn tr).length + 1)
    (St.init N) (Src.new (printCalls pn tr)) rfl (by simp [Src.new])
    (fun h => by cases h) (fun h => ⟨rfl, rfl⟩)
  have h' : (parse N na none (printCalls pn tr)).trace = tr.map (rvCall N pn) ∧
      (parse N na none (printCalls pn tr)).outcome = .ok := by
    simpa [parse, St.init] using h
  exact ⟨h'.2, h'.1⟩

/-- `print_is_parseable` for every printer with the `{:?}` number shape
`-? D+ (. D+)? (e -? D+)?` — no other hypothesis. -/
theorem print_is_parseable_debug_shape (N : Num ν) (pn : ν → List Char)
    (hshape : ∀ x, ∃ neg d1 f e, pn x = debugText neg d1 f e ∧ ShapeOK d1 f e) (na : Nat)
    (tr : List (PCall ν)) (hwn : WellNested tr) (hal : AttrsLen na tr) :
    (parse N na none (printCalls pn tr)).outcome = .ok :=
  (print_is_parseable N pn (tokenOK_of_debugShape pn hshape) na tr hwn hal).1

/-- `print_parse_roundtrip`: take any stored path — represented by the well-nested builder calls
that created it, every endpoint carrying `na` custom attributes — print it as
`impl Debug for PathSlice` does (`printCalls`, the text between the quotes) and parse the text
with `na` attributes: the parser succeeds and sends exactly the same calls (same points, same
attributes, same `close` flags) to the output builder.

Hypothesis `PrintOK` on the number printer `pn`: a printed number is accepted by
`f32::from_str`, reads back as the same value, does not start with a separator, and is a single
lexer token when followed by a space or the end of the text.  `printOK_of_debug_shape` discharges
all of it except the value law for every printer whose output has the shape
`-? D+ (. D+)? (e -? D+)?`. -/
theorem print_parse_roundtrip (N : Num ν) (pn : ν → List Char) (hp : PrintOK N pn) (na : Nat)
    (tr : List (PCall ν)) (hwn : WellNested tr) (hal : AttrsLen na tr) :
    (parse N na none (printCalls pn tr)).trace = tr ∧
    (parse N na none (printCalls pn tr)).outcome = .ok := by
  have h := loop_roundtrip N pn hp na tr false hwn hal ((printCalls pn tr).length + 1)
    (St.init N) (Src.new (printCalls pn tr)) rfl (by simp [Src.new])
    (fun h => by cases h) (fun h => ⟨rfl, rfl⟩)
  simpa [parse, St.init] using h

/-- `printOK_of_debug_shape`: what `<f32 as Debug>::fmt` prints for a finite value is
`-? D+ . D+` or `-? D (. D+)? e -? D+` (checked on every printed number by the harness' oracle
clause `roundtrip/debug-shape`); every text of the more general shape
`-? D+ (. D+)? (e -? D+)?` (ASCII digits) is accepted by `f32::from_str`, does not start with a
separator and is exactly one lexer token before a space or the end of the text.  So the only
thing the round trip assumes about the printer beyond its shape is
`parseNum (printNum x) = x`. -/
theorem printOK_of_debug_shape (N : Num ν) (pn : ν → List Char)
    (hshape : ∀ x, ∃ neg d1 f e, pn x = debugText neg d1 f e ∧ ShapeOK d1 f e)
    (hval : ∀ x, N.ofLexeme (pn x) = x) : PrintOK N pn :=
  printOK_of_debugShape N pn hshape hval

/-- the round trip with the shape hypothesis instead of `PrintOK` -/
theorem print_parse_roundtrip_debug_shape (N : Num ν) (pn : ν → List Char)
    (hshape : ∀ x, ∃ neg d1 f e, pn x = debugText neg d1 f e ∧ ShapeOK d1 f e)
    (hval : ∀ x, N.ofLexeme (pn x) = x) (na : Nat)
    (tr : List (PCall ν)) (hwn : WellNested tr) (hal : AttrsLen na tr) :
    (parse N na none (printCalls pn tr)).trace = tr ∧
    (parse N na none (printCalls pn tr)).outcome = .ok :=
  print_parse_roundtrip N pn (printOK_of_debug_shape N pn hshape hval) na tr hwn hal

/-! ### The command automaton: implicit repetition, relative coordinates, smooth curves -/

/-- `implicit_command_rule`: the command of an iteration is the current character if it is an
ASCII letter, otherwise the implicit command; after an iteration with command `cmd` that
completes, the implicit command is `l` after `m`, `L` after `M`, `m` after `z`, `M` after `Z`,
and `cmd` itself otherwise (so `M 0 0 1 1 2 2` continues with implicit `L`, `m … ` with `l`,
and any other command repeats).  The parse starts with implicit `M`. -/
theorem implicit_command_rule (N : Num ν) (na : Nat) (st st' : St ν) (s s' : Src)
    (em : List (Emit ν)) (h : step N na st s = .cont st' s' em) :
    cmdOf st s = (if s.cur.isAlpha then s.cur else st.implicit) ∧
    st'.implicit = nextImplicit (cmdOf st s) ∧
    nextImplicit 'm' = 'l' ∧ nextImplicit 'M' = 'L' ∧ nextImplicit 'z' = 'm' ∧
    nextImplicit 'Z' = 'M' ∧
    (∀ c, c ≠ 'm' → c ≠ 'M' → c ≠ 'z' → c ≠ 'Z' → nextImplicit c = c) ∧
    (St.init N).implicit = 'M' := by
  have hk := step_keeps N na st s
  rw [h] at hk
  refine ⟨rfl, hk.1, by decide, by decide, by decide, by decide, ?_, rfl⟩
  intro c h1 h2 h3 h4
  simp [nextImplicit, h1, h2, h3, h4]

/-- relative commands add the current position (`current_position` before the command) to each
coordinate pair; absolute commands do not -/
theorem relative_rule (N : Num ν) (cur : Pt ν) (x y : ν) :
    relX N true cur x = N.add x cur.1 ∧ relY N true cur y = N.add y cur.2 ∧
    relX N false cur x = x ∧ relY N false cur y = y := ⟨rfl, rfl, rfl, rfl⟩

/-- `parser_smooth_reflects` (the SVG rule, mirror of C15's): `S`/`s` draws a cubic whose first
control point is the reflection `cur + (cur - prev)` of the remembered second control point
about the current position, or the current position itself if nothing is remembered; it then
remembers its own second control point. -/
theorem parser_smooth_reflects (N : Num ν) (na : Nat) (st st' : St ν) (s s' : Src)
    (em : List (Emit ν)) (hc : cmdOf st s = 'S' ∨ cmdOf st s = 's')
    (h : step N na st s = .cont st' s' em) :
    (∃ c2 p a, em.map Prod.snd = [.cubic (smoothCtrl N st.cur st.prevCubic) c2 p a] ∧
      st'.prevCubic = some c2 ∧ st'.cur = p) ∧
    (∀ cur k : Pt ν, smoothCtrl N cur (some k) =
      (N.add cur.1 (N.sub cur.1 k.1), N.add cur.2 (N.sub cur.2 k.2))) ∧
    (∀ cur : Pt ν, smoothCtrl N cur none = cur) := by
  refine ⟨?_, fun _ _ => rfl, fun _ => rfl⟩
  rcases hc with hc | hc
  · have hm : edgeCmd N na (cmdOf st s) st = some (cmdS N na false st) := by
      rw [hc]; simp [edgeCmd]
    obtain ⟨o, ho, hem, hst⟩ := step_edge_inv N na st st' s s' em _ hm h
    obtain ⟨c2, p, a, h1, h2, h3⟩ := cmdS_inv N na _ st _ _ _ ho
    exact ⟨c2, p, a, by rw [hem, h1], by rw [hst, hc]; simp [St.after, isCubicCmd, h2],
      by rw [hst]; simp [St.after, h3]⟩
  · have hm : edgeCmd N na (cmdOf st s) st = some (cmdS N na true st) := by
      rw [hc]; simp [edgeCmd]
    obtain ⟨o, ho, hem, hst⟩ := step_edge_inv N na st st' s s' em _ hm h
    obtain ⟨c2, p, a, h1, h2, h3⟩ := cmdS_inv N na _ st _ _ _ ho
    exact ⟨c2, p, a, by rw [hem, h1], by rw [hst, hc]; simp [St.after, isCubicCmd, h2],
      by rw [hst]; simp [St.after, h3]⟩

/-- the same for `T`/`t` and quadratic curves; the remembered point is the reflected control
point itself -/
theorem parser_smooth_quad_reflects (N : Num ν) (na : Nat) (st st' : St ν) (s s' : Src)
    (em : List (Emit ν)) (hc : cmdOf st s = 'T' ∨ cmdOf st s = 't')
    (h : step N na st s = .cont st' s' em) :
    ∃ p a, em.map Prod.snd = [.quad (smoothCtrl N st.cur st.prevQuad) p a] ∧
      st'.prevQuad = some (smoothCtrl N st.cur st.prevQuad) ∧ st'.cur = p := by
  rcases hc with hc | hc
  · have hm : edgeCmd N na (cmdOf st s) st = some (cmdT N na false st) := by
      rw [hc]; simp [edgeCmd]
    obtain ⟨o, ho, hem, hst⟩ := step_edge_inv N na st st' s s' em _ hm h
    obtain ⟨p, a, h1, h2, h3⟩ := cmdT_inv N na _ st _ _ _ ho
    exact ⟨p, a, by rw [hem, h1], by rw [hst, hc]; simp [St.after, isQuadCmd, h2],
      by rw [hst]; simp [St.after, h3]⟩
  · have hm : edgeCmd N na (cmdOf st s) st = some (cmdT N na true st) := by
      rw [hc]; simp [edgeCmd]
    obtain ⟨o, ho, hem, hst⟩ := step_edge_inv N na st st' s s' em _ hm h
    obtain ⟨p, a, h1, h2, h3⟩ := cmdT_inv N na _ st _ _ _ ho
    exact ⟨p, a, by rw [hem, h1], by rw [hst, hc]; simp [St.after, isQuadCmd, h2],
      by rw [hst]; simp [St.after, h3]⟩

/-- what is remembered: `C`/`c` remembers its second control point, `Q`/`q` its control point -/
theorem parser_ctrl_recorded (N : Num ν) (na : Nat) (st st' : St ν) (s s' : Src)
    (em : List (Emit ν)) (h : step N na st s = .cont st' s' em) :
    ((cmdOf st s = 'C' ∨ cmdOf st s = 'c') →
      ∃ c1 c2 p a, em.map Prod.snd = [.cubic c1 c2 p a] ∧ st'.prevCubic = some c2 ∧
        st'.cur = p) ∧
    ((cmdOf st s = 'Q' ∨ cmdOf st s = 'q') →
      ∃ c p a, em.map Prod.snd = [.quad c p a] ∧ st'.prevQuad = some c ∧ st'.cur = p) := by
  constructor
  · intro hc
    have hm : ∃ rel, edgeCmd N na (cmdOf st s) st = some (cmdC N na rel st) := by
      rcases hc with hc | hc <;> (rw [hc]; simp [edgeCmd])
    obtain ⟨rel, hm⟩ := hm
    obtain ⟨o, ho, hem, hst⟩ := step_edge_inv N na st st' s s' em _ hm h
    obtain ⟨c1, c2, p, a, h1, h2, h3⟩ := cmdC_inv N na _ st _ _ _ ho
    refine ⟨c1, c2, p, a, by rw [hem, h1], ?_, by rw [hst]; simp [St.after, h3]⟩
    rcases hc with hc | hc <;> (rw [hst, hc]; simp [St.after, isCubicCmd, h2])
  · intro hc
    have hm : ∃ rel, edgeCmd N na (cmdOf st s) st = some (cmdQ N na rel st) := by
      rcases hc with hc | hc <;> (rw [hc]; simp [edgeCmd])
    obtain ⟨rel, hm⟩ := hm
    obtain ⟨o, ho, hem, hst⟩ := step_edge_inv N na st st' s s' em _ hm h
    obtain ⟨c, p, a, h1, h2, h3⟩ := cmdQ_inv N na _ st _ _ _ ho
    refine ⟨c, p, a, by rw [hem, h1], ?_, by rw [hst]; simp [St.after, h3]⟩
    rcases hc with hc | hc <;> (rw [hst, hc]; simp [St.after, isQuadCmd, h2])

/-- … and what is forgotten: any command other than `C c S s` clears the remembered cubic control
point, any command other than `Q q T t` the quadratic one (so a smooth command after anything
else — a line, an arc, a move-to, a curve of the other degree — starts at the current
position). -/
theorem parser_ctrl_forgotten (N : Num ν) (na : Nat) (st st' : St ν) (s s' : Src)
    (em : List (Emit ν)) (h : step N na st s = .cont st' s' em) :
    (isCubicCmd (cmdOf st s) = false → st'.prevCubic = none) ∧
    (isQuadCmd (cmdOf st s) = false → st'.prevQuad = none) := by
  have hk := step_keeps N na st s
  rw [h] at hk
  exact hk.2

/-! ### Non-vacuity -/

/-- a trivial numeric instance: all values are `()`; every arc is one quadratic segment -/
def unitNum : Num Unit where
  zero := ()
  one := ()
  add := fun _ _ => ()
  sub := fun _ _ => ()
  mul := fun _ _ => ()
  ofLexeme := fun _ => ()
  arcStraight := fun _ => false
  arc := fun _ _ => some [(((), ()), ((), ()), ())]

/-- the arc hypothesis of `parse_no_panic` holds for `unitNum` -/
example : ∀ pos a, unitNum.arc pos a ≠ none := by intro pos a; simp [unitNum]

/-- the former defect witnesses are now rejected without any builder call -/
example : (parse unitNum 0 none ['L', ' ', '1', ' ', '1']).outcome =
      .err (.missingMoveTo 'L' 0 0) ∧
    (parse unitNum 0 none ['L', ' ', '1', ' ', '1']).trace = [] ∧
    (parse unitNum 0 none ['Z']).outcome = .err (.missingMoveTo 'Z' 0 0) ∧
    (parse unitNum 0 none ['H', ' ', '3']).outcome = .err (.missingMoveTo 'H' 0 0) ∧
    (parse unitNum 1 none "A1 1 0 0 0 5 5 7".toList).outcome = .err (.missingMoveTo 'A' 0 0) ∧
    (parse unitNum 0 none ['\n', 'x']).outcome = .err (.command 'x' 1 0) := by
  decide

/-- `missing_move_to`: `" L 1 1"` satisfies its hypotheses -/
example : (Src.new [' ', 'L', ' ', '1', ' ', '1']).skipWs.inp ≠ [] ∧
    (Src.new [' ', 'L', ' ', '1', ' ', '1']).skipWs.cur.isAlpha = true ∧
    (Src.new [' ', 'L', ' ', '1', ' ', '1']).skipWs.cur ≠ 'm' := by decide

/-- a successful parse with its trace; an error with an open sub-path is closed by the clean-up -/
example : (parse unitNum 0 none "M 0 0 L 1 1 Z".toList).trace =
      [.begin ((), ()) [], .line ((), ()) [], .end_ true] ∧
    (parse unitNum 0 none "M 0 0 L 1 x".toList).trace = [.begin ((), ()) [], .end_ false] ∧
    (parse unitNum 0 none "M 0 0 L 1 x".toList).outcome = .err (.number [] 0 10) := by
  decide

/-- integer-valued numbers (digits before any `.`/`e` only): enough to watch the automaton -/
def intOfLexeme (l : List Char) : Int :=
  if l.head? = some '-' then
    -(((l.drop 1).takeWhile Char.isDigit).foldl (fun a c => a * 10 + (c.toNat - 48)) 0 : Nat)
  else ((l.takeWhile Char.isDigit).foldl (fun a c => a * 10 + (c.toNat - 48)) 0 : Nat)

def intNum : Num Int where
  zero := 0
  one := 1
  add := (· + ·)
  sub := (· - ·)
  mul := (· * ·)
  ofLexeme := intOfLexeme
  arcStraight := fun _ => true
  arc := fun _ _ => some []

/-- implicit repetition (`M` then implicit `L`; `m` then implicit relative `l`), relative
coordinates, `H`/`V`, close returning to the sub-path start, smooth reflection:
`S` after `C 1 2 3 4 5 6` starts at `(5,6) + ((5,6) - (3,4)) = (7,8)`; `T` after a line starts at
the current point; a second `T` reflects the first one's control point. -/
example :
    (parse intNum 0 none "M 0 0 1 1 2 2".toList).trace =
      [.begin (0, 0) [], .line (1, 1) [], .line (2, 2) [], .end_ false] ∧
    (parse intNum 0 none "m 1 1 2 2 3 3".toList).trace =
      [.begin (1, 1) [], .line (3, 3) [], .line (6, 6) [], .end_ false] ∧
    (parse intNum 1 none "M 5 5 9 h 2 8 V 1 7 z l 1 1 6".toList).outcome =
      .err (.missingMoveTo 'l' 0 22) ∧
    (parse intNum 1 none "M 5 5 9 h 2 8 V 1 7 z".toList).trace =
      [.begin (5, 5) [9], .line (7, 5) [8], .line (7, 1) [7], .end_ true] ∧
    (parse intNum 0 none "M0 0C1 2 3 4 5 6S9 9 10 10".toList).trace =
      [.begin (0, 0) [], .cubic (1, 2) (3, 4) (5, 6) [], .cubic (7, 8) (9, 9) (10, 10) [],
       .end_ false] ∧
    (parse intNum 0 none "M0 0L4 4T6 4T8 4".toList).trace =
      [.begin (0, 0) [], .line (4, 4) [], .quad (4, 4) (6, 4) [], .quad (8, 4) (8, 4) [],
       .end_ false] := by
  decide

/-- a two-valued number type whose printer has the `{:?}` shapes: `true ↦ "1.5"`,
`false ↦ "-2e-7"` -/
def boolNum : Num Bool where
  zero := false
  one := true
  add := fun a _ => a
  sub := fun a _ => a
  mul := fun a _ => a
  ofLexeme := fun l => l == ['1', '.', '5']
  arcStraight := fun _ => true
  arc := fun _ _ => some []

def boolPrint : Bool → List Char
  | true => ['1', '.', '5']
  | false => ['-', '2', 'e', '-', '7']

/-- the hypotheses of `printOK_of_debug_shape` / `print_parse_roundtrip_debug_shape` hold for it -/
theorem printOK_example : PrintOK boolNum boolPrint := by
  apply printOK_of_debug_shape
  · intro x
    cases x
    · refine ⟨true, ['2'], none, some (true, ['7']), rfl, ⟨⟨by simp, by decide⟩, ?_, ?_⟩⟩
      · intro d h; cases h
      · intro n d h; cases h; exact ⟨by simp, by decide⟩
    · refine ⟨false, ['1'], some ['5'], none, rfl, ⟨⟨by simp, by decide⟩, ?_, ?_⟩⟩
      · intro d h; cases h; exact ⟨by simp, by decide⟩
      · intro n d h; cases h
  · intro x; cases x <;> decide

/-- `print_parse_roundtrip`: a path with two sub-paths and one attribute satisfies its
hypotheses -/
example : WellNested ([.begin (true, false) [true], .line (false, false) [false], .end_ false,
      .begin (true, true) [false], .quad (false, true) (true, true) [true], .end_ true] :
      List (PCall Bool)) ∧
    AttrsLen 1 ([.begin (true, false) [true], .line (false, false) [false], .end_ false,
      .begin (true, true) [false], .quad (false, true) (true, true) [true], .end_ true] :
      List (PCall Bool)) := by
  refine ⟨by decide, ?_⟩
  intro c hc
  simp only [List.mem_cons, List.mem_nil_iff, or_false] at hc
  rcases hc with rfl | rfl | rfl | rfl | rfl | rfl <;> simp [callAttrsOK]

end Lyon.C17
