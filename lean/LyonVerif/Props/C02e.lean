/-
  C02 (part e) — `C02d.fill_triangles_independent_of_prior_contents` and
  `C02d.fill_beyond_index_range_refused` for the MODELLED SWEEP: the request sequence is no longer a
  hypothesis but what `Model/Tess/Sweep.lean` (tied bit for bit to fill.rs by C01's `sweep:32`)
  emits for the input, for every input, entry point, fill rule and orientation.
-/
import LyonVerif.Props.C02d
import LyonVerif.Props.SweepIdx

set_option linter.unusedSectionVars false
set_option linter.unusedVariables false

namespace Lyon.C02e
open Lyon Lyon.Scalar Lyon.Mono Lyon.Sweep Lyon.EQ Lyon.Tess Lyon.SweepIdx

variable {α : Type} [Scalar α] [Wide α]

/-- **The triangles of a fill, as resolved through the caller's buffers, do not depend on what the
buffers held before** — for the modelled sweep, every index configuration and every prior contents
that leave room for the fill's vertices: success, prior contents untouched, every new stored index
names a vertex of this fill, resolved triangle list equal to that of the fill into empty buffers. -/
theorem sweep_fill_triangles_independent_of_prior_contents (B : Buffers) (cfg : IdxCfg) (entry : Entry)
    (rule : Slab.Rule) (horizontal : Bool) (tol : α) (handleIx : Bool) (subs : List (SubPath α))
    (hfit : B.vertices.length + nVerts (tessellate entry rule horizontal tol handleIx subs).2.1.toList ≤ cfg.max)
    (hm1 : cfg.max ≤ cfg.modulus) (hm2 : cfg.max ≤ idxMod) :
    let core := toReqs (tessellate entry rule horizontal tol handleIx subs).2.1
    let o0 := Tess.tessellateImpl bbSink true core none (BB.new ⟨[], []⟩ cfg)
    let oB := Tess.tessellateImpl bbSink true core none (BB.new B cfg)
    oB.result = none ∧
    oB.st.buf.vertices.take B.vertices.length = B.vertices ∧
    oB.st.buf.indices.take B.indices.length = B.indices ∧
    (∀ i ∈ oB.st.buf.indices.drop B.indices.length, B.vertices.length ≤ i ∧ i < oB.st.buf.vertices.length) ∧
    C02d.resolved oB.st.buf.vertices (oB.st.buf.indices.drop B.indices.length)
      = C02d.resolved o0.st.buf.vertices o0.st.buf.indices :=
  C02d.fill_triangles_independent_of_prior_contents B cfg _
    (sweep_protocol_indices entry rule horizontal tol handleIx subs)
    (by rw [toReqs, nVerts_toReqsFrom]; exact hfit) hm1 hm2

/-- **… and a fill of the modelled sweep that would pass the index range is refused as a whole.** -/
theorem sweep_fill_beyond_index_range_refused (B : Buffers) (cfg : IdxCfg) (entry : Entry)
    (rule : Slab.Rule) (horizontal : Bool) (tol : α) (handleIx : Bool) (subs : List (SubPath α))
    (hB : B.vertices.length ≤ cfg.max) (hm2 : cfg.max < idxMod) (hi : B.indices.length < idxMod)
    (hover : B.vertices.length + nVerts (tessellate entry rule horizontal tol handleIx subs).2.1.toList > cfg.max) :
    let oB := Tess.tessellateImpl bbSink true (toReqs (tessellate entry rule horizontal tol handleIx subs).2.1) none
      (BB.new B cfg)
    oB.result = some (.geometryBuilder .tooManyVertices) ∧ oB.st.buf = B :=
  C02d.fill_beyond_index_range_refused B cfg _ hB hm2 hi
    (by rw [toReqs, nVerts_toReqsFrom]; exact hover)

/-- a concave polygon through the `FillBuilder` into u16 buffers that hold three vertices and a
triangle: the hypotheses hold and the conclusion is what the kernel computes -/
example :
    let r := tessellate .builder .nonZero false (⟨1⟩ : Z) true [([pz 0 0, pz 40 0, pz 40 40, pz 20 10, pz 0 40], true)]
    let B : Buffers := ⟨[7, 7, 7], [1, 0, 2]⟩
    B.vertices.length + nVerts r.2.1.toList ≤ IndexTy.u16.cfg.max ∧
    (Tess.tessellateImpl bbSink true (toReqs r.2.1) none (BB.new B IndexTy.u16.cfg)).result = none ∧
    ((Tess.tessellateImpl bbSink true (toReqs r.2.1) none (BB.new B IndexTy.u16.cfg)).st.buf.indices.drop 3).all (· ≥ 3) = true := by
  decide +kernel

end Lyon.C02e
