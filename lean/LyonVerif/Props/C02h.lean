/-
  C02 (growth 5) — the ADVANCED monotone tessellator tiles the monotone piece on EVERY valid sweep
  sequence: the general-position hypothesis `NoCollinear` of `Props/C02g.lean` is removed.

  What changes without general position (`Lemmas/MonotoneTileAdvAll{Fan,Gen,FF,Run}.lean`):
  * a buffered chain is only WEAKLY convex (`outward_turn` lets `cross = 0` through): `flush_side`'s fan
    may contain zero-area triangles — empty open tiles that leave the chain polygon unchanged
    (`flat_tiles_op` for the ears at the odd multiples, `tail_stepW` for the left-over triangle whose
    chord runs through the cut vertex); the closed tiles of the covering clause are the non-degenerate
    ones (`TriInCN`), so that a covered point still inherits strict half-plane tests from its tile;
  * a non-degenerate ear or fan triangle may have vertices ON a chord (`ChordClear` is a weak condition):
    its interior is still strictly on its side — three points on a line are collinear
    (`wind_of_on_line`, `inTriS_side_weak`);
  * the inner tessellator may pop a degenerate ear (`pop_tilesW`) and fan over a stack with vertices on
    the chord `bot → cur` (`FanLeT` instead of `FanPosT`: `fan_tilesW`, `fan_step_tilesW`; a degenerate
    top fan triangle still covers the diagonal it lies on).

  * `flush_fan_is_ear_sequence_all` — the doubling loop tiles the chain polygon of any strictly sorted,
    weakly convex chain;
  * `adv_triangles_inside_all`, `adv_triangles_disjoint_all`, `adv_triangles_cover_all`;
  * `adv_tiling_all` — on every valid sweep sequence with `n` boundary vertices the advanced tessellator
    emits exactly `n − 2` triangles on distinct fed vertices, each inside the polygon, pairwise
    interior-disjoint, together covering the interior, with areas adding up exactly to the polygon's
    area: the statement of `basic_tiling` for the tessellator `FillTessellator` uses (exact arithmetic).
-/
import LyonVerif.Lemmas.MonotoneTileAdvAllRun

set_option linter.unusedSectionVars false
set_option linter.unusedVariables false

namespace Lyon.C02h
open Lyon Lyon.Mono Lyon.C02 Lyon.C02c Lyon.C02f

section Geometry
variable {K : Type} [Field K] [LinearOrder K] [IsStrictOrderedRing K]

/-- **`flush_side`'s fan tiles the chain polygon of every strictly sorted, WEAKLY convex chain** (the
chain polygon taken closed on its chord side; the covering tiles are non-degenerate) -/
theorem flush_fan_is_ear_sequence_all (pos : Nat → P K) (ev : Array Nat) (right : Bool) (len : Nat) (hl : 1 ≤ len)
    (hsort : ∀ a b, a < b → b < len → After (pos (ev.getD b 0)) (pos (ev.getD a 0)))
    (hconv : ∀ a b d, a < b → b < d → d < len →
      0 ≤ sg (!right) * wind (pos (ev.getD a 0)) (pos (ev.getD b 0)) (pos (ev.getD d 0))) :
    (∀ t ∈ flushLevels ev len right (len + 1) 1, ∀ q, TriIn pos t q →
      ChainIn (!right) ((List.range len).map (fun i => pos (ev.getD i 0))) q ∧
        CSide (!right) (pos (ev.getD 0 0)) (pos (ev.getD (len - 1) 0)) q) ∧
    (flushLevels ev len right (len + 1) 1).Pairwise (fun t t' => ∀ q, ¬ (TriIn pos t q ∧ TriIn pos t' q)) ∧
    (∀ q, ChainIn (!right) ((List.range len).map (fun i => pos (ev.getD i 0))) q →
      CSide (!right) (pos (ev.getD 0 0)) (pos (ev.getD (len - 1) 0)) q →
      ∃ t ∈ flushLevels ev len right (len + 1) 1, TriInC pos t q ∧ 0 < triW pos t) := by
  have t := flush_fan_tilesW pos ev right len hl ⟨hsort, hconv⟩
  refine ⟨t.inside, t.disj, ?_⟩
  intro q h1 h2
  rcases t.cover q ⟨h1, h2⟩ with g | g
  · exact absurd g id
  · exact g

/-- **(a)** every triangle of the advanced tessellator lies inside the polygon — every valid sweep sequence -/
theorem adv_triangles_inside_all (seq : List (P K × Bool)) (h : 2 ≤ seq.length) (hval : SweepValid seq) :
    ∀ t ∈ Adv.run seq, ∀ q, TriIn (posOf seq) t q → InsidePoly seq q := by
  obtain ⟨_, t, _⟩ := adv_run_tilesW seq h hval
  exact t.inside

/-- **(b)** the triangles of the advanced tessellator are pairwise interior-disjoint -/
theorem adv_triangles_disjoint_all (seq : List (P K × Bool)) (h : 2 ≤ seq.length) (hval : SweepValid seq) :
    (Adv.run seq).Pairwise (fun t t' => ∀ q, ¬ (TriIn (posOf seq) t q ∧ TriIn (posOf seq) t' q)) := by
  obtain ⟨_, t, _⟩ := adv_run_tilesW seq h hval
  exact t.disj

/-- **(c)** every point strictly inside the polygon lies in a closed triangle of the advanced tessellator -/
theorem adv_triangles_cover_all (seq : List (P K × Bool)) (h : 2 ≤ seq.length) (hval : SweepValid seq) :
    ∀ q, InsidePoly seq q → ∃ t ∈ Adv.run seq, TriInC (posOf seq) t q := by
  obtain ⟨R', t, hemp⟩ := adv_run_tilesW seq h hval
  intro q hq
  rcases t.cover q hq with g | g
  · exact absurd g (hemp q)
  · exact g

/-- **the advanced monotone tessellator tiles the monotone piece** on every valid sweep sequence (C02,
second sentence, for `AdvancedMonotoneTessellator` in exact arithmetic): `n − 2` triangles on three
distinct fed vertices each, each lying inside the polygon, pairwise interior-disjoint, together covering
the polygon's interior, with areas adding up exactly to the polygon's area. -/
theorem adv_tiling_all (seq : List (P K × Bool)) (h : 2 ≤ seq.length) (hval : SweepValid seq) :
    (Adv.run seq).length = seq.length - 2 ∧
    (∀ t ∈ Adv.run seq, TriDistinct t ∧ ∀ q, TriIn (posOf seq) t q → InsidePoly seq q) ∧
    (Adv.run seq).Pairwise (fun t t' => ∀ q, ¬ (TriIn (posOf seq) t q ∧ TriIn (posOf seq) t' q)) ∧
    (∀ q, InsidePoly seq q → ∃ t ∈ Adv.run seq, TriInC (posOf seq) t q) ∧
    sumW (posOf seq) (Adv.run seq) = shoelaceW (polygonOf seq) :=
  ⟨(run_spec seq).1 h,
   fun t ht => ⟨(run_spec seq).2 t ht, adv_triangles_inside_all seq h hval t ht⟩,
   adv_triangles_disjoint_all seq h hval, adv_triangles_cover_all seq h hval, adv_run_area_eq seq h hval⟩

end Geometry

/-! ### non-vacuity over ℚ -/

section Examples

/-- a valid sweep sequence that is NOT in general position and on which the advanced tessellator buffers
the collinear left chain `1, 3, 5` as one chain of three ids: `end` flushes it into the zero-area fan
triangle `(1, 3, 5)` -/
def exE : List (P ℚ × Bool) :=
  [(⟨0, 0⟩, true), (⟨-10, 1⟩, true), (⟨10, 2⟩, false), (⟨-12, 3⟩, true), (⟨11, 4⟩, false), (⟨-14, 5⟩, true),
   (⟨0, 7⟩, true)]

example : 2 ≤ exE.length ∧ SweepValid exE ∧ ¬ NoCollinear exE := by decide +kernel

example : (advState exE 5).left.events = [1, 3, 5] ∧ (1, 3, 5) ∈ Adv.run exE ∧
    triW (posOf exE) (1, 3, 5) = 0 := by decide +kernel

/-- a weakly convex chain with three collinear points: the hypotheses of `flush_fan_is_ear_sequence_all` -/
def flatChain (i : Nat) : P ℚ := ⟨-(if i < 3 then 2 * (i : ℚ) else 4 + ((i : ℚ) - 2)), i⟩

example : (∀ a b, a < b → b < 5 → After (flatChain (#[0, 1, 2, 3, 4].getD b 0)) (flatChain (#[0, 1, 2, 3, 4].getD a 0))) ∧
    (∀ a b d, a < b → b < d → d < 5 → 0 ≤ sg (!false) * wind (flatChain (#[0, 1, 2, 3, 4].getD a 0))
      (flatChain (#[0, 1, 2, 3, 4].getD b 0)) (flatChain (#[0, 1, 2, 3, 4].getD d 0))) ∧
    wind (flatChain 0) (flatChain 1) (flatChain 2) = 0 := by
  have h1 : ∀ b, b < 5 → ∀ a, a < b → After (flatChain (#[0, 1, 2, 3, 4].getD b 0)) (flatChain (#[0, 1, 2, 3, 4].getD a 0)) := by
    decide +kernel
  have h2 : ∀ d, d < 5 → ∀ b, b < d → ∀ a, a < b → 0 ≤ sg (!false) * wind (flatChain (#[0, 1, 2, 3, 4].getD a 0))
      (flatChain (#[0, 1, 2, 3, 4].getD b 0)) (flatChain (#[0, 1, 2, 3, 4].getD d 0)) := by
    decide +kernel
  exact ⟨fun a b hab hb => h1 b hb a hab, fun a b d hab hbd hd => h2 d hd b hbd a hab, by decide +kernel⟩

end Examples

end Lyon.C02h
