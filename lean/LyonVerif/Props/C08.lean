/-
  C08 — tessellators carry no state from one call to the next.

  The theorems are about `Model/Tess/Reset.lean` (the reset discipline of `fill.rs`, `event_queue.rs`,
  `stroke.rs`, field by field), `Model/Tess/Monotone.lean` (the pooled monotone tessellator, model
  of C02, tied to the real code through hook H2) and `Model/Tess/GeomBuilder.lean` /
  `Skeleton.lean` (`BuffersBuilder` and the call skeletons, models of C04).

  Shape of the argument.  `reset_erases_history` is the generic lemma: if every call first overwrites
  (or makes unreadable) whatever the rest of the call reads — a `Discipline` — then the output of a
  call is a function of its argument alone, after EVERY history, whatever the earlier calls left
  behind (an input may carry a fault position; nothing is assumed about the state a call leaves).
  It is instantiated on the real models, and the instances are proved, not assumed:

  * `monotone_begin_fresh`      pooled `AdvancedMonotoneTessellator`: `begin` leaves `prev` stale
                                (`push` copies the OLD `last.pos`); no output of any later
                                `vertex* end` depends on it.                   (relation `AdvSim`)
  * `queue_builder_fresh`       `EventQueueBuilder` reused by `set_path*`: `reset` clears `queue, nth`
                                only; `prev, second` stay stale and are read under `nth > 0` only.
                                                                               (relation `QBSim`)
  * `into_builder_fresh`        `EventQueue::into_builder` (how the tessellator recycles the queue).
  * `scan_reset_fresh`          `ActiveEdgeScan::reset` = `new`.
  * `attrib_buffer_fresh`       `interpolated_attributes` over a whole call: only the LENGTH of the
                                recycled buffer matters, and `resize` fixes it.
  * `begin_span_fresh`          `Spans::begin_span` from any pool.
  * `fill_call_fresh`, `fill_history_fresh`       the `FillTessellator` machine, all entry points,
                                invalid tolerance, builder faults, dropped builders.
  * `stroke_call_fresh`, `stroke_history_fresh`   the `StrokeTessellator` machine.
  * `offset_shift`, `offset_shift_failed`         prior buffer contents only shift the indices; a
                                failed call gives them back untouched.

  NOT proved (level: partial proof + exploration): that the real sweep / stroker read nothing but
  the `SweepView` / `StrokeView` handed to the abstract cores of the model.  The cores are
  parameters (`FillEnv.sweep`, `StrokeEnv.core`), the theorems hold for every choice of them, and
  the history oracle of `harness/src/bin/c08.rs` compares the REAL tessellators call by call with
  fresh ones, bit for bit.
-/
import LyonVerif.Lemmas.Reset
import LyonVerif.Lemmas.C04Spec

set_option linter.unusedSectionVars false
set_option linter.unusedVariables false
set_option linter.unusedSimpArgs false

namespace Lyon.C08
open Lyon Lyon.Mono Lyon.Reset Lyon.Tess Scalar

variable {α : Type} [Scalar α]

/-! ## The generic lemma -/

/-- **A reset discipline erases the history.**  For a machine with a reset discipline, the output
of a call made after ANY history of calls (other inputs, other options, other entry points, calls
that failed part-way — `hist` is arbitrary and nothing is assumed about the states the calls leave)
from ANY initial state equals the output of the same call on a fresh object. -/
theorem reset_erases_history {σ ι ο : Type} (m : Machine σ ι ο) (d : Discipline m)
    (s0 fresh : σ) (hist : List ι) (i : ι) :
    (m.call (m.run s0 hist) i).2 = (m.call fresh i).2 :=
  d.stateless _ _ i

/-- the same, call by call along the history: what `harness/src/bin/c08.rs` observes -/
theorem reset_erases_history_outputs {σ ι ο : Type} (m : Machine σ ι ο) (d : Discipline m)
    (s0 fresh : σ) (hist : List ι) :
    m.outputs s0 hist = hist.map (fun i => (m.call fresh i).2) :=
  d.stateless.outputs fresh hist s0

/-! ## The pooled monotone tessellator -/

/-- **`begin` makes a recycled monotone tessellator indistinguishable from a new one.**
For every two previous states `old`, `old'` (any history, ended or abandoned part-way), every
`begin` argument and every later sequence of `vertex` calls: the inner tessellator (stack, previous
vertex, every triangle emitted so far) is the same, and so is everything `end` produces.
The stale field — `SideEvents::prev`, into which `push` copies the OLD `last.pos` — is overwritten
by the next `push` on that side before the outward-turn test (guarded by `len >= 2`) can read it. -/
theorem monotone_begin_fresh (old old' : Adv α) (p : P α) (id : Nat) (vs : List (VArg α)) (pe : P α) (ide : Nat) :
    (feed (Adv.begin old p id) vs).tess = (feed (Adv.begin old' p id) vs).tess ∧
    (feed (Adv.begin old p id) vs).end_ pe ide = (feed (Adv.begin old' p id) vs).end_ pe ide := by
  have h := feed_sim vs _ _ (begin_sim old old' p id)
  exact ⟨h.1, end_sim _ _ pe ide h⟩

/-- in particular: equal to a brand-new object (`AdvancedMonotoneTessellator::new`) -/
theorem monotone_begin_fresh_new (old : Adv α) (p : P α) (id : Nat) (vs : List (VArg α)) (pe : P α) (ide : Nat) :
    ((feed (Adv.begin old p id) vs).end_ pe ide).tris = ((feed (Adv.begin Adv.new p id) vs).end_ pe ide).tris := by
  rw [(monotone_begin_fresh old Adv.new p id vs pe ide).2]

/-- The stale field is really there: after `begin` on a used object `prev` differs from a new object's. -/
theorem monotone_begin_stale_witness :
    let used : Adv Int' := Adv.begin (Adv.begin Adv.new ⟨⟨7⟩, ⟨7⟩⟩ 1) ⟨⟨0⟩, ⟨0⟩⟩ 2
    let new_ : Adv Int' := Adv.begin Adv.new ⟨⟨0⟩, ⟨0⟩⟩ 2
    used.left.prev.x.v = 7 ∧ new_.left.prev.x.v = 0 := by decide

/-- the life of one pooled object as a machine: a call is `begin · vertex* · end · flush` -/
def poolMachine : Machine (Adv α) (P α × Nat × List (VArg α) × P α × Nat) (Basic α) :=
  ⟨fun old i => (afterEnd (feed (Adv.begin old i.1 i.2.1) i.2.2.1) i.2.2.2.1 i.2.2.2.2,
                 (feed (Adv.begin old i.1 i.2.1) i.2.2.1).end_ i.2.2.2.1 i.2.2.2.2)⟩

/-- its reset discipline: prologue = `begin`, relation = `AdvSim` -/
def poolDiscipline : Discipline (poolMachine (α := α)) where
  R := fun _ s t => AdvSim s t
  prologue := fun old i => Adv.begin old i.1 i.2.1
  rest := fun s i => (afterEnd (feed s i.2.2.1) i.2.2.2.1 i.2.2.2.2, (feed s i.2.2.1).end_ i.2.2.2.1 i.2.2.2.2)
  call_eq := fun _ _ => rfl
  establishes := fun s s' i => begin_sim s s' i.1 i.2.1
  respects := fun s s' i h => end_sim _ _ _ _ (feed_sim _ _ _ h)

/-- a pooled object that has been through any number of spans behaves like a new one -/
theorem monotone_pool_history_fresh (s0 : Adv α) (hist : List (P α × Nat × List (VArg α) × P α × Nat))
    (i : P α × Nat × List (VArg α) × P α × Nat) :
    (poolMachine.call (poolMachine.run s0 hist) i).2 = (poolMachine.call Adv.new i).2 :=
  reset_erases_history poolMachine poolDiscipline s0 Adv.new hist i

/-- **`Spans::begin_span`**: whatever the pool holds (and whether it is empty), the tessellator put
into the new span is `AdvSim`-equal to a new one that was begun — hence (`monotone_begin_fresh`)
indistinguishable — and the other spans are the same. -/
theorem begin_span_fresh (spans : List (Option (Adv α))) (pool pool' : List (Adv α)) (idx : Nat) (pos : P α) (v : Nat) :
    ∃ t t', AdvSim t t' ∧
      (Spans.beginSpan ⟨spans, pool⟩ idx pos v).spans = spans.take idx ++ [some t] ++ spans.drop idx ∧
      (Spans.beginSpan ⟨spans, pool'⟩ idx pos v).spans = spans.take idx ++ [some t'] ++ spans.drop idx :=
  ⟨_, _, begin_sim _ _ pos v, rfl, rfl⟩

/-! ## `ActiveEdgeScan` -/

/-- **`ActiveEdgeScan::reset` restores `ActiveEdgeScan::new()`**, whatever the scan held
(`scan_active_edges` starts with it). -/
theorem scan_reset_fresh (s : Scan) : s.reset = Scan.new := rfl

/-! ## The attribute buffer -/

/-- **Every slot of the recycled attribute buffer is written before it is read.**  For a whole call
(`vs` = the source lists of its vertices, in order, the buffer threaded through): the attributes
handed to the vertex constructor are the same whatever the buffer held before `tessellate_impl`
resized it — any old contents `buf`, `buf'`, of any lengths. -/
theorem attrib_buffer_fresh (store : Option (Nat → List α)) (n : Nat) (attrs : Option Nat)
    (vs : List (List (Src α))) (buf buf' : List α) :
    interpAll store n vs (resizeAttrib buf attrs) = interpAll store n vs (resizeAttrib buf' attrs) :=
  interpAll_fresh store n vs _ _ (by rw [resizeAttrib_length, resizeAttrib_length])

/-- The stale contents are really there after the resize (so the theorem is not about zeros). -/
theorem attrib_buffer_stale_witness :
    resizeAttrib ([⟨5⟩, ⟨6⟩, ⟨7⟩] : List Int') (some 2) = [⟨5⟩, ⟨6⟩] ∧
    resizeAttrib ([] : List Int') (some 2) = [⟨0⟩, ⟨0⟩] := by decide

/-! ## The event queue -/

/-- **`EventQueue::into_builder` forgets the queue**: the builder the tessellator obtains by
`mem::replace(&mut self.events, EventQueue::new()).into_builder(tol)` is the one a new queue gives. -/
theorem into_builder_fresh (q : Queue α) (tol : α) : q.intoBuilder tol = (Queue.new : Queue α).intoBuilder tol := rfl

/-- **A re-used `EventQueueBuilder` builds the same queue.**  For any two builders `b`, `b'`
(whatever earlier `set_path` calls, complete or not, left in `current, prev, second, nth,
prev_endpoint_id, tolerance` and in the queue), any flattener, tolerance, orientation and any event
stream that starts with `Begin`: `set_path` / `set_path_with_ids` produce the same queue.  (After the
first `Begin` the stream may be anything, well-formed or not.) -/
theorem queue_builder_fresh (F : Flat α) (b b' : QB α) (tol : α) (hz : Bool) (p : P α) (id : Nat) (evs : List (PEv α)) :
    (QB.setPath F b tol hz (.begin p id :: evs)).queue = (QB.setPath F b' tol hz (.begin p id :: evs)).queue := by
  unfold QB.setPath QB.events
  simp only [List.foldl_cons]
  exact (events_sim F hz evs (QB.event F hz { b.reset with tolerance := tol } (.begin p id))
    (QB.event F hz { b'.reset with tolerance := tol } (.begin p id)) (qb_begin_sim _ _ _ id rfl rfl)).2.2.1

example : ∃ evs : List (PEv Int'), evs = [.begin ⟨⟨0⟩, ⟨0⟩⟩ 0, .line ⟨⟨4⟩, ⟨0⟩⟩ 1, .line ⟨⟨0⟩, ⟨3⟩⟩ 2, .end_ ⟨⟨0⟩, ⟨0⟩⟩ 0] := ⟨_, rfl⟩

/-- Without the leading `Begin` the statement is false: `current` is stale and `line_segment` reads it. -/
theorem queue_builder_needs_begin_witness :
    let F : Flat Int' := ⟨fun _ _ _ _ => [], fun _ _ _ _ _ => []⟩
    let b : QB Int' := (Queue.new.intoBuilder ⟨1⟩)
    let b' : QB Int' := { b with current := ⟨⟨9⟩, ⟨9⟩⟩ }
    ((QB.setPath F b ⟨1⟩ false [.line ⟨⟨4⟩, ⟨0⟩⟩ 1]).queue.events.map (fun q => (q.x.v, q.y.v))) ≠
    ((QB.setPath F b' ⟨1⟩ false [.line ⟨⟨4⟩, ⟨0⟩⟩ 1]).queue.events.map (fun q => (q.x.v, q.y.v))) := by decide

/-! ## The fill tessellator -/

section fill
variable {E σ : Type}

/-- the calls that reach the sweep -/
def fillNormal (i : FillIn α × σ) : Bool :=
  match i.1.entry with
  | .shape _ => false
  | .builderDropped => false
  | _ => tolOk i.1.opts.tolerance

/-- **After the prologue of `tessellate_impl` the sweep sees the same thing whatever the object
held**: event queue rebuilt from the input through a builder that was reset, sweep state cleared,
options overwritten, attribute buffer at the requested length, scan reset. -/
theorem fill_view_fresh (env : FillEnv α E σ) (t t' : FillT α E) (i : FillIn α) :
    (t.prologue env i).view = (t'.prologue env i).view := by
  simp only [FillT.view, FillT.prologue, FillT.reset, buildQueue, into_builder_fresh, resizeAttrib_length]
  rfl

/-- the reset discipline of `FillTessellator` -/
def fillDiscipline (env : FillEnv α E σ) (S : Sink σ) : Discipline (fillMachine env S) where
  R := fun i s s' => fillNormal i = true → s.view = s'.view
  prologue := fun s i => if fillNormal i then s.prologue env i.1 else s
  rest := fun s i =>
    if fillNormal i then
      (env.leftover s i.1 i.2, tessellateImpl S true (env.sweep s.view i.1).core (env.sweep s.view i.1).coreErr i.2)
    else fillCall env S s i
  call_eq := by
    intro s i
    show fillCall env S s i = _
    cases hn : fillNormal i
    · simp only [Bool.false_eq_true, if_false]
    · simp only [if_true]
      unfold fillNormal at hn
      unfold fillCall
      cases he : i.1.entry <;> simp only [he] at hn <;> first | exact Bool.noConfusion hn | simp [hn]
  establishes := by
    intro s s' i hn
    simp only [hn, if_true]
    exact fill_view_fresh env s s' i.1
  respects := by
    intro s s' i h
    cases hn : fillNormal i
    · simp only [Bool.false_eq_true, if_false]
      unfold fillNormal at hn
      unfold fillCall
      cases he : i.1.entry <;> simp only [he] at hn <;> simp [hn]
    · simp only [if_true, h hn]

/-- **One call of a used `FillTessellator` = the same call of a new one**: every entry point
(`tessellate*`, `builder*`+`build`, the shape fast paths, a dropped builder), valid or invalid
tolerance, every geometry builder `S` in every state (hence every fault position), every sweep
function of the `SweepView`, and whatever earlier calls left in the object. -/
theorem fill_call_fresh (env : FillEnv α E σ) (S : Sink σ) (t : FillT α E) (i : FillIn α × σ) :
    (fillCall env S t i).2 = (fillCall env S FillT.new i).2 :=
  (fillDiscipline env S).stateless t FillT.new i

/-- **A whole history** on one `FillTessellator`, call by call, equals fresh tessellators. -/
theorem fill_history_fresh (env : FillEnv α E σ) (S : Sink σ) (t0 : FillT α E) (hist : List (FillIn α × σ)) :
    (fillMachine env S).outputs t0 hist = hist.map (fun i => (fillCall env S FillT.new i).2) :=
  reset_erases_history_outputs _ (fillDiscipline env S) t0 FillT.new hist

end fill

/-! ## The stroke tessellator -/

section stroke
variable {ω σ : Type}

/-- what `StrokeBuilderImpl` / `StrokeBuilder` are handed does not depend on the object:
`attrib_buffer` is cleared and refilled with zeros, `builder_attrib_store` is reset. -/
theorem stroke_view_fresh (t t' : StrokeT α) (i : StrokeIn α ω) : (t.prologue i).2 = (t'.prologue i).2 := by
  unfold StrokeT.prologue
  cases i.entry <;> rfl

/-- **One call of a used `StrokeTessellator` = the same call of a new one.** -/
theorem stroke_call_fresh (env : StrokeEnv α ω σ) (S : Sink σ) : Stateless (strokeMachine env S) := by
  intro t t' i
  show (strokeCall env S t i).2 = (strokeCall env S t' i).2
  unfold strokeCall
  simp only [stroke_view_fresh t t' i.1]
  cases i.1.entry <;> rfl

theorem stroke_history_fresh (env : StrokeEnv α ω σ) (S : Sink σ) (t0 : StrokeT α) (hist : List (StrokeIn α ω × σ)) :
    (strokeMachine env S).outputs t0 hist = hist.map (fun i => (strokeCall env S StrokeT.new i).2) :=
  (stroke_call_fresh env S).outputs StrokeT.new hist t0

end stroke

/-! ## Output buffers -/

/-- **Prior buffer contents only shift the output** (successful call): tessellating into a
`BuffersBuilder` over prior contents `B` yields `B ++ shift_{|B|}(the run on empty buffers)` — the
same new vertices, the same new indices moved up by the number of prior vertices — whenever the run
fits the index type. -/
theorem offset_shift (B : Buffers) (cfg : IdxCfg) (core : List CReq) (hw : C04.wellScoped 0 core = true)
    (hfit : B.vertices.length + nVerts core ≤ cfg.max) (hm1 : cfg.max ≤ cfg.modulus) (hm2 : cfg.max ≤ idxMod) :
    let o0 := tessellateImpl bbSink true core none (BB.new ⟨[], []⟩ cfg)
    let oB := tessellateImpl bbSink true core none (BB.new B cfg)
    o0.result = none ∧ oB.result = none ∧
    oB.st.buf.vertices = B.vertices ++ o0.st.buf.vertices ∧
    oB.st.buf.indices = B.indices ++ o0.st.buf.indices.map (· + B.vertices.length) := by
  intro o0 oB
  have h0 : C04.Shifted B.vertices B.indices (bbSink.begin (BB.new ⟨[], []⟩ cfg)) (bbSink.begin (BB.new B cfg)) [] [] :=
    ⟨by simp [bbSink, BB.begin, BB.new], by simp [bbSink, BB.begin, BB.new], rfl, rfl, rfl, rfl, by simp⟩
  obtain ⟨e1, e2, hs⟩ := C04.runQ_shift B.vertices B.indices core _ _ [] [] h0 hw
    (by simpa [bbSink, BB.begin, BB.new] using hfit) hm1 hm2
  simp only [o0, oB, tessellateImpl, Bool.not_true, Bool.false_eq_true, if_false, e1, e2]
  exact ⟨trivial, trivial, hs.vs, hs.is⟩

example : let core := [CReq.v 0, .v 1, .v 2, .t 0 1 2]
    C04.wellScoped 0 core = true ∧
    (tessellateImpl bbSink true core none (BB.new ⟨[], []⟩ IndexTy.u16.cfg)).st.buf = ⟨[0, 1, 2], [0, 1, 2]⟩ ∧
    (tessellateImpl bbSink true core none (BB.new ⟨[7, 7], [1, 0, 1]⟩ IndexTy.u16.cfg)).st.buf =
      ⟨[7, 7, 0, 1, 2], [1, 0, 1, 2, 3, 4]⟩ := by decide

/-- **A call that fails — invalid tolerance, a refused vertex, an error of the sweep — gives the
prior contents back untouched**, whatever they are (`tolOk`, `core`, `coreErr` arbitrary; `h` says
the call did fail). -/
theorem offset_shift_failed (B : Buffers) (cfg : IdxCfg) (tolOk : Bool) (core : List CReq) (coreErr : Option TErr)
    (hv : B.vertices.length < idxMod) (hi : B.indices.length < idxMod)
    (h : (tessellateImpl bbSink tolOk core coreErr (BB.new B cfg)).result ≠ none) :
    (tessellateImpl bbSink tolOk core coreErr (BB.new B cfg)).st.buf = B := by
  unfold tessellateImpl at h ⊢
  cases tolOk
  · rfl
  · simp only [Bool.not_true, Bool.false_eq_true, if_false] at h ⊢
    have hext : Ext B (runQ bbSink core (bbSink.begin (BB.new B cfg)) []).st :=
      runQ_preserves (bbSink_preserves_ext B) core _ [] (Ext.ofBegin (BB.new B cfg) hv hi)
    cases he : (runQ bbSink core (bbSink.begin (BB.new B cfg)) []).err with
    | some e => simp only [he]; exact hext.abort
    | none =>
      simp only [he] at h ⊢
      cases coreErr with
      | some e => exact hext.abort
      | none => exact absurd rfl h

example : (tessellateImpl bbSink true [CReq.v 0, .v 1] (some (.internal 3)) (BB.new ⟨[7, 7], [1, 0, 1]⟩ IndexTy.u16.cfg)).result ≠ none := by
  decide

end Lyon.C08
