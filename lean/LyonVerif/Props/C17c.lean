/-
  C17c — the parser's calls are a reference interpretation of the command list, for ALL texts
  (arcs included, attributes included).

  `parse_is_parser_semantics`: for every text, attribute count and stop character, the calls
  `PathParser::parse` sends to its builder — points AND custom attributes, success or error, the
  clean-up `end(false)` included — are `refBuild` of `parseACmds`: the reference interpreter
  (`Lemmas/ParserConcreteRef.lean`) applied to the list of `SvgPathBuilder` commands the text
  stands for (`parseACmds` = the `parseCmds` of C17b, each command with the attribute values
  written after its end point: `parseACmds_commands`).

  In that reference every command except `A`/`a` is the SVG reference semantics of C15
  (`Svg.Spec.step`) with the command's attributes attached to its call; `A`/`a` denotes exactly what
  crates/extra/src/parser.rs does (`ref_arc_denotation`).  How this differs from what `WithSvg`
  (`SvgPathBuilder::arc_to`, `Model/Path/Svg.lean` / `Svg.Spec.arcOut`) does with the same arc:

  |                         | parser.rs (`refArc`)                      | `WithSvg::arc_to` (`Spec.arcTo`)            |
  |-------------------------|--------------------------------------------|---------------------------------------------|
  | outside a sub-path      | rejected (`MissingMoveTo`), never read     | begins a sub-path at the arc's start point  |
  | `is_straight_line`      | `line_to(to)` — the SAME (`ref_arc_straight_is_withsvg`)                               ||
  | conversion              | `svg_arc.to_arc()` pieces at `f32`, with   | `to_arc()`, then `arc(center, …)`: start    |
  |                         | `t` ranges                                 | angle recomputed from the current point,     |
  |                         |                                            | pieces at `f64` cast back, no `t`            |
  | before the pieces       | nothing                                    | `line_to(arc_start)` if the computed start  |
  |                         |                                            | is `< 0.1` away (`near`), early return if    |
  |                         |                                            | the current point is the centre (`skip`)     |
  | current point afterwards| the operand `to` itself                    | end point of the LAST PIECE (or `arc_start`) |
  | attributes              | `prev*(1-t_i) + attrs*t_i` per piece       | none (`WithSvg` has no custom attributes)    |
  | smooth command after it | reflects nothing                           | reflects nothing (same, since 059d9c0c)      |

  `ref_arc_vs_withsvg` states the call/current-point rows for the same piece list;
  `arc_differs_from_withsvg_witness` is a concrete text on which the two disagree (the `T` after the
  arc starts from `to` in the parser, from the last piece's end in `WithSvg`).
-/
import LyonVerif.Lemmas.ParserConcreteRef
import LyonVerif.Lemmas.ParserConcrete
import LyonVerif.Props.C17

set_option linter.unusedVariables false
set_option linter.unusedSectionVars false

namespace Lyon.C17
open Lyon Lyon.Parser Lyon.Path

section ref
variable {ν : Type} [Add ν] [Sub ν]

/-- `parse_is_parser_semantics`: for EVERY text the parser's calls, attributes included, are the
reference interpreter on the command list read.  `ho`: `N.add`/`N.sub` are `+`/`-` and `+`
commutes; `hpos`: the arc conversion does not depend on the read position (it has no access to
it); `hp`: the arc conversion did not panic (discharged for the concrete parser below). -/
theorem parse_is_parser_semantics {N : Num ν} (ho : Ops N)
    (hpos : ∀ p q a, N.arc p a = N.arc q a) (na : Nat) (stop : Option Char) (inp : List Char)
    (hp : (parse N na stop inp).outcome ≠ .panic) :
    (parse N na stop inp).trace = refBuild N (parseACmds N na stop inp) :=
  loop_ref ho hpos na stop (inp.length + 1) (St.init N) (Src.new inp).skipWs _ (relA_init N) hp
    (parse_total N na stop inp)

/-- the command list of `parse_is_parser_semantics` is the one of C17b (`parseCmds`), each command
paired with its attribute values -/
theorem parseACmds_commands (N : Num ν) (na : Nat) (stop : Option Char) (inp : List Char) :
    (parseACmds N na stop inp).map Prod.fst = parseCmds N na stop inp :=
  loopACmds_fst N na stop _ _ _

/-- `ref_arc_denotation`: what an arc command with absolute target `p` and attributes `a` denotes
in the reference, inside an open sub-path: the current point becomes `p`, nothing is remembered
for smooth commands, the attribute buffer becomes `a`; the calls are one `line_to(p, a)` if
`is_straight_line`, else one `quadratic_bezier_to(ctrl_i, to_i, prev*(1-t_i) + a*t_i)` per piece
of the arc conversion — nothing else.  (`relArcTo r v` is `arcTo r (current + v)`.) -/
theorem ref_arc_denotation (N : Num ν) (s : RSt ν) (r : RawArc ν) (p v : Svg.Pt ν) (a : List ν)
    (hop : s.sp.isOpen = true) :
    refStep N s (.arcTo r p, a) =
      (({ sp := { s.sp with cur := p, prev := .arc }, attrs := a } : RSt ν),
       if N.arcStraight (arcArgsOf s r p a) then [.line (ps p) a]
       else
         match N.arc 0 (arcArgsOf s r p a) with
         | some qs => qs.map (fun q => Call.quad q.1 q.2.1 (interpAttrs N s.attrs a q.2.2))
         | none => []) ∧
    refStep N s (.relArcTo r v, a) = refStep N s (.arcTo r (s.sp.cur + v), a) :=
  ⟨refArc_open N s r p a hop, rfl⟩

/-- a straight-line arc is the same in both: `line_to(to)`, current point `to` -/
theorem ref_arc_straight_is_withsvg (N : Num ν) (s : RSt ν) (r : RawArc ν) (p : Svg.Pt ν)
    (a : List ν) (hop : s.sp.isOpen = true) (hs : N.arcStraight (arcArgsOf s r p a) = true) :
    (refArc N s r p a).2.map eraseCall = (s.sp.arcTo p .straight).2 ∧
    (refArc N s r p a).1.sp.cur = (s.sp.arcTo p .straight).1.cur := by
  rw [refArc_open N s r p a hop]
  simp [hs, Svg.Spec.arcTo, Svg.Spec.draw, hop, eraseCall, sp, ps]

/-- `ref_arc_vs_withsvg`: a curved arc, the SAME piece list `qs` given to both.  `WithSvg`
(reference semantics `Spec.arcOut` on `.curve start near pieces`) sends the parser's calls
preceded by `line_to(start)` when `near`, and moves the current point to the end of the last
piece (`lastTo`); the parser sends the pieces only and moves the current point to `p`. -/
theorem ref_arc_vs_withsvg (N : Num ν) (s : RSt ν) (r : RawArc ν) (p : Svg.Pt ν) (a : List ν)
    (hop : s.sp.isOpen = true) (hs : N.arcStraight (arcArgsOf s r p a) = false)
    (qs : List (Parser.Pt ν × Parser.Pt ν × ν)) (harc : N.arc 0 (arcArgsOf s r p a) = some qs)
    (start : Svg.Pt ν) (near : Bool) :
    (s.sp.arcOut (.curve start near (qs.map fun q => (sp q.1, sp q.2.1)))).2 =
      (if near then [.line start ()] else []) ++ (refArc N s r p a).2.map eraseCall ∧
    (s.sp.arcOut (.curve start near (qs.map fun q => (sp q.1, sp q.2.1)))).1.cur =
      Svg.lastTo (if near then start else s.sp.cur) (qs.map fun q => (sp q.1, sp q.2.1)) ∧
    (refArc N s r p a).1.sp.cur = p := by
  rw [refArc_open N s r p a hop]
  simp [hs, harc, Svg.Spec.arcOut, hop, Svg.quadCalls, eraseCall, List.map_map, Function.comp_def]

end ref

/-! ### the concrete parser: every text, no hypothesis on the parse -/

section concrete
variable {α : Type} [Scalar α] [Transc α] [ArcConv.Eps α]

theorem parse_is_parser_semantics_concrete (h : NoNaNLaws α) (hcomm : ∀ a b : α, a + b = b + a)
    (ofLexeme : List Char → α) (na : Nat) (stop : Option Char) (inp : List Char) :
    (parse (concreteNum ofLexeme) na stop inp).trace =
      refBuild (concreteNum ofLexeme) (parseACmds (concreteNum ofLexeme) na stop inp) :=
  parse_is_parser_semantics (N := concreteNum ofLexeme) ⟨fun _ _ => rfl, fun _ _ => rfl, hcomm⟩
    (fun _ _ _ => rfl) na stop inp
    (parse_no_panic (concreteNum ofLexeme) na stop inp (concreteNum_arc_ne_none h ofLexeme))

end concrete

/-! ### Non-vacuity, and a text on which parser and `WithSvg` disagree -/

/-- integers; every arc is curved and has the single piece `ctrl (1,1) → (9,9)`, `t = 1` -/
def arcNum : Num Int :=
  { intNum with arcStraight := fun _ => false, arc := fun _ _ => some [((1, 1), (9, 9), 1)] }

theorem ops_arcNum : Ops arcNum := ⟨fun _ _ => rfl, fun _ _ => rfl, Int.add_comm⟩

/-- hypotheses of `parse_is_parser_semantics` -/
example : (∀ p q a, arcNum.arc p a = arcNum.arc q a) ∧
    (parse arcNum 1 none "M0 0 3A1 1 0 0 1 5 5 7T7 7 8".toList).outcome ≠ .panic :=
  ⟨fun _ _ _ => rfl, by decide⟩

/-- … and what it says there: the piece carries `3*(1-1) + 7*1`, the `T` starts from `to = (5,5)` -/
example :
    (parse arcNum 1 none "M0 0 3A1 1 0 0 1 5 5 7T7 7 8".toList).trace =
      [.begin (0, 0) [3], .quad (1, 1) (9, 9) [7], .quad (5, 5) (7, 7) [8], .end_ false] ∧
    refBuild arcNum (parseACmds arcNum 1 none "M0 0 3A1 1 0 0 1 5 5 7T7 7 8".toList) =
      [.begin (0, 0) [3], .quad (1, 1) (9, 9) [7], .quad (5, 5) (7, 7) [8], .end_ false] := by
  decide

/-- the `WithSvg` geometry with the same single piece, starting at the current point -/
def arcGeo : Svg.Geo Int (RawArc Int) :=
  ⟨fun _ _ => .skip, fun _ cur _ => .arc (.curve cur false [(⟨1, 1⟩, ⟨9, 9⟩)])⟩

/-- `arc_differs_from_withsvg_witness`: on `M0 0A1 1 0 0 1 5 5T7 7` the parser's calls are not the
ones `WithSvg` sends for the same commands and the same arc piece: the smooth quadratic after the
arc starts from the operand `to = (5,5)` in the parser and from the piece's end `(9,9)` in
`WithSvg`. -/
theorem arc_differs_from_withsvg_witness :
    (parse arcNum 0 none "M0 0A1 1 0 0 1 5 5T7 7".toList).trace.map eraseCall =
      [.begin ⟨0, 0⟩ (), .quad ⟨1, 1⟩ ⟨9, 9⟩ (), .quad ⟨5, 5⟩ ⟨7, 7⟩ (), .end_ false] ∧
    Svg.runBuild arcGeo 0 (parseCmds arcNum 0 none "M0 0A1 1 0 0 1 5 5T7 7".toList) =
      [.begin ⟨0, 0⟩ (), .quad ⟨1, 1⟩ ⟨9, 9⟩ (), .quad ⟨9, 9⟩ ⟨7, 7⟩ (), .end_ false] := by
  decide

end Lyon.C17
