import LyonVerif.Model.Tess.StrokeParts
import LyonVerif.Lemmas.Field

namespace Lyon.C05
theorem placeholder : True := trivial
end Lyon.C05
