/-
  C05 — stroke output is a well-formed mesh with self-consistent per-vertex data.

  Component theorems about `Model/Tess/StrokeParts.lean` — the same `def`s the correspondence
  check runs at `Float32` against lyon's crate-private code through hook H3
  (`lyon_tessellation::verif_stroke`).  Discrete statements (ids, counts, the 3-slot window) hold
  for every scalar type, floats included; numeric statements are over an arbitrary linearly
  ordered field `K` with `sqrt`, `sin`, `cos` as parameters whose laws are explicit hypotheses.

  What is NOT a theorem here (explored by the oracle on the real code, see conf/C05.json): the
  join/cap geometry as a whole — finiteness of every vertex, the reach bound, validity of ids
  across a whole stroke, advancement and sources.  `kept_points_apart` covers the step functions'
  merge rule on points that are not flattening steps; `close()` moves the last kept point onto
  the first one afterwards (a fix-up outside the model).
-/
import LyonVerif.Model.Tess.StrokeParts
import LyonVerif.Lemmas.Field
import LyonVerif.Lemmas.StrokeParts
import Mathlib.Tactic.SplitIfs
import Mathlib.Tactic.IntervalCases
import Mathlib.Algebra.Order.Ring.Abs
import Mathlib.Tactic.NormNum
import Mathlib.Tactic.Positivity
import Mathlib.Analysis.SpecialFunctions.Sqrt
import Mathlib.Analysis.SpecialFunctions.Trigonometric.Basic

set_option linter.unusedSectionVars false
set_option linter.unusedVariables false

geom_all Lyon.Stroke.VData

namespace Lyon.C05
open Lyon Scalar Lyon.Stroke

/-! ## §1 Vertex data -/

section Field
variable {K : Type} [Field K] [LinearOrder K] [IsStrictOrderedRing K]

/-- `position = position_on_path + normal · (line_width / 2)` for everything a vertex constructor
can read: `read` is the record of accessor results the driver prints and the tie compares. -/
theorem position_def (d : VData K) :
    d.read.position = d.read.positionOnPath + d.read.normal.smul (d.read.lineWidth * (1 / 2)) := by
  geom_ring

/-- `line_width` is twice the half width the tessellator works with -/
theorem line_width_def (d : VData K) : d.read.lineWidth = 2 * d.halfWidth := by
  geom_ring

/-- interpolated attributes of an edge vertex: affine in `t`, the end values at `t = 0, 1` -/
theorem lerp_attributes_ends (a b : List K) (h : a.length = b.length) :
    lerpAttributes a b 0 = a ∧ lerpAttributes a b 1 = b := by
  induction a generalizing b with
  | nil => cases b <;> simp_all [lerpAttributes]
  | cons x xs ih =>
    cases b with
    | nil => simp at h
    | cons y ys =>
      have := ih ys (by simpa using h)
      simp only [lerpAttributes, List.zipWith_cons_cons] at this ⊢
      refine ⟨?_, ?_⟩
      · rw [this.1]; congr 1; simp only [geom]; push_cast; ring
      · rw [this.2]; congr 1; simp only [geom]; push_cast; ring

/-- the second read of the attributes (served from the cache) equals the first -/
theorem interpolated_twice_same (store : Nat → List K) (s : Src K) :
    (interpolatedTwice store s).1 = (interpolatedTwice store s).2 := rfl

end Field

/-! ## §2 Triangles have three distinct ids -/

/-- every triangle `add_edge_triangles` emits has three pairwise distinct ids, whatever the ids
and fold flags of the two joins are (the issue_894 guards suffice) -/
theorem edge_triangles_distinct (p0 p1 : JoinIds) :
    ∀ t ∈ addEdgeTriangles p0 p1, Tri.Distinct t := by
  intro t ht
  unfold addEdgeTriangles edgeTri1 edgeTri2 at ht
  split_ifs at ht <;> simp at ht
  all_goals (rcases ht with rfl | rfl <;> simp only [Tri.Distinct] <;> refine ⟨?_, ?_, ?_⟩ <;> tauto)

/-- at most two triangles per edge -/
theorem edge_triangles_count (p0 p1 : JoinIds) : (addEdgeTriangles p0 p1).length ≤ 2 := by
  unfold addEdgeTriangles edgeTri1 edgeTri2
  split_ifs <;> simp

/-- the guards are not vacuous: with the four ids distinct both triangles are emitted -/
example : addEdgeTriangles ⟨0, 1, 2, 3, false, false⟩ ⟨4, 5, 6, 7, false, false⟩ = [(3, 1, 4), (3, 4, 6)] := by
  decide
/-- issue_894 shape (shared ids through folds): the degenerate triangles are dropped -/
example : addEdgeTriangles ⟨0, 1, 2, 3, true, false⟩ ⟨0, 5, 6, 7, false, false⟩ = [] := by decide

section Joins
variable {α : Type} [Scalar α]

/-- ids handed out by `add_join_base_vertices` (negative side first): a side with a single
vertex gets one id for `prev` and `next`, a side without gets two consecutive ones; all are
fresh (`≥ o.nextId`) and the two sides never share an id. -/
theorem join_base_vertices_ids (j : Join α) (d : VData α) (o : Out α) :
    let r := addJoinBaseVertices j d o
    let i := r.1.ids
    o.nextId ≤ i.negPrev ∧ i.negPrev ≤ i.negNext ∧ i.negNext < i.posPrev ∧ i.posPrev ≤ i.posNext
      ∧ i.posNext < r.2.nextId
      ∧ (i.negPrev = i.negNext ↔ j.neg.single.isSome) ∧ (i.posPrev = i.posNext ↔ j.pos.single.isSome)
      ∧ r.1.pos.single = j.pos.single ∧ r.1.neg.single = j.neg.single
      ∧ r.1.foldPos = j.foldPos ∧ r.1.foldNeg = j.foldNeg := by
  rcases j with ⟨p, hw, rd, ⟨pp, pn, ps, pi, pj⟩, ⟨np, nn, ns, ni, nj⟩, fp, fn⟩
  cases ps <;> cases ns <;>
    simp [addJoinBaseVertices, baseVerticesSide, Join.ids, Out.addVertex]

/-- `join_triangles_distinct`: after `add_join_base_vertices`, every interior triangle of
`tessellate_join` has three distinct ids, all of them handed out already; and a side that gets a
round join has distinct anchor vertices (so `arc_fan` applies to it). -/
theorem join_triangles_distinct (j : Join α) (d : VData α) (o : Out α) :
    let r := addJoinBaseVertices j d o
    (∀ t ∈ joinInterior r.1.ids (needsJoinPos r.1) (needsJoinNeg r.1),
        Tri.Distinct t ∧ Tri.Below t r.2.nextId)
    ∧ (needsJoinPos r.1 = true → r.1.pos.prevVertex ≠ r.1.pos.nextVertex)
    ∧ (needsJoinNeg r.1 = true → r.1.neg.prevVertex ≠ r.1.neg.nextVertex) := by
  rcases j with ⟨p, hw, rd, ⟨pp, pn, ps, pi, pj⟩, ⟨np, nn, ns, ni, nj⟩, fp, fn⟩
  cases ps <;> cases ns <;> cases fp <;> cases fn <;>
    simp [addJoinBaseVertices, baseVerticesSide, Join.ids, Out.addVertex, joinInterior, needsJoinPos,
      needsJoinNeg, Tri.Distinct, Tri.Below] <;> omega

/-- the same with ids that merely have the structure `add_join_base_vertices` produces -/
theorem join_interior_distinct (i : JoinIds) (needPos needNeg : Bool)
    (hp : needPos = true → i.posPrev ≠ i.posNext) (hn : needNeg = true → i.negPrev ≠ i.negNext)
    (hx : i.posPrev ≠ i.negPrev ∧ i.posPrev ≠ i.negNext ∧ i.posNext ≠ i.negPrev ∧ i.posNext ≠ i.negNext) :
    ∀ t ∈ joinInterior i needPos needNeg, Tri.Distinct t := by
  intro t ht
  unfold joinInterior at ht
  obtain ⟨h1, h2, h3, h4⟩ := hx
  cases needPos <;> cases needNeg <;> simp at ht hp hn
  · obtain ⟨_, rfl⟩ := ht
    exact ⟨fun h => h1 h.symm, h2, hn⟩
  · obtain ⟨_, rfl⟩ := ht
    exact ⟨fun h => h1 h.symm, hp, fun h => h3 h.symm⟩
  · obtain ⟨_, rfl | rfl⟩ := ht
    · exact ⟨hp, h4, h2⟩
    · exact ⟨h2, fun h => hn h.symm, h1⟩

end Joins

/-! ## §3 `tessellate_arc`: a fan of 2^d − 1 fresh vertices and proper triangles -/

section Arc
variable {K : Type} [Field K] [LinearOrder K] [IsStrictOrderedRing K] [Transc K]

/-- `arc_fan`: `tessellate_arc` with depth `n` between two distinct existing vertices emits exactly
`2^n − 1` fresh vertices (consecutive ids from `o.nextId`), all with unit normals, and `2^n − 1`
triangles, each with three pairwise distinct ids that have been handed out.  `cos² + sin² = 1` is
the only law of the trigonometric functions used. -/
theorem arc_fan (htrig : ∀ x : K, Transc.cos x * Transc.cos x + Transc.sin x * Transc.sin x = 1)
    (n : Nat) : ∀ (a0 a1 : K) (va vb : Nat) (d : VData K) (o : Out K),
      va ≠ vb → va < o.nextId → vb < o.nextId →
      Ext o (tessellateArc a0 a1 va vb n d o) (2 ^ n - 1) := by
  induction n with
  | zero => intro a0 a1 va vb d o _ _ _; simpa [tessellateArc] using Ext.refl o
  | succ n ih =>
    intro a0 a1 va vb d o hab ha hb
    simp only [tessellateArc]
    set mid := (a0 + a1) * half with hmid
    set d1 : VData K := { d with normal := ⟨Transc.cos mid, Transc.sin mid⟩ } with hd1
    have hn : d1.normal.sqLen = 1 := by simp only [hd1, P.sqLen]; exact htrig mid
    have e1 := Ext.step o d1 va vb hn hab ha hb
    set o1 := (o.addVertex d1).addTri (va, o.nextId, vb) with ho1
    have h1 : o1.nextId = o.nextId + 1 := rfl
    have e2 := ih a0 mid va o.nextId d1 o1 (by omega) (by omega) (by omega)
    set o2 := tessellateArc a0 mid va o.nextId n d1 o1 with ho2
    have h2 : o2.nextId = o1.nextId + (2 ^ n - 1) := e2.next
    have e3 := ih mid a1 o.nextId vb d1 o2 (by omega) (by omega) (by omega)
    have hp : 2 ^ (n + 1) = 2 * 2 ^ n := by ring
    have hpos : 1 ≤ 2 ^ n := Nat.one_le_two_pow
    have hk : 1 + (2 ^ n - 1) + (2 ^ n - 1) = 2 ^ (n + 1) - 1 := by omega
    rw [← hk]
    exact (e1.trans e2).trans e3

end Arc

/-! ## §4 `PointBuffer` is "the last three points" -/

section Buffer
variable {β : Type}

/-- `point_buffer_refines`: for EVERY sequence of `push` / `replace_last` / `clear` from a new
buffer, the 3-slot ring behaves as the list of points since the last clear seen through a window
of three: it panics exactly when the specification has no answer (`replace_last` on an empty
buffer: the `idx - 1` underflow), and otherwise `count = min 3 (number of points)`, `get i` is the
`i`-th of the three newest points (never an out-of-range slot, never a stale one), `last` is the
newest point, `last_two_mut` the two newest. -/
theorem point_buffer_refines (d : β) (ops : List (BufOp β)) :
    match specRun [] ops with
    | none => (PointBuffer.new d).run ops = none
    | some l => ∃ b, (PointBuffer.new d).run ops = some b
        ∧ b.count = min 3 l.length
        ∧ (∀ i, i < b.count → b.get i = (window l)[i]?)
        ∧ b.last = l.getLast?
        ∧ (2 ≤ b.count → ∃ x y, b.lastTwo = some (x, y) ∧ b.get (b.count - 2) = some x ∧ b.last = some y) := by
  have h := (Rep.c0 d d d).run ops
  cases hs : specRun ([] : List β) ops with
  | none => rw [hs] at h; exact h
  | some l =>
    rw [hs] at h
    obtain ⟨b, hb, hr⟩ := h
    obtain ⟨h1, _, h3, h4, h5⟩ := hr.observe
    exact ⟨b, hb, h1, h3, h4, h5⟩

/-- a concrete run: five pushes, a replace and a wrap-around -/
example : ((PointBuffer.new 0).run [.push 1, .push 2, .push 3, .push 4, .replaceLast 9, .push 5]).map
    (fun b => (b.count, b.get 0, b.get 1, b.get 2, b.get 3)) = some (3, some 3, some 9, some 5, none) := by
  decide
/-- `replace_last` on an empty buffer is the one panicking sequence -/
example : (PointBuffer.new 0).run [.push 1, .clear, .replaceLast 2] = none := by decide

end Buffer

/-! ## §5 The merge rule keeps consecutive window points apart -/

section Merge
variable {K : Type} [Field K] [LinearOrder K] [IsStrictOrderedRing K]

/-- `kept_points_apart`: whatever points are fed through the merge rule of `step_impl` /
`fixed_width_step_impl` after a `clear`, the window never panics and any two consecutive points
it holds are at least the merge threshold apart (squared distance ≥ `square_merge_threshold`). -/
theorem kept_points_apart (thr : K) (ps : List (P K)) :
    ∃ w, feed thr Window.new ps = some w ∧
      ∀ i, i + 1 < w.buf.count → ∃ p q, w.buf.get i = some p ∧ w.buf.get (i + 1) = some q
        ∧ thr ≤ (p - q).sqLen := by
  obtain ⟨w, l, hf, hr, ha⟩ := feed_inv thr ps Window.new [] (Rep.c0 _ _ _) (by intro i p q h; simp at h)
  refine ⟨w, hf, ?_⟩
  intro i hi
  obtain ⟨_, hc, hg, _, _⟩ := hr.observe
  have h1 : i < (window l).length := by omega
  have h2 : i + 1 < (window l).length := by omega
  refine ⟨(window l)[i], (window l)[i + 1], ?_, ?_, ?_⟩
  · rw [hg i (by omega)]; exact List.getElem?_eq_getElem h1
  · rw [hg (i + 1) hi]; exact List.getElem?_eq_getElem h2
  · apply ha (l.length - 3 + i)
    · simp [window]
    · simp [window, Nat.add_assoc]

/-- the merge threshold is positive whatever the options are (`.max(1e-8)`) … -/
theorem merge_threshold_pos (tolerance lineWidth : K) : 0 < squareMergeThreshold tolerance lineWidth := by
  unfold squareMergeThreshold
  simp only [geom]
  apply lt_of_lt_of_le _ (le_max_right _ _)
  positivity

/-- … so kept consecutive points are distinct and the edge lengths used as divisors are non-zero -/
theorem apart_ne {thr : K} (hthr : 0 < thr) {p q : P K} (h : thr ≤ (p - q).sqLen) :
    p ≠ q ∧ 0 < (q - p).sqLen := by
  constructor
  · rintro rfl
    have : ((p - p : P K)).sqLen = 0 := by simp only [geom]; ring
    rw [this] at h; exact absurd (lt_of_lt_of_le hthr h) (lt_irrefl _)
  · have : (q - p).sqLen = (p - q).sqLen := by simp only [geom]; ring
    rw [this]; exact lt_of_lt_of_le hthr h

end Merge

/-! ## §6 `compute_normal` and the miter limit -/

section Normal
variable {K : Type} [Field K] [LinearOrder K] [IsStrictOrderedRing K] [Transc K]

/-- `compute_normal_miter`.  For unit tangents `v1`, `v2` that are not (nearly) opposite — the first
guard `|v1+v2|² < 1e-4` is not taken — the second guard is never taken either, and the result `n`
satisfies `n·n₁ = n·n₂ = 1` (extruding by `n` keeps both offset lines at distance 1) and
`|n|²·(1 + v1·v2) = 2`, i.e. `|n|² = 2/(1+v1·v2)`.  Finiteness (no division by zero) and the
miter-limit test are therefore algebraic facts.  `sqrt` enters only through `s ≥ 0`, `s·s = x`. -/
theorem compute_normal_miter (v1 v2 : P K) (h1 : v1.sqLen = 1) (h2 : v2.sqLen = 1)
    (hg : ¬ (v1 + v2).sqLen < normalEpsilon)
    (hs0 : 0 ≤ Transc.sqrt (v1 + v2).sqLen)
    (hs : Transc.sqrt (v1 + v2).sqLen * Transc.sqrt (v1 + v2).sqLen = (v1 + v2).sqLen) :
    (computeNormal v1 v2).dot (perp v1) = 1 ∧ (computeNormal v1 v2).dot (perp v2) = 1
      ∧ (computeNormal v1 v2).sqLen * (1 + v1.dot v2) = 2 := by
  obtain ⟨a, b⟩ := v1
  obtain ⟨c, d⟩ := v2
  simp only [geom] at h1 h2
  have hsum : (P.mk a b + P.mk c d : P K) = ⟨a + c, b + d⟩ := rfl
  rw [hsum] at hg hs0 hs
  set s := Transc.sqrt (P.mk (a + c) (b + d)).sqLen with hsdef
  have hS : s * s = (a + c) * (a + c) + (b + d) * (b + d) := by rw [hs]; simp only [geom]
  have hge : (1 : K) / 10000 ≤ s * s := by
    rw [hS]; have := not_lt.mp hg; rw [normalEpsilon_eq] at this; simpa only [geom] using this
  have hspos : 0 < s := by
    rcases eq_or_lt_of_le hs0 with h | h
    · rw [← h] at hge; norm_num at hge
    · exact h
  have hsne : s ≠ 0 := ne_of_gt hspos
  -- s ≥ 1/100
  have hs100 : (1 : K) / 100 ≤ s := by
    by_contra hlt
    have hlt' := not_le.mp hlt
    have : s * s < (1 / 100) * (1 / 100) := by nlinarith
    norm_num at this; linarith
  -- the inverse length is s/2
  have hinv : (-((b + d) / s)) * (-b) + ((a + c) / s) * a = s / 2 := by
    field_simp
    linear_combination (h1 - h2) - hS
  have hdot : (perp (Stroke.normalize (P.mk (a + c) (b + d)))).dot (perp (P.mk a b)) = s / 2 := by
    simp only [Stroke.normalize, perp, P.sdiv, P.dot, ← hsdef]
    exact hinv
  have hne : ¬ Scalar.abs ((perp (Stroke.normalize (P.mk (a + c) (b + d)))).dot (perp (P.mk a b))) < normalEpsilon := by
    rw [normalEpsilon_eq, hdot]
    show ¬ |s / 2| < 1 / 10000
    rw [abs_of_pos (by positivity)]
    intro h; linarith
  have hcn : computeNormal (P.mk a b) (P.mk c d)
      = ⟨(-((b + d) / s)) / (s / 2), ((a + c) / s) / (s / 2)⟩ := by
    unfold computeNormal
    simp only [hsum]
    rw [if_neg hg]
    unfold computeNormalTail
    simp only []
    rw [if_neg hne, hdot]
    simp only [Stroke.normalize, perp, P.sdiv, ← hsdef]
  rw [hcn]
  simp only [perp, P.dot, P.sqLen]
  refine ⟨?_, ?_, ?_⟩
  · field_simp; linear_combination (h1 - h2) - hS
  · field_simp; linear_combination (h2 - h1) - hS
  · have h4 : s * s * (s * s) ≠ 0 := by positivity
    field_simp
    linear_combination (-((a + c) * (a + c) + (b + d) * (b + d) + s * s)) * hS - ((a + c) * (a + c) + (b + d) * (b + d)) * h1 - ((a + c) * (a + c) + (b + d) * (b + d)) * h2

/-- (nearly) opposite tangents: the first guard answers the zero vector — no division happens -/
theorem compute_normal_opposite (v1 v2 : P K) (hg : (v1 + v2).sqLen < normalEpsilon) :
    computeNormal v1 v2 = ⟨0, 0⟩ := by
  unfold computeNormal
  simp only []
  rw [if_pos hg]
  simp only [geom, Nat.cast_zero]

/-- `miter_limit_iff`: the test is `|normal|² > (2·limit)²` … -/
theorem miter_limit_iff (n : P K) (l : K) :
    miterLimitIsExceeded n l = true ↔ (2 * l) ^ 2 < n.sqLen := by
  unfold miterLimitIsExceeded
  simp only [decide_eq_true_eq, geom, gt_iff_lt]
  constructor <;> intro h <;> [skip; skip] <;> (norm_num at h ⊢; nlinarith)

/-- … i.e. `|normal| > 2·limit` for a non-negative limit (`L` is the length of the normal) -/
theorem miter_limit_iff_length (n : P K) (l L : K) (hl : 0 ≤ l) (hL : 0 ≤ L) (hLL : L * L = n.sqLen) :
    miterLimitIsExceeded n l = true ↔ 2 * l < L := by
  rw [miter_limit_iff, ← hLL]
  constructor
  · intro h
    by_contra hc
    have hc' := not_lt.mp hc
    nlinarith
  · intro h
    nlinarith

/-- for the normal of two unit tangents the test reads `2·limit²·(1 + v1·v2) < 1` -/
theorem miter_limit_tangents (v1 v2 : P K) (l : K) (h1 : v1.sqLen = 1) (h2 : v2.sqLen = 1)
    (hg : ¬ (v1 + v2).sqLen < normalEpsilon)
    (hs0 : 0 ≤ Transc.sqrt (v1 + v2).sqLen)
    (hs : Transc.sqrt (v1 + v2).sqLen * Transc.sqrt (v1 + v2).sqLen = (v1 + v2).sqLen) :
    miterLimitIsExceeded (computeNormal v1 v2) l = true ↔ 2 * l ^ 2 * (1 + v1.dot v2) < 1 := by
  obtain ⟨_, _, h⟩ := compute_normal_miter v1 v2 h1 h2 hg hs0 hs
  rw [miter_limit_iff]
  have hc : 0 < 1 + v1.dot v2 := by
    have hS : (v1 + v2).sqLen = 2 * (1 + v1.dot v2) := by
      simp only [geom] at h1 h2 ⊢
      linear_combination h1 + h2
    have : 0 < (v1 + v2).sqLen := by
      have := not_lt.mp hg
      rw [normalEpsilon_eq] at this
      have h0 : (0 : K) < 1 / 10000 := by norm_num
      exact lt_of_lt_of_le h0 this
    rw [hS] at this; linarith
  set c := 1 + v1.dot v2 with hcdef
  set N := (computeNormal v1 v2).sqLen with hN
  constructor
  · intro hlt
    have : (2 * l) ^ 2 * c < N * c := mul_lt_mul_of_pos_right hlt hc
    rw [h] at this; nlinarith
  · intro hlt
    by_contra hge
    have hge' := not_lt.mp hge
    have : N * c ≤ (2 * l) ^ 2 * c := mul_le_mul_of_nonneg_right hge' hc.le
    rw [h] at this; nlinarith

end Normal

/-! ## §6b The subdivision count of round joins and caps (after /repo fix da84e187) -/

/-- `subdivisions_ceil_sufficient`: with the ceiling of the logarithm the fan has at least as many
chords as the tolerance needs: `num_segments ≤ 2^⌈log₂ num_segments⌉` (Nat level: `ceilLog2` is
what `num_segments.log2().ceil() as u32` evaluates to in exact arithmetic for an integer-valued
segment count).  Together with `arc_fan` (2^d − 1 vertices split the arc into 2^d chords) the
arc of a round join / cap side is cut into at least `num_segments` pieces. -/
theorem subdivisions_ceil_sufficient (n : Nat) : n ≤ 2 ^ ceilLog2 n := by
  unfold ceilLog2
  split
  · omega
  · have h := Nat.lt_log2_self (n := n - 1)
    omega

/-- `ceilLog2` is the ceiling (the least such exponent): one subdivision less is not enough -/
theorem subdivisions_ceil_minimal (n : Nat) (h : 2 ≤ n) : 2 ^ (ceilLog2 n - 1) < n := by
  unfold ceilLog2
  rw [if_neg (by omega)]
  have h1 : n - 1 ≠ 0 := by omega
  have := Nat.log2_self_le h1
  simp only [Nat.add_sub_cancel]
  omega

/-- the rounding used before the fix was not sufficient: 5 segments gave `round(log₂ 5) = 2`
subdivisions, i.e. 4 chords; the ceiling gives 8 -/
theorem subdivisions_round_insufficient_witness : 2 ^ 2 < 5 ∧ 5 ≤ 2 ^ ceilLog2 5 := by decide

example : ceilLog2 79 = 7 ∧ ceilLog2 64 = 6 ∧ ceilLog2 1 = 0 ∧ ceilLog2 0 = 0 := by decide

/-! ## §7 The hypotheses are satisfiable: instances over ℝ -/

section real

/-- `Transc ℝ` with the real `sqrt`, `sin`, `cos` (the other fields are not used by the theorems) -/
@[instance_reducible] noncomputable def realTransc : Transc ℝ where
  sqrt := Real.sqrt
  cbrt := fun x => x
  sin := Real.sin
  cos := Real.cos
  tan := fun x => x
  acos := fun x => x
  atan2 := fun _ x => x
  pow := fun x _ => x
  log2 := fun x => x
  ln := fun x => x
  floor := fun x => x
  ceil := fun x => x
  toNat := fun _ => 0
  fmod := fun x _ => x
  eps := 0
  pi := Real.pi
  isNaN := fun _ => false
  isFinite := fun _ => true

/-- `arc_fan`'s law holds for the real functions, so e.g. every depth-5 arc is a fan of 31 -/
example (a0 a1 : ℝ) (d : VData ℝ) (o : Out ℝ) (h : 2 ≤ o.nextId) :
    (@tessellateArc ℝ _ realTransc a0 a1 0 1 5 d o).nextId = o.nextId + 31 := by
  let _ := realTransc
  have := (arc_fan (K := ℝ) (fun x => by
    show Real.cos x * Real.cos x + Real.sin x * Real.sin x = 1
    have := Real.cos_sq_add_sin_sq x; nlinarith) 5 a0 a1 0 1 d o (by decide) (by omega) (by omega)).next
  simpa using this

/-- `compute_normal_miter` at a right-angle turn: hypotheses hold, `|n|² = 2` -/
example : (@computeNormal ℝ _ realTransc ⟨1, 0⟩ ⟨0, 1⟩).sqLen * (1 + (P.mk (1 : ℝ) 0).dot ⟨0, 1⟩) = 2 := by
  let _ := realTransc
  refine (compute_normal_miter (K := ℝ) ⟨1, 0⟩ ⟨0, 1⟩ (by simp [geom]) (by simp [geom]) ?_ ?_ ?_).2.2
  · rw [normalEpsilon_eq]; simp only [geom]; norm_num
  · exact Real.sqrt_nonneg _
  · exact Real.mul_self_sqrt (by simp only [geom]; norm_num)

end real

end Lyon.C05
