/-
  C07e - the parameter-range clause for WHOLE RUNS without the `Tainted` restriction, RELATIVE to the order of the
  index-linked event queue.

  `Props/C07d.lean` proves that every step function of one event keeps `ActiveSpan` and every stored / emitted
  parameter in `[0,1]`, and that `initialize_events` does when the next vertex is in sweep order (`AdvOK`).  Here
  (`Lemmas/SweepQueueOrd{,Loop}.lean`):

  * the lift through the fuel-bounded loop, `tessellate_impl` and the polygonal entry points
    (`sweep_records_unit_queue_partial`): for every run, every outcome, every record listed with an emitted
    vertex has both range ends in `[0,1]` - split branches included.  `_partial`: it takes the missing queue
    invariant as an INTERFACE `QOrdHyp Q R` - a predicate `Q` at the head of the loop that gives `AdvOK`, a
    predicate `R` during an event, four preservation statements (`initialize_events`: `Q → R`; `process_events`
    and `recover_from_error` keep `R`; advancing `current_event` turns `R` into `Q`) - and `Q` of the start state;
  * a concrete candidate for `Q`, the pointer-level queue-order invariant `QOrd` (`SortedFrom`: the `next_event`
    list from the current event is finite and strictly increasing in `compare_positions` order; the previous
    vertex is not below the current event; `ToQueued`: the far end of every active edge that is no merge vertex
    is the position of an event of that list; no pending edges left over; the edge records of the sibling
    events point down) with the theorem `qord_gives_advOK`: `QOrd` DOES give `AdvOK`
    (`sweep_records_unit_qord_partial`: the interface with `Q := QOrd`, `adv` discharged).

  * the SORTED part of `QOrd`, at the pointer level (`Lemmas/SweepQueueOrd{Insert,Sort}.lean`):
    `sort_keeps_positions` (the merge sort only rewrites links); `sort_sorted_of_spec` - the `next_event` list
    from `first` of `q.sort` is `SortedFrom` whenever the linked lists enumerate the list-level specification
    `Spec.sort` (`merge_sort_sorted_perm`), which the model's `tessellate` CHECKS on every run (outcome
    `unmodelled sort-spec-mismatch` otherwise; never seen) - so for every run that gets past that check;
    `insert_sorted_keeps_sorted` - the walk of `insert_into_sorted_list` from an event `after` of a sorted list
    whose position is before `p` links the new event in (between two nodes, at the end, or as a sibling) and
    the list stays sorted, contains `p`, keeps all its positions; `insert_sibling_keeps_sorted`,
    `push_unlinked_keeps_sorted`; `sorted_advance` (the step to the next event).
    `sweep_records_unit_sorted_partial`: with these the start state has `QOrd` up to the builder property
    `down`, so the hypotheses of the run-level theorem shrink to the preservation interface.

  NOT proved (the hypotheses that remain): the preservation interface `QOrdHyp QOrd R` through the steps of an
  event - it needs (a) the call-site precondition of `insert_sorted` (the new position is after the current
  vertex in the full sweep order, x included: `ActiveSpan` of `Props/C07d.lean` is about y only), (b) that the
  builder and the re-queueing sites (`process_intersection`, `merge_coincident_edges`) establish / keep
  `ToQueued`, (c) that an event removes every active edge that ends at the current vertex (a property of the
  scan), (d) the builder property `down`.  The same invariant is what C01's winding conservation needs.
-/
import LyonVerif.Lemmas.SweepQueueOrd
import LyonVerif.Lemmas.SweepQueueOrdLoop
import LyonVerif.Lemmas.SweepQueueOrdSort

set_option linter.unusedSectionVars false
set_option linter.unusedVariables false

namespace Lyon.C07e
open Lyon Lyon.Scalar Lyon.Sweep Lyon.EQ Lyon.SweepSpan Lyon.SweepRep Lyon.C07b
open Std.Do

section field
variable {K : Type} [Field K] [LinearOrder K] [IsStrictOrderedRing K]

/-- **a sorted `next_event` list starts at its smallest position** (pointer level) -/
theorem sorted_head_least {evs : Array (Event K)} {i : Nat} {p : P K} (hs : SortedFrom evs i)
    (hc : InChain evs i p) : (epos evs i).y ≤ p.y := chain_le hs hc

variable [w : Wide K]

/-- **`QOrd` gives `AdvOK`**: with the queue-order invariant the next vertex is spanned by every active edge -
the hypothesis of `C07d.initialize_events_keeps_unit` -/
theorem qord_gives_advOK {s : St K} (hI : Inv s) (hq : QOrd s) : AdvOK s := advOK_of_qord hI hq

/-- **the loop, relative to the queue invariant** -/
theorem loop_keeps_unit_partial {Q R : St K → Prop} {M : w.W → Prop} (hw : WClosure (α := K) U M)
    (h : QOrdHyp Q R) (f : Nat) :
    ⦃fun s => ⌜Inv s ∧ Q s⌝⦄ (tessellatorLoop f : SM K Unit)
    ⦃post⟨fun _ s => ⌜UInv s⌝, fun _ s => ⌜UInv s⌝⟩⦄ := tessellatorLoop_unit hw h f

/-- **`sweep_records_unit_queue_partial`** - over a linearly ordered field, for every polygonal input, entry
point, fill rule, orientation, tolerance, with or without intersection handling, for every outcome and WITHOUT
the `Tainted` restriction: every record listed with an emitted vertex has `0 ≤ range.start ≤ 1` and
`0 ≤ range.end ≤ 1`.  `_partial`: relative to the queue-order interface `QOrdHyp Q R` (see the header). -/
theorem sweep_records_unit_queue_partial (hW : WideLaws w) {Q R : St K → Prop} (h : QOrdHyp Q R)
    (entry : Entry) (rule : Slab.Rule) (horizontal : Bool) (tol : K) (handleIx : Bool) (subs : List (SubPath K))
    (hQ0 : Q (startSt (buildQueue entry horizontal subs).sort rule horizontal tol handleIx))
    (d : EdgeData K) (hd : Emitted (tessellate entry rule horizontal tol handleIx subs).2.1 d) :
    (0 ≤ d.t0 ∧ d.t0 ≤ 1) ∧ (0 ≤ d.t1 ∧ d.t1 ≤ 1) := by
  obtain ⟨M, hw⟩ := hW
  obtain ⟨pos, recs, p, hm, hr⟩ := hd
  unfold tessellate at hm
  dsimp only at hm
  split at hm
  · simp at hm
  · have hq0 : QOk (buildQueue entry horizontal subs) := by unfold buildQueue; exact qok_ofRecs _
    have hs := qok_sort hq0
    have hqu : QU (buildQueue entry horizontal subs).sort := by
      intro d0 hd0
      rw [hs.2.1] at hd0
      have := buildQueue_recs (U := U) entry horizontal subs (by rw [C07.zero_K]; exact ⟨le_refl _, zero_le_one⟩)
        (by rw [C07.one_K]; exact ⟨zero_le_one, le_refl _⟩) d0 hd0
      exact ⟨this.2.2.1, this.2.2.2⟩
    exact tessellateImpl_unit hw h _ hqu rule horizontal tol handleIx hQ0 pos recs hm (p, d) hr

/-- the interface with `Q := QOrd`: `adv` is a theorem -/
theorem qordHyp_of {R : St K → Prop}
    (init : ⦃fun s => ⌜Inv s ∧ QOrd s⌝⦄ (initializeEvents : SM K Unit) ⦃post⟨fun _ s => ⌜R s⌝, fun _ _ => ⌜True⌝⟩⦄)
    (event : ⦃fun s => ⌜Inv s ∧ R s⌝⦄ (processEvents : SM K (Option IErr)) ⦃post⟨fun _ s => ⌜R s⌝, fun _ _ => ⌜True⌝⟩⦄)
    (recover : ⦃fun s => ⌜Inv s ∧ R s⌝⦄ (recoverFromError : SM K Unit) ⦃post⟨fun _ s => ⌜R s⌝, fun _ _ => ⌜True⌝⟩⦄)
    (next : ∀ s : St K, Inv s → R s → QOrd { s with curEvent := s.q.nextId s.curEvent }) : QOrdHyp QOrd R :=
  ⟨fun s hI hq => advOK_of_qord hI hq, init, event, recover, next⟩

/-- **`sweep_records_unit_qord_partial`**: the same with the concrete pointer-level invariant `QOrd` at the head of
the loop - what remains as hypotheses is that the sorted start state has it and that the steps keep it -/
theorem sweep_records_unit_qord_partial (hW : WideLaws w) {R : St K → Prop} (h : QOrdHyp QOrd R)
    (entry : Entry) (rule : Slab.Rule) (horizontal : Bool) (tol : K) (handleIx : Bool) (subs : List (SubPath K))
    (hQ0 : QOrd (startSt (buildQueue entry horizontal subs).sort rule horizontal tol handleIx))
    (d : EdgeData K) (hd : Emitted (tessellate entry rule horizontal tol handleIx subs).2.1 d) :
    (0 ≤ d.t0 ∧ d.t0 ≤ 1) ∧ (0 ≤ d.t1 ∧ d.t1 ≤ 1) :=
  sweep_records_unit_queue_partial hW h entry rule horizontal tol handleIx subs hQ0 d hd

/-! ### the sorted part of the queue-order invariant (pointer level) -/

/-- **`sort` only rewrites links** -/
theorem sort_keeps_positions (q : Queue K) (i : Nat) : q.sort.position i = q.position i := sort_pos q i

/-- **`sort` builds a sorted `next_event` list** whenever its linked lists enumerate the list-level specification
(what the model's `tessellate` checks before it runs the sweep) -/
theorem sort_sorted_of_spec_check (q0 : Queue K) (hq0 : QOk q0)
    (hg : q0.sort.groups = Spec.sort q0.position q0.events.size) :
    SortedFrom q0.sort.events q0.sort.first := sort_sorted_of_spec q0 hq0 hg

/-- **`insert_sorted` keeps the list sorted** (the walk of `insert_into_sorted_list` that returns; `none` is the
model's `fuel_out`) -/
theorem insert_sorted_keeps_sorted (q : Queue K) (p : P K) (d : EdgeData K) (after : Nat) (hav : after ≠ INVALID)
    (hs : SortedFrom q.events after) (hpl : comparePositions (q.position after) p = .lt)
    (hnodes : ∀ j, NodeIn q.events after j → j < q.events.size) (hsz : q.events.size ≠ INVALID)
    (evs' : Array (Event K))
    (e : Queue.insertLoop q.events.size p (q.pushUnsorted p d).fuel (q.pushUnsorted p d).events after after = some evs') :
    SortedFrom evs' after ∧ InChain evs' after p ∧ ∀ r, InChain q.events after r → InChain evs' after r :=
  insertSorted_sorted q p d after hav hs hpl hnodes hsz evs' e

theorem insert_sibling_keeps_sorted (q : Queue K) (sib : Nat) (p : P K) (d : EdgeData K) (i : Nat)
    (hs : SortedFrom q.events i) (hnodes : ∀ j, NodeIn q.events i j → j < q.events.size) :
    SortedFrom (q.insertSibling sib p d).events i ∧
    ∀ r, InChain q.events i r → InChain (q.insertSibling sib p d).events i r :=
  insertSibling_sorted q sib p d i hs hnodes

theorem push_unlinked_keeps_sorted (q : Queue K) (p : P K) (d : EdgeData K) (i : Nat)
    (hs : SortedFrom q.events i) (hnodes : ∀ j, NodeIn q.events i j → j < q.events.size) :
    SortedFrom (q.pushUnlinked p d).1.events i ∧
    ∀ r, InChain q.events i r → InChain (q.pushUnlinked p d).1.events i r :=
  pushUnlinked_sorted q p d i hs hnodes

/-- the nodes of a list of a structurally well-formed queue are valid indices (the side condition above) -/
theorem list_nodes_valid {evs : Array (Event K)} (hl : LinksOk evs) {i j : Nat} (hn : NodeIn evs i j)
    (hi : Link evs.size i) : j < evs.size := nodes_lt hl hn hi

/-- **`sweep_records_unit_sorted_partial`**: the run-level statement with `QOrd` of the start state DISCHARGED
by `sort_sorted_of_spec_check` (inside `tessellate` the specification check has passed) - what remains as
hypotheses: the preservation interface `QOrdHyp QOrd R` and the builder property `down` for the first event -/
theorem sweep_records_unit_sorted_partial (hW : WideLaws w) {R : St K → Prop} (h : QOrdHyp QOrd R)
    (entry : Entry) (rule : Slab.Rule) (horizontal : Bool) (tol : K) (handleIx : Bool) (subs : List (SubPath K))
    (hdown : ∀ i ∈ (buildQueue entry horizontal subs).sort.siblings (buildQueue entry horizontal subs).sort.fuel
        (buildQueue entry horizontal subs).sort.firstId,
      ((buildQueue entry horizontal subs).sort.ed i).isEdge = true →
      ((buildQueue entry horizontal subs).sort.position (buildQueue entry horizontal subs).sort.firstId).y ≤
        ((buildQueue entry horizontal subs).sort.ed i).to.y)
    (d : EdgeData K) (hd : Emitted (tessellate entry rule horizontal tol handleIx subs).2.1 d) :
    (0 ≤ d.t0 ∧ d.t0 ≤ 1) ∧ (0 ≤ d.t1 ∧ d.t1 ≤ 1) := by
  have hq0 : QOk (buildQueue entry horizontal subs) := by unfold buildQueue; exact qok_ofRecs _
  by_cases hg : (buildQueue entry horizontal subs).sort.groups =
      Spec.sort (buildQueue entry horizontal subs).position (buildQueue entry horizontal subs).events.size
  · exact sweep_records_unit_queue_partial hW h entry rule horizontal tol handleIx subs
      (qord_start _ hq0 hg rule horizontal tol handleIx hdown) d hd
  · exfalso
    obtain ⟨pos, recs, p, hm, hr⟩ := hd
    unfold tessellate at hm
    dsimp only at hm
    rw [if_pos (by simpa using hg)] at hm
    simp at hm

end field

end Lyon.C07e
