/-
  C03 (growth e) — `PathBuilder::add_ellipse`: how far the curves it draws are from the ellipse.

  `add_ellipse(center, radii, x_rotation, winding)` builds the `Arc` (start 0, sweep ±2π) and sends
  one `quadratic_bezier_to(ctrl, to)` per piece of `Arc::for_each_quadratic_bezier`
  (`C03b.ellipse_helper_shape`).  These are the SAME pieces as C13's `arc_to_quadratic_beziers`
  (`ArcConv.quadsWithT`, tied by C13 and, through the helper, by C03's `helpers:32`), so C13b's
  deviation theorems over ℝ (`Transc ℝ` = C13's `exampleTransc`: Mathlib's `sin`, `cos`, `tan`, `π`,
  ceiling) apply:

  * `add_ellipse_radial_error_real`   the call list is `begin(arc.sample 0)`, the quadratics, `end(true)`;
                                      the pieces are connected and the first starts at the `begin`
                                      point (so the curves the builder draws ARE these quadratics);
                                      every point of every piece is within `0.32 %` of the larger
                                      radius of a point of the exact ellipse
  * `add_ellipse_circle_radial_error_real`  equal radii `r ≥ 0`: `r ≤ |Q(t) − c| ≤ 1.0032·r`: the
                                      quadratics run outside the circle, within `0.32 %` of `r`
-/
import LyonVerif.Props.C13b
import LyonVerif.Props.C03b

set_option linter.unusedSectionVars false
set_option linter.unusedVariables false

namespace Lyon.C03e
open Lyon Lyon.Path Lyon.PathShapes Lyon.ArcConv Lyon.C13

/-- the first piece starts where `add_ellipse` begins the sub-path -/
theorem first_piece_start (arc : Arc ℝ) (x : Quad ℝ × ℝ × ℝ) (h : (quadsWithT arc)[0]? = some x) :
    x.1.a = arc.sample 0 := by
  have hlen : (quadsWithT arc).length = nQ arc := (arc_beziers_ranges arc).1
  have h0 : 0 < nQ arc := by
    rw [← hlen]; exact (List.getElem?_eq_some_iff.mp h).1
  rw [quads_get arc 0 h0] at h
  cases h
  show pointAt arc (angleAt arc (stepQ arc) 0) = pointAt arc (arc.getAngle 0)
  congr 1
  simp [angleAt, Arc.getAngle, geom]

/-- **radial error of `add_ellipse`** over ℝ, for every centre, radii, x-rotation and winding:
1. the call list is `begin(arc.sample 0)`, one `quadratic_bezier_to(ctrl, to)` per piece, `end(true)`;
2. each piece starts where the previous one ends, the first one at the `begin` point — the curves
   the builder draws are exactly the pieces;
3. every point `Q(t)`, `t ∈ [0,1]`, of every piece is within `0.0032·max(|rx|, |ry|)` of a point of
   the exact ellipse (`ellMap arc u`, `u` on the unit circle) — squared form. -/
theorem add_ellipse_radial_error_real (c radii : P ℝ) (rot : ℝ) (pos : Bool) :
    addEllipse c radii rot pos
      = Call.begin ((ellipseArc c radii rot pos).sample 0) ()
        :: ((quadsWithT (ellipseArc c radii rot pos)).map (fun q => Call.quad q.1.c q.1.b ()))
        ++ [Call.end_ true] ∧
    (∀ j x y, (quadsWithT (ellipseArc c radii rot pos))[j]? = some x →
      (quadsWithT (ellipseArc c radii rot pos))[j+1]? = some y → x.1.b = y.1.a) ∧
    (∀ x, (quadsWithT (ellipseArc c radii rot pos))[0]? = some x →
      x.1.a = (ellipseArc c radii rot pos).sample 0) ∧
    (∀ x ∈ quadsWithT (ellipseArc c radii rot pos), ∀ t : ℝ, 0 ≤ t → t ≤ 1 →
      ∃ u : P ℝ, u.x * u.x + u.y * u.y = 1 ∧
        sqDist (x.1.sample t) (ellMap (ellipseArc c radii rot pos) u)
          ≤ (Max.max |radii.x| |radii.y| * (32 / 10000)) * (Max.max |radii.x| |radii.y| * (32 / 10000))) := by
  refine ⟨?_, (arc_beziers_connected _).1, first_piece_start _, ?_⟩
  · rw [C03b.ellipse_helper_shape c radii rot pos]
    have : (Scalar.zero : ℝ) = 0 := sc_zero
    rw [this]
  · intro x hx t h0 h1
    exact arc_quads_near_ellipse_real (ellipseArc c radii rot pos) x hx t h0 h1

/-- **`add_ellipse` with equal radii `r ≥ 0`**: every point of every piece satisfies
`r ≤ |Q(t) − center| ≤ 1.0032·r`. -/
theorem add_ellipse_circle_radial_error_real (c : P ℝ) (r rot : ℝ) (hr : 0 ≤ r) (pos : Bool) :
    ∀ x ∈ quadsWithT (ellipseArc c ⟨r, r⟩ rot pos), ∀ t : ℝ, 0 ≤ t → t ≤ 1 →
      r ≤ Real.sqrt (sqDist (x.1.sample t) c) ∧ Real.sqrt (sqDist (x.1.sample t) c) ≤ r * (10032 / 10000) := by
  intro x hx t h0 h1
  exact (arc_beziers_near_circle_real (ellipseArc c ⟨r, r⟩ rot pos) r rfl hr t h0 h1).1 x hx

/-- non-vacuity: the unit circle drawn by `add_ellipse` has 8 pieces (sweep 2π in steps of π/4) -/
example : (0 : ℝ) ≤ 1 ∧ (quadsWithT (ellipseArc (⟨0, 0⟩ : P ℝ) ⟨1, 1⟩ 0 true)).length
    = nQ (ellipseArc (⟨0, 0⟩ : P ℝ) ⟨1, 1⟩ 0 true) :=
  ⟨zero_le_one, (arc_beziers_ranges _).1⟩

end Lyon.C03e
