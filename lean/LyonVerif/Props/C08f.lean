/-
  C08 — the STROKE tessellator as the object family `stroke_reuse:32` runs it
  (`Model/Tess/ResetStrokeFull.lean`: `strokeCallF` / `strokeObjF`): the complete stroker model
  (`StrokeFull.lean`), the `StrokeBuilder` programs (`StrokeBuilderProg.lean`), the prologues of every
  entry point on the object's attribute buffer and recycled attribute store, the length-driven
  `interpolated_attributes` (`StrokeAttrBuffer.lean`), refused vertices, dropped builders and the
  rejected `tessellate_rectangle`.

  * `stroke_object_call_fresh`          one call on a used object (ANY buffer of any length, ANY store)
      = the same call on `StrokeT.new`: outcome, every vertex with all accessors, the attributes every
      vertex constructor reads, every triangle.
  * `stroke_history_fresh_full_object`  after EVERY history of such calls.
  * `stroke_history_outputs_full_object` the outputs of a whole history, call by call.
  * `stroke_object_store_recycled`      what the builder entry points make of the recycled store does
      not depend on what it held.
  * `stroke_object_fw_is_attrs_call`    on the calls both models can express (`tessellate` without a
      fault) the object model IS `strokeFullCallB` of `Props/C08e.lean`.

  What is new with respect to `Props/C08c.lean` + `Props/C08e.lean` (`stroke_history_fresh_full_attrs`):
  those are about `strokeFullCallB`, whose call is a list of plain path events with ids 0, 1, 2, …
  stroked with ONE option record; it is not run by any model family.  Here the call is what the entry
  points really receive — the caller's endpoint ids and store for `tessellate_with_ids` /
  `tessellate_path`, a PROGRAM for the builders (several sub-paths, shape helpers incl. the thin
  rectangle with its temporarily widened options, option setters between and inside sub-paths; the
  attribute store fed by `SimpleAttributeStore::add` into the recycled store and read back by `get`),
  a refused vertex (once, twice, from then on: emitted prefix, `Err`, one refused call), a vertex
  constructor that panics (the call unwinds), a dropped builder, a rejected call — and this exact
  definition is executed by the C08 model driver over whole histories against one real reused
  `StrokeTessellator` (family `stroke_reuse:32`, bit for bit).  The proofs stay short because the code
  is that simple: every path from the object's fields to the stroker goes through `reset(n)` /
  `clear()` / a local `Vec`.
-/
import LyonVerif.Model.Tess.ResetStrokeFull
import LyonVerif.Lemmas.Reset

set_option linter.unusedSectionVars false
set_option linter.unusedVariables false

namespace Lyon.C08
open Lyon Lyon.Reset Lyon.Stroke Lyon.Stroke.Full
open Lyon.StrokeQuad (Ix)

variable {α : Type} [Scalar α]

/-- **`reset(n)` + the `add`s of the program forget the recycled store**: data, ids, attribute count -/
theorem stroke_object_store_recycled (s s' : Store α) (o : Opts α) (n : Nat) (d : Bool) (cmds : List (Prog.Cmd α)) :
    storeAfterF s (.prog o n d cmds) = storeAfterF s' (.prog o n d cmds) := rfl

/-- the store the stroker reads never depends on the object's old store -/
theorem storeFnF_fresh (s s' : Store α) (b : BodyF α) : storeFnF s b = storeFnF s' b := by
  cases b <;> rfl

/-- the buffer the stroker borrows never depends on the object's old buffer -/
theorem prologueBufferF_fresh (old old' : List α) (b : BodyF α) :
    prologueBuffer old b.entry = prologueBuffer old' b.entry := by
  cases h : b.entry <;> rfl

section
variable [Transc α] [Asin α] [FlatConst α]

theorem coreOutF_fresh (ix : Ix α) (s s' : Store α) (b : BodyF α) : coreOutF ix s b = coreOutF ix s' b := by
  cases b <;> rfl

/-- the output of `strokeCallF` as a function of what the prologue hands to the stroker -/
theorem strokeCallF_snd (ix : Ix α) (t : StrokeT α) (c : CallF α) :
    (strokeCallF ix t c).2 =
      match c.body with
      | .rejected => OutF.panic
      | body => (finishF c (storeFnF t.store body) (prologueBuffer t.attribBuffer body.entry)
                  (coreOutF ix t.store body)).1 := by
  unfold strokeCallF
  cases c.body <;> rfl

/-- **One call of a used `StrokeTessellator` = the same call of a new one**, on the object model of
family `stroke_reuse:32`: every entry point (`tessellate`, `tessellate_polygon`, `tessellate_path`,
`tessellate_with_ids` with or without a store, `builder`, `builder_with_attributes(n)` with any
program, built or dropped, `tessellate_rectangle` / `_circle` / `_ellipse`, the rejected rectangle),
every option set, fixed or variable width, any attribute count, a geometry builder that refuses any
vertex — WHATEVER the object's attribute buffer (any length) and builder store held: the outcome,
every vertex, the attributes every vertex constructor reads, every triangle. -/
theorem stroke_object_call_fresh (ix : Ix α) (t : StrokeT α) (c : CallF α) :
    (strokeCallF ix t c).2 = (strokeCallF ix StrokeT.new c).2 := by
  rw [strokeCallF_snd, strokeCallF_snd]
  cases hb : c.body <;>
    simp only [storeFnF_fresh t.store (StrokeT.new : StrokeT α).store,
      coreOutF_fresh ix t.store (StrokeT.new : StrokeT α).store,
      prologueBufferF_fresh t.attribBuffer (StrokeT.new : StrokeT α).attribBuffer]

theorem strokeObjF_stateless (ix : Ix α) : Stateless (strokeObjF ix) := by
  intro s s' c
  show (strokeCallF ix s c).2 = (strokeCallF ix s' c).2
  rw [stroke_object_call_fresh ix s, stroke_object_call_fresh ix s']

/-- **After every history** of calls on the object — any entry points, programs, attribute counts
growing or shrinking, refused vertices, dropped builders, rejected calls, whatever they left in the
buffer and the store — the next call's complete output (outcome, vertices, interpolated attributes,
triangles) is a new tessellator's. -/
theorem stroke_history_fresh_full_object (ix : Ix α) (t0 : StrokeT α) (hist : List (CallF α)) (c : CallF α) :
    ((strokeObjF ix).call ((strokeObjF ix).run t0 hist) c).2 = ((strokeObjF ix).call StrokeT.new c).2 :=
  strokeObjF_stateless ix _ _ c

/-- every call of every history equals the call on a fresh object -/
theorem stroke_history_outputs_full_object (ix : Ix α) (t0 : StrokeT α) (hist : List (CallF α)) :
    (strokeObjF ix).outputs t0 hist = hist.map (fun c => ((strokeObjF ix).call StrokeT.new c).2) :=
  (strokeObjF_stateless ix).outputs StrokeT.new hist t0

/-- **The object model extends `strokeFullCallB`** (`Props/C08e.lean`): on an un-faulted `tessellate`
call — the calls both can express — its output is the output of `strokeFullCallB`. -/
theorem stroke_object_fw_is_attrs_call (ix : Ix α) (t : StrokeT α) (o : Opts α) (evs : List (PathEv α))
    (attrs : List (List α)) (scribble : List α) :
    (strokeCallF ix t ⟨.fw o evs, none, none⟩).2 =
      match (strokeFullCallB ix t ⟨.events, evs, attrs, o, scribble⟩).2 with
      | none => OutF.panic
      | some (out, l) => ⟨.ok, out.verts, l, out.tris, 0⟩ := by
  simp only [strokeCallF, finishF, coreOutF, strokeFullCallB, strokeFullCall, callStore, storeFnF,
    BodyF.entry, BodyF.isDropped, cutVerts, cutTris, wasRefused, ctorPanics]
  cases h : tessellateFw (Env.new o ix) evs with
  | none => rfl
  | some out =>
    simp only []
    cases h2 : (attrsSeqB (fun _ => []) (List.map (fun x => x.src) out.verts)
        ⟨false, prologueBuffer t.attribBuffer StrokeEntry.events⟩).1 <;> simp

end

end Lyon.C08
