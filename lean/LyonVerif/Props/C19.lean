/-
  C19 — measuring, sampling, walking and splitting by distance are mutually consistent.

  The statements are about the model functions of `Model/Algo/Measure.lean` and
  `Model/Algo/Walk.lean` — the same `def`s the correspondence check runs at `Float32` against
  `lyon_algorithms::{measure, walk, length}` — instantiated at an arbitrary linearly ordered
  field `K`.  The 1-D core (edge table = list of cumulative distances, cursor search, parameter
  interpolation, the `add_segment` pieces of `split_range`, the walker's leftover arithmetic) is
  proved for ALL tables / cursors / distances / query histories / patterns; the 2-D claims go
  through `LineSegment::sample` (C10).  What is not a theorem: IEEE rounding (oracle allowance);
  for curved segments (in the model and in the tie, flattening from C09) the table-shape theorems
  (`init1_inv`, coherence, `sample_never_panics`) are stated for polyline paths only.
-/
import LyonVerif.Lemmas.Measure
import Mathlib.Tactic.NormNum
import Mathlib.Tactic.IntervalCases
import Mathlib.Algebra.Order.Field.Rat

set_option linter.unusedSectionVars false
set_option linter.unusedVariables false

geom_all Lyon.Measure
geom_all Lyon.Walk

namespace Lyon.C19
open Lyon Lyon.Measure Scalar

variable {K : Type} [Field K] [LinearOrder K] [IsStrictOrderedRing K]

/-- the table is non-decreasing -/
def Mono (es : List (Edge K)) : Prop :=
  ∀ i j, i ≤ j → j < es.length → dAt es i ≤ dAt es j

theorem length_eq (es : List (Edge K)) (h : 0 < es.length) : length es = dAt es (es.length - 1) := by
  unfold length
  have : es.isEmpty = false := by
    cases es with
    | nil => simp at h
    | cons a r => rfl
  simp [this]

/-! ### `move_cursor` -/

/-- The search part of `move_cursor` (reached when `dist ≠ 0` and the cursor is out of bounds):
whichever of the four scans runs, the new cursor brackets `dist`, strictly on the left.
No monotonicity of the table is needed for this. -/
theorem search_in_bounds (es : List (Edge K)) (c : Nat) (dist : K) (linF linB : Bool)
    (h0 : dAt es 0 = 0) (hc : c < es.length) (hpos : 0 < dist) (hlen : dist ≤ length es)
    (hnb : ¬ inBounds es c dist) :
    1 ≤ (if dAt es c < dist then searchFwd linF es c dist else searchBwd linB es c dist) ∧
    (if dAt es c < dist then searchFwd linF es c dist else searchBwd linB es c dist) < es.length ∧
    dAt es ((if dAt es c < dist then searchFwd linF es c dist else searchBwd linB es c dist) - 1) < dist ∧
    dist ≤ dAt es (if dAt es c < dist then searchFwd linF es c dist else searchBwd linB es c dist) := by
  have hL : length es = dAt es (es.length - 1) := length_eq es (by omega)
  rw [hL] at hlen
  by_cases hlt : dAt es c < dist
  · rw [if_pos hlt]
    have hcl : c ≠ es.length - 1 := by
      intro h
      rw [← h] at hlen
      exact absurd hlt (not_lt.mpr hlen)
    cases linF with
    | true =>
      simp only [searchFwd, if_true]
      have := fwdLin_spec es dist (es.length - 1) hlen (es.length - c - 1) c (by omega) (by omega) hlt
      exact ⟨by omega, by omega, this.2.2.1, this.2.2.2⟩
    | false =>
      simp only [searchFwd, Bool.false_eq_true, if_false]
      have := partPt_spec (ltPred es dist) (c + 1) es.length es.length (c + 1) es.length
        (by omega) (by omega) (Or.inl rfl) (Or.inl rfl)
      obtain ⟨h1, h2, h3, h4⟩ := this
      have hlt' : dAt es (partPt (ltPred es dist) es.length (c + 1) es.length - 1) < dist := by
        rcases h3 with h3 | h3
        · rw [h3]; simpa using hlt
        · simpa [ltPred] using h3
      have hne : partPt (ltPred es dist) es.length (c + 1) es.length ≠ es.length := by
        intro h
        rw [h] at hlt'
        exact absurd hlt' (not_lt.mpr hlen)
      refine ⟨by omega, by omega, hlt', ?_⟩
      rcases h4 with h4 | h4
      · exact absurd h4 hne
      · simpa [ltPred] using h4
  · rw [if_neg hlt]
    have hle : dist ≤ dAt es c := not_lt.mp hlt
    have hc0 : c ≠ 0 := by
      intro h
      rw [h, h0] at hle
      exact absurd hpos (not_lt.mpr hle)
    have hprev : dist < dAt es (c - 1) := by
      by_contra h
      exact hnb ⟨hc0, not_lt.mp h, hle⟩
    cases linB with
    | true =>
      simp only [searchBwd, if_true]
      have := bwdLin_spec es dist (c - 1) (le_of_lt hprev)
      have hcc : c - 1 + 1 = c := by omega
      rw [hcc] at this
      obtain ⟨h1, h2, h3⟩ := this
      have hp0 : bwdLin es dist c ≠ 0 := by
        intro h
        rw [h, h0] at h3
        exact absurd hpos (not_lt.mpr h3)
      refine ⟨by omega, by omega, ?_, h3⟩
      rcases h2 with h2 | h2
      · exact absurd h2 hp0
      · exact h2
    | false =>
      simp only [searchBwd, Bool.false_eq_true, if_false]
      have := partPt_spec (ltPred es dist) 0 c (c + 1) 0 c (by omega) (by omega) (Or.inl rfl) (Or.inl rfl)
      obtain ⟨h1, h2, h3, h4⟩ := this
      have hp0 : partPt (ltPred es dist) (c + 1) 0 c ≠ 0 := by
        intro h
        rw [h] at h4
        rcases h4 with h4 | h4
        · exact hc0 h4.symm
        · have : ¬ (dAt es 0 < dist) := by simpa [ltPred] using h4
          rw [h0] at this
          exact this hpos
      refine ⟨by omega, by omega, ?_, ?_⟩
      · rcases h3 with h3 | h3
        · exact absurd h3 hp0
        · simpa [ltPred] using h3
      · rcases h4 with h4 | h4
        · rw [h4]; exact hle
        · simpa [ltPred] using h4

/-- The `dist == 0.0` branch (repaired code): on a non-decreasing table starting at 0 with positive
length, the scan rests on an entry `p ≥ 1` with `edges[p-1].distance = 0 < edges[p].distance`. -/
theorem zero_cursor (es : List (Edge K)) (h0 : dAt es 0 = 0) (hmono : Mono es) (hL : 0 < length es) :
    1 ≤ zeroScan es es.length 1 ∧ zeroScan es es.length 1 < es.length ∧
    dAt es (zeroScan es es.length 1 - 1) = 0 ∧ 0 < dAt es (zeroScan es es.length 1) := by
  have hlen1 : 1 < es.length := by
    by_contra h
    have : es.length - 1 = 0 := by omega
    by_cases he : 0 < es.length
    · rw [length_eq es he, this, h0] at hL
      exact lt_irrefl _ hL
    · have : es = [] := by
        cases es with
        | nil => rfl
        | cons a r => simp at he
      rw [this] at hL
      simp [length] at hL
  obtain ⟨s1, s2, s3, s4⟩ := zeroScan_spec es es.length 1 (le_refl _) hlen1 (by omega) (by simpa using h0)
  refine ⟨s1, s2, s3, ?_⟩
  rcases s4 with s4 | s4
  · have : zeroScan es es.length 1 = es.length - 1 := by omega
    rw [this, ← length_eq es (by omega)]
    exact hL
  · have := hmono 0 (zeroScan es es.length 1) (by omega) s2
    rw [h0] at this
    exact lt_of_le_of_ne this (Ne.symm s4)

/-- **move_cursor_in_bounds.**  For every non-decreasing table starting at 0 with positive
length, every prior cursor and every `dist ∈ [0, length]`, the new cursor `c'` satisfies
`1 ≤ c' < len` and `edges[c'-1].distance ≤ dist ≤ edges[c'].distance` — whichever search branch
is taken (`linF`, `linB` are arbitrary: the float heuristic only selects them). -/
theorem move_cursor_in_bounds (es : List (Edge K)) (c : Nat) (dist : K) (linF linB : Bool)
    (h0 : dAt es 0 = 0) (hmono : Mono es) (hc : c < es.length) (hL : 0 < length es)
    (hd0 : 0 ≤ dist) (hd1 : dist ≤ length es) :
    1 ≤ moveCursorWith linF linB es c dist ∧ moveCursorWith linF linB es c dist < es.length ∧
    dAt es (moveCursorWith linF linB es c dist - 1) ≤ dist ∧
    dist ≤ dAt es (moveCursorWith linF linB es c dist) := by
  unfold moveCursorWith
  by_cases hz : dist = 0
  · have : (dist == (Scalar.zero : K)) = true := by
      rw [sc_beq]; simpa using hz
    rw [if_pos this]
    obtain ⟨z1, z2, z3, z4⟩ := zero_cursor es h0 hmono hL
    exact ⟨z1, z2, by rw [z3, hz], by rw [hz]; exact le_of_lt z4⟩
  · have : ¬ ((dist == (Scalar.zero : K)) = true) := by
      rw [sc_beq]; simpa using hz
    rw [if_neg this]
    by_cases hib : inBounds es c dist
    · rw [if_pos hib]
      exact ⟨Nat.one_le_iff_ne_zero.mpr hib.1, hc, hib.2.1, hib.2.2⟩
    · rw [if_neg hib]
      have hpos : 0 < dist := lt_of_le_of_ne hd0 (Ne.symm hz)
      have := search_in_bounds es c dist linF linB h0 hc hpos hd1 hib
      exact ⟨this.1, this.2.1, le_of_lt this.2.2.1, this.2.2.2⟩

/-- the cursor as it really moves (heuristic-selected branches) is an instance -/
theorem move_cursor_in_bounds_heuristic (es : List (Edge K)) (c : Nat) (dist : K)
    (h0 : dAt es 0 = 0) (hmono : Mono es) (hc : c < es.length) (hL : 0 < length es)
    (hd0 : 0 ≤ dist) (hd1 : dist ≤ length es) :
    1 ≤ moveCursor es c dist ∧ moveCursor es c dist < es.length ∧
    dAt es (moveCursor es c dist - 1) ≤ dist ∧ dist ≤ dAt es (moveCursor es c dist) :=
  move_cursor_in_bounds es c dist _ _ h0 hmono hc hL hd0 hd1

/-! ### history independence -/

/-- on a non-decreasing table a strict bracket determines the cursor -/
theorem cursor_unique (es : List (Edge K)) (hmono : Mono es) (dist : K) (c k : Nat)
    (hc1 : 1 ≤ c) (hc : c < es.length) (h1 : dAt es (c - 1) ≤ dist) (h2 : dist ≤ dAt es c)
    (hk1 : 1 ≤ k) (hk : k < es.length) (hlt : dAt es (k - 1) < dist) (hlt' : dist < dAt es k) :
    c = k := by
  by_contra hne
  rcases Nat.lt_or_gt_of_ne hne with h | h
  · have := hmono c (k - 1) (by omega) (by omega)
    exact absurd (lt_of_le_of_lt (le_trans h2 this) hlt) (lt_irrefl _)
  · have := hmono k (c - 1) (by omega) (by omega)
    exact absurd (lt_of_lt_of_le hlt' (le_trans this h1)) (lt_irrefl _)

/-- **sample_history_independent (cursor).**  Where the table is strictly increasing around
`dist` (`edges[k-1].distance < dist < edges[k].distance`), the cursor after `move_cursor(dist)` is
`k` — for every previous cursor (i.e. every query history) and every choice of search branch. -/
theorem cursor_history_independent (es : List (Edge K)) (c : Nat) (dist : K) (linF linB : Bool)
    (h0 : dAt es 0 = 0) (hmono : Mono es) (hc : c < es.length) (hL : 0 < length es)
    (hd0 : 0 ≤ dist) (hd1 : dist ≤ length es)
    (k : Nat) (hk1 : 1 ≤ k) (hk : k < es.length) (hlt : dAt es (k - 1) < dist) (hlt' : dist < dAt es k) :
    moveCursorWith linF linB es c dist = k := by
  have := move_cursor_in_bounds es c dist linF linB h0 hmono hc hL hd0 hd1
  exact cursor_unique es hmono dist _ k this.1 this.2.1 this.2.2.1 this.2.2.2 hk1 hk hlt hlt'

/-- **sample_history_independent.**  The result of `sample_impl` (position, tangent, attributes,
or panic) does not depend on the cursor left behind by previous queries, at every distance whose
clamped value lies strictly inside a table interval. -/
theorem sample_history_independent [Transc K] (m : M K) (c1 c2 : Nat) (normalized : Bool) (d : K)
    (h0 : dAt m.edges 0 = 0) (hmono : Mono m.edges)
    (hc1 : c1 < m.edges.length) (hc2 : c2 < m.edges.length)
    (hd0 : 0 ≤ clampDist normalized (length m.edges) d)
    (hd1 : clampDist normalized (length m.edges) d ≤ length m.edges)
    (k : Nat) (hk1 : 1 ≤ k) (hk : k < m.edges.length)
    (hlt : dAt m.edges (k - 1) < clampDist normalized (length m.edges) d)
    (hlt' : clampDist normalized (length m.edges) d < dAt m.edges k) :
    (sampleImpl m c1 normalized d).2 = (sampleImpl m c2 normalized d).2 ∧
    (sampleImpl m c1 normalized d).1 = (sampleImpl m c2 normalized d).1 := by
  have hL : 0 < length m.edges := by
    have a := hmono 0 (k - 1) (by omega) (by omega)
    rw [h0] at a
    exact lt_of_lt_of_le (lt_of_le_of_lt a hlt) hd1
  have hz : ¬ ((length m.edges == (Scalar.zero : K)) = true) := by
    rw [sc_beq]
    have : length m.edges ≠ 0 := ne_of_gt hL
    simpa using this
  have e1 := cursor_history_independent m.edges c1 (clampDist normalized (length m.edges) d)
    (heurFwd m.edges c1 (clampDist normalized (length m.edges) d))
    (heurBwd m.edges c1 (clampDist normalized (length m.edges) d))
    h0 hmono hc1 hL hd0 hd1 k hk1 hk hlt hlt'
  have e2 := cursor_history_independent m.edges c2 (clampDist normalized (length m.edges) d)
    (heurFwd m.edges c2 (clampDist normalized (length m.edges) d))
    (heurBwd m.edges c2 (clampDist normalized (length m.edges) d))
    h0 hmono hc2 hL hd0 hd1 k hk1 hk hlt hlt'
  unfold sampleImpl
  rw [if_neg hz, if_neg hz]
  show _ ∧ moveCursor m.edges c1 _ = moveCursor m.edges c2 _
  unfold moveCursor
  rw [e1, e2]
  exact ⟨rfl, rfl⟩

/-! ### the parameter on the segment -/

/-- **t_in_range.**  With the cursor in bounds on an entry of positive length, `t(dist)` lies
between the parameters of the two table entries (so in `[0, 1]`). -/
theorem t_in_range (es : List (Edge K)) (c : Nat) (dist : K)
    (h1 : dAt es (c - 1) ≤ dist) (h2 : dist ≤ dAt es c) (hpos : dAt es (c - 1) < dAt es c)
    (htb : tBegin es c ≤ (eAt es c).t) :
    tBegin es c ≤ tParam es c dist ∧ tParam es c dist ≤ (eAt es c).t := by
  unfold tParam
  have hden : 0 < dAt es c - dAt es (c - 1) := sub_pos.mpr hpos
  have hr0 : 0 ≤ (dist - dAt es (c - 1)) / (dAt es c - dAt es (c - 1)) :=
    div_nonneg (sub_nonneg.mpr h1) (le_of_lt hden)
  have hr1 : (dist - dAt es (c - 1)) / (dAt es c - dAt es (c - 1)) ≤ 1 :=
    (div_le_one hden).mpr (by linarith)
  have hw : 0 ≤ (eAt es c).t - tBegin es c := sub_nonneg.mpr htb
  constructor
  · have := mul_nonneg hw hr0
    linarith
  · have := mul_le_mul_of_nonneg_left hr1 hw
    linarith

/-- **sample_at_distance (1-D).**  On a polyline entry (`t_begin = 0`, `t_end = 1`) the parameter
is the arclength fraction: walking `t · (edge length)` from the entry's start distance gives `dist`. -/
theorem sample_at_distance_1d (es : List (Edge K)) (c : Nat) (dist : K)
    (hpos : dAt es (c - 1) < dAt es c) (htb : tBegin es c = 0) (hte : (eAt es c).t = 1) :
    dAt es (c - 1) + tParam es c dist * (dAt es c - dAt es (c - 1)) = dist := by
  unfold tParam
  rw [htb, hte]
  have hden : dAt es c - dAt es (c - 1) ≠ 0 := ne_of_gt (sub_pos.mpr hpos)
  field_simp
  ring

/-- **sample_at_distance.**  The sampled position `from.lerp(to, t)` lies on the edge at distance
`dist − edges[c-1].distance` from the edge's start (squared form: no square root needed), given
that the table entry's length is the edge's length. -/
theorem sample_at_distance (es : List (Edge K)) (c : Nat) (dist : K) (f g : P K)
    (hpos : dAt es (c - 1) < dAt es c) (htb : tBegin es c = 0) (hte : (eAt es c).t = 1)
    (hlen : (dAt es c - dAt es (c - 1)) * (dAt es c - dAt es (c - 1)) = (g - f).sqLen) :
    ((f.lerp g (tParam es c dist)) - f).sqLen
      = (dist - dAt es (c - 1)) * (dist - dAt es (c - 1)) := by
  have h := sample_at_distance_1d es c dist hpos htb hte
  have e : ((f.lerp g (tParam es c dist)) - f).sqLen
      = tParam es c dist * tParam es c dist * (g - f).sqLen := by
    geom_ring
  rw [e, ← hlen]
  have : dist - dAt es (c - 1) = tParam es c dist * (dAt es c - dAt es (c - 1)) := by
    linarith
  rw [this]
  ring

/-! ### split_range: lengths add up (1-D) -/

/-- sum of the first `n` event lengths -/
def pre (l : List K) (n : Nat) : K := (l.take n).sum
/-- length of event `i` (0 for `Begin`/open `End`/out of range) -/
def evLen (l : List K) (i : Nat) : K := l.getD i 0

/-- 1-D length of what one `add_segment` call emits: the parameter range times the event's length -/
def pieceLen (l : List K) (p : Piece K) : K :=
  match p.range with
  | some (a, b) => (b - a) * evLen l p.seg
  | none => evLen l p.seg

def piecesLen (l : List K) (ps : List (Piece K)) : K := (ps.map (pieceLen l)).sum

/-- The edge table agrees with the event lengths `l` (this is what `initialize` establishes, see
`init1_coherent`): entry `k` carries the sum of the lengths up to and including its event, the
entry before it the sum of the lengths before its event. -/
def Coherent (es : List (Edge K)) (l : List K) : Prop :=
  ∀ k, 1 ≤ k → k < es.length →
    dAt es k = pre l ((eAt es k).index + 1) ∧ dAt es (k - 1) = pre l (eAt es k).index

theorem pre_succ (l : List K) (i : Nat) : pre l (i + 1) = pre l i + evLen l i := by
  unfold pre evLen
  rw [List.take_add_one, List.sum_append]
  cases h : l[i]? with
  | none => simp [List.getD, h]
  | some v => simp [List.getD, h]

theorem sum_range_evLen (l : List K) (n a : Nat) :
    ((List.range' a n).map (evLen l)).sum = pre l (a + n) - pre l a := by
  induction n generalizing a with
  | zero => simp
  | succ n ih =>
    rw [List.range'_succ, List.map_cons, List.sum_cons, ih (a + 1), pre_succ l a]
    have : a + 1 + n = a + (n + 1) := by omega
    rw [this]
    ring

/-- **split length (1-D).**  With both cursors in bounds on straight entries of positive length at
which the table agrees with the event lengths (the entries in between may belong to curves), the pieces `split_range` hands to `add_segment` for the clamped range `s..e`
have total length `e − s`. -/
theorem split_pieces_length_at (es : List (Edge K)) (l : List K) (p1 p2 : Nat) (s e : K)
    (c1 : dAt es p1 = pre l ((eAt es p1).index + 1)) (c1' : dAt es (p1 - 1) = pre l (eAt es p1).index)
    (c2 : dAt es p2 = pre l ((eAt es p2).index + 1)) (c2' : dAt es (p2 - 1) = pre l (eAt es p2).index)
    (h1 : 1 ≤ p1) (h1' : p1 < es.length) (h2 : 1 ≤ p2) (h2' : p2 < es.length)
    (hg1 : dAt es (p1 - 1) < dAt es p1) (hg2 : dAt es (p2 - 1) < dAt es p2)
    (ht1 : tBegin es p1 = 0) (ht1' : (eAt es p1).t = 1)
    (ht2 : tBegin es p2 = 0) (ht2' : (eAt es p2).t = 1)
    (hidx : (eAt es p1).index ≤ (eAt es p2).index)
    (hsame : (eAt es p1).index = (eAt es p2).index → p1 = p2) :
    piecesLen l (splitPieces es p1 p2 s e) = e - s := by
  have a1 := sample_at_distance_1d es p1 s hg1 ht1 ht1'
  have a2 := sample_at_distance_1d es p2 e hg2 ht2 ht2'
  have l1 : evLen l (eAt es p1).index = dAt es p1 - dAt es (p1 - 1) := by
    have := pre_succ l (eAt es p1).index
    rw [c1, c1']; linarith
  have l2 : evLen l (eAt es p2).index = dAt es p2 - dAt es (p2 - 1) := by
    have := pre_succ l (eAt es p2).index
    rw [c2, c2']; linarith
  unfold splitPieces
  by_cases hs : (eAt es p1).index = (eAt es p2).index
  · rw [if_pos hs]
    have hp := hsame hs
    subst hp
    simp only [piecesLen, List.map_cons, List.map_nil, List.sum_cons, List.sum_nil, pieceLen, l1]
    linarith
  · rw [if_neg hs]
    have hlt : (eAt es p1).index + 1 ≤ (eAt es p2).index := by omega
    simp only [piecesLen, List.map_cons, List.map_append, List.map_map, List.map_nil, List.sum_cons,
      List.sum_append, List.sum_nil]
    have hmid : (List.map (pieceLen l ∘ fun i => (⟨i, none⟩ : Piece K))
        (List.range' ((eAt es p1).index + 1) ((eAt es p2).index - ((eAt es p1).index + 1)))).sum
        = dAt es (p2 - 1) - dAt es p1 := by
      have : (pieceLen l ∘ fun i => (⟨i, none⟩ : Piece K)) = evLen l := by
        funext i; simp [pieceLen]
      rw [this, sum_range_evLen, c1, c2']
      have : (eAt es p1).index + 1 + ((eAt es p2).index - ((eAt es p1).index + 1)) = (eAt es p2).index := by
        omega
      rw [this]
    rw [hmid]
    simp only [pieceLen, l1, l2]
    have z : (Scalar.zero : K) = 0 := by simp
    have o : (Scalar.one : K) = 1 := by simp
    rw [z, o]
    linarith

/-- **split length (1-D)** for a table coherent everywhere (polyline tables: `init1_coherent`) -/
theorem split_pieces_length (es : List (Edge K)) (l : List K) (p1 p2 : Nat) (s e : K)
    (hco : Coherent es l)
    (h1 : 1 ≤ p1) (h1' : p1 < es.length) (h2 : 1 ≤ p2) (h2' : p2 < es.length)
    (hg1 : dAt es (p1 - 1) < dAt es p1) (hg2 : dAt es (p2 - 1) < dAt es p2)
    (ht1 : tBegin es p1 = 0) (ht1' : (eAt es p1).t = 1)
    (ht2 : tBegin es p2 = 0) (ht2' : (eAt es p2).t = 1)
    (hidx : (eAt es p1).index ≤ (eAt es p2).index)
    (hsame : (eAt es p1).index = (eAt es p2).index → p1 = p2) :
    piecesLen l (splitPieces es p1 p2 s e) = e - s :=
  split_pieces_length_at es l p1 p2 s e (hco p1 h1 h1').1 (hco p1 h1 h1').2 (hco p2 h2 h2').1
    (hco p2 h2 h2').2 h1 h1' h2 h2' hg1 hg2 ht1 ht1' ht2 ht2' hidx hsame

/-- **split_lengths_add.**  The pieces for `a..b` and `b..c` add up to those for `a..c`
(1-D model; the cursor found for `b` as an end may differ from the one found for it as a start). -/
theorem split_lengths_add (es : List (Edge K)) (l : List K) (pa pb pb' pc : Nat) (a b c : K)
    (hco : Coherent es l)
    (hpoly : ∀ p, 1 ≤ p → p < es.length → tBegin es p = 0 ∧ (eAt es p).t = 1)
    (hinj : ∀ p q, 1 ≤ p → p ≤ q → q < es.length →
      (eAt es p).index ≤ (eAt es q).index ∧ ((eAt es p).index = (eAt es q).index → p = q))
    (ha : 1 ≤ pa) (hab : pa ≤ pb) (hab' : pa ≤ pc) (hb' : 1 ≤ pb') (hbc : pb' ≤ pc) (hc : pc < es.length)
    (hb : pb < es.length)
    (ga : dAt es (pa - 1) < dAt es pa) (gb : dAt es (pb - 1) < dAt es pb)
    (gb' : dAt es (pb' - 1) < dAt es pb') (gc : dAt es (pc - 1) < dAt es pc) :
    piecesLen l (splitPieces es pa pb a b) + piecesLen l (splitPieces es pb' pc b c)
      = piecesLen l (splitPieces es pa pc a c) := by
  have e1 := split_pieces_length es l pa pb a b hco ha (by omega) (by omega) hb ga gb
    (hpoly pa ha (by omega)).1 (hpoly pa ha (by omega)).2
    (hpoly pb (by omega) hb).1 (hpoly pb (by omega) hb).2
    (hinj pa pb ha hab hb).1 (hinj pa pb ha hab hb).2
  have e2 := split_pieces_length es l pb' pc b c hco hb' (by omega) (by omega) hc gb' gc
    (hpoly pb' hb' (by omega)).1 (hpoly pb' hb' (by omega)).2
    (hpoly pc (by omega) hc).1 (hpoly pc (by omega) hc).2
    (hinj pb' pc hb' hbc hc).1 (hinj pb' pc hb' hbc hc).2
  have e3 := split_pieces_length es l pa pc a c hco ha (by omega) (by omega) hc ga gc
    (hpoly pa ha (by omega)).1 (hpoly pa ha (by omega)).2
    (hpoly pc (by omega) hc).1 (hpoly pc (by omega) hc).2
    (hinj pa pc ha hab' hc).1 (hinj pa pc ha hab' hc).2
  rw [e1, e2, e3]
  ring

/-! ### the walker (1-D core of `PathWalker::edge`) -/

open Lyon.Walk

/-- the advancement at which callback number `k` is due: `start + Σ_{j<k} d_j`, where `d_j` is
the answer of the `j`-th call of `Pattern::next` -/
def cum (start : K) (pat : Pat K) : Nat → K
  | 0 => start
  | k + 1 => cum start pat k + (pat k).getD 0

/-- walker invariant: callback number `w.k` is due at `advancement + next_distance` -/
def Due (start : K) (pat : Pat K) (w : W1 K) : Prop :=
  w.advancement + w.nextDistance = cum start pat w.k

theorem edgeLoop_due (pat : Pat K) (invD start : K) :
    ∀ (fuel : Nat) (w : W1 K) (distance x : K), Due start pat w →
      (∀ h ∈ (edgeLoop pat invD fuel w distance x).hits, h.distance = cum start pat h.k) ∧
      ((edgeLoop pat invD fuel w distance x).w.done = false →
        Due start pat (edgeLoop pat invD fuel w distance x).w) := by
  intro fuel
  induction fuel with
  | zero =>
    intro w distance x hd
    unfold edgeLoop
    by_cases h : w.nextDistance ≤ distance
    · rw [if_pos h]; exact ⟨by simp, fun _ => hd⟩
    · rw [if_neg h]; exact ⟨by simp, fun _ => hd⟩
  | succ n ih =>
    intro w distance x hd
    unfold edgeLoop
    by_cases h : w.nextDistance ≤ distance
    · rw [if_pos h]
      cases hp : pat w.k with
      | none =>
        simp only [List.mem_singleton, forall_eq]
        exact ⟨hd, fun hf => by simp at hf⟩
      | some nd =>
        simp only [consHit]
        have hd' : Due start pat ⟨w.advancement + w.nextDistance, (Scalar.zero : K), nd, false, w.k + 1⟩ := by
          unfold Due at *
          simp only [cum, hp, Option.getD_some]
          rw [hd]
        have := ih ⟨w.advancement + w.nextDistance, (Scalar.zero : K), nd, false, w.k + 1⟩
          (distance - w.nextDistance) (x + (w.nextDistance - w.leftover) * invD) hd'
        refine ⟨?_, this.2⟩
        intro hh hmem
        rcases List.mem_cons.mp hmem with e | e
        · rw [e]; exact hd
        · exact this.1 hh e
    · rw [if_neg h]; exact ⟨by simp, fun _ => hd⟩

theorem edgeLoop_positions (pat : Pat K) (invD d S : K) (hd : invD * d = 1) :
    ∀ (fuel : Nat) (w : W1 K) (distance x : K), S + x * d = w.advancement + w.leftover →
      ∀ h ∈ (edgeLoop pat invD fuel w distance x).hits, S + h.x * d = h.distance := by
  intro fuel
  induction fuel with
  | zero =>
    intro w distance x _
    unfold edgeLoop
    by_cases h : w.nextDistance ≤ distance
    · rw [if_pos h]; simp
    · rw [if_neg h]; simp
  | succ n ih =>
    intro w distance x hinv
    have key : S + (x + (w.nextDistance - w.leftover) * invD) * d = w.advancement + w.nextDistance := by
      have : (x + (w.nextDistance - w.leftover) * invD) * d
          = x * d + (w.nextDistance - w.leftover) * (invD * d) := by ring
      rw [this, hd]; linarith
    unfold edgeLoop
    by_cases h : w.nextDistance ≤ distance
    · rw [if_pos h]
      cases hp : pat w.k with
      | none =>
        simp only [List.mem_singleton, forall_eq]
        exact key
      | some nd =>
        simp only [consHit]
        intro hh hmem
        rcases List.mem_cons.mp hmem with e | e
        · rw [e]; exact key
        · refine ih ⟨w.advancement + w.nextDistance, (Scalar.zero : K), nd, false, w.k + 1⟩
            (distance - w.nextDistance) (x + (w.nextDistance - w.leftover) * invD) ?_ hh e
          have z : (Scalar.zero : K) = 0 := by simp
          simp only [z, add_zero]
          exact key
    · rw [if_neg h]; simp

/-- what is left over after an edge: `advancement + leftover` grows by exactly the edge's length -/
theorem edgeLoop_total (pat : Pat K) (invD : K) :
    ∀ (fuel : Nat) (w : W1 K) (distance x : K),
      (edgeLoop pat invD fuel w distance x).fuelOut = false →
      (edgeLoop pat invD fuel w distance x).w.done = false →
      (edgeLoop pat invD fuel w distance x).w.advancement + (edgeLoop pat invD fuel w distance x).w.leftover
        = w.advancement + distance := by
  intro fuel
  induction fuel with
  | zero =>
    intro w distance x
    unfold edgeLoop
    by_cases h : w.nextDistance ≤ distance
    · rw [if_pos h]; simp
    · rw [if_neg h]; simp
  | succ n ih =>
    intro w distance x
    unfold edgeLoop
    by_cases h : w.nextDistance ≤ distance
    · rw [if_pos h]
      cases hp : pat w.k with
      | none => simp
      | some nd =>
        simp only [consHit]
        intro hf hdn
        have := ih ⟨w.advancement + w.nextDistance, (Scalar.zero : K), nd, false, w.k + 1⟩
          (distance - w.nextDistance) (x + (w.nextDistance - w.leftover) * invD) hf hdn
        rw [this]
        simp only []
        ring
    · rw [if_neg h]; simp

/-- **walker_visits_cumulative.**  On an edge of length `d` (not skipped, so `d ≠ 0`), starting
at arclength `S = advancement + leftover` of the path with callback `w.k` due: every callback
issued on this edge, number `h.k`, reports `distance = start + Σ_{j<h.k} d_j`, and is issued at
the edge parameter `x` with `S + x·d = distance` — the point of the polyline at that arclength. -/
theorem walker_visits_cumulative (pat : Pat K) (start : K) (fuel : Nat) (w : W1 K) (d : K)
    (hdue : Due start pat w) (hd : ¬ d < Scalar.ofSci 1 5) (hd0 : d ≠ 0) :
    ∀ h ∈ (edge1 pat fuel w d).hits,
      h.distance = cum start pat h.k ∧ (w.advancement + w.leftover) + h.x * d = h.distance := by
  unfold edge1
  rw [if_neg hd]
  intro h hmem
  refine ⟨(edgeLoop_due pat _ start fuel w _ _ hdue).1 h hmem, ?_⟩
  refine edgeLoop_positions pat (Scalar.one / d) d (w.advancement + w.leftover) ?_ fuel w _ _ ?_ h hmem
  · have o : (Scalar.one : K) = 1 := by simp
    rw [o]; field_simp
  · have z : (Scalar.zero : K) = 0 := by simp
    rw [z]; ring

/-- the invariants carry over to the next edge: the next callback is still due at
`advancement + next_distance`, and `advancement + leftover` has grown by `d` -/
theorem walker_edge_carries (pat : Pat K) (start : K) (fuel : Nat) (w : W1 K) (d : K)
    (hdue : Due start pat w) (hd : ¬ d < Scalar.ofSci 1 5)
    (hf : (edge1 pat fuel w d).fuelOut = false) (hdn : (edge1 pat fuel w d).w.done = false) :
    Due start pat (edge1 pat fuel w d).w ∧
    (edge1 pat fuel w d).w.advancement + (edge1 pat fuel w d).w.leftover
      = (w.advancement + w.leftover) + d := by
  unfold edge1 at *
  rw [if_neg hd] at *
  refine ⟨(edgeLoop_due pat _ start fuel w _ _ hdue).2 hdn, ?_⟩
  rw [edgeLoop_total pat _ fuel w _ _ hf hdn]
  ring

/-- **walker_needs_positive (divergence).**  A constant non-positive request `r ≤ 0` never lets
the `while distance >= next_distance` loop end: for EVERY fuel the model's loop runs out of fuel
(the Rust loop has no bound — it spins until the callback returns `false`). -/
theorem walker_needs_positive (invD r : K) (hr : r ≤ 0) :
    ∀ (fuel : Nat) (w : W1 K) (distance x : K), w.nextDistance = r → r ≤ distance →
      (edgeLoop (fun _ => some r) invD fuel w distance x).fuelOut = true := by
  intro fuel
  induction fuel with
  | zero =>
    intro w distance x hw hle
    unfold edgeLoop
    rw [hw, if_pos hle]
  | succ n ih =>
    intro w distance x hw hle
    unfold edgeLoop
    rw [hw, if_pos hle]
    simp only [consHit]
    exact ih _ _ _ rfl (by linarith)

/-- **walker terminates for positive requests** — the hypothesis the termination proof forces:
all requests are bounded below by some `δ > 0`; then `fuel > distance/δ` iterations suffice. -/
theorem walker_terminates_of_positive (pat : Pat K) (invD δ : K) (hδ : 0 < δ)
    (hpat : ∀ k nd, pat k = some nd → δ ≤ nd) :
    ∀ (fuel : Nat) (w : W1 K) (distance x : K), δ ≤ w.nextDistance → distance < fuel * δ →
      (edgeLoop pat invD fuel w distance x).fuelOut = false := by
  intro fuel
  induction fuel with
  | zero =>
    intro w distance x hw hlt
    unfold edgeLoop
    have : ¬ w.nextDistance ≤ distance := by
      simp only [Nat.cast_zero, zero_mul] at hlt
      intro h; linarith
    rw [if_neg this]
  | succ n ih =>
    intro w distance x hw hlt
    unfold edgeLoop
    by_cases h : w.nextDistance ≤ distance
    · rw [if_pos h]
      cases hp : pat w.k with
      | none => simp
      | some nd =>
        simp only [consHit]
        refine ih _ _ _ (hpat _ _ hp) ?_
        push_cast at hlt
        linarith
    · rw [if_neg h]

/-- the hits of a whole walk, edge by edge: the hits on the edge that starts at arclength `S` and
has length `d` report their cumulative distance and sit at the point of that arclength -/
def HitsOK (start : K) (pat : Pat K) : K → List K → List (List (Hit K)) → Prop
  | _, _, [] => True
  | S, d :: r, hs :: t =>
    (∀ h ∈ hs, h.distance = cum start pat h.k ∧ S + h.x * d = h.distance) ∧ HitsOK start pat (S + d) r t
  | _, [], _ :: _ => False

theorem walk1_done (pat : Pat K) (fuel : Nat) (w : W1 K) (hd : w.done = true) (ds : List K) :
    walk1 pat fuel w ds = ([], w, false) := by
  cases ds with
  | nil => rfl
  | cons d r => simp [walk1, hd]

/-- **walker_whole_walk.**  Over a whole sequence of edges (none skipped), from a state where the
next callback is due: every callback on every edge reports `start + Σ_{j<k} d_j` and is issued at
the point of the polyline at exactly that arclength; and if the walk runs to the end (pattern
never stops, fuel suffices) the walker's final distance `advancement + leftover` is the initial
one plus the total length of the edges — the measured length (`length_is_fold`). -/
theorem walker_whole_walk (pat : Pat K) (start : K) (fuel : Nat) :
    ∀ (ds : List K) (w : W1 K), Due start pat w →
      (∀ d ∈ ds, ¬ d < Scalar.ofSci 1 5 ∧ d ≠ 0) →
      HitsOK start pat (w.advancement + w.leftover) ds (walk1 pat fuel w ds).1 ∧
      ((walk1 pat fuel w ds).2.2 = false → (walk1 pat fuel w ds).2.1.done = false →
        (walk1 pat fuel w ds).2.1.advancement + (walk1 pat fuel w ds).2.1.leftover
          = w.advancement + w.leftover + ds.sum ∧ Due start pat (walk1 pat fuel w ds).2.1) := by
  intro ds
  induction ds with
  | nil =>
    intro w hdue _
    simp [walk1, HitsOK, hdue]
  | cons d r ih =>
    intro w hdue hds
    have hd := hds d (by simp)
    have hr : ∀ d' ∈ r, ¬ d' < Scalar.ofSci 1 5 ∧ d' ≠ 0 := fun d' h => hds d' (List.mem_cons_of_mem _ h)
    have hv := walker_visits_cumulative pat start fuel w d hdue hd.1 hd.2
    unfold walk1
    by_cases hwd : w.done = true
    · rw [if_pos hwd]
      refine ⟨by simp [HitsOK], fun _ h => ?_⟩
      simp only [] at h
      rw [hwd] at h; cases h
    · rw [if_neg hwd]
      by_cases hf : (edge1 pat fuel w d).fuelOut = true
      · rw [if_pos hf]
        refine ⟨?_, fun h => by simp at h⟩
        simp only [HitsOK, and_true]
        exact hv
      · rw [if_neg hf]
        have hf' : (edge1 pat fuel w d).fuelOut = false := by simpa using hf
        simp only [walk1Cons]
        by_cases hod : (edge1 pat fuel w d).w.done = true
        · rw [walk1_done pat fuel _ hod r]
          refine ⟨by simp only [HitsOK, and_true]; exact hv, fun _ h => ?_⟩
          simp only [] at h
          rw [hod] at h; cases h
        · have hod' : (edge1 pat fuel w d).w.done = false := by simpa using hod
          obtain ⟨c1, c2⟩ := walker_edge_carries pat start fuel w d hdue hd.1 hf' hod'
          obtain ⟨i1, i2⟩ := ih (edge1 pat fuel w d).w c1 hr
          rw [c2] at i1 i2
          refine ⟨?_, fun h1 h2 => ?_⟩
          · simp only [HitsOK]
            exact ⟨hv, i1⟩
          · obtain ⟨j1, j2⟩ := i2 h1 h2
            refine ⟨?_, j2⟩
            rw [j1, List.sum_cons]; ring

/-! ### what `split_range` sends to its output builder -/

theorem addSegments_nest (m : M K) : ∀ (ps : List (Piece K)) (inSub : Bool),
    Path.nestState true (addSegments m ps inSub) = some true := by
  intro ps
  induction ps with
  | nil => intro _; simp [addSegments, Path.nestState]
  | cons p r ih =>
    intro inSub
    unfold addSegments
    rw [Path.nestState_append]
    have h1 : Path.nestState true (addSegment m p inSub).1 = some true := by
      unfold addSegment
      cases toSegment (evAt m p.seg) with
      | none => simp [Path.nestState]
      | some q =>
        obtain ⟨sg, af, at_⟩ := q
        simp only [segCalls]
        generalize applyRange p.range sg = sg'
        cases inSub <;> cases sg' <;> simp [SegW.edgeCall, Path.nestState]
    rw [h1]
    exact ih _

/-- **split_trace_wellnested.**  Whatever the path, the cursor, the sample type and the range:
the calls `split_range` makes on its output builder form `(begin edge* end)*`. -/
theorem split_trace_wellnested [Transc K] (m : M K) (c : Nat) (normalized : Bool) (a b : K) :
    ∀ calls, (splitRange m c normalized a b).2 = .ok calls → Path.WellNested calls := by
  intro calls h
  unfold splitRange at h
  split at h
  · split at h
    · simp only [splitTail] at h
      injection h with h
      subst h
      show Path.wellNestedFrom false _ = true
      rw [Path.wellNestedFrom_iff_nestState]
      simp only [Path.nestState]
      rw [Path.nestState_append, addSegments_nest]
      simp [Path.nestState]
    · cases h
  · injection h with h
    subst h
    show Path.wellNestedFrom false _ = true
    rfl

/-! ### length -/

/-- the length one event contributes -/
def stepLen : Step K → K
  | .skip => 0
  | .mark => 0
  | .add l => l
  | .many es => (es.map Prod.fst).sum

def total (steps : List (Step K)) : K := (steps.map stepLen).sum

theorem sumMany_eq (es : List (K × K)) : ∀ d : K, sumMany d es = d + (es.map Prod.fst).sum := by
  induction es with
  | nil => intro d; simp [sumMany]
  | cons e r ih => intro d; obtain ⟨l, t⟩ := e; simp only [sumMany, ih, List.map_cons, List.sum_cons]; ring

theorem pushMany_last (es : List (K × K)) : ∀ (d : K) (i : Nat),
    ((pushMany d i es).getLast?.map (·.distance)).getD d = sumMany d es := by
  induction es with
  | nil => intro d i; simp [pushMany, sumMany]
  | cons e r ih =>
    intro d i
    obtain ⟨l, t⟩ := e
    simp only [pushMany, sumMany, List.getLast?_cons]
    have := ih (d + l) i
    cases hl : (pushMany (d + l) i r).getLast? with
    | none => rw [hl] at this; simpa using this
    | some e => rw [hl] at this; simpa using this

theorem init1_last (steps : List (Step K)) : ∀ (d : K) (i : Nat),
    ((init1 d i steps).getLast?.map (·.distance)).getD d = d + total steps := by
  induction steps with
  | nil => intro d i; simp [init1, total]
  | cons st r ih =>
    intro d i
    cases st with
    | skip =>
      simp only [init1, total, List.map_cons, List.sum_cons, stepLen, zero_add]
      exact ih d (i + 1)
    | mark =>
      simp only [init1, total, List.map_cons, List.sum_cons, stepLen, zero_add, List.getLast?_cons]
      have := ih d (i + 1)
      cases hl : (init1 d (i + 1) r).getLast? with
      | none => rw [hl] at this; simpa [total] using this
      | some e => rw [hl] at this; simpa [total] using this
    | add l =>
      simp only [init1, total, List.map_cons, List.sum_cons, stepLen, List.getLast?_cons]
      have := ih (d + l) (i + 1)
      cases hl : (init1 (d + l) (i + 1) r).getLast? with
      | none => rw [hl] at this; simp [total] at this ⊢; linarith
      | some e => rw [hl] at this; simp [total] at this ⊢; linarith
    | many es =>
      simp only [init1, total, List.map_cons, List.sum_cons, stepLen, List.getLast?_append]
      have := ih (sumMany d es) (i + 1)
      rw [sumMany_eq] at this ⊢
      cases hl : (init1 (d + (es.map Prod.fst).sum) (i + 1) r).getLast? with
      | none =>
        rw [hl] at this
        simp only [Option.map_none, Option.getD_none] at this
        simp only [Option.none_or]
        rw [pushMany_last, sumMany_eq]
        simp only [total] at this
        linarith
      | some e =>
        rw [hl] at this
        simp only [Option.some_or, Option.map_some, Option.getD_some] at this ⊢
        simp only [total] at this
        rw [this]; ring

theorem length_eq_last (es : List (Edge K)) : length es = (es.getLast?.map (·.distance)).getD 0 := by
  unfold length
  cases es with
  | nil => simp
  | cons a r =>
    simp only [List.isEmpty_cons, Bool.false_eq_true, if_false, dAt, eAt, List.getLast?_eq_getElem?]
    simp [List.getD_eq_getElem?_getD]

/-- **length_is_fold.**  The measured length (last table entry) is the sum of the lengths of the
edges, whatever `Begin`/`End` events lie in between. -/
theorem length_is_fold (steps : List (Step K)) : length (init1 (Scalar.zero : K) 0 steps) = total steps := by
  rw [length_eq_last]
  have z : (Scalar.zero : K) = 0 := by simp
  have := init1_last steps (0 : K) 0
  rw [z]
  simpa using this

theorem approxLengthFrom_eq [Transc K] [FlatConst K] (tol : K) (evs : List (Ev K)) :
    (∀ e ∈ evs, e.isPoly = true) → ∀ (tol' l : K),
    approxLengthFrom tol' l evs = l + total (evs.map (stepOf tol)) := by
  induction evs with
  | nil => intro _ tol' l; simp [approxLengthFrom, total]
  | cons e r ih =>
    intro hpoly tol' l
    have he := hpoly e (by simp)
    have ih := ih (fun e' h => hpoly e' (List.mem_cons_of_mem _ h))
    have flip : ∀ p q : P K, vlen (p - q) = vlen (q - p) := by
      intro p q
      unfold vlen
      congr 1
      simp only [geom]
      ring
    cases e with
    | begin p a => simp only [approxLengthFrom, ih, total, List.map_cons, stepOf, stepLen, List.sum_cons]; ring
    | line f g af at_ =>
      simp only [approxLengthFrom, ih, total, List.map_cons, stepOf, stepLen, List.sum_cons]
      rw [flip g f]; ring
    | quad f c g af at_ => simp [Ev.isPoly] at he
    | cubic f c1 c2 g af at_ => simp [Ev.isPoly] at he
    | end_ la fi al af cl =>
      cases cl with
      | true =>
        simp only [approxLengthFrom, ih, total, List.map_cons, stepOf, stepLen, List.sum_cons]
        rw [flip fi la]; ring
      | false => simp only [approxLengthFrom, ih, total, List.map_cons, stepOf, stepLen, List.sum_cons]; ring

/-- **length agrees with `approximate_length`** on polyline paths (same sum of `sqrt`s) -/
theorem length_eq_approx_length [Transc K] [FlatConst K] (tol tol' : K) (evs : List (Ev K))
    (hpoly : ∀ e ∈ evs, e.isPoly = true) :
    length (initTable tol evs) = approxLength tol' evs := by
  unfold initTable approxLength
  rw [length_is_fold, approxLengthFrom_eq tol evs hpoly]
  have z : (Scalar.zero : K) = 0 := by simp
  rw [z]; ring

theorem vlen_flip [Transc K] (p q : P K) : vlen (p - q) = vlen (q - p) := by
  unfold vlen
  congr 1
  simp only [geom]
  ring

theorem total_append (a b : List (Step K)) : total (a ++ b) = total a + total b := by
  simp [total]

theorem flattenEvs_isPoly [Transc K] [FlatConst K] (tol : K) (evs : List (Ev K)) :
    ∀ e ∈ flattenEvs tol evs, e.isPoly = true := by
  induction evs with
  | nil => intro e h; simp [flattenEvs] at h
  | cons e r ih =>
    intro e' h
    cases e with
    | begin p a =>
      simp only [flattenEvs, List.mem_cons] at h
      rcases h with h | h
      · rw [h]; rfl
      · exact ih e' h
    | line f g af at_ =>
      simp only [flattenEvs, List.mem_cons] at h
      rcases h with h | h
      · rw [h]; rfl
      · exact ih e' h
    | end_ l f al af cl =>
      simp only [flattenEvs, List.mem_cons] at h
      rcases h with h | h
      · rw [h]; rfl
      · exact ih e' h
    | quad f c g af at_ =>
      simp only [flattenEvs, List.mem_append, List.mem_map] at h
      rcases h with ⟨sg, _, h⟩ | h
      · rw [← h]; rfl
      · exact ih e' h
    | cubic f c1 c2 g af at_ =>
      simp only [flattenEvs, List.mem_append, List.mem_map] at h
      rcases h with ⟨sg, _, h⟩ | h
      · rw [← h]; rfl
      · exact ih e' h

theorem total_flat_lines [Transc K] [FlatConst K] (tol' : K) (af at_ : List K) (L : List (FlatSeg K)) :
    total ((L.map (fun s => Ev.line s.a s.b af at_)).map (stepOf tol'))
      = ((L.map (fun s => (vlen (s.b - s.a), s.t1))).map Prod.fst).sum := by
  induction L with
  | nil => simp [total]
  | cons s r ih =>
    simp only [total, List.map_cons, List.sum_cons, stepOf, stepLen] at ih ⊢
    rw [ih, vlen_flip]

/-- the table of a path and the table of its flattening carry the same total length -/
theorem total_flatten [Transc K] [FlatConst K] (tol tol' : K) (evs : List (Ev K)) :
    total (evs.map (stepOf tol)) = total ((flattenEvs tol evs).map (stepOf tol')) := by
  induction evs with
  | nil => simp [flattenEvs]
  | cons e r ih =>
    cases e with
    | begin p a => simp only [flattenEvs, List.map_cons, total, List.sum_cons, stepOf] at ih ⊢; rw [ih]
    | line f g af at_ => simp only [flattenEvs, List.map_cons, total, List.sum_cons, stepOf] at ih ⊢; rw [ih]
    | end_ l f al af cl =>
      cases cl <;> (simp only [flattenEvs, List.map_cons, total, List.sum_cons, stepOf] at ih ⊢; rw [ih])
    | quad f c g af at_ =>
      simp only [flattenEvs, List.map_cons, List.map_append]
      rw [total_append, ← ih, total_flat_lines]
      simp only [total, List.map_cons, List.sum_cons, stepOf, stepLen, flatEntries]
    | cubic f c1 c2 g af at_ =>
      simp only [flattenEvs, List.map_cons, List.map_append]
      rw [total_append, ← ih, total_flat_lines]
      simp only [total, List.map_cons, List.sum_cons, stepOf, stepLen, flatEntries]

/-- **length_eq_approx_length_flattened.**  For ANY path (curves included): the measured length
(`PathMeasurements::length`, last table entry) equals `approximate_length` of the flattened
events — the path in which every curve is replaced by the lines `for_each_flattened_with_t`
emits at the measuring tolerance. -/
theorem length_eq_approx_length_flattened [Transc K] [FlatConst K] (tol tol' : K) (evs : List (Ev K)) :
    length (initTable tol evs) = approxLength tol' (flattenEvs tol evs) := by
  unfold initTable approxLength
  rw [length_is_fold, approxLengthFrom_eq tol' (flattenEvs tol evs) (flattenEvs_isPoly tol evs),
    ← total_flatten]
  have z : (Scalar.zero : K) = 0 := by simp
  rw [z]; ring

/-! ### what a sample reports: position, tangent, attributes -/

/-- on an event `to_segment` turns into a segment, `sample_impl` reports `segment.sample(t)`,
`segment.derivative(t).normalize()` and the attributes interpolated by `t` -/
theorem sample_on_edge [Transc K] (m : M K) (c : Nat) (t : K) (sg : SegW K) (af at_ : List K)
    (h : toSegment (evAt m (eAt m.edges c).index) = some (sg, af, at_)) :
    sampleOn m c t = .ok (sg.sample t) (normalize (sg.derivative t)) (interp af at_ t) := by
  simp [sampleOn, h]

/-- **sample_tangent_is_edge_direction.**  When the cursor rests on a straight edge `f → g` (a
`Line`, or a closing `End`), the reported tangent is `(g − f) / |g − f|` whatever `t` is — the
normalised direction of that edge; with the square-root law it has length 1. -/
theorem sample_tangent_is_edge_direction [Transc K] (m : M K) (c : Nat) (t : K) (f g : P K)
    (af at_ : List K)
    (h : toSegment (evAt m (eAt m.edges c).index) = some (.line ⟨f, g⟩, af, at_)) :
    (∃ pos attrs, sampleOn m c t = .ok pos ((g - f).sdiv (vlen (g - f))) attrs) ∧
    ((vlen (g - f)) * (vlen (g - f)) = (g - f).sqLen → (g - f).sqLen ≠ 0 →
      ((g - f).sdiv (vlen (g - f))).sqLen = 1) := by
  constructor
  · exact ⟨_, _, by rw [sample_on_edge m c t _ af at_ h]; rfl⟩
  · intro hs hne
    have hL : vlen (g - f) ≠ 0 := by
      intro h0; rw [h0] at hs; simp at hs; exact hne hs.symm
    have e : ((g - f).sdiv (vlen (g - f))).sqLen
        = (g - f).sqLen / (vlen (g - f) * vlen (g - f)) := by
      simp only [geom]
      field_simp
    rw [e, hs]
    exact div_self hne

/-- **sample_attributes_linear.**  The reported attributes are, component by component, the linear
interpolation `from[i]·(1−t) + to[i]·t` of the attributes of the two endpoints of the segment the
cursor rests on, at the segment parameter `t`. -/
theorem sample_attributes_linear [Transc K] (m : M K) (c : Nat) (t : K) (sg : SegW K) (af at_ : List K)
    (h : toSegment (evAt m (eAt m.edges c).index) = some (sg, af, at_)) :
    (∃ pos tan, sampleOn m c t = .ok pos tan (interp af at_ t)) ∧
    (∀ i (hi : i < af.length) (hj : i < at_.length),
      (interp af at_ t)[i]? = some (af[i] * (1 - t) + at_[i] * t)) := by
  constructor
  · exact ⟨_, _, sample_on_edge m c t sg af at_ h⟩
  · intro i hi hj
    have o : (Scalar.one : K) = 1 := by simp
    simp [interp, List.getElem?_zipWith, hi, hj, o]

/-! ### `initialize` establishes the hypotheses used above -/

theorem pre_cons (x : K) (ls : List K) (n : Nat) : pre (x :: ls) (n + 1) = x + pre ls n := by
  simp [pre]

theorem eAt_cons_succ (e : Edge K) (es : List (Edge K)) (k : Nat) : eAt (e :: es) (k + 1) = eAt es k := by
  simp [eAt]

/-- Invariant of the table construction, for the table built from running distance `d` and event
index `i`: entry `k` belongs to an event `≥ i`, carries `d` + the lengths through its event, the
entry before it (or `d` itself for the first entry) carries `d` + the lengths before its event,
and its parameter is 1. -/
theorem init1_inv (steps : List (Step K)) : (∀ st ∈ steps, st.isPoly = true) →
    ∀ (d : K) (i k : Nat), k < (init1 d i steps).length →
    i ≤ (eAt (init1 d i steps) k).index ∧
    dAt (init1 d i steps) k
      = d + pre (steps.map stepLen) ((eAt (init1 d i steps) k).index + 1 - i) ∧
    (if k = 0 then d else dAt (init1 d i steps) (k - 1))
      = d + pre (steps.map stepLen) ((eAt (init1 d i steps) k).index - i) ∧
    (eAt (init1 d i steps) k).t = 1 := by
  induction steps with
  | nil => intro _ d i k h; simp [init1] at h
  | cons st r ih =>
    intro hpoly d i k hk
    have ih := ih (fun st' h => hpoly st' (List.mem_cons_of_mem _ h))
    -- `mark` is `add 0`
    have key : ∀ (l : K), (∀ (d' : K), init1 d' i (st :: r) = ⟨d' + l, i, Scalar.one⟩ :: init1 (d' + l) (i + 1) r) →
        stepLen st = l →
        (i ≤ (eAt (init1 d i (st :: r)) k).index ∧
        dAt (init1 d i (st :: r)) k
          = d + pre ((st :: r).map stepLen) ((eAt (init1 d i (st :: r)) k).index + 1 - i) ∧
        (if k = 0 then d else dAt (init1 d i (st :: r)) (k - 1))
          = d + pre ((st :: r).map stepLen) ((eAt (init1 d i (st :: r)) k).index - i) ∧
        (eAt (init1 d i (st :: r)) k).t = 1) := by
      intro l hinit hl
      rw [hinit d] at hk ⊢
      simp only [List.map_cons, hl]
      cases k with
      | zero =>
        have o : (Scalar.one : K) = 1 := by simp
        simp [eAt, dAt, pre, o]
      | succ k' =>
        have hk' : k' < (init1 (d + l) (i + 1) r).length := by simpa using hk
        obtain ⟨h1, h2, h3, h4⟩ := ih (d + l) (i + 1) k' hk'
        rw [eAt_cons_succ]
        obtain ⟨j, hj⟩ := Nat.exists_eq_add_of_le h1
        refine ⟨by omega, ?_, ?_, h4⟩
        · show (eAt (_ :: _) (k' + 1)).distance = _
          rw [eAt_cons_succ]
          have e1 : (eAt (init1 (d + l) (i + 1) r) k').index + 1 - (i + 1) = j + 1 := by omega
          have e2 : (eAt (init1 (d + l) (i + 1) r) k').index + 1 - i = (j + 1) + 1 := by omega
          rw [e1] at h2
          rw [e2, pre_cons]
          show dAt _ k' = _
          rw [h2]; ring
        · have e1 : (eAt (init1 (d + l) (i + 1) r) k').index - (i + 1) = j := by omega
          have e2 : (eAt (init1 (d + l) (i + 1) r) k').index - i = j + 1 := by omega
          rw [e1] at h3
          rw [e2, pre_cons]
          simp only [Nat.add_one_ne_zero, if_false, Nat.add_sub_cancel]
          cases k' with
          | zero =>
            simp only [if_true] at h3
            simp only [dAt, eAt, List.getD_cons_zero]
            linarith
          | succ k'' =>
            simp only [Nat.add_one_ne_zero, if_false, Nat.add_sub_cancel] at h3
            show (eAt (_ :: _) (k'' + 1)).distance = _
            rw [eAt_cons_succ]
            show dAt _ k'' = _
            rw [h3]; ring
    cases st with
    | skip =>
      simp only [init1] at hk ⊢
      obtain ⟨h1, h2, h3, h4⟩ := ih d (i + 1) k hk
      obtain ⟨j, hj⟩ := Nat.exists_eq_add_of_le h1
      simp only [List.map_cons, stepLen]
      refine ⟨by omega, ?_, ?_, h4⟩
      · have e1 : (eAt (init1 d (i + 1) r) k).index + 1 - (i + 1) = j + 1 := by omega
        have e2 : (eAt (init1 d (i + 1) r) k).index + 1 - i = (j + 1) + 1 := by omega
        rw [e1] at h2
        rw [e2, pre_cons, h2]; ring
      · have e1 : (eAt (init1 d (i + 1) r) k).index - (i + 1) = j := by omega
        have e2 : (eAt (init1 d (i + 1) r) k).index - i = j + 1 := by omega
        rw [e1] at h3
        rw [e2, pre_cons, h3]; ring
    | mark =>
      exact key 0 (fun d' => by simp [init1]) rfl
    | add l =>
      exact key l (fun d' => by simp [init1]) rfl
    | many es =>
      have := hpoly (.many es) (by simp)
      simp [Step.isPoly] at this

/-- **`initialize` establishes coherence** (the hypothesis of `split_pieces_length` /
`split_lengths_add`), polyline entries have `t = 1`, and the table starts at the initial distance. -/
theorem init1_coherent (steps : List (Step K)) (hpoly : ∀ st ∈ steps, st.isPoly = true) :
    Coherent (init1 (0 : K) 0 steps) (steps.map stepLen) ∧
    (∀ k, k < (init1 (0 : K) 0 steps).length → (eAt (init1 (0 : K) 0 steps) k).t = 1) := by
  constructor
  · intro k hk1 hk
    obtain ⟨_, h2, h3, _⟩ := init1_inv steps hpoly (0 : K) 0 k hk
    have : k ≠ 0 := by omega
    simp only [this, if_false] at h3
    simp only [Nat.sub_zero, zero_add] at h2 h3
    exact ⟨h2, h3⟩
  · intro k hk
    exact (init1_inv steps hpoly (0 : K) 0 k hk).2.2.2

/-! #### tables with curves: the invariant at the straight entries -/

theorem pushMany_length (es : List (K × K)) : ∀ (d : K) (i : Nat), (pushMany d i es).length = es.length := by
  induction es with
  | nil => intro d i; rfl
  | cons e r ih => intro d i; obtain ⟨l, t⟩ := e; simp [pushMany, ih]

theorem pushMany_index (es : List (K × K)) : ∀ (d : K) (i k : Nat), k < es.length →
    (eAt (pushMany d i es) k).index = i := by
  induction es with
  | nil => intro d i k h; simp at h
  | cons e r ih =>
    intro d i k hk
    obtain ⟨l, t⟩ := e
    cases k with
    | zero => simp [pushMany, eAt]
    | succ k' =>
      simp only [pushMany, eAt_cons_succ]
      exact ih (d + l) i k' (by simpa using hk)

theorem pushMany_dAt_last (es : List (K × K)) : ∀ (d : K) (i : Nat), es ≠ [] →
    dAt (pushMany d i es) (es.length - 1) = sumMany d es := by
  induction es with
  | nil => intro d i h; exact absurd rfl h
  | cons e r ih =>
    intro d i _
    obtain ⟨l, t⟩ := e
    cases r with
    | nil => simp [pushMany, sumMany, dAt, eAt]
    | cons e2 r2 =>
      have := ih (d + l) i (by simp)
      simp only [pushMany, sumMany, List.length_cons, Nat.add_sub_cancel] at this ⊢
      show (eAt (_ :: _) (r2.length + 1)).distance = _
      rw [eAt_cons_succ]
      exact this

theorem eAt_append_left (A B : List (Edge K)) (k : Nat) (h : k < A.length) : eAt (A ++ B) k = eAt A k := by
  simp [eAt, List.getD_eq_getElem?_getD, List.getElem?_append_left h]

theorem eAt_append_right (A B : List (Edge K)) (k : Nat) (h : A.length ≤ k) :
    eAt (A ++ B) k = eAt B (k - A.length) := by
  simp [eAt, List.getD_eq_getElem?_getD, List.getElem?_append_right h]

/-- **Invariant of `initialize` for paths with curves.**  Every entry belongs to an event `≥ i`;
an entry whose event is straight (`Begin`, `Line`, closing `End`: `isPoly`) carries `d` + the
lengths through its event (a curve counting with the total length of its flattening), the entry
before it carries `d` + the lengths before its event, and its parameter is 1. -/
theorem init1_inv_mixed (steps : List (Step K)) : ∀ (d : K) (i k : Nat), k < (init1 d i steps).length →
    i ≤ (eAt (init1 d i steps) k).index ∧
    ((steps.getD ((eAt (init1 d i steps) k).index - i) .skip).isPoly = true →
      dAt (init1 d i steps) k
        = d + pre (steps.map stepLen) ((eAt (init1 d i steps) k).index + 1 - i) ∧
      (if k = 0 then d else dAt (init1 d i steps) (k - 1))
        = d + pre (steps.map stepLen) ((eAt (init1 d i steps) k).index - i) ∧
      (eAt (init1 d i steps) k).t = 1) := by
  induction steps with
  | nil => intro d i k h; simp [init1] at h
  | cons st r ih =>
    intro d i k hk
    -- `mark` is `add 0`
    have key : ∀ (l : K), (∀ (d' : K), init1 d' i (st :: r) = ⟨d' + l, i, Scalar.one⟩ :: init1 (d' + l) (i + 1) r) →
        stepLen st = l →
        (i ≤ (eAt (init1 d i (st :: r)) k).index ∧
        (((st :: r).getD ((eAt (init1 d i (st :: r)) k).index - i) .skip).isPoly = true →
        dAt (init1 d i (st :: r)) k
          = d + pre ((st :: r).map stepLen) ((eAt (init1 d i (st :: r)) k).index + 1 - i) ∧
        (if k = 0 then d else dAt (init1 d i (st :: r)) (k - 1))
          = d + pre ((st :: r).map stepLen) ((eAt (init1 d i (st :: r)) k).index - i) ∧
        (eAt (init1 d i (st :: r)) k).t = 1)) := by
      intro l hinit hl
      rw [hinit d] at hk ⊢
      simp only [List.map_cons, hl]
      cases k with
      | zero =>
        have o : (Scalar.one : K) = 1 := by simp
        simp [eAt, dAt, pre, o]
      | succ k' =>
        have hk' : k' < (init1 (d + l) (i + 1) r).length := by simpa using hk
        obtain ⟨h1, hrest⟩ := ih (d + l) (i + 1) k' hk'
        rw [eAt_cons_succ]
        obtain ⟨j, hj⟩ := Nat.exists_eq_add_of_le h1
        refine ⟨by omega, ?_⟩
        intro hp
        have e0 : (eAt (init1 (d + l) (i + 1) r) k').index - i = (j + 1) := by omega
        have e0' : (eAt (init1 (d + l) (i + 1) r) k').index - (i + 1) = j := by omega
        rw [e0, List.getD_cons_succ] at hp
        rw [e0'] at hrest
        obtain ⟨h2, h3, h4⟩ := hrest hp
        refine ⟨?_, ?_, h4⟩
        · show (eAt (_ :: _) (k' + 1)).distance = _
          rw [eAt_cons_succ]
          have e1 : (eAt (init1 (d + l) (i + 1) r) k').index + 1 - (i + 1) = j + 1 := by omega
          have e2 : (eAt (init1 (d + l) (i + 1) r) k').index + 1 - i = (j + 1) + 1 := by omega
          rw [e1] at h2
          rw [e2, pre_cons]
          show dAt _ k' = _
          rw [h2]; ring
        · rw [e0, pre_cons]
          simp only [Nat.add_one_ne_zero, if_false, Nat.add_sub_cancel]
          cases k' with
          | zero =>
            simp only [if_true] at h3
            simp only [dAt, eAt, List.getD_cons_zero]
            linarith
          | succ k'' =>
            simp only [Nat.add_one_ne_zero, if_false, Nat.add_sub_cancel] at h3
            show (eAt (_ :: _) (k'' + 1)).distance = _
            rw [eAt_cons_succ]
            show dAt _ k'' = _
            rw [h3]; ring
    cases st with
    | skip =>
      simp only [init1] at hk ⊢
      obtain ⟨h1, hrest⟩ := ih d (i + 1) k hk
      obtain ⟨j, hj⟩ := Nat.exists_eq_add_of_le h1
      simp only [List.map_cons, stepLen]
      refine ⟨by omega, ?_⟩
      intro hp
      have e0 : (eAt (init1 d (i + 1) r) k).index - i = (j + 1) := by omega
      have e0' : (eAt (init1 d (i + 1) r) k).index - (i + 1) = j := by omega
      rw [e0, List.getD_cons_succ] at hp
      rw [e0'] at hrest
      obtain ⟨h2, h3, h4⟩ := hrest hp
      refine ⟨?_, ?_, h4⟩
      · have e1 : (eAt (init1 d (i + 1) r) k).index + 1 - (i + 1) = j + 1 := by omega
        have e2 : (eAt (init1 d (i + 1) r) k).index + 1 - i = (j + 1) + 1 := by omega
        rw [e1] at h2
        rw [e2, pre_cons, h2]; ring
      · rw [e0, pre_cons, h3]; ring
    | mark =>
      exact key 0 (fun d' => by simp [init1]) rfl
    | add l =>
      exact key l (fun d' => by simp [init1]) rfl
    | many es =>
      simp only [init1] at hk ⊢
      have hn := pushMany_length es d i
      by_cases hlt : k < es.length
      · -- an entry of the curve itself: index `i`, the event is not straight
        rw [eAt_append_left _ _ _ (by omega), pushMany_index es d i k hlt]
        refine ⟨le_refl _, ?_⟩
        intro hp
        simp [Step.isPoly] at hp
      · have hge : es.length ≤ k := by omega
        have hk' : k - es.length < (init1 (sumMany d es) (i + 1) r).length := by
          simp only [List.length_append, hn] at hk; omega
        obtain ⟨h1, hrest⟩ := ih (sumMany d es) (i + 1) (k - es.length) hk'
        rw [eAt_append_right _ _ _ (by omega), hn]
        obtain ⟨j, hj⟩ := Nat.exists_eq_add_of_le h1
        refine ⟨by omega, ?_⟩
        intro hp
        have e0 : (eAt (init1 (sumMany d es) (i + 1) r) (k - es.length)).index - i = (j + 1) := by omega
        have e0' : (eAt (init1 (sumMany d es) (i + 1) r) (k - es.length)).index - (i + 1) = j := by omega
        rw [e0, List.getD_cons_succ] at hp
        rw [e0'] at hrest
        obtain ⟨h2, h3, h4⟩ := hrest hp
        simp only [List.map_cons, stepLen]
        refine ⟨?_, ?_, h4⟩
        · show (eAt (_ ++ _) k).distance = _
          rw [eAt_append_right _ _ _ (by omega), hn]
          have e1 : (eAt (init1 (sumMany d es) (i + 1) r) (k - es.length)).index + 1 - (i + 1) = j + 1 := by omega
          have e2 : (eAt (init1 (sumMany d es) (i + 1) r) (k - es.length)).index + 1 - i = (j + 1) + 1 := by omega
          rw [e1] at h2
          rw [e2, pre_cons]
          show dAt _ (k - es.length) = _
          rw [h2, sumMany_eq]; ring
        · rw [e0, pre_cons]
          by_cases hk0 : k - es.length = 0
          · -- the previous entry is the last one of the curve (or `d` if the curve pushed nothing)
            rw [hk0] at h3
            simp only [if_true] at h3
            have hke : k = es.length := by omega
            by_cases hes : es = []
            · subst hes
              simp only [List.length_nil] at hke
              simp only [hke, if_true]
              rw [sumMany_eq] at h3
              simp only [List.map_nil, List.sum_nil] at h3 ⊢
              linarith
            · have hk1 : k ≠ 0 := by
                intro h; rw [h] at hke
                exact hes (List.eq_nil_of_length_eq_zero hke.symm)
              simp only [hk1, if_false]
              show (eAt (_ ++ _) (k - 1)).distance = _
              rw [eAt_append_left _ _ _ (by omega), hke]
              show dAt _ (es.length - 1) = _
              rw [pushMany_dAt_last es d i hes]
              rw [sumMany_eq] at h3 ⊢
              linarith
          · have hk1 : k ≠ 0 := by omega
            simp only [hk0, hk1, if_false] at h3 ⊢
            show (eAt (_ ++ _) (k - 1)).distance = _
            rw [eAt_append_right _ _ _ (by omega), hn]
            have : k - 1 - es.length = k - es.length - 1 := by omega
            rw [this]
            show dAt _ (k - es.length - 1) = _
            rw [h3, sumMany_eq]; ring

/-- event indices never decrease along the table, and strictly increase between two consecutive
entries of which at least one belongs to a straight event (entries of one curve share its index) -/
theorem init1_index_adjacent_mixed (steps : List (Step K)) : ∀ (d : K) (i k : Nat),
    k + 1 < (init1 d i steps).length →
    (eAt (init1 d i steps) k).index ≤ (eAt (init1 d i steps) (k + 1)).index ∧
    (((steps.getD ((eAt (init1 d i steps) k).index - i) .skip).isPoly = true ∨
      (steps.getD ((eAt (init1 d i steps) (k + 1)).index - i) .skip).isPoly = true) →
      (eAt (init1 d i steps) k).index < (eAt (init1 d i steps) (k + 1)).index) := by
  induction steps with
  | nil => intro d i k h; simp [init1] at h
  | cons st r ih =>
    intro d i k hk
    have shift : ∀ (d' : K) (m : Nat), m < (init1 d' (i + 1) r).length →
        ((st :: r).getD ((eAt (init1 d' (i + 1) r) m).index - i) .skip)
          = r.getD ((eAt (init1 d' (i + 1) r) m).index - (i + 1)) .skip := by
      intro d' m hm
      have h1 := (init1_inv_mixed r d' (i + 1) m hm).1
      obtain ⟨j, hj⟩ := Nat.exists_eq_add_of_le h1
      have e0 : (eAt (init1 d' (i + 1) r) m).index - i = j + 1 := by omega
      have e0' : (eAt (init1 d' (i + 1) r) m).index - (i + 1) = j := by omega
      rw [e0, e0', List.getD_cons_succ]
    have key : ∀ (l : K), init1 d i (st :: r) = ⟨d + l, i, Scalar.one⟩ :: init1 (d + l) (i + 1) r →
        ((eAt (init1 d i (st :: r)) k).index ≤ (eAt (init1 d i (st :: r)) (k + 1)).index ∧
        ((((st :: r).getD ((eAt (init1 d i (st :: r)) k).index - i) .skip).isPoly = true ∨
          ((st :: r).getD ((eAt (init1 d i (st :: r)) (k + 1)).index - i) .skip).isPoly = true) →
          (eAt (init1 d i (st :: r)) k).index < (eAt (init1 d i (st :: r)) (k + 1)).index)) := by
      intro l hinit
      rw [hinit] at hk ⊢
      have hk' : k < (init1 (d + l) (i + 1) r).length := by simpa using hk
      rw [eAt_cons_succ]
      cases k with
      | zero =>
        have := (init1_inv_mixed r (d + l) (i + 1) 0 hk').1
        simp only [eAt, List.getD_cons_zero]
        simp only [eAt] at this
        exact ⟨by omega, fun _ => by omega⟩
      | succ k' =>
        rw [eAt_cons_succ]
        have := ih (d + l) (i + 1) k' hk'
        rw [shift (d + l) k' (by omega), shift (d + l) (k' + 1) hk']
        exact this
    cases st with
    | skip =>
      simp only [init1] at hk ⊢
      have := ih d (i + 1) k hk
      rw [shift d k (by omega), shift d (k + 1) hk]
      exact this
    | mark => exact key 0 (by simp [init1])
    | add l => exact key l (by simp [init1])
    | many es =>
      simp only [init1] at hk ⊢
      have hn := pushMany_length es d i
      have hlen : (pushMany d i es ++ init1 (sumMany d es) (i + 1) r).length
          = es.length + (init1 (sumMany d es) (i + 1) r).length := by
        rw [List.length_append, hn]
      rw [hlen] at hk
      by_cases h1 : k + 1 < es.length
      · rw [eAt_append_left _ _ _ (by omega), eAt_append_left _ _ _ (by omega),
          pushMany_index es d i k (by omega), pushMany_index es d i (k + 1) h1]
        refine ⟨le_refl _, ?_⟩
        intro hp
        simp [Step.isPoly] at hp
      · by_cases h2 : k < es.length
        · have hk1 : k + 1 - es.length < (init1 (sumMany d es) (i + 1) r).length := by omega
          have := (init1_inv_mixed r (sumMany d es) (i + 1) (k + 1 - es.length) hk1).1
          rw [eAt_append_left _ _ _ (by omega), eAt_append_right _ _ _ (by omega), hn,
            pushMany_index es d i k h2]
          exact ⟨by omega, fun _ => by omega⟩
        · have hk0 : k - es.length + 1 < (init1 (sumMany d es) (i + 1) r).length := by omega
          have := ih (sumMany d es) (i + 1) (k - es.length) hk0
          rw [eAt_append_right _ _ _ (by omega), eAt_append_right _ _ _ (by omega), hn]
          have e : k + 1 - es.length = k - es.length + 1 := by omega
          rw [e, shift (sumMany d es) (k - es.length) (by omega), shift (sumMany d es) (k - es.length + 1) hk0]
          exact this

/-- over any distance: indices are monotone, and distinct entries of which the earlier one is
straight have distinct indices -/
theorem init1_index_mixed (steps : List (Step K)) (d : K) (i : Nat) :
    ∀ p q, p ≤ q → q < (init1 d i steps).length →
      (eAt (init1 d i steps) p).index ≤ (eAt (init1 d i steps) q).index ∧
      ((steps.getD ((eAt (init1 d i steps) p).index - i) .skip).isPoly = true →
        (eAt (init1 d i steps) p).index = (eAt (init1 d i steps) q).index → p = q) := by
  have mono : ∀ p q, p ≤ q → q < (init1 d i steps).length →
      (eAt (init1 d i steps) p).index ≤ (eAt (init1 d i steps) q).index := by
    intro p q hpq
    induction q with
    | zero => intro _; have : p = 0 := by omega
              rw [this]
    | succ n ih =>
      intro hq
      rcases Nat.lt_or_ge p (n + 1) with h | h
      · exact le_trans (ih (by omega) (by omega)) (init1_index_adjacent_mixed steps d i n hq).1
      · have : p = n + 1 := by omega
        rw [this]
  intro p q hpq hq
  refine ⟨mono p q hpq hq, ?_⟩
  intro hp heq
  by_contra hne
  have hlt : p + 1 ≤ q := by omega
  have a := (init1_index_adjacent_mixed steps d i p (by omega)).2 (Or.inl hp)
  have b := mono (p + 1) q hlt hq
  omega

/-- event indices strictly increase along a polyline table -/
theorem init1_index_adjacent (steps : List (Step K)) : (∀ st ∈ steps, st.isPoly = true) →
    ∀ (d : K) (i k : Nat), k + 1 < (init1 d i steps).length →
    (eAt (init1 d i steps) k).index < (eAt (init1 d i steps) (k + 1)).index := by
  induction steps with
  | nil => intro _ d i k h; simp [init1] at h
  | cons st r ih =>
    intro hpoly d i k hk
    have hpr : ∀ st' ∈ r, st'.isPoly = true := fun st' h => hpoly st' (List.mem_cons_of_mem _ h)
    have ih := ih hpr
    have key : ∀ (l : K), init1 d i (st :: r) = ⟨d + l, i, Scalar.one⟩ :: init1 (d + l) (i + 1) r →
        (eAt (init1 d i (st :: r)) k).index < (eAt (init1 d i (st :: r)) (k + 1)).index := by
      intro l hinit
      rw [hinit] at hk ⊢
      have hk' : k < (init1 (d + l) (i + 1) r).length := by simpa using hk
      rw [eAt_cons_succ]
      cases k with
      | zero =>
        have := (init1_inv r hpr (d + l) (i + 1) 0 hk').1
        simp only [eAt, List.getD_cons_zero]
        simp only [eAt] at this
        omega
      | succ k' =>
        rw [eAt_cons_succ]
        exact ih (d + l) (i + 1) k' hk'
    cases st with
    | skip => simp only [init1] at hk ⊢; exact ih d (i + 1) k hk
    | mark => exact key 0 (by simp [init1])
    | add l => exact key l (by simp [init1])
    | many es =>
      have := hpoly (.many es) (by simp)
      simp [Step.isPoly] at this

/-- the hypotheses `hidx` / `hsame` / `hinj` of the split theorems hold for every table `initialize`
builds from a polyline path -/
theorem init1_index_strict (steps : List (Step K)) (hpoly : ∀ st ∈ steps, st.isPoly = true)
    (d : K) (i : Nat) :
    ∀ p q, p ≤ q → q < (init1 d i steps).length →
      (eAt (init1 d i steps) p).index ≤ (eAt (init1 d i steps) q).index ∧
      ((eAt (init1 d i steps) p).index = (eAt (init1 d i steps) q).index → p = q) := by
  have strict : ∀ p q, p < q → q < (init1 d i steps).length →
      (eAt (init1 d i steps) p).index < (eAt (init1 d i steps) q).index := by
    intro p q hpq
    induction q with
    | zero => omega
    | succ n ih =>
      intro hq
      have a := init1_index_adjacent steps hpoly d i n hq
      rcases Nat.lt_or_ge p n with h | h
      · exact lt_trans (ih h (by omega)) a
      · have : p = n := by omega
        rw [this]; exact a
  intro p q hpq hq
  rcases Nat.lt_or_ge p q with h | h
  · have := strict p q h hq
    exact ⟨le_of_lt this, fun e => by omega⟩
  · have : p = q := by omega
    rw [this]; exact ⟨le_refl _, fun _ => rfl⟩

/-- with non-negative edge lengths the table `initialize` builds is non-decreasing -/
theorem init1_mono (steps : List (Step K)) (hpoly : ∀ st ∈ steps, st.isPoly = true)
    (hnn : ∀ st ∈ steps, 0 ≤ stepLen st) :
    Mono (init1 (0 : K) 0 steps) := by
  have adj : ∀ k, k + 1 < (init1 (0 : K) 0 steps).length →
      dAt (init1 (0 : K) 0 steps) k ≤ dAt (init1 (0 : K) 0 steps) (k + 1) := by
    intro k hk
    obtain ⟨_, h2, h3, _⟩ := init1_inv steps hpoly (0 : K) 0 (k + 1) hk
    simp only [Nat.add_one_ne_zero, if_false, Nat.add_sub_cancel, Nat.sub_zero, zero_add] at h2 h3
    rw [h2, h3, pre_succ]
    have : 0 ≤ evLen (steps.map stepLen) (eAt (init1 (0 : K) 0 steps) (k + 1)).index := by
      simp only [evLen, List.getD_eq_getElem?_getD, List.getElem?_map]
      cases h : steps[(eAt (init1 (0 : K) 0 steps) (k + 1)).index]? with
      | none => simp
      | some v => simpa using hnn v (List.mem_of_getElem? h)
    linarith
  intro i j hij hj
  induction j with
  | zero =>
    have : i = 0 := by omega
    rw [this]
  | succ n ih =>
    rcases Nat.lt_or_ge i (n + 1) with h | h
    · exact le_trans (ih (by omega) (by omega)) (adj n hj)
    · have : i = n + 1 := by omega
      rw [this]

theorem stepOf_isPoly [Transc K] [FlatConst K] (tol : K) (e : Ev K) (h : e.isPoly = true) :
    (stepOf tol e).isPoly = true := by
  cases e with
  | begin p a => rfl
  | line f g af at_ => rfl
  | quad f c g af at_ => simp [Ev.isPoly] at h
  | cubic f c1 c2 g af at_ => simp [Ev.isPoly] at h
  | end_ l f al af cl => cases cl <;> rfl

theorem sum_fst_nonneg (l : List (K × K)) (h : ∀ x ∈ l, 0 ≤ x.1) : 0 ≤ (l.map Prod.fst).sum := by
  induction l with
  | nil => simp
  | cons x r ih =>
    simp only [List.map_cons, List.sum_cons]
    have := h x (by simp)
    have := ih (fun y hy => h y (List.mem_cons_of_mem _ hy))
    linarith

/-- **the table of a measured path satisfies the hypotheses of the cursor theorems**: if `sqrt` is
non-negative and the path starts with `Begin`, the table is non-decreasing and starts at 0 -/
theorem initTable_mono_zero [Transc K] [FlatConst K] (tol : K) (hsqrt : ∀ x : K, 0 ≤ Transc.sqrt x)
    (p : P K) (a : List K) (evs : List (Ev K)) (hpoly : ∀ e ∈ evs, e.isPoly = true) :
    Mono (initTable tol (.begin p a :: evs)) ∧ dAt (initTable tol (.begin p a :: evs)) 0 = 0 := by
  have z : (Scalar.zero : K) = 0 := by simp
  unfold initTable
  rw [z]
  constructor
  · have hp : ∀ st ∈ List.map (stepOf tol) (Ev.begin p a :: evs), st.isPoly = true := by
      intro st hst
      obtain ⟨e, hem, he⟩ := List.mem_map.mp hst
      rw [← he]
      rcases List.mem_cons.mp hem with h | h
      · rw [h]; rfl
      · exact stepOf_isPoly tol e (hpoly e h)
    apply init1_mono _ hp
    intro st hst
    obtain ⟨e, _, he⟩ := List.mem_map.mp hst
    rw [← he]
    have hflat : ∀ l : Option (List (FlatSeg K)), 0 ≤ ((flatEntries l).map Prod.fst).sum := by
      intro l
      apply sum_fst_nonneg
      intro x hx
      simp only [flatEntries, List.mem_map] at hx
      obtain ⟨sg, _, hsg⟩ := hx
      rw [← hsg]; exact hsqrt _
    cases e with
    | begin p a => simp [stepOf, stepLen]
    | line f g af at_ => simp only [stepOf, stepLen, vlen]; exact hsqrt _
    | quad f c g af at_ => simp only [stepOf, stepLen]; exact hflat _
    | cubic f c1 c2 g af at_ => simp only [stepOf, stepLen]; exact hflat _
    | end_ l f al af cl =>
      cases cl with
      | true => simp only [stepOf, stepLen, vlen]; exact hsqrt _
      | false => simp [stepOf, stepLen]
  · simp [init1, stepOf, dAt, eAt]

/-- **split_lengths_add for measured paths**: for the table `initialize` builds from ANY polyline
event sequence, the only hypotheses left are about the cursors (ordered, on entries of positive
length — which `cursor_history_on_positive_edges` provides after any history). -/
theorem split_lengths_add_measured (steps : List (Step K)) (hpoly : ∀ st ∈ steps, st.isPoly = true)
    (pa pb pb' pc : Nat) (a b c : K)
    (ha : 1 ≤ pa) (hab : pa ≤ pb) (hab' : pa ≤ pc) (hb' : 1 ≤ pb') (hbc : pb' ≤ pc)
    (hc : pc < (init1 (0 : K) 0 steps).length) (hb : pb < (init1 (0 : K) 0 steps).length)
    (ga : dAt (init1 (0 : K) 0 steps) (pa - 1) < dAt (init1 (0 : K) 0 steps) pa)
    (gb : dAt (init1 (0 : K) 0 steps) (pb - 1) < dAt (init1 (0 : K) 0 steps) pb)
    (gb' : dAt (init1 (0 : K) 0 steps) (pb' - 1) < dAt (init1 (0 : K) 0 steps) pb')
    (gc : dAt (init1 (0 : K) 0 steps) (pc - 1) < dAt (init1 (0 : K) 0 steps) pc) :
    piecesLen (steps.map stepLen) (splitPieces (init1 (0 : K) 0 steps) pa pb a b)
      + piecesLen (steps.map stepLen) (splitPieces (init1 (0 : K) 0 steps) pb' pc b c)
      = piecesLen (steps.map stepLen) (splitPieces (init1 (0 : K) 0 steps) pa pc a c) := by
  refine split_lengths_add _ _ pa pb pb' pc a b c (init1_coherent steps hpoly).1 ?_ ?_ ha hab hab' hb' hbc hc hb
    ga gb gb' gc
  · intro p hp1 hp
    refine ⟨?_, (init1_coherent steps hpoly).2 p hp⟩
    have := init1_index_adjacent steps hpoly (0 : K) 0 (p - 1) (by omega)
    have e : p - 1 + 1 = p := by omega
    rw [e] at this
    unfold tBegin
    rw [if_neg (ne_of_lt this)]
    simp
  · intro p q _ hpq hq
    exact init1_index_strict steps hpoly (0 : K) 0 p q hpq hq

/-- an entry of the table belongs to a straight event (`Begin`, `Line`, closing `End`) -/
def StraightAt (steps : List (Step K)) (p : Nat) : Prop :=
  (steps.getD (eAt (init1 (0 : K) 0 steps) p).index .skip).isPoly = true

theorem straight_entry_facts (steps : List (Step K)) (p : Nat) (hp1 : 1 ≤ p)
    (hp : p < (init1 (0 : K) 0 steps).length) (hs : StraightAt steps p) :
    dAt (init1 (0 : K) 0 steps) p = pre (steps.map stepLen) ((eAt (init1 (0 : K) 0 steps) p).index + 1) ∧
    dAt (init1 (0 : K) 0 steps) (p - 1) = pre (steps.map stepLen) (eAt (init1 (0 : K) 0 steps) p).index ∧
    tBegin (init1 (0 : K) 0 steps) p = 0 ∧ (eAt (init1 (0 : K) 0 steps) p).t = 1 := by
  obtain ⟨_, hrest⟩ := init1_inv_mixed steps (0 : K) 0 p hp
  obtain ⟨h2, h3, h4⟩ := hrest (by simpa [StraightAt] using hs)
  have hp0 : p ≠ 0 := by omega
  simp only [hp0, if_false, Nat.sub_zero, zero_add] at h2 h3
  refine ⟨h2, h3, ?_, h4⟩
  have := (init1_index_adjacent_mixed steps (0 : K) 0 (p - 1) (by omega)).2
  have e : p - 1 + 1 = p := by omega
  rw [e] at this
  have := this (Or.inr (by simpa [StraightAt] using hs))
  unfold tBegin
  rw [if_neg (ne_of_lt this)]
  simp

/-- **split length on a path with curves**: cut points on straight entries, anything in between -/
theorem split_pieces_length_curved (steps : List (Step K)) (p1 p2 : Nat) (s e : K)
    (h1 : 1 ≤ p1) (h12 : p1 ≤ p2) (h2' : p2 < (init1 (0 : K) 0 steps).length)
    (s1 : StraightAt steps p1) (s2 : StraightAt steps p2)
    (hg1 : dAt (init1 (0 : K) 0 steps) (p1 - 1) < dAt (init1 (0 : K) 0 steps) p1)
    (hg2 : dAt (init1 (0 : K) 0 steps) (p2 - 1) < dAt (init1 (0 : K) 0 steps) p2) :
    piecesLen (steps.map stepLen) (splitPieces (init1 (0 : K) 0 steps) p1 p2 s e) = e - s := by
  obtain ⟨a1, a2, a3, a4⟩ := straight_entry_facts steps p1 h1 (by omega) s1
  obtain ⟨b1, b2, b3, b4⟩ := straight_entry_facts steps p2 (by omega) h2' s2
  have hi := init1_index_mixed steps (0 : K) 0 p1 p2 h12 h2'
  exact split_pieces_length_at _ _ p1 p2 s e a1 a2 b1 b2 h1 (by omega) (by omega) h2' hg1 hg2
    a3 a4 b3 b4 hi.1 (hi.2 (by simpa [StraightAt] using s1))

/-- **split_lengths_add on paths with curves** (`split_lengths_add_measured` for curved tables, as
far as the 1-D length of a piece is defined): for the table `initialize` builds from ANY event
sequence — curves contribute the entries of their flattening and count with its total length —
the pieces for `a..b` and `b..c` add up to those for `a..c` whenever the cut points `a`, `b`, `c`
fall on straight edges (of positive length); the ranges may contain any number of curves.
(A cut INSIDE a curve has no 1-D length in this model: the piece is the sub-curve `split_range(t0..t1)`
of C10, whose arclength is not linear in `t`; that case is covered by the oracle only.) -/
theorem split_lengths_add_curved (steps : List (Step K)) (pa pb pb' pc : Nat) (a b c : K)
    (ha : 1 ≤ pa) (hab : pa ≤ pb) (hab' : pa ≤ pc) (hb' : 1 ≤ pb') (hbc : pb' ≤ pc)
    (hc : pc < (init1 (0 : K) 0 steps).length) (hb : pb < (init1 (0 : K) 0 steps).length)
    (sa : StraightAt steps pa) (sb : StraightAt steps pb) (sb' : StraightAt steps pb')
    (sc : StraightAt steps pc)
    (ga : dAt (init1 (0 : K) 0 steps) (pa - 1) < dAt (init1 (0 : K) 0 steps) pa)
    (gb : dAt (init1 (0 : K) 0 steps) (pb - 1) < dAt (init1 (0 : K) 0 steps) pb)
    (gb' : dAt (init1 (0 : K) 0 steps) (pb' - 1) < dAt (init1 (0 : K) 0 steps) pb')
    (gc : dAt (init1 (0 : K) 0 steps) (pc - 1) < dAt (init1 (0 : K) 0 steps) pc) :
    piecesLen (steps.map stepLen) (splitPieces (init1 (0 : K) 0 steps) pa pb a b)
      + piecesLen (steps.map stepLen) (splitPieces (init1 (0 : K) 0 steps) pb' pc b c)
      = piecesLen (steps.map stepLen) (splitPieces (init1 (0 : K) 0 steps) pa pc a c) := by
  rw [split_pieces_length_curved steps pa pb a b ha hab hb sa sb ga gb,
    split_pieces_length_curved steps pb' pc b c hb' hbc hc sb' sc gb' gc,
    split_pieces_length_curved steps pa pc a c ha hab' hc sa sc ga gc]
  ring

/-! ### the cursor always rests on an edge that can be sampled

  Former defect (DESIGN.md §7, finding C19-sample-zero-single-point-subpath-panic & co., repaired by
  /repo commit 72673fa5 "fix: PathSampler::move_cursor(0.0) rests on the first edge with a non-zero
  length"): `move_cursor(0.0)` used to set `cursor = 1` unconditionally.  Witness at the time
  (theorem `cursor_on_begin_edge_witness`, proved on the old model):
  `begin(0,0) end(false); begin(1,0) line_to(2,0) end(false)` has the table
  `[Begin@0: 0, Begin@2: 0, Line@3: 1]`; `sample(0.0)` put the cursor on entry 1, a `Begin` entry,
  and the segment dispatch fell through to `unreachable!()`; with a zero-length first edge
  (`begin(0,0) line_to(0,0) line_to(1,0)`) `t` was `0/0`.  Only the `_partial` statements (first
  entry of positive length) were provable.  The harness keeps both witnesses as fixed cases.  -/

/-- a cursor is *good* if it is the initial one or rests on an entry of positive length -/
def GoodCursor (es : List (Edge K)) (c : Nat) : Prop := c = 0 ∨ dAt es (c - 1) < dAt es c

/-- **cursor_on_positive_edge.**  On every non-decreasing table starting at 0 with positive length
(i.e. whenever the path has an edge of positive length), after a query at any `dist ∈ [0, length]`
from a good cursor the cursor rests on an entry of positive length — whatever the search branches. -/
theorem cursor_on_positive_edge (es : List (Edge K)) (c : Nat) (dist : K) (linF linB : Bool)
    (h0 : dAt es 0 = 0) (hmono : Mono es) (hL : 0 < length es) (hc : c < es.length)
    (hd0 : 0 ≤ dist) (hd1 : dist ≤ length es) (hgood : GoodCursor es c) :
    dAt es (moveCursorWith linF linB es c dist - 1) < dAt es (moveCursorWith linF linB es c dist) := by
  unfold moveCursorWith
  by_cases hz : dist = 0
  · have : (dist == (Scalar.zero : K)) = true := by rw [sc_beq]; simpa using hz
    rw [if_pos this]
    obtain ⟨_, _, z3, z4⟩ := zero_cursor es h0 hmono hL
    rw [z3]; exact z4
  · have : ¬ ((dist == (Scalar.zero : K)) = true) := by rw [sc_beq]; simpa using hz
    rw [if_neg this]
    by_cases hib : inBounds es c dist
    · rw [if_pos hib]
      rcases hgood with h | h
      · exact absurd h hib.1
      · exact h
    · rw [if_neg hib]
      have hpos : 0 < dist := lt_of_le_of_ne hd0 (Ne.symm hz)
      have := search_in_bounds es c dist linF linB h0 hc hpos hd1 hib
      exact lt_of_lt_of_le this.2.2.1 this.2.2.2

/-- the cursors visited by a whole query history (distances already clamped), with arbitrary
branch selections per query -/
noncomputable def cursorsAfter (es : List (Edge K)) : Nat → List (K × Bool × Bool) → List Nat
  | _, [] => []
  | c, (d, lf, lb) :: r => moveCursorWith lf lb es c d :: cursorsAfter es (moveCursorWith lf lb es c d) r

/-- **history form**: after every query of any sequence on one sampler, the cursor is in range and
rests on an entry of positive length -/
theorem cursor_history_on_positive_edges (es : List (Edge K))
    (h0 : dAt es 0 = 0) (hmono : Mono es) (hL : 0 < length es) :
    ∀ (qs : List (K × Bool × Bool)) (c : Nat), c < es.length → GoodCursor es c →
      (∀ q ∈ qs, 0 ≤ q.1 ∧ q.1 ≤ length es) →
      ∀ c' ∈ cursorsAfter es c qs, 1 ≤ c' ∧ c' < es.length ∧ dAt es (c' - 1) < dAt es c' := by
  intro qs
  induction qs with
  | nil => intro c _ _ _ c' h; simp [cursorsAfter] at h
  | cons q r ih =>
    intro c hc hg hq c' hmem
    obtain ⟨d, lf, lb⟩ := q
    have hd := hq (d, lf, lb) (by simp)
    have hb := move_cursor_in_bounds es c d lf lb h0 hmono hc hL hd.1 hd.2
    have hp := cursor_on_positive_edge es c d lf lb h0 hmono hL hc hd.1 hd.2 hg
    simp only [cursorsAfter, List.mem_cons] at hmem
    rcases hmem with e | e
    · rw [e]; exact ⟨hb.1, hb.2.1, hp⟩
    · exact ih _ hb.2.1 (Or.inr hp) (fun q hq' => hq q (List.mem_cons_of_mem _ hq')) c' e

theorem clampDist_bounds (normalized : Bool) (len x : K) (hlen : 0 ≤ len) :
    0 ≤ clampDist normalized len x ∧ clampDist normalized len x ≤ len := by
  have z : (Scalar.zero : K) = 0 := by simp
  simp only [clampDist, sc_max, sc_min, z]
  exact ⟨le_min (le_max_right _ _) hlen, min_le_right _ _⟩

/-- in a table built by `initialize`, an entry of positive length belongs to an event that
`to_segment` turns into a line segment (a `Line`, or a closing `End`) — never `Begin` -/
theorem positive_gap_is_segment [Transc K] [FlatConst K] (tol : K) (evs : List (Ev K))
    (hpoly : ∀ e ∈ evs, e.isPoly = true) (k : Nat) (hk1 : 1 ≤ k)
    (hk : k < (initTable tol evs).length)
    (hgap : dAt (initTable tol evs) (k - 1) < dAt (initTable tol evs) k) :
    ∃ seg, toSegment (evs.getD (eAt (initTable tol evs) k).index
      (.end_ ⟨Scalar.zero, Scalar.zero⟩ ⟨Scalar.zero, Scalar.zero⟩ [] [] false)) = some seg := by
  have z : (Scalar.zero : K) = 0 := by simp
  unfold initTable at hk hgap ⊢
  rw [z] at hk hgap ⊢
  have hp : ∀ st ∈ List.map (stepOf tol) evs, st.isPoly = true := by
    intro st hst
    obtain ⟨e, hem, he⟩ := List.mem_map.mp hst
    rw [← he]
    exact stepOf_isPoly tol e (hpoly e hem)
  obtain ⟨_, h2, h3, _⟩ := init1_inv (evs.map (stepOf tol)) hp (0 : K) 0 k hk
  have hk0 : k ≠ 0 := by omega
  simp only [hk0, if_false, Nat.sub_zero, zero_add] at h2 h3
  rw [h2, h3, pre_succ] at hgap
  have hpos : 0 < evLen ((evs.map (stepOf tol)).map stepLen) (eAt (init1 (0 : K) 0 (evs.map (stepOf tol))) k).index := by
    linarith
  generalize (eAt (init1 (0 : K) 0 (evs.map (stepOf tol))) k).index = idx at hpos ⊢
  have e : evLen ((evs.map (stepOf tol)).map stepLen) idx
      = stepLen (stepOf tol (evs.getD idx (.end_ ⟨0, 0⟩ ⟨0, 0⟩ [] [] false))) := by
    simp only [evLen, List.getD_eq_getElem?_getD, List.getElem?_map]
    cases evs[idx]? with
    | none => simp [stepOf, stepLen]
    | some v => simp
  rw [e] at hpos
  cases hv : evs.getD idx (.end_ ⟨0, 0⟩ ⟨0, 0⟩ [] [] false) with
  | begin p a => rw [hv] at hpos; simp [stepOf, stepLen] at hpos
  | line f g af at_ => exact ⟨_, rfl⟩
  | quad f c g af at_ => exact ⟨_, rfl⟩
  | cubic f c1 c2 g af at_ => exact ⟨_, rfl⟩
  | end_ l f al af cl =>
    cases cl with
    | true => exact ⟨_, rfl⟩
    | false => rw [hv] at hpos; simp [stepOf, stepLen] at hpos

theorem moveCursor_zero (es : List (Edge K)) (c : Nat) : moveCursor es c 0 = zeroScan es es.length 1 := by
  unfold moveCursor moveCursorWith
  have : ((0 : K) == (Scalar.zero : K)) = true := by rw [sc_beq]; simp
  rw [if_pos this]

/-- **sample_never_panics.**  For a sampler over a measured path (`edges = initialize(events)`,
non-decreasing table starting at 0), from any good cursor — hence, by
`cursor_history_on_positive_edges`, after any history — `sample_impl` at ANY distance and sample
type returns a sample: it never reaches `unreachable!()`, and the entry it interpolates on has
positive length (no division by a zero edge length, also for `dist = 0`). -/
theorem sample_never_panics [Transc K] [FlatConst K] (tol : K) (m : M K)
    (hm : m.edges = initTable tol m.evs) (hpoly : ∀ e ∈ m.evs, e.isPoly = true) (c : Nat)
    (normalized : Bool) (d : K)
    (h0 : dAt m.edges 0 = 0) (hmono : Mono m.edges) (hc : c < m.edges.length)
    (hgood : GoodCursor m.edges c) :
    (sampleImpl m c normalized d).2 ≠ .panic ∧
    ((length m.edges ≠ 0) →
      dAt m.edges ((sampleImpl m c normalized d).1 - 1) < dAt m.edges (sampleImpl m c normalized d).1) := by
  have hnn : 0 ≤ length m.edges := by
    rw [length_eq _ (by omega)]
    have := hmono 0 (m.edges.length - 1) (by omega) (by omega)
    rwa [h0] at this
  unfold sampleImpl
  by_cases hz : (length m.edges == (Scalar.zero : K)) = true
  · rw [if_pos hz]
    refine ⟨?_, fun h => absurd (by rw [sc_beq] at hz; simpa using hz) h⟩
    unfold sampleZeroLength
    split <;> simp
  · rw [if_neg hz]
    have hne : length m.edges ≠ 0 := by
      intro h; apply hz; rw [sc_beq]; simpa using h
    have hL : 0 < length m.edges := lt_of_le_of_ne hnn (Ne.symm hne)
    obtain ⟨b0, b1⟩ := clampDist_bounds normalized (length m.edges) d hnn
    have hb := move_cursor_in_bounds_heuristic m.edges c _ h0 hmono hc hL b0 b1
    have hp := cursor_on_positive_edge m.edges c (clampDist normalized (length m.edges) d)
      (heurFwd m.edges c (clampDist normalized (length m.edges) d))
      (heurBwd m.edges c (clampDist normalized (length m.edges) d)) h0 hmono hL hc b0 b1 hgood
    refine ⟨?_, fun _ => hp⟩
    have hp' : dAt (initTable tol m.evs) (moveCursor m.edges c (clampDist normalized (length m.edges) d) - 1)
        < dAt (initTable tol m.evs) (moveCursor m.edges c (clampDist normalized (length m.edges) d)) := by
      rw [← hm]; exact hp
    obtain ⟨seg, hseg⟩ := positive_gap_is_segment tol m.evs hpoly _ hb.1 (by rw [← hm]; exact hb.2.1) hp'
    obtain ⟨sg, af, at_⟩ := seg
    rw [← hm] at hseg
    simp only [sampleOn, evAt]
    rw [hseg]
    simp

/-- **sample_history_independent at distance 0** (repaired code): the `dist == 0.0` branch does not
look at the previous cursor at all. -/
theorem sample_at_zero_history_independent [Transc K] (m : M K) (c1 c2 : Nat) (normalized : Bool)
    (d : K) (hd : clampDist normalized (length m.edges) d = 0) :
    (sampleImpl m c1 normalized d).2 = (sampleImpl m c2 normalized d).2 := by
  unfold sampleImpl
  by_cases hz : (length m.edges == (Scalar.zero : K)) = true
  · rw [if_pos hz, if_pos hz]
  · rw [if_neg hz, if_neg hz, hd, moveCursor_zero, moveCursor_zero]

/-! ### non-vacuity: concrete instances of the hypotheses (over ℚ) -/

section Examples

/-- table of `begin(0,0) line_to(1,0) line_to(1,2) end(false)`: distances 0, 1, 3 -/
noncomputable def exTable : List (Edge ℚ) := [⟨0, 0, 1⟩, ⟨1, 1, 1⟩, ⟨3, 2, 1⟩]

theorem exTable_dAt : dAt exTable 0 = 0 ∧ dAt exTable 1 = 1 ∧ dAt exTable 2 = 3 := by
  simp [exTable, dAt, eAt]

theorem exTable_mono : Mono exTable := by
  intro i j hij hj
  have hj' : j < 3 := by simpa [exTable] using hj
  obtain ⟨a0, a1, a2⟩ := exTable_dAt
  interval_cases j <;> interval_cases i <;> simp_all

/-- hypotheses of `move_cursor_in_bounds`, `cursor_history_independent`,
`sample_history_independent`, `cursor_on_positive_edge`, `sample_never_panics`: a monotone table starting at 0
with positive length, a cursor in range, `dist = 2` strictly inside the last entry. -/
example : dAt exTable 0 = 0 ∧ Mono exTable ∧ (1 : Nat) < exTable.length ∧ 0 < length exTable ∧
    (0 : ℚ) ≤ 2 ∧ (2 : ℚ) ≤ length exTable ∧ dAt exTable (2 - 1) < 2 ∧ (2 : ℚ) < dAt exTable 2 ∧
    dAt exTable 0 < dAt exTable 1 ∧ GoodCursor exTable 0 := by
  obtain ⟨a0, a1, a2⟩ := exTable_dAt
  have hl : length exTable = 3 := by rw [length_eq _ (by simp [exTable])]; simpa [exTable] using a2
  refine ⟨a0, exTable_mono, by simp [exTable], by rw [hl]; norm_num, by norm_num, by rw [hl]; norm_num,
    by rw [a1]; norm_num, by rw [a2]; norm_num, by rw [a0, a1]; norm_num, Or.inl rfl⟩

/-- and the conclusion is not trivial there: from cursor 0, by binary search, the cursor becomes 2 -/
example : moveCursorWith false false exTable 0 (2 : ℚ) = 2 := by
  obtain ⟨a0, a1, a2⟩ := exTable_dAt
  have hl : length exTable = 3 := by rw [length_eq _ (by simp [exTable])]; simpa [exTable] using a2
  exact cursor_history_independent exTable 0 2 false false a0 exTable_mono (by simp [exTable])
    (by rw [hl]; norm_num) (by norm_num) (by rw [hl]; norm_num) 2 (by norm_num) (by simp [exTable])
    (by rw [a1]; norm_num) (by rw [a2]; norm_num)

/-- hypotheses of `t_in_range` / `sample_at_distance_1d` / `split_pieces_length` on that table:
polyline entries (`t_begin = 0`, `t = 1`), positive gaps, coherence with the event lengths 0, 1, 2 -/
example : tBegin exTable 2 = 0 ∧ (eAt exTable 2).t = 1 ∧ dAt exTable (2 - 1) < dAt exTable 2 ∧
    tBegin exTable 2 ≤ (eAt exTable 2).t ∧ Coherent exTable [0, 1, 2] := by
  obtain ⟨a0, a1, a2⟩ := exTable_dAt
  refine ⟨by simp [tBegin, exTable, eAt], by simp [exTable, eAt], by rw [a1, a2]; norm_num,
    by simp [tBegin, exTable, eAt], ?_⟩
  intro k hk1 hk
  have hk' : k < 3 := by simpa [exTable] using hk
  interval_cases k
  · simp [exTable, dAt, eAt, pre]
  · simp [exTable, dAt, eAt, pre]; norm_num

/-- hypotheses of the walker theorems: a fresh walker (`start = 1/2`) has its first callback due,
an edge of length 1 is not skipped, and requests `≥ 1/4` with fuel 8 cover distance `< 2` -/
example : Due (1/2 : ℚ) (Walk.regular (1/4 : ℚ) 100) ⟨0, 0, 1/2, false, 0⟩ ∧
    ¬ ((1 : ℚ) < Scalar.ofSci 1 5) ∧ (1 : ℚ) ≠ 0 ∧
    (∀ k nd, Walk.regular (1/4 : ℚ) 100 k = some nd → (1/4 : ℚ) ≤ nd) ∧ ((3/2 : ℚ) < (8 : Nat) * (1/4 : ℚ)) := by
  refine ⟨by simp [Due, cum], ?_, by norm_num, ?_, by norm_num⟩
  · simp only [geom]; norm_num
  · intro k nd h
    simp only [Walk.regular] at h
    split at h
    · injection h with h; rw [← h]
    · cases h

/-- hypothesis of `walker_needs_positive`: the zero request of `RegularPattern { interval: 0.0 }` -/
example : (0 : ℚ) ≤ 0 ∧ (⟨0, 0, 0, false, 0⟩ : Walk.W1 ℚ).nextDistance = 0 := ⟨le_refl _, rfl⟩

/-- hypothesis `hm` of `sample_never_panics`: every sampler the model builds satisfies it by definition -/
example [Transc ℚ] [FlatConst ℚ] (tol : ℚ) (cmds : List (Cmd ℚ)) :
    (Measure.mk 0 tol cmds).edges
      = initTable (Scalar.max tol (Scalar.ofSci 1 4)) (Measure.mk 0 tol cmds).evs := rfl

/-- hypotheses of `split_pieces_length_curved` / `split_lengths_add_curved`: a path
`begin, line (1), quadratic flattened into two lines (1 + 1), line (2)`; the cursors 1 and 4 rest on
the two straight edges, the curve's two entries (2, 3) lie in between -/
noncomputable def exCurvedSteps : List (Step ℚ) := [.mark, .add 1, .many [(1, 1/2), (1, 1)], .add 2]

example : (init1 (0 : ℚ) 0 exCurvedSteps).length = 5 ∧ StraightAt exCurvedSteps 1 ∧
    StraightAt exCurvedSteps 4 ∧ ¬ StraightAt exCurvedSteps 2 ∧
    dAt (init1 (0 : ℚ) 0 exCurvedSteps) (1 - 1) < dAt (init1 (0 : ℚ) 0 exCurvedSteps) 1 ∧
    dAt (init1 (0 : ℚ) 0 exCurvedSteps) (4 - 1) < dAt (init1 (0 : ℚ) 0 exCurvedSteps) 4 := by
  have o : (Scalar.one : ℚ) = 1 := by simp
  have hT : init1 (0 : ℚ) 0 exCurvedSteps
      = [⟨0, 0, 1⟩, ⟨1, 1, 1⟩, ⟨2, 2, 1/2⟩, ⟨3, 2, 1⟩, ⟨5, 3, 1⟩] := by
    simp [exCurvedSteps, init1, pushMany, sumMany, o]
    norm_num
  refine ⟨by rw [hT]; rfl, ?_, ?_, ?_, ?_, ?_⟩
  · unfold StraightAt; rw [hT]; simp [eAt, exCurvedSteps, Step.isPoly]
  · unfold StraightAt; rw [hT]; simp [eAt, exCurvedSteps, Step.isPoly]
  · unfold StraightAt; rw [hT]; simp [eAt, exCurvedSteps, Step.isPoly]
  · rw [hT]; simp [dAt, eAt]
  · rw [hT]; simp [dAt, eAt]; norm_num

end Examples

end Lyon.C19
