import LyonVerif.Model.Algo.Measure
import LyonVerif.Model.Algo.Walk
import LyonVerif.Lemmas.Field

namespace Lyon.C19
theorem stub : True := trivial
end Lyon.C19
