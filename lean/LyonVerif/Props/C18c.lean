/-
  C18 (miss C18-r4-2) — the fill tessellator's own `add_circle` delivers the requested direction in
  EVERY piece of its expansion.

  `FillBuilder::add_circle` (fill.rs; model `PathShapes.fillAddCircle`, run through the modelled
  sweep and compared bit for bit with the real `FillTessellator::builder(..)` on every run, family
  `fillprog:32`) does not trace the outline of the circle: it emits eight open sub-paths of one
  quadratic each (the arcs) and the inscribed octagon.  For the fill to put triangles where the
  hit test of the circle says (one full turn in the requested direction everywhere inside), every
  one of the nine pieces must turn the requested way — a piece of the other direction would cancel
  (non-zero rule) or double (a hole, a hump) wherever another sub-path overlaps.

  * `fill_builder_circle_pieces`   the nine sub-paths, spelled out;
  * `fill_builder_circle_winding`  for `radius ≠ 0` and both requested windings: every piece `s` of
        the expansion has `compute_winding(s) = requested` (lyon's own `compute_winding` on the
        piece's events, `Winding.computeWindingC`), and its doubled control-polygon area is not
        zero: positive exactly for `Winding::Positive`, negative exactly for `Winding::Negative`;
  * `fill_builder_circle_areas`    the values: `dir · r² · tan(π/8) · (1 − 1/√2)` for each arc,
        `8 · dir · r² · (1/√2)` for the octagon (with lyon's two `f32` constants as written);
  * `fill_builder_circle_octagon_fixed_order_witness`  the seeded variant (octagon corners in a fixed
        order) violates the statement for `Winding::Negative`: its octagon has positive area.
-/
import LyonVerif.Model.Tess.FillBuilderShapes
import LyonVerif.Lemmas.Field
import Mathlib.Tactic.Positivity
import Mathlib.Tactic.NormNum

set_option linter.unusedSectionVars false
set_option linter.unusedVariables false

namespace Lyon.C18
open Lyon Lyon.Winding Lyon.Path Lyon.PathShapes Lyon.FillBuilderShapes

variable {K : Type} [Field K] [LinearOrder K] [IsStrictOrderedRing K]

/-- `tan_pi_over_8 = 0.41421357` is positive -/
theorem tanPi8_pos : (0 : K) < tanPi8 := by
  simp only [tanPi8, ofSci_eq]; positivity

/-- `FRAC_1_SQRT_2` lies strictly between 0 and 1 -/
theorem frac1Sqrt2_pos : (0 : K) < frac1Sqrt2 := by
  simp only [frac1Sqrt2, ofSci_eq]; positivity

theorem frac1Sqrt2_lt_one : (frac1Sqrt2 : K) < 1 := by
  simp only [frac1Sqrt2, ofSci_eq]
  rw [div_lt_one (by positivity)]
  norm_num

/-- the eight arcs and the octagon, with the constants abstracted -/
noncomputable def circlePieces (c : P K) (r dir t f : K) : List (CSub K) :=
  let d := r * t
  let start : P K := ⟨c.x + -r, c.y + 0⟩
  let m0 : P K := ⟨c.x + -1 * r * f, c.y + -dir * r * f⟩
  let m1 : P K := ⟨c.x + 0, c.y + -r * dir⟩
  let m2 : P K := ⟨c.x + 1 * r * f, c.y + -dir * r * f⟩
  let m3 : P K := ⟨c.x + r, c.y + 0⟩
  let m4 : P K := ⟨c.x + 1 * r * f, c.y + dir * r * f⟩
  let m5 : P K := ⟨c.x + 0, c.y + r * dir⟩
  let m6 : P K := ⟨c.x + -1 * r * f, c.y + dir * r * f⟩
  [ ⟨start, [.quad ⟨c.x + -r, c.y + -d * dir⟩ m0]⟩,
    ⟨m0, [.quad ⟨c.x + -d, c.y + -r * dir⟩ m1]⟩,
    ⟨m1, [.quad ⟨c.x + d, c.y + -r * dir⟩ m2]⟩,
    ⟨m2, [.quad ⟨c.x + r, c.y + -d * dir⟩ m3]⟩,
    ⟨m3, [.quad ⟨c.x + r, c.y + d * dir⟩ m4]⟩,
    ⟨m4, [.quad ⟨c.x + d, c.y + r * dir⟩ m5]⟩,
    ⟨m5, [.quad ⟨c.x + -d, c.y + r * dir⟩ m6]⟩,
    ⟨m6, [.quad ⟨c.x + -r, c.y + d * dir⟩ start]⟩,
    ⟨start, [.line m0, .line m1, .line m2, .line m3, .line m4, .line m5, .line m6]⟩ ]

/-- **the expansion of `FillBuilder::add_circle`, as sub-paths**: eight single-quadratic arcs and
the octagon (what `Path::iter()` would yield for the same calls) -/
theorem fill_builder_circle_pieces (c : P K) (radius : K) (positive : Bool) :
    toSubs (fillAddCircle c radius positive)
      = circlePieces c |radius| (dirOf positive) tanPi8 frac1Sqrt2 := by
  simp only [fillAddCircle, quadSub, toSubs, toSubsFuel, takeSegs, circlePieces, off, diag, List.cons_append,
    List.nil_append, List.length_cons, List.length_nil, geom, Nat.cast_one, Nat.cast_zero]

/-- doubled control-polygon area (`compute_winding`'s accumulator) of every piece -/
theorem circlePieces_areas (c : P K) (r dir t f : K) :
    (circlePieces c r dir t f).map windArea
      = [dir * r ^ 2 * t * (1 - f), dir * r ^ 2 * t * (1 - f), dir * r ^ 2 * t * (1 - f),
         dir * r ^ 2 * t * (1 - f), dir * r ^ 2 * t * (1 - f), dir * r ^ 2 * t * (1 - f),
         dir * r ^ 2 * t * (1 - f), dir * r ^ 2 * t * (1 - f), 8 * dir * r ^ 2 * f] := by
  simp only [circlePieces, List.map_cons, List.map_nil, windArea, windLoop, CSub.last, lastOf, CSeg.to, geom,
    Nat.cast_zero, List.cons.injEq, and_true]
  refine ⟨?_, ?_, ?_, ?_, ?_, ?_, ?_, ?_, ?_⟩ <;> ring

/-- the requested direction as a sign -/
theorem dirOf_cases (positive : Bool) : (dirOf positive : K) = if positive then 1 else -1 := by
  cases positive <;> simp [dirOf]

/-- the sign of every piece's area is the sign of `dir` (for `r ≠ 0`, `t > 0`, `0 < f < 1`) -/
theorem circlePieces_sign (c : P K) (r dir t f : K) (hr : r ≠ 0) (ht : 0 < t) (hf0 : 0 < f) (hf1 : f < 1) :
    ∀ s ∈ circlePieces c r dir t f, ∃ k : K, 0 < k ∧ windArea s = dir * k := by
  intro s hs
  have hmem : windArea s ∈ (circlePieces c r dir t f).map windArea := List.mem_map_of_mem hs
  rw [circlePieces_areas] at hmem
  have hr2 : 0 < r ^ 2 := by positivity
  have h1f : 0 < 1 - f := by linarith
  simp only [List.mem_cons, List.not_mem_nil, or_false] at hmem
  have arc : windArea s = dir * r ^ 2 * t * (1 - f) → ∃ k : K, 0 < k ∧ windArea s = dir * k :=
    fun h => ⟨r ^ 2 * t * (1 - f), by positivity, by rw [h]; ring⟩
  rcases hmem with h | h | h | h | h | h | h | h | h
  · exact arc h
  · exact arc h
  · exact arc h
  · exact arc h
  · exact arc h
  · exact arc h
  · exact arc h
  · exact arc h
  · exact ⟨8 * r ^ 2 * f, by positivity, by rw [h]; ring⟩

/-- **`FillBuilder::add_circle` delivers the requested direction in every piece.**  For a non-zero
radius and both requested windings, each of the nine sub-paths the routine emits — the eight arcs
and the inscribed octagon — is reported by lyon's `compute_winding` as the requested winding, and
its doubled control-polygon area is strictly positive for `Winding::Positive` (`positive = true`),
strictly negative for `Winding::Negative`. -/
theorem fill_builder_circle_winding (c : P K) (radius : K) (hr : radius ≠ 0) (positive : Bool) :
    ∀ s ∈ toSubs (fillAddCircle c radius positive),
      computeWindingC s = positive ∧
      (positive = true → 0 < windArea s) ∧ (positive = false → windArea s < 0) := by
  intro s hs
  rw [fill_builder_circle_pieces] at hs
  obtain ⟨k, hk, hA⟩ := circlePieces_sign c |radius| (dirOf positive) tanPi8 frac1Sqrt2
    (abs_ne_zero.mpr hr) tanPi8_pos frac1Sqrt2_pos frac1Sqrt2_lt_one s hs
  rw [dirOf_cases] at hA
  cases positive
  · have hneg : windArea s < 0 := by rw [hA]; simp only [Bool.false_eq_true, if_false]; linarith
    refine ⟨?_, by simp, fun _ => hneg⟩
    simp only [computeWindingC, decide_eq_false_iff_not, not_lt, geom, Nat.cast_zero]
    exact le_of_lt hneg
  · have hpos : 0 < windArea s := by rw [hA]; simp only [if_true]; linarith
    refine ⟨?_, fun _ => hpos, by simp⟩
    simp only [computeWindingC, decide_eq_true_eq, geom, Nat.cast_zero]
    exact hpos

/-- the values: every arc `dir · r² · tan(π/8) · (1 − 1/√2)`, the octagon `8 · dir · r² · (1/√2)`
(`r = |radius|`, the two constants as lyon writes them) -/
theorem fill_builder_circle_areas (c : P K) (radius : K) (positive : Bool) :
    (toSubs (fillAddCircle c radius positive)).map windArea
      = List.replicate 8 (dirOf positive * |radius| ^ 2 * tanPi8 * (1 - frac1Sqrt2))
          ++ [8 * dirOf positive * |radius| ^ 2 * frac1Sqrt2] := by
  rw [fill_builder_circle_pieces, circlePieces_areas]
  rfl

/-- nine pieces -/
theorem fill_builder_circle_count (c : P K) (radius : K) (positive : Bool) :
    (toSubs (fillAddCircle c radius positive)).length = 9 := by
  rw [fill_builder_circle_pieces]; rfl

-- non-vacuity: a concrete circle, requested `Negative`: all nine pieces are reported negative
example : ∀ s ∈ toSubs (fillAddCircle (⟨50, 50⟩ : P ℚ) 30 false), computeWindingC s = false :=
  fun s hs => (fill_builder_circle_winding (⟨50, 50⟩ : P ℚ) 30 (by norm_num) false s hs).1

/-! ### the seeded variant (C18-r4-2): octagon corners laid out in a fixed order -/

/-- the octagon of the seeded patch: the same eight corners, always in the order of
`Winding::Positive` -/
noncomputable def octagonFixedOrder (c : P K) (r f : K) : CSub K :=
  circlePieces c r 1 0 f |>.getLast (by simp [circlePieces])

/-- **witness**: with the octagon laid out in a fixed order, a circle requested with
`Winding::Negative` gets an octagon of POSITIVE area (`compute_winding = Positive`) next to arcs of
negative area: `fill_builder_circle_winding` fails for that variant — the defect class the family
`fillprog` decides on the real code (its triangles no longer agree with the hit test under the
non-zero rule when another sub-path overlaps the circle). -/
theorem fill_builder_circle_octagon_fixed_order_witness :
    computeWindingC (octagonFixedOrder (⟨50, 50⟩ : P ℚ) 30 frac1Sqrt2) = true ∧
    ∃ s ∈ toSubs (fillAddCircle (⟨50, 50⟩ : P ℚ) 30 false), computeWindingC s = false := by
  constructor
  · have h : windArea (octagonFixedOrder (⟨50, 50⟩ : P ℚ) 30 frac1Sqrt2) = 8 * 1 * 30 ^ 2 * frac1Sqrt2 := by
      have := circlePieces_areas (⟨50, 50⟩ : P ℚ) 30 1 0 frac1Sqrt2
      simp only [circlePieces, List.map_cons, List.map_nil, List.cons.injEq, and_true] at this
      simp only [octagonFixedOrder, circlePieces, List.getLast_cons_cons, List.getLast_singleton]
      exact this.2.2.2.2.2.2.2.2
    simp only [computeWindingC, decide_eq_true_eq, h, geom, Nat.cast_zero]
    have := frac1Sqrt2_pos (K := ℚ)
    positivity
  · have hlen := fill_builder_circle_count (⟨50, 50⟩ : P ℚ) 30 false
    obtain ⟨s, hs⟩ := List.exists_mem_of_length_pos (by rw [hlen]; norm_num : 0 < (toSubs (fillAddCircle (⟨50, 50⟩ : P ℚ) 30 false)).length)
    exact ⟨s, hs, (fill_builder_circle_winding (⟨50, 50⟩ : P ℚ) 30 (by norm_num) false s hs).1⟩

end Lyon.C18
