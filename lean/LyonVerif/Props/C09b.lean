/-
  C09, part b — the within-tolerance clause.

  ARC (`Arc::for_each_flattened(_with_t)`, model `Arc.forEachFlattenedWithT` of
  Model/Geom/Flatten.lean — the definition tied bit for bit to lyon on every run):

  * `arc_flat_within_tolerance`: for EVERY arc (circle or ellipse, any rotation, any sweep) with
    largest radius `R > 0` and every tolerance `tol ≥ 0`: every point `sample t`, `t ∈ [0,1]`, of the
    arc is within `tol` of the emitted segment whose parameter range contains `t`. `sin`/`cos`/
    `acos`/`π` are parameters; the laws used are the fields of `TrigLaws` (hypothesis `L`);
    Props/C09Real.lean discharges them for the real functions (`arc_flat_within_tolerance_real`).
    The step is computed from the largest radius (repair 99a81005): an ellipse is the image of the
    circle of radius `R` under a contraction (scale by `rx/R`, `ry/R`, then rotate), which maps
    chords to chords and does not increase distances — so the statement covers ellipses at full
    strength, not only circles.
    Hypotheses that are NOT about trigonometry, both about the code:
      - `hfuel`: the loop ended by its own `break` (what the driver checks: it prints `fuel`
        otherwise);
      - `heps1`, `heps`: the `if result < S::EPSILON { return 1 }` guard of `flattening_step` does
        not fire on the whole arc: `ε·|sweep| ≤ 2·acos((R − tol)/R)`. When it fires the rest of the
        arc is emitted as ONE segment whatever the tolerance (`arc_epsilon_guard_single_segment`).
        On floats this needs tol/R below ~5e-8·sweep² (f32) / ~5e-16·sweep² (f64), i.e. a tolerance at
        or below the resolution of the coordinates: an observation, not a finding.
  * `circle_arc_flat_within_tolerance`: the special case `radii = (r, r)`, `r > 0`, as asked.
  * `arc_flat_vertices_on_arc`, `circle_arc_vertices_on_circle`: every vertex IS a point of the arc
    (`sample` of the end of its range, ranges inside [0,1] and increasing), on a circle at distance
    exactly `r` from the centre.
  * `arc_large_tolerance`: for `tol ≥ 2R` any chord between any two arc points is within `tol` of
    every arc point (covers the float path `acos(x < −1) = NaN → step 1`).
-/
import LyonVerif.Model.Geom.Flatten
import LyonVerif.Lemmas.Field
import LyonVerif.Lemmas.Flatten
import LyonVerif.Lemmas.FlattenTolArc
import LyonVerif.Lemmas.FlattenTolCubic
import LyonVerif.Lemmas.FlattenTolQuad

set_option linter.unusedSectionVars false
set_option linter.unusedVariables false

namespace Lyon.C09
open Lyon Scalar Lyon.Flat

variable {K : Type} [Field K] [LinearOrder K] [IsStrictOrderedRing K]

/-! ## Arc -/

section arc
variable [Transc K] [FlatConst K]

/-- the coordinates scaled by the radii are dominated by those scaled by the largest radius -/
theorem radii_le_max (rx ry R X Y : K) (hR : R = Max.max |rx| |ry|) :
    rx * rx * X ^ 2 + ry * ry * Y ^ 2 ≤ R * R * (X ^ 2 + Y ^ 2) := by
  have h1 : rx * rx ≤ R * R := by
    rw [← abs_mul_abs_self rx]
    exact mul_self_le_mul_self (abs_nonneg _) (by rw [hR]; exact le_max_left _ _)
  have h2 : ry * ry ≤ R * R := by
    rw [← abs_mul_abs_self ry]
    exact mul_self_le_mul_self (abs_nonneg _) (by rw [hR]; exact le_max_right _ _)
  nlinarith [mul_le_mul_of_nonneg_right h1 (sq_nonneg X), mul_le_mul_of_nonneg_right h2 (sq_nonneg Y)]

/-- **arc_flat_within_tolerance** (arc tolerance clause, full strength for circles AND ellipses):
every point of the arc is within `tol` of the emitted segment whose range contains its parameter.
`L` = the laws of `sin`/`cos`/`acos` used; `hfuel` = the loop ended by its `break`;
`heps1`/`heps` = the `EPSILON` guard of `flattening_step` does not fire on the whole arc. -/
theorem arc_flat_within_tolerance (L : TrigLaws K) (a : Arc K) (R tol : K) (fuel : Nat)
    (hRdef : R = Max.max |a.radii.x| |a.radii.y|) (hR : 0 < R) (ht : 0 ≤ tol)
    (heps1 : (FlatConst.epsilon : K) ≤ 1)
    (heps : FlatConst.epsilon * |a.sweep| ≤ 2 * Transc.acos ((R - tol) / R))
    (hfuel : (a.forEachFlattenedWithT tol fuel).length ≤ fuel)
    (t : K) (ht0 : 0 ≤ t) (ht1 : t ≤ 1) :
    ∃ sg ∈ a.forEachFlattenedWithT tol fuel, sg.t0 ≤ t ∧ t ≤ sg.t1 ∧
      ∃ s : K, 0 ≤ s ∧ s ≤ 1 ∧ (a.sample t - sg.a.lerp sg.b s).sqLen ≤ tol * tol := by
  have hang : arcAng a tol = 2 * Transc.acos ((R - tol) / R) := by
    simp only [arcAng, sc_two, sc_max, sc_abs, ← hRdef]
  have hang0 : 0 ≤ arcAng a tol := by
    rw [hang]; have := L.acos_nonneg ((R - tol) / R); linarith
  have z : (zero : K) = 0 := sc_zero
  obtain ⟨hok, hcov⟩ := arc_loop_tol a tol hang0 heps1 (by rw [hang]; exact heps) fuel a 0 a.fromPt
    (arc_inv_init a) le_rfl zero_le_one (by simp only [Arc.fromPt, z])
    (by simpa only [Arc.forEachFlattenedWithT, z] using hfuel)
  obtain ⟨sg, hsg, h3, h4⟩ := hcov t ht0 ht1
  obtain ⟨ha, hb, _, _, _, hspan⟩ := hok sg hsg
  rw [hang] at hspan
  obtain ⟨s, hs0, hs1, hs⟩ := unit_chord_trig L a R tol sg.t0 sg.t1 t hR ht h3 h4 hspan
  refine ⟨sg, by simpa only [Arc.forEachFlattenedWithT, z] using hsg, h3, h4, s, hs0, hs1, ?_⟩
  rw [ha, hb, arc_chord_diff a sg.t0 sg.t1 t s (L.cos_sq_add_sin_sq _)]
  exact le_trans (radii_le_max _ _ R _ _ hRdef) hs

/-- **circle_arc_flat_within_tolerance**: the circular case `radii = (r, r)`, `r > 0`. -/
theorem circle_arc_flat_within_tolerance (L : TrigLaws K) (a : Arc K) (r tol : K) (fuel : Nat)
    (hrad : a.radii = ⟨r, r⟩) (hr : 0 < r) (ht : 0 < tol)
    (heps1 : (FlatConst.epsilon : K) ≤ 1)
    (heps : FlatConst.epsilon * |a.sweep| ≤ 2 * Transc.acos ((r - tol) / r))
    (hfuel : (a.forEachFlattenedWithT tol fuel).length ≤ fuel)
    (t : K) (ht0 : 0 ≤ t) (ht1 : t ≤ 1) :
    ∃ sg ∈ a.forEachFlattenedWithT tol fuel, sg.t0 ≤ t ∧ t ≤ sg.t1 ∧
      ∃ s : K, 0 ≤ s ∧ s ≤ 1 ∧ (a.sample t - sg.a.lerp sg.b s).sqLen ≤ tol * tol := by
  have hR : r = Max.max |a.radii.x| |a.radii.y| := by
    rw [hrad]; simp [abs_of_pos hr]
  exact arc_flat_within_tolerance L a r tol fuel hR hr (le_of_lt ht) heps1 heps hfuel t ht0 ht1

/-- **arc_flat_fuel_sufficient**: the loop ends by its own `break` within the fuel as soon as
`|sweep| ≤ fuel · 2·acos((R − tol)/R)` — each non-final segment consumes exactly that angle. This
discharges the hypothesis `hfuel` of the theorems above. -/
theorem arc_flat_fuel_sufficient (a : Arc K) (tol : K) (fuel : Nat)
    (hang0 : 0 ≤ Transc.acos ((Max.max |a.radii.x| |a.radii.y| - tol) / Max.max |a.radii.x| |a.radii.y|))
    (heps0 : (0 : K) < FlatConst.epsilon) (hf : 1 ≤ fuel)
    (hsw : |a.sweep| ≤ fuel
      * (2 * Transc.acos ((Max.max |a.radii.x| |a.radii.y| - tol) / Max.max |a.radii.x| |a.radii.y|))) :
    (a.forEachFlattenedWithT tol fuel).length ≤ fuel := by
  have hang : arcAng a tol
      = 2 * Transc.acos ((Max.max |a.radii.x| |a.radii.y| - tol) / Max.max |a.radii.x| |a.radii.y|) := by
    simp only [arcAng, sc_two, sc_max, sc_abs]
  have z : (zero : K) = 0 := sc_zero
  have := arc_loop_length a tol (by rw [hang]; linarith) heps0 fuel a 0 a.fromPt (arc_inv_init a)
    zero_le_one hf (by rw [hang]; simpa using hsw)
  simpa only [Arc.forEachFlattenedWithT, z] using this

/-- **arc_flat_within_tolerance_fuel**: `arc_flat_within_tolerance` with the fuel hypothesis
discharged: it suffices that `1 ≤ ε·fuel` (lyon's `EPSILON = 1e-4` for `f32` and the driver's fuel
of 100000: `ε·fuel = 10`). The only remaining hypothesis about the code is `heps`. -/
theorem arc_flat_within_tolerance_fuel (L : TrigLaws K) (a : Arc K) (R tol : K) (fuel : Nat)
    (hRdef : R = Max.max |a.radii.x| |a.radii.y|) (hR : 0 < R) (ht : 0 ≤ tol)
    (heps0 : (0 : K) < FlatConst.epsilon) (heps1 : (FlatConst.epsilon : K) ≤ 1)
    (hfe : 1 ≤ (FlatConst.epsilon : K) * fuel)
    (heps : FlatConst.epsilon * |a.sweep| ≤ 2 * Transc.acos ((R - tol) / R))
    (t : K) (ht0 : 0 ≤ t) (ht1 : t ≤ 1) :
    ∃ sg ∈ a.forEachFlattenedWithT tol fuel, sg.t0 ≤ t ∧ t ≤ sg.t1 ∧
      ∃ s : K, 0 ≤ s ∧ s ≤ 1 ∧ (a.sample t - sg.a.lerp sg.b s).sqLen ≤ tol * tol := by
  have hA0 := L.acos_nonneg ((R - tol) / R)
  have hf : 1 ≤ fuel := by
    rcases Nat.eq_zero_or_pos fuel with h | h
    · exfalso; subst h; simp at hfe; linarith
    · exact h
  have hsw : |a.sweep| ≤ fuel * (2 * Transc.acos ((R - tol) / R)) := by
    have h1 : |a.sweep| ≤ FlatConst.epsilon * fuel * |a.sweep| := by
      have := mul_le_mul_of_nonneg_right hfe (abs_nonneg a.sweep)
      linarith
    have h2 : FlatConst.epsilon * fuel * |a.sweep| = fuel * (FlatConst.epsilon * |a.sweep|) := by ring
    have h3 := mul_le_mul_of_nonneg_left heps (Nat.cast_nonneg (α := K) fuel)
    linarith
  have hfuel := arc_flat_fuel_sufficient a tol fuel (by rw [← hRdef]; exact hA0) heps0 hf
    (by rw [← hRdef]; exact hsw)
  exact arc_flat_within_tolerance L a R tol fuel hRdef hR ht heps1 heps hfuel t ht0 ht1

/-- **arc_flat_vertices_on_arc**: under the same two hypotheses about the code, every emitted
segment runs from `sample t0` to `sample t1` with `0 ≤ t0 ≤ t1 ≤ 1`: every vertex is a point of the
arc (distance 0 from the curve). No trigonometric law is needed. -/
theorem arc_flat_vertices_on_arc (a : Arc K) (tol : K) (fuel : Nat)
    (hang0 : 0 ≤ Transc.acos ((Max.max |a.radii.x| |a.radii.y| - tol) / Max.max |a.radii.x| |a.radii.y|))
    (heps1 : (FlatConst.epsilon : K) ≤ 1)
    (heps : FlatConst.epsilon * |a.sweep|
      ≤ 2 * Transc.acos ((Max.max |a.radii.x| |a.radii.y| - tol) / Max.max |a.radii.x| |a.radii.y|))
    (hfuel : (a.forEachFlattenedWithT tol fuel).length ≤ fuel) :
    ∀ sg ∈ a.forEachFlattenedWithT tol fuel,
      sg.a = a.sample sg.t0 ∧ sg.b = a.sample sg.t1 ∧ 0 ≤ sg.t0 ∧ sg.t0 ≤ sg.t1 ∧ sg.t1 ≤ 1 := by
  have hang : arcAng a tol
      = 2 * Transc.acos ((Max.max |a.radii.x| |a.radii.y| - tol) / Max.max |a.radii.x| |a.radii.y|) := by
    simp only [arcAng, sc_two, sc_max, sc_abs]
  have z : (zero : K) = 0 := sc_zero
  obtain ⟨hok, _⟩ := arc_loop_tol a tol (by rw [hang]; linarith) heps1 (by rw [hang]; exact heps) fuel a 0
    a.fromPt (arc_inv_init a) le_rfl zero_le_one (by simp only [Arc.fromPt, z])
    (by simpa only [Arc.forEachFlattenedWithT, z] using hfuel)
  intro sg hsg
  obtain ⟨h1, h2, h3, h4, h5, _⟩ := hok sg (by simpa only [Arc.forEachFlattenedWithT, z] using hsg)
  exact ⟨h1, h2, h3, h4, h5⟩

/-- **circle_arc_vertices_on_circle**: every point `sample t` of a circular arc — in particular
every vertex of the flattening — is at distance exactly `r` from the centre. -/
theorem circle_arc_vertices_on_circle (a : Arc K) (r t : K) (hrad : a.radii = ⟨r, r⟩)
    (hcs : ∀ x : K, Transc.cos x * Transc.cos x + Transc.sin x * Transc.sin x = 1) :
    (a.sample t - a.center).sqLen = r * r := by
  rw [arc_sample_center a t (hcs _), hrad]
  linear_combination (r * r) * hcs (a.getAngle t)

/-- `|u − w|² ≤ 4` for a unit vector `u` and a convex combination `w` of two unit vectors -/
theorem unit_diff_le_four (cu su c0 s0 c1 s1 s : K) (hu : cu * cu + su * su = 1)
    (h0 : c0 * c0 + s0 * s0 = 1) (h1 : c1 * c1 + s1 * s1 = 1) (hs0 : 0 ≤ s) (hs1 : s ≤ 1) :
    (cu - ((1 - s) * c0 + s * c1)) ^ 2 + (su - ((1 - s) * s0 + s * s1)) ^ 2 ≤ 4 := by
  have hdot : c0 * c1 + s0 * s1 ≤ 1 := by nlinarith [sq_nonneg (c0 - c1), sq_nonneg (s0 - s1)]
  obtain ⟨wx, hwx⟩ : ∃ w : K, w = (1 - s) * c0 + s * c1 := ⟨_, rfl⟩
  obtain ⟨wy, hwy⟩ : ∃ w : K, w = (1 - s) * s0 + s * s1 := ⟨_, rfl⟩
  have hw : wx * wx + wy * wy ≤ 1 := by
    have e : wx * wx + wy * wy = (1 - s) ^ 2 * (c0 * c0 + s0 * s0) + s ^ 2 * (c1 * c1 + s1 * s1)
        + 2 * (s * (1 - s)) * (c0 * c1 + s0 * s1) := by rw [hwx, hwy]; ring
    rw [e, h0, h1]
    have := mul_le_mul_of_nonneg_left hdot (mul_nonneg hs0 (by linarith : (0:K) ≤ 1 - s))
    nlinarith
  rw [← hwx, ← hwy]
  have hw0 : 0 ≤ wx * wx + wy * wy := by nlinarith [mul_self_nonneg wx, mul_self_nonneg wy]
  have hcs2 : (cu * wx + su * wy) ^ 2 ≤ 1 := by
    have e : (cu * wx + su * wy) ^ 2 + (cu * wy - su * wx) ^ 2 = (cu * cu + su * su) * (wx * wx + wy * wy) := by ring
    rw [hu, one_mul] at e
    have := sq_nonneg (cu * wy - su * wx)
    linarith
  have hge : -1 ≤ cu * wx + su * wy := by
    by_contra hc
    have hlt : cu * wx + su * wy < -1 := not_le.mp hc
    have : 1 < (cu * wx + su * wy) ^ 2 := by nlinarith
    linarith
  have e4 : (cu - wx) ^ 2 + (su - wy) ^ 2
      = (cu * cu + su * su) - 2 * (cu * wx + su * wy) + (wx * wx + wy * wy) := by ring
  rw [e4, hu]; linarith

/-- **arc_large_tolerance**: with `tol ≥ 2R` every chord between two points of the arc is within
`tol` of every point of the arc, whatever the polyline (on floats `acos` of an argument below `−1`
is NaN and `flattening_step` returns 1: one segment `from → to`; this statement covers it). -/
theorem arc_large_tolerance (a : Arc K) (R tol t0 t1 t s : K)
    (hcs : ∀ x : K, Transc.cos x * Transc.cos x + Transc.sin x * Transc.sin x = 1)
    (hRdef : R = Max.max |a.radii.x| |a.radii.y|) (ht : 2 * R ≤ tol) (hs0 : 0 ≤ s) (hs1 : s ≤ 1) :
    (a.sample t - (a.sample t0).lerp (a.sample t1) s).sqLen ≤ tol * tol := by
  have hR0 : 0 ≤ R := by rw [hRdef]; exact le_trans (abs_nonneg _) (le_max_left _ _)
  rw [arc_chord_diff a t0 t1 t s (hcs _)]
  refine le_trans (radii_le_max _ _ R _ _ hRdef) ?_
  have h4 := unit_diff_le_four _ _ _ _ _ _ s (hcs (a.getAngle t)) (hcs (a.getAngle t0)) (hcs (a.getAngle t1)) hs0 hs1
  have hRR : 0 ≤ R * R := mul_self_nonneg R
  have h5 : (2 * R) * (2 * R) ≤ tol * tol := mul_self_le_mul_self (by linarith) ht
  have h6 := mul_le_mul_of_nonneg_left h4 hRR
  simp only [chordX, chordY]
  linarith

end arc

/-! ## Cubic -/

section cubic
variable [Transc K] [FlatConst K]

/-- **cubic_flat_within_tolerance_of_quads** (composition): IF the flattening of each quadratic
piece is within `tolq` of that piece (`hq`), each piece is within `tolc` of the cubic over its range
at the same local parameter (`hc`), and the pieces' ranges cover [0,1] (`hcov`), THEN every point of
the cubic is within `tolq + tolc` of the polyline emitted by `for_each_flattened_with_t`.
(`hc`, `hcov` are PROVED for the code's choice of the number of pieces, with `tolc = 0.4·tol`:
`cubic_quads_within_split_tolerance`; `hq` is the quadratic tolerance clause — see Props/C09.lean:
`is_linear_sound`, `quad_flat_within_tolerance_of_params`, finding approx-integral.) -/
theorem cubic_flat_within_tolerance_of_quads (c : Cubic K) (tol tolq tolc : K) (l : List (FlatSeg K))
    (h : c.forEachFlattenedWithT tol = some l) (htq : 0 ≤ tolq) (htc : 0 ≤ tolc)
    (hq : ∀ p ∈ c.forEachQuadraticWithT (tol * FlatConst.value 4 1), ∀ lq,
      p.1.forEachFlattenedWithT (tol * FlatConst.value 6 1) = some lq →
      ∀ u : K, 0 ≤ u → u ≤ 1 → ∃ sg ∈ lq, ∃ s : K, 0 ≤ s ∧ s ≤ 1 ∧
        (p.1.sample u - sg.a.lerp sg.b s).sqLen ≤ tolq * tolq)
    (hc : ∀ p ∈ c.forEachQuadraticWithT (tol * FlatConst.value 4 1), ∀ u : K, 0 ≤ u → u ≤ 1 →
      (c.sample (p.2.1 + u * (p.2.2 - p.2.1)) - p.1.sample u).sqLen ≤ tolc * tolc)
    (hcov : ∀ t : K, 0 ≤ t → t ≤ 1 → ∃ p ∈ c.forEachQuadraticWithT (tol * FlatConst.value 4 1),
      ∃ u : K, 0 ≤ u ∧ u ≤ 1 ∧ t = p.2.1 + u * (p.2.2 - p.2.1))
    (t : K) (ht0 : 0 ≤ t) (ht1 : t ≤ 1) :
    ∃ sg ∈ l, ∃ s : K, 0 ≤ s ∧ s ≤ 1 ∧
      (c.sample t - sg.a.lerp sg.b s).sqLen ≤ (tolq + tolc) * (tolq + tolc) := by
  obtain ⟨p, hp, u, hu0, hu1, rfl⟩ := hcov t ht0 ht1
  simp only [Cubic.forEachFlattenedWithT] at h
  obtain ⟨lq, hlq, hmem⟩ := flatQuadsT_mem _ _ _ l h p hp
  obtain ⟨sg, hsg, s, hs0, hs1, hs⟩ := hq p hp lq hlq u hu0 hu1
  obtain ⟨sg2, hsg2, ha, hb⟩ := hmem sg hsg
  refine ⟨sg2, hsg2, s, hs0, hs1, ?_⟩
  rw [ha, hb]
  have e : c.sample (p.2.1 + u * (p.2.2 - p.2.1)) - sg.a.lerp sg.b s
      = (p.1.sample u - sg.a.lerp sg.b s) + (c.sample (p.2.1 + u * (p.2.2 - p.2.1)) - p.1.sample u) := by
    apply P.ext' <;> simp only [P.add_def, P.sub_def] <;> ring
  rw [e]
  exact sq_triangle _ _ tolq tolc htq htc hs (hc p hp u hu0 hu1)

/-- the same for `for_each_flattened` (callback without `t`) -/
theorem cubic_flat_within_tolerance_of_quads_cb (c : Cubic K) (tol tolq tolc : K) (l : List (FlatSeg K))
    (h : c.forEachFlattened tol = some l) (htq : 0 ≤ tolq) (htc : 0 ≤ tolc)
    (hq : ∀ p ∈ c.forEachQuadraticWithT (tol * FlatConst.value 4 1), ∀ lq,
      p.1.forEachFlattenedWithT (tol * FlatConst.value 6 1) = some lq →
      ∀ u : K, 0 ≤ u → u ≤ 1 → ∃ sg ∈ lq, ∃ s : K, 0 ≤ s ∧ s ≤ 1 ∧
        (p.1.sample u - sg.a.lerp sg.b s).sqLen ≤ tolq * tolq)
    (hc : ∀ p ∈ c.forEachQuadraticWithT (tol * FlatConst.value 4 1), ∀ u : K, 0 ≤ u → u ≤ 1 →
      (c.sample (p.2.1 + u * (p.2.2 - p.2.1)) - p.1.sample u).sqLen ≤ tolc * tolc)
    (hcov : ∀ t : K, 0 ≤ t → t ≤ 1 → ∃ p ∈ c.forEachQuadraticWithT (tol * FlatConst.value 4 1),
      ∃ u : K, 0 ≤ u ∧ u ≤ 1 ∧ t = p.2.1 + u * (p.2.2 - p.2.1))
    (t : K) (ht0 : 0 ≤ t) (ht1 : t ≤ 1) :
    ∃ sg ∈ l, ∃ s : K, 0 ≤ s ∧ s ≤ 1 ∧
      (c.sample t - sg.a.lerp sg.b s).sqLen ≤ (tolq + tolc) * (tolq + tolc) := by
  obtain ⟨p, hp, u, hu0, hu1, rfl⟩ := hcov t ht0 ht1
  simp only [Cubic.forEachFlattened] at h
  obtain ⟨lq, hlq, hmem⟩ := flatQuads_mem _ _ l h p hp
  obtain ⟨sg, hsg, s, hs0, hs1, hs⟩ := hq p hp lq hlq u hu0 hu1
  refine ⟨sg, hmem sg hsg, s, hs0, hs1, ?_⟩
  have e : c.sample (p.2.1 + u * (p.2.2 - p.2.1)) - sg.a.lerp sg.b s
      = (p.1.sample u - sg.a.lerp sg.b s) + (c.sample (p.2.1 + u * (p.2.2 - p.2.1)) - p.1.sample u) := by
    apply P.ext' <;> simp only [P.add_def, P.sub_def] <;> ring
  rw [e]
  exact sq_triangle _ _ tolq tolc htq htc hs (hc p hp u hu0 hu1)

/-- **num_quadratics_sufficient**: the count `n = max(ceil((|D|²/(432·tol²))^(1/6)), 1)` of
`num_quadratics_impl` makes the deviation bound of one piece of length `1/n`,
`|D|²·(1/n)⁶/432` (`cubic_piece_deviation`), at most `tol²` — in exact arithmetic.
Laws used: `x ≤ ceil x`, and for the one argument `y` the code raises to the power `1/6`:
`0 ≤ y^(1/6)` and `y ≤ (y^(1/6))⁶`. -/
theorem num_quadratics_sufficient (c : Cubic K) (tol : K) (ht : 0 < tol)
    (hceil : ∀ x : K, x ≤ Transc.ceil x)
    (hpow : 0 ≤ Transc.pow ((((c.b - c.c2.smul 3) + c.c1.smul 3) - c.a).sqLen / (432 * tol * tol)) (1 / 6)
      ∧ (((c.b - c.c2.smul 3) + c.c1.smul 3) - c.a).sqLen / (432 * tol * tol)
        ≤ (Transc.pow ((((c.b - c.c2.smul 3) + c.c1.smul 3) - c.a).sqLen / (432 * tol * tol)) (1 / 6)) ^ 6) :
    1 ≤ c.numQuadraticsImpl tol
    ∧ (((c.b - c.c2.smul 3) + c.c1.smul 3) - c.a).sqLen * (1 / c.numQuadraticsImpl tol) ^ 6 / 432 ≤ tol * tol := by
  set D := (((c.b - c.c2.smul 3) + c.c1.smul 3) - c.a) with hD
  have herr : (c.a.x - 3 * c.c1.x + 3 * c.c2.x - c.b.x) * (c.a.x - 3 * c.c1.x + 3 * c.c2.x - c.b.x)
      + (c.a.y - 3 * c.c1.y + 3 * c.c2.y - c.b.y) * (c.a.y - 3 * c.c1.y + 3 * c.c2.y - c.b.y) = D.sqLen := by
    rw [hD]; simp only [geom]; ring
  have hn : c.numQuadraticsImpl tol
      = Max.max (Transc.ceil (Transc.pow (D.sqLen / (432 * tol * tol)) (1 / 6))) 1 := by
    simp only [Cubic.numQuadraticsImpl, sc_max, ofNat_eq]
    norm_num
    rw [herr]
  set n := c.numQuadraticsImpl tol with hndef
  set p := Transc.pow (D.sqLen / (432 * tol * tol)) (1 / 6) with hp
  have hn1 : 1 ≤ n := by rw [hn]; exact le_max_right _ _
  have hnp : p ≤ n := by rw [hn]; exact le_trans (hceil p) (le_max_left _ _)
  have hn6 : D.sqLen / (432 * tol * tol) ≤ n ^ 6 := le_trans hpow.2 (pow_le_pow_left₀ hpow.1 hnp 6)
  refine ⟨hn1, ?_⟩
  have hnpos : 0 < n := lt_of_lt_of_le zero_lt_one hn1
  have ht2 : 0 < 432 * tol * tol := by positivity
  rw [div_le_iff₀ ht2] at hn6
  have hn6pos : 0 < n ^ 6 := by positivity
  have e : D.sqLen * (1 / n) ^ 6 / 432 = D.sqLen / (n ^ 6 * 432) := by
    field_simp
  rw [e, div_le_iff₀ (by positivity)]
  nlinarith

/-- **cubic_quads_within_split_tolerance**: the pieces chosen by `for_each_quadratic_bezier_with_t`
for the tolerance `tolc` (the code passes `0.4·tolerance`) are each within `tolc` of the cubic over
their range, at the same local parameter, and their ranges cover [0,1] — in exact arithmetic.
`hcast`: the cast `to_u32` of the (integer-valued) count is exact. -/
theorem cubic_quads_within_split_tolerance (c : Cubic K) (tolc : K) (ht : 0 < tolc)
    (hceil : ∀ x : K, x ≤ Transc.ceil x)
    (hpow : 0 ≤ Transc.pow ((((c.b - c.c2.smul 3) + c.c1.smul 3) - c.a).sqLen / (432 * tolc * tolc)) (1 / 6)
      ∧ (((c.b - c.c2.smul 3) + c.c1.smul 3) - c.a).sqLen / (432 * tolc * tolc)
        ≤ (Transc.pow ((((c.b - c.c2.smul 3) + c.c1.smul 3) - c.a).sqLen / (432 * tolc * tolc)) (1 / 6)) ^ 6)
    (hcast : (((toU32 (c.numQuadraticsImpl tolc)).getD 1 : Nat) : K) = c.numQuadraticsImpl tolc) :
    (∀ p ∈ c.forEachQuadraticWithT tolc, ∀ u : K, 0 ≤ u → u ≤ 1 →
      (c.sample (p.2.1 + u * (p.2.2 - p.2.1)) - p.1.sample u).sqLen ≤ tolc * tolc)
    ∧ (∀ t : K, 0 ≤ t → t ≤ 1 → ∃ p ∈ c.forEachQuadraticWithT tolc,
      ∃ u : K, 0 ≤ u ∧ u ≤ 1 ∧ t = p.2.1 + u * (p.2.2 - p.2.1)) := by
  obtain ⟨hn1, hdev⟩ := num_quadratics_sufficient c tolc ht hceil hpow
  set nq := c.numQuadraticsImpl tolc with hnq
  set n := (toU32 nq).getD 1 with hn
  have hnqpos : 0 < nq := lt_of_lt_of_le zero_lt_one hn1
  have hnpos : 1 ≤ n := by
    have : (1 : K) ≤ (n : K) := by rw [hcast]; exact hn1
    exact_mod_cast this
  have hstep0 : 0 < 1 / nq := by positivity
  have z : (zero : K) = 0 := sc_zero
  have o : (one : K) = 1 := sc_one
  have hinv : (0 : K) + (((n - 1 : Nat) : K) + 1) * (1 / nq) = 1 := by
    have : ((n - 1 : Nat) : K) + 1 = (n : K) := by
      rw [Nat.cast_sub hnpos]; simp
    rw [this, hcast, zero_add, mul_one_div, div_self (ne_of_gt hnqpos)]
  obtain ⟨hok, hcov⟩ := quads_loop_uniform c (1 / nq) (le_of_lt hstep0) (n - 1) 0 le_rfl hinv
  have hlist : c.forEachQuadraticWithT tolc = c.quadsLoop (1 / nq) (n - 1) 0 := by
    simp only [Cubic.forEachQuadraticWithT, ← hnq, ← hn, z, o]
  rw [hlist]
  refine ⟨?_, ?_⟩
  · intro p hp u hu0 hu1
    obtain ⟨h1, h2, _, _⟩ := hok p hp
    rw [h1]
    refine le_trans (cubic_piece_deviation c p.2.1 p.2.2 u hu0 hu1) ?_
    rw [h2]; exact hdev
  · intro t ht0 ht1
    obtain ⟨p, hp, h3, h4⟩ := hcov t ht0 ht1
    obtain ⟨_, h2, _, _⟩ := hok p hp
    refine ⟨p, hp, (t - p.2.1) / (1 / nq), div_nonneg (by linarith) (le_of_lt hstep0), ?_, ?_⟩
    · rw [div_le_one hstep0]; linarith
    · rw [h2, div_mul_cancel₀ _ (ne_of_gt hstep0)]; ring

/-- **cubic_flat_within_tolerance_of_quad_flattening**: the cubic tolerance clause reduced to the
quadratic one. With the code's split `0.4·tol` (cubic → quadratics, PROVED here) + `0.6·tol`
(quadratics → segments, hypothesis `hq` with `tolq`): every point of the cubic is within
`tolq + 0.4·tol` of the polyline. With `tolq = 0.6·tol` this is the property's clause; what is
known about `hq` is in Props/C09.lean (Levien's count is approximate: finding approx-integral,
so `tolq ≈ 1.11·0.6·tol` is what holds in general). -/
theorem cubic_flat_within_tolerance_of_quad_flattening (c : Cubic K) (tol tolq : K) (l : List (FlatSeg K))
    (h : c.forEachFlattenedWithT tol = some l) (htq : 0 ≤ tolq)
    (ht : 0 < tol * FlatConst.value 4 1)
    (hceil : ∀ x : K, x ≤ Transc.ceil x)
    (hpow : 0 ≤ Transc.pow ((((c.b - c.c2.smul 3) + c.c1.smul 3) - c.a).sqLen
          / (432 * (tol * FlatConst.value 4 1) * (tol * FlatConst.value 4 1))) (1 / 6)
      ∧ (((c.b - c.c2.smul 3) + c.c1.smul 3) - c.a).sqLen
          / (432 * (tol * FlatConst.value 4 1) * (tol * FlatConst.value 4 1))
        ≤ (Transc.pow ((((c.b - c.c2.smul 3) + c.c1.smul 3) - c.a).sqLen
          / (432 * (tol * FlatConst.value 4 1) * (tol * FlatConst.value 4 1))) (1 / 6)) ^ 6)
    (hcast : (((toU32 (c.numQuadraticsImpl (tol * FlatConst.value 4 1))).getD 1 : Nat) : K)
      = c.numQuadraticsImpl (tol * FlatConst.value 4 1))
    (hq : ∀ p ∈ c.forEachQuadraticWithT (tol * FlatConst.value 4 1), ∀ lq,
      p.1.forEachFlattenedWithT (tol * FlatConst.value 6 1) = some lq →
      ∀ u : K, 0 ≤ u → u ≤ 1 → ∃ sg ∈ lq, ∃ s : K, 0 ≤ s ∧ s ≤ 1 ∧
        (p.1.sample u - sg.a.lerp sg.b s).sqLen ≤ tolq * tolq)
    (t : K) (ht0 : 0 ≤ t) (ht1 : t ≤ 1) :
    ∃ sg ∈ l, ∃ s : K, 0 ≤ s ∧ s ≤ 1 ∧
      (c.sample t - sg.a.lerp sg.b s).sqLen
        ≤ (tolq + tol * FlatConst.value 4 1) * (tolq + tol * FlatConst.value 4 1) := by
  obtain ⟨hc, hcov⟩ := cubic_quads_within_split_tolerance c (tol * FlatConst.value 4 1) ht hceil hpow hcast
  exact cubic_flat_within_tolerance_of_quads c tol tolq (tol * FlatConst.value 4 1) l h htq (le_of_lt ht)
    hq hc hcov t ht0 ht1

end cubic

section arc_any
variable {α : Type} [Scalar α] [Transc α] [FlatConst α]

/-- **arc_epsilon_guard_single_segment** (observation, every scalar type): when the `EPSILON`
guard of `flattening_step` fires on the whole arc (`min(2·acos((R−tol)/R)/|sweep|, 1) < ε`) the
step is 1 and the arc is emitted as the single segment `from() → to()` whatever the tolerance.
This is the case the hypothesis `heps` of `arc_flat_within_tolerance` excludes. -/
theorem arc_epsilon_guard_single_segment (a : Arc α) (tol : α) (fuel : Nat)
    (hle : (one : α) ≤ one)
    (hg : Scalar.min (two * Transc.acos ((Scalar.max (Scalar.abs a.radii.x) (Scalar.abs a.radii.y) - tol)
        / Scalar.max (Scalar.abs a.radii.x) (Scalar.abs a.radii.y)) / Scalar.abs a.sweep) one < FlatConst.epsilon) :
    a.forEachFlattenedWithT tol fuel = [⟨a.fromPt, a.toPt, zero, one⟩] := by
  have hstep : a.flatteningStep tol = one := by
    simp only [Arc.flatteningStep, hg, if_true]
  cases fuel with
  | zero => rfl
  | succ f => simp only [Arc.forEachFlattenedWithT, Arc.flatLoop, hstep, hle, if_true]

end arc_any

/-! ## Quadratic: the per-input certificate (translation validation) -/

section quad
variable [Transc K] [FlatConst K]

/-- **quad_chord_within_certificate**: for one emitted chord whose end points are `Q(t0)`, `Q(t1)`:
if its certificate (`Quad.chordCertSq`, Model/Geom/FlattenCert.lean: the squared perpendicular
bound `(Δ²|dd × v|/(4|v|·tol))²` when the foot of the perpendicular stays on the chord, else the
squared parametric bound `(Δ²|dd|/(4·tol))²`) is at most `k²`, every curve point over the chord's
range is within `k·tol` of the chord. -/
theorem quad_chord_within_certificate (q : Quad K) (tol k : K) (sg : FlatSeg K)
    (ha : sg.a = q.sample sg.t0) (hb : sg.b = q.sample sg.t1) (ht : 0 < tol)
    (hc : q.chordCertSq tol sg ≤ k * k) (s : K) (hs0 : 0 ≤ s) (hs1 : s ≤ 1) :
    ∃ s2 : K, 0 ≤ s2 ∧ s2 ≤ 1 ∧
      (q.sample (sg.t0 + s * (sg.t1 - sg.t0)) - sg.a.lerp sg.b s2).sqLen ≤ (k * tol) * (k * tol) :=
  quad_chord_cert q tol k sg ha hb ht hc s hs0 hs1

/-- **quad_flat_within_tolerance_of_certificate** (verified per-input certificate): if the
certificate `Quad.flatCert` evaluated on the segments emitted by `for_each_flattened_with_t` is at
most `k²`, EVERY point of the quadratic is within `k·tol` of the polyline. The driver evaluates
`flatCert` on the model's output at `Float32`/`Float`, the harness evaluates the same expressions on
lyon's output, the tie compares the two; with `k = 1` this is the property's tolerance clause for
that input, proved instead of sampled. (Stronger than `quad_flat_within_tolerance_of_params`: the
perpendicular certificate is exactly the largest distance between the curve and its chord.) -/
theorem quad_flat_within_tolerance_of_certificate (q : Quad K) (tol k : K) (l : List (FlatSeg K))
    (h : q.forEachFlattenedWithT tol = some l) (ht : 0 < tol)
    (hc : (q.flatCert tol l).2 ≤ k * k) (t : K) (ht0 : 0 ≤ t) (ht1 : t ≤ 1) :
    ∃ sg ∈ l, ∃ s2 : K, 0 ≤ s2 ∧ s2 ≤ 1 ∧
      (q.sample t - sg.a.lerp sg.b s2).sqLen ≤ (k * tol) * (k * tol) := by
  obtain ⟨hne, hch, _, hlast, _⟩ := quad_flat_structure q tol l h
  have z : (zero : K) = 0 := sc_zero
  have o : (one : K) = 1 := sc_one
  obtain ⟨sg, hsg, s, hs0, hs1, rfl⟩ := chain_cover q.a zero one l hch hne hlast t
    (by rw [z]; exact ht0) (by rw [o]; exact ht1)
  obtain ⟨ha, hb⟩ := quad_flat_ends_on q tol l h sg hsg
  obtain ⟨s2, h1, h2, h3⟩ := quad_chord_cert q tol k sg ha hb ht (flatCert_le q tol _ l hc sg hsg) s hs0 hs1
  exact ⟨sg, hsg, s2, h1, h2, h3⟩

/-- **cubic_flat_within_tolerance_of_certificate** (verified per-input certificate for cubics): if
the combined certificate `Cubic.flatCert` (each quadratic piece flattened with `0.6·tol`, certificate
in units of `(0.6·tol)²`) is at most `k²`, every point of the cubic is within
`k·0.6·tol + 0.4·tol` of the polyline of `for_each_flattened_with_t` — in exact arithmetic, the laws
of `ceil`/`powf`/the cast being those of `cubic_quads_within_split_tolerance` (discharged over ℝ in
Props/C09Real.lean). With `k = 1`: within `tol`, the property's clause, proved for that input. -/
theorem cubic_flat_within_tolerance_of_certificate (c : Cubic K) (tol k : K) (l : List (FlatSeg K))
    (h : c.forEachFlattenedWithT tol = some l) (hk : 0 ≤ k)
    (ht4 : 0 < tol * FlatConst.value 4 1) (ht6 : 0 < tol * FlatConst.value 6 1)
    (hceil : ∀ x : K, x ≤ Transc.ceil x)
    (hpow : 0 ≤ Transc.pow ((((c.b - c.c2.smul 3) + c.c1.smul 3) - c.a).sqLen
          / (432 * (tol * FlatConst.value 4 1) * (tol * FlatConst.value 4 1))) (1 / 6)
      ∧ (((c.b - c.c2.smul 3) + c.c1.smul 3) - c.a).sqLen
          / (432 * (tol * FlatConst.value 4 1) * (tol * FlatConst.value 4 1))
        ≤ (Transc.pow ((((c.b - c.c2.smul 3) + c.c1.smul 3) - c.a).sqLen
          / (432 * (tol * FlatConst.value 4 1) * (tol * FlatConst.value 4 1))) (1 / 6)) ^ 6)
    (hcast : (((toU32 (c.numQuadraticsImpl (tol * FlatConst.value 4 1))).getD 1 : Nat) : K)
      = c.numQuadraticsImpl (tol * FlatConst.value 4 1))
    (r : Bool × K) (hcert : c.flatCert tol = some r) (hr : r.2 ≤ k * k)
    (t : K) (ht0 : 0 ≤ t) (ht1 : t ≤ 1) :
    ∃ sg ∈ l, ∃ s : K, 0 ≤ s ∧ s ≤ 1 ∧
      (c.sample t - sg.a.lerp sg.b s).sqLen
        ≤ (k * (tol * FlatConst.value 6 1) + tol * FlatConst.value 4 1)
          * (k * (tol * FlatConst.value 6 1) + tol * FlatConst.value 4 1) := by
  refine cubic_flat_within_tolerance_of_quad_flattening c tol (k * (tol * FlatConst.value 6 1)) l h
    (mul_nonneg hk (le_of_lt ht6)) ht4 hceil hpow hcast ?_ t ht0 ht1
  intro p hp lq hlq u hu0 hu1
  have hc := piecesCert_le (tol * FlatConst.value 6 1) (k * k) _ r hcert hr p hp lq hlq
  exact quad_flat_within_tolerance_of_certificate p.1 (tol * FlatConst.value 6 1) k lq hlq ht6 hc u hu0 hu1

/-- non-vacuity: `from (0,0) ctrl (1,1) to (2,0)` cut at `t = 1/2` (chords `(0,0)→(1,1/2)→(2,0)`),
tolerance `1/8`: both chords have the perpendicular certificate, and its squared value is `4/5`
(the curve is `1/(4√5) = √(4/5)·(1/8)` from each chord at the chord's middle): `flatCert = (true, 4/5)`,
so the theorem applies with any `k` with `4/5 ≤ k²`, e.g. `k = 1`. -/
example : let q : Quad ℚ := ⟨⟨0, 0⟩, ⟨1, 1⟩, ⟨2, 0⟩⟩
    q.flatCert (1 / 8) [⟨⟨0, 0⟩, ⟨1, 1 / 2⟩, 0, 1 / 2⟩, ⟨⟨1, 1 / 2⟩, ⟨2, 0⟩, 1 / 2, 1⟩] = (true, 4 / 5) := by
  intro q
  simp only [Quad.flatCert, Quad.chordCertSq, Quad.chordPerp, Quad.chordPerpSq, Quad.chordParamSq,
    Quad.secondDiff, geom, q]
  norm_num

end quad

/-! ## Non-vacuity -/

section examples

/-- `TrigLaws` is satisfiable over ℚ by a degenerate instance (`cos = 1`, `sin = 0`, `acos = 0`,
`π = 0`: the circle collapses to a point) — the instance that matters is the real one,
`real_trig_laws` in Props/C09Real.lean, where also a concrete arc with lyon's constants is shown
to satisfy every hypothesis of `arc_flat_within_tolerance(_fuel)`. -/
@[instance_reducible] def pointTransc : Transc ℚ :=
  { sqrt := id, cbrt := id, sin := fun _ => 0, cos := fun _ => 1, tan := id, acos := fun _ => 0,
    atan2 := fun a _ => a, pow := fun _ _ => 2, log2 := id, ln := id, floor := id, ceil := id,
    toNat := fun _ => 2, fmod := fun a _ => a, eps := 0, pi := 0, isNaN := fun _ => false,
    isFinite := fun _ => true }

attribute [local instance] pointTransc

example : TrigLaws ℚ :=
  { cos_sq_add_sin_sq := fun _ => by show (1:ℚ) * 1 + 0 * 0 = 1; norm_num
    cos_add := fun _ _ => by show (1:ℚ) = 1 * 1 - 0 * 0; norm_num
    sin_add := fun _ _ => by show (0:ℚ) = 0 * 1 + 1 * 0; norm_num
    cos_neg := fun _ => rfl
    sin_neg := fun _ => by show (0:ℚ) = -0; norm_num
    cos_antitone := fun _ _ _ _ _ => le_refl _
    acos_nonneg := fun _ => le_refl _
    acos_le_pi := fun _ => le_refl _
    le_cos_acos := fun _ h => h }

/-- `radii_le_max`, `unit_diff_le_four`: concrete instances of the hypotheses -/
example : (2 : ℚ) = Max.max |(-2 : ℚ)| |(1 : ℚ)| := by norm_num [abs_of_neg, abs_of_pos]
example : ((3:ℚ)/5) * (3/5) + (4/5) * (4/5) = 1 ∧ (0:ℚ) ≤ 1/3 ∧ (1/3:ℚ) ≤ 1 := by norm_num

/-- `arc_large_tolerance`: radii (2,1), tolerance 5 ≥ 2·2 -/
example : (2 : ℚ) * 2 ≤ 5 := by norm_num

/-- `num_quadratics_sufficient` / `cubic_quads_within_split_tolerance` /
`cubic_flat_within_tolerance_of_quad_flattening`: the cubic from (0,0) ctrl (1,3) (3,3) to (4,0)
(`D = (−2, 0)`, `|D|² = 4`) with `tolc = 1/10`: `y = 4/(432/100) = 25/27`; with a "sixth root" of 2
(`2⁶ = 64 ≥ y`), `ceil = id` and the cast `2 ↦ 2` the hypotheses hold and the count is 2. -/
example : let c : Cubic ℚ := ⟨⟨0, 0⟩, ⟨1, 3⟩, ⟨3, 3⟩, ⟨4, 0⟩⟩
    (∀ x : ℚ, x ≤ Transc.ceil x)
    ∧ (0 : ℚ) ≤ Transc.pow ((((c.b - c.c2.smul 3) + c.c1.smul 3) - c.a).sqLen / (432 * (1/10) * (1/10))) (1 / 6)
    ∧ (((c.b - c.c2.smul 3) + c.c1.smul 3) - c.a).sqLen / (432 * (1/10) * (1/10))
        ≤ (Transc.pow ((((c.b - c.c2.smul 3) + c.c1.smul 3) - c.a).sqLen / (432 * (1/10) * (1/10))) (1 / 6)) ^ 6
    ∧ (((toU32 (c.numQuadraticsImpl (1/10))).getD 1 : Nat) : ℚ) = c.numQuadraticsImpl (1/10) := by
  intro c
  have hn : c.numQuadraticsImpl (1/10) = 2 := by
    show Max.max (2 : ℚ) (Scalar.one) = 2
    simp [sc_one]
  refine ⟨fun x => le_refl _, ?_, ?_, ?_⟩
  · show (0 : ℚ) ≤ 2; norm_num
  · show (((c.b - c.c2.smul 3) + c.c1.smul 3) - c.a).sqLen / (432 * (1/10) * (1/10)) ≤ (2 : ℚ) ^ 6
    simp only [geom, c]; norm_num
  · rw [hn]
    have h2 : toU32 (2 : ℚ) = some 2 := by
      simp only [toU32, sc_one, ofNat_eq]
      norm_num
      rfl
    rw [h2]; norm_num

/-- `arc_epsilon_guard_single_segment`: in the degenerate instance above (`acos = 0`: an angular step
of 0, as for a tolerance below the resolution) with `EPSILON = 1/10000` the guard fires on the arc of
radius 1 and sweep 1 with tolerance 1/10 -/
example : let a : Arc ℚ := ⟨⟨0, 0⟩, ⟨1, 1⟩, 0, 1, 0⟩
    ((Scalar.one : ℚ) ≤ Scalar.one)
    ∧ Scalar.min (Scalar.two * Transc.acos ((Scalar.max (Scalar.abs a.radii.x) (Scalar.abs a.radii.y) - 1 / 10)
        / Scalar.max (Scalar.abs a.radii.x) (Scalar.abs a.radii.y)) / Scalar.abs a.sweep) Scalar.one
      < (toyConst.epsilon : ℚ) := by
  intro a
  refine ⟨le_refl _, ?_⟩
  show Min.min ((2 : ℚ) * 0 / |(1 : ℚ)|) 1 < 1 / 10000
  norm_num

/-- the triangle inequality's hypotheses: `|(3,4)|² = 25 ≤ 5²`, `|(1,0)|² ≤ 1²` -/
example : ((⟨3, 4⟩ : P ℚ).sqLen ≤ 5 * 5) ∧ ((⟨1, 0⟩ : P ℚ).sqLen ≤ 1 * 1) := by
  constructor <;> simp [P.sqLen] <;> norm_num

end examples

end Lyon.C09
