/-
  C07 — fill vertices report where they come from and interpolate attributes accordingly.

  The statements are about the record operations of `Model/Tess/Sources.lean` (the same `def`s
  the correspondence check runs at `Float32` against lyon: `remap_t_in_range`, the event-queue
  builder, `sources()` / `as_endpoint_id()` / `interpolated_attributes()`), instantiated at an
  arbitrary linearly ordered field `K`.

  Representation invariant.  An edge record stands for the part `t0 .. t1` of its source edge
  (a curve `C : K → P K`; for a line edge `A → B`, `C = lerp A B`): `RepRec C r` says that the
  record's event position is `C r.t0` and its `to` is `C r.t1`.

  * established by `add_edge` in both directions (`rep_add_edge`, `rep_add_edge_line`) and by the
    curve builders for curves pointing either way (`rep_curve`, since fix 8662f1bc);
  * `remap_lerp`: both branches of `remap_t_in_range` are the affine map `0 ↦ s, 1 ↦ e`;
  * preserved by every cut of `process_intersection` (`rep_intersection`,
    `rep_intersection_below`, `rep_touch`) and by `merge_coincident_edges`, level edges included
    (`rep_coincident`, since fix 456c058b);
  * from it: every source of a vertex lies where it says (`sources_on_sources`), there is at
    least one source (`sources_nonempty`), the interpolated attributes are the average over the
    sources (`attributes_average`), and attributes that are an affine function of the position
    are reproduced (`affine_attributes_reproduced`).

  * preserved by the split of an edge at a vertex lying on it (`rep_split_at_vertex`, since fix
    6bc52f98), hence along every history of cuts (`rep_history`).

  Repaired in /repo (model updated, full theorems proved, former witnesses described in the
  comments of `rep_coincident`, `rep_curve`, `rep_split_at_vertex`): coincident level edges
  (456c058b), curves drawn against the sweep (8662f1bc), stale `range.start` after a split at a
  vertex lying on an edge (6bc52f98).

  Not covered by theorems: IEEE rounding (oracle envelope), the sweep that decides which cut
  happens when (only the cuts themselves are modelled), `t` on curves after a cut of a flattened
  piece (the piece is a chord: `Rep` then holds for the piecewise-linear flattening, which is what
  the oracle checks).
-/
import LyonVerif.Model.Tess.Sources
import LyonVerif.Lemmas.Field
import Mathlib.Tactic.NormNum
import Mathlib.Algebra.Order.Field.Rat

set_option linter.unusedSectionVars false
set_option linter.unusedVariables false
set_option linter.unusedSimpArgs false

namespace Lyon.C07
open Lyon Lyon.Sources

variable {K : Type} [Field K] [LinearOrder K] [IsStrictOrderedRing K]

/-! ### Basic facts -/

theorem lerp_def (a b : P K) (t : K) :
    P.lerp a b t = ⟨(1 - t) * a.x + t * b.x, (1 - t) * a.y + t * b.y⟩ := by
  apply P.ext' <;> simp [geom]

theorem lerp_zero (a b : P K) : P.lerp a b 0 = a := by
  rw [lerp_def]; apply P.ext' <;> simp
theorem lerp_one (a b : P K) : P.lerp a b 1 = b := by
  rw [lerp_def]; apply P.ext' <;> simp

theorem beq_K (a b : K) : (a == b) = decide (a = b) := rfl
theorem beq_P (a b : P K) : (a == b) = (decide (a.x = b.x) && decide (a.y = b.y)) := rfl
theorem zero_K : (Scalar.zero : K) = 0 := by simp
theorem one_K : (Scalar.one : K) = 1 := by simp

/-- both branches of `remap_t_in_range` compute the affine map `0 ↦ s`, `1 ↦ e` -/
theorem remapT_eq (t s e : K) : remapT t s e = s + t * (e - s) := by
  unfold remapT
  split
  · rfl
  · show e + (Scalar.one - t) * (s - e) = s + t * (e - s)
    rw [one_K]; ring

/-- `remap_lerp`: going a fraction `remap t (s..e)` along `A → B` is going a fraction `t` from the
point at `s` to the point at `e` (forward and backward ranges alike). -/
theorem remap_lerp (A B : P K) (t s e : K) :
    P.lerp A B (remapT t s e) = P.lerp (P.lerp A B s) (P.lerp A B e) t := by
  rw [remapT_eq]; simp only [lerp_def]; apply P.ext' <;> ring

example : remapT (1/2 : ℚ) (1/4) 1 = 5/8 ∧ remapT (1/2 : ℚ) 1 (1/4) = 5/8 := by
  constructor <;> (rw [remapT_eq]; norm_num)

/-! ### The representation invariant -/

/-- the record's position is the point at `t0` of its source curve, its `to` the point at `t1` -/
def RepRec (C : K → P K) (r : EdgeRec K) : Prop :=
  r.pos = C r.t0 ∧ (r.isEdge = true → r.to = C r.t1)

/-- an active edge starts at the point at `range.start` of its source record and ends at the
point at its own `range_end` -/
def RepActive (C : K → P K) (a : Active K) : Prop :=
  a.from_ = C a.src.t0 ∧ a.to = C a.rangeEnd

/-- the same for a pending edge starting at the current position `cur` -/
def RepPending (C : K → P K) (cur : P K) (p : Pending K) : Prop :=
  cur = C p.src.t0 ∧ p.to = C p.rangeEnd

/-- the parametrisation of a straight edge: affine in the parameter -/
def AffineParam (C : K → P K) : Prop :=
  ∀ s e t : K, C (s + t * (e - s)) = P.lerp (C s) (C e) t

theorem affineParam_lerp (A B : P K) : AffineParam (P.lerp A B) := by
  intro s e t; simp only [lerp_def]; apply P.ext' <;> ring

/-- `rep_add_edge`: `add_edge` on the piece `C t0 → C t1` stores a record satisfying `Rep`, whichever
way the piece points (downward: stored as is; upward: ends and t-range swapped), and keeps the
endpoint ids in path order. -/
theorem rep_add_edge (C : K → P K) (w : Int) (f t : Nat) (t0 t1 : K) (r : EdgeRec K)
    (h : addEdge (C t0) (C t1) w f t t0 t1 = some r) :
    RepRec C r ∧ r.fromId = f ∧ r.toId = t ∧ r.isEdge = true := by
  unfold addEdge at h
  split at h
  · cases h
  · split at h <;> (cases h; simp [RepRec])

/-- the two directions, explicitly -/
theorem add_edge_down (a b : P K) (w : Int) (f t : Nat) (t0 t1 : K)
    (hne : (a == b) = false) (hd : isAfter a b = false) :
    addEdge a b w f t t0 t1 = some ⟨a, b, t0, t1, w, true, f, t⟩ := by
  simp [addEdge, hne, hd]
theorem add_edge_up (a b : P K) (w : Int) (f t : Nat) (t0 t1 : K)
    (hne : (a == b) = false) (hu : isAfter a b = true) :
    addEdge a b w f t t0 t1 = some ⟨b, a, t1, t0, -w, true, f, t⟩ := by
  simp [addEdge, hne, hu]

/-- `line_segment(to, id, 0.0, 1.0)`: the record of a whole line edge `A → B` -/
theorem rep_add_edge_line (A B : P K) (w : Int) (f t : Nat) (r : EdgeRec K)
    (h : addEdge A B w f t 0 1 = some r) : RepRec (P.lerp A B) r := by
  have h' : addEdge (P.lerp A B 0) (P.lerp A B 1) w f t 0 1 = some r := by
    rw [lerp_zero, lerp_one]; exact h
  exact (rep_add_edge (P.lerp A B) w f t 0 1 r h').1

example : addEdge (⟨0, 10⟩ : P ℚ) ⟨0, 0⟩ 1 7 8 0 1 = some ⟨⟨0, 0⟩, ⟨0, 10⟩, 1, 0, -1, true, 7, 8⟩ := by
  apply add_edge_up <;> simp [beq_P, isAfter, beq_K]

/-! ### Cuts preserve the invariant -/

theorem cut_key (C : K → P K) (hC : AffineParam C) (a b : P K) (s e ta : K) (ip : P K)
    (ha : a = C s) (hb : b = C e) (hip : ip = P.lerp a b ta) : C (remapT ta s e) = ip := by
  rw [remapT_eq, hC, ← ha, ← hb, hip]

/-- `rep_intersection` (active edge): the truncated edge and the record created for the part cut
off — flipped or not — satisfy `Rep`; the record keeps the source edge's endpoint ids. -/
theorem rep_intersection (C : K → P K) (hC : AffineParam C) (a : Active K) (ta : K) (ip : P K)
    (ha : RepActive C a) (hip : ip = P.lerp a.from_ a.to ta) :
    RepActive C (cutActive a ta ip).1 ∧
    ∀ r, (cutActive a ta ip).2 = some r →
      RepRec C r ∧ r.fromId = a.src.fromId ∧ r.toId = a.src.toId := by
  have key := cut_key C hC a.from_ a.to a.src.t0 a.rangeEnd ta ip ha.1 ha.2 hip
  unfold cutActive
  split
  · exact ⟨ha, by intro r h; cases h⟩
  · refine ⟨⟨ha.1, key.symm⟩, ?_⟩
    intro r h
    simp only [Option.some.injEq] at h
    subst h
    split
    · exact ⟨⟨key.symm, fun _ => ha.2⟩, rfl, rfl⟩
    · exact ⟨⟨ha.2, fun _ => key.symm⟩, rfl, rfl⟩

/-- `rep_intersection` (the new edge below the current position) -/
theorem rep_intersection_below (C : K → P K) (hC : AffineParam C) (cur : P K) (b : Pending K)
    (tb : K) (ip : P K) (hb : RepPending C cur b) (hip : ip = P.lerp cur b.to tb) :
    RepPending C cur (cutBelow cur b tb ip).1 ∧
    ∀ r, (cutBelow cur b tb ip).2 = some r →
      RepRec C r ∧ r.fromId = b.src.fromId ∧ r.toId = b.src.toId := by
  have key := cut_key C hC cur b.to b.src.t0 b.rangeEnd tb ip hb.1 hb.2 hip
  unfold cutBelow
  split
  · exact ⟨hb, by intro r h; cases h⟩
  · refine ⟨⟨hb.1, key.symm⟩, ?_⟩
    intro r h
    simp only [Option.some.injEq] at h
    subst h
    split
    · exact ⟨⟨key.symm, fun _ => hb.2⟩, rfl, rfl⟩
    · exact ⟨⟨hb.2, fun _ => key.symm⟩, rfl, rfl⟩

/-- the `current_position == intersection_position` branch rewrites the source record's
`range.start` consistently with the edge's new start -/
theorem rep_touch (C : K → P K) (hC : AffineParam C) (a : Active K) (ta : K) (ip : P K)
    (ha : RepActive C a) (hip : ip = P.lerp a.from_ a.to ta) :
    RepActive C (touchActive a ta ip) :=
  ⟨(cut_key C hC a.from_ a.to a.src.t0 a.rangeEnd ta ip ha.1 ha.2 hip).symm, ha.2⟩

/-- a record of the current event becomes a pending, then an active edge satisfying `Rep` -/
theorem rep_pending_of (C : K → P K) (r : EdgeRec K) (hr : RepRec C r) (he : r.isEdge = true) :
    RepPending C r.pos (pendingOf r) := ⟨hr.1, hr.2 he⟩
theorem rep_activate (C : K → P K) (cur : P K) (p : Pending K) (hp : RepPending C cur p) :
    RepActive C (activate cur p) := hp

example : RepActive (P.lerp (⟨0, 0⟩ : P ℚ) ⟨0, 10⟩)
    (activate ⟨0, 0⟩ (pendingOf ⟨⟨0, 0⟩, ⟨0, 10⟩, 0, 1, 1, true, 0, 1⟩)) :=
  ⟨by simp [activate, pendingOf, lerp_zero], by simp [activate, pendingOf, lerp_one]⟩

theorem solveTForY_on (cur dest : P K) (u : K) (hy : dest.y ≠ cur.y) :
    solveTForY cur dest (P.lerp cur dest u).y = u := by
  have hne : dest.y - cur.y ≠ 0 := sub_ne_zero.mpr hy
  unfold solveTForY
  have : ((dest.y - cur.y == (Scalar.zero : K)) = true) ↔ dest.y - cur.y = 0 := by
    rw [zero_K]; exact sc_beq _ _
  rw [if_neg (fun h => hne (this.mp h)), lerp_def]
  field_simp
  ring

theorem solveTForX_on (cur dest : P K) (u : K) (hx : dest.x ≠ cur.x) :
    solveTForX cur dest (P.lerp cur dest u).x = u := by
  have hne : dest.x - cur.x ≠ 0 := sub_ne_zero.mpr hx
  unfold solveTForX
  have : ((dest.x - cur.x == (Scalar.zero : K)) = true) ↔ dest.x - cur.x = 0 := by
    rw [zero_K]; exact sc_beq _ _
  rw [if_neg (fun h => hne (this.mp h)), lerp_def]
  field_simp
  ring

/-- the split parameter of `merge_coincident_edges` (solved along the larger extent, fix
456c058b) locates every point of a non-degenerate edge, level or not -/
theorem splitT_on (cur dest : P K) (u : K) (hne : cur ≠ dest) :
    splitT cur dest (P.lerp cur dest u) = u := by
  unfold splitT
  split
  · rename_i h
    have h' : |dest.y - cur.y| < |dest.x - cur.x| := h
    apply solveTForX_on
    intro hx
    rw [hx, sub_self, abs_zero] at h'
    exact absurd h' (not_lt.mpr (abs_nonneg _))
  · rename_i h
    have h' : ¬ |dest.y - cur.y| < |dest.x - cur.x| := h
    apply solveTForY_on
    intro hy
    rw [hy, sub_self, abs_zero] at h'
    have hx : dest.x - cur.x = 0 := by
      by_contra hx0
      exact h' (abs_pos.mpr hx0)
    apply hne
    apply P.ext'
    · exact (sub_eq_zero.mp hx).symm
    · exact hy.symm

/-- `rep_coincident`: `merge_coincident_edges` creates a record satisfying `Rep` whenever the split
point is on the longer edge — level edges included (since fix 456c058b the parameter is solved
along the larger extent of the edge).

Before 456c058b the code used `solve_t_for_y`, which is 0 on a level edge, and only
`rep_coincident_partial` (edges with `lower.to.y ≠ cur.y`) held; the witness
`rep_coincident_level_witness` (A = (0,0) → B = (6,0) split at (4,0): record with t = 0, reported
as endpoint A, although (4,0) is at 2/3) was a theorem about the old model and is retired with it. -/
theorem rep_coincident (C : K → P K) (hC : AffineParam C) (cur : P K) (lower : Pending K)
    (sp : P K) (hl : RepPending C cur lower) (hne : cur ≠ lower.to)
    (hon : ∃ u, sp = P.lerp cur lower.to u) :
    RepRec C (mergeCoincident cur lower sp) := by
  obtain ⟨u, hu⟩ := hon
  have ht : splitT cur lower.to sp = u := by rw [hu]; exact splitT_on cur lower.to u hne
  have key := cut_key C hC cur lower.to lower.src.t0 lower.rangeEnd u sp hl.1 hl.2 hu
  unfold mergeCoincident
  rw [ht]
  exact ⟨key.symm, fun _ => hl.2⟩

/-- non-vacuity, on the former witness: the level edge (0,0) → (6,0) split at (4,0) -/
example :
    let r0 : EdgeRec ℚ := ⟨⟨0, 0⟩, ⟨6, 0⟩, 0, 1, 1, true, 0, 1⟩
    RepPending (P.lerp (⟨0, 0⟩ : P ℚ) ⟨6, 0⟩) ⟨0, 0⟩ (pendingOf r0) ∧ (⟨0, 0⟩ : P ℚ) ≠ (pendingOf r0).to ∧
      ∃ u : ℚ, (⟨4, 0⟩ : P ℚ) = P.lerp ⟨0, 0⟩ (pendingOf r0).to u := by
  refine ⟨⟨by simp [pendingOf, lerp_zero], by simp [pendingOf, lerp_one]⟩, by simp [pendingOf], 2/3, ?_⟩
  simp [pendingOf, lerp_def]; norm_num

/-- `rep_split_at_vertex`: when the current position `cur` lies on an active edge satisfying `Rep`,
the lower part pushed by the `edges_to_split` branch — with its own edge data since fix 6bc52f98 —
satisfies `Rep` as a pending edge starting at `cur`: its `range.start` is the parameter of `cur`.
Hence it becomes an active edge satisfying `Rep` and every later cut of it creates `Rep` records
(`rep_intersection`, `rep_coincident`).

Before 6bc52f98 the lower part shared the source record and kept its stale `range.start`; only
`rep_split_at_vertex_partial` (histories without such a split, an inductive `Reach` without the
`split` constructor below) held, and the witness `rep_split_at_vertex_witness` was a theorem about
the old model: edge A = (0,0) → B = (0,10), a vertex at (0,5) splits it, the lower part is crossed
at (0,7.5) (`ta = 1/2`): the record reported t = 1/2 although (0,7.5) is at 3/4. It is retired with
the old model; the same input is the non-vacuity example below, now yielding t = 3/4. -/
theorem rep_split_at_vertex (C : K → P K) (hC : AffineParam C) (cur : P K) (a : Active K)
    (ha : RepActive C a) (hne : a.from_ ≠ a.to) (hon : ∃ u, cur = P.lerp a.from_ a.to u) :
    RepPending C cur (splitAtVertex cur a).2 := by
  obtain ⟨u, hu⟩ := hon
  have ht : splitT a.from_ a.to cur = u := by rw [hu]; exact splitT_on a.from_ a.to u hne
  have key := cut_key C hC a.from_ a.to a.src.t0 a.rangeEnd u cur ha.1 ha.2 hu
  unfold splitAtVertex
  simp only [ht]
  exact ⟨key.symm, ha.2⟩

/-- All histories of an active edge: created from a record of the queue, truncated by
intersections, restarted by the `current_position == intersection` branch, or the lower part of a
split at a vertex lying on it. -/
inductive Reach (C : K → P K) : Active K → Prop
  | ofRec (r : EdgeRec K) : RepRec C r → r.isEdge = true → Reach C (activate r.pos (pendingOf r))
  | cut (a : Active K) (ta : K) (ip : P K) : Reach C a → ip = P.lerp a.from_ a.to ta →
      Reach C (cutActive a ta ip).1
  | touch (a : Active K) (ta : K) (ip : P K) : Reach C a → ip = P.lerp a.from_ a.to ta →
      Reach C (touchActive a ta ip)
  | split (a : Active K) (cur : P K) : Reach C a → a.from_ ≠ a.to →
      (∃ u, cur = P.lerp a.from_ a.to u) → Reach C (activate cur (splitAtVertex cur a).2)

/-- `rep_history`: along EVERY history — splits at vertices included — the active edge satisfies
`Rep`, hence so does every record cut from it. -/
theorem rep_history (C : K → P K) (hC : AffineParam C) (a : Active K) (h : Reach C a) :
    RepActive C a ∧ ∀ ta ip r, ip = P.lerp a.from_ a.to ta → (cutActive a ta ip).2 = some r →
      RepRec C r := by
  have hrep : RepActive C a := by
    induction h with
    | ofRec r hr he => exact rep_activate C r.pos _ (rep_pending_of C r hr he)
    | cut a ta ip _ hip ih => exact (rep_intersection C hC a ta ip ih hip).1
    | touch a ta ip _ hip ih => exact rep_touch C hC a ta ip ih hip
    | split a cur _ hne hon ih => exact rep_activate C cur _ (rep_split_at_vertex C hC cur a ih hne hon)
  exact ⟨hrep, fun ta ip r hip hr => ((rep_intersection C hC a ta ip hrep hip).2 r hr).1⟩

/-- non-vacuity, on the former witness: edge (0,0) → (0,10) split at (0,5), the lower part crossed
at (0,7.5): the record now reports t = 3/4 -/
example :
    let A : P ℚ := ⟨0, 0⟩
    let B : P ℚ := ⟨0, 10⟩
    let r0 : EdgeRec ℚ := ⟨A, B, 0, 1, 1, true, 0, 1⟩
    let a0 := activate A (pendingOf r0)
    let a1 := activate ⟨0, 5⟩ (splitAtVertex ⟨0, 5⟩ a0).2
    RepActive (P.lerp A B) a0 ∧ a0.from_ ≠ a0.to ∧ (∃ u : ℚ, (⟨0, 5⟩ : P ℚ) = P.lerp a0.from_ a0.to u) ∧
    ∃ r, (cutActive a1 (1/2) ⟨0, 15/2⟩).2 = some r ∧ r.pos = ⟨0, 15/2⟩ ∧ r.t0 = 3/4 := by
  refine ⟨⟨by simp [activate, pendingOf, lerp_zero], by simp [activate, pendingOf, lerp_one]⟩,
    by simp [activate, pendingOf], ⟨1/2, by simp [activate, pendingOf, lerp_def]; norm_num⟩, ?_⟩
  refine ⟨⟨⟨0, 15/2⟩, ⟨0, 10⟩, 3/4, 1, 1, true, 0, 1⟩, ?_, rfl, rfl⟩
  simp [cutActive, activate, splitAtVertex, pendingOf, splitT, solveTForX, solveTForY, beq_P,
    isAfter, beq_K, remapT_eq, zero_K, sc_abs]
  norm_num

/-! ### Curves -/

/-- `Rep` for the pieces of a flattened curve pushed by one callback of the curve builders, when
the pieces are chords `C t0 → C t1` of the curve the ids refer to. -/
theorem mem_pushEdge (b : Builder K) (e : Option (EdgeRec K)) (r : EdgeRec K)
    (h : r ∈ (b.pushEdge e).recs) : e = some r ∨ r ∈ b.recs := by
  cases e with
  | none => exact Or.inr h
  | some r' =>
    simp only [Builder.pushEdge, List.mem_cons] at h
    rcases h with rfl | h
    · exact Or.inl rfl
    · exact Or.inr h

theorem rep_curve_step (C : K → P K) (old : List (EdgeRec K)) (ns : Bool) (w : Int) (toId : Nat)
    (s : CurveLoop K) (l : Piece K)
    (hl : l.a = C (pieceT ns l.t0) ∧ l.b = C (pieceT ns l.t1))
    (hs : ∀ r ∈ s.bld.recs, r ∈ old ∨ RepRec C r) :
    ∀ r ∈ (curveStep ns w toId s l).bld.recs, r ∈ old ∨ RepRec C r := by
  unfold curveStep
  split
  · exact hs
  · intro r hr
    have hv : RepRec C (vertexEventOnCurve l.a (pieceT ns l.t0) s.bld.prevId toId) :=
      ⟨hl.1, fun h => by simp [vertexEventOnCurve] at h⟩
    simp only at hr
    rcases mem_pushEdge _ _ r hr with he | hr'
    · rw [hl.1, hl.2] at he; exact Or.inr (rep_add_edge C w _ toId _ _ r he).1
    · split at hr'
      · simp only [Builder.pushRec, List.mem_cons] at hr'
        rcases hr' with rfl | hr'
        · exact Or.inr hv
        · exact hs r hr'
      · exact hs r hr'

theorem rep_curve_fold (C : K → P K) (old : List (EdgeRec K)) (ns : Bool) (w : Int) (toId : Nat)
    (flat : List (Piece K))
    (hf : ∀ l ∈ flat, l.a = C (pieceT ns l.t0) ∧ l.b = C (pieceT ns l.t1)) (s : CurveLoop K)
    (hs : ∀ r ∈ s.bld.recs, r ∈ old ∨ RepRec C r) :
    ∀ r ∈ (flat.foldl (curveStep ns w toId) s).bld.recs, r ∈ old ∨ RepRec C r := by
  induction flat generalizing s with
  | nil => exact hs
  | cons l ls ih =>
    simp only [List.foldl_cons]
    exact ih (fun l' hl' => hf l' (List.mem_cons_of_mem _ hl')) _
      (rep_curve_step C old ns w toId s l (hf l (List.mem_cons_self ..)) hs)

theorem rep_curve_tail (C : K → P K) (old : List (EdgeRec K)) (b0 : Builder K) (s : CurveLoop K)
    (a dest : P K) (toId : Nat) (ns : Bool) (h0 : a = C 0)
    (hs : ∀ r ∈ s.bld.recs, r ∈ old ∨ RepRec C r) :
    ∀ r ∈ (curveTail b0 s a dest toId ns).recs, r ∈ old ∨ RepRec C r := by
  unfold curveTail
  split
  · exact hs
  · rename_i first _
    intro r hr
    by_cases hn : b0.nth = 0
    · simp only [hn, ↓reduceIte] at hr
      exact hs r hr
    · by_cases hc : (isAfter a s.bld.prev && isAfter a (if ns = true then s.prev else first)) = true
      · simp only [hn, hc, ↓reduceIte, Builder.pushRec, List.mem_cons] at hr
        rcases hr with rfl | hr
        · exact Or.inr ⟨by simp [vertexEvent, h0], fun h => by simp [vertexEvent] at h⟩
        · exact hs r hr
      · simp only [hn, hc, ↓reduceIte] at hr
        exact hs r hr

/-- `rep_curve`: every record stored by `quadratic_bezier_segment` / `cubic_bezier_segment` for
the curve `C` from the current endpoint (`C 0`) satisfies `Rep` with respect to `C` and the ids
`prev_endpoint_id → to_id`, whichever way the curve points: `flat` are chords of `C`,
`flatFlipped` chords of the flipped curve `t ↦ C (1 - t)` (used when `needs_swap`), and since fix
8662f1bc the parameters stored for the latter are `1 - t`.

Before 8662f1bc the flipped flattening's own parameters were stored with the unflipped ids; only
`rep_curve_unswapped_partial` (curves with `needs_swap = false`) held, and the witness
`curve_swap_witness` (the "curve" from endpoint 0 at (0,1) to endpoint 1 at (0,0), flipped
flattening [(0,0) → (0,1), t 0..1]: the record at (0,0) had t = 0 and was reported as endpoint 0,
which is at (0,1)) was a theorem about the old model and is retired with it. -/
theorem rep_curve (C : K → P K) (b : Builder K) (dest : P K) (toId : Nat)
    (flat flatFlipped : List (Piece K)) (h0 : b.current = C 0)
    (hf : ∀ l ∈ flat, l.a = C l.t0 ∧ l.b = C l.t1)
    (hff : ∀ l ∈ flatFlipped, l.a = C (1 - l.t0) ∧ l.b = C (1 - l.t1)) :
    ∀ r ∈ (b.curveSegment dest toId flat flatFlipped).recs, r ∈ b.recs ∨ RepRec C r := by
  unfold Builder.curveSegment
  simp only
  apply rep_curve_tail C b.recs b _ b.current dest toId _ h0
  cases hns : isAfter b.current dest
  · simp only [Bool.false_eq_true, if_false]
    exact rep_curve_fold C b.recs false 1 toId flat
      (fun l hl => by simpa [pieceT] using hf l hl) _ (fun r hr => Or.inl hr)
  · simp only [if_true]
    exact rep_curve_fold C b.recs true (-1) toId flatFlipped
      (fun l hl => by simpa [pieceT, one_K] using hff l hl) _ (fun r hr => Or.inl hr)

/-- non-vacuity, on the former witness: the reversed straight "curve" `C t = (0, 1 - t)` from
endpoint 0 at (0,1) to endpoint 1 at (0,0); its record now carries `t = 1` at (0,0), i.e. it is
reported as endpoint 1. -/
example :
    let C : ℚ → P ℚ := fun t => ⟨0, 1 - t⟩
    let b0 : Builder ℚ := (Builder.init.begin (C 0) 0)
    let b := b0.curveSegment (C 1) 1 [⟨⟨0, 1⟩, ⟨0, 0⟩, 0, 1⟩] [⟨⟨0, 0⟩, ⟨0, 1⟩, 0, 1⟩]
    b0.current = C 0 ∧ (∀ l ∈ [(⟨⟨0, 0⟩, ⟨0, 1⟩, 0, 1⟩ : Piece ℚ)], l.a = C (1 - l.t0) ∧ l.b = C (1 - l.t1)) ∧
    ∃ r, b.recs = [r] ∧ r.pos = C 1 ∧ r.t0 = 1 ∧ sourceOf r = .endpoint 1 := by
  refine ⟨rfl, by simp, ⟨⟨0, 0⟩, ⟨0, 1⟩, 1, 0, -1, true, 0, 1⟩, ?_, by simp, rfl, by simp [sourceOf, beq_K]⟩
  simp [Builder.curveSegment, Builder.begin, Builder.init, curveStep, curveTail, addEdge, pieceT,
    Builder.pushEdge, Builder.pushRec, isAfter, beq_P, beq_K]
  norm_num

/-! ### Sources -/

/-- a source lies where it says: an endpoint source at that endpoint, an edge source with
parameter `t` at the point a fraction `t` along the edge -/
def OnSource (posOf : Nat → P K) (p : P K) : Source K → Prop
  | .endpoint id => p = posOf id
  | .edge f t u => p = P.lerp (posOf f) (posOf t) u

theorem sourceOf_on (posOf : Nat → P K) (r : EdgeRec K)
    (h : r.pos = P.lerp (posOf r.fromId) (posOf r.toId) r.t0) : OnSource posOf r.pos (sourceOf r) := by
  unfold sourceOf
  split
  · rename_i h0
    have : r.t0 = 0 := by rw [zero_K] at h0; exact (sc_beq _ _).mp h0
    rw [this, lerp_zero] at h; exact h
  · split
    · rename_i _ h1
      have : r.t0 = 1 := by rw [one_K] at h1; exact (sc_beq _ _).mp h1
      rw [this, lerp_one] at h; exact h
    · exact h

theorem sourcesFrom_sub (prev : Option (Source K)) (rs : List (EdgeRec K)) :
    ∀ s ∈ sourcesFrom prev rs, ∃ r ∈ rs, s = sourceOf r := by
  induction rs generalizing prev with
  | nil => intro s hs; simp [sourcesFrom] at hs
  | cons r rs ih =>
    intro s hs
    cases prev with
    | none =>
      simp only [sourcesFrom, List.mem_cons] at hs
      rcases hs with rfl | hs
      · exact ⟨r, List.mem_cons_self .., rfl⟩
      · obtain ⟨r', hr', e⟩ := ih _ s hs; exact ⟨r', List.mem_cons_of_mem _ hr', e⟩
    | some p =>
      simp only [sourcesFrom] at hs
      split at hs
      · obtain ⟨r', hr', e⟩ := ih _ s hs; exact ⟨r', List.mem_cons_of_mem _ hr', e⟩
      · simp only [List.mem_cons] at hs
        rcases hs with rfl | hs
        · exact ⟨r, List.mem_cons_self .., rfl⟩
        · obtain ⟨r', hr', e⟩ := ih _ s hs; exact ⟨r', List.mem_cons_of_mem _ hr', e⟩

/-- `sources_on_sources`: if the sibling records of a vertex at `p` satisfy `Rep` with respect to
the line edges `posOf from_id → posOf to_id`, every reported source lies where it says: an endpoint
source has exactly that endpoint's position, an edge source with parameter `t` is the point a
fraction `t` along that edge. -/
theorem sources_on_sources (posOf : Nat → P K) (p : P K) (rs : List (EdgeRec K))
    (h : ∀ r ∈ rs, r.pos = p ∧ r.pos = P.lerp (posOf r.fromId) (posOf r.toId) r.t0) :
    ∀ s ∈ sources rs, OnSource posOf p s := by
  intro s hs
  obtain ⟨r, hr, rfl⟩ := sourcesFrom_sub none rs s hs
  have := sourceOf_on posOf r (h r hr).2
  rw [(h r hr).1] at this
  exact this

/-- at least one source is reported for a vertex with at least one sibling record (the event
being processed always has one) -/
theorem sources_nonempty (rs : List (EdgeRec K)) (h : rs ≠ []) : sources rs ≠ [] := by
  cases rs with
  | nil => exact absurd rfl h
  | cons r rs => simp [sources, sourcesFrom]

example : sources [(⟨⟨0, 5⟩, ⟨0, 10⟩, 1/2, 1, 1, true, 0, 1⟩ : EdgeRec ℚ),
    ⟨⟨0, 5⟩, ⟨3, 9⟩, 0, 1, 1, true, 4, 5⟩] = [.edge 0 1 (1/2), .endpoint 4] := by
  simp [sources, sourcesFrom, sourceOf, Source.beq, beq_K]

/-! ### Interpolated attributes -/

theorem foldl_add (f : Source K → K) (l : List (Source K)) (a : K) :
    l.foldl (fun b s => b + f s) a = a + (l.map f).sum := by
  induction l generalizing a with
  | nil => simp
  | cons x xs ih => simp [ih, add_assoc]

theorem foldl_count (l : List (Source K)) (a : K) :
    l.foldl (fun d _ => d + (Scalar.one : K)) a = a + (l.length : K) := by
  induction l generalizing a with
  | nil => simp
  | cons x xs ih =>
    simp only [List.foldl_cons, List.length_cons]
    rw [ih, one_K]; push_cast; ring

/-- `attributes_average`: the interpolated attribute is the average, over the reported sources, of
the endpoint attributes linearly interpolated with the source's own `t`. -/
theorem attributes_average (store : Nat → Nat → K) (rs : List (EdgeRec K)) (i : Nat)
    (h : sources rs ≠ []) :
    interpAttr store rs i =
      ((sources rs).map (srcAttr store i)).sum / ((sources rs).length : K) := by
  unfold interpAttr
  generalize sources rs = l at h ⊢
  split
  · exact absurd rfl h
  · simp [srcAttr]
  · rename_i first rest _
    simp only [foldl_count]
    simp only [foldl_add, one_K]
    cases rest with
    | nil => simp
    | cons x xs =>
      have hpos : (1 : K) < 1 + ((x :: xs).length : K) := by
        have : (0 : K) < ((x :: xs).length : K) := by
          simp only [List.length_cons, Nat.cast_add, Nat.cast_one]
          have : (0 : K) ≤ (xs.length : K) := Nat.cast_nonneg _
          linarith
        linarith
      rw [if_pos hpos]
      simp only [List.map_cons, List.sum_cons, List.length_cons, Nat.cast_add, Nat.cast_one]
      congr 1
      ring

theorem sum_map_const (f : Source K → K) (c : K) (l : List (Source K)) (h : ∀ s ∈ l, f s = c) :
    (l.map f).sum = (l.length : K) * c := by
  induction l with
  | nil => simp
  | cons x xs ih =>
    simp only [List.map_cons, List.sum_cons, List.length_cons, Nat.cast_add, Nat.cast_one]
    rw [h x (List.mem_cons_self ..), ih (fun s hs => h s (List.mem_cons_of_mem _ hs))]
    ring

/-- the contribution of a source that lies where it says, for an attribute that is the affine
function `g p = c + a·p.x + b·p.y` of the endpoint positions, is `g` of the vertex position -/
theorem srcAttr_affine (posOf : Nat → P K) (store : Nat → Nat → K) (c a b : K) (i : Nat)
    (hg : ∀ id, store id i = c + a * (posOf id).x + b * (posOf id).y) (p : P K) (s : Source K)
    (hs : OnSource posOf p s) : srcAttr store i s = c + a * p.x + b * p.y := by
  cases s with
  | endpoint id => simp only [srcAttr, OnSource] at *; rw [hg, hs]
  | edge f t u =>
    simp only [srcAttr, OnSource] at *
    rw [hg f, hg t, hs, lerp_def, one_K]; ring

/-- `affine_attributes_reproduced`: if attribute `i` is an affine function `g` of the endpoint
positions and the sibling records of the vertex at `p` satisfy `Rep` (line edges), then the
interpolated attribute is `g p`. -/
theorem affine_attributes_reproduced (posOf : Nat → P K) (store : Nat → Nat → K) (c a b : K)
    (i : Nat) (hg : ∀ id, store id i = c + a * (posOf id).x + b * (posOf id).y)
    (p : P K) (rs : List (EdgeRec K)) (hne : rs ≠ [])
    (h : ∀ r ∈ rs, r.pos = p ∧ r.pos = P.lerp (posOf r.fromId) (posOf r.toId) r.t0) :
    interpAttr store rs i = c + a * p.x + b * p.y := by
  have hs := sources_nonempty rs hne
  rw [attributes_average store rs i hs,
    sum_map_const _ (c + a * p.x + b * p.y) _
      (fun s hs' => srcAttr_affine posOf store c a b i hg p s (sources_on_sources posOf p rs h s hs'))]
  have hlen : ((sources rs).length : K) ≠ 0 := by
    have : (sources rs).length ≠ 0 := fun h0 => hs (List.length_eq_zero_iff.mp h0)
    exact_mod_cast this
  field_simp

/-- non-vacuity: a crossing vertex at (2,2) of the edges 0→1 = (0,0)→(4,4) and 2→3 = (4,0)→(0,4),
attribute `g p = 1 + 2·p.x + 3·p.y` -/
example :
    let posOf : Nat → P ℚ := fun id => if id = 0 then ⟨0, 0⟩ else if id = 1 then ⟨4, 4⟩ else
      if id = 2 then ⟨4, 0⟩ else ⟨0, 4⟩
    let rs : List (EdgeRec ℚ) := [⟨⟨2, 2⟩, ⟨4, 4⟩, 1/2, 1, 1, true, 0, 1⟩, ⟨⟨2, 2⟩, ⟨0, 4⟩, 1/2, 1, 1, true, 2, 3⟩]
    (∀ r ∈ rs, r.pos = ⟨2, 2⟩ ∧ r.pos = P.lerp (posOf r.fromId) (posOf r.toId) r.t0) ∧ rs ≠ [] := by
  refine ⟨?_, by simp⟩
  intro r hr
  simp only [List.mem_cons, List.mem_nil_iff, or_false] at hr
  rcases hr with rfl | rfl <;> (refine ⟨rfl, ?_⟩; simp [lerp_def]; norm_num)

end Lyon.C07
