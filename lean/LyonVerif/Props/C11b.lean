/-
  C11, path level (continuation of Props/C11.lean): the box `lyon_algorithms::aabb::bounding_box`
  returns for a path, as a function of the path's events the way `Path::iter` yields them
  (`Model/Algo/Aabb.lean`: builder calls → events → fold).

    `path_box_is_union` — for EVERY event list `Path::iter` can yield (`WF`), not empty, whose
      first point is finite: the returned box IS the union (componentwise min / max) of the exact
      boxes of the path's pieces — the segments from their `from` points, closing edges included —
      although the code never reads the `from` of a line nor the closing edge; and every point of
      every piece (every `t ∈ [0,1]` of every line, curve and closing edge) lies in it.
    `path_box_touched` — each of the four sides of that box passes through a point of the path.
    `events_wellFormed` — the event list of any sequence of builder calls that starts with `begin`
      is such a list (so the two theorems are about what the tie runs).
    `quad_box_reverse`, `cubic_box_reverse` — the exact box of a curve does not depend on the
      direction in which it is drawn (what `Path::reversed` does to every segment).
    `path_box_eq_of_same_pieces` — two paths whose pieces have the same exact boxes (any order, any
      multiplicity) get the same box.
    `path_box_flat_curve_instance` — the model's answer for `M 0 0 L 10 5 Q 15 5 20 5 Z`.

    `path_box_reversed` — `aabb::bounding_box` of `Path::reversed` (modelled: `PathBox.reversed`,
      tied on every run) is the box of the path, for every path built through the builder protocol.

  The union characterisation is what makes the box independent of the HISTORY of the path (order
  of the events, direction of the segments): a fold step that looks at what was accumulated before
  (such as skipping a curve whose control polygon seems to be covered already) is only correct if
  it still yields this union.
-/
import LyonVerif.Props.C11
import LyonVerif.Model.Algo.Aabb

set_option linter.unusedSectionVars false
set_option linter.unusedVariables false
set_option linter.unusedSimpArgs false

namespace Lyon.C11

open Lyon Lyon.PathBox

variable {K : Type} [Field K] [LinearOrder K] [IsStrictOrderedRing K] [Transc K]

/-! ## Event lists as `Path::iter` yields them -/

/-- the state of `Iter`: (current endpoint, first endpoint of the sub-path); `none` before the
first `Begin`.  Every segment starts at the current endpoint, `End` reports the current and the
first endpoint. -/
def WF : Option (P K × P K) → List (FEv K) → Prop
  | _, [] => True
  | _, FEv.begin p :: r => WF (some (p, p)) r
  | some (cur, first), FEv.line f p :: r => f = cur ∧ WF (some (p, first)) r
  | some (cur, first), FEv.quad f _ p :: r => f = cur ∧ WF (some (p, first)) r
  | some (cur, first), FEv.cubic f _ _ p :: r => f = cur ∧ WF (some (p, first)) r
  | some (cur, first), FEv.end_ l f _ :: r => l = cur ∧ f = first ∧ WF (some (cur, first)) r
  | none, FEv.line _ _ :: _ => False
  | none, FEv.quad _ _ _ :: _ => False
  | none, FEv.cubic _ _ _ _ :: _ => False
  | none, FEv.end_ _ _ _ :: _ => False

/-- the point of the piece of the path an event stands for, at parameter `t` (a non-closing `End`
stands for the endpoint the sub-path stops at) -/
noncomputable def evPoint : FEv K → K → P K
  | .begin p, _ => p
  | .line f p, t => Seg.sample ⟨f, p⟩ t
  | .quad f c p, t => Quad.sample ⟨f, c, p⟩ t
  | .cubic f c1 c2 p, t => Cubic.sample ⟨f, c1, c2, p⟩ t
  | .end_ l f true, t => Seg.sample ⟨l, f⟩ t
  | .end_ l _ false, _ => l

theorem eventsFrom_wf (cmds : List (PCmd K)) : ∀ cur first : P K,
    WF (some (cur, first)) (eventsFrom cur first cmds) := by
  induction cmds with
  | nil => intro _ _; trivial
  | cons c r ih =>
    intro cur first
    cases c with
    | begin p => exact ih p p
    | lineTo p => exact ⟨rfl, ih p first⟩
    | quadTo c p => exact ⟨rfl, ih p first⟩
    | cubicTo c1 c2 p => exact ⟨rfl, ih p first⟩
    | end_ close => exact ⟨rfl, rfl, ih cur first⟩

/-- **What the tie runs is what the theorems are about**: the events of any sequence of builder
calls that starts with `begin` (lyon's builder refuses anything else) form a list as `Path::iter`
yields it. -/
theorem events_wellFormed (p : P K) (r : List (PCmd K)) : WF none (events (PCmd.begin p :: r)) :=
  eventsFrom_wf r p p

/-! ## boxes -/

theorem join_eq (a b : Box K) : PathBox.join a b = boxJoin a b := by
  simp only [PathBox.join, boxJoin, P.pmin, P.pmax, emin_eq, emax_eq]

theorem unionBoxes_cons (b : Box K) (r : List (Box K)) : unionBoxes (b :: r) = r.foldl boxJoin b := by
  have : (PathBox.join : Box K → Box K → Box K) = boxJoin := by
    funext a b; exact join_eq a b
  simp only [unionBoxes, this]

theorem inside_antisymm {a b : Box K} (h1 : Box.Inside a b) (h2 : Box.Inside b a) : a = b := by
  obtain ⟨⟨ax, ay⟩, ⟨bx, by'⟩⟩ := a
  obtain ⟨⟨cx, cy⟩, ⟨dx, dy⟩⟩ := b
  simp only [Box.Inside] at h1 h2
  simp only [Box.mk.injEq, P.mk.injEq]
  exact ⟨⟨le_antisymm h2.1 h1.1, le_antisymm h2.2.2.1 h1.2.2.1⟩,
    ⟨le_antisymm h1.2.1 h2.2.1, le_antisymm h1.2.2.2 h2.2.2.2⟩⟩

/-- a join of boxes is the LEAST box around them -/
theorem foldl_join_least (X : Box K) (l : List (Box K)) : ∀ b0 : Box K,
    Box.Inside b0 X → (∀ x ∈ l, Box.Inside x X) → Box.Inside (l.foldl boxJoin b0) X := by
  induction l with
  | nil => intro b0 h0 _; exact h0
  | cons y r ih =>
    intro b0 h0 hl
    rw [List.foldl_cons]
    refine ih _ ?_ (fun x hx => hl x (List.mem_cons_of_mem _ hx))
    have hy := hl y List.mem_cons_self
    exact ⟨le_min h0.1 hy.1, max_le h0.2.1 hy.2.1, le_min h0.2.2.1 hy.2.2.1, max_le h0.2.2.2 hy.2.2.2⟩

/-- every side of a join is a side of one of the joined boxes -/
theorem foldl_join_attains (l : List (Box K)) : ∀ b0 : Box K,
    (∃ x ∈ b0 :: l, (l.foldl boxJoin b0).min.x = x.min.x) ∧
    (∃ x ∈ b0 :: l, (l.foldl boxJoin b0).max.x = x.max.x) ∧
    (∃ x ∈ b0 :: l, (l.foldl boxJoin b0).min.y = x.min.y) ∧
    (∃ x ∈ b0 :: l, (l.foldl boxJoin b0).max.y = x.max.y) := by
  induction l with
  | nil => intro b0; exact ⟨⟨b0, by simp, rfl⟩, ⟨b0, by simp, rfl⟩, ⟨b0, by simp, rfl⟩, ⟨b0, by simp, rfl⟩⟩
  | cons y r ih =>
    intro b0
    rw [List.foldl_cons]
    obtain ⟨⟨x1, m1, e1⟩, ⟨x2, m2, e2⟩, ⟨x3, m3, e3⟩, ⟨x4, m4, e4⟩⟩ := ih (boxJoin b0 y)
    have sub : ∀ x ∈ r, x ∈ b0 :: y :: r := fun x hx => by simp [hx]
    refine ⟨?_, ?_, ?_, ?_⟩
    · rcases List.mem_cons.1 m1 with rfl | m
      · rcases min_choice b0.min.x y.min.x with h | h
        · exact ⟨b0, by simp, e1.trans h⟩
        · exact ⟨y, by simp, e1.trans h⟩
      · exact ⟨x1, sub _ m, e1⟩
    · rcases List.mem_cons.1 m2 with rfl | m
      · rcases max_choice b0.max.x y.max.x with h | h
        · exact ⟨b0, by simp, e2.trans h⟩
        · exact ⟨y, by simp, e2.trans h⟩
      · exact ⟨x2, sub _ m, e2⟩
    · rcases List.mem_cons.1 m3 with rfl | m
      · rcases min_choice b0.min.y y.min.y with h | h
        · exact ⟨b0, by simp, e3.trans h⟩
        · exact ⟨y, by simp, e3.trans h⟩
      · exact ⟨x3, sub _ m, e3⟩
    · rcases List.mem_cons.1 m4 with rfl | m
      · rcases max_choice b0.max.y y.max.y with h | h
        · exact ⟨b0, by simp, e4.trans h⟩
        · exact ⟨y, by simp, e4.trans h⟩
      · exact ⟨x4, sub _ m, e4⟩

theorem contains_point_box {X : Box K} {p : P K} (h : Box.Inside ⟨p, p⟩ X) : Box.Contains X p := h

/-- the box of a line segment lies in every box that contains its two end points -/
theorem seg_inside {X : Box K} {a b : P K} (ha : Box.Contains X a) (hb : Box.Contains X b) :
    Box.Inside (Seg.boundingBox ⟨a, b⟩) X := by
  rw [(seg_box ⟨a, b⟩).1]
  exact ⟨le_min ha.1 hb.1, max_le ha.2.1 hb.2.1, le_min ha.2.2.1 hb.2.2.1, max_le ha.2.2.2 hb.2.2.2⟩

/-- what an event contributes to the fold contains the event's end point -/
theorem tightBox_contains_end (e : PEv K) (x : Box K) (p : P K)
    (hx : tightBox e = some x) (hp : endPoint e = some p) : Box.Contains x p := by
  cases e with
  | begin q => cases hx; cases hp; exact ⟨le_refl _, le_refl _, le_refl _, le_refl _⟩
  | line f q => cases hx; cases hp; exact ⟨le_refl _, le_refl _, le_refl _, le_refl _⟩
  | end_ => cases hp
  | quad f c q =>
    cases hx; cases hp
    have h := quad_box_contains (⟨f, c, p⟩ : Quad K) 1 (by norm_num) (le_refl _)
    have e1 : (⟨f, c, p⟩ : Quad K).sample 1 = p := by
      have hx := quad_sample_x (⟨f, c, p⟩ : Quad K) 1
      have hy := quad_sample_y (⟨f, c, p⟩ : Quad K) 1
      rw [q1_ev1] at hx hy
      cases hp : (⟨f, c, p⟩ : Quad K).sample 1
      rw [hp] at hx hy
      cases p
      simp only at hx hy
      rw [hx, hy]
    rw [e1] at h
    exact h
  | cubic f c1 c2 q =>
    cases hx; cases hp
    have hx := ((c1_range_partial f.x c1.x c2.x p.x).2.2 1 (Or.inr (Or.inl rfl)))
    have hy := ((c1_range_partial f.y c1.y c2.y p.y).2.2 1 (Or.inr (Or.inl rfl)))
    rw [c1_ev1] at hx hy
    exact ⟨hx.1, hx.2, hy.1, hy.2⟩

/-- what the fold takes from an event lies in the exact box of the piece the event stands for -/
theorem tight_inside_seg (e : FEv K) (x : Box K) (hx : tightBox (toPEv e) = some x) :
    ∃ y, segBox e = some y ∧ Box.Inside x y := by
  cases e with
  | begin p => exact ⟨x, hx, inside_refl _⟩
  | quad f c p => exact ⟨x, hx, inside_refl _⟩
  | cubic f c1 c2 p => exact ⟨x, hx, inside_refl _⟩
  | end_ l f c => cases hx
  | line f p =>
    cases hx
    refine ⟨_, rfl, ?_⟩
    rw [(seg_box ⟨f, p⟩).1]
    exact ⟨min_le_right _ _, le_max_right _ _, min_le_right _ _, le_max_right _ _⟩

/-- **the `from` points and the closing edges are covered although the fold never reads them**:
in a box `X` that contains what the fold takes from every event of a well-formed list, the exact
box of every piece lies, and so does the end point of every sub-path -/
theorem segBox_inside_of_tight (X : Box K) (evs : List (FEv K)) : ∀ st : Option (P K × P K),
    (∀ cur first, st = some (cur, first) → Box.Contains X cur ∧ Box.Contains X first) →
    WF st evs →
    (∀ e ∈ evs, ∀ x, tightBox (toPEv e) = some x → Box.Inside x X) →
    (∀ e ∈ evs, ∀ y, segBox e = some y → Box.Inside y X) ∧
    (∀ l f c, FEv.end_ l f c ∈ evs → Box.Contains X l) := by
  induction evs with
  | nil => intro _ _ _ _; exact ⟨(fun e he => by cases he), (fun l f c he => by cases he)⟩
  | cons e r ih =>
    intro st hst hw ht
    have htr : ∀ e ∈ r, ∀ x, tightBox (toPEv e) = some x → Box.Inside x X :=
      fun e he => ht e (List.mem_cons_of_mem _ he)
    have he0 := ht e List.mem_cons_self
    -- the step: this event's box is inside, and the next state's points are inside
    have step : (∀ y, segBox e = some y → Box.Inside y X) ∧ (∀ l f c, e = FEv.end_ l f c → Box.Contains X l) ∧
        ∃ st2, WF st2 r ∧ (∀ cur first, st2 = some (cur, first) → Box.Contains X cur ∧ Box.Contains X first) := by
      cases e with
      | begin p =>
        have hp : Box.Contains X p := contains_point_box (he0 _ rfl)
        refine ⟨fun y hy => ?_, (fun l f c h => by cases h), some (p, p), hw, ?_⟩
        · cases hy; exact he0 _ rfl
        · intro cur first h; cases h; exact ⟨hp, hp⟩
      | line f p =>
        rcases st with _ | ⟨cur, first⟩
        · exact absurd hw (by simp [WF])
        · obtain ⟨hf, hw2⟩ := hw
          obtain ⟨hc, hfi⟩ := hst cur first rfl
          have hp : Box.Contains X p := contains_point_box (he0 _ rfl)
          refine ⟨fun y hy => ?_, (fun l f c h => by cases h), some (p, first), hw2, ?_⟩
          · cases hy; rw [hf]; exact seg_inside hc hp
          · intro cur2 first2 h; cases h; exact ⟨hp, hfi⟩
      | quad f c p =>
        rcases st with _ | ⟨cur, first⟩
        · exact absurd hw (by simp [WF])
        · obtain ⟨hf, hw2⟩ := hw
          obtain ⟨hc, hfi⟩ := hst cur first rfl
          have hp : Box.Contains X p :=
            contains_mono (he0 _ rfl) (tightBox_contains_end (PEv.quad f c p) _ p rfl rfl)
          refine ⟨fun y hy => ?_, (fun l f c h => by cases h), some (p, first), hw2, ?_⟩
          · cases hy; exact he0 _ rfl
          · intro cur2 first2 h; cases h; exact ⟨hp, hfi⟩
      | cubic f c1 c2 p =>
        rcases st with _ | ⟨cur, first⟩
        · exact absurd hw (by simp [WF])
        · obtain ⟨hf, hw2⟩ := hw
          obtain ⟨hc, hfi⟩ := hst cur first rfl
          have hp : Box.Contains X p :=
            contains_mono (he0 _ rfl) (tightBox_contains_end (PEv.cubic f c1 c2 p) _ p rfl rfl)
          refine ⟨fun y hy => ?_, (fun l f c h => by cases h), some (p, first), hw2, ?_⟩
          · cases hy; exact he0 _ rfl
          · intro cur2 first2 h; cases h; exact ⟨hp, hfi⟩
      | end_ l f c =>
        rcases st with _ | ⟨cur, first⟩
        · exact absurd hw (by simp [WF])
        · obtain ⟨hl, hf, hw2⟩ := hw
          obtain ⟨hc, hfi⟩ := hst cur first rfl
          refine ⟨fun y hy => ?_, fun l2 f2 c2 h => ?_, some (cur, first), hw2, ?_⟩
          · cases c with
            | false => cases hy
            | true => cases hy; rw [hl, hf]; exact seg_inside hc hfi
          · cases h; rw [hl]; exact hc
          · intro cur2 first2 h; cases h; exact ⟨hc, hfi⟩
    obtain ⟨s1, s2, st2, hw2, hst2⟩ := step
    obtain ⟨i1, i2⟩ := ih st2 hst2 hw2 htr
    refine ⟨fun e2 he2 => ?_, fun l f c he2 => ?_⟩
    · rcases List.mem_cons.1 he2 with rfl | h
      · exact s1
      · exact i1 e2 h
    · rcases List.mem_cons.1 he2 with h | h
      · exact s2 l f c h.symm
      · exact i2 l f c h

/-- the exact box of a piece contains every point of the piece -/
theorem segBox_contains (hsq : ∀ d : K, 0 ≤ d → Transc.sqrt d * Transc.sqrt d = d)
    (hs0 : ∀ d : K, 0 ≤ d → 0 ≤ Transc.sqrt d) (e : FEv K) (y : Box K) (hy : segBox e = some y)
    (t : K) (h0 : 0 ≤ t) (h1 : t ≤ 1) : Box.Contains y (evPoint e t) := by
  cases e with
  | begin p => cases hy; exact ⟨le_refl _, le_refl _, le_refl _, le_refl _⟩
  | line f p => cases hy; exact (seg_box ⟨f, p⟩).2 t h0 h1
  | quad f c p => cases hy; exact quad_box_contains _ t h0 h1
  | cubic f c1 c2 p => cases hy; exact cubic_box_contains hsq hs0 _ t h0 h1
  | end_ l f c =>
    cases c with
    | false => cases hy
    | true => cases hy; exact (seg_box ⟨l, f⟩).2 t h0 h1

/-! ## The path's box is the union of its segments' exact boxes -/

/-- **`aabb::bounding_box` of a path is the union of the exact boxes of its segments, and contains
every point of every segment.**  For every event list `Path::iter` can yield (`WF none`; it then
starts with a `Begin` at some `p0`) whose first point is finite (`|p0| < big`, `big` = `f32::MAX`,
the start value of the fold): the returned box equals the componentwise min / max over the exact
boxes of the `Begin` points, of every `Line` / `Quadratic` / `Cubic` taken from its `from` point
and of every closing edge — pieces of which the code reads only the `to` point, resp. nothing —
and every point of every piece, for every `t ∈ [0,1]`, lies in it (the `sqrt` laws are used for
the cubics only, as in `cubic_box_contains`). -/
theorem path_box_is_union (hsq : ∀ d : K, 0 ≤ d → Transc.sqrt d * Transc.sqrt d = d)
    (hs0 : ∀ d : K, 0 ≤ d → 0 ≤ Transc.sqrt d) (big : K) (p0 : P K) (r : List (FEv K))
    (hw : WF none (FEv.begin p0 :: r))
    (hfin : -big ≤ p0.x ∧ p0.x < big ∧ -big ≤ p0.y ∧ p0.y ≤ big) :
    pathBox big (FEv.begin p0 :: r) = segUnion (FEv.begin p0 :: r) ∧
    (∀ e ∈ FEv.begin p0 :: r, ∀ t, 0 ≤ t → t ≤ 1 →
      Box.Contains (pathBox big (FEv.begin p0 :: r)) (evPoint e t)) := by
  set evs := FEv.begin p0 :: r with hevs
  -- the fold, as a join
  have hne : ¬ (((evs.map toPEv).foldl Aabb.tightStep (Aabb.start big)).min == (⟨big, big⟩ : P K)) = true :=
    aabb_not_sentinel big (evs.map toPEv) (PEv.begin p0) (by simp [hevs, toPEv]) _ p0 rfl rfl hfin.2.1
  have hA : pathBox big evs = ((evs.map toPEv).filterMap tightBox).foldl boxJoin (Aabb.start big) := by
    unfold pathBox Aabb.boundingBox Aabb.finish
    rw [if_neg hne, aabb_fold]
  -- the union, as a join
  have hU : segUnion evs = (r.filterMap segBox).foldl boxJoin ⟨p0, p0⟩ := by
    unfold segUnion
    rw [hevs, List.filterMap_cons]
    simp only [segBox]
    exact unionBoxes_cons _ _
  have memU : ∀ e ∈ evs, ∀ y, segBox e = some y → Box.Inside y (segUnion evs) := by
    intro e he y hy
    rw [hU]
    obtain ⟨j1, j2⟩ := foldl_join_inside (r.filterMap segBox) ⟨p0, p0⟩
    rcases List.mem_cons.1 he with rfl | h
    · cases hy; exact j1
    · exact j2 y (List.mem_filterMap.2 ⟨e, h, hy⟩)
  have memA : ∀ e ∈ evs, ∀ x, tightBox (toPEv e) = some x → Box.Inside x (pathBox big evs) := by
    intro e he x hx
    rw [hA]
    exact (foldl_join_inside _ _).2 x (List.mem_filterMap.2 ⟨toPEv e, List.mem_map.2 ⟨e, he, rfl⟩, hx⟩)
  obtain ⟨segA, endA⟩ := segBox_inside_of_tight (pathBox big evs) evs none
    (fun _ _ h => by cases h) hw memA
  -- A ⊆ U
  have hAU : Box.Inside (pathBox big evs) (segUnion evs) := by
    rw [hA]
    refine foldl_join_least _ _ _ ?_ ?_
    · have hp : Box.Inside ⟨p0, p0⟩ (segUnion evs) := memU (FEv.begin p0) (by simp [hevs]) _ rfl
      simp only [Box.Inside] at hp
      simp only [Box.Inside, Aabb.start]
      exact ⟨le_trans hp.1 (le_of_lt hfin.2.1), le_trans hfin.1 hp.2.1, le_trans hp.2.2.1 hfin.2.2.2,
        le_trans hfin.2.2.1 hp.2.2.2⟩
    · intro x hx
      obtain ⟨pe, hpe, hx2⟩ := List.mem_filterMap.1 hx
      obtain ⟨e, he, rfl⟩ := List.mem_map.1 hpe
      obtain ⟨y, hy, hxy⟩ := tight_inside_seg e x hx2
      exact inside_trans hxy (memU e he y hy)
  -- U ⊆ A
  have hUA : Box.Inside (segUnion evs) (pathBox big evs) := by
    rw [hU]
    refine foldl_join_least _ _ _ (segA (FEv.begin p0) (by simp [hevs]) _ rfl) ?_
    intro y hy
    obtain ⟨e, he, hy2⟩ := List.mem_filterMap.1 hy
    exact segA e (List.mem_cons_of_mem _ he) y hy2
  refine ⟨inside_antisymm hAU hUA, fun e he t h0 h1 => ?_⟩
  cases hs : segBox e with
  | some y => exact contains_mono (segA e he y hs) (segBox_contains hsq hs0 e y hs t h0 h1)
  | none =>
    cases e with
    | begin p => cases hs
    | line f p => cases hs
    | quad f c p => cases hs
    | cubic f c1 c2 p => cases hs
    | end_ l f c =>
      cases c with
      | true => cases hs
      | false => exact endA l f false he

/-! ## … and is touched on all four sides -/

/-- every side of the box `y` passes through a point `f t`, `t ∈ [0,1]` -/
def SidesTouched (y : Box K) (f : K → P K) : Prop :=
  (∃ t, 0 ≤ t ∧ t ≤ 1 ∧ (f t).x = y.min.x) ∧ (∃ t, 0 ≤ t ∧ t ≤ 1 ∧ (f t).x = y.max.x) ∧
  (∃ t, 0 ≤ t ∧ t ≤ 1 ∧ (f t).y = y.min.y) ∧ (∃ t, 0 ≤ t ∧ t ≤ 1 ∧ (f t).y = y.max.y)

theorem seg_sample0 (a b : P K) : Seg.sample ⟨a, b⟩ 0 = a := by
  cases a; simp [Seg.sample, P.lerp, Scalar.one, sc_one]

theorem seg_sample1 (a b : P K) : Seg.sample ⟨a, b⟩ 1 = b := by
  cases b; simp [Seg.sample, P.lerp, Scalar.one, sc_one]

theorem seg_sides_touched (a b : P K) : SidesTouched (Seg.boundingBox ⟨a, b⟩) (Seg.sample ⟨a, b⟩) := by
  obtain ⟨h1, h2, h3, h4⟩ := seg_box_touched (⟨a, b⟩ : Seg K)
  have z : (0:K) ≤ 0 ∧ (0:K) ≤ 1 := ⟨le_refl _, zero_le_one⟩
  have o : (0:K) ≤ 1 ∧ (1:K) ≤ 1 := ⟨zero_le_one, le_refl _⟩
  refine ⟨?_, ?_, ?_, ?_⟩
  · rcases h1 with h | h
    · exact ⟨0, z.1, z.2, by rw [seg_sample0]; exact h.symm⟩
    · exact ⟨1, o.1, o.2, by rw [seg_sample1]; exact h.symm⟩
  · rcases h2 with h | h
    · exact ⟨0, z.1, z.2, by rw [seg_sample0]; exact h.symm⟩
    · exact ⟨1, o.1, o.2, by rw [seg_sample1]; exact h.symm⟩
  · rcases h3 with h | h
    · exact ⟨0, z.1, z.2, by rw [seg_sample0]; exact h.symm⟩
    · exact ⟨1, o.1, o.2, by rw [seg_sample1]; exact h.symm⟩
  · rcases h4 with h | h
    · exact ⟨0, z.1, z.2, by rw [seg_sample0]; exact h.symm⟩
    · exact ⟨1, o.1, o.2, by rw [seg_sample1]; exact h.symm⟩

/-- every side of the exact box of a piece passes through a point of the piece -/
theorem segBox_touched (e : FEv K) (y : Box K) (hy : segBox e = some y) : SidesTouched y (evPoint e) := by
  cases e with
  | begin p =>
    cases hy
    exact ⟨⟨0, le_refl _, zero_le_one, rfl⟩, ⟨0, le_refl _, zero_le_one, rfl⟩,
      ⟨0, le_refl _, zero_le_one, rfl⟩, ⟨0, le_refl _, zero_le_one, rfl⟩⟩
  | line f p => cases hy; exact seg_sides_touched f p
  | quad f c p =>
    cases hy
    obtain ⟨⟨a1, a2, a3⟩, ⟨b1, b2, b3⟩, ⟨c1, c2, c3⟩, ⟨d1, d2, d3⟩⟩ := quad_box_touched (⟨f, c, p⟩ : Quad K)
    exact ⟨⟨_, a1, a2, a3⟩, ⟨_, b1, b2, b3⟩, ⟨_, c1, c2, c3⟩, ⟨_, d1, d2, d3⟩⟩
  | cubic f c1 c2 p =>
    cases hy
    obtain ⟨⟨a1, a2, a3⟩, ⟨b1, b2, b3⟩, ⟨g1, g2, g3⟩, ⟨d1, d2, d3⟩⟩ := cubic_box_touched (⟨f, c1, c2, p⟩ : Cubic K)
    exact ⟨⟨_, a1, a2, a3⟩, ⟨_, b1, b2, b3⟩, ⟨_, g1, g2, g3⟩, ⟨_, d1, d2, d3⟩⟩
  | end_ l f c =>
    cases c with
    | false => cases hy
    | true => cases hy; exact seg_sides_touched l f

/-- **The path's box is touched on all four sides**: under the hypotheses of `path_box_is_union`
each side of `aabb::bounding_box` passes through a point of a piece of the
path — the box cannot be made smaller. -/
theorem path_box_touched (hsq : ∀ d : K, 0 ≤ d → Transc.sqrt d * Transc.sqrt d = d)
    (hs0 : ∀ d : K, 0 ≤ d → 0 ≤ Transc.sqrt d) (big : K) (p0 : P K) (r : List (FEv K))
    (hw : WF none (FEv.begin p0 :: r))
    (hfin : -big ≤ p0.x ∧ p0.x < big ∧ -big ≤ p0.y ∧ p0.y ≤ big) :
    (∃ e ∈ FEv.begin p0 :: r, ∃ t, 0 ≤ t ∧ t ≤ 1 ∧ (evPoint e t).x = (pathBox big (FEv.begin p0 :: r)).min.x) ∧
    (∃ e ∈ FEv.begin p0 :: r, ∃ t, 0 ≤ t ∧ t ≤ 1 ∧ (evPoint e t).x = (pathBox big (FEv.begin p0 :: r)).max.x) ∧
    (∃ e ∈ FEv.begin p0 :: r, ∃ t, 0 ≤ t ∧ t ≤ 1 ∧ (evPoint e t).y = (pathBox big (FEv.begin p0 :: r)).min.y) ∧
    (∃ e ∈ FEv.begin p0 :: r, ∃ t, 0 ≤ t ∧ t ≤ 1 ∧ (evPoint e t).y = (pathBox big (FEv.begin p0 :: r)).max.y) := by
  rw [(path_box_is_union hsq hs0 big p0 r hw hfin).1]
  have hU : segUnion (FEv.begin p0 :: r) = (r.filterMap segBox).foldl boxJoin ⟨p0, p0⟩ := by
    unfold segUnion
    rw [List.filterMap_cons]
    simp only [segBox]
    exact unionBoxes_cons _ _
  rw [hU]
  -- every box of the joined list is the exact box of an event of the path
  have src : ∀ x ∈ (⟨p0, p0⟩ : Box K) :: r.filterMap segBox, ∃ e ∈ FEv.begin p0 :: r, segBox e = some x := by
    intro x hx
    rcases List.mem_cons.1 hx with rfl | h
    · exact ⟨FEv.begin p0, List.mem_cons_self, rfl⟩
    · obtain ⟨e, he, hy⟩ := List.mem_filterMap.1 h
      exact ⟨e, List.mem_cons_of_mem _ he, hy⟩
  obtain ⟨⟨x1, m1, e1⟩, ⟨x2, m2, e2⟩, ⟨x3, m3, e3⟩, ⟨x4, m4, e4⟩⟩ :=
    foldl_join_attains (r.filterMap segBox) (⟨p0, p0⟩ : Box K)
  refine ⟨?_, ?_, ?_, ?_⟩
  · obtain ⟨e, he, hy⟩ := src x1 m1
    obtain ⟨t, h0, h1, ht⟩ := (segBox_touched e x1 hy).1
    exact ⟨e, he, t, h0, h1, ht.trans e1.symm⟩
  · obtain ⟨e, he, hy⟩ := src x2 m2
    obtain ⟨t, h0, h1, ht⟩ := (segBox_touched e x2 hy).2.1
    exact ⟨e, he, t, h0, h1, ht.trans e2.symm⟩
  · obtain ⟨e, he, hy⟩ := src x3 m3
    obtain ⟨t, h0, h1, ht⟩ := (segBox_touched e x3 hy).2.2.1
    exact ⟨e, he, t, h0, h1, ht.trans e3.symm⟩
  · obtain ⟨e, he, hy⟩ := src x4 m4
    obtain ⟨t, h0, h1, ht⟩ := (segBox_touched e x4 hy).2.2.2
    exact ⟨e, he, t, h0, h1, ht.trans e4.symm⟩

/-! ## Independence of the history: direction of a segment, order of the pieces -/

/-- two boxes that are each touched by, and each contain, the same point set (given by two
parametrisations that cover each other) are equal -/
theorem box_eq_of_same_points (B1 B2 : Box K) (f1 f2 : K → P K)
    (h12 : ∀ t, 0 ≤ t → t ≤ 1 → ∃ u, 0 ≤ u ∧ u ≤ 1 ∧ f1 t = f2 u)
    (h21 : ∀ t, 0 ≤ t → t ≤ 1 → ∃ u, 0 ≤ u ∧ u ≤ 1 ∧ f2 t = f1 u)
    (c1 : ∀ t, 0 ≤ t → t ≤ 1 → Box.Contains B1 (f1 t)) (c2 : ∀ t, 0 ≤ t → t ≤ 1 → Box.Contains B2 (f2 t))
    (t1 : SidesTouched B1 f1) (t2 : SidesTouched B2 f2) : B1 = B2 := by
  refine inside_antisymm ?_ ?_
  · -- B1 inside B2: every side of B1 is at a point of the set, which B2 contains
    obtain ⟨⟨a, a0, a1, ea⟩, ⟨b, b0, b1, eb⟩, ⟨c, c0, c1', ec⟩, ⟨d, d0, d1, ed⟩⟩ := t1
    obtain ⟨ua, ua0, ua1, ha⟩ := h12 a a0 a1
    obtain ⟨ub, ub0, ub1, hb⟩ := h12 b b0 b1
    obtain ⟨uc, uc0, uc1, hc⟩ := h12 c c0 c1'
    obtain ⟨ud, ud0, ud1, hd⟩ := h12 d d0 d1
    refine ⟨?_, ?_, ?_, ?_⟩
    · rw [← ea, ha]; exact (c2 ua ua0 ua1).1
    · rw [← eb, hb]; exact (c2 ub ub0 ub1).2.1
    · rw [← ec, hc]; exact (c2 uc uc0 uc1).2.2.1
    · rw [← ed, hd]; exact (c2 ud ud0 ud1).2.2.2
  · obtain ⟨⟨a, a0, a1, ea⟩, ⟨b, b0, b1, eb⟩, ⟨c, c0, c1', ec⟩, ⟨d, d0, d1, ed⟩⟩ := t2
    obtain ⟨ua, ua0, ua1, ha⟩ := h21 a a0 a1
    obtain ⟨ub, ub0, ub1, hb⟩ := h21 b b0 b1
    obtain ⟨uc, uc0, uc1, hc⟩ := h21 c c0 c1'
    obtain ⟨ud, ud0, ud1, hd⟩ := h21 d d0 d1
    refine ⟨?_, ?_, ?_, ?_⟩
    · rw [← ea, ha]; exact (c1 ua ua0 ua1).1
    · rw [← eb, hb]; exact (c1 ub ub0 ub1).2.1
    · rw [← ec, hc]; exact (c1 uc uc0 uc1).2.2.1
    · rw [← ed, hd]; exact (c1 ud ud0 ud1).2.2.2

theorem quad_sample_flip (a c b : P K) (t : K) :
    (⟨b, c, a⟩ : Quad K).sample t = (⟨a, c, b⟩ : Quad K).sample (1 - t) := by
  geom_ring

theorem cubic_sample_flip (a c1 c2 b : P K) (t : K) :
    (⟨b, c2, c1, a⟩ : Cubic K).sample t = (⟨a, c1, c2, b⟩ : Cubic K).sample (1 - t) := by
  geom_ring

/-- **The exact box of a quadratic does not depend on the direction it is drawn in** (what
`Path::reversed` does to the segment) -/
theorem quad_box_reverse (a c b : P K) :
    Quad.boundingBox (⟨b, c, a⟩ : Quad K) = Quad.boundingBox (⟨a, c, b⟩ : Quad K) := by
  have tq : ∀ q : Quad K, SidesTouched q.boundingBox q.sample := fun q => by
    obtain ⟨⟨a1, a2, a3⟩, ⟨b1, b2, b3⟩, ⟨c1, c2, c3⟩, ⟨d1, d2, d3⟩⟩ := quad_box_touched q
    exact ⟨⟨_, a1, a2, a3⟩, ⟨_, b1, b2, b3⟩, ⟨_, c1, c2, c3⟩, ⟨_, d1, d2, d3⟩⟩
  refine box_eq_of_same_points _ _ (⟨b, c, a⟩ : Quad K).sample (⟨a, c, b⟩ : Quad K).sample ?_ ?_
    (fun t h0 h1 => quad_box_contains _ t h0 h1) (fun t h0 h1 => quad_box_contains _ t h0 h1) (tq _) (tq _)
  · intro t h0 h1
    exact ⟨1 - t, by linarith, by linarith, quad_sample_flip a c b t⟩
  · intro t h0 h1
    refine ⟨1 - t, by linarith, by linarith, ?_⟩
    rw [quad_sample_flip a c b (1 - t)]; congr 1; ring

/-- **The exact box of a cubic does not depend on the direction it is drawn in** -/
theorem cubic_box_reverse (hsq : ∀ d : K, 0 ≤ d → Transc.sqrt d * Transc.sqrt d = d)
    (hs0 : ∀ d : K, 0 ≤ d → 0 ≤ Transc.sqrt d) (a c1 c2 b : P K) :
    Cubic.boundingBox (⟨b, c2, c1, a⟩ : Cubic K) = Cubic.boundingBox (⟨a, c1, c2, b⟩ : Cubic K) := by
  have tq : ∀ q : Cubic K, SidesTouched q.boundingBox q.sample := fun q => by
    obtain ⟨⟨a1, a2, a3⟩, ⟨b1, b2, b3⟩, ⟨g1, g2, g3⟩, ⟨d1, d2, d3⟩⟩ := cubic_box_touched q
    exact ⟨⟨_, a1, a2, a3⟩, ⟨_, b1, b2, b3⟩, ⟨_, g1, g2, g3⟩, ⟨_, d1, d2, d3⟩⟩
  refine box_eq_of_same_points _ _ (⟨b, c2, c1, a⟩ : Cubic K).sample (⟨a, c1, c2, b⟩ : Cubic K).sample ?_ ?_
    (fun t h0 h1 => cubic_box_contains hsq hs0 _ t h0 h1) (fun t h0 h1 => cubic_box_contains hsq hs0 _ t h0 h1)
    (tq _) (tq _)
  · intro t h0 h1
    exact ⟨1 - t, by linarith, by linarith, cubic_sample_flip a c1 c2 b t⟩
  · intro t h0 h1
    refine ⟨1 - t, by linarith, by linarith, ?_⟩
    rw [cubic_sample_flip a c1 c2 b (1 - t)]; congr 1; ring

/-- **The box depends on the pieces only, not on the history**: two paths (event lists as
`Path::iter` yields them, finite first points) whose pieces have the same exact boxes — in any
order, any multiplicity — get the same box from `aabb::bounding_box`. -/
theorem path_box_eq_of_same_pieces (hsq : ∀ d : K, 0 ≤ d → Transc.sqrt d * Transc.sqrt d = d)
    (hs0 : ∀ d : K, 0 ≤ d → 0 ≤ Transc.sqrt d) (big : K) (p0 q0 : P K) (r s : List (FEv K))
    (hw1 : WF none (FEv.begin p0 :: r)) (hw2 : WF none (FEv.begin q0 :: s))
    (hf1 : -big ≤ p0.x ∧ p0.x < big ∧ -big ≤ p0.y ∧ p0.y ≤ big)
    (hf2 : -big ≤ q0.x ∧ q0.x < big ∧ -big ≤ q0.y ∧ q0.y ≤ big)
    (same : ∀ y, y ∈ (FEv.begin p0 :: r).filterMap segBox ↔ y ∈ (FEv.begin q0 :: s).filterMap segBox) :
    pathBox big (FEv.begin p0 :: r) = pathBox big (FEv.begin q0 :: s) := by
  rw [(path_box_is_union hsq hs0 big p0 r hw1 hf1).1, (path_box_is_union hsq hs0 big q0 s hw2 hf2).1]
  have hU : ∀ (p : P K) (l : List (FEv K)),
      segUnion (FEv.begin p :: l) = (l.filterMap segBox).foldl boxJoin ⟨p, p⟩ ∧
      (FEv.begin p :: l).filterMap segBox = (⟨p, p⟩ : Box K) :: l.filterMap segBox := by
    intro p l
    have e : (FEv.begin p :: l).filterMap segBox = (⟨p, p⟩ : Box K) :: l.filterMap segBox := by
      rw [List.filterMap_cons]; simp only [segBox]
    refine ⟨?_, e⟩
    unfold segUnion
    rw [e]
    exact unionBoxes_cons _ _
  -- a join lies in any box that contains all the joined boxes, and contains each of them
  have key : ∀ (p q : P K) (l m : List (FEv K)),
      (∀ y, y ∈ (FEv.begin p :: l).filterMap segBox → y ∈ (FEv.begin q :: m).filterMap segBox) →
      Box.Inside (segUnion (FEv.begin p :: l)) (segUnion (FEv.begin q :: m)) := by
    intro p q l m h
    have mem : ∀ y ∈ (FEv.begin q :: m).filterMap segBox, Box.Inside y (segUnion (FEv.begin q :: m)) := by
      intro y hy
      rw [(hU q m).1]
      rw [(hU q m).2] at hy
      obtain ⟨j1, j2⟩ := foldl_join_inside (m.filterMap segBox) ⟨q, q⟩
      rcases List.mem_cons.1 hy with rfl | hy
      · exact j1
      · exact j2 y hy
    rw [(hU p l).1]
    refine foldl_join_least _ _ _ (mem _ (h _ ?_)) (fun y hy => mem _ (h _ ?_))
    · rw [(hU p l).2]; exact List.mem_cons_self
    · rw [(hU p l).2]; exact List.mem_cons_of_mem _ hy
  exact inside_antisymm (key p0 q0 r s (fun y => (same y).1)) (key q0 p0 s r (fun y => (same y).2))

/-! ## `Path::reversed` gets the same box -/

/-- lyon's builder protocol on the event list: `Begin` only outside a sub-path, segments and `End`
only inside one, and the last sub-path is ended (`open` = inside a sub-path) -/
def Ended : Bool → List (FEv K) → Prop
  | false, [] => True
  | true, [] => False
  | false, FEv.begin _ :: r => Ended true r
  | true, FEv.begin _ :: _ => False
  | true, FEv.line _ _ :: r => Ended true r
  | true, FEv.quad _ _ _ :: r => Ended true r
  | true, FEv.cubic _ _ _ _ :: r => Ended true r
  | true, FEv.end_ _ _ _ :: r => Ended false r
  | false, FEv.line _ _ :: _ => False
  | false, FEv.quad _ _ _ :: _ => False
  | false, FEv.cubic _ _ _ _ :: _ => False
  | false, FEv.end_ _ _ _ :: _ => False

/-- lyon's builder protocol on the calls: `begin` only outside a sub-path, `*_to` and `end` only
inside one, the last sub-path ended (what `path::Builder` with its validator accepts) -/
def CmdsOk : Bool → List (PCmd K) → Prop
  | false, [] => True
  | true, [] => False
  | false, PCmd.begin _ :: r => CmdsOk true r
  | true, PCmd.begin _ :: _ => False
  | true, PCmd.lineTo _ :: r => CmdsOk true r
  | true, PCmd.quadTo _ _ :: r => CmdsOk true r
  | true, PCmd.cubicTo _ _ _ :: r => CmdsOk true r
  | true, PCmd.end_ _ :: r => CmdsOk false r
  | false, PCmd.lineTo _ :: _ => False
  | false, PCmd.quadTo _ _ :: _ => False
  | false, PCmd.cubicTo _ _ _ :: _ => False
  | false, PCmd.end_ _ :: _ => False

/-- the events of a call sequence that follows the builder protocol follow it too -/
theorem events_ended (cmds : List (PCmd K)) : ∀ (open_ : Bool) (cur first : P K),
    CmdsOk open_ cmds → Ended open_ (eventsFrom cur first cmds) := by
  induction cmds with
  | nil => intro o _ _ h; cases o <;> simp_all [CmdsOk, Ended, eventsFrom]
  | cons c r ih =>
    intro o cur first h
    cases c <;> cases o <;> simp only [CmdsOk] at h <;> first
      | exact h.elim
      | (simp only [eventsFrom, Ended]; exact ih _ _ _ h)

/-- what `Reversed::next` makes of an event, apart from the `End`s it emits for the `Begin`s -/
def flipEv : FEv K → Option (FEv K)
  | .begin _ => none
  | .line f p => some (.line p f)
  | .quad f c p => some (.quad p c f)
  | .cubic f c1 c2 p => some (.cubic p c2 c1 f)
  | .end_ l _ _ => some (.begin l)

theorem reversedGo_mem (l : List (FEv K)) : ∀ (first : P K) (close : Bool),
    ∀ e ∈ l, ∀ e2, flipEv e = some e2 → e2 ∈ reversedGo first close l := by
  induction l with
  | nil => intro _ _ e he; cases he
  | cons a r ih =>
    intro first close e he e2 h2
    rcases List.mem_cons.1 he with rfl | h
    · cases e <;> simp only [flipEv, Option.some.injEq, reduceCtorEq] at h2 <;> subst h2 <;>
        simp [reversedGo]
    · cases a <;> simp only [reversedGo, List.mem_cons] <;> right <;> exact ih _ _ e h e2 h2

theorem reversedGo_src (l : List (FEv K)) : ∀ (first : P K) (close : Bool),
    ∀ e2 ∈ reversedGo first close l, (∃ e ∈ l, flipEv e = some e2) ∨ ∃ a b c, e2 = FEv.end_ a b c := by
  induction l with
  | nil => intro _ _ e he; cases he
  | cons a r ih =>
    intro first close e2 he
    have lift : ∀ f c, e2 ∈ reversedGo f c r →
        (∃ e ∈ a :: r, flipEv e = some e2) ∨ ∃ a b c, e2 = FEv.end_ a b c := by
      intro f c h
      rcases ih f c e2 h with ⟨e, he, hf⟩ | h
      · exact Or.inl ⟨e, List.mem_cons_of_mem _ he, hf⟩
      · exact Or.inr h
    cases a with
    | begin p =>
      rcases List.mem_cons.1 he with rfl | h
      · exact Or.inr ⟨_, _, _, rfl⟩
      · exact lift _ _ h
    | line f p =>
      rcases List.mem_cons.1 he with rfl | h
      · exact Or.inl ⟨_, List.mem_cons_self, rfl⟩
      · exact lift _ _ h
    | quad f c p =>
      rcases List.mem_cons.1 he with rfl | h
      · exact Or.inl ⟨_, List.mem_cons_self, rfl⟩
      · exact lift _ _ h
    | cubic f c1 c2 p =>
      rcases List.mem_cons.1 he with rfl | h
      · exact Or.inl ⟨_, List.mem_cons_self, rfl⟩
      · exact lift _ _ h
    | end_ l0 f0 c0 =>
      rcases List.mem_cons.1 he with rfl | h
      · exact Or.inl ⟨_, List.mem_cons_self, rfl⟩
      · exact lift _ _ h

/-- the box `Y` covers what the reversed path's fold takes from the reversed image of an event -/
def RevCovers (Y : Box K) : FEv K → Prop
  | .begin _ => True
  | .line f _ => Box.Contains Y f
  | .quad f c p => Box.Inside (Quad.boundingBox ⟨f, c, p⟩) Y
  | .cubic f c1 c2 p => Box.Inside (Cubic.boundingBox ⟨f, c1, c2, p⟩) Y
  | .end_ l _ _ => Box.Contains Y l

theorem quad_box_contains_start (f c p : P K) : Box.Contains (Quad.boundingBox ⟨f, c, p⟩) f := by
  have hx := q1_range_contains f.x c.x p.x 0 (le_refl _) zero_le_one
  have hy := q1_range_contains f.y c.y p.y 0 (le_refl _) zero_le_one
  rw [q1_ev0] at hx hy
  exact ⟨hx.1, hx.2, hy.1, hy.2⟩

theorem cubic_box_contains_start (f c1 c2 p : P K) : Box.Contains (Cubic.boundingBox ⟨f, c1, c2, p⟩) f := by
  have hx := ((c1_range_partial f.x c1.x c2.x p.x).2.2 0 (Or.inl rfl))
  have hy := ((c1_range_partial f.y c1.y c2.y p.y).2.2 0 (Or.inl rfl))
  rw [c1_ev0] at hx hy
  exact ⟨hx.1, hx.2, hy.1, hy.2⟩

/-- **every point the forward fold relies on is recorded by the NEXT event of the reversed path**:
in a list that follows the builder protocol, the end point of an event is the `from` of the next
segment or the `last` of the next `End` — which is what the reversed path's fold reads there -/
theorem tight_inside_of_revCovers (Y : Box K) (l : List (FEv K)) : ∀ (st : Option (P K × P K)) (open_ : Bool),
    WF st l → Ended open_ l → (∀ e ∈ l, RevCovers Y e) →
    (open_ = true → ∀ cur first, st = some (cur, first) → Box.Contains Y cur) ∧
    (∀ e ∈ l, ∀ x, tightBox (toPEv e) = some x → Box.Inside x Y) := by
  induction l with
  | nil =>
    intro st open_ _ he _
    refine ⟨fun ho => ?_, fun e h => by cases h⟩
    subst ho; exact absurd he (by simp [Ended])
  | cons a r ih =>
    intro st open_ hw he hc
    have hcr : ∀ e ∈ r, RevCovers Y e := fun e h => hc e (List.mem_cons_of_mem _ h)
    have ha := hc a List.mem_cons_self
    cases a with
    | begin p =>
      cases open_ with
      | true => exact absurd he (by simp [Ended])
      | false =>
        obtain ⟨i1, i2⟩ := ih (some (p, p)) true hw he hcr
        have hp : Box.Contains Y p := i1 rfl p p rfl
        refine ⟨(fun ho => by cases ho), fun e h x hx => ?_⟩
        rcases List.mem_cons.1 h with rfl | h
        · cases hx; exact hp
        · exact i2 e h x hx
    | line f p =>
      cases open_ with
      | false => exact absurd he (by simp [Ended])
      | true =>
        rcases st with _ | ⟨cur, first⟩
        · exact absurd hw (by simp [WF])
        · obtain ⟨hf, hw2⟩ := hw
          obtain ⟨i1, i2⟩ := ih (some (p, first)) true hw2 he hcr
          have hp : Box.Contains Y p := i1 rfl p first rfl
          refine ⟨fun _ c2 f2 h => ?_, fun e h x hx => ?_⟩
          · cases h; rw [← hf]; exact ha
          · rcases List.mem_cons.1 h with rfl | h
            · cases hx; exact hp
            · exact i2 e h x hx
    | quad f c p =>
      cases open_ with
      | false => exact absurd he (by simp [Ended])
      | true =>
        rcases st with _ | ⟨cur, first⟩
        · exact absurd hw (by simp [WF])
        · obtain ⟨hf, hw2⟩ := hw
          obtain ⟨i1, i2⟩ := ih (some (p, first)) true hw2 he hcr
          refine ⟨fun _ c2 f2 h => ?_, fun e h x hx => ?_⟩
          · cases h; rw [← hf]; exact contains_mono ha (quad_box_contains_start f c p)
          · rcases List.mem_cons.1 h with rfl | h
            · cases hx; exact ha
            · exact i2 e h x hx
    | cubic f c1 c2 p =>
      cases open_ with
      | false => exact absurd he (by simp [Ended])
      | true =>
        rcases st with _ | ⟨cur, first⟩
        · exact absurd hw (by simp [WF])
        · obtain ⟨hf, hw2⟩ := hw
          obtain ⟨i1, i2⟩ := ih (some (p, first)) true hw2 he hcr
          refine ⟨fun _ c3 f2 h => ?_, fun e h x hx => ?_⟩
          · cases h; rw [← hf]; exact contains_mono ha (cubic_box_contains_start f c1 c2 p)
          · rcases List.mem_cons.1 h with rfl | h
            · cases hx; exact ha
            · exact i2 e h x hx
    | end_ l0 f0 c0 =>
      cases open_ with
      | false => exact absurd he (by simp [Ended])
      | true =>
        rcases st with _ | ⟨cur, first⟩
        · exact absurd hw (by simp [WF])
        · obtain ⟨hl, hf, hw2⟩ := hw
          obtain ⟨i1, i2⟩ := ih (some (cur, first)) false hw2 he hcr
          refine ⟨fun _ c2 f2 h => ?_, fun e h x hx => ?_⟩
          · cases h; rw [← hl]; exact ha
          · rcases List.mem_cons.1 h with rfl | h
            · cases hx
            · exact i2 e h x hx

/-- **`aabb::bounding_box` of `Path::reversed` is the box of the path** — for every event list
`Path::iter` can yield for a path built through lyon's builder (`WF`, `Ended`): the reversed path
traverses every segment backwards and emits the events in the opposite order (each sub-path begins
at its former last endpoint), the fold reads other fields of other events in another order, and
the result is the same box.  No finiteness hypothesis: both folds start from the same sentinel.
(The `sqrt` laws are used for the cubics only.) -/
theorem path_box_reversed (hsq : ∀ d : K, 0 ≤ d → Transc.sqrt d * Transc.sqrt d = d)
    (hs0 : ∀ d : K, 0 ≤ d → 0 ≤ Transc.sqrt d) (big : K) (evs : List (FEv K))
    (hw : WF none evs) (he : Ended false evs) :
    pathBox big (reversed evs) = pathBox big evs := by
  have hA := aabb_fold (Aabb.start big) (evs.map toPEv)
  have hB := aabb_fold (Aabb.start big) ((reversed evs).map toPEv)
  suffices h : ((reversed evs).map toPEv).foldl Aabb.tightStep (Aabb.start big) =
      (evs.map toPEv).foldl Aabb.tightStep (Aabb.start big) by
    unfold pathBox Aabb.boundingBox; rw [h]
  set A := (evs.map toPEv).foldl Aabb.tightStep (Aabb.start big) with hAdef
  set B := ((reversed evs).map toPEv).foldl Aabb.tightStep (Aabb.start big) with hBdef
  have memA : ∀ e ∈ evs, ∀ x, tightBox (toPEv e) = some x → Box.Inside x A := by
    intro e he x hx
    rw [hA]
    exact (foldl_join_inside _ _).2 x (List.mem_filterMap.2 ⟨toPEv e, List.mem_map.2 ⟨e, he, rfl⟩, hx⟩)
  have memB : ∀ e ∈ reversed evs, ∀ x, tightBox (toPEv e) = some x → Box.Inside x B := by
    intro e he x hx
    rw [hB]
    exact (foldl_join_inside _ _).2 x (List.mem_filterMap.2 ⟨toPEv e, List.mem_map.2 ⟨e, he, rfl⟩, hx⟩)
  have startA : Box.Inside (Aabb.start big) A := by rw [hA]; exact (foldl_join_inside _ _).1
  have startB : Box.Inside (Aabb.start big) B := by rw [hB]; exact (foldl_join_inside _ _).1
  have flipIn : ∀ e ∈ evs, ∀ e2, flipEv e = some e2 → e2 ∈ reversed evs := fun e he e2 h2 =>
    reversedGo_mem evs.reverse _ _ e (List.mem_reverse.2 he) e2 h2
  obtain ⟨segA, endA⟩ := segBox_inside_of_tight A evs none (fun _ _ h => by cases h) hw memA
  refine inside_antisymm ?_ ?_
  · -- what the reversed fold takes lies in the forward box
    rw [hB]
    refine foldl_join_least _ _ _ startA ?_
    intro x hx
    obtain ⟨pe, hpe, hx2⟩ := List.mem_filterMap.1 hx
    obtain ⟨e2, he2, rfl⟩ := List.mem_map.1 hpe
    rcases reversedGo_src evs.reverse _ _ e2 he2 with ⟨e, hem, hf⟩ | ⟨a, b, c, rfl⟩
    · have hem2 : e ∈ evs := List.mem_reverse.1 hem
      cases e with
      | begin p => cases hf
      | line f p =>
        cases hf; cases hx2
        have hin := segA (FEv.line f p) hem2 _ rfl
        have hc : Box.Contains (Seg.boundingBox ⟨f, p⟩) f := by
          have := (seg_box ⟨f, p⟩).2 0 (le_refl _) zero_le_one
          rw [seg_sample0] at this; exact this
        exact contains_mono hin hc
      | quad f c p =>
        cases hf; cases hx2
        rw [quad_box_reverse f c p]
        exact segA (FEv.quad f c p) hem2 _ rfl
      | cubic f c1 c2 p =>
        cases hf; cases hx2
        rw [cubic_box_reverse hsq hs0 f c1 c2 p]
        exact segA (FEv.cubic f c1 c2 p) hem2 _ rfl
      | end_ l0 f0 c0 =>
        cases hf; cases hx2
        exact endA l0 f0 c0 hem2
    · cases hx2
  · -- what the forward fold takes lies in the reversed box
    rw [hA]
    refine foldl_join_least _ _ _ startB ?_
    have cov : ∀ e ∈ evs, RevCovers B e := by
      intro e hem
      cases e with
      | begin p => trivial
      | line f p => exact memB _ (flipIn _ hem _ rfl) _ rfl
      | quad f c p =>
        have := memB _ (flipIn _ hem _ rfl) _ rfl
        rw [quad_box_reverse f c p] at this
        exact this
      | cubic f c1 c2 p =>
        have := memB _ (flipIn _ hem _ rfl) _ rfl
        rw [cubic_box_reverse hsq hs0 f c1 c2 p] at this
        exact this
      | end_ l0 f0 c0 => exact memB _ (flipIn _ hem _ rfl) _ rfl
    obtain ⟨_, tl⟩ := tight_inside_of_revCovers B evs none false hw he cov
    intro x hx
    obtain ⟨pe, hpe, hx2⟩ := List.mem_filterMap.1 hx
    obtain ⟨e, hem, rfl⟩ := List.mem_map.1 hpe
    exact tl e hem x hx2

/-- **A flat curve that is the unique extreme of its path counts**: the modelled fold gives
`M 0 0 L 10 5 Q 15 5 20 5 Z` (a closed path whose last segment is an exactly horizontal quadratic
reaching beyond everything drawn before; nothing after it mentions `(20,5)` again) the box
`(0,0)-(20,5)` — evaluated on the model itself over ℚ. -/
theorem path_box_flat_curve_instance : @pathBox ℚ _ toyTransc 1000
      [FEv.begin ⟨0, 0⟩, FEv.line ⟨0, 0⟩ ⟨10, 5⟩, FEv.quad ⟨10, 5⟩ ⟨15, 5⟩ ⟨20, 5⟩, FEv.end_ ⟨20, 5⟩ ⟨0, 0⟩ true]
    = ⟨⟨0, 0⟩, ⟨20, 5⟩⟩ := by
  let _ := toyTransc
  simp only [pathBox, List.map, toPEv, Aabb.boundingBox, List.foldl, Aabb.tightStep, Aabb.start, Aabb.finish,
    Quad.boundingBox, Quad.boundingRangeX, Quad.boundingRangeY, Box.ofRanges, Quad1.range, Quad1.minT, Quad1.maxT,
    Quad1.localExt, Quad1.div, Quad1.extT, Quad1.endMin, Quad1.endMax, Quad1.ev, P.pmin, P.pmax, emin_eq, emax_eq]
  norm_num [Scalar.two, Scalar.one, Scalar.zero]
  show P.beq _ _ = false
  simp [P.beq]

/-! ## Non-vacuity -/

/-- a well-formed, closed path with a FLAT (exactly horizontal) quadratic as its last segment — the
shape for which a fold step that consults the box accumulated so far goes wrong — satisfies the
hypotheses of `path_box_is_union` / `path_box_touched` (with `big = 1000`) -/
example : WF (K := ℚ) none
      [FEv.begin ⟨0, 0⟩, FEv.line ⟨0, 0⟩ ⟨10, 5⟩, FEv.quad ⟨10, 5⟩ ⟨15, 5⟩ ⟨20, 5⟩, FEv.end_ ⟨20, 5⟩ ⟨0, 0⟩ true] ∧
    (-(1000:ℚ) ≤ 0 ∧ (0:ℚ) < 1000 ∧ -(1000:ℚ) ≤ 0 ∧ (0:ℚ) ≤ 1000) := by
  refine ⟨by simp [WF], by norm_num⟩

/-- … and follows the builder protocol (`path_box_reversed`) -/
example : Ended (K := ℚ) false
      [FEv.begin ⟨0, 0⟩, FEv.line ⟨0, 0⟩ ⟨10, 5⟩, FEv.quad ⟨10, 5⟩ ⟨15, 5⟩ ⟨20, 5⟩, FEv.end_ ⟨20, 5⟩ ⟨0, 0⟩ true] := by
  simp [Ended]

/-- that list is what `Path::iter` yields for the builder calls `M 0 0 L 10 5 Q 15 5 20 5 Z` -/
example : events (α := ℚ) [PCmd.begin ⟨0, 0⟩, PCmd.lineTo ⟨10, 5⟩, PCmd.quadTo ⟨15, 5⟩ ⟨20, 5⟩, PCmd.end_ true] =
    [FEv.begin ⟨0, 0⟩, FEv.line ⟨0, 0⟩ ⟨10, 5⟩, FEv.quad ⟨10, 5⟩ ⟨15, 5⟩ ⟨20, 5⟩, FEv.end_ ⟨20, 5⟩ ⟨0, 0⟩ true] := by
  simp [events, eventsFrom]

/-- `path_box_eq_of_same_pieces`: two different histories with the same pieces (a sub-path order
swap) -/
example : ∀ y : Box ℚ,
    y ∈ ([FEv.begin ⟨0, 0⟩, FEv.end_ ⟨0, 0⟩ ⟨0, 0⟩ false, FEv.begin ⟨1, 2⟩, FEv.end_ ⟨1, 2⟩ ⟨1, 2⟩ false] :
        List (FEv ℚ)).filterMap (@segBox ℚ _ toyTransc) ↔
    y ∈ ([FEv.begin ⟨1, 2⟩, FEv.end_ ⟨1, 2⟩ ⟨1, 2⟩ false, FEv.begin ⟨0, 0⟩, FEv.end_ ⟨0, 0⟩ ⟨0, 0⟩ false] :
        List (FEv ℚ)).filterMap (@segBox ℚ _ toyTransc) := by
  intro y
  simp [List.filterMap_cons, segBox, or_comm]

/-- `box_eq_of_same_points`: a parameter and its mirror image are both in range -/
example : (0:ℚ) ≤ 1 - 1/3 ∧ (1:ℚ) - 1/3 ≤ 1 := by norm_num


end Lyon.C11
