/-
  C12d — `utils::cubic_polynomial_roots` is sound AND complete (exact arithmetic), all branches of
  the Cardano part; lifted to "a line that crosses a cubic transversally is reported at each crossing".

  Model functions: `Roots.*`, `Cubic.lineIntersectionsT` of `Model/Geom/Intersect.lean` (the `def`s
  the tie runs at `Float32`/`Float` against lyon), instantiated at an arbitrary linearly ordered
  field `K`.  `sqrt`, `pow`, `cos`, `acos`, `π` are parameters; the laws used are hypotheses:
    sqrt:  `0 ≤ sqrt x`, `sqrt x · sqrt x = x`            (x ≥ 0)
    pow:   `(pow x (1/3))³ = x`                            (x ≥ 0)
    cos:   `CosLaws K` (`Lemmas/CubicRootsTrig.lean`): `cos(x+y) + cos(x−y) = 2 cos x cos y`,
           `cos 0 = 1`, `cos(2π/3) = −1/2`, `cos(x + 2π) = cos x`, `cos(acos x) = x` on `[−1,1]`
  All of them are discharged for Mathlib's real functions in `Props/C12Real.lean`.

  Notation: `δ₀ = delta0 bn cn`, `δ₁ = delta1 bn cn dn`, `Δ = delta01 δ₀ δ₁ = δ₀³ + δ₁²` for the
  normalised cubic `x³ + bn x² + cn x + dn`, `bn = b/a` ….  "Regime" = `¬ |a| < ε` (the code's own
  test for treating `a` as non-zero); for `0 < |a| < ε` the code solves the TRUNCATED polynomial and
  nothing below applies.

  * `cubic_roots_trig_sound`      Δ < 0 (as the code tests it): every returned value is a root
                                  (laws: sqrt, `cos∘acos`, triple angle, period — exactly those)
  * `cubic_roots_trig_distinct`   Δ < 0: exactly three values, pairwise distinct, each a root
  * `cubic_roots_trig_complete`   Δ < 0: every root of the cubic is returned (with
                                  `CubicRoots.cubic_at_most_three_roots`)
  * `cubic_roots_trig_iff`        Δ < 0: `x ∈ result ↔ x is a root`
  * `cardano_st`                  Δ ≥ 0: `s·t = −δ₀`
  * `cardano_s_eq_t_iff`          Δ ≥ 0: `s = t ↔ Δ = 0`
  * `cubic_roots_cardano_complete` Δ > 0: the head of the result is THE root (no other root exists)
  * `cubic_roots_cardano_shape`   Δ ≥ 0: the result is `[x₁]` or `[x₁, x₂]`, `x₂` present iff
                                  `|s − t| < ε' ∧ |s + t| ≥ ε'`
  * `cardano_repeated_value`      the value of the cubic at `x₂` is `−(9/8)·a·(s+t)·(s−t)²`
  * `cardano_repeated_root_iff`   `x₂` (when returned) is a root iff `Δ = 0`: for `Δ > 0` the optional
                                  value is NOT a root in exact arithmetic (it is the real part of the
                                  complex pair, whose imaginary part is `(√3/2)|s − t| < ε'`)
  * `cubic_roots_disc_zero`       Δ = 0: the roots are `x₁` and the double root `x₂` (derivative 0)
  * `cubic_roots_complete_linear`, `cubic_roots_complete_quadratic`   `a = 0` (`a = b = 0`) exactly
  * `cubic_roots_simple_complete` regime: EVERY SIMPLE ROOT (derivative ≠ 0) is returned, whatever Δ
  * `cubic_roots_simple_complete_exact_degree`  the same whenever the degree decision is exact
  * `cubic_roots_complete`        regime, Δ ≠ 0: every root is returned
  * `cubic_roots_sound_or_repeated`  regime: every returned value is a root or the optional `x₂` of Δ > 0
  * `cubic_roots_exact_regime_iff`   the regime in which ALL branch decisions are exact: result = roots

  cubic × line / segment (`Cubic.lineIntersectionsT`, `Cubic.lineSegmentIntersectionsT`):
  * `cubic_line_poly_deriv`       derivative of the composed polynomial = −(vector × curve derivative)
  * `cubic_line_transversal_crossing_reported` (`…_exact_degree`)  every transversal crossing in
                                  `[0,1]` is in the answer
  * `cubic_line_reported_on_line_or_near`  soundness: reported ⟹ in `[0,1]` and on the line, or the
                                  optional value of Δ > 0 at signed distance `(9/8)·A·(s+t)·(s−t)²`
  * `cubic_line_outside_regime_flat`  three crossings although `|A| < ε`: the whole curve is within
                                  `ε` of the line (and all coefficients are below `3ε`)
  * `cubic_line_crossings_reported`  crossings at `t₁ < t₂ < t₃`: the answer has length 3, no
                                  duplicates, members exactly `t₁, t₂, t₃`, nothing filtered out
  * `cubic_segment_transversal_crossing_reported`   `(t, u)` reported for a transversal crossing at
                                  `t ∈ (0,1)`, `u ∈ [0,1]` (box early-out not taken, range test on
                                  the major axis passed, second parameter `|p − from|/|to − from| = u`)
  * `cubic_segment_crossings_reported`  three carrier-line crossings: the answer is exactly the set of
                                  `(tᵢ, u)`, `u ∈ [0,1]`, `curve(tᵢ) = segment(u)`

  Non-vacuity: the law hypotheses are satisfied by Mathlib's real functions (`C12Real.real_cosLaws`,
  `real_sqrt_*`, `real_cbrt_pow`), the regime / discriminant / crossing hypotheses by the concrete
  instances at the end of `Props/C12Real.lean` (`three_crossings_evaluated_real`,
  `segment_crossing_evaluated_real` and the examples for Δ < 0, Δ > 0, Δ = 0); the arithmetic
  conditions also by the `example`s over ℚ below.
-/
import LyonVerif.Lemmas.CubicRootsTrig
import LyonVerif.Lemmas.CubicRootsSeg

set_option linter.unusedSectionVars false
set_option linter.unusedVariables false

namespace Lyon.C12d
open Lyon Scalar Lyon.Ix Lyon.C12 Lyon.CubicRoots
variable {K : Type} [Field K] [LinearOrder K] [IsStrictOrderedRing K] [Transc K] [Eps K]

/-! ### normal forms -/

theorem zero_eq : (Scalar.zero : K) = 0 := by simp [Scalar.zero]

theorem delta01_eq (d0 d1 : K) : Roots.delta01 d0 d1 = d0 ^ 3 + d1 ^ 2 := by
  unfold Roots.delta01; ring

/-- `x = y − bn/3`: the normalised cubic in `x` is the depressed cubic in `y` (the form of
`depressed_eq` with the subtraction written as the trigonometric branch writes it) -/
theorem depressed_sub (bn cn dn y : K) :
    (y - bn / 3) ^ 3 + bn * (y - bn / 3) ^ 2 + cn * (y - bn / 3) + dn
      = y ^ 3 + 3 * Roots.delta0 bn cn * y - 2 * Roots.delta1 bn cn dn := by
  have h := depressed_eq bn cn dn y
  rw [frac13_eq] at h
  rw [← h]; ring

/-- the raw cubic is `a` times the normalised one -/
theorem normalised (a b c d x : K) (ha : a ≠ 0) :
    a * x ^ 3 + b * x ^ 2 + c * x + d = a * (x ^ 3 + b / a * x ^ 2 + c / a * x + d / a) := by
  field_simp

theorem regime_ne_zero (e a : K) (he : 0 < e) (ha : ¬ |a| < e) : a ≠ 0 := by
  intro h; apply ha; rw [h, abs_zero]; exact he

/-- in the regime the root finder is the Cardano part on the normalised coefficients -/
theorem rootsWith_regime (e a b c d : K) (ha : ¬ |a| < e) :
    Roots.rootsWith e a b c d = Roots.cardano (b / a) (c / a) (d / a) := by
  unfold Roots.rootsWith
  rw [if_neg (by rw [sc_abs]; exact ha)]

theorem cardano_neg (bn cn dn : K) (hD : Roots.delta01 (Roots.delta0 bn cn) (Roots.delta1 bn cn dn) < 0) :
    Roots.cardano bn cn dn = Roots.cardano3 bn (Roots.delta0 bn cn) (Roots.delta1 bn cn dn) := by
  unfold Roots.cardano
  rw [if_neg (by rw [zero_eq]; exact not_le.mpr hD)]

theorem cardano_nonneg (bn cn dn : K) (hD : 0 ≤ Roots.delta01 (Roots.delta0 bn cn) (Roots.delta1 bn cn dn)) :
    Roots.cardano bn cn dn
      = Roots.cardano1 (Roots.epsN bn cn dn) bn (Roots.delta0 bn cn) (Roots.delta1 bn cn dn) := by
  unfold Roots.cardano
  rw [if_pos (by rw [zero_eq]; exact hD)]

/-! ### the trigonometric branch, `Δ < 0` -/

section trig

/-- **Soundness of the three-real-roots branch** for the normalised cubic: with the discriminant
condition as the code tests it (`δ₀³ + δ₁² < 0`), each of the three values `cardano` returns is a
root of `x³ + bn x² + cn x + dn`.  Laws used: the two sqrt laws, `cos(acos x) = x` on `[−1,1]`, the
triple-angle identity, `cos(x + 2π) = cos x` (the model's angles are `(θ + 2kπ)·(1/3)`). -/
theorem cardano_trig_sound (hs0 : ∀ x : K, 0 ≤ x → 0 ≤ Transc.sqrt x)
    (hsq : ∀ x : K, 0 ≤ x → Transc.sqrt x * Transc.sqrt x = x)
    (hacos : ∀ x : K, -1 ≤ x → x ≤ 1 → Transc.cos (Transc.acos x) = x)
    (h3 : ∀ x : K, Transc.cos (3 * x) = 4 * Transc.cos x ^ 3 - 3 * Transc.cos x)
    (hper : ∀ x : K, Transc.cos (x + 2 * Transc.pi) = Transc.cos x)
    (bn cn dn x : K) (hD : Roots.delta01 (Roots.delta0 bn cn) (Roots.delta1 bn cn dn) < 0)
    (hx : x ∈ Roots.cardano bn cn dn) : x ^ 3 + bn * x ^ 2 + cn * x + dn = 0 := by
  rw [cardano_neg bn cn dn hD, cardano3_eq] at hx
  have hD' : Roots.delta0 bn cn * Roots.delta0 bn cn * Roots.delta0 bn cn
      + Roots.delta1 bn cn dn * Roots.delta1 bn cn dn < 0 := hD
  set d0 := Roots.delta0 bn cn
  set d1 := Roots.delta1 bn cn dn
  obtain ⟨_, _, _, _, _, hlo, hhi⟩ := trig_regime hs0 hsq d0 d1 hD'
  have hθ : Transc.cos (Roots.theta d0 d1) = d1 / Transc.sqrt (-d0 * d0 * d0) := by
    rw [theta_eq]; exact hacos _ hlo.le hhi.le
  set θ := Roots.theta d0 d1
  -- the three cosines solve 4u³ − 3u = cos θ
  have u0 : 4 * Transc.cos (θ / 3) ^ 3 - 3 * Transc.cos (θ / 3) = d1 / Transc.sqrt (-d0 * d0 * d0) := by
    rw [← h3, ← hθ]; congr 1; ring
  have u1 : 4 * Transc.cos (θ / 3 + 2 * Transc.pi / 3) ^ 3 - 3 * Transc.cos (θ / 3 + 2 * Transc.pi / 3)
      = d1 / Transc.sqrt (-d0 * d0 * d0) := by
    rw [← h3, ← hθ, ← hper θ]; congr 1; ring
  have u2 : 4 * Transc.cos (θ / 3 + 4 * Transc.pi / 3) ^ 3 - 3 * Transc.cos (θ / 3 + 4 * Transc.pi / 3)
      = d1 / Transc.sqrt (-d0 * d0 * d0) := by
    rw [← h3, ← hθ, ← hper θ, ← hper (θ + 2 * Transc.pi)]; congr 1; ring
  simp only [List.mem_cons, List.not_mem_nil, or_false] at hx
  rcases hx with hx | hx | hx <;> rw [hx, depressed_sub]
  · exact trig_root hs0 hsq d0 d1 _ hD' u0
  · exact trig_root hs0 hsq d0 d1 _ hD' u1
  · exact trig_root hs0 hsq d0 d1 _ hD' u2

/-- **Soundness of the three-real-roots branch** (`cubic_polynomial_roots` with its epsilon): when
`a` passes the code's non-zero test and `δ₀³ + δ₁² < 0`, every returned value is a root of
`a x³ + b x² + c x + d`. -/
theorem cubic_roots_trig_sound (hs0 : ∀ x : K, 0 ≤ x → 0 ≤ Transc.sqrt x)
    (hsq : ∀ x : K, 0 ≤ x → Transc.sqrt x * Transc.sqrt x = x)
    (hacos : ∀ x : K, -1 ≤ x → x ≤ 1 → Transc.cos (Transc.acos x) = x)
    (h3 : ∀ x : K, Transc.cos (3 * x) = 4 * Transc.cos x ^ 3 - 3 * Transc.cos x)
    (hper : ∀ x : K, Transc.cos (x + 2 * Transc.pi) = Transc.cos x)
    (e a b c d x : K) (he : 0 < e) (ha : ¬ |a| < e)
    (hD : Roots.delta01 (Roots.delta0 (b / a) (c / a)) (Roots.delta1 (b / a) (c / a) (d / a)) < 0)
    (hx : x ∈ Roots.rootsWith e a b c d) : a * x ^ 3 + b * x ^ 2 + c * x + d = 0 := by
  rw [rootsWith_regime e a b c d ha] at hx
  rw [normalised a b c d x (regime_ne_zero e a he ha),
    cardano_trig_sound hs0 hsq hacos h3 hper _ _ _ x hD hx, mul_zero]

/-- non-vacuity: `x³ − 7x + 6 = (x−1)(x−2)(x+3)`: `δ₀ = −7/3`, `δ₁ = −3`, `Δ = −100/27 < 0`,
`|a| = 1 ≥ ε = 1/100` -/
example : (0:ℚ) < 1/100 ∧ ¬ |(1:ℚ)| < 1/100
    ∧ ((3 * (-7/1) - (0/1) * (0/1)) / 9 : ℚ) ^ 3 + ((9 * (0/1) * (-7/1) - 27 * (6/1) - 2 * (0/1) * (0/1) * (0/1)) / 54) ^ 2 < 0 := by
  refine ⟨by norm_num, by norm_num, by norm_num⟩

variable (L : CosLaws K)
include L

/-- the three values of the branch `Δ < 0`, pairwise distinct -/
theorem cardano_trig_distinct (hs0 : ∀ x : K, 0 ≤ x → 0 ≤ Transc.sqrt x)
    (hsq : ∀ x : K, 0 ≤ x → Transc.sqrt x * Transc.sqrt x = x)
    (bn cn dn : K) (hD : Roots.delta01 (Roots.delta0 bn cn) (Roots.delta1 bn cn dn) < 0) :
    ∃ x1 x2 x3 : K, Roots.cardano bn cn dn = [x1, x2, x3] ∧ x1 ≠ x2 ∧ x1 ≠ x3 ∧ x2 ≠ x3 := by
  rw [cardano_neg bn cn dn hD, cardano3_eq]
  have hD' : Roots.delta0 bn cn * Roots.delta0 bn cn * Roots.delta0 bn cn
      + Roots.delta1 bn cn dn * Roots.delta1 bn cn dn < 0 := hD
  set d0 := Roots.delta0 bn cn
  set d1 := Roots.delta1 bn cn dn
  obtain ⟨_, _, hm, _, hr, hlo, hhi⟩ := trig_regime hs0 hsq d0 d1 hD'
  have hθ : Transc.cos (Roots.theta d0 d1) = d1 / Transc.sqrt (-d0 * d0 * d0) := by
    rw [theta_eq]; exact L.cos_acos _ hlo.le hhi.le
  set θ := Roots.theta d0 d1
  have hw : Transc.cos (3 * (θ / 3)) ^ 2 ≠ 1 := by
    rw [show 3 * (θ / 3) = θ by ring, hθ]
    set w := d1 / Transc.sqrt (-d0 * d0 * d0)
    have : w ^ 2 < 1 := by nlinarith
    exact this.ne
  obtain ⟨n01, n02, n12⟩ := L.thirds_distinct (θ / 3) hw
  have h2m : (2 * Transc.sqrt (-d0)) ≠ 0 := mul_ne_zero two_ne_zero hm.ne'
  refine ⟨_, _, _, rfl, ?_, ?_, ?_⟩
  · intro h; exact n01 (mul_left_cancel₀ h2m (sub_left_injective h))
  · intro h; exact n02 (mul_left_cancel₀ h2m (sub_left_injective h))
  · intro h; exact n12 (mul_left_cancel₀ h2m (sub_left_injective h))

/-- **Δ < 0: exactly three values, pairwise distinct, each a root.** -/
theorem cubic_roots_trig_distinct (hs0 : ∀ x : K, 0 ≤ x → 0 ≤ Transc.sqrt x)
    (hsq : ∀ x : K, 0 ≤ x → Transc.sqrt x * Transc.sqrt x = x)
    (e a b c d : K) (he : 0 < e) (ha : ¬ |a| < e)
    (hD : Roots.delta01 (Roots.delta0 (b / a) (c / a)) (Roots.delta1 (b / a) (c / a) (d / a)) < 0) :
    ∃ x1 x2 x3 : K, Roots.rootsWith e a b c d = [x1, x2, x3] ∧ x1 ≠ x2 ∧ x1 ≠ x3 ∧ x2 ≠ x3
      ∧ a * x1 ^ 3 + b * x1 ^ 2 + c * x1 + d = 0 ∧ a * x2 ^ 3 + b * x2 ^ 2 + c * x2 + d = 0
      ∧ a * x3 ^ 3 + b * x3 ^ 2 + c * x3 + d = 0 := by
  obtain ⟨x1, x2, x3, hl, h12, h13, h23⟩ := cardano_trig_distinct L hs0 hsq _ _ _ hD
  have hl' : Roots.rootsWith e a b c d = [x1, x2, x3] := by rw [rootsWith_regime e a b c d ha, hl]
  have snd := fun x hx => cubic_roots_trig_sound hs0 hsq L.cos_acos L.cos_three_mul L.cos_periodic
    e a b c d x he ha hD hx
  refine ⟨x1, x2, x3, hl', h12, h13, h23, snd x1 ?_, snd x2 ?_, snd x3 ?_⟩ <;> rw [hl'] <;> simp

/-- **Completeness of the three-real-roots branch**: when `a` passes the code's non-zero test and
`δ₀³ + δ₁² < 0`, every root of `a x³ + b x² + c x + d` in the field is one of the returned values
(three pairwise distinct roots are returned, and a cubic has at most three). -/
theorem cubic_roots_trig_complete (hs0 : ∀ x : K, 0 ≤ x → 0 ≤ Transc.sqrt x)
    (hsq : ∀ x : K, 0 ≤ x → Transc.sqrt x * Transc.sqrt x = x)
    (e a b c d x : K) (he : 0 < e) (ha : ¬ |a| < e)
    (hD : Roots.delta01 (Roots.delta0 (b / a) (c / a)) (Roots.delta1 (b / a) (c / a) (d / a)) < 0)
    (hx : a * x ^ 3 + b * x ^ 2 + c * x + d = 0) : x ∈ Roots.rootsWith e a b c d := by
  obtain ⟨x1, x2, x3, hl, h12, h13, h23, r1, r2, r3⟩ := cubic_roots_trig_distinct L hs0 hsq e a b c d he ha hD
  rw [hl]
  rcases cubic_at_most_three_roots a b c d x1 x2 x3 x (regime_ne_zero e a he ha) h12 h13 h23 r1 r2 r3 hx
    with h | h | h <;> rw [h] <;> simp

/-- **Δ < 0: the result is exactly the set of roots.** -/
theorem cubic_roots_trig_iff (hs0 : ∀ x : K, 0 ≤ x → 0 ≤ Transc.sqrt x)
    (hsq : ∀ x : K, 0 ≤ x → Transc.sqrt x * Transc.sqrt x = x)
    (e a b c d x : K) (he : 0 < e) (ha : ¬ |a| < e)
    (hD : Roots.delta01 (Roots.delta0 (b / a) (c / a)) (Roots.delta1 (b / a) (c / a) (d / a)) < 0) :
    x ∈ Roots.rootsWith e a b c d ↔ a * x ^ 3 + b * x ^ 2 + c * x + d = 0 :=
  ⟨cubic_roots_trig_sound hs0 hsq L.cos_acos L.cos_three_mul L.cos_periodic e a b c d x he ha hD,
   cubic_roots_trig_complete L hs0 hsq e a b c d x he ha hD⟩

end trig

/-! ### the one-real-root branch, `Δ ≥ 0` -/

section cardano

/-- what the code's two cube roots satisfy when `Δ = δ₀³ + δ₁² ≥ 0`: with `B = cBig` (the cube root
that does not cancel) and `O = cOther = −δ₀/B`: `B³ = δ₁ + ρ`, `ρ² = Δ`, `B·O = −δ₀`, and
`B = 0` only if `δ₀ = δ₁ = 0`. -/
theorem cBig_spec (hs0 : ∀ x : K, 0 ≤ x → 0 ≤ Transc.sqrt x)
    (hsq : ∀ x : K, 0 ≤ x → Transc.sqrt x * Transc.sqrt x = x)
    (hpow : ∀ x : K, 0 ≤ x → Transc.pow x (Roots.frac13 : K) ^ 3 = x)
    (d0 d1 : K) (hΔ : 0 ≤ Roots.delta01 d0 d1) :
    ∃ ρ : K, ρ * ρ = d0 ^ 3 + d1 ^ 2 ∧ Roots.cBig d0 d1 ^ 3 = d1 + ρ
      ∧ Roots.cOther d0 d1 * Roots.cBig d0 d1 = -d0
      ∧ (Roots.cBig d0 d1 = 0 → d0 = 0 ∧ d1 = 0 ∧ Roots.cOther d0 d1 = 0) := by
  have hr := hsq _ hΔ
  have hr0 := hs0 _ hΔ
  have hΔe := delta01_eq d0 d1
  obtain ⟨ρ, hρ, hB3, hzero⟩ : ∃ ρ : K, ρ * ρ = d0 ^ 3 + d1 ^ 2 ∧ Roots.cBig d0 d1 ^ 3 = d1 + ρ
      ∧ (d1 + ρ = 0 → d1 = 0 ∧ ρ = 0) := by
    unfold Roots.cBig
    by_cases h : d1 ≥ (Scalar.zero : K)
    · rw [if_pos h]
      rw [zero_eq] at h
      refine ⟨Transc.sqrt (Roots.delta01 d0 d1), by rw [hr, hΔe], cbrtS_cube hpow _, ?_⟩
      intro h0; constructor <;> linarith
    · rw [if_neg h]
      rw [zero_eq, ge_iff_le, not_le] at h
      refine ⟨-Transc.sqrt (Roots.delta01 d0 d1), by rw [neg_mul_neg, hr, hΔe], ?_, ?_⟩
      · rw [cbrtS_cube hpow]; ring
      · intro h0; exfalso; linarith
  have hzero' : Roots.cBig d0 d1 = 0 → d0 = 0 ∧ d1 = 0 ∧ Roots.cOther d0 d1 = 0 := by
    intro hB
    have hO : Roots.cOther d0 d1 = 0 := by
      unfold Roots.cOther; rw [if_pos ((beq_zero_iff _).mpr hB)]; exact zero_eq
    rw [hB] at hB3
    obtain ⟨e1, e2⟩ := hzero (by rw [← hB3]; ring)
    rw [e1, e2] at hρ
    have : d0 ^ 3 = 0 := by linear_combination -hρ
    exact ⟨pow_eq_zero_iff (three_ne_zero) |>.mp this, e1, hO⟩
  refine ⟨ρ, hρ, hB3, ?_, hzero'⟩
  by_cases hB : Roots.cBig d0 d1 = 0
  · obtain ⟨e0, _, eO⟩ := hzero' hB
    rw [hB, eO, e0]; ring
  · unfold Roots.cOther
    rw [if_neg (fun h => hB ((beq_zero_iff _).mp h))]
    exact div_mul_cancel₀ _ hB

/-- `s`, `t` are `B`, `O` in the order the sign of `δ₁` decides -/
theorem cS_cT_cases (d0 d1 : K) :
    (Roots.cS d0 d1 = Roots.cBig d0 d1 ∧ Roots.cT d0 d1 = Roots.cOther d0 d1)
    ∨ (Roots.cS d0 d1 = Roots.cOther d0 d1 ∧ Roots.cT d0 d1 = Roots.cBig d0 d1) := by
  unfold Roots.cS Roots.cT
  by_cases h : d1 ≥ (Scalar.zero : K)
  · left; rw [if_pos h, if_pos h]; exact ⟨rfl, rfl⟩
  · right; rw [if_neg h, if_neg h]; exact ⟨rfl, rfl⟩

/-- **`s·t = −δ₀`** holds by construction in the repaired code (before 6fcbec49 both were computed
as cube roots and the relation held only up to rounding) -/
theorem cardano_st (hs0 : ∀ x : K, 0 ≤ x → 0 ≤ Transc.sqrt x)
    (hsq : ∀ x : K, 0 ≤ x → Transc.sqrt x * Transc.sqrt x = x)
    (hpow : ∀ x : K, 0 ≤ x → Transc.pow x (Roots.frac13 : K) ^ 3 = x)
    (d0 d1 : K) (hΔ : 0 ≤ Roots.delta01 d0 d1) : Roots.cS d0 d1 * Roots.cT d0 d1 = -d0 := by
  obtain ⟨ρ, _, _, hOB, _⟩ := cBig_spec hs0 hsq hpow d0 d1 hΔ
  rcases cS_cT_cases d0 d1 with ⟨e1, e2⟩ | ⟨e1, e2⟩ <;> rw [e1, e2]
  · linear_combination hOB
  · exact hOB

/-- **`s = t` exactly when the discriminant vanishes** -/
theorem cardano_s_eq_t_iff (hs0 : ∀ x : K, 0 ≤ x → 0 ≤ Transc.sqrt x)
    (hsq : ∀ x : K, 0 ≤ x → Transc.sqrt x * Transc.sqrt x = x)
    (hpow : ∀ x : K, 0 ≤ x → Transc.pow x (Roots.frac13 : K) ^ 3 = x)
    (d0 d1 : K) (hΔ : 0 ≤ Roots.delta01 d0 d1) :
    Roots.cS d0 d1 = Roots.cT d0 d1 ↔ Roots.delta01 d0 d1 = 0 := by
  obtain ⟨ρ, hρ, hB3, hOB, hzero⟩ := cBig_spec hs0 hsq hpow d0 d1 hΔ
  have hst : Roots.cS d0 d1 = Roots.cT d0 d1 ↔ Roots.cBig d0 d1 = Roots.cOther d0 d1 := by
    rcases cS_cT_cases d0 d1 with ⟨e1, e2⟩ | ⟨e1, e2⟩ <;> rw [e1, e2]
    exact eq_comm
  rw [hst, delta01_eq]
  set B := Roots.cBig d0 d1
  set O := Roots.cOther d0 d1
  constructor
  · intro h
    rw [← h] at hOB
    -- B² = −δ₀, B³ = δ₁ + ρ  ⟹  ρ (ρ + δ₁) = 0
    have key : ρ * (d1 + ρ) = 0 := by
      linear_combination (-1 / 2 : K) * (B ^ 3 + d1 + ρ) * hB3 + (1 / 2 : K) * hρ
        + (1 / 2 : K) * (B ^ 4 + B ^ 2 * (-d0) + d0 ^ 2) * hOB
    rcases mul_eq_zero.mp key with h0 | h0
    · rw [← hρ, h0]; ring
    · by_cases hB : B = 0
      · obtain ⟨e0, e1, _⟩ := hzero hB
        rw [e0, e1]; ring
      · exfalso; apply hB
        have : B ^ 3 = 0 := by rw [hB3, h0]
        exact pow_eq_zero_iff (three_ne_zero) |>.mp this
  · intro h
    have hρ0 : ρ = 0 := by
      have : ρ * ρ = 0 := by rw [hρ, h]
      exact mul_self_eq_zero.mp this
    rw [hρ0, add_zero] at hB3
    have h0 : d0 = -B ^ 2 := (depressed_factor_disc_zero d0 d1 B 0 h hB3).1
    by_cases hB : B = 0
    · obtain ⟨_, _, eO⟩ := hzero hB
      rw [hB, eO]
    · apply mul_right_cancel₀ hB
      rw [hOB, h0]; ring

/-- `Δ ≥ 0`, regime: the result is the head `x₁ = −bn/3 + (s+t)` followed by the optional
"repeated root" `x₂ = −bn/3 − (s+t)/2`, present iff `|s − t| < ε'` and `|s + t| ≥ ε'`
(`ε' = epsilon_for(max |bn|,|cn|,|dn|)`). -/
theorem cubic_roots_cardano_shape (e a b c d : K) (ha : ¬ |a| < e)
    (hΔ : 0 ≤ Roots.delta01 (Roots.delta0 (b / a) (c / a)) (Roots.delta1 (b / a) (c / a) (d / a))) :
    Roots.rootsWith e a b c d =
      (-(b / a) / 3 + (Roots.cS (Roots.delta0 (b / a) (c / a)) (Roots.delta1 (b / a) (c / a) (d / a))
          + Roots.cT (Roots.delta0 (b / a) (c / a)) (Roots.delta1 (b / a) (c / a) (d / a))))
      :: (if |Roots.cS (Roots.delta0 (b / a) (c / a)) (Roots.delta1 (b / a) (c / a) (d / a))
              - Roots.cT (Roots.delta0 (b / a) (c / a)) (Roots.delta1 (b / a) (c / a) (d / a))|
              < Roots.epsN (b / a) (c / a) (d / a)
            ∧ Roots.epsN (b / a) (c / a) (d / a)
              ≤ |Roots.cS (Roots.delta0 (b / a) (c / a)) (Roots.delta1 (b / a) (c / a) (d / a))
                + Roots.cT (Roots.delta0 (b / a) (c / a)) (Roots.delta1 (b / a) (c / a) (d / a))|
          then [-(b / a) / 3 - (Roots.cS (Roots.delta0 (b / a) (c / a)) (Roots.delta1 (b / a) (c / a) (d / a))
              + Roots.cT (Roots.delta0 (b / a) (c / a)) (Roots.delta1 (b / a) (c / a) (d / a))) / 2]
          else []) := by
  rw [rootsWith_regime e a b c d ha, cardano_nonneg _ _ _ hΔ]
  unfold Roots.cardano1
  rw [frac13_eq, sc_abs, sc_abs]
  have h2 : (Scalar.two : K) = 2 := by simp only [geom, Nat.cast_ofNat]
  rw [h2, List.singleton_append]
  have a3 : -(b / a) * (1 / 3) = -(b / a) / 3 := by ring
  rw [a3]

/-- the depressed cubic at `−(s+t)/2`, for any root `y = s + t` with `s·t = −δ₀` -/
theorem depressed_at_half (d0 d1 s t : K) (hst : s * t = -d0)
    (hy : (s + t) ^ 3 + 3 * d0 * (s + t) - 2 * d1 = 0) :
    (-(s + t) / 2) ^ 3 + 3 * d0 * (-(s + t) / 2) - 2 * d1 = -(9 / 8) * (s + t) * (s - t) ^ 2 := by
  linear_combination hy - (9 / 2 : K) * (s + t) * hst

/-- **What the optional "repeated root" value is worth**: the cubic evaluated at
`x₂ = −bn/3 − (s+t)/2` is `−(9/8)·a·(s+t)·(s−t)²`. -/
theorem cardano_repeated_value (hs0 : ∀ x : K, 0 ≤ x → 0 ≤ Transc.sqrt x)
    (hsq : ∀ x : K, 0 ≤ x → Transc.sqrt x * Transc.sqrt x = x)
    (hpow : ∀ x : K, 0 ≤ x → Transc.pow x (Roots.frac13 : K) ^ 3 = x)
    (a b c d : K) (ha : a ≠ 0)
    (hΔ : 0 ≤ Roots.delta01 (Roots.delta0 (b / a) (c / a)) (Roots.delta1 (b / a) (c / a) (d / a)))
    (s t x2 : K) (hs : s = Roots.cS (Roots.delta0 (b / a) (c / a)) (Roots.delta1 (b / a) (c / a) (d / a)))
    (ht : t = Roots.cT (Roots.delta0 (b / a) (c / a)) (Roots.delta1 (b / a) (c / a) (d / a)))
    (hx2 : x2 = -(b / a) / 3 - (s + t) / 2) :
    a * x2 ^ 3 + b * x2 ^ 2 + c * x2 + d = -(9 / 8) * a * (s + t) * (s - t) ^ 2 := by
  have hst := cardano_st hs0 hsq hpow _ _ hΔ
  have hy := cardano_sum_root hs0 hsq hpow _ _ hΔ
  rw [← hs, ← ht] at hst hy
  have h := depressed_at_half _ _ s t hst hy
  rw [normalised a b c d x2 ha, hx2,
    show -(b / a) / 3 - (s + t) / 2 = -(s + t) / 2 - b / a / 3 by ring, depressed_sub, h]
  ring

/-- **`x₂`, when returned, is a root iff `Δ = 0`.**  (It is returned only if `|s + t| ≥ ε' > 0`,
so `s + t ≠ 0`.)  For `Δ > 0` and `|s − t| < ε'` the code reports a value that is not a root of the
polynomial in exact arithmetic: it is the real part of the complex-conjugate pair, and the
polynomial's value there is `−(9/8)·a·(s+t)·(s−t)²`, of size `< (9/8)·|a|·|s+t|·ε'²`. -/
theorem cardano_repeated_root_iff (hs0 : ∀ x : K, 0 ≤ x → 0 ≤ Transc.sqrt x)
    (hsq : ∀ x : K, 0 ≤ x → Transc.sqrt x * Transc.sqrt x = x)
    (hpow : ∀ x : K, 0 ≤ x → Transc.pow x (Roots.frac13 : K) ^ 3 = x)
    (a b c d : K) (ha : a ≠ 0)
    (hΔ : 0 ≤ Roots.delta01 (Roots.delta0 (b / a) (c / a)) (Roots.delta1 (b / a) (c / a) (d / a)))
    (s t x2 : K) (hs : s = Roots.cS (Roots.delta0 (b / a) (c / a)) (Roots.delta1 (b / a) (c / a) (d / a)))
    (ht : t = Roots.cT (Roots.delta0 (b / a) (c / a)) (Roots.delta1 (b / a) (c / a) (d / a)))
    (hx2 : x2 = -(b / a) / 3 - (s + t) / 2) (hne : s + t ≠ 0) :
    a * x2 ^ 3 + b * x2 ^ 2 + c * x2 + d = 0
      ↔ Roots.delta01 (Roots.delta0 (b / a) (c / a)) (Roots.delta1 (b / a) (c / a) (d / a)) = 0 := by
  rw [cardano_repeated_value hs0 hsq hpow a b c d ha hΔ s t x2 hs ht hx2,
    ← cardano_s_eq_t_iff hs0 hsq hpow _ _ hΔ, ← hs, ← ht]
  constructor
  · intro h
    have h98 : (-(9 / 8) * a * (s + t) : K) ≠ 0 :=
      mul_ne_zero (mul_ne_zero (by norm_num) ha) hne
    rcases mul_eq_zero.mp h with h' | h'
    · exact absurd h' h98
    · exact sub_eq_zero.mp (pow_eq_zero_iff (two_ne_zero) |>.mp h')
  · intro h; rw [h]; ring

/-- **`Δ > 0`: one real root, and it is the head of the result** — the returned list contains
every root of the cubic in the field. -/
theorem cubic_roots_cardano_complete (hs0 : ∀ x : K, 0 ≤ x → 0 ≤ Transc.sqrt x)
    (hsq : ∀ x : K, 0 ≤ x → Transc.sqrt x * Transc.sqrt x = x)
    (hpow : ∀ x : K, 0 ≤ x → Transc.pow x (Roots.frac13 : K) ^ 3 = x)
    (e a b c d : K) (he : 0 < e) (ha : ¬ |a| < e)
    (hΔ : 0 < Roots.delta01 (Roots.delta0 (b / a) (c / a)) (Roots.delta1 (b / a) (c / a) (d / a))) :
    ∃ x1 rest, Roots.rootsWith e a b c d = x1 :: rest ∧ a * x1 ^ 3 + b * x1 ^ 2 + c * x1 + d = 0
      ∧ ∀ x : K, a * x ^ 3 + b * x ^ 2 + c * x + d = 0 → x = x1 := by
  obtain ⟨x1, rest, hl, hr⟩ := cubic_roots_sound_partial_cardano hs0 hsq hpow e a b c d he ha hΔ.le
  refine ⟨x1, rest, hl, hr, ?_⟩
  intro x hx
  have ha0 := regime_ne_zero e a he ha
  rw [normalised a b c d _ ha0] at hx hr
  have hx' := (mul_eq_zero.mp hx).resolve_left ha0
  have hr' := (mul_eq_zero.mp hr).resolve_left ha0
  have dx := depressed_sub (b / a) (c / a) (d / a) (x + b / a / 3)
  have d1 := depressed_sub (b / a) (c / a) (d / a) (x1 + b / a / 3)
  rw [add_sub_cancel_right, hx'] at dx
  rw [add_sub_cancel_right, hr'] at d1
  rw [delta01_eq] at hΔ
  have := depressed_unique_root _ _ _ _ hΔ dx.symm d1.symm
  linear_combination this

/-- non-vacuity: `x³ − 1`: `δ₀ = 0`, `δ₁ = 1/2`, `Δ = 1/4 > 0`; the only rational root is `1` -/
example : (0:ℚ) < ((3 * 0 - 0 * 0) / 9) ^ 3 + ((9 * 0 * 0 - 27 * (-1) - 2 * 0 * 0 * 0) / 54) ^ 2 := by norm_num

/-- **`Δ = 0`: the roots are exactly `x₁ = −bn/3 + (s+t)` and the double root
`x₂ = −bn/3 − (s+t)/2`** (equal iff `s + t = 0`: a triple root). -/
theorem cubic_roots_disc_zero (hs0 : ∀ x : K, 0 ≤ x → 0 ≤ Transc.sqrt x)
    (hsq : ∀ x : K, 0 ≤ x → Transc.sqrt x * Transc.sqrt x = x)
    (hpow : ∀ x : K, 0 ≤ x → Transc.pow x (Roots.frac13 : K) ^ 3 = x)
    (a b c d : K) (ha : a ≠ 0)
    (hΔ : Roots.delta01 (Roots.delta0 (b / a) (c / a)) (Roots.delta1 (b / a) (c / a) (d / a)) = 0)
    (s t : K) (hs : s = Roots.cS (Roots.delta0 (b / a) (c / a)) (Roots.delta1 (b / a) (c / a) (d / a)))
    (ht : t = Roots.cT (Roots.delta0 (b / a) (c / a)) (Roots.delta1 (b / a) (c / a) (d / a))) (x : K) :
    (a * x ^ 3 + b * x ^ 2 + c * x + d = 0 ↔ (x = -(b / a) / 3 + (s + t) ∨ x = -(b / a) / 3 - (s + t) / 2))
    ∧ (x = -(b / a) / 3 - (s + t) / 2 → 3 * a * x ^ 2 + 2 * b * x + c = 0) := by
  have hst := (cardano_s_eq_t_iff hs0 hsq hpow _ _ hΔ.ge).mpr hΔ
  have hprod := cardano_st hs0 hsq hpow _ _ hΔ.ge
  have hy := cardano_sum_root hs0 hsq hpow _ _ hΔ.ge
  rw [← hs, ← ht] at hst hprod hy
  rw [← hst] at hprod hy
  -- B = s: B³ = δ₁ from the root equation and s² = −δ₀
  set d0 := Roots.delta0 (b / a) (c / a) with hd0
  set d1 := Roots.delta1 (b / a) (c / a) (d / a)
  have hB3 : s ^ 3 = d1 := by linear_combination (1 / 2 : K) * hy - (3 * s) * hprod
  rw [delta01_eq] at hΔ
  have hroots := depressed_roots_disc_zero d0 d1 s (x + b / a / 3) hΔ hB3
  have dx := depressed_sub (b / a) (c / a) (d / a) (x + b / a / 3)
  rw [add_sub_cancel_right] at dx
  constructor
  · rw [normalised a b c d x ha, mul_eq_zero, or_iff_right ha, dx, hroots, ← hst]
    constructor
    · rintro (h | h)
      · left; linear_combination h
      · right; linear_combination h
    · rintro (h | h)
      · left; linear_combination h
      · right; linear_combination h
  · intro hx
    rw [← hst] at hx
    have e1 : 3 * a * x ^ 2 + 2 * b * x + c = a * (3 * (x + b / a / 3) ^ 2 + 3 * d0) := by
      rw [hd0]; simp only [Roots.delta0, geom, Nat.cast_ofNat]; field_simp; ring
    rw [e1, hx]
    have : d0 = -(s * s) := by linear_combination hprod
    rw [this]; ring

/-- non-vacuity: `x³ − 3x − 2 = (x − 2)(x + 1)²` has `Δ = 0` -/
example : (((3 * (-3) - 0 * 0) / 9 : ℚ)) ^ 3 + ((9 * 0 * (-3) - 27 * (-2) - 2 * 0 * 0 * 0) / 54) ^ 2 = 0 := by norm_num

end cardano

/-! ### the lower-degree branches when the degree decision is exact (`a = 0`) -/

section degenerate

/-- **linear branch, `a = b = 0` exactly**: the root of `c x + d` is returned -/
theorem cubic_roots_complete_linear (e c d x : K) (he : 0 < e) (hc : ¬ |c| < e) (hx : c * x + d = 0) :
    x ∈ Roots.rootsWith e 0 0 c d := by
  unfold Roots.rootsWith
  rw [if_pos (by rw [sc_abs, abs_zero]; exact he), if_pos (by rw [sc_abs, abs_zero]; exact he),
    if_neg (by rw [sc_abs]; exact hc), List.mem_singleton]
  have hc0 : c ≠ 0 := regime_ne_zero e c he hc
  rw [eq_div_iff hc0]; linear_combination hx

/-- **quadratic branch, `a = 0` exactly**: every simple root of `b x² + c x + d` is returned -/
theorem cubic_roots_complete_quadratic (hs0 : ∀ x : K, 0 ≤ x → 0 ≤ Transc.sqrt x)
    (hsq : ∀ x : K, 0 ≤ x → Transc.sqrt x * Transc.sqrt x = x)
    (e b c d x : K) (he : 0 < e) (hb : ¬ |b| < e) (hx : b * x ^ 2 + c * x + d = 0)
    (hsimple : 2 * b * x + c ≠ 0) : x ∈ Roots.rootsWith e 0 b c d := by
  have hb0 : b ≠ 0 := regime_ne_zero e b he hb
  unfold Roots.rootsWith
  rw [if_pos (by rw [sc_abs, abs_zero]; exact he), if_neg (by rw [sc_abs]; exact hb)]
  unfold Roots.quadratic
  have hΔe : Roots.qdelta b c d = (2 * b * x + c) ^ 2 := by
    simp only [Roots.qdelta, geom, Nat.cast_ofNat]
    linear_combination (-4 * b) * hx
  have hΔ : 0 < Roots.qdelta b c d := by rw [hΔe]; positivity
  rw [if_pos (by rw [zero_eq]; exact hΔ)]
  have hr := hsq _ hΔ.le
  have h2 : (Scalar.two : K) = 2 := by simp only [geom, Nat.cast_ofNat]
  rw [h2]
  have h2b : (2 * b : K) ≠ 0 := mul_ne_zero two_ne_zero hb0
  set r := Transc.sqrt (Roots.qdelta b c d)
  have hcase : r = 2 * b * x + c ∨ r = -(2 * b * x + c) := by
    have : (r - (2 * b * x + c)) * (r + (2 * b * x + c)) = 0 := by
      linear_combination hr + hΔe
    rcases mul_eq_zero.mp this with h | h
    · left; linear_combination h
    · right; linear_combination h
  rw [List.mem_cons, List.mem_singleton]
  rcases hcase with h | h
  · right; rw [eq_div_iff h2b, h]; ring
  · left; rw [eq_div_iff h2b, h]; ring

/-- non-vacuity: `x² − 3x + 2` has the simple root `1` (`2·1·1 − 3 = −1 ≠ 0`) -/
example : (1:ℚ) * 1 ^ 2 + (-3) * 1 + 2 = 0 ∧ 2 * (1:ℚ) * 1 + (-3) ≠ 0 := by norm_num

/-- "the code's degree decision is exact": the leading coefficient passes the non-zero test, or it
is exactly zero and the next one passes it, or both are exactly zero and the third passes it -/
def ExactDegree (e a b c : K) : Prop :=
  ¬ |a| < e ∨ (a = 0 ∧ ¬ |b| < e) ∨ (a = 0 ∧ b = 0 ∧ ¬ |c| < e)

end degenerate

/-! ### all discriminants together -/

section all
variable (L : CosLaws K)
include L

/-- **Completeness for simple roots, every discriminant**: in the regime (`a` passes the code's
non-zero test `¬ |a| < ε`) every SIMPLE root of `a x³ + b x² + c x + d` (derivative `≠ 0` there) is in
the list `cubic_polynomial_roots` returns.  (`Δ < 0`: all three roots are returned; `Δ > 0`: the only
root is the head; `Δ = 0`: the simple root is the head, the other root is double.) -/
theorem cubic_roots_simple_complete (hs0 : ∀ x : K, 0 ≤ x → 0 ≤ Transc.sqrt x)
    (hsq : ∀ x : K, 0 ≤ x → Transc.sqrt x * Transc.sqrt x = x)
    (hpow : ∀ x : K, 0 ≤ x → Transc.pow x (Roots.frac13 : K) ^ 3 = x)
    (e a b c d x : K) (he : 0 < e) (ha : ¬ |a| < e)
    (hx : a * x ^ 3 + b * x ^ 2 + c * x + d = 0) (hsimple : 3 * a * x ^ 2 + 2 * b * x + c ≠ 0) :
    x ∈ Roots.rootsWith e a b c d := by
  have ha0 := regime_ne_zero e a he ha
  rcases lt_trichotomy (Roots.delta01 (Roots.delta0 (b / a) (c / a)) (Roots.delta1 (b / a) (c / a) (d / a))) 0
    with hΔ | hΔ | hΔ
  · exact cubic_roots_trig_complete L hs0 hsq e a b c d x he ha hΔ hx
  · obtain ⟨hiff, hder⟩ := cubic_roots_disc_zero hs0 hsq hpow a b c d ha0 hΔ _ _ rfl rfl x
    rw [cubic_roots_cardano_shape e a b c d ha hΔ.ge]
    rcases hiff.mp hx with h | h
    · rw [h]; exact List.mem_cons_self
    · exact absurd (hder h) hsimple
  · obtain ⟨x1, rest, hl, _, huniq⟩ := cubic_roots_cardano_complete hs0 hsq hpow e a b c d he ha hΔ
    rw [hl, huniq x hx]; exact List.mem_cons_self

/-- **Completeness, `Δ ≠ 0`**: in the regime, if the discriminant expression the code computes is
non-zero, every root of the cubic in the field is in the returned list. -/
theorem cubic_roots_complete (hs0 : ∀ x : K, 0 ≤ x → 0 ≤ Transc.sqrt x)
    (hsq : ∀ x : K, 0 ≤ x → Transc.sqrt x * Transc.sqrt x = x)
    (hpow : ∀ x : K, 0 ≤ x → Transc.pow x (Roots.frac13 : K) ^ 3 = x)
    (e a b c d x : K) (he : 0 < e) (ha : ¬ |a| < e)
    (hΔ : Roots.delta01 (Roots.delta0 (b / a) (c / a)) (Roots.delta1 (b / a) (c / a) (d / a)) ≠ 0)
    (hx : a * x ^ 3 + b * x ^ 2 + c * x + d = 0) : x ∈ Roots.rootsWith e a b c d := by
  rcases lt_or_gt_of_ne hΔ with h | h
  · exact cubic_roots_trig_complete L hs0 hsq e a b c d x he ha h hx
  · obtain ⟨x1, rest, hl, _, huniq⟩ := cubic_roots_cardano_complete hs0 hsq hpow e a b c d he ha h
    rw [hl, huniq x hx]; exact List.mem_cons_self

/-- **Soundness, every discriminant**: in the regime every returned value is a root, with the single
exception of the optional "repeated root" value `x₂ = −bn/3 − (s+t)/2` of the branch `Δ > 0`
(returned iff `|s − t| < ε' ≤ |s + t|`), which is not a root (`cardano_repeated_root_iff`) but the
real part of the complex pair; the polynomial's value there is given by `cardano_repeated_value`. -/
theorem cubic_roots_sound_or_repeated (hs0 : ∀ x : K, 0 ≤ x → 0 ≤ Transc.sqrt x)
    (hsq : ∀ x : K, 0 ≤ x → Transc.sqrt x * Transc.sqrt x = x)
    (hpow : ∀ x : K, 0 ≤ x → Transc.pow x (Roots.frac13 : K) ^ 3 = x)
    (e a b c d x : K) (he : 0 < e) (ha : ¬ |a| < e) (hx : x ∈ Roots.rootsWith e a b c d) :
    a * x ^ 3 + b * x ^ 2 + c * x + d = 0
    ∨ (0 < Roots.delta01 (Roots.delta0 (b / a) (c / a)) (Roots.delta1 (b / a) (c / a) (d / a))
        ∧ x = -(b / a) / 3 - (Roots.cS (Roots.delta0 (b / a) (c / a)) (Roots.delta1 (b / a) (c / a) (d / a))
              + Roots.cT (Roots.delta0 (b / a) (c / a)) (Roots.delta1 (b / a) (c / a) (d / a))) / 2
        ∧ |Roots.cS (Roots.delta0 (b / a) (c / a)) (Roots.delta1 (b / a) (c / a) (d / a))
              - Roots.cT (Roots.delta0 (b / a) (c / a)) (Roots.delta1 (b / a) (c / a) (d / a))|
              < Roots.epsN (b / a) (c / a) (d / a)
        ∧ a * x ^ 3 + b * x ^ 2 + c * x + d ≠ 0) := by
  have ha0 := regime_ne_zero e a he ha
  rcases lt_or_ge (Roots.delta01 (Roots.delta0 (b / a) (c / a)) (Roots.delta1 (b / a) (c / a) (d / a))) 0
    with hΔ | hΔ
  · left
    exact cubic_roots_trig_sound hs0 hsq L.cos_acos L.cos_three_mul L.cos_periodic e a b c d x he ha hΔ hx
  · have hsh := cubic_roots_cardano_shape e a b c d ha hΔ
    obtain ⟨x1, rest, hl, hr⟩ := cubic_roots_sound_partial_cardano hs0 hsq hpow e a b c d he ha hΔ
    rw [hsh] at hl hx
    obtain ⟨e1, _⟩ := List.cons.inj hl
    rcases List.mem_cons.mp hx with h | h
    · left; rw [h, e1]; exact hr
    · split at h
      next hc =>
        rw [List.mem_singleton] at h
        have hne : Roots.cS (Roots.delta0 (b / a) (c / a)) (Roots.delta1 (b / a) (c / a) (d / a))
            + Roots.cT (Roots.delta0 (b / a) (c / a)) (Roots.delta1 (b / a) (c / a) (d / a)) ≠ 0 := by
          intro h0
          have h1 := hc.1
          have h2 := hc.2
          rw [h0, abs_zero] at h2
          exact absurd (lt_of_le_of_lt (abs_nonneg _) h1) (not_lt.mpr h2)
        have hiff := cardano_repeated_root_iff hs0 hsq hpow a b c d ha0 hΔ _ _ x rfl rfl h hne
        by_cases hroot : a * x ^ 3 + b * x ^ 2 + c * x + d = 0
        · left; exact hroot
        · right
          refine ⟨lt_of_le_of_ne hΔ (fun h0 => hroot (hiff.mpr h0.symm)), h, hc.1, hroot⟩
      next => cases h

/-- **The regime in which every branch decision of the code is exact, and the answer there**:
(1) `a` passes the non-zero test; (2) for `Δ > 0` the "repeated root" test `|s − t| < ε' ≤ |s + t|`
fails (it is meant to detect `s = t`, i.e. `Δ = 0`); (3) for `Δ = 0` the test `|s + t| ≥ ε'` (is the
double root different from the simple one?) is decided as in exact arithmetic: `s + t = 0` or
`|s + t| ≥ ε'`.  In this regime the returned list is EXACTLY the set of roots of the cubic. -/
theorem cubic_roots_exact_regime_iff (hs0 : ∀ x : K, 0 ≤ x → 0 ≤ Transc.sqrt x)
    (hsq : ∀ x : K, 0 ≤ x → Transc.sqrt x * Transc.sqrt x = x)
    (hpow : ∀ x : K, 0 ≤ x → Transc.pow x (Roots.frac13 : K) ^ 3 = x)
    (e a b c d : K) (he : 0 < e) (ha : ¬ |a| < e) (hεn : 0 < Roots.epsN (b / a) (c / a) (d / a))
    (s t : K) (hs : s = Roots.cS (Roots.delta0 (b / a) (c / a)) (Roots.delta1 (b / a) (c / a) (d / a)))
    (ht : t = Roots.cT (Roots.delta0 (b / a) (c / a)) (Roots.delta1 (b / a) (c / a) (d / a)))
    (hpos : 0 < Roots.delta01 (Roots.delta0 (b / a) (c / a)) (Roots.delta1 (b / a) (c / a) (d / a)) →
      ¬ (|s - t| < Roots.epsN (b / a) (c / a) (d / a) ∧ Roots.epsN (b / a) (c / a) (d / a) ≤ |s + t|))
    (hzero : Roots.delta01 (Roots.delta0 (b / a) (c / a)) (Roots.delta1 (b / a) (c / a) (d / a)) = 0 →
      (s + t = 0 ∨ Roots.epsN (b / a) (c / a) (d / a) ≤ |s + t|))
    (x : K) : x ∈ Roots.rootsWith e a b c d ↔ a * x ^ 3 + b * x ^ 2 + c * x + d = 0 := by
  have ha0 := regime_ne_zero e a he ha
  rcases lt_trichotomy (Roots.delta01 (Roots.delta0 (b / a) (c / a)) (Roots.delta1 (b / a) (c / a) (d / a))) 0
    with hΔ | hΔ | hΔ
  · exact cubic_roots_trig_iff L hs0 hsq e a b c d x he ha hΔ
  · obtain ⟨hiff, _⟩ := cubic_roots_disc_zero hs0 hsq hpow a b c d ha0 hΔ s t hs ht x
    have hst := (cardano_s_eq_t_iff hs0 hsq hpow _ _ hΔ.ge).mpr hΔ
    rw [← hs, ← ht] at hst
    rw [hiff, cubic_roots_cardano_shape e a b c d ha hΔ.ge, ← hs, ← ht, hst, sub_self, abs_zero]
    rcases hzero hΔ with h0 | h0
    · have hst0 : t + t = 0 := by rw [← hst] at h0 ⊢; exact h0
      rw [hst0, abs_zero, if_neg (fun h => absurd h.2 (not_le.mpr hεn))]
      simp
    · rw [hst] at h0
      rw [if_pos ⟨hεn, h0⟩]
      simp
  · obtain ⟨x1, rest, hl, hr, huniq⟩ := cubic_roots_cardano_complete hs0 hsq hpow e a b c d he ha hΔ
    have hsh := cubic_roots_cardano_shape e a b c d ha hΔ.le
    rw [← hs, ← ht, if_neg (hpos hΔ)] at hsh
    rw [hsh] at hl ⊢
    obtain ⟨e1, _⟩ := List.cons.inj hl
    rw [List.mem_singleton, e1]
    exact ⟨fun h => h ▸ hr, huniq x⟩

/-- **Completeness for simple roots, every degree the code distinguishes**: whenever the code's
degree decision is exact (`ExactDegree`), every simple root of `a x³ + b x² + c x + d` is in the
returned list. -/
theorem cubic_roots_simple_complete_exact_degree (hs0 : ∀ x : K, 0 ≤ x → 0 ≤ Transc.sqrt x)
    (hsq : ∀ x : K, 0 ≤ x → Transc.sqrt x * Transc.sqrt x = x)
    (hpow : ∀ x : K, 0 ≤ x → Transc.pow x (Roots.frac13 : K) ^ 3 = x)
    (e a b c d x : K) (he : 0 < e) (hdeg : ExactDegree e a b c)
    (hx : a * x ^ 3 + b * x ^ 2 + c * x + d = 0) (hsimple : 3 * a * x ^ 2 + 2 * b * x + c ≠ 0) :
    x ∈ Roots.rootsWith e a b c d := by
  rcases hdeg with ha | ⟨ha, hb⟩ | ⟨ha, hb, hc⟩
  · exact cubic_roots_simple_complete L hs0 hsq hpow e a b c d x he ha hx hsimple
  · subst ha
    exact cubic_roots_complete_quadratic hs0 hsq e b c d x he hb (by linear_combination hx)
      (fun h => hsimple (by linear_combination h))
  · subst ha; subst hb
    exact cubic_roots_complete_linear e c d x he hc (by linear_combination hx)

end all

/-! ### cubic × line: transversal crossings are reported -/

section line

/-- the derivative of the polynomial handed to the root finder is (minus) the cross product of the
line's direction with the curve's derivative: a root is simple iff the crossing is transversal -/
theorem cubic_line_poly_deriv (c : Cubic K) (l : Line K) (t : K) :
    3 * c.liCoefA l * t ^ 2 + 2 * c.liCoefB l * t + c.liCoefC l = -(l.vector.cross (c.derivative t)) := by
  simp only [geom, Nat.cast_ofNat]; ring

/-- `cubic_line_poly` in the power notation of the root theorems -/
theorem cubic_line_poly_pow (c : Cubic K) (l : Line K) (t : K) :
    c.liCoefA l * t ^ 3 + c.liCoefB l * t ^ 2 + c.liCoefC l * t + c.liCoefD l
      = -(l.vector.cross (c.sample t - l.point)) := by
  rw [← cubic_line_poly]; ring

/-- the length of a non-zero vector is non-zero (sqrt law: `sqrt x · sqrt x = x`) -/
theorem lineLen_ne_zero (hsq : ∀ x : K, 0 ≤ x → Transc.sqrt x * Transc.sqrt x = x)
    (l : Line K) (hv : l.vector.x ≠ 0 ∨ l.vector.y ≠ 0) : Cubic.lineLen l ≠ 0 := by
  intro h
  have hL : 0 ≤ l.vector.sqLen := by
    simp only [P.sqLen]; exact add_nonneg (mul_self_nonneg _) (mul_self_nonneg _)
  have h2 := hsq _ hL
  unfold Cubic.lineLen at h
  rw [h, mul_zero] at h2
  have e : l.vector.x * l.vector.x + l.vector.y * l.vector.y = 0 := by
    simpa only [P.sqLen] using h2.symm
  rcases hv with hv | hv
  · have := mul_self_pos.mpr hv; nlinarith [mul_self_nonneg l.vector.y]
  · have := mul_self_pos.mpr hv; nlinarith [mul_self_nonneg l.vector.x]

/-- cross products with the normalised direction are those with the original one, divided by the
length -/
theorem unitLine_cross (l : Line K) (w : P K) :
    (Cubic.unitLine l).vector.cross w = l.vector.cross w / Cubic.lineLen l := by
  simp only [Cubic.unitLine, P.cross, P.sdiv]
  ring

/-- membership in the answer of `line_intersections_t`, for a line with non-zero direction: in
`[0,1]` and among the values of the root finder on the coefficients of the NORMALISED line -/
theorem mem_lineIntersectionsT (hsq : ∀ x : K, 0 ≤ x → Transc.sqrt x * Transc.sqrt x = x)
    (hfin : ∀ x : K, Transc.isFinite x = true) (c : Cubic K) (l : Line K)
    (hv : l.vector.x ≠ 0 ∨ l.vector.y ≠ 0) (t : K) :
    t ∈ c.lineIntersectionsT l ↔
      t ∈ Roots.cubicPolynomialRoots (c.liCoefA (Cubic.unitLine l)) (c.liCoefB (Cubic.unitLine l))
            (c.liCoefC (Cubic.unitLine l)) (c.liCoefD (Cubic.unitLine l))
      ∧ 0 ≤ t ∧ t ≤ 1 := by
  rw [cubic_line_unfold hfin, if_neg (lineLen_ne_zero hsq l hv)]
  unfold Cubic.lineRoots
  rw [List.mem_filter, inUnit_iff]

variable (L : CosLaws K)
include L

/-- **Every transversal crossing is reported** (cubic × line).  Let the line have a non-zero
direction and let the leading coefficient of the composed polynomial pass the code's non-zero test
(`¬ |A| < ε`, `A`…`D` computed for the normalised direction as the code does, `ε = epsilon_for(max
|coefficient|) > 0`).  Then every parameter `t ∈ [0,1]` at which the curve point lies on the line and
the curve's tangent is not parallel to the line (`vector × derivative(t) ≠ 0`) is in the answer of
`CubicBezierSegment::line_intersections_t`. -/
theorem cubic_line_transversal_crossing_reported (hs0 : ∀ x : K, 0 ≤ x → 0 ≤ Transc.sqrt x)
    (hsq : ∀ x : K, 0 ≤ x → Transc.sqrt x * Transc.sqrt x = x)
    (hpow : ∀ x : K, 0 ≤ x → Transc.pow x (Roots.frac13 : K) ^ 3 = x)
    (hfin : ∀ x : K, Transc.isFinite x = true) (heps : ∀ r : K, 0 < Eps.epsilonFor r)
    (c : Cubic K) (l : Line K) (hv : l.vector.x ≠ 0 ∨ l.vector.y ≠ 0)
    (hA : ¬ |c.liCoefA (Cubic.unitLine l)| < Roots.eps (c.liCoefA (Cubic.unitLine l))
      (c.liCoefB (Cubic.unitLine l)) (c.liCoefC (Cubic.unitLine l)) (c.liCoefD (Cubic.unitLine l)))
    (t : K) (h0 : 0 ≤ t) (h1 : t ≤ 1) (hon : l.vector.cross (c.sample t - l.point) = 0)
    (htr : l.vector.cross (c.derivative t) ≠ 0) : t ∈ c.lineIntersectionsT l := by
  have hlen := lineLen_ne_zero hsq l hv
  rw [mem_lineIntersectionsT hsq hfin c l hv]
  refine ⟨?_, h0, h1⟩
  unfold Roots.cubicPolynomialRoots
  apply cubic_roots_simple_complete L hs0 hsq hpow _ _ _ _ _ t (heps _) hA
  · rw [cubic_line_poly_pow, neg_eq_zero, unitLine_cross]
    show l.vector.cross (c.sample t - l.point) / Cubic.lineLen l = 0
    rw [hon, zero_div]
  · rw [cubic_line_poly_deriv, neg_ne_zero, unitLine_cross]
    exact div_ne_zero htr hlen

/-- the same with the degree decision merely exact (`ExactDegree`): also covers curves whose composed
polynomial is exactly quadratic or linear (e.g. a cubic that is a degree-elevated parabola) -/
theorem cubic_line_transversal_crossing_reported_exact_degree (hs0 : ∀ x : K, 0 ≤ x → 0 ≤ Transc.sqrt x)
    (hsq : ∀ x : K, 0 ≤ x → Transc.sqrt x * Transc.sqrt x = x)
    (hpow : ∀ x : K, 0 ≤ x → Transc.pow x (Roots.frac13 : K) ^ 3 = x)
    (hfin : ∀ x : K, Transc.isFinite x = true) (heps : ∀ r : K, 0 < Eps.epsilonFor r)
    (c : Cubic K) (l : Line K) (hv : l.vector.x ≠ 0 ∨ l.vector.y ≠ 0)
    (hA : ExactDegree (Roots.eps (c.liCoefA (Cubic.unitLine l))
        (c.liCoefB (Cubic.unitLine l)) (c.liCoefC (Cubic.unitLine l)) (c.liCoefD (Cubic.unitLine l)))
      (c.liCoefA (Cubic.unitLine l)) (c.liCoefB (Cubic.unitLine l)) (c.liCoefC (Cubic.unitLine l)))
    (t : K) (h0 : 0 ≤ t) (h1 : t ≤ 1) (hon : l.vector.cross (c.sample t - l.point) = 0)
    (htr : l.vector.cross (c.derivative t) ≠ 0) : t ∈ c.lineIntersectionsT l := by
  have hlen := lineLen_ne_zero hsq l hv
  rw [mem_lineIntersectionsT hsq hfin c l hv]
  refine ⟨?_, h0, h1⟩
  unfold Roots.cubicPolynomialRoots
  apply cubic_roots_simple_complete_exact_degree L hs0 hsq hpow _ _ _ _ _ t (heps _) hA
  · rw [cubic_line_poly_pow, neg_eq_zero, unitLine_cross]
    show l.vector.cross (c.sample t - l.point) / Cubic.lineLen l = 0
    rw [hon, zero_div]
  · rw [cubic_line_poly_deriv, neg_ne_zero, unitLine_cross]
    exact div_ne_zero htr hlen


/-- **Soundness of the line query** (exact arithmetic, regime): every reported parameter is in `[0,1]`
and its curve point lies ON the line — except the optional "repeated root" value of the branch
`Δ > 0`, whose curve point is at signed distance `−(9/8)·A·(s+t)·(s−t)²` from the line, in absolute
value below `(9/8)·|A|·|s+t|·ε'²` (`A` = leading coefficient for the unit direction = the distance
polynomial's, `ε'` = `epsilon_for` of the normalised coefficients). -/
theorem cubic_line_reported_on_line_or_near (hs0 : ∀ x : K, 0 ≤ x → 0 ≤ Transc.sqrt x)
    (hsq : ∀ x : K, 0 ≤ x → Transc.sqrt x * Transc.sqrt x = x)
    (hpow : ∀ x : K, 0 ≤ x → Transc.pow x (Roots.frac13 : K) ^ 3 = x)
    (hfin : ∀ x : K, Transc.isFinite x = true) (heps : ∀ r : K, 0 < Eps.epsilonFor r)
    (c : Cubic K) (l : Line K) (hv : l.vector.x ≠ 0 ∨ l.vector.y ≠ 0)
    (hA : ¬ |c.liCoefA (Cubic.unitLine l)| < Roots.eps (c.liCoefA (Cubic.unitLine l))
      (c.liCoefB (Cubic.unitLine l)) (c.liCoefC (Cubic.unitLine l)) (c.liCoefD (Cubic.unitLine l)))
    (t : K) (ht : t ∈ c.lineIntersectionsT l) :
    0 ≤ t ∧ t ≤ 1 ∧
    (l.vector.cross (c.sample t - l.point) = 0
      ∨ ∃ s' t' : K, |s' - t'| < Roots.epsN (c.liCoefB (Cubic.unitLine l) / c.liCoefA (Cubic.unitLine l))
            (c.liCoefC (Cubic.unitLine l) / c.liCoefA (Cubic.unitLine l))
            (c.liCoefD (Cubic.unitLine l) / c.liCoefA (Cubic.unitLine l))
          ∧ (Cubic.unitLine l).vector.cross (c.sample t - l.point)
              = (9 / 8) * c.liCoefA (Cubic.unitLine l) * (s' + t') * (s' - t') ^ 2) := by
  have hlen := lineLen_ne_zero hsq l hv
  obtain ⟨hroot, h0, h1⟩ := (mem_lineIntersectionsT hsq hfin c l hv t).mp ht
  refine ⟨h0, h1, ?_⟩
  set A := c.liCoefA (Cubic.unitLine l) with hAdef
  set B := c.liCoefB (Cubic.unitLine l) with hBdef
  set C := c.liCoefC (Cubic.unitLine l) with hCdef
  set D := c.liCoefD (Cubic.unitLine l) with hDdef
  have he' : 0 < Roots.eps A B C D := heps _
  have hA0 := regime_ne_zero _ A he' hA
  have hpoly : A * t ^ 3 + B * t ^ 2 + C * t + D = -((Cubic.unitLine l).vector.cross (c.sample t - l.point)) := by
    rw [hAdef, hBdef, hCdef, hDdef, cubic_line_poly_pow]; rfl
  rcases cubic_roots_sound_or_repeated L hs0 hsq hpow _ A B C D t he' hA hroot with h | ⟨hΔ, hx2, hlt, _⟩
  · left
    rw [hpoly, neg_eq_zero, unitLine_cross, div_eq_zero_iff] at h
    exact h.resolve_right hlen
  · right
    refine ⟨_, _, hlt, ?_⟩
    have hv2 := cardano_repeated_value hs0 hsq hpow A B C D hA0 hΔ.le _ _ t rfl rfl hx2
    rw [hpoly] at hv2
    linear_combination -hv2

/-- **Three crossings: the answer is exactly those three parameters.**  If the curve point lies on
the line at three parameters `t₁ < t₂ < t₃` of `[0,1]` (three distinct roots of a cubic are simple:
the crossings are transversal), then `line_intersections_t` returns a list of length three whose
members are exactly `t₁, t₂, t₃` (regime as above). -/
theorem cubic_line_crossings_reported (hs0 : ∀ x : K, 0 ≤ x → 0 ≤ Transc.sqrt x)
    (hsq : ∀ x : K, 0 ≤ x → Transc.sqrt x * Transc.sqrt x = x)
    (hfin : ∀ x : K, Transc.isFinite x = true) (heps : ∀ r : K, 0 < Eps.epsilonFor r)
    (c : Cubic K) (l : Line K) (hv : l.vector.x ≠ 0 ∨ l.vector.y ≠ 0)
    (hA : ¬ |c.liCoefA (Cubic.unitLine l)| < Roots.eps (c.liCoefA (Cubic.unitLine l))
      (c.liCoefB (Cubic.unitLine l)) (c.liCoefC (Cubic.unitLine l)) (c.liCoefD (Cubic.unitLine l)))
    (t1 t2 t3 : K) (h01 : 0 ≤ t1) (h12 : t1 < t2) (h23 : t2 < t3) (h31 : t3 ≤ 1)
    (on1 : l.vector.cross (c.sample t1 - l.point) = 0)
    (on2 : l.vector.cross (c.sample t2 - l.point) = 0)
    (on3 : l.vector.cross (c.sample t3 - l.point) = 0) :
    (∀ t : K, t ∈ c.lineIntersectionsT l ↔ (t = t1 ∨ t = t2 ∨ t = t3))
    ∧ (c.lineIntersectionsT l).length = 3 ∧ (c.lineIntersectionsT l).Nodup
    ∧ c.lineIntersectionsT l = Roots.cubicPolynomialRoots (c.liCoefA (Cubic.unitLine l))
        (c.liCoefB (Cubic.unitLine l)) (c.liCoefC (Cubic.unitLine l)) (c.liCoefD (Cubic.unitLine l)) := by
  have hlen := lineLen_ne_zero hsq l hv
  set A := c.liCoefA (Cubic.unitLine l) with hAdef
  set B := c.liCoefB (Cubic.unitLine l) with hBdef
  set C := c.liCoefC (Cubic.unitLine l) with hCdef
  set D := c.liCoefD (Cubic.unitLine l) with hDdef
  have he := heps (Scalar.max (Scalar.max (Scalar.max (Scalar.abs A) (Scalar.abs B)) (Scalar.abs C)) (Scalar.abs D))
  have he' : 0 < Roots.eps A B C D := he
  have hA0 := regime_ne_zero _ A he' hA
  have root : ∀ t : K, l.vector.cross (c.sample t - l.point) = 0 → A * t ^ 3 + B * t ^ 2 + C * t + D = 0 := by
    intro t h
    rw [hAdef, hBdef, hCdef, hDdef, cubic_line_poly_pow, neg_eq_zero, unitLine_cross]
    show l.vector.cross (c.sample t - l.point) / Cubic.lineLen l = 0
    rw [h, zero_div]
  have r1 := root t1 on1
  have r2 := root t2 on2
  have r3 := root t3 on3
  have n12 : t1 ≠ t2 := h12.ne
  have n13 : t1 ≠ t3 := (h12.trans h23).ne
  have n23 : t2 ≠ t3 := h23.ne
  -- the discriminant is strictly negative: the trigonometric branch is taken
  have hΔ : Roots.delta01 (Roots.delta0 (B / A) (C / A)) (Roots.delta1 (B / A) (C / A) (D / A)) < 0 := by
    rw [delta01_eq]
    have dep : ∀ t : K, A * t ^ 3 + B * t ^ 2 + C * t + D = 0 →
        (t + B / A / 3) ^ 3 + 3 * Roots.delta0 (B / A) (C / A) * (t + B / A / 3)
          - 2 * Roots.delta1 (B / A) (C / A) (D / A) = 0 := by
      intro t h
      rw [normalised A B C D t hA0] at h
      have := depressed_sub (B / A) (C / A) (D / A) (t + B / A / 3)
      rw [add_sub_cancel_right, (mul_eq_zero.mp h).resolve_left hA0] at this
      exact this.symm
    exact depressed_three_roots_disc_neg _ _ _ _ _
      (fun h => n12 (add_right_cancel h)) (fun h => n13 (add_right_cancel h))
      (fun h => n23 (add_right_cancel h)) (dep t1 r1) (dep t2 r2) (dep t3 r3)
  obtain ⟨x1, x2, x3, hl, d12, d13, d23, q1, q2, q3⟩ :=
    cubic_roots_trig_distinct L hs0 hsq (Roots.eps A B C D) A B C D he' hA hΔ
  have hmem : ∀ x : K, x ∈ Roots.rootsWith (Roots.eps A B C D) A B C D ↔ (x = t1 ∨ x = t2 ∨ x = t3) := by
    intro x
    rw [cubic_roots_trig_iff L hs0 hsq _ A B C D x he' hA hΔ]
    constructor
    · exact cubic_at_most_three_roots A B C D t1 t2 t3 x hA0 n12 n13 n23 r1 r2 r3
    · rintro (h | h | h) <;> rw [h] <;> assumption
  have hunit : ∀ x : K, (x = t1 ∨ x = t2 ∨ x = t3) → inUnit x = true := by
    intro x h
    rw [inUnit_iff]
    rcases h with h | h | h <;> rw [h] <;> constructor <;> linarith
  -- the filter keeps all three values
  have hlist : c.lineIntersectionsT l = [x1, x2, x3] := by
    rw [cubic_line_unfold hfin, if_neg hlen]
    unfold Cubic.lineRoots Roots.cubicPolynomialRoots
    rw [← hAdef, ← hBdef, ← hCdef, ← hDdef, hl]
    have m1 := hunit x1 ((hmem x1).mp (by rw [hl]; simp))
    have m2 := hunit x2 ((hmem x2).mp (by rw [hl]; simp))
    have m3 := hunit x3 ((hmem x3).mp (by rw [hl]; simp))
    simp [List.filter, m1, m2, m3]
  refine ⟨?_, by rw [hlist]; rfl, ?_⟩
  · intro t
    rw [hlist, ← hl]
    exact hmem t
  · rw [hlist]
    simp only [List.nodup_cons, List.mem_cons, List.not_mem_nil, or_false, not_or, List.nodup_nil, and_true]
    exact ⟨⟨⟨d12, d13⟩, d23, not_false⟩, hl.symm⟩

end line

section flat

/-- **Outside the regime nothing is "well separated"**: if the line meets the curve at three
parameters `t₁ < t₂ < t₃` of `[0,1]` although the leading coefficient FAILS the code's non-zero test
(`|A| < ε`, so that the code solves the truncated polynomial and cannot report three values), then
the whole curve piece `t ∈ [0,1]` stays within `ε` of the line: every curve point's distance to the
line is below `ε`, and all four coefficients are below `3ε` (so `ε` is the smallest entry of the
`epsilon_for` table: 1e-5 in f32, 1e-8 in f64). -/
theorem cubic_line_outside_regime_flat (hsq : ∀ x : K, 0 ≤ x → Transc.sqrt x * Transc.sqrt x = x)
    (c : Cubic K) (l : Line K) (hv : l.vector.x ≠ 0 ∨ l.vector.y ≠ 0) (ε : K)
    (hA : |c.liCoefA (Cubic.unitLine l)| < ε)
    (t1 t2 t3 : K) (h01 : 0 ≤ t1) (h12 : t1 < t2) (h23 : t2 < t3) (h31 : t3 ≤ 1)
    (on1 : l.vector.cross (c.sample t1 - l.point) = 0)
    (on2 : l.vector.cross (c.sample t2 - l.point) = 0)
    (on3 : l.vector.cross (c.sample t3 - l.point) = 0) (t : K) (h0 : 0 ≤ t) (h1 : t ≤ 1) :
    |(Cubic.unitLine l).vector.cross (c.sample t - l.point)| < ε
    ∧ |c.liCoefB (Cubic.unitLine l)| < 3 * ε ∧ |c.liCoefC (Cubic.unitLine l)| < 3 * ε
    ∧ |c.liCoefD (Cubic.unitLine l)| < ε := by
  have hlen := lineLen_ne_zero hsq l hv
  set A := c.liCoefA (Cubic.unitLine l) with hAdef
  set B := c.liCoefB (Cubic.unitLine l) with hBdef
  set C := c.liCoefC (Cubic.unitLine l) with hCdef
  set D := c.liCoefD (Cubic.unitLine l) with hDdef
  have root : ∀ t : K, l.vector.cross (c.sample t - l.point) = 0 → A * t ^ 3 + B * t ^ 2 + C * t + D = 0 := by
    intro t h
    rw [hAdef, hBdef, hCdef, hDdef, cubic_line_poly_pow, neg_eq_zero, unitLine_cross]
    show l.vector.cross (c.sample t - l.point) / Cubic.lineLen l = 0
    rw [h, zero_div]
  have hf := cubic_factor_of_three_roots A B C D t1 t2 t3 h12.ne (h12.trans h23).ne h23.ne
    (root t1 on1) (root t2 on2) (root t3 on3)
  have hpoly : A * t ^ 3 + B * t ^ 2 + C * t + D = -((Cubic.unitLine l).vector.cross (c.sample t - l.point)) := by
    rw [hAdef, hBdef, hCdef, hDdef, cubic_line_poly_pow]; rfl
  have hε : 0 < ε := lt_of_le_of_lt (abs_nonneg _) hA
  have hA0 : 0 ≤ |A| := abs_nonneg _
  have bnd : ∀ x y : K, 0 ≤ x → x ≤ 1 → 0 ≤ y → y ≤ 1 → |x - y| ≤ 1 := by
    intro x y hx0 hx1 hy0 hy1
    rw [abs_le]; constructor <;> linarith
  have t1le : t1 ≤ 1 := by linarith
  have t2ge : 0 ≤ t2 := by linarith
  have t2le : t2 ≤ 1 := by linarith
  have t3ge : 0 ≤ t3 := by linarith
  -- coefficients from the factorisation at 0, 1, -1
  have hD : D = -(A * (t1 * t2 * t3)) := by
    have := hf 0; linear_combination this
  have hB : B = -(A * (t1 + t2 + t3)) := by
    have a1 := hf 1; have a2 := hf (-1); have a0 := hf 0
    linear_combination (a1 + a2 - 2 * a0) / 2
  have hC : C = A * (t1 * t2 + t1 * t3 + t2 * t3) := by
    have a1 := hf 1; have a2 := hf (-1)
    linear_combination (a1 - a2) / 2
  refine ⟨?_, ?_, ?_, ?_⟩
  · rw [← abs_neg, ← hpoly, hf t, abs_mul, abs_mul, abs_mul]
    have b1 := bnd t t1 h0 h1 h01 t1le
    have b2 := bnd t t2 h0 h1 t2ge t2le
    have b3 := bnd t t3 h0 h1 t3ge h31
    have p12 : |t - t1| * |t - t2| ≤ 1 := mul_le_one₀ b1 (abs_nonneg _) b2
    have p123 : |t - t1| * |t - t2| * |t - t3| ≤ 1 := mul_le_one₀ p12 (abs_nonneg _) b3
    calc |A| * (|t - t1| * |t - t2| * |t - t3|) ≤ |A| * 1 := mul_le_mul_of_nonneg_left p123 hA0
      _ = |A| := mul_one _
      _ < ε := hA
  · rw [hB, abs_neg, abs_mul]
    have : |t1 + t2 + t3| ≤ 3 := by rw [abs_le]; constructor <;> linarith
    calc |A| * |t1 + t2 + t3| ≤ |A| * 3 := mul_le_mul_of_nonneg_left this hA0
      _ < 3 * ε := by linarith
  · rw [hC, abs_mul]
    have : |t1 * t2 + t1 * t3 + t2 * t3| ≤ 3 := by
      rw [abs_le]
      have := mul_nonneg h01 t2ge; have := mul_nonneg h01 t3ge; have := mul_nonneg t2ge t3ge
      have := mul_le_one₀ t1le t2ge t2le; have := mul_le_one₀ t1le t3ge h31
      have := mul_le_one₀ t2le t3ge h31
      constructor <;> linarith
    calc |A| * |t1 * t2 + t1 * t3 + t2 * t3| ≤ |A| * 3 := mul_le_mul_of_nonneg_left this hA0
      _ < 3 * ε := by linarith
  · rw [hD, abs_neg, abs_mul]
    have : |t1 * t2 * t3| ≤ 1 := by
      rw [abs_le]
      have a := mul_nonneg (mul_nonneg h01 t2ge) t3ge
      have b := mul_le_one₀ (mul_le_one₀ t1le t2ge t2le) t3ge h31
      constructor <;> linarith
    calc |A| * |t1 * t2 * t3| ≤ |A| * 1 := mul_le_mul_of_nonneg_left this hA0
      _ = |A| := mul_one _
      _ < ε := hA

end flat

/-! ### cubic × line segment -/

section segment

theorem mem_lineSegmentIntersectionsT (c : Cubic K) (s : Seg K) (t u : K) :
    (t, u) ∈ c.lineSegmentIntersectionsT s ↔
      (c.ixFastBoundingBox.inflate Eps.epsilon Eps.epsilon).intersects
          (s.ixBoundingBox.inflate Eps.epsilon Eps.epsilon) = true
      ∧ (t, u) ∈ segFilter c.x c.y c.sample s (c.lineIntersectionsT s.toLine) := by
  unfold Cubic.lineSegmentIntersectionsT
  by_cases hb : (c.ixFastBoundingBox.inflate Eps.epsilon Eps.epsilon).intersects
      (s.ixBoundingBox.inflate Eps.epsilon Eps.epsilon) = true
  · simp [hb]
  · simp [hb]

theorem toLine_vector_ne_zero (s : Seg K) (hab : s.a ≠ s.b) :
    s.toLine.vector.x ≠ 0 ∨ s.toLine.vector.y ≠ 0 := by
  by_contra h
  rw [not_or, not_not, not_not] at h
  apply hab
  have hx : s.b.x - s.a.x = 0 := h.1
  have hy : s.b.y - s.a.y = 0 := h.2
  exact P.ext' (by linarith) (by linarith)

/-- a point of the segment is on its carrier line -/
theorem sample_on_carrier (s : Seg K) (u : K) : s.toVector.cross (s.sample u - s.a) = 0 := by
  simp only [geom, Nat.cast_one]; ring

/-- a value of the root finder strictly inside `(0,1)` whose curve point is the segment point of
parameter `u ∈ [0,1]` passes the box test and the filter, and is reported with second parameter `u` -/
theorem segment_crossing_mem (hs0 : ∀ x : K, 0 ≤ x → 0 ≤ Transc.sqrt x)
    (hsq : ∀ x : K, 0 ≤ x → Transc.sqrt x * Transc.sqrt x = x) (hE : 0 < (Eps.epsilon : K))
    (c : Cubic K) (s : Seg K) (hab : s.a ≠ s.b) (t u : K) (ht : t ∈ c.lineIntersectionsT s.toLine)
    (ht0 : 0 < t) (ht1 : t < 1) (hu0 : 0 ≤ u) (hu1 : u ≤ 1) (hp : c.sample t = s.sample u) :
    (t, u) ∈ c.lineSegmentIntersectionsT s := by
  rw [mem_lineSegmentIntersectionsT]
  refine ⟨boxes_intersect_of_common_point _ hE c s t u ht0.le ht1.le hu0 hu1 hp, ?_⟩
  rw [mem_segFilter, cubic_x_eq, cubic_y_eq]
  exact ⟨ht, (seg_range_iff s hab (c.sample t) u hp).mpr ⟨hu0, hu1⟩,
    (seg_t2_eq hs0 hsq s hab _ u hp hu0).symm, Or.inl ⟨ht0.ne', ht1.ne⟩⟩

/-- conversely: a reported pair `(t, u)` has `t` among the values of the line query; and if the
curve point at `t` is on the carrier line, then `u ∈ [0,1]` and it IS the segment point at `u` -/
theorem segment_mem_imp (hs0 : ∀ x : K, 0 ≤ x → 0 ≤ Transc.sqrt x)
    (hsq : ∀ x : K, 0 ≤ x → Transc.sqrt x * Transc.sqrt x = x)
    (c : Cubic K) (s : Seg K) (hab : s.a ≠ s.b) (t u : K) (h : (t, u) ∈ c.lineSegmentIntersectionsT s) :
    t ∈ c.lineIntersectionsT s.toLine
    ∧ (s.toVector.cross (c.sample t - s.a) = 0 → 0 ≤ u ∧ u ≤ 1 ∧ c.sample t = s.sample u) := by
  rw [mem_lineSegmentIntersectionsT, mem_segFilter, cubic_x_eq, cubic_y_eq] at h
  obtain ⟨_, ht, hr, hu, _⟩ := h
  refine ⟨ht, fun hon => ?_⟩
  have hp := carrier_param s (c.sample t) hab hon
  set u0 := (c.sample t - s.a).dot s.toVector / s.toVector.sqLen
  obtain ⟨h0, h1⟩ := (seg_range_iff s hab (c.sample t) u0 hp).mp hr
  have := seg_t2_eq hs0 hsq s hab _ u0 hp h0
  rw [hu, this]
  exact ⟨h0, h1, hp⟩

variable (L : CosLaws K)
include L

/-- **Every transversal crossing with the segment is reported** (cubic × line segment): a
non-degenerate segment, `EPSILON > 0`, the regime of the line query for the carrier line; if the
curve at `t ∈ (0,1)` meets the segment at its parameter `u ∈ [0,1]` and the tangent there is not
parallel to the segment, then `(t, u)` is in the answer of `line_segment_intersections_t`. -/
theorem cubic_segment_transversal_crossing_reported (hs0 : ∀ x : K, 0 ≤ x → 0 ≤ Transc.sqrt x)
    (hsq : ∀ x : K, 0 ≤ x → Transc.sqrt x * Transc.sqrt x = x)
    (hpow : ∀ x : K, 0 ≤ x → Transc.pow x (Roots.frac13 : K) ^ 3 = x)
    (hfin : ∀ x : K, Transc.isFinite x = true) (heps : ∀ r : K, 0 < Eps.epsilonFor r)
    (hE : 0 < (Eps.epsilon : K)) (c : Cubic K) (s : Seg K) (hab : s.a ≠ s.b)
    (hA : ¬ |c.liCoefA (Cubic.unitLine s.toLine)| < Roots.eps (c.liCoefA (Cubic.unitLine s.toLine))
      (c.liCoefB (Cubic.unitLine s.toLine)) (c.liCoefC (Cubic.unitLine s.toLine))
      (c.liCoefD (Cubic.unitLine s.toLine)))
    (t u : K) (ht0 : 0 < t) (ht1 : t < 1) (hu0 : 0 ≤ u) (hu1 : u ≤ 1) (hp : c.sample t = s.sample u)
    (htr : s.toVector.cross (c.derivative t) ≠ 0) : (t, u) ∈ c.lineSegmentIntersectionsT s := by
  apply segment_crossing_mem hs0 hsq hE c s hab t u _ ht0 ht1 hu0 hu1 hp
  apply cubic_line_transversal_crossing_reported L hs0 hsq hpow hfin heps c s.toLine
    (toLine_vector_ne_zero s hab) hA t ht0.le ht1.le _ htr
  show s.toVector.cross (c.sample t - s.a) = 0
  rw [hp]; exact sample_on_carrier s u

/-- **Three crossings of the carrier line: the answer is exactly the crossings that lie on the
segment.**  If the curve meets the carrier line of the (non-degenerate) segment at three parameters
`0 < t₁ < t₂ < t₃ < 1`, then `line_segment_intersections_t` returns exactly the pairs `(tᵢ, u)` with
`u ∈ [0,1]` and `curve(tᵢ) = segment(u)`. -/
theorem cubic_segment_crossings_reported (hs0 : ∀ x : K, 0 ≤ x → 0 ≤ Transc.sqrt x)
    (hsq : ∀ x : K, 0 ≤ x → Transc.sqrt x * Transc.sqrt x = x)
    (hfin : ∀ x : K, Transc.isFinite x = true) (heps : ∀ r : K, 0 < Eps.epsilonFor r)
    (hE : 0 < (Eps.epsilon : K)) (c : Cubic K) (s : Seg K) (hab : s.a ≠ s.b)
    (hA : ¬ |c.liCoefA (Cubic.unitLine s.toLine)| < Roots.eps (c.liCoefA (Cubic.unitLine s.toLine))
      (c.liCoefB (Cubic.unitLine s.toLine)) (c.liCoefC (Cubic.unitLine s.toLine))
      (c.liCoefD (Cubic.unitLine s.toLine)))
    (t1 t2 t3 : K) (h01 : 0 < t1) (h12 : t1 < t2) (h23 : t2 < t3) (h31 : t3 < 1)
    (on1 : s.toVector.cross (c.sample t1 - s.a) = 0)
    (on2 : s.toVector.cross (c.sample t2 - s.a) = 0)
    (on3 : s.toVector.cross (c.sample t3 - s.a) = 0) (t u : K) :
    (t, u) ∈ c.lineSegmentIntersectionsT s ↔
      ((t = t1 ∨ t = t2 ∨ t = t3) ∧ 0 ≤ u ∧ u ≤ 1 ∧ c.sample t = s.sample u) := by
  obtain ⟨hmem, _, _, _⟩ := cubic_line_crossings_reported L hs0 hsq hfin heps c s.toLine
    (toLine_vector_ne_zero s hab) hA t1 t2 t3 h01.le h12 h23 h31.le on1 on2 on3
  constructor
  · intro h
    obtain ⟨ht, himp⟩ := segment_mem_imp hs0 hsq c s hab t u h
    have ht' := (hmem t).mp ht
    refine ⟨ht', himp ?_⟩
    rcases ht' with e | e | e <;> rw [e] <;> assumption
  · rintro ⟨ht, hu0, hu1, hp⟩
    have hin : 0 < t ∧ t < 1 := by
      rcases ht with e | e | e <;> rw [e] <;> constructor <;> linarith
    exact segment_crossing_mem hs0 hsq hE c s hab t u ((hmem t).mpr ht) hin.1 hin.2 hu0 hu1 hp

end segment

end Lyon.C12d
