/-
  C14 — every view of a stored path tells the same story, safely.

  All statements are about the model of `crates/path/src/{path,path_buffer,commands,polygon,
  iterator}.rs` in `Model/Path/*.lean` — the same definitions the correspondence check runs
  (with `S := Int`) against the real builders and views on every run.  They hold for every
  scalar type `S`, every well-nested builder program of any length and every attribute count.

  Reading guide.  A view returns `Option`: `none` means "some slice index / pointer read /
  checked subtraction / assertion of the Rust code fails" (see `Model/Path/Store.lean`).  So
  `view P = some evs` says two things at once: the view performs no read outside the storage
  (`no_oob`) and yields `evs`.
-/
import LyonVerif.Lemmas.PathViews
import LyonVerif.Lemmas.PathMore

set_option linter.unusedSectionVars false
set_option linter.unusedVariables false

namespace Lyon.C14
open Lyon.Path

variable {S : Type} [Inhabited S]

/-- a builder program the property quantifies over: `(begin edge* end)*`, every endpoint with
exactly `n` custom attributes -/
def ValidProg (n : Nat) (prog : Prog S) : Prop := WellNested prog ∧ attrsOk n prog = true

/-- the storage `Path::builder_with_attributes(n)` ends up with for `prog` -/
def stored (n : Nat) (prog : Prog S) : PathData S :=
  ⟨emitPts zeroPt (List.replicate n default) prog, emitVerbs prog, n⟩

/-- The builder accepts every valid program (no attribute-count assertion fires) and stores
exactly `stored n prog`. -/
theorem builder_total (n : Nat) (prog : Prog S) (hv : ValidProg n prog) :
    buildWithAttributes n prog = some (stored n prog) :=
  buildWithAttributes_emit n prog hv.2

/-- The specification events of a valid program are well-formed: each sub-path is Begin, edges,
End; each edge starts where the previous ended; End names the last and the first point. -/
theorem spec_wellformed [DecidableEq S] (n : Nat) (prog : Prog S) (hv : ValidProg n prog) :
    WellFormed (specEvents prog) :=
  specEvents_wellFormed prog hv.1

/-- `Path::iter` on a built path yields exactly the specification events (and reads only inside
the storage). -/
theorem iter_eq_spec (n : Nat) (prog : Prog S) (hv : ValidProg n prog) :
    (stored n prog).iter = some (specEvents prog) := by
  obtain ⟨c', f', h⟩ := iterGo_emit n prog none zeroPt (List.replicate n default) zeroPt zeroPt [] []
    hv.1 hv.2 (by simp) (by intro f0 c0 h; cases h)
  simpa [PathData.iter, stored, iterGo, specEvents] using h

/-- `Path::iter_with_attributes` yields the specification events with each endpoint carrying
the attributes it was given (odd counts and the extra point stored by Close included). -/
theorem with_attributes_eq (n : Nat) (prog : Prog S) (hv : ValidProg n prog) :
    (stored n prog).iterWithAttributes = some (specEvents (prog.map aCall)) := by
  obtain ⟨c', f', h⟩ := iterAttrGo_emit n prog none zeroPt (List.replicate n default) (zeroPt, [])
    (zeroPt, []) [] [] hv.1 hv.2 (by simp) (by intro f0 c0 h; cases h)
  simpa [PathData.iterWithAttributes, stored, iterAttrGo, specEvents] using h

/-- `Path::id_iter`, each id resolved through the path's own position and attribute stores
(`path[id]`, `path.attributes(id)`), is `iter_with_attributes`. -/
theorem id_iter_resolves_attributes (n : Nat) (prog : Prog S) (hv : ValidProg n prog) :
    resolveAll (stored n prog).endpointA (stored n prog).ctrlA (stored n prog).idIter
      = some (specEvents (prog.map aCall)) := by
  have h := resolveA_emit (stored n prog) prog none zeroPt (List.replicate n default) [] 0 0
    (by simp [stored]) hv.1 hv.2 (by simp [stored]) (by simp) (by intro f0 c0 h; cases h)
  simpa [PathData.idIter, stored, specEvents] using h

/-- `Path::id_iter` resolved through the position store is `iter`. -/
theorem id_iter_resolves (n : Nat) (prog : Prog S) (hv : ValidProg n prog) :
    resolveAll (stored n prog).point (stored n prog).point (stored n prog).idIter
      = some (specEvents prog) := by
  have h := resolveAll_fst _ _ _ (id_iter_resolves_attributes n prog hv)
  simpa [specEvents, specFrom_aCall_fst] using h

/-! ### the plain builder (`Path::builder()`) -/

theorem plain_builder_storage {A : Type} (prog : List (Call (Pt S) A)) :
    buildPlain prog = stored 0 (prog.map noAttr) := by
  simp [buildPlain, plain_run_emit, BuilderImpl.build, BuilderImpl.new, stored]

theorem validProg_noAttr {A : Type} (prog : List (Call (Pt S) A)) (h : WellNested prog) :
    ValidProg 0 (prog.map (noAttr (S := S))) :=
  ⟨by simpa [WellNested, wellNestedFrom_noAttr] using h, attrsOk_noAttr prog⟩

/-- `Path::builder()` (attributes ignored): `iter` yields the specification events. -/
theorem iter_eq_spec_plain {A : Type} (prog : List (Call (Pt S) A)) (h : WellNested prog) :
    (buildPlain prog).iter = some (specEvents prog) := by
  rw [plain_builder_storage, iter_eq_spec 0 _ (validProg_noAttr prog h)]
  simp [specEvents, specFrom_noAttr]

/-- `Path::builder()`: `id_iter` resolved through the path is `iter`. -/
theorem id_iter_resolves_plain {A : Type} (prog : List (Call (Pt S) A)) (h : WellNested prog) :
    resolveAll (buildPlain prog).point (buildPlain prog).point (buildPlain prog).idIter
      = some (specEvents prog) := by
  rw [plain_builder_storage, id_iter_resolves 0 _ (validProg_noAttr prog h)]
  simp [specEvents, specFrom_noAttr]

/-! ### concatenation -/

theorem validProg_append (n : Nat) (p q : Prog S) (hp : ValidProg n p) (hq : ValidProg n q) :
    ValidProg n (p ++ q) :=
  ⟨wellNestedFrom_append false p q hp.1 hq.1, by simp [attrsOk_append, hp.2, hq.2]⟩

theorem stored_append (n : Nat) (p q : Prog S) (hq : ValidProg n q) :
    (stored n (p ++ q)).points = (stored n p).points ++ (stored n q).points ∧
    (stored n (p ++ q)).verbs = (stored n p).verbs ++ (stored n q).verbs := by
  refine ⟨?_, by simp [stored, emitVerbs_append]⟩
  simp only [stored, emitPts_append]
  rw [emitPts_indep q hq.1 _ zeroPt _ (List.replicate n default)]

/-- `extend_from_paths`: appending the storage of paths built from programs `qs` to a builder
that has run `p` gives exactly the storage of the concatenated program — so every view theorem
applies to it. -/
theorem concat_is_append (n : Nat) (p : Prog S) (qs : List (Prog S))
    (hqs : ∀ q ∈ qs, ValidProg n q) :
    concatenatePaths (stored n p).points (stored n p).verbs (qs.map (stored n)) n
      = some ((stored n (p ++ qs.flatten)).points, (stored n (p ++ qs.flatten)).verbs) := by
  have hall : (qs.map (stored n)).all (fun P => P.numAttributes == n) = true := by
    simp [stored]
  simp only [concatenatePaths, hall, if_true, Option.some.injEq]
  clear hall
  induction qs generalizing p with
  | nil => simp
  | cons q r ih =>
    have hq := hqs q (by simp)
    obtain ⟨h1, h2⟩ := stored_append n p q hq
    simp only [List.map_cons, List.foldl_cons, ← h1, ← h2]
    rw [ih (p ++ q) (fun q' hq' => hqs q' (by simp [hq']))]
    simp [List.append_assoc]

theorem specFrom_append (st : Option (Pt S × Pt S)) (p q : Prog S)
    (hp : wellNestedFrom st.isSome p = true) :
    specFrom st (p ++ q) = specFrom st p ++ specFrom none q := by
  induction p generalizing st with
  | nil => cases st <;> simp_all [wellNestedFrom, specFrom]
  | cons c r ih =>
    cases st with
    | none => cases c <;> simp_all [wellNestedFrom, specFrom]
    | some fc => obtain ⟨f, c0⟩ := fc; cases c <;> simp_all [wellNestedFrom, specFrom]

/-- … in particular the concatenation iterates as the concatenation of the parts. -/
theorem concat_iter (n : Nat) (p q : Prog S) (hp : ValidProg n p) (hq : ValidProg n q) :
    (stored n (p ++ q)).iter = some (specEvents p ++ specEvents q) := by
  rw [iter_eq_spec n _ (validProg_append n p q hp hq)]
  simp [specEvents, specFrom_append none p q hp.1]


/-! ### path buffers -/

/-- `PathBuffer`: a path appended with the plain builder reads back, through `get`, as exactly
the storage `Path::builder()` would have produced on its own (whatever the buffer already
holds); `adjust_id` never underflows; the ids are relative to the entry. -/
theorem path_buffer_get_partial {A : Type} (b : PathBuffer S) (prog : List (Call (Pt S) A)) :
    ∃ b' ids, b.addPlain prog = some (b', ids, b.paths.length) ∧
      b'.get b.paths.length = some (buildPlain prog) := by
  have hge := run_ids_ge (S := S) ⟨b.points, b.verbs, zeroPt⟩ prog b.points.length (by simp)
  refine ⟨_, _, by simp only [PathBuffer.addPlain, adjustIds_total _ _ hge, Option.map_some]; rfl, ?_⟩
  have h1 := sliceRange_mid b.points (emitPts (S := S) zeroPt [] (prog.map noAttr)) []
  have h2 := sliceRange_mid b.verbs (emitVerbs (S := S) (prog.map noAttr)) []
  simp only [List.append_nil] at h1 h2
  simp [PathBuffer.get, plain_run_emit, h1, h2, plain_builder_storage, stored]

/-- The same for an entry written with attributes, mirroring the code as it is: the storage is
the right one, but the descriptor says `num_attributes = 0`. -/
theorem path_buffer_get_attributes_storage (b : PathBuffer S) (n : Nat) (prog : Prog S)
    (hv : ValidProg n prog) (b' : PathBuffer S) (ids : List Nat) (idx : Nat)
    (h : b.addWithAttributes n prog = some (b', ids, idx)) :
    idx = b.paths.length ∧
    b'.get idx = some { stored n prog with numAttributes := 0 } := by
  have hr := run_emit (S := S) ⟨⟨b.points, b.verbs, zeroPt⟩, n, List.replicate n default⟩ prog hv.2
    (by simp)
  simp only [PathBuffer.addWithAttributes] at h
  cases hrun : BuilderWithAttributes.run (S := S)
      ⟨⟨b.points, b.verbs, zeroPt⟩, n, List.replicate n default⟩ prog with
  | none => simp [hrun] at h
  | some r =>
    simp only [hrun, Option.map_some, Option.some.injEq] at hr
    simp only [hrun, Option.bind_some] at h
    cases hadj : adjustIds b.points.length r.2 with
    | none => simp [hadj] at h
    | some ids' =>
      simp only [hadj, Option.map_some, Option.some.injEq, Prod.mk.injEq] at h
      obtain ⟨hb, hids, hidx⟩ := h
      refine ⟨hidx.symm, ?_⟩
      have h1 := sliceRange_mid b.points (emitPts (S := S) zeroPt (List.replicate n default) prog) []
      have h2 := sliceRange_mid b.verbs (emitVerbs (S := S) prog) []
      simp only [List.append_nil] at h1 h2
      subst hb
      simp [PathBuffer.get, hr, ← hidx, h1, h2, stored]


end Lyon.C14
