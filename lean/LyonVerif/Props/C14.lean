/-
  C14 — every view of a stored path tells the same story, safely.

  All statements are about the model of `crates/path/src/{path,path_buffer,commands,polygon,
  iterator}.rs` in `Model/Path/*.lean` — the same definitions the correspondence check runs
  (with `S := Int`) against the real builders and views on every run.  They hold for every
  scalar type `S`, every well-nested builder program of any length and every attribute count.

  Reading guide.  A view returns `Option`: `none` means "some slice index / pointer read /
  checked subtraction / assertion of the Rust code fails" (see `Model/Path/Store.lean`).  So
  `view P = some evs` says two things at once: the view performs no read outside the storage
  (`no_oob`) and yields `evs`.
-/
import LyonVerif.Lemmas.PathViews
import LyonVerif.Lemmas.PathMore
import LyonVerif.Lemmas.PathCommands
import LyonVerif.Lemmas.PathReversedModel
import LyonVerif.Lemmas.AdaptersStored
import LyonVerif.Lemmas.AdaptersStoredViews
import LyonVerif.Model.Path.Polygon
import LyonVerif.Model.Path.Commands

set_option linter.unusedSectionVars false
set_option linter.unusedVariables false
set_option linter.unusedSimpArgs false

namespace Lyon.C14
open Lyon.Path

variable {S : Type} [Inhabited S]

/-- a builder program the property quantifies over: `(begin edge* end)*`, every endpoint with
exactly `n` custom attributes -/
def ValidProg (n : Nat) (prog : Prog S) : Prop := WellNested prog ∧ attrsOk n prog = true

/-- the storage `Path::builder_with_attributes(n)` ends up with for `prog` -/
def stored (n : Nat) (prog : Prog S) : PathData S :=
  ⟨emitPts zeroPt (List.replicate n default) prog, emitVerbs prog, n⟩

/-- The builder accepts every valid program (no attribute-count assertion fires) and stores
exactly `stored n prog`. -/
theorem builder_total (n : Nat) (prog : Prog S) (hv : ValidProg n prog) :
    buildWithAttributes n prog = some (stored n prog) :=
  buildWithAttributes_emit n prog hv.2

/-- The specification events of a valid program are well-formed: each sub-path is Begin, edges,
End; each edge starts where the previous ended; End names the last and the first point. -/
theorem spec_wellformed [DecidableEq S] (n : Nat) (prog : Prog S) (hv : ValidProg n prog) :
    WellFormed (specEvents prog) :=
  specEvents_wellFormed prog hv.1

/-- `Path::iter` on a built path yields exactly the specification events (and reads only inside
the storage). -/
theorem iter_eq_spec (n : Nat) (prog : Prog S) (hv : ValidProg n prog) :
    (stored n prog).iter = some (specEvents prog) := by
  obtain ⟨c', f', h⟩ := iterGo_emit n prog none zeroPt (List.replicate n default) zeroPt zeroPt [] []
    hv.1 hv.2 (by simp) (by intro f0 c0 h; cases h)
  simpa [PathData.iter, stored, iterGo, specEvents] using h

/-- `Path::iter_with_attributes` yields the specification events with each endpoint carrying
the attributes it was given (odd counts and the extra point stored by Close included). -/
theorem with_attributes_eq (n : Nat) (prog : Prog S) (hv : ValidProg n prog) :
    (stored n prog).iterWithAttributes = some (specEvents (prog.map aCall)) := by
  obtain ⟨c', f', h⟩ := iterAttrGo_emit n prog none zeroPt (List.replicate n default) (zeroPt, [])
    (zeroPt, []) [] [] hv.1 hv.2 (by simp) (by intro f0 c0 h; cases h)
  simpa [PathData.iterWithAttributes, stored, iterAttrGo, specEvents] using h

/-- `Path::id_iter`, each id resolved through the path's own position and attribute stores
(`path[id]`, `path.attributes(id)`), is `iter_with_attributes`. -/
theorem id_iter_resolves_attributes (n : Nat) (prog : Prog S) (hv : ValidProg n prog) :
    resolveAll (stored n prog).endpointA (stored n prog).ctrlA (stored n prog).idIter
      = some (specEvents (prog.map aCall)) := by
  have h := resolveA_emit (stored n prog) prog none zeroPt (List.replicate n default) [] 0 0
    (by simp [stored]) hv.1 hv.2 (by simp [stored]) (by simp) (by intro f0 c0 h; cases h)
  simpa [PathData.idIter, stored, specEvents] using h

/-- `Path::id_iter` resolved through the position store is `iter`. -/
theorem id_iter_resolves (n : Nat) (prog : Prog S) (hv : ValidProg n prog) :
    resolveAll (stored n prog).point (stored n prog).point (stored n prog).idIter
      = some (specEvents prog) := by
  have h := resolveAll_fst _ _ _ (id_iter_resolves_attributes n prog hv)
  simpa [specEvents, specFrom_aCall_fst] using h

/-! ### the plain builder (`Path::builder()`) -/

theorem plain_builder_storage {A : Type} (prog : List (Call (Pt S) A)) :
    buildPlain prog = stored 0 (prog.map noAttr) := by
  simp [buildPlain, plain_run_emit, BuilderImpl.build, BuilderImpl.new, stored]

theorem validProg_noAttr {A : Type} (prog : List (Call (Pt S) A)) (h : WellNested prog) :
    ValidProg 0 (prog.map (noAttr (S := S))) :=
  ⟨by simpa [WellNested, wellNestedFrom_noAttr] using h, attrsOk_noAttr prog⟩

/-- `Path::builder()` (attributes ignored): `iter` yields the specification events. -/
theorem iter_eq_spec_plain {A : Type} (prog : List (Call (Pt S) A)) (h : WellNested prog) :
    (buildPlain prog).iter = some (specEvents prog) := by
  rw [plain_builder_storage, iter_eq_spec 0 _ (validProg_noAttr prog h)]
  simp [specEvents, specFrom_noAttr]

/-- `Path::builder()`: `id_iter` resolved through the path is `iter`. -/
theorem id_iter_resolves_plain {A : Type} (prog : List (Call (Pt S) A)) (h : WellNested prog) :
    resolveAll (buildPlain prog).point (buildPlain prog).point (buildPlain prog).idIter
      = some (specEvents prog) := by
  rw [plain_builder_storage, id_iter_resolves 0 _ (validProg_noAttr prog h)]
  simp [specEvents, specFrom_noAttr]

/-! ### concatenation -/

theorem validProg_append (n : Nat) (p q : Prog S) (hp : ValidProg n p) (hq : ValidProg n q) :
    ValidProg n (p ++ q) :=
  ⟨wellNestedFrom_append false p q hp.1 hq.1, by simp [attrsOk_append, hp.2, hq.2]⟩

theorem stored_append (n : Nat) (p q : Prog S) (hq : ValidProg n q) :
    (stored n (p ++ q)).points = (stored n p).points ++ (stored n q).points ∧
    (stored n (p ++ q)).verbs = (stored n p).verbs ++ (stored n q).verbs := by
  refine ⟨?_, by simp [stored, emitVerbs_append]⟩
  simp only [stored, emitPts_append]
  rw [emitPts_indep q hq.1 _ zeroPt _ (List.replicate n default)]

/-- `extend_from_paths`: appending the storage of paths built from programs `qs` to a builder
that has run `p` gives exactly the storage of the concatenated program — so every view theorem
applies to it. -/
theorem concat_is_append (n : Nat) (p : Prog S) (qs : List (Prog S))
    (hqs : ∀ q ∈ qs, ValidProg n q) :
    concatenatePaths (stored n p).points (stored n p).verbs (qs.map (stored n)) n
      = some ((stored n (p ++ qs.flatten)).points, (stored n (p ++ qs.flatten)).verbs) := by
  have hall : (qs.map (stored n)).all (fun P => P.numAttributes == n) = true := by
    simp [stored]
  simp only [concatenatePaths, hall, if_true, Option.some.injEq]
  clear hall
  induction qs generalizing p with
  | nil => simp
  | cons q r ih =>
    have hq := hqs q (by simp)
    obtain ⟨h1, h2⟩ := stored_append n p q hq
    simp only [List.map_cons, List.foldl_cons, ← h1, ← h2]
    rw [ih (p ++ q) (fun q' hq' => hqs q' (by simp [hq']))]
    simp [List.append_assoc]

theorem specFrom_append (st : Option (Pt S × Pt S)) (p q : Prog S)
    (hp : wellNestedFrom st.isSome p = true) :
    specFrom st (p ++ q) = specFrom st p ++ specFrom none q := by
  induction p generalizing st with
  | nil => cases st <;> simp_all [wellNestedFrom, specFrom]
  | cons c r ih =>
    cases st with
    | none => cases c <;> simp_all [wellNestedFrom, specFrom]
    | some fc => obtain ⟨f, c0⟩ := fc; cases c <;> simp_all [wellNestedFrom, specFrom]

/-- … in particular the concatenation iterates as the concatenation of the parts. -/
theorem concat_iter (n : Nat) (p q : Prog S) (hp : ValidProg n p) (hq : ValidProg n q) :
    (stored n (p ++ q)).iter = some (specEvents p ++ specEvents q) := by
  rw [iter_eq_spec n _ (validProg_append n p q hp hq)]
  simp [specEvents, specFrom_append none p q hp.1]


/-! ### path buffers -/

/-- `PathBuffer`: a path appended with the plain builder reads back, through `get`, as exactly
the storage `Path::builder()` would have produced on its own (whatever the buffer already
holds); `adjust_id` never underflows; the ids are relative to the entry. -/
theorem path_buffer_get_plain {A : Type} (b : PathBuffer S) (prog : List (Call (Pt S) A)) :
    ∃ b' ids, b.addPlain prog = some (b', ids, b.paths.length) ∧
      b'.get b.paths.length = some (buildPlain prog) := by
  have hge := run_ids_ge (S := S) ⟨b.points, b.verbs, zeroPt⟩ prog b.points.length (by simp)
  refine ⟨_, _, by simp only [PathBuffer.addPlain, adjustIds_total _ _ hge, Option.map_some]; rfl, ?_⟩
  have h1 := sliceRange_mid b.points (emitPts (S := S) zeroPt [] (prog.map noAttr)) []
  have h2 := sliceRange_mid b.verbs (emitVerbs (S := S) (prog.map noAttr)) []
  simp only [List.append_nil] at h1 h2
  simp [PathBuffer.get, plain_run_emit, h1, h2, plain_builder_storage, stored]

/-- `path_buffer_get`: a path appended with `with_attributes(n)` reads back, through `get`, as
exactly the storage `Path::builder_with_attributes(n)` would have produced on its own, attribute
count included — so every view theorem (`iter_eq_spec`, `with_attributes_eq`, …) applies to the
entry.  (False before /repo commit 61889d0a, which made `build` record the attribute count.) -/
theorem path_buffer_get (b : PathBuffer S) (n : Nat) (prog : Prog S)
    (hv : ValidProg n prog) (b' : PathBuffer S) (ids : List Nat) (idx : Nat)
    (h : b.addWithAttributes n prog = some (b', ids, idx)) :
    idx = b.paths.length ∧ b'.get idx = some (stored n prog) := by
  have hr := run_emit (S := S) ⟨⟨b.points, b.verbs, zeroPt⟩, n, List.replicate n default⟩ prog hv.2
    (by simp)
  simp only [PathBuffer.addWithAttributes] at h
  cases hrun : BuilderWithAttributes.run (S := S)
      ⟨⟨b.points, b.verbs, zeroPt⟩, n, List.replicate n default⟩ prog with
  | none => simp [hrun] at h
  | some r =>
    simp only [hrun, Option.map_some, Option.some.injEq] at hr
    simp only [hrun, Option.bind_some] at h
    cases hadj : adjustIds b.points.length r.2 with
    | none => simp [hadj] at h
    | some ids' =>
      simp only [hadj, Option.map_some, Option.some.injEq, Prod.mk.injEq] at h
      obtain ⟨hb, hids, hidx⟩ := h
      refine ⟨hidx.symm, ?_⟩
      have h1 := sliceRange_mid b.points (emitPts (S := S) zeroPt (List.replicate n default) prog) []
      have h2 := sliceRange_mid b.verbs (emitVerbs (S := S) prog) []
      simp only [List.append_nil] at h1 h2
      subst hb
      simp [PathBuffer.get, hr, ← hidx, h1, h2, stored]

/-- … in particular the entry iterates with its attributes. -/
theorem path_buffer_get_with_attributes (b : PathBuffer S) (n : Nat) (prog : Prog S)
    (hv : ValidProg n prog) (b' : PathBuffer S) (ids : List Nat) (idx : Nat)
    (h : b.addWithAttributes n prog = some (b', ids, idx)) :
    (b'.get idx).bind PathData.iterWithAttributes = some (specEvents (prog.map aCall)) := by
  simp [(path_buffer_get b n prog hv b' ids idx h).2, with_attributes_eq n prog hv]

/-! ### polygons -/

/-- the builder program a polygon stands for -/
def polyProg {π : Type} (pts : List π) (closed : Bool) : List (Call π Unit) :=
  match pts with
  | [] => []
  | p :: r => Call.begin p () :: ((r.map fun q => Call.line q ()) ++ [Call.end_ closed])

theorem poly_iterGo_spec {π : Type} (closed : Bool) (r : List π) (prev first : π) :
    Poly.iterGo closed r (some prev) (some first)
      = some (specFrom (some (first, prev)) ((r.map fun q => Call.line q ()) ++ [Call.end_ (A := Unit) closed])) := by
  induction r generalizing prev with
  | nil => simp [Poly.iterGo, specFrom]
  | cons q r ih => simp [Poly.iterGo, specFrom, ih]

/-- `Polygon::iter`, `Polygon::path_events` and `IdPolygon::iter` (one state machine in the
code, one function in the model) yield the specification events of `begin p0, line p1 …,
end(closed)`; nothing for the empty polygon. -/
theorem polygon_iter_eq_spec {π : Type} (pts : List π) (closed : Bool) :
    Poly.iter pts closed = some (specEvents (polyProg pts closed)) := by
  cases pts with
  | nil => simp [Poly.iter, Poly.iterGo, polyProg, specEvents, specFrom]
  | cons p r => simp [Poly.iter, Poly.iterGo, polyProg, specEvents, specFrom, poly_iterGo_spec]

theorem poly_iterGo_event {π : Type} (closed : Bool) (r pre : List π) (prev first : π)
    (hne : pre ≠ []) (hlast : pre[pre.length - 1]? = some prev) (hfirst : pre[0]? = some first)
    (evs : List (Event π)) (h : Poly.iterGo closed r (some prev) (some first) = some evs)
    (j : Nat) (e : Event π) (he : evs[j]? = some e) :
    Poly.idPolygonEvent (pre ++ r) closed (pre.length + j) = some e := by
  have hpos : 0 < pre.length := List.length_pos_iff.mpr hne
  induction r generalizing pre prev evs j with
  | nil =>
    simp [Poly.iterGo] at h
    subst h
    cases j with
    | zero =>
      simp at he
      subst he
      have h0 : pre.length ≠ 0 := by omega
      have h1le : 1 ≤ pre.length := by omega
      simp [Poly.idPolygonEvent, h0, Poly.idPolygonEvent.csub, h1le, hlast, hfirst]
    | succ j => simp at he
  | cons q r ih =>
    simp only [Poly.iterGo] at h
    cases hr : Poly.iterGo closed r (some q) (some first) with
    | none => simp [hr] at h
    | some evs' =>
      simp [hr] at h
      subst h
      cases j with
      | zero =>
        simp at he
        subst he
        have h0 : pre.length ≠ 0 := by omega
        have h1 : (pre ++ q :: r)[pre.length - 1]? = some prev := by
          rw [List.getElem?_append_left (by omega)]; exact hlast
        have h1le : 1 ≤ pre.length := by omega
        simp [Poly.idPolygonEvent, h0, Poly.idPolygonEvent.csub, h1le, h1]
      | succ j =>
        simp at he
        have := ih (pre ++ [q]) q (by simp) (by simp) (by
          rw [List.getElem?_append_left (by omega)]; exact hfirst) evs' hr j he (by simp)
        simpa [Nat.add_assoc, Nat.add_comm 1 j] using this

/-- Random access agrees with iteration for `IdPolygon`: the `k`-th event of `iter` is
`event(k)`. -/
theorem idpolygon_event_eq_iter {π : Type} (pts : List π) (closed : Bool) (evs : List (Event π))
    (h : Poly.iter pts closed = some evs) (k : Nat) (e : Event π) (he : evs[k]? = some e) :
    Poly.idPolygonEvent pts closed k = some e := by
  cases pts with
  | nil => simp [Poly.iter, Poly.iterGo] at h; subst h; simp at he
  | cons p r =>
    simp only [Poly.iter, Poly.iterGo] at h
    cases hr : Poly.iterGo closed r (some p) (some p) with
    | none => simp [hr] at h
    | some evs' =>
      simp [hr] at h
      subst h
      cases k with
      | zero => simp at he; subst he; simp [Poly.idPolygonEvent]
      | succ k =>
        simp at he
        have := poly_iterGo_event closed r [p] p p (by simp) (by simp) (by simp) evs' hr k e he
        simpa [Nat.add_comm 1 k] using this

/-- `Polygon::event` is `IdPolygon::event` (since /repo commit 8a7d6750; it used to answer `End`
at `len - 1` and to index past the slice at `len`). -/
theorem polygonEvent_eq {π : Type} (pts : List π) (closed : Bool) (k : Nat) :
    Poly.polygonEvent pts closed k = Poly.idPolygonEvent pts closed k := rfl

theorem poly_idIterGo_spec (len : Nat) (closed : Bool) (m : Nat) :
    ∀ idx fuel, 1 ≤ idx → idx + m = len → m + 1 ≤ fuel →
      Poly.idIterGo 0 len closed fuel idx = some (specFrom (some (0, idx - 1))
        (((List.range' idx m).map fun q => Call.line q ()) ++ [Call.end_ (A := Unit) closed])) := by
  induction m with
  | zero =>
    intro idx fuel h1 h2 h3
    obtain ⟨f, rfl⟩ : ∃ f, fuel = f + 1 := ⟨fuel - 1, by omega⟩
    have e1 : ¬ (0 = len) := by omega
    have e2 : ¬ (idx = 0) := by omega
    have e3 : ¬ (idx < len) := by omega
    have e4 : idx = len := by omega
    subst e4
    have e5 : 1 ≤ idx := h1
    cases f with
    | zero => simp [Poly.idIterGo, Poly.idIterAt, Poly.idIterAt.csub1, e1, e2, e5, specFrom]
    | succ f =>
      have e6 : ¬ (idx + 1 = 0) := by omega
      have e7 : ¬ (idx + 1 < idx) := by omega
      have e8 : ¬ (idx + 1 = idx) := by omega
      simp [Poly.idIterGo, Poly.idIterAt, Poly.idIterAt.csub1, e1, e2, e5, e6, e7, e8, specFrom]
  | succ m ih =>
    intro idx fuel h1 h2 h3
    obtain ⟨f, rfl⟩ : ∃ f, fuel = f + 1 := ⟨fuel - 1, by omega⟩
    have e1 : ¬ (0 = len) := by omega
    have e2 : ¬ (idx = 0) := by omega
    have e3 : idx < len := by omega
    have h := ih (idx + 1) f (by omega) (by omega) (by omega)
    simp [Poly.idIterGo, Poly.idIterAt, Poly.idIterAt.csub1, e1, e2, e3, h1, h, specFrom,
      List.range'_succ]

/-- `Polygon::id_iter` is `IdPolygon::iter` over the ids `0 … len-1` — for every length, the
empty polygon included (nothing; before /repo commit e1fd69dd it yielded a lone `Begin`). -/
theorem polygon_id_iter_eq (len : Nat) (closed : Bool) :
    Poly.idIter len closed = some (specEvents (polyProg (List.range len) closed)) := by
  cases len with
  | zero => simp [Poly.idIter, Poly.idIterGo, Poly.idIterAt, polyProg, specEvents, specFrom]
  | succ n =>
    have h := poly_idIterGo_spec (n + 1) closed n 1 (n + 2) (by omega) (by omega) (by omega)
    have hr : List.range (n + 1) = 0 :: List.range' 1 n := by
      rw [List.range_eq_range', List.range'_succ]
    have hstep : Poly.idIterGo 0 (n + 1) closed (n + 2 + 1) 0
        = (Poly.idIterGo 0 (n + 1) closed (n + 2) 1).map fun t => Event.begin 0 :: t := by
      simp [Poly.idIterGo, Poly.idIterAt]
    simp only [Poly.idIter, hstep, h]
    simp [hr, polyProg, specEvents, specFrom]

theorem poly_resolve_spec {π : Type} (closed : Bool) (pts r pre : List π) (prev first : π)
    (hpts : pts = pre ++ r) (hne : 1 ≤ pre.length) (hlast : pts[pre.length - 1]? = some prev)
    (hfirst : pts[0]? = some first) :
    resolveAll (fun i => pts[i]?) (fun i => pts[i]?)
        (specFrom (some (0, pre.length - 1))
          (((List.range' pre.length r.length).map fun q => Call.line q ()) ++ [Call.end_ (A := Unit) closed]))
      = some (specFrom (some (first, prev)) ((r.map fun q => Call.line q ()) ++ [Call.end_ (A := Unit) closed])) := by
  induction r generalizing pre prev with
  | nil => simp [specFrom, resolveAll, resolveEvent, hlast, hfirst]
  | cons q r ih =>
    have hq : pts[pre.length]? = some q := by simp [hpts]
    have h := ih (pre ++ [q]) q (by simp [hpts]) (by simp) (by simpa using hq) 
    simp only [List.length_append, List.length_singleton, Nat.add_sub_cancel] at h
    simp [specFrom, resolveAll, resolveEvent, hlast, hq, List.range'_succ, h]

/-- `polygon_views_agree`: for every polygon (any length, the empty one included, open or
closed) `iter` / `path_events` yield the specification events of `begin p0, line p1 …,
end(closed)`; `id_iter` resolved through the polygon's own store yields the same; and `event(k)`
is the `k`-th of them for every valid id `k` (ids `len - 1` and `len` included).
(False before /repo commits 8a7d6750 and e1fd69dd.) -/
theorem polygon_views_agree {π : Type} (pts : List π) (closed : Bool) :
    Poly.iter pts closed = some (specEvents (polyProg pts closed)) ∧
    (Poly.idIter pts.length closed).bind (resolveAll (fun i => pts[i]?) (fun i => pts[i]?))
      = some (specEvents (polyProg pts closed)) ∧
    ∀ k e, (specEvents (polyProg pts closed))[k]? = some e → Poly.polygonEvent pts closed k = some e := by
  refine ⟨polygon_iter_eq_spec pts closed, ?_, ?_⟩
  · rw [polygon_id_iter_eq]
    cases pts with
    | nil => simp [polyProg, specEvents, specFrom, resolveAll]
    | cons p r =>
      have hr : List.range (r.length + 1) = 0 :: List.range' 1 r.length := by
        rw [List.range_eq_range', List.range'_succ]
      have h := poly_resolve_spec closed (p :: r) r [p] p p (by simp) (by simp) (by simp) (by simp)
      simp at h
      simp [polyProg, specEvents, specFrom, resolveAll, resolveEvent, hr, h]
  · intro k e he
    rw [polygonEvent_eq]
    exact idpolygon_event_eq_iter pts closed _ (polygon_iter_eq_spec pts closed) k e he

/-- `FromPolyline` yields the polygon's specification events for every point sequence, the empty
one included (no event; before /repo commit 468b373e it yielded a lone `End`). -/
theorem from_polyline_eq_spec {π : Type} (zero : π) (pts : List π) (closed : Bool) :
    Poly.fromPolyline zero closed pts = specEvents (polyProg pts closed) := by
  have h : ∀ (r : List π) (cur first : π), Poly.fromPolylineGo closed r cur first false
      = specFrom (some (first, cur)) ((r.map fun q => Call.line q ()) ++ [Call.end_ (A := Unit) closed]) := by
    intro r
    induction r with
    | nil => intro cur first; simp [Poly.fromPolylineGo, specFrom]
    | cons q r ih => intro cur first; simp [Poly.fromPolylineGo, specFrom, ih]
  cases pts with
  | nil => simp [Poly.fromPolyline, Poly.fromPolylineGo, polyProg, specEvents, specFrom]
  | cons p r => simp [Poly.fromPolyline, Poly.fromPolylineGo, polyProg, specEvents, specFrom, h]

/-- the polygon's events are well-formed (so all its views are) -/
theorem polygon_wellformed {π : Type} [DecidableEq π] (pts : List π) (closed : Bool) :
    WellFormed (specEvents (polyProg pts closed)) := by
  apply specEvents_wellFormed
  cases pts with
  | nil => simp [WellNested, polyProg, wellNestedFrom]
  | cons p r =>
    have h : ∀ r : List π, wellNestedFrom true (((r.map fun q => Call.line q ()) ++ [Call.end_ (A := Unit) closed])) = true := by
      intro r; induction r with
      | nil => simp [wellNestedFrom]
      | cons q r ih => simpa [wellNestedFrom] using ih
    simpa [WellNested, polyProg, wellNestedFrom] using h r

/-! ### command buffers -/

/-- `PathCommands::iter` on a built command buffer yields the program's specification events
(over ids); every `CmdIter::next().unwrap()` succeeds. -/
theorem commands_iter_eq_spec {A : Type} (prog : List (Call Nat A)) (h : WellNested prog) :
    Cmd.iter (Cmd.build prog).1 = some (specEvents prog) := by
  simp only [Cmd.iter, Cmd.build, Cmd.run_emit, Cmd.Builder.new, List.nil_append]
  exact Cmd.iterGo_emit prog none _ _ 0 0 h (by intro f0 c0 h; cases h)

/-- `PathCommands::events(endpoints, control_points)` (and `PointEvents`) is the id-event
sequence with every id looked up in the external stores — in particular it stays inside the
stores exactly when all ids of the program are valid indices. -/
theorem commands_events_eq_spec {A π : Type} (prog : List (Call Nat A)) (h : WellNested prog)
    (eps cps : List π) :
    Cmd.events (Cmd.build prog).1 eps cps
      = resolveAll (fun i => eps[i]?) (fun i => cps[i]?) (specEvents prog) := by
  simp only [Cmd.events, Cmd.build, Cmd.run_emit, Cmd.Builder.new, List.nil_append]
  exact Cmd.eventsGo_emit eps cps prog none _ _ 0 0 h (by intro f0 c0 h; cases h)


/-- Random access agrees with iteration for `PathCommands`: the event ids the builder hands
back, each through `event(id)`, give exactly the events `iter` yields (all reads in bounds,
including the back-pointer to the sub-path's first event used by End/Close). -/
theorem commands_event_eq_iter {A : Type} (prog : List (Call Nat A)) (h : WellNested prog) :
    (Cmd.build prog).2.mapM (Cmd.event (Cmd.build prog).1) = some (specEvents prog) := by
  simp only [Cmd.build, Cmd.run_emit, Cmd.run_ids, Cmd.Builder.new, List.nil_append]
  exact Cmd.mapM_event_emit _ prog none [] 0 (by simp) h (by intro f0 c0 h; cases h)


/-! ### first endpoint, no out-of-bounds read -/

/-- `first_endpoint` of a built path: `None` for the empty path, otherwise the first `begin`
with its attributes. -/
theorem first_endpoint_eq (n : Nat) (prog : Prog S) (hv : ValidProg n prog) :
    (stored n prog).firstEndpoint =
      some (match prog with
            | Call.begin p a :: _ => some (p, a)
            | _ => none) := by
  cases prog with
  | nil => simp [PathData.firstEndpoint, stored, emitPts]
  | cons c r =>
    obtain ⟨hn, ha⟩ := hv
    cases c with
    | begin p a =>
      simp only [attrsOk, Bool.and_eq_true, beq_iff_eq] at ha
      have h := endpointA_at (stored n (Call.begin p a :: r)) [] (emitPts p a r) p a
        (by simp [stored, emitPts]) (by simpa [stored] using ha.1)
      simp at h
      simp [PathData.firstEndpoint, stored, emitPts, endpointPts] at h ⊢
      exact h
    | _ => simp [WellNested, wellNestedFrom] at hn

/-- No out-of-bounds read: on a path produced by a builder from a valid program, every
`List` index / pointer read / checked subtraction / assertion performed by `iter`,
`iter_with_attributes`, `id_iter` + `path[id]` + `path.attributes(id)` and `first_endpoint`
succeeds (the views return `some`).  (`reversed`, `last_endpoint`: `no_oob_reversed` below.) -/
theorem no_oob (n : Nat) (prog : Prog S) (hv : ValidProg n prog) :
    (buildWithAttributes n prog).isSome ∧
    (stored n prog).iter.isSome ∧
    (stored n prog).iterWithAttributes.isSome ∧
    (resolveAll (stored n prog).point (stored n prog).point (stored n prog).idIter).isSome ∧
    (resolveAll (stored n prog).endpointA (stored n prog).ctrlA (stored n prog).idIter).isSome ∧
    (stored n prog).firstEndpoint.isSome := by
  simp [builder_total n prog hv, iter_eq_spec n prog hv, with_attributes_eq n prog hv,
    id_iter_resolves n prog hv, id_iter_resolves_attributes n prog hv, first_endpoint_eq n prog hv]

/-! ### `Reversed` -/

/-- `Path::reversed().with_attributes()` on a built path yields exactly the specification
reversal of the path's events (sub-paths in reverse order, each traversed backwards, attributes
travelling with their endpoints), and every index it computes stays inside the storage. -/
theorem reversed_eq_spec (n : Nat) (prog : Prog S) (hv : ValidProg n prog) :
    (stored n prog).reversedWithAttributes
      = some (reverseEvents (specEvents (prog.map aCall))) := by
  have hn : nestState false prog = some false :=
    (wellNestedFrom_iff_nestState false prog).mp hv.1
  have h := reversedGo_prefix (stored n prog) zeroPt (List.replicate n default) (by simp [stored])
    prog.reverse [] false none false (by simp [stored]) (by simpa using hn) (by simpa [stored] using hv.2)
    (by simp)
  simpa [PathData.reversedWithAttributes, stored, reverseEvents, specEvents] using h

/-- `Path::reversed()` (positions only) is the same with the attributes dropped. -/
theorem reversed_eq_spec_points (n : Nat) (prog : Prog S) (hv : ValidProg n prog) :
    (stored n prog).reversed
      = some ((reverseEvents (specEvents (prog.map aCall))).map (withPoints Prod.fst)) := by
  simp [PathData.reversed, reversed_eq_spec n prog hv]

theorem spec_aCall_wellformed [DecidableEq S] (n : Nat) (prog : Prog S) (hv : ValidProg n prog) :
    WellFormed (specEvents (prog.map aCall)) :=
  specEvents_wellFormed _ (by simpa [WellNested, wellNestedFrom_map_aCall] using hv.1)

/-- `reversed_wellformed`: the reversed view of a built path is a well-formed event sequence. -/
theorem reversed_wellformed [DecidableEq S] (n : Nat) (prog : Prog S) (hv : ValidProg n prog) :
    ∃ evs, (stored n prog).reversedWithAttributes = some evs ∧ WellFormed evs :=
  ⟨_, reversed_eq_spec n prog hv, reverseEvents_wellFormed _ (spec_aCall_wellformed n prog hv)⟩

/-- `reversed_involutive`: reversing a built path, rebuilding it (`Reversed::into_path`, i.e.
feeding the reversed events to `builder_with_attributes(n)`) and reversing again yields the
original path's events with their attributes — no assertion fires and no read leaves the
storage on the way. -/
theorem reversed_involutive [DecidableEq S] (n : Nat) (prog : Prog S) (hv : ValidProg n prog) :
    ((stored n prog).reversedIntoPath.bind PathData.reversedWithAttributes)
      = (stored n prog).iterWithAttributes := by
  have hwf := spec_aCall_wellformed n prog hv
  have hrwf := reverseEvents_wellFormed _ hwf
  have hok : ∀ e ∈ reverseEvents (specEvents (prog.map aCall)), evOk n e = true :=
    evOk_revGo n _ false none
      (by intro e he
          exact evOk_spec n prog none hv.2 (by simp) e (by simpa [specEvents] using he))
      (by simp)
  obtain ⟨h1, h2, h3⟩ := spec_eventToCall n _ none hrwf hok
  have hv' : ValidProg n ((reverseEvents (specEvents (prog.map aCall))).map eventToCall) := ⟨h2, h3⟩
  simp only [PathData.reversedIntoPath, reversed_eq_spec n prog hv, Option.bind_some]
  have hs : (stored n prog).numAttributes = n := rfl
  rw [hs, builder_total n _ hv']
  have h1' : specEvents (((reverseEvents (specEvents (prog.map aCall))).map eventToCall).map aCall)
      = reverseEvents (specEvents (prog.map aCall)) := h1
  rw [Option.bind_some, reversed_eq_spec n _ hv', h1', with_attributes_eq n prog hv,
    reverseEvents_involutive _ hwf]


/-! ### `last_endpoint` -/
/-- a non-empty well-nested program ends with `end`, after a prefix that is inside a sub-path -/
theorem wellNested_last (prog : Prog S) (h : WellNested prog) (hne : prog ≠ []) :
    ∃ pre cl, prog = pre ++ [Call.end_ cl] ∧ nestState false pre = some true := by
  have hn : nestState false prog = some false := (wellNestedFrom_iff_nestState false prog).mp h
  cases hr : prog.reverse with
  | nil => simp at hr; exact absurd hr hne
  | cons c rp =>
    have hp : prog = rp.reverse ++ [c] := by
      have := congrArg List.reverse hr; simpa using this
    rw [hp, nestState_append] at hn
    cases hb : nestState false rp.reverse with
    | none => simp [hb] at hn
    | some b =>
      simp only [hb, Option.bind_some] at hn
      cases b <;> cases c <;> simp [nestState] at hn
      exact ⟨rp.reverse, _, hp, hb⟩

/-- `last_endpoint` of a built path: `None` for the empty path; otherwise the current position
after the last sub-path — its last endpoint, or its first point if it was closed — with that
endpoint's attributes. -/
theorem last_endpoint_eq (n : Nat) (prog : Prog S) (hv : ValidProg n prog) :
    (stored n prog).lastEndpoint =
      some (match (specEvents (prog.map aCall)).getLast? with
            | some (Event.end_ l f cl) => some (if cl then f else l)
            | _ => none) := by
  by_cases hne : prog = []
  · subst hne; simp [PathData.lastEndpoint, stored, emitPts, specEvents, specFrom]
  · obtain ⟨pre, cl, hp, hb⟩ := wellNested_last prog hv.1 hne
    subst hp
    have ha := hv.2
    rw [attrsOk_append, Bool.and_eq_true] at ha
    have hiss := stateAfter_isSome (none : Option (APt S × APt S)) (pre.map aCall) true
      (by rw [nestState_map_aCall]; exact hb)
    obtain ⟨⟨fstp, cur, ca⟩, hσ⟩ : ∃ x, stateAfter none (pre.map aCall) = some x :=
      Option.isSome_iff_exists.mp hiss
    obtain ⟨hfa, hca, A, hA⟩ := tail_inv n pre none zeroPt (List.replicate n default) [] true
      (by simpa using hb) ha.1 (by intro _ _ _ h; cases h) fstp cur ca hσ
    simp only [List.nil_append] at hA
    have hfal := firstAfter_length n zeroPt (List.replicate n default) pre ha.1 (by simp)
    have hspec : (specEvents ((pre ++ [Call.end_ cl]).map aCall)).getLast?
        = some (Event.end_ (cur, ca) fstp cl) := by
      simp [specEvents, specFrom_append_state, hσ, specFrom, aCall]
    rw [hspec]
    cases cl with
    | false =>
      have hpts : (stored n (pre ++ [Call.end_ false])).points = A ++ (endpointPts cur ca ++ []) := by
        simp [stored, emitPts_append, emitPts, hA]
      have hE := endpointA_at (stored n (pre ++ [Call.end_ false])) A [] cur ca hpts (by simpa [stored] using hca)
      have hlen : (stored n (pre ++ [Call.end_ false])).points.length = A.length + 1 + attribStride n := by
        simp [hpts, endpointPts_length, hca]; omega
      have hemp : (stored n (pre ++ [Call.end_ false])).points.isEmpty = false := by
        simp [hpts, endpointPts]
      simp [PathData.lastEndpoint, hemp, hlen, csub_add, hE, show (stored n (pre ++ [Call.end_ false])).numAttributes = n from rfl]
    | true =>
      have hpts : (stored n (pre ++ [Call.end_ true])).points
          = (A ++ endpointPts cur ca) ++ (endpointPts fstp.1 fstp.2 ++ []) := by
        simp [stored, emitPts_append, emitPts, hA, hfa]
      have hfl : fstp.2.length = n := by rw [← hfa]; exact hfal
      have hE := endpointA_at (stored n (pre ++ [Call.end_ true])) (A ++ endpointPts cur ca) [] fstp.1 fstp.2 hpts
        (by simpa [stored] using hfl)
      have hlen : (stored n (pre ++ [Call.end_ true])).points.length
          = (A ++ endpointPts cur ca).length + 1 + attribStride n := by
        simp [hpts, endpointPts_length, hca, hfl]; omega
      have hemp : (stored n (pre ++ [Call.end_ true])).points.isEmpty = false := by
        simp [hpts, endpointPts]
      simp only [List.length_append] at hE
      simp [PathData.lastEndpoint, hemp, hlen, csub_add, hE, show (stored n (pre ++ [Call.end_ true])).numAttributes = n from rfl]


/-- No out-of-bounds read, second part: `reversed`, `reversed().into_path()` reversed again, and
`last_endpoint` also stay inside the storage. -/
theorem no_oob_reversed [DecidableEq S] (n : Nat) (prog : Prog S) (hv : ValidProg n prog) :
    (stored n prog).reversedWithAttributes.isSome ∧
    (stored n prog).reversed.isSome ∧
    ((stored n prog).reversedIntoPath.bind PathData.reversedWithAttributes).isSome ∧
    (stored n prog).lastEndpoint.isSome := by
  simp [reversed_eq_spec n prog hv, reversed_eq_spec_points n prog hv, reversed_involutive n prog hv,
    with_attributes_eq n prog hv, last_endpoint_eq n prog hv]

/-! ### command buffers: walking by event id -/

/-- `next_event_id_in_path` maps the `j`-th event id the builder handed back (= the `j`-th id
`iter` passes) to the `j+1`-th, and the last one to `None`; the read is in bounds. -/
theorem commands_next_event_id {A : Type} (prog : List (Call Nat A)) (j id : Nat)
    (hj : (Cmd.build prog).2[j]? = some id) :
    Cmd.nextEventIdInPath (Cmd.build prog).1 id = some ((Cmd.build prog).2[j + 1]?) := by
  simp only [Cmd.build, Cmd.run_emit, Cmd.run_ids, Cmd.Builder.new, List.nil_append] at hj ⊢
  exact Cmd.nextInPath_emit _ prog [] 0 (by simp) j id hj

/-- Walking by `next_event_id_in_path` from the first id enumerates exactly the event ids. -/
theorem commands_walk_eq_ids {A : Type} (prog : List (Call Nat A)) (hne : prog ≠ []) :
    Cmd.walkIds (Cmd.build prog).1 (Cmd.build prog).1.length 0 = some (Cmd.build prog).2 := by
  have h0 : (Cmd.build prog).2[0]? = some 0 := by
    simp only [Cmd.build, Cmd.run_ids, Cmd.Builder.new, List.length_nil]
    rw [Cmd.emitIds_head]; simp [hne]
  have hlen : (Cmd.build prog).2.length = prog.length := by
    simp [Cmd.build, Cmd.run_ids, Cmd.emitIds_length]
  have hge : prog.length ≤ (Cmd.build prog).1.length := by
    simp only [Cmd.build, Cmd.run_emit, Cmd.Builder.new, List.nil_append]
    exact Cmd.emitCmds_length_ge _ _ prog
  have hpos : 0 < prog.length := List.length_pos_iff.mpr hne
  have := Cmd.walk_from (Cmd.build prog).1 (Cmd.build prog).2
    (fun j id h => commands_next_event_id prog j id h) prog.length 0 0 (Cmd.build prog).1.length
    (by omega) (by omega) hge h0
  simpa using this

/-- Random access by walking agrees with iteration: `event(id)` over the ids reached by
`next_event_id_in_path` from the first one = the events `iter` yields. -/
theorem commands_events_by_walk {A : Type} (prog : List (Call Nat A)) (h : WellNested prog) :
    Cmd.eventsByWalk (Cmd.build prog).1 = some (specEvents prog) := by
  by_cases hne : prog = []
  · subst hne; simp [Cmd.eventsByWalk, Cmd.build, Cmd.Builder.run, Cmd.Builder.new, specEvents, specFrom]
  · have hcm : (Cmd.build prog).1.isEmpty = false := by
      have hge : prog.length ≤ (Cmd.build prog).1.length := by
        simp only [Cmd.build, Cmd.run_emit, Cmd.Builder.new, List.nil_append]
        exact Cmd.emitCmds_length_ge _ _ prog
      have hpos : 0 < prog.length := List.length_pos_iff.mpr hne
      cases hc : (Cmd.build prog).1 with
      | nil => rw [hc] at hge; simp at hge; exact absurd hge hne
      | cons x t => rfl
    simp only [Cmd.eventsByWalk, hcm, Bool.false_eq_true, if_false, commands_walk_eq_ids prog hne,
      Option.bind_some]
    exact commands_event_eq_iter prog h

/-- `sub_path_cycle`: `next_event_id_in_sub_path` answers, for every event id, the next id —
and at an End the id of that sub-path's Begin, so the ids of each sub-path form a cycle
(`Cmd.cycleSpec`).  The back-pointer read is in bounds. -/
theorem sub_path_cycle {A : Type} (prog : List (Call Nat A)) (h : WellNested prog) :
    (Cmd.build prog).2.mapM (Cmd.nextEventIdInSubPath (Cmd.build prog).1)
      = some (Cmd.cycleSpec (Cmd.build prog).2 prog 0) := by
  simp only [Cmd.build, Cmd.run_emit, Cmd.run_ids, Cmd.Builder.new, List.nil_append]
  exact Cmd.nextInSubPath_emit _ prog false [] 0 (by simp) h

/-! ### the ids a builder hands back; `PositionStore` / `AttributeStore` -/

/-- `ids_in_bounds`: every `EndpointId` returned by `BuilderWithAttributes` (begin / line_to /
quadratic_bezier_to / cubic_bezier_to) resolves in bounds through `Index<EndpointId>` /
`PositionStore::get_endpoint` and `Path::attributes` / `AttributeStore::get`, to exactly the
position and attributes passed in that call. -/
theorem ids_in_bounds (n : Nat) (prog : Prog S) (hv : ValidProg n prog) :
    ∃ ids, ((BuilderWithAttributes.new (S := S) n).run prog).map (·.2) = some ids ∧
      ids.mapM (stored n prog).endpointA = some (progEndpoints prog) := by
  refine ⟨_, run_ids (BuilderWithAttributes.new (S := S) n) prog
    (by simpa [BuilderWithAttributes.new] using hv.2) (by simp [BuilderWithAttributes.new]), ?_⟩
  have := ids_resolve_emit (stored n prog) prog zeroPt (List.replicate n default) []
    (by simp [stored]) (by simpa [stored] using hv.2) (by simp [stored])
  simpa [BuilderWithAttributes.new, BuilderImpl.new, stored] using this

/-- the same for `Path::builder()` (no attributes) -/
theorem ids_in_bounds_plain {A : Type} (prog : List (Call (Pt S) A)) (h : WellNested prog) :
    ((BuilderImpl.new (S := S)).run prog).2.mapM (buildPlain prog).endpointA
      = some (progEndpoints (prog.map noAttr)) := by
  rw [plain_run_ids, plain_builder_storage]
  have := ids_resolve_emit (stored 0 (prog.map (noAttr (S := S)))) (prog.map noAttr) zeroPt [] []
    (by simp [stored]) (by simpa [stored] using attrsOk_noAttr prog) (by simp [stored])
  simpa [BuilderImpl.new, stored, attribStride] using this

/-! ### `PathSlice` -/

/-- `slice_eq`: `Path::as_slice` is the path itself (full-range slices of both arrays, same
attribute count) — for any path, built or not; so every view of the slice is the path's view. -/
theorem slice_eq (p : PathData S) : p.asSlice = some p := by
  simp [PathData.asSlice, sliceRange]

theorem slice_views_eq (p : PathData S) :
    p.asSlice.bind PathData.iter = p.iter ∧
    p.asSlice.bind PathData.iterWithAttributes = p.iterWithAttributes ∧
    p.asSlice.map PathData.idIter = some p.idIter ∧
    p.asSlice.bind PathData.reversedWithAttributes = p.reversedWithAttributes := by
  simp [slice_eq]

/-! ### `Path::transformed` (modelled by C16: `Adapt.applyTransform`, `Lemmas/AdaptersStored`)

`Adapt.applyTransform g p : Option (PathData S)`; `none` = some `self.points[…]` of the
`IdIter` walk of `apply_transform` indexes outside the storage (Rust: panic).  Since lyon commit
f78412c3 the walk also transforms the copy of the first endpoint that `end(true)` stores
(finding C14-transformed-close-point-stale, fixed), and every view of the transformed path is
the transformed view. -/

/-- the transformed program (what `builder::Transformed` would have stored) is valid -/
theorem validProg_transformed (g : Pt S → Pt S) (n : Nat) (prog : Prog S) (hv : ValidProg n prog) :
    ValidProg n (prog.map (Adapt.mapCall g)) :=
  ⟨by simpa [WellNested, Adapt.wellNestedFrom_map] using hv.1,
   by rw [Adapt.attrsOk_map]; exact hv.2⟩

/-- `Path::transformed` on a built path never indexes outside the storage, and yields, slot for
slot, the path that building the transformed program yields (positions and control points
transformed, attribute slots untouched, the copy of the first endpoint stored by `end(true)`
transformed). -/
theorem transformed_stored_eq (g : Pt S → Pt S) (n : Nat) (prog : Prog S) (hv : ValidProg n prog) :
    Adapt.applyTransform g (stored n prog) = some (stored n (prog.map (Adapt.mapCall g))) :=
  Adapt.stored_transform g n prog hv.1 hv.2

/-- No out-of-bounds access in `apply_transform`: every `self.points[…]` read and write of the
walk is in range (`applyTransform` is `some`), in particular the write added by f78412c3: for
every `IdEvent::End { last, close: true, .. }` that `id_iter` yields, the index
`last + (num_attributes + 1) / 2 + 1` is inside the storage. -/
theorem transformed_no_oob (g : Pt S → Pt S) (n : Nat) (prog : Prog S) (hv : ValidProg n prog) :
    (Adapt.applyTransform g (stored n prog)).isSome = true ∧
    ∀ last first, Event.end_ last first true ∈ (stored n prog).idIter →
      last + attribStride n + 1 < (stored n prog).points.length := by
  have h := transformed_stored_eq g n prog hv
  refine ⟨by simp [h], ?_⟩
  simp only [Adapt.applyTransform, Option.map_eq_some_iff] at h
  obtain ⟨q, hq, _⟩ := h
  exact (Adapt.applyAll_close_in_bounds g _ _ _ q hq).2

/-- The `iter` view of a transformed built path is the transformed `iter` view. -/
theorem transformed_iter_eq (g : Pt S → Pt S) (n : Nat) (prog : Prog S) (hv : ValidProg n prog) :
    (Adapt.applyTransform g (stored n prog)).bind PathData.iter
      = (stored n prog).iter.map (fun evs => evs.map (Adapt.mapEvent g)) := by
  rw [iter_eq_spec n prog hv]
  exact Adapt.stored_transform_iter g n prog hv.1 hv.2

/-- The `iter_with_attributes` view of a transformed built path: every position (endpoints and
control points) transformed, every endpoint's attributes unchanged. -/
theorem transformed_iter_with_attributes_eq (g : Pt S → Pt S) (n : Nat) (prog : Prog S)
    (hv : ValidProg n prog) :
    (Adapt.applyTransform g (stored n prog)).bind PathData.iterWithAttributes
      = (stored n prog).iterWithAttributes.map
          (fun evs => evs.map (Adapt.mapEvent (Adapt.mapA g))) := by
  rw [transformed_stored_eq g n prog hv, Option.bind_some,
    with_attributes_eq n _ (validProg_transformed g n prog hv), with_attributes_eq n prog hv,
    Adapt.specEvents_aCall_map, Option.map_some]

/-- `id_iter` of the transformed path is `id_iter` of the original (the verbs are untouched),
and resolving its ids through the transformed path's position and attribute stores gives the
transformed attribute-carrying events. -/
theorem transformed_id_iter_eq (g : Pt S → Pt S) (n : Nat) (prog : Prog S) (hv : ValidProg n prog) :
    (Adapt.applyTransform g (stored n prog)).map PathData.idIter = some (stored n prog).idIter ∧
    (Adapt.applyTransform g (stored n prog)).bind
        (fun q => resolveAll q.endpointA q.ctrlA q.idIter)
      = (resolveAll (stored n prog).endpointA (stored n prog).ctrlA (stored n prog).idIter).map
          (fun evs => evs.map (Adapt.mapEvent (Adapt.mapA g))) := by
  refine ⟨?_, ?_⟩
  · rw [transformed_stored_eq g n prog hv]
    simp [stored, PathData.idIter, Adapt.emitVerbs_map]
  · rw [transformed_stored_eq g n prog hv, Option.bind_some,
      id_iter_resolves_attributes n _ (validProg_transformed g n prog hv),
      id_iter_resolves_attributes n prog hv, Adapt.specEvents_aCall_map, Option.map_some]

/-- The `reversed` views (with and without attributes) of a transformed built path are the
transformed reversed views. -/
theorem transformed_reversed_eq (g : Pt S → Pt S) (n : Nat) (prog : Prog S) (hv : ValidProg n prog) :
    (Adapt.applyTransform g (stored n prog)).bind PathData.reversedWithAttributes
      = (stored n prog).reversedWithAttributes.map
          (fun evs => evs.map (Adapt.mapEvent (Adapt.mapA g))) ∧
    (Adapt.applyTransform g (stored n prog)).bind PathData.reversed
      = (stored n prog).reversed.map (fun evs => evs.map (Adapt.mapEvent g)) := by
  have hv' := validProg_transformed g n prog hv
  refine ⟨?_, ?_⟩
  · rw [transformed_stored_eq g n prog hv, Option.bind_some, reversed_eq_spec n _ hv',
      reversed_eq_spec n prog hv, Adapt.specEvents_aCall_map, Adapt.reverseEvents_map,
      Option.map_some]
  · rw [transformed_stored_eq g n prog hv, Option.bind_some, reversed_eq_spec_points n _ hv',
      reversed_eq_spec_points n prog hv, Adapt.specEvents_aCall_map, Adapt.reverseEvents_map,
      Option.map_some]
    simp [List.map_map, Function.comp_def, Adapt.withPoints_fst_mapA]

/-- `first_endpoint` of a transformed built path = the transformed first endpoint of the
original, attributes unchanged (`None` stays `None`). -/
theorem transformed_first_endpoint_eq (g : Pt S → Pt S) (n : Nat) (prog : Prog S)
    (hv : ValidProg n prog) :
    (Adapt.applyTransform g (stored n prog)).bind PathData.firstEndpoint
      = (stored n prog).firstEndpoint.map (fun e => e.map (Adapt.mapA g)) := by
  have key : ∀ (q : Prog S) (hq : ValidProg n q),
      (Adapt.applyTransform g (stored n q)).bind PathData.firstEndpoint
        = (stored n q).firstEndpoint.map (fun e => e.map (Adapt.mapA g)) := by
    intro q hq
    rw [transformed_stored_eq g n q hq, Option.bind_some]
    cases q with
    | nil =>
      rw [List.map_nil, first_endpoint_eq n [] hq]; rfl
    | cons c r =>
      cases c with
      | begin p a =>
        rw [List.map_cons, Adapt.mapCall,
          first_endpoint_eq n _ (by simpa [Adapt.mapCall] using validProg_transformed g n _ hq),
          first_endpoint_eq n _ hq]
        rfl
      | _ => exact absurd hq.1 (by simp [WellNested, wellNestedFrom])
  exact key prog hv

/-- `last_endpoint` of a transformed built path = the transformed last endpoint of the original,
attributes unchanged — also when the last sub-path is closed, where `last_endpoint` reads the
copy of the first endpoint stored by `end(true)` (the case that failed before f78412c3). -/
theorem transformed_last_endpoint_eq (g : Pt S → Pt S) (n : Nat) (prog : Prog S)
    (hv : ValidProg n prog) :
    (Adapt.applyTransform g (stored n prog)).bind PathData.lastEndpoint
      = (stored n prog).lastEndpoint.map (fun e => e.map (Adapt.mapA g)) := by
  rw [transformed_stored_eq g n prog hv, Option.bind_some,
    last_endpoint_eq n _ (validProg_transformed g n prog hv), last_endpoint_eq n prog hv,
    Adapt.specEvents_aCall_map, List.getLast?_map, Option.map_some]
  cases (specEvents (prog.map aCall)).getLast? with
  | none => rfl
  | some e =>
    cases e with
    | end_ l f cl => cases cl <;> simp [Adapt.mapEvent]
    | _ => simp [Adapt.mapEvent]

/-- Every view of a transformed built path is the transformed view (the property's clause for
`Path::transformed`, full strength): `iter`, `iter_with_attributes`, `id_iter` resolved through
the stores, `reversed` (with and without attributes), `first_endpoint`, `last_endpoint`; no
access outside the storage on the way. -/
theorem transformed_views_eq (g : Pt S → Pt S) (n : Nat) (prog : Prog S) (hv : ValidProg n prog) :
    ∃ q, Adapt.applyTransform g (stored n prog) = some q ∧
      q.iter = (stored n prog).iter.map (fun evs => evs.map (Adapt.mapEvent g)) ∧
      q.iterWithAttributes = (stored n prog).iterWithAttributes.map
          (fun evs => evs.map (Adapt.mapEvent (Adapt.mapA g))) ∧
      q.idIter = (stored n prog).idIter ∧
      resolveAll q.endpointA q.ctrlA q.idIter
        = (resolveAll (stored n prog).endpointA (stored n prog).ctrlA (stored n prog).idIter).map
            (fun evs => evs.map (Adapt.mapEvent (Adapt.mapA g))) ∧
      q.reversedWithAttributes = (stored n prog).reversedWithAttributes.map
          (fun evs => evs.map (Adapt.mapEvent (Adapt.mapA g))) ∧
      q.reversed = (stored n prog).reversed.map (fun evs => evs.map (Adapt.mapEvent g)) ∧
      q.firstEndpoint = (stored n prog).firstEndpoint.map (fun e => e.map (Adapt.mapA g)) ∧
      q.lastEndpoint = (stored n prog).lastEndpoint.map (fun e => e.map (Adapt.mapA g)) := by
  have h := transformed_stored_eq g n prog hv
  have h1 := transformed_iter_eq g n prog hv
  have h2 := transformed_iter_with_attributes_eq g n prog hv
  have h3 := transformed_id_iter_eq g n prog hv
  have h4 := transformed_reversed_eq g n prog hv
  have h5 := transformed_first_endpoint_eq g n prog hv
  have h6 := transformed_last_endpoint_eq g n prog hv
  rw [h] at h1 h2 h3 h4 h5 h6
  simp only [Option.bind_some, Option.map_some, Option.some.injEq] at h1 h2 h3 h4 h5 h6
  exact ⟨_, h, h1, h2, h3.1, h3.2, h4.1, h4.2, h5, h6⟩

/- Before lyon commit f78412c3 `apply_transform` skipped every `IdEvent::End`, the copy of the
first endpoint stored by `end(true)` stayed untransformed, and `last_endpoint` (which reads that
slot) of a transformed path whose last sub-path is closed answered the UNtransformed point.
The model mirrored that and this witness was kernel-checked on it (`applyTransform` was total
then), next to `transformed_views_partial` (= `transformed_iter_eq` only):

theorem transformed_views_witness :
    let prog : Prog Int := [.begin (0, 0) [], .line (5, 0) [], .end_ true]
    let g : Pt Int → Pt Int := fun p => (p.1 + 1, p.2 + 1)
    (stored 0 prog).lastEndpoint = some (some ((0, 0), [])) ∧
    (Adapt.applyTransform g (stored 0 prog)).lastEndpoint = some (some ((0, 0), [])) ∧
    (Adapt.applyTransform g (stored 0 prog)).iter
      = some [Event.begin (1, 1), Event.line (1, 1) (6, 1), Event.end_ (6, 1) (1, 1) true] := by
  decide

The same input on the repaired model (the oracle class `closed-last-sub-path` stays active): -/

/-- the former witness `M 0 0 L 5 0 Z` translated by `(1, 1)`, computed on the model:
`last_endpoint` of the transformed path is now `(1, 1)` -/
example :
    let prog : Prog Int := [.begin (0, 0) [], .line (5, 0) [], .end_ true]
    let g : Pt Int → Pt Int := fun p => (p.1 + 1, p.2 + 1)
    (stored 0 prog).lastEndpoint = some (some ((0, 0), [])) ∧
    (Adapt.applyTransform g (stored 0 prog)).bind PathData.lastEndpoint = some (some ((1, 1), [])) ∧
    (Adapt.applyTransform g (stored 0 prog)).bind PathData.iter
      = some [Event.begin (1, 1), Event.line (1, 1) (6, 1), Event.end_ (6, 1) (1, 1) true] := by
  decide

/-- with attributes (odd count, padded) and two sub-paths, the second closed: the storage after
`transformed` — the last two slots are the transformed copy of `(7, 7)` and its attribute -/
example :
    (Adapt.applyTransform (fun p : Pt Int => (p.1 + 1, p.2 + 2))
        (stored 1 [.begin (0, 0) [1], .end_ false, .begin (7, 7) [2], .line (9, 7) [3],
          .end_ true])).map (·.points)
      = some [(1, 2), (1, 0), (8, 9), (2, 0), (10, 9), (3, 0), (8, 9), (2, 0)] := by
  decide


/-! ### the raw-pointer code of `lyon_path` and which theorem covers each of its reads

`crates/path/src` contains seven `unsafe` blocks, in five functions:

| Rust function (file:line) | what it does unchecked | model | used by | reads covered by |
|---|---|---|---|---|
| `PointIter::new` (path.rs:927) | `ptr.add(len)` (one-past-the-end pointer) | the remaining list | `Iter`, `IterWithAttributes` | — (no read) |
| `PointIter::next` (path.rs:949) | `*self.ptr`, guarded by `ptr >= end` | `popPt` | `Iter::next`, `IterWithAttributes::{next, pop_endpoint}` | `no_oob_iter`, `no_oob_iter_with_attributes` |
| `PointIter::advance_n` (path.rs:959) | `ptr.add(n)` after `assert!(remaining_len() >= n)` | `advanceN` | `Iter::skip_attributes`, `pop_endpoint` | the same two |
| `IterWithAttributes::pop_endpoint` (path.rs:1104) | `slice::from_raw_parts(ptr as *const f32, num_attributes)` | `(flatPts rest).take n` after `advanceN` succeeded | `IterWithAttributes::next` | `no_oob_iter_with_attributes` |
| `interpolated_attributes` (path.rs:1279) | `from_raw_parts(&points[idx].x, num_attributes)` after `assert!(idx + stride <= len)` | `interpolatedAttributes` | `Path/PathSlice::attributes`, `AttributeStore::get`, `first/last_endpoint`, `Reversed::next` | `no_oob_attributes`, `no_oob_reversed`, `no_oob` (first), `no_oob_reversed` (last) |
| `CmdIter::new` / `CmdIter::next` (commands.rs:98, 108) | `ptr.add(len)`, `*self.ptr` guarded by `ptr == end` | list consumption in `Cmd.iterGo` / `Cmd.eventsGo` | `commands::{Iter, Events, PointEvents}` | `no_oob_commands` |

`IdIter`, `Reversed`, `Path::apply_transform`, `PathCommandsSlice::{event, next_event_id_*}`,
`PathBuffer::get` and the polygon types use checked indexing only (a bad index panics, it does
not read outside); their indices are nevertheless shown in range (`id_iter_resolves*`,
`no_oob_reversed`, `transformed_no_oob`, `no_oob_commands`, `path_buffer_get*`,
`polygon_views_agree`).  In the model each of the reads
above is an `Option`; the theorems below say: on storage produced by a builder from a valid
program, every one of them is `some`. -/

/-- every `PointIter::next` / `advance_n` performed by `Path::iter` is in range -/
theorem no_oob_iter (n : Nat) (prog : Prog S) (hv : ValidProg n prog) :
    (stored n prog).iter.isSome = true := by simp [iter_eq_spec n prog hv]

/-- every `PointIter::next` / `advance_n` and every `from_raw_parts` attribute slice of
`Path::iter_with_attributes` is in range -/
theorem no_oob_iter_with_attributes (n : Nat) (prog : Prog S) (hv : ValidProg n prog) :
    (stored n prog).iterWithAttributes.isSome = true := by simp [with_attributes_eq n prog hv]

/-- `interpolated_attributes` (and `points[id]`) for every endpoint id a builder returned, and
for every id `id_iter` yields -/
theorem no_oob_attributes (n : Nat) (prog : Prog S) (hv : ValidProg n prog) :
    (∃ ids, ((BuilderWithAttributes.new (S := S) n).run prog).map (·.2) = some ids ∧
      (ids.mapM (stored n prog).endpointA).isSome = true) ∧
    (resolveAll (stored n prog).endpointA (stored n prog).ctrlA (stored n prog).idIter).isSome = true := by
  obtain ⟨ids, h1, h2⟩ := ids_in_bounds n prog hv
  exact ⟨⟨ids, h1, by simp [h2]⟩, by simp [id_iter_resolves_attributes n prog hv]⟩

/-- all endpoint and control point ids of a program are valid indices of the external stores -/
def idsValid {A : Type} (ne nc : Nat) : List (Call Nat A) → Bool
  | [] => true
  | .begin p _ :: r => decide (p < ne) && idsValid ne nc r
  | .line p _ :: r => decide (p < ne) && idsValid ne nc r
  | .quad c p _ :: r => decide (c < nc) && decide (p < ne) && idsValid ne nc r
  | .cubic c d p _ :: r => decide (c < nc) && decide (d < nc) && decide (p < ne) && idsValid ne nc r
  | .end_ _ :: r => idsValid ne nc r

theorem resolve_valid {A π : Type} (eps cps : List π) (prog : List (Call Nat A)) (st : Option (Nat × Nat))
    (hv : idsValid eps.length cps.length prog = true)
    (hst : ∀ f c, st = some (f, c) → f < eps.length ∧ c < eps.length) :
    (resolveAll (fun i => eps[i]?) (fun i => cps[i]?) (specFrom st prog)).isSome = true := by
  induction prog generalizing st with
  | nil => cases st <;> simp [specFrom, resolveAll]
  | cons c r ih =>
    have gs : ∀ (l : List π) i, i < l.length → ∃ x, l[i]? = some x :=
      fun l i h => ⟨l[i], List.getElem?_eq_getElem h⟩
    cases st with
    | none =>
      cases c with
      | begin p a =>
        simp [idsValid] at hv
        obtain ⟨x, hx⟩ := gs eps p hv.1
        have := ih (some (p, p)) hv.2 (by intro f c h; cases h; exact ⟨hv.1, hv.1⟩)
        cases hr : resolveAll (fun i => eps[i]?) (fun i => cps[i]?) (specFrom (some (p, p)) r) with
        | none => simp [hr] at this
        | some t => simp [specFrom, resolveAll, resolveEvent, hx, hr]
      | line p a => simp [idsValid] at hv; simpa [specFrom] using ih none hv.2 (by simp)
      | quad k p a => simp [idsValid] at hv; simpa [specFrom] using ih none hv.2 (by simp)
      | cubic k1 k2 p a => simp [idsValid] at hv; simpa [specFrom] using ih none hv.2 (by simp)
      | end_ cl => simp [idsValid] at hv; simpa [specFrom] using ih none hv (by simp)
    | some fc =>
      obtain ⟨f, c0⟩ := fc
      obtain ⟨hf, hc⟩ := hst f c0 rfl
      obtain ⟨xf, hxf⟩ := gs eps f hf
      obtain ⟨xc, hxc⟩ := gs eps c0 hc
      cases c with
      | begin p a => simp [idsValid] at hv; simpa [specFrom] using ih (some (f, c0)) hv.2 hst
      | line p a =>
        simp [idsValid] at hv
        obtain ⟨x, hx⟩ := gs eps p hv.1
        have := ih (some (f, p)) hv.2 (by intro f' c' h; cases h; exact ⟨hf, hv.1⟩)
        cases hr : resolveAll (fun i => eps[i]?) (fun i => cps[i]?) (specFrom (some (f, p)) r) with
        | none => simp [hr] at this
        | some t => simp [specFrom, resolveAll, resolveEvent, hx, hxc, hr]
      | quad k p a =>
        simp [idsValid] at hv
        obtain ⟨x, hx⟩ := gs eps p hv.1.2
        obtain ⟨y, hy⟩ := gs cps k hv.1.1
        have := ih (some (f, p)) hv.2 (by intro f' c' h; cases h; exact ⟨hf, hv.1.2⟩)
        cases hr : resolveAll (fun i => eps[i]?) (fun i => cps[i]?) (specFrom (some (f, p)) r) with
        | none => simp [hr] at this
        | some t => simp [specFrom, resolveAll, resolveEvent, hx, hy, hxc, hr]
      | cubic k1 k2 p a =>
        simp [idsValid] at hv
        obtain ⟨x, hx⟩ := gs eps p hv.1.2
        obtain ⟨y, hy⟩ := gs cps k1 hv.1.1.1
        obtain ⟨z, hz⟩ := gs cps k2 hv.1.1.2
        have := ih (some (f, p)) hv.2 (by intro f' c' h; cases h; exact ⟨hf, hv.1.2⟩)
        cases hr : resolveAll (fun i => eps[i]?) (fun i => cps[i]?) (specFrom (some (f, p)) r) with
        | none => simp [hr] at this
        | some t => simp [specFrom, resolveAll, resolveEvent, hx, hy, hz, hxc, hr]
      | end_ cl =>
        simp [idsValid] at hv
        have := ih none hv (by simp)
        cases hr : resolveAll (fun i => eps[i]?) (fun i => cps[i]?) (specFrom none r) with
        | none => simp [hr] at this
        | some t => simp [specFrom, resolveAll, resolveEvent, hxf, hxc, hr]

/-- every `CmdIter::next` (with its `.unwrap()`s) of `PathCommands::iter`, every index of
`event(id)`, `next_event_id_in_path`, `next_event_id_in_sub_path` over the ids the builder
returned, and — when the program's ids are valid indices of the external stores — every
`endpoints[i]` / `control_points[i]` of `events` / `PointEvents`, is in range -/
theorem no_oob_commands {A π : Type} (prog : List (Call Nat A)) (h : WellNested prog)
    (eps cps : List π) (hids : idsValid eps.length cps.length prog = true) :
    (Cmd.iter (Cmd.build prog).1).isSome = true ∧
    ((Cmd.build prog).2.mapM (Cmd.event (Cmd.build prog).1)).isSome = true ∧
    (∀ (j id : Nat), (Cmd.build prog).2[j]? = some id →
      (Cmd.nextEventIdInPath (Cmd.build prog).1 id).isSome = true) ∧
    ((Cmd.build prog).2.mapM (Cmd.nextEventIdInSubPath (Cmd.build prog).1)).isSome = true ∧
    (Cmd.events (Cmd.build prog).1 eps cps).isSome = true := by
  refine ⟨by simp [commands_iter_eq_spec prog h], by simp [commands_event_eq_iter prog h], ?_,
    by simp [sub_path_cycle prog h], ?_⟩
  · intro j id hj; simp [commands_next_event_id prog j id hj]
  · rw [commands_events_eq_spec prog h]
    exact resolve_valid eps cps prog none hids (by simp)


/-! ### non-vacuity: the hypotheses are satisfiable by non-trivial programs -/

/-- three attributes (odd: padded), a curve, a closed and a single-point sub-path -/
def exampleProg : Prog Int :=
  [.begin (0, 0) [1, 2, 3], .line (5, 0) [4, 5, 6], .quad (9, 9) (5, 5) [7, 8, 9], .end_ true,
   .begin (7, 7) [0, 0, 1], .end_ false]

example : ValidProg 3 exampleProg := ⟨by decide, by decide⟩
example : (stored 3 exampleProg).iter = some (specEvents exampleProg) :=
  iter_eq_spec 3 exampleProg ⟨by decide, by decide⟩
example : (stored 3 exampleProg).points.length = 16 := by decide
example : WellNested (polyProg [(0 : Int), 1, 2] true) := by decide
example : WellNested ([.begin 0 (), .quad 1 2 (), .end_ true] : List (Call Nat Unit)) := by decide
example : idsValid 3 3 ([.begin 0 (), .quad 1 2 (), .end_ true] : List (Call Nat Unit)) = true := by decide
example : ([.begin 0 (), .quad 1 2 (), .end_ true] : List (Call Nat Unit)) ≠ [] := by decide
example : ∀ q ∈ [exampleProg, exampleProg], ValidProg 3 q := by
  intro q hq; simp at hq; subst hq; exact ⟨by decide, by decide⟩
/-- the reversed view of the model on the example, computed -/
example : ((stored 3 exampleProg).reversedIntoPath.bind PathData.reversedWithAttributes)
    = (stored 3 exampleProg).iterWithAttributes := by decide

/-- `transformed_views_eq` instantiated on the example (first sub-path closed, three attributes) -/
example : ∃ q, Adapt.applyTransform (fun p : Pt Int => (p.1 + 3, p.2 - 1)) (stored 3 exampleProg) = some q ∧
    q.lastEndpoint = (stored 3 exampleProg).lastEndpoint.map (fun e => e.map (Adapt.mapA fun p => (p.1 + 3, p.2 - 1))) := by
  obtain ⟨q, h, _, _, _, _, _, _, _, hl⟩ :=
    transformed_views_eq (fun p : Pt Int => (p.1 + 3, p.2 - 1)) 3 exampleProg ⟨by decide, by decide⟩
  exact ⟨q, h, hl⟩
/-- … and computed: the copy of `(0, 0)` stored by the close, at index 10 = last (7) + stride (2) + 1 -/
example : ((Adapt.applyTransform (fun p : Pt Int => (p.1 + 3, p.2 - 1)) (stored 3 exampleProg)).map
    fun q => q.points[10]?) = some (some (3, -1)) := by decide

end Lyon.C14
