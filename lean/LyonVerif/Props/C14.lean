/-
  C14 — every view of a stored path tells the same story, safely.

  All statements are about the model of `crates/path/src/{path,path_buffer,commands,polygon,
  iterator}.rs` in `Model/Path/*.lean` — the same definitions the correspondence check runs
  (with `S := Int`) against the real builders and views on every run.  They hold for every
  scalar type `S`, every well-nested builder program of any length and every attribute count.

  Reading guide.  A view returns `Option`: `none` means "some slice index / pointer read /
  checked subtraction / assertion of the Rust code fails" (see `Model/Path/Store.lean`).  So
  `view P = some evs` says two things at once: the view performs no read outside the storage
  (`no_oob`) and yields `evs`.
-/
import LyonVerif.Lemmas.PathViews

set_option linter.unusedSectionVars false
set_option linter.unusedVariables false

namespace Lyon.C14
open Lyon.Path

variable {S : Type} [Inhabited S]

/-- a builder program the property quantifies over: `(begin edge* end)*`, every endpoint with
exactly `n` custom attributes -/
def ValidProg (n : Nat) (prog : Prog S) : Prop := WellNested prog ∧ attrsOk n prog = true

/-- the storage `Path::builder_with_attributes(n)` ends up with for `prog` -/
def stored (n : Nat) (prog : Prog S) : PathData S :=
  ⟨emitPts zeroPt (List.replicate n default) prog, emitVerbs prog, n⟩

/-- The builder accepts every valid program (no attribute-count assertion fires) and stores
exactly `stored n prog`. -/
theorem builder_total (n : Nat) (prog : Prog S) (hv : ValidProg n prog) :
    buildWithAttributes n prog = some (stored n prog) :=
  buildWithAttributes_emit n prog hv.2

/-- The specification events of a valid program are well-formed: each sub-path is Begin, edges,
End; each edge starts where the previous ended; End names the last and the first point. -/
theorem spec_wellformed [DecidableEq S] (n : Nat) (prog : Prog S) (hv : ValidProg n prog) :
    WellFormed (specEvents prog) :=
  specEvents_wellFormed prog hv.1

/-- `Path::iter` on a built path yields exactly the specification events (and reads only inside
the storage). -/
theorem iter_eq_spec (n : Nat) (prog : Prog S) (hv : ValidProg n prog) :
    (stored n prog).iter = some (specEvents prog) := by
  obtain ⟨c', f', h⟩ := iterGo_emit n prog none zeroPt (List.replicate n default) zeroPt zeroPt [] []
    hv.1 hv.2 (by simp) (by intro f0 c0 h; cases h)
  simpa [PathData.iter, stored, iterGo, specEvents] using h

/-- `Path::iter_with_attributes` yields the specification events with each endpoint carrying
the attributes it was given (odd counts and the extra point stored by Close included). -/
theorem with_attributes_eq (n : Nat) (prog : Prog S) (hv : ValidProg n prog) :
    (stored n prog).iterWithAttributes = some (specEvents (prog.map aCall)) := by
  obtain ⟨c', f', h⟩ := iterAttrGo_emit n prog none zeroPt (List.replicate n default) (zeroPt, [])
    (zeroPt, []) [] [] hv.1 hv.2 (by simp) (by intro f0 c0 h; cases h)
  simpa [PathData.iterWithAttributes, stored, iterAttrGo, specEvents] using h

/-- `Path::id_iter`, each id resolved through the path's own position and attribute stores
(`path[id]`, `path.attributes(id)`), is `iter_with_attributes`. -/
theorem id_iter_resolves_attributes (n : Nat) (prog : Prog S) (hv : ValidProg n prog) :
    resolveAll (stored n prog).endpointA (stored n prog).ctrlA (stored n prog).idIter
      = some (specEvents (prog.map aCall)) := by
  have h := resolveA_emit (stored n prog) prog none zeroPt (List.replicate n default) [] 0 0
    (by simp [stored]) hv.1 hv.2 (by simp [stored]) (by simp) (by intro f0 c0 h; cases h)
  simpa [PathData.idIter, stored, specEvents] using h

/-- `Path::id_iter` resolved through the position store is `iter`. -/
theorem id_iter_resolves (n : Nat) (prog : Prog S) (hv : ValidProg n prog) :
    resolveAll (stored n prog).point (stored n prog).point (stored n prog).idIter
      = some (specEvents prog) := by
  have h := resolveAll_fst _ _ _ (id_iter_resolves_attributes n prog hv)
  simpa [specEvents, specFrom_aCall_fst] using h

end Lyon.C14
