/-
  C14 — every view of a stored path tells the same story, safely.

  All statements are about the model of `crates/path/src/{path,path_buffer,commands,polygon,
  iterator}.rs` in `Model/Path/*.lean` — the same definitions the correspondence check runs
  (with `S := Int`) against the real builders and views on every run.  They hold for every
  scalar type `S`, every well-nested builder program of any length and every attribute count.

  Reading guide.  A view returns `Option`: `none` means "some slice index / pointer read /
  checked subtraction / assertion of the Rust code fails" (see `Model/Path/Store.lean`).  So
  `view P = some evs` says two things at once: the view performs no read outside the storage
  (`no_oob`) and yields `evs`.
-/
import LyonVerif.Lemmas.PathViews
import LyonVerif.Lemmas.PathMore
import LyonVerif.Lemmas.PathCommands
import LyonVerif.Model.Path.Polygon
import LyonVerif.Model.Path.Commands

set_option linter.unusedSectionVars false
set_option linter.unusedVariables false

namespace Lyon.C14
open Lyon.Path

variable {S : Type} [Inhabited S]

/-- a builder program the property quantifies over: `(begin edge* end)*`, every endpoint with
exactly `n` custom attributes -/
def ValidProg (n : Nat) (prog : Prog S) : Prop := WellNested prog ∧ attrsOk n prog = true

/-- the storage `Path::builder_with_attributes(n)` ends up with for `prog` -/
def stored (n : Nat) (prog : Prog S) : PathData S :=
  ⟨emitPts zeroPt (List.replicate n default) prog, emitVerbs prog, n⟩

/-- The builder accepts every valid program (no attribute-count assertion fires) and stores
exactly `stored n prog`. -/
theorem builder_total (n : Nat) (prog : Prog S) (hv : ValidProg n prog) :
    buildWithAttributes n prog = some (stored n prog) :=
  buildWithAttributes_emit n prog hv.2

/-- The specification events of a valid program are well-formed: each sub-path is Begin, edges,
End; each edge starts where the previous ended; End names the last and the first point. -/
theorem spec_wellformed [DecidableEq S] (n : Nat) (prog : Prog S) (hv : ValidProg n prog) :
    WellFormed (specEvents prog) :=
  specEvents_wellFormed prog hv.1

/-- `Path::iter` on a built path yields exactly the specification events (and reads only inside
the storage). -/
theorem iter_eq_spec (n : Nat) (prog : Prog S) (hv : ValidProg n prog) :
    (stored n prog).iter = some (specEvents prog) := by
  obtain ⟨c', f', h⟩ := iterGo_emit n prog none zeroPt (List.replicate n default) zeroPt zeroPt [] []
    hv.1 hv.2 (by simp) (by intro f0 c0 h; cases h)
  simpa [PathData.iter, stored, iterGo, specEvents] using h

/-- `Path::iter_with_attributes` yields the specification events with each endpoint carrying
the attributes it was given (odd counts and the extra point stored by Close included). -/
theorem with_attributes_eq (n : Nat) (prog : Prog S) (hv : ValidProg n prog) :
    (stored n prog).iterWithAttributes = some (specEvents (prog.map aCall)) := by
  obtain ⟨c', f', h⟩ := iterAttrGo_emit n prog none zeroPt (List.replicate n default) (zeroPt, [])
    (zeroPt, []) [] [] hv.1 hv.2 (by simp) (by intro f0 c0 h; cases h)
  simpa [PathData.iterWithAttributes, stored, iterAttrGo, specEvents] using h

/-- `Path::id_iter`, each id resolved through the path's own position and attribute stores
(`path[id]`, `path.attributes(id)`), is `iter_with_attributes`. -/
theorem id_iter_resolves_attributes (n : Nat) (prog : Prog S) (hv : ValidProg n prog) :
    resolveAll (stored n prog).endpointA (stored n prog).ctrlA (stored n prog).idIter
      = some (specEvents (prog.map aCall)) := by
  have h := resolveA_emit (stored n prog) prog none zeroPt (List.replicate n default) [] 0 0
    (by simp [stored]) hv.1 hv.2 (by simp [stored]) (by simp) (by intro f0 c0 h; cases h)
  simpa [PathData.idIter, stored, specEvents] using h

/-- `Path::id_iter` resolved through the position store is `iter`. -/
theorem id_iter_resolves (n : Nat) (prog : Prog S) (hv : ValidProg n prog) :
    resolveAll (stored n prog).point (stored n prog).point (stored n prog).idIter
      = some (specEvents prog) := by
  have h := resolveAll_fst _ _ _ (id_iter_resolves_attributes n prog hv)
  simpa [specEvents, specFrom_aCall_fst] using h

/-! ### the plain builder (`Path::builder()`) -/

theorem plain_builder_storage {A : Type} (prog : List (Call (Pt S) A)) :
    buildPlain prog = stored 0 (prog.map noAttr) := by
  simp [buildPlain, plain_run_emit, BuilderImpl.build, BuilderImpl.new, stored]

theorem validProg_noAttr {A : Type} (prog : List (Call (Pt S) A)) (h : WellNested prog) :
    ValidProg 0 (prog.map (noAttr (S := S))) :=
  ⟨by simpa [WellNested, wellNestedFrom_noAttr] using h, attrsOk_noAttr prog⟩

/-- `Path::builder()` (attributes ignored): `iter` yields the specification events. -/
theorem iter_eq_spec_plain {A : Type} (prog : List (Call (Pt S) A)) (h : WellNested prog) :
    (buildPlain prog).iter = some (specEvents prog) := by
  rw [plain_builder_storage, iter_eq_spec 0 _ (validProg_noAttr prog h)]
  simp [specEvents, specFrom_noAttr]

/-- `Path::builder()`: `id_iter` resolved through the path is `iter`. -/
theorem id_iter_resolves_plain {A : Type} (prog : List (Call (Pt S) A)) (h : WellNested prog) :
    resolveAll (buildPlain prog).point (buildPlain prog).point (buildPlain prog).idIter
      = some (specEvents prog) := by
  rw [plain_builder_storage, id_iter_resolves 0 _ (validProg_noAttr prog h)]
  simp [specEvents, specFrom_noAttr]

/-! ### concatenation -/

theorem validProg_append (n : Nat) (p q : Prog S) (hp : ValidProg n p) (hq : ValidProg n q) :
    ValidProg n (p ++ q) :=
  ⟨wellNestedFrom_append false p q hp.1 hq.1, by simp [attrsOk_append, hp.2, hq.2]⟩

theorem stored_append (n : Nat) (p q : Prog S) (hq : ValidProg n q) :
    (stored n (p ++ q)).points = (stored n p).points ++ (stored n q).points ∧
    (stored n (p ++ q)).verbs = (stored n p).verbs ++ (stored n q).verbs := by
  refine ⟨?_, by simp [stored, emitVerbs_append]⟩
  simp only [stored, emitPts_append]
  rw [emitPts_indep q hq.1 _ zeroPt _ (List.replicate n default)]

/-- `extend_from_paths`: appending the storage of paths built from programs `qs` to a builder
that has run `p` gives exactly the storage of the concatenated program — so every view theorem
applies to it. -/
theorem concat_is_append (n : Nat) (p : Prog S) (qs : List (Prog S))
    (hqs : ∀ q ∈ qs, ValidProg n q) :
    concatenatePaths (stored n p).points (stored n p).verbs (qs.map (stored n)) n
      = some ((stored n (p ++ qs.flatten)).points, (stored n (p ++ qs.flatten)).verbs) := by
  have hall : (qs.map (stored n)).all (fun P => P.numAttributes == n) = true := by
    simp [stored]
  simp only [concatenatePaths, hall, if_true, Option.some.injEq]
  clear hall
  induction qs generalizing p with
  | nil => simp
  | cons q r ih =>
    have hq := hqs q (by simp)
    obtain ⟨h1, h2⟩ := stored_append n p q hq
    simp only [List.map_cons, List.foldl_cons, ← h1, ← h2]
    rw [ih (p ++ q) (fun q' hq' => hqs q' (by simp [hq']))]
    simp [List.append_assoc]

theorem specFrom_append (st : Option (Pt S × Pt S)) (p q : Prog S)
    (hp : wellNestedFrom st.isSome p = true) :
    specFrom st (p ++ q) = specFrom st p ++ specFrom none q := by
  induction p generalizing st with
  | nil => cases st <;> simp_all [wellNestedFrom, specFrom]
  | cons c r ih =>
    cases st with
    | none => cases c <;> simp_all [wellNestedFrom, specFrom]
    | some fc => obtain ⟨f, c0⟩ := fc; cases c <;> simp_all [wellNestedFrom, specFrom]

/-- … in particular the concatenation iterates as the concatenation of the parts. -/
theorem concat_iter (n : Nat) (p q : Prog S) (hp : ValidProg n p) (hq : ValidProg n q) :
    (stored n (p ++ q)).iter = some (specEvents p ++ specEvents q) := by
  rw [iter_eq_spec n _ (validProg_append n p q hp hq)]
  simp [specEvents, specFrom_append none p q hp.1]


/-! ### path buffers -/

/-- `PathBuffer`: a path appended with the plain builder reads back, through `get`, as exactly
the storage `Path::builder()` would have produced on its own (whatever the buffer already
holds); `adjust_id` never underflows; the ids are relative to the entry. -/
theorem path_buffer_get_partial {A : Type} (b : PathBuffer S) (prog : List (Call (Pt S) A)) :
    ∃ b' ids, b.addPlain prog = some (b', ids, b.paths.length) ∧
      b'.get b.paths.length = some (buildPlain prog) := by
  have hge := run_ids_ge (S := S) ⟨b.points, b.verbs, zeroPt⟩ prog b.points.length (by simp)
  refine ⟨_, _, by simp only [PathBuffer.addPlain, adjustIds_total _ _ hge, Option.map_some]; rfl, ?_⟩
  have h1 := sliceRange_mid b.points (emitPts (S := S) zeroPt [] (prog.map noAttr)) []
  have h2 := sliceRange_mid b.verbs (emitVerbs (S := S) (prog.map noAttr)) []
  simp only [List.append_nil] at h1 h2
  simp [PathBuffer.get, plain_run_emit, h1, h2, plain_builder_storage, stored]

/-- The same for an entry written with attributes, mirroring the code as it is: the storage is
the right one, but the descriptor says `num_attributes = 0`. -/
theorem path_buffer_get_attributes_storage (b : PathBuffer S) (n : Nat) (prog : Prog S)
    (hv : ValidProg n prog) (b' : PathBuffer S) (ids : List Nat) (idx : Nat)
    (h : b.addWithAttributes n prog = some (b', ids, idx)) :
    idx = b.paths.length ∧
    b'.get idx = some { stored n prog with numAttributes := 0 } := by
  have hr := run_emit (S := S) ⟨⟨b.points, b.verbs, zeroPt⟩, n, List.replicate n default⟩ prog hv.2
    (by simp)
  simp only [PathBuffer.addWithAttributes] at h
  cases hrun : BuilderWithAttributes.run (S := S)
      ⟨⟨b.points, b.verbs, zeroPt⟩, n, List.replicate n default⟩ prog with
  | none => simp [hrun] at h
  | some r =>
    simp only [hrun, Option.map_some, Option.some.injEq] at hr
    simp only [hrun, Option.bind_some] at h
    cases hadj : adjustIds b.points.length r.2 with
    | none => simp [hadj] at h
    | some ids' =>
      simp only [hadj, Option.map_some, Option.some.injEq, Prod.mk.injEq] at h
      obtain ⟨hb, hids, hidx⟩ := h
      refine ⟨hidx.symm, ?_⟩
      have h1 := sliceRange_mid b.points (emitPts (S := S) zeroPt (List.replicate n default) prog) []
      have h2 := sliceRange_mid b.verbs (emitVerbs (S := S) prog) []
      simp only [List.append_nil] at h1 h2
      subst hb
      simp [PathBuffer.get, hr, ← hidx, h1, h2, stored]


/-! ### polygons -/

/-- the builder program a polygon stands for -/
def polyProg {π : Type} (pts : List π) (closed : Bool) : List (Call π Unit) :=
  match pts with
  | [] => []
  | p :: r => Call.begin p () :: ((r.map fun q => Call.line q ()) ++ [Call.end_ closed])

theorem poly_iterGo_spec {π : Type} (closed : Bool) (r : List π) (prev first : π) :
    Poly.iterGo closed r (some prev) (some first)
      = some (specFrom (some (first, prev)) ((r.map fun q => Call.line q ()) ++ [Call.end_ (A := Unit) closed])) := by
  induction r generalizing prev with
  | nil => simp [Poly.iterGo, specFrom]
  | cons q r ih => simp [Poly.iterGo, specFrom, ih]

/-- `Polygon::iter`, `Polygon::path_events` and `IdPolygon::iter` (one state machine in the
code, one function in the model) yield the specification events of `begin p0, line p1 …,
end(closed)`; nothing for the empty polygon. -/
theorem polygon_iter_eq_spec {π : Type} (pts : List π) (closed : Bool) :
    Poly.iter pts closed = some (specEvents (polyProg pts closed)) := by
  cases pts with
  | nil => simp [Poly.iter, Poly.iterGo, polyProg, specEvents, specFrom]
  | cons p r => simp [Poly.iter, Poly.iterGo, polyProg, specEvents, specFrom, poly_iterGo_spec]

theorem poly_iterGo_event {π : Type} (closed : Bool) (r pre : List π) (prev first : π)
    (hne : pre ≠ []) (hlast : pre[pre.length - 1]? = some prev) (hfirst : pre[0]? = some first)
    (evs : List (Event π)) (h : Poly.iterGo closed r (some prev) (some first) = some evs)
    (j : Nat) (e : Event π) (he : evs[j]? = some e) :
    Poly.idPolygonEvent (pre ++ r) closed (pre.length + j) = some e := by
  have hpos : 0 < pre.length := List.length_pos_iff.mpr hne
  induction r generalizing pre prev evs j with
  | nil =>
    simp [Poly.iterGo] at h
    subst h
    cases j with
    | zero =>
      simp at he
      subst he
      have h0 : pre.length ≠ 0 := by omega
      have h1le : 1 ≤ pre.length := by omega
      simp [Poly.idPolygonEvent, h0, Poly.idPolygonEvent.csub, h1le, hlast, hfirst]
    | succ j => simp at he
  | cons q r ih =>
    simp only [Poly.iterGo] at h
    cases hr : Poly.iterGo closed r (some q) (some first) with
    | none => simp [hr] at h
    | some evs' =>
      simp [hr] at h
      subst h
      cases j with
      | zero =>
        simp at he
        subst he
        have h0 : pre.length ≠ 0 := by omega
        have h1 : (pre ++ q :: r)[pre.length - 1]? = some prev := by
          rw [List.getElem?_append_left (by omega)]; exact hlast
        have h1le : 1 ≤ pre.length := by omega
        simp [Poly.idPolygonEvent, h0, Poly.idPolygonEvent.csub, h1le, h1]
      | succ j =>
        simp at he
        have := ih (pre ++ [q]) q (by simp) (by simp) (by
          rw [List.getElem?_append_left (by omega)]; exact hfirst) evs' hr j he (by simp)
        simpa [Nat.add_assoc, Nat.add_comm 1 j] using this

/-- Random access agrees with iteration for `IdPolygon`: the `k`-th event of `iter` is
`event(k)`. -/
theorem idpolygon_event_eq_iter {π : Type} (pts : List π) (closed : Bool) (evs : List (Event π))
    (h : Poly.iter pts closed = some evs) (k : Nat) (e : Event π) (he : evs[k]? = some e) :
    Poly.idPolygonEvent pts closed k = some e := by
  cases pts with
  | nil => simp [Poly.iter, Poly.iterGo] at h; subst h; simp at he
  | cons p r =>
    simp only [Poly.iter, Poly.iterGo] at h
    cases hr : Poly.iterGo closed r (some p) (some p) with
    | none => simp [hr] at h
    | some evs' =>
      simp [hr] at h
      subst h
      cases k with
      | zero => simp at he; subst he; simp [Poly.idPolygonEvent]
      | succ k =>
        simp at he
        have := poly_iterGo_event closed r [p] p p (by simp) (by simp) (by simp) evs' hr k e he
        simpa [Nat.add_comm 1 k] using this

/-- `Polygon::event` is NOT `Polygon::iter` by random access: on a closed 4-gon it answers `End`
at id 3 where `iter` yields the last `Line`, and at id 4 (where `iter` yields `End`) it indexes
past the slice. -/
theorem polygon_views_agree_witness :
    let pts : List (Int × Int) := [(0, 0), (1, 0), (1, 1), (0, 1)]
    (Poly.iter pts true).map (·[3]?) = some (some (Event.line (1, 1) (0, 1))) ∧
    Poly.polygonEvent pts true 3 = some (Event.end_ (0, 1) (0, 0) true) ∧
    (Poly.iter pts true).map (·[4]?) = some (some (Event.end_ (0, 1) (0, 0) true)) ∧
    Poly.polygonEvent pts true 4 = none := by decide

/-- `Polygon::id_iter` of the empty polygon yields `Begin` and no `End`, while `iter` yields
nothing. -/
theorem polygon_views_agree_witness_empty (closed : Bool) :
    Poly.idIter 0 closed = some [Event.begin 0] ∧ Poly.iter ([] : List Nat) closed = some [] := by
  cases closed <;> decide

/-- `FromPolyline` over no points yields a lone `End` (not a well-formed sequence). -/
theorem from_polyline_witness (closed : Bool) :
    Poly.fromPolyline (0 : Int) closed [] = [Event.end_ 0 0 closed] ∧
    ¬ WellFormed (Poly.fromPolyline (0 : Int) closed []) := by
  cases closed <;> simp [Poly.fromPolyline, Poly.fromPolylineGo, WellFormed, wellFormedFrom]

/-- What does hold for `Polygon::event` in the current code: away from the last two ids it is
`IdPolygon::event` (which is `iter` by random access, `idpolygon_event_eq_iter`).
Missing for the full statement `polygon_views_agree`: ids `len - 1` and `len` (finding
C14-polygon-event-end-index), and the empty polygon's `id_iter` (C14-empty-polygon-id-iter). -/
theorem polygon_views_agree_partial {π : Type} (pts : List π) (closed : Bool) (k : Nat)
    (hk : k + 1 < pts.length) :
    Poly.polygonEvent pts closed k = Poly.idPolygonEvent pts closed k := by
  by_cases h0 : k = 0
  · simp [Poly.polygonEvent, Poly.idPolygonEvent, h0]
  · have h1 : k ≠ pts.length - 1 := by omega
    have h2 : k ≠ pts.length := by omega
    have h3 : 1 ≤ pts.length := by omega
    simp [Poly.polygonEvent, Poly.idPolygonEvent, h0, h1, h2, h3, Poly.polygonEvent.csub,
      Poly.idPolygonEvent.csub]

/-- `FromPolyline` over at least one point yields the polygon's specification events. -/
theorem from_polyline_eq_spec {π : Type} (zero p : π) (r : List π) (closed : Bool) :
    Poly.fromPolyline zero closed (p :: r) = specEvents (polyProg (p :: r) closed) := by
  have h : ∀ (r : List π) (cur first : π), Poly.fromPolylineGo closed r cur first false
      = specFrom (some (first, cur)) ((r.map fun q => Call.line q ()) ++ [Call.end_ (A := Unit) closed]) := by
    intro r
    induction r with
    | nil => intro cur first; simp [Poly.fromPolylineGo, specFrom]
    | cons q r ih => intro cur first; simp [Poly.fromPolylineGo, specFrom, ih]
  simp [Poly.fromPolyline, Poly.fromPolylineGo, polyProg, specEvents, specFrom, h]


/-! ### command buffers -/

/-- `PathCommands::iter` on a built command buffer yields the program's specification events
(over ids); every `CmdIter::next().unwrap()` succeeds. -/
theorem commands_iter_eq_spec {A : Type} (prog : List (Call Nat A)) (h : WellNested prog) :
    Cmd.iter (Cmd.build prog).1 = some (specEvents prog) := by
  simp only [Cmd.iter, Cmd.build, Cmd.run_emit, Cmd.Builder.new, List.nil_append]
  exact Cmd.iterGo_emit prog none _ _ 0 0 h (by intro f0 c0 h; cases h)

/-- `PathCommands::events(endpoints, control_points)` (and `PointEvents`) is the id-event
sequence with every id looked up in the external stores — in particular it stays inside the
stores exactly when all ids of the program are valid indices. -/
theorem commands_events_eq_spec {A π : Type} (prog : List (Call Nat A)) (h : WellNested prog)
    (eps cps : List π) :
    Cmd.events (Cmd.build prog).1 eps cps
      = resolveAll (fun i => eps[i]?) (fun i => cps[i]?) (specEvents prog) := by
  simp only [Cmd.events, Cmd.build, Cmd.run_emit, Cmd.Builder.new, List.nil_append]
  exact Cmd.eventsGo_emit eps cps prog none _ _ 0 0 h (by intro f0 c0 h; cases h)


/-- Random access agrees with iteration for `PathCommands`: the event ids the builder hands
back, each through `event(id)`, give exactly the events `iter` yields (all reads in bounds,
including the back-pointer to the sub-path's first event used by End/Close). -/
theorem commands_event_eq_iter {A : Type} (prog : List (Call Nat A)) (h : WellNested prog) :
    (Cmd.build prog).2.mapM (Cmd.event (Cmd.build prog).1) = some (specEvents prog) := by
  simp only [Cmd.build, Cmd.run_emit, Cmd.run_ids, Cmd.Builder.new, List.nil_append]
  exact Cmd.mapM_event_emit _ prog none [] 0 (by simp) h (by intro f0 c0 h; cases h)


/-! ### path-buffer witness, first endpoint, no out-of-bounds read -/

/-- The path-buffer entry of the property does NOT read back with its attributes in the current
code: one attribute, `M 0 0 [1] L 5 0 [2] L 5 5 [3] Z` — the entry claims 0 attributes and its
`iter` yields the attribute slot `(1, 0)` as a point. -/
theorem path_buffer_get_witness :
    let prog : Prog Int := [.begin (0, 0) [1], .line (5, 0) [2], .line (5, 5) [3], .end_ true]
    let entry := ((PathBuffer.new (S := Int)).addWithAttributes 1 prog).bind fun r => r.1.get 0
    entry.map (·.numAttributes) = some 0 ∧
    entry.bind PathData.iter ≠ some (specEvents prog) ∧
    entry.bind PathData.iter = some
      [Event.begin (0, 0), Event.line (0, 0) (1, 0), Event.line (1, 0) (5, 0),
       Event.end_ (5, 0) (0, 0) true] := by decide

/-- `first_endpoint` of a built path: `None` for the empty path, otherwise the first `begin`
with its attributes. -/
theorem first_endpoint_eq (n : Nat) (prog : Prog S) (hv : ValidProg n prog) :
    (stored n prog).firstEndpoint =
      some (match prog with
            | Call.begin p a :: _ => some (p, a)
            | _ => none) := by
  cases prog with
  | nil => simp [PathData.firstEndpoint, stored, emitPts]
  | cons c r =>
    obtain ⟨hn, ha⟩ := hv
    cases c with
    | begin p a =>
      simp only [attrsOk, Bool.and_eq_true, beq_iff_eq] at ha
      have h := endpointA_at (stored n (Call.begin p a :: r)) [] (emitPts p a r) p a
        (by simp [stored, emitPts]) (by simpa [stored] using ha.1)
      simp at h
      simp [PathData.firstEndpoint, stored, emitPts, endpointPts] at h ⊢
      exact h
    | _ => simp [WellNested, wellNestedFrom] at hn

/-- No out-of-bounds read: on a path produced by a builder from a valid program, every
`List` index / pointer read / checked subtraction / assertion performed by `iter`,
`iter_with_attributes`, `id_iter` + `path[id]` + `path.attributes(id)` and `first_endpoint`
succeeds (the views return `some`).  (`reversed` and `last_endpoint`: tie and oracle only.) -/
theorem no_oob (n : Nat) (prog : Prog S) (hv : ValidProg n prog) :
    (buildWithAttributes n prog).isSome ∧
    (stored n prog).iter.isSome ∧
    (stored n prog).iterWithAttributes.isSome ∧
    (resolveAll (stored n prog).point (stored n prog).point (stored n prog).idIter).isSome ∧
    (resolveAll (stored n prog).endpointA (stored n prog).ctrlA (stored n prog).idIter).isSome ∧
    (stored n prog).firstEndpoint.isSome := by
  simp [builder_total n prog hv, iter_eq_spec n prog hv, with_attributes_eq n prog hv,
    id_iter_resolves n prog hv, id_iter_resolves_attributes n prog hv, first_endpoint_eq n prog hv]

/-! ### non-vacuity: the hypotheses are satisfiable by non-trivial programs -/

/-- three attributes (odd: padded), a curve, a closed and a single-point sub-path -/
def exampleProg : Prog Int :=
  [.begin (0, 0) [1, 2, 3], .line (5, 0) [4, 5, 6], .quad (9, 9) (5, 5) [7, 8, 9], .end_ true,
   .begin (7, 7) [0, 0, 1], .end_ false]

example : ValidProg 3 exampleProg := ⟨by decide, by decide⟩
example : (stored 3 exampleProg).iter = some (specEvents exampleProg) :=
  iter_eq_spec 3 exampleProg ⟨by decide, by decide⟩
example : (stored 3 exampleProg).points.length = 16 := by decide
example : WellNested (polyProg [(0 : Int), 1, 2] true) := by decide
example : WellNested ([.begin 0 (), .quad 1 2 (), .end_ true] : List (Call Nat Unit)) := by decide
example : ∀ q ∈ [exampleProg, exampleProg], ValidProg 3 q := by
  intro q hq; simp at hq; subst hq; exact ⟨by decide, by decide⟩
example : ((0 : Nat) + 1 < [(0 : Int), 1, 2].length) := by decide
/-- the reversed view of the model on the example (no theorem about `Reversed` yet: it is tied
and oracle-checked only) -/
example : ((stored 3 exampleProg).reversedIntoPath.bind PathData.reversedWithAttributes)
    = (stored 3 exampleProg).iterWithAttributes := by decide


end Lyon.C14
