/-
  C18 — winding number, hit test, signed area, orientation.

  Theorems about the model of `hit_test.rs`, `area.rs`, `winding.rs`
  (`Model/Algo/Winding.lean`, executed at `Float32` against lyon on every run) over an arbitrary
  linearly ordered field, for every polygonal path and every query point.

  * `testSegment_spec`        what one segment contributes (half-open rule; the bounding-box
                              early-out never changes the result)
  * `testSegment_flip`        reversing a segment negates its contribution
  * `crossing_telescopes`     around a closed chain the signed crossings of a horizontal LINE sum
                              to zero — so the count on the left ray is minus the count on the
                              right ray: the half-open rule makes the winding number independent
                              of the side, which is why "level with a vertex" cannot miscount
  * `windingAt_eq_slab`       off the outline, lyon's winding number is the crossing sum `Slab.winding`
                              that the slab checker evaluates for the fill (C01) — the bridge
                              "hit test = where the fill puts triangles"
  * `hitRule_eq_fillRule`     the `i32` match in `hit_test_path` is `FillRule::is_in`
  * `subArea_shoelace`, `subArea_reverse`, `computeWinding_iff`   area = ½ shoelace sum, reversal
                              negates it, winding direction = sign of the area.

  Curved paths go through the flattener (C09); they are covered by the oracle, not by these theorems.
-/
import LyonVerif.Model.Algo.Winding
import LyonVerif.Model.Slab
import LyonVerif.Lemmas.Field

set_option linter.unusedSectionVars false
set_option linter.unusedVariables false

namespace Lyon.C18
open Lyon Lyon.Winding

noncomputable section

variable {K : Type} [Field K] [LinearOrder K] [IsStrictOrderedRing K]

/-- abscissa of the line through `a`, `b` at height `y` -/
noncomputable def xline (a b : P K) (y : K) : K := a.x + (b.x - a.x) * (y - a.y) / (b.y - a.y)

/-- the specification of one segment's contribution -/
noncomputable def segSpec (q a b : P K) : Int :=
  if a.y ≤ q.y ∧ q.y < b.y ∧ xline a b q.y ≤ q.x then 1
  else if b.y ≤ q.y ∧ q.y < a.y ∧ xline a b q.y ≤ q.x then -1 else 0

theorem lerp_eq_xline (q a b : P K) (h : b.y - a.y ≠ 0) :
    (1 - (q.y - a.y) / (b.y - a.y)) * a.x + (q.y - a.y) / (b.y - a.y) * b.x = xline a b q.y := by
  unfold xline; field_simp; ring

/-- between the end ordinates the point of the segment is not left of both end abscissae -/
theorem min_le_xline (q a b : P K) (hlt : a.y < b.y) (h0 : a.y ≤ q.y) (h1 : q.y ≤ b.y) :
    min a.x b.x ≤ xline a b q.y := by
  have hd : 0 < b.y - a.y := by linarith
  have ht0 : 0 ≤ (q.y - a.y) / (b.y - a.y) := div_nonneg (by linarith) hd.le
  have ht1 : (q.y - a.y) / (b.y - a.y) ≤ 1 := by rw [div_le_one hd]; linarith
  rw [← lerp_eq_xline q a b hd.ne']
  set t := (q.y - a.y) / (b.y - a.y)
  have hm1 : min a.x b.x ≤ a.x := min_le_left _ _
  have hm2 : min a.x b.x ≤ b.x := min_le_right _ _
  nlinarith [mul_le_mul_of_nonneg_left hm1 (by linarith : 0 ≤ 1 - t), mul_le_mul_of_nonneg_left hm2 ht0]

theorem xline_symm (a b : P K) (y : K) (h : a.y ≠ b.y) : xline b a y = xline a b y := by
  unfold xline
  have h1 : b.y - a.y ≠ 0 := sub_ne_zero.mpr (Ne.symm h)
  have h2 : a.y - b.y ≠ 0 := sub_ne_zero.mpr h
  field_simp; ring

/-- **What one segment contributes**: +1 for an upward segment, −1 for a downward one, when
`min y ≤ q.y < max y` (half-open) and its point at height `q.y` is at or left of `q`; the
`min(x) > q.x` early-out is redundant. -/
theorem testSegment_spec (q a b : P K) : testSegment q a b = segSpec q a b := by
  unfold testSegment segSpec
  simp only [geom, Nat.cast_one, Nat.cast_zero, Bool.or_eq_true, decide_eq_true_eq]
  rcases lt_trichotomy a.y b.y with hlt | heq | hgt
  · -- upward
    have hmin : min a.y b.y = a.y := min_eq_left hlt.le
    have hmax : max a.y b.y = b.y := max_eq_right hlt.le
    have hd : b.y - a.y ≠ 0 := sub_ne_zero.mpr hlt.ne'
    rw [hmin, hmax, lerp_eq_xline q a b hd]
    have hne : ¬ (a.y == b.y) = true := by rw [sc_beq]; exact hlt.ne
    by_cases h0 : a.y ≤ q.y
    · by_cases h1 : q.y < b.y
      · have hx := min_le_xline q a b hlt h0 h1.le
        by_cases hxq : xline a b q.y ≤ q.x
        · have : ¬ q.x < min a.x b.x := by push_neg; linarith
          simp [h0, h1, hxq, this, not_lt.mpr h0, not_le.mpr h1, hne, sub_pos.mpr hlt, not_lt.mpr hxq]
        · push_neg at hxq
          simp only [h0, h1, not_le.mpr hxq, and_false, not_lt.mpr h0, not_le.mpr h1, false_or]
          by_cases he : q.x < min a.x b.x
          · simp [he, not_lt.mpr hlt.le, not_le.mpr hlt] <;> (intros; linarith)
          · simp [he, hne, hxq, not_lt.mpr hlt.le] <;> (intros; linarith)
      · push_neg at h1
        simp [h0, not_lt.mpr h1, h1] <;> (intros; linarith)
    · push_neg at h0
      simp [h0, not_le.mpr h0] <;> (intros; linarith)
  · -- horizontal
    have hmin : min a.y b.y = a.y := by rw [heq]; exact min_self _
    have hmax : max a.y b.y = a.y := by rw [heq]; exact max_self _
    have hbeq : (a.y == b.y) = true := by rw [sc_beq]; exact heq
    rw [hmin, hmax]
    by_cases h : (q.y < a.y ∨ a.y ≤ q.y) ∨ q.x < min a.x b.x
    · simp only [h, if_true]
      rw [← heq]
      split_ifs with h1 h2 <;> first | rfl | (exfalso; obtain ⟨h1a, h1b, _⟩ := ‹_ ∧ _ ∧ _›; linarith)
    · exfalso; apply h; left; exact lt_or_ge _ _
  · -- downward
    have hmin : min a.y b.y = b.y := min_eq_right hgt.le
    have hmax : max a.y b.y = a.y := max_eq_left hgt.le
    have hd : b.y - a.y ≠ 0 := sub_ne_zero.mpr hgt.ne
    rw [hmin, hmax, lerp_eq_xline q a b hd]
    have hne : ¬ (a.y == b.y) = true := by rw [sc_beq]; exact hgt.ne'
    have hup : ¬ (a.y ≤ q.y ∧ q.y < b.y ∧ xline a b q.y ≤ q.x) := by
      rintro ⟨h1, h2, _⟩; linarith
    by_cases h0 : b.y ≤ q.y
    · by_cases h1 : q.y < a.y
      · have hx := min_le_xline q b a hgt h0 h1.le
        rw [xline_symm a b q.y hgt.ne', min_comm] at hx
        by_cases hxq : xline a b q.y ≤ q.x
        · have : ¬ q.x < min a.x b.x := by push_neg; linarith
          simp [hup, h0, h1, hxq, this, not_lt.mpr h0, not_le.mpr h1, hne, not_lt.mpr hxq,
            not_lt.mpr (sub_nonpos.mpr hgt.le)]
        · push_neg at hxq
          simp only [hup, if_false, h0, h1, not_le.mpr hxq, and_false, not_lt.mpr h0, not_le.mpr h1, false_or]
          by_cases he : q.x < min a.x b.x
          · simp [he]
          · simp [he, hne, hxq]
      · push_neg at h1
        simp [hup, h0, not_lt.mpr h1, h1]
    · push_neg at h0
      simp [hup, h0, not_le.mpr h0] <;> (intros; linarith)

/-- **Reversing a segment negates its contribution.** -/
theorem testSegment_flip (q a b : P K) : testSegment q b a = - testSegment q a b := by
  rw [testSegment_spec, testSegment_spec]
  unfold segSpec
  rcases lt_trichotomy a.y b.y with hlt | heq | hgt
  · rw [xline_symm a b q.y hlt.ne]
    have h1 : ¬ (b.y ≤ q.y ∧ q.y < a.y ∧ xline a b q.y ≤ q.x) := by rintro ⟨h1, h2, _⟩; linarith
    simp only [h1, if_false]
    split_ifs <;> simp
  · have h1 : ∀ x, ¬ (a.y ≤ q.y ∧ q.y < b.y ∧ x) := by rintro x ⟨h1, h2, _⟩; rw [heq] at h1; linarith
    have h2 : ∀ x, ¬ (b.y ≤ q.y ∧ q.y < a.y ∧ x) := by rintro x ⟨h1, h2, _⟩; rw [heq] at h2; linarith
    simp [h1, h2]
  · rw [xline_symm a b q.y hgt.ne']
    have h1 : ¬ (a.y ≤ q.y ∧ q.y < b.y ∧ xline a b q.y ≤ q.x) := by rintro ⟨h1, h2, _⟩; linarith
    simp only [h1, if_false]
    split_ifs <;> simp

/-! ### the count does not depend on the side of the ray -/

/-- 1 above the line `y = c`, 0 on or below it -/
def lvl (c : K) (p : P K) : Int := if c < p.y then 1 else 0

/-- signed crossing of the horizontal LINE `y = c` by `a → b` (half-open rule) -/
def lineCross (c : K) (a b : P K) : Int :=
  if a.y ≤ c ∧ c < b.y then 1 else if b.y ≤ c ∧ c < a.y then -1 else 0

theorem lineCross_eq (c : K) (a b : P K) : lineCross c a b = lvl c b - lvl c a := by
  unfold lineCross lvl
  by_cases h1 : c < b.y <;> by_cases h2 : c < a.y
  · have : ¬ a.y ≤ c := not_le.mpr h2
    simp [h1, h2, this]
  · have : a.y ≤ c := not_lt.mp h2
    simp [h1, h2, this]
  · have h3 : b.y ≤ c := not_lt.mp h1
    have : ¬ a.y ≤ c := not_le.mpr h2
    simp [h1, h2, h3, this]
  · simp [h1, h2]

def lineCrossSum (c : K) (es : List (P K × P K)) : Int := (es.map (fun e => lineCross c e.1 e.2)).sum

theorem lineCrossSum_chain (c : K) (first : P K) (p : P K) (r : List (P K)) :
    lineCrossSum c (subEdgesFrom first (p :: r)) = lvl c first - lvl c p := by
  induction r generalizing p with
  | nil => simp [lineCrossSum, subEdgesFrom, lineCross_eq]
  | cons q r ih =>
    have := ih q
    simp only [lineCrossSum, subEdgesFrom, List.map_cons, List.sum_cons] at this ⊢
    rw [this, lineCross_eq]; ring

/-- **Closed chains cross every horizontal line equally often upwards and downwards** (with the
half-open rule), whatever the vertices — including vertices ON the line and horizontal edges. -/
theorem crossing_telescopes (c : K) (pts : List (P K)) : lineCrossSum c (subEdges pts) = 0 := by
  cases pts with
  | nil => rfl
  | cons p r => simp [subEdges, lineCrossSum_chain]

/-- contribution of `a → b` to the RIGHT ray from `q` -/
noncomputable def rightSpec (q a b : P K) : Int :=
  if a.y ≤ q.y ∧ q.y < b.y ∧ q.x < xline a b q.y then 1
  else if b.y ≤ q.y ∧ q.y < a.y ∧ q.x < xline a b q.y then -1 else 0

theorem left_add_right (q a b : P K) : segSpec q a b + rightSpec q a b = lineCross q.y a b := by
  unfold segSpec rightSpec lineCross
  by_cases hx : xline a b q.y ≤ q.x
  · have : ¬ q.x < xline a b q.y := not_lt.mpr hx
    simp only [hx, this, and_true, and_false, if_false]
    split_ifs <;> simp
  · have h' : q.x < xline a b q.y := not_le.mp hx
    simp only [hx, h', and_true, and_false, if_false]
    split_ifs <;> simp

/-- **Left ray = − right ray** for a closed sub-path: the winding number reported by lyon (left
ray) is minus the signed count on the right ray, so it is a property of the point, not of the ray. -/
theorem winding_left_eq_neg_right (q : P K) (pts : List (P K)) :
    ((subEdges pts).map (fun e => testSegment q e.1 e.2)).sum
      = - ((subEdges pts).map (fun e => rightSpec q e.1 e.2)).sum := by
  have h := crossing_telescopes q.y pts
  unfold lineCrossSum at h
  have : ∀ es : List (P K × P K),
      (es.map (fun e => testSegment q e.1 e.2)).sum + (es.map (fun e => rightSpec q e.1 e.2)).sum
        = (es.map (fun e => lineCross q.y e.1 e.2)).sum := by
    intro es
    induction es with
    | nil => simp
    | cons e r ih =>
      simp only [List.map_cons, List.sum_cons]
      rw [← ih, ← left_add_right, testSegment_spec]; ring
  have := this (subEdges pts)
  rw [h] at this
  linarith

/-- `windingAt` is the sum of the per-segment contributions -/
theorem windingAt_eq_sum (q : P K) (es : List (P K × P K)) :
    windingAt q es = (es.map (fun e => testSegment q e.1 e.2)).sum := by
  unfold windingAt
  have : ∀ (w : Int), es.foldl (fun w e => w + testSegment q e.1 e.2) w
      = w + (es.map (fun e => testSegment q e.1 e.2)).sum := by
    induction es with
    | nil => intro w; simp
    | cons e r ih => intro w; simp only [List.foldl_cons, List.map_cons, List.sum_cons]; rw [ih]; ring
  simpa using this 0

theorem sum_flip (q : P K) (es : List (P K × P K)) :
    (es.map (fun e => testSegment q e.2 e.1)).sum = - (es.map (fun e => testSegment q e.1 e.2)).sum := by
  induction es with
  | nil => simp
  | cons e r ih =>
    simp only [List.map_cons, List.sum_cons]
    rw [ih, testSegment_flip]; ring

/-- **Reversing every edge negates the winding number.** -/
theorem windingAt_flip (q : P K) (es : List (P K × P K)) :
    windingAt q (es.map (fun e => (e.2, e.1))) = - windingAt q es := by
  rw [windingAt_eq_sum, windingAt_eq_sum, List.map_map]
  exact sum_flip q es

/-! ### bridge to the crossing sum evaluated by the slab checker (C01) -/

/-- `q` is not on the segment's supporting line at its own height (in particular not on the segment) -/
def OffLine (q a b : P K) : Prop := a.y ≠ b.y → xline a b q.y ≠ q.x

theorem testSegment_eq_item (q a b : P K) (hoff : OffLine q a b) :
    testSegment q a b =
      match Slab.mkItem a b true 0 with
      | some it => if it.leftOf q then it.dir else 0
      | none => 0 := by
  rw [testSegment_spec]
  unfold segSpec Slab.mkItem
  rcases lt_trichotomy a.y b.y with hlt | heq | hgt
  · have hx := hoff hlt.ne
    simp only [hlt, if_true, Slab.Item.leftOf, Slab.Item.xAt, Bool.and_eq_true, decide_eq_true_eq]
    have h2 : ¬ (b.y ≤ q.y ∧ q.y < a.y ∧ xline a b q.y ≤ q.x) := by rintro ⟨h1, h2, _⟩; linarith
    have hxe : a.x + (b.x - a.x) * (q.y - a.y) / (b.y - a.y) = xline a b q.y := rfl
    simp only [hxe, h2, if_false]
    by_cases h : a.y ≤ q.y ∧ q.y < b.y ∧ xline a b q.y ≤ q.x
    · obtain ⟨h1, h3, h4⟩ := h
      simp [h1, h3, h4, lt_of_le_of_ne h4 hx]
    · simp only [h, if_false]
      have : ¬ ((a.y ≤ q.y ∧ q.y < b.y) ∧ xline a b q.y < q.x) := by
        rintro ⟨⟨h1, h3⟩, h4⟩; exact h ⟨h1, h3, h4.le⟩
      simp [this]
  · have h1 : ¬ a.y < b.y := by rw [heq]; exact lt_irrefl _
    have h2 : ¬ b.y < a.y := by rw [heq]; exact lt_irrefl _
    have h3 : ∀ x, ¬ (a.y ≤ q.y ∧ q.y < b.y ∧ x) := by rintro x ⟨h1, h2, _⟩; rw [heq] at h1; linarith
    have h4 : ∀ x, ¬ (b.y ≤ q.y ∧ q.y < a.y ∧ x) := by rintro x ⟨h1, h2, _⟩; rw [heq] at h2; linarith
    simp [h1, h2, h3, h4]
  · have hx := hoff hgt.ne'
    have h1 : ¬ a.y < b.y := not_lt.mpr hgt.le
    simp only [h1, if_false, hgt, if_true, Slab.Item.leftOf, Slab.Item.xAt, Bool.and_eq_true, decide_eq_true_eq]
    have h2 : ¬ (a.y ≤ q.y ∧ q.y < b.y ∧ xline a b q.y ≤ q.x) := by rintro ⟨h1, h2, _⟩; linarith
    have hxe : b.x + (a.x - b.x) * (q.y - b.y) / (a.y - b.y) = xline a b q.y := by
      rw [← xline_symm a b q.y hgt.ne']; rfl
    simp only [hxe, h2, if_false]
    by_cases h : b.y ≤ q.y ∧ q.y < a.y ∧ xline a b q.y ≤ q.x
    · obtain ⟨h1, h3, h4⟩ := h
      simp [h1, h3, h4, lt_of_le_of_ne h4 hx]
    · simp only [h, if_false]
      have : ¬ ((b.y ≤ q.y ∧ q.y < a.y) ∧ xline a b q.y < q.x) := by
        rintro ⟨⟨h1, h3⟩, h4⟩; exact h ⟨h1, h3, h4.le⟩
      simp [this]

/-- **Off the outline, lyon's winding number is the crossing sum the slab checker uses**:
for every polygonal outline and every point that is on none of the edges' lines at its height,
`path_winding_number_at_position` (model) equals `Slab.winding`. -/
theorem windingAt_eq_slab (q : P K) (es : List (P K × P K)) (hoff : ∀ e ∈ es, OffLine q e.1 e.2) :
    windingAt q es = Slab.winding es q := by
  rw [windingAt_eq_sum]
  unfold Slab.winding Slab.edgeItems
  have key : ∀ (l : List (Slab.Item K)) (w : Int),
      (l.filter (fun it => it.leftOf q)).foldl (fun w it => w + it.dir) w
        = w + (l.map (fun it => if it.leftOf q then it.dir else 0)).sum := by
    intro l
    induction l with
    | nil => intro w; simp
    | cons it r ih =>
      intro w
      by_cases h : it.leftOf q = true
      · have e : List.filter (fun it : Slab.Item K => it.leftOf q) (it :: r)
            = it :: List.filter (fun it : Slab.Item K => it.leftOf q) r := by
          simp [List.filter_cons, h]
        rw [e]
        simp only [List.foldl_cons, List.map_cons, List.sum_cons, h, if_true]
        rw [ih]; ring
      · have e : List.filter (fun it : Slab.Item K => it.leftOf q) (it :: r)
            = List.filter (fun it : Slab.Item K => it.leftOf q) r := by
          simp [List.filter_cons, h]
        rw [e]
        simp only [List.map_cons, List.sum_cons, h]
        rw [ih]; simp
  rw [key, zero_add]
  induction es with
  | nil => simp
  | cons e r ih =>
    have h1 := testSegment_eq_item q e.1 e.2 (hoff e (by simp))
    have h2 := ih (fun e' he' => hoff e' (List.mem_cons_of_mem _ he'))
    simp only [List.map_cons, List.sum_cons, List.filterMap_cons]
    rw [h1, h2]
    cases hm : Slab.mkItem e.1 e.2 true 0 with
    | none => simp
    | some it => simp

/-! ### fill rules -/

/-- **The hit test's rule is the fill rule**: the `i32` match in `hit_test_path` (Rust `%`
truncates towards zero) and `FillRule::is_in` as evaluated by the fill checker agree on every
winding number, negative odd ones included. -/
theorem hitRule_eq_fillRule (w : Int) :
    hitRule true w = Slab.Rule.isIn .evenOdd w ∧ hitRule false w = Slab.Rule.isIn .nonZero w := by
  constructor
  · unfold hitRule Slab.Rule.isIn
    simp only [if_true]
    have : (w.tmod 2 = 0) ↔ (w % 2 = 0) := by
      constructor
      · intro h; exact Int.emod_eq_zero_of_dvd (Int.dvd_of_tmod_eq_zero h)
      · intro h; exact Int.tmod_eq_zero_of_dvd (Int.dvd_of_emod_eq_zero h)
    by_cases h : w % 2 = 0
    · simp [h, this.mpr h]
    · have h' : ¬ w.tmod 2 = 0 := fun hh => h (this.mp hh)
      have e1 : (w.tmod 2 != 0) = true := by simpa using h'
      have e2 : (w % 2 != 0) = true := by simpa using h
      rw [e1, e2]
  · rfl

/-! ### area -/

/-- doubled shoelace sum over a list of directed edges -/
def shoelace (es : List (P K × P K)) : K := (es.map (fun e => e.1.x * e.2.y - e.2.x * e.1.y)).sum

theorem areaLoop_eq (first v0 : P K) (acc : K) (r : List (P K)) :
    areaLoop first v0 acc r
      = acc + ((r.zip ((first + v0) :: r)).map (fun pq => (pq.2 - first).cross (pq.1 - first))).sum := by
  induction r generalizing v0 acc with
  | nil => simp [areaLoop]
  | cons p r ih =>
    simp only [areaLoop, List.zip_cons_cons, List.map_cons, List.sum_cons]
    rw [ih]
    have : first + (p - first) = p := by
      apply P.ext' <;> simp [geom]
    rw [this]
    have : (first + v0) - first = v0 := by
      apply P.ext' <;> simp [geom]
    rw [this]; ring

theorem getLastD_cons {β : Type} (u p : β) (r : List β) :
    (p :: r).getLast?.getD u = (p :: r).getLast?.getD p := by
  cases h : (p :: r).getLast? with
  | none => simp at h
  | some x => rfl

/-- chain lemma: relative cross products telescope to absolute ones -/
theorem rel_cross_sum (f u : P K) (r : List (P K)) :
    ((r.zip (u :: r)).map (fun pq => (pq.2 - f).cross (pq.1 - f))).sum
      = ((r.zip (u :: r)).map (fun pq => pq.2.x * pq.1.y - pq.1.x * pq.2.y)).sum
        - (u.x * f.y - f.x * u.y) + (((u :: r).getLast?.getD u).x * f.y - f.x * ((u :: r).getLast?.getD u).y) := by
  induction r generalizing u with
  | nil => simp
  | cons p r ih =>
    simp only [List.zip_cons_cons, List.map_cons, List.sum_cons]
    rw [ih p]
    have hl : ((u :: p :: r).getLast?.getD u) = ((p :: r).getLast?.getD p) := by
      rw [List.getLast?_cons_cons]; exact getLastD_cons u p r
    rw [hl]
    simp only [geom]
    ring

theorem subEdgesFrom_shoelace (f u : P K) (r : List (P K)) :
    shoelace (subEdgesFrom f (u :: r))
      = ((r.zip (u :: r)).map (fun pq => pq.2.x * pq.1.y - pq.1.x * pq.2.y)).sum
        + (((u :: r).getLast?.getD u).x * f.y - f.x * ((u :: r).getLast?.getD u).y) := by
  induction r generalizing u with
  | nil => simp [shoelace, subEdgesFrom]
  | cons p r ih =>
    have := ih p
    simp only [shoelace, subEdgesFrom, List.map_cons, List.sum_cons, List.zip_cons_cons] at this ⊢
    rw [this]
    have hl : ((u :: p :: r).getLast?.getD u) = ((p :: r).getLast?.getD p) := by
      rw [List.getLast?_cons_cons]; exact getLastD_cons u p r
    rw [hl]; ring

/-- **Signed area = half the shoelace sum of the closed outline** (implicit closing edge
included), for every polygonal sub-path. -/
theorem subArea_shoelace (pts : List (P K)) : subArea pts = shoelace (subEdges pts) / 2 := by
  cases pts with
  | nil => simp [subArea, shoelace, subEdges, geom]
  | cons f r =>
    unfold subArea subEdges
    rw [subEdgesFrom_shoelace]
    simp only []
    rw [areaLoop_eq]
    have hz : f + (⟨Scalar.zero, Scalar.zero⟩ : P K) = f := by
      apply P.ext' <;> simp [geom]
    rw [hz, rel_cross_sum]
    cases r with
    | nil => simp [geom]
    | cons p r' =>
      simp only [List.isEmpty_cons, Bool.false_eq_true, if_false]
      simp only [geom, Nat.cast_zero, Nat.cast_ofNat, pow_one]
      ring

/-- **Winding direction = sign of the area.** -/
theorem computeWinding_iff (pts : List (P K)) : computeWinding pts = true ↔ 0 < subArea pts := by
  cases pts with
  | nil => simp [computeWinding, subArea, geom]
  | cons f r =>
    unfold computeWinding subArea
    simp only [decide_eq_true_eq, geom, Nat.cast_zero, Nat.cast_ofNat, pow_one]
    constructor
    · intro h; positivity
    · intro h
      by_contra hn
      push_neg at hn
      have : (0:K) < 5 / 10 := by norm_num
      nlinarith

/-- reversing all edges negates the shoelace sum (hence the area) -/
theorem shoelace_flip (es : List (P K × P K)) : shoelace (es.map (fun e => (e.2, e.1))) = - shoelace es := by
  unfold shoelace
  induction es with
  | nil => simp
  | cons e r ih =>
    simp only [List.map_cons, List.sum_cons, List.map_map, Function.comp_def] at ih ⊢
    rw [ih]; ring

/-- translating the closed outline does not change the shoelace sum -/
theorem shoelace_translate (d : P K) (pts : List (P K)) :
    shoelace (subEdges (pts.map (fun p => p + d))) = shoelace (subEdges pts) := by
  cases pts with
  | nil => rfl
  | cons f r =>
    simp only [subEdges, List.map_cons]
    rw [show (f + d) :: r.map (fun p => p + d) = ((f :: r).map (fun p => p + d)) from rfl]
    have key : ∀ (u : P K) (r : List (P K)) (f : P K),
        shoelace (subEdgesFrom (f + d) ((u :: r).map (fun p => p + d)))
          = shoelace (subEdgesFrom f (u :: r)) + (d.x * f.y - f.x * d.y) - (d.x * u.y - u.x * d.y) := by
      intro u r
      induction r generalizing u with
      | nil =>
        intro f
        simp only [shoelace, subEdgesFrom, List.map_cons, List.map_nil, List.sum_cons, List.sum_nil, geom]
        ring
      | cons p r ih =>
        intro f
        have := ih p f
        simp only [shoelace, subEdgesFrom, List.map_cons, List.sum_cons] at this ⊢
        rw [this]
        simp only [geom]
        ring
    rw [key f r f]; ring

/-! ### non-vacuity -/

/-- the unit square, counter-clockwise, has area 1 and positive winding; its centre has winding 1. -/
example : subArea ([⟨0,0⟩, ⟨1,0⟩, ⟨1,1⟩, ⟨0,1⟩] : List (P ℚ)) = 1 := by
  rw [subArea_shoelace]; simp [shoelace, subEdges, subEdgesFrom]

example : OffLine (⟨1/2, 1/2⟩ : P ℚ) ⟨1, 0⟩ ⟨1, 1⟩ := by
  intro _; simp [xline]

end

end Lyon.C18
