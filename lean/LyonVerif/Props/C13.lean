/-
  C13 — elliptic arcs: end-point and centre forms agree; Bézier approximations follow.

  All statements are about the model of `Model/Geom/SvgArc.lean` (+ `Arc` of `Model/Geom/Basic.lean`),
  the same `def`s that the correspondence check runs at `Float32`/`Float` against lyon_geom,
  instantiated at an arbitrary linearly ordered field `K`.  `sin`, `cos`, `sqrt`, `fmod`, `ceil`,
  the float→int cast and `π` are the *parameters* of the class `Transc K`; every law that a proof
  uses is an explicit hypothesis (collected in `ExactTrig` for the conversion theorems), and the
  examples at the end discharge them for `ℝ` with Mathlib's functions.

  Structure
  * §1  the two Bézier conversions as closed forms (`quads_closed_form`, `cubics_closed_form`),
        from which: count (`arc_beziers_count`), parameter ranges 0 → exactly 1, consecutive,
        increasing (`arc_beziers_ranges`), connectedness (`arc_beziers_connected`), pieces begin and
        end on the arc at their range ends (`arc_beziers_endpoints_on_arc_partial`, for
        |sweep| ≤ 2π) and the witness that this FAILS beyond a full turn
        (`arc_beziers_beyond_turn_witness`, open finding C13-bezier-sweep-clamped), control points
        on BOTH end tangents (`quad_ctrl_on_tangents`, `cubic_ctrl_on_tangents`).
  * §2  `from_svg_arc`: sweep direction and size bound (`svg_arc_sweep_sign`) and radii
        (`svg_arc_radii`) hold for any angle function.
  * §3  `from_svg_arc` starts and ends at the given points (`svg_arc_endpoints`), scaled radii
        (`svg_arc_radii_scaled`), round trip incl. the large-arc flag (`svg_arc_roundtrip`).  The angle
        function of the code is libm `atan2` (`exactAngle`); its laws and those of
        `sqrt/sin/cos/%` are the hypotheses `ExactTrig exactAngle`, discharged for `ℝ`
        (`exactTrig_real`, with `Complex.arg` as `atan2`).
  * §4  why euclid's `angle_from_x_axis` must not be used there: `fast_atan2_not_exact_witness`,
        `fast_atan2_diagonal_witness`.

  History.  Until /repo efc24b99 `from_svg_arc` used euclid's polynomial `fast_atan2`; the arc
  then missed the given points by up to 2·10⁻⁴·radius (f64: from (1000,1000) to (−1000,1000),
  r 1500, rot 0.3, large, ccw → `arc.to()` = (−1000.112, 1000.100)); `svg_arc_endpoints` was a
  theorem about the algorithm only.  Until /repo 863c17b2 the quadratic control point came from
  `Line::intersection` of the end tangents with an absolute parallelism threshold
  (`|rx·ry·sin step| ≤ S::EPSILON` ⇒ ctrl = from: f32 radii (0.01,0.01), sweep π/2 → two chords,
  mid points at 0.943·r; formerly `quad_ctrl_tiny_radii_witness`) and cancellation on absolute
  positions (f32 centre 0, r 100, start 0.3, sweep 10⁻⁶ → ctrl 5.5 units from a 10⁻⁴ long arc).
  Until /repo 20bcfb88 / 40e30eb0 `WithSvg::arc` recomputed the start angle as a polar angle /
  with `fast_atan2`.  The oracle keeps the classes of these (now fixed) findings active.

  Not theorems (left to the oracle, named gaps): the distance between the Bézier pieces and the
  ellipse (3.2·10⁻³ / 2·10⁻³ of the radius, measured); anything about IEEE rounding.
-/
import LyonVerif.Model.Geom.SvgArc
import LyonVerif.Lemmas.Field
import Mathlib.Algebra.Order.Ring.Abs
import Mathlib.Tactic.NormNum
import Mathlib.Analysis.SpecialFunctions.Trigonometric.Inverse
import Mathlib.Analysis.Real.Pi.Bounds
import Mathlib.Analysis.SpecialFunctions.Complex.Arg

set_option linter.unusedSectionVars false
set_option linter.unusedVariables false

geom_all Lyon.Arc
geom_all Lyon.Quad
geom_all Lyon.Cubic

namespace Lyon.C13
open Lyon Scalar ArcConv

variable {K : Type} [Field K] [LinearOrder K] [IsStrictOrderedRing K] [Transc K] [ArcConv.Eps K]

/-! ## §1 The Bézier conversions -/

/-- the running range start of `arc_to_quadratic_beziers_with_t`:
`t0 = 0; t1 = if i + 1 == n { 1 } else { t0 + dt }; t0 = t1` -/
noncomputable def tSeq (n : Nat) (dt : K) : Nat → K
  | 0 => 0
  | j+1 => nextT n j (tSeq n dt j) dt

theorem quadLoop_eq (arc : Arc K) (step dt : K) (n : Nat) :
    ∀ k i, quadLoop arc step dt n k i (tSeq n dt i) =
      (List.range' i k).map (fun j => (quadPiece arc step j, tSeq n dt j, tSeq n dt (j+1))) := by
  intro k
  induction k with
  | zero => intro i; simp [quadLoop]
  | succ k ih =>
    intro i
    have h := ih (i+1)
    simp only [tSeq] at h
    simp only [quadLoop, List.range'_succ, List.map_cons, tSeq, h]

theorem cubicLoop_eq (arc : Arc K) (step : K) :
    ∀ k i, cubicLoop arc step k i = (List.range' i k).map (fun j => cubicPiece arc step j) := by
  intro k
  induction k with
  | zero => intro i; simp [cubicLoop]
  | succ k ih => intro i; simp only [cubicLoop, List.range'_succ, List.map_cons, ih (i+1)]

/-- number of quadratic pieces: `⌈min(|sweep|, 2π) / (π/4)⌉` as cast by lyon -/
noncomputable def nQ (arc : Arc K) : Nat := Transc.toNat (nStepsQ arc)
/-- number of cubic pieces: `⌈min(|sweep|, 2π) / (π/2)⌉` -/
noncomputable def nC (arc : Arc K) : Nat := Transc.toNat (nStepsC arc)
noncomputable def stepQ (arc : Arc K) : K := stepOf arc (nStepsQ arc)
noncomputable def stepC (arc : Arc K) : K := stepOf arc (nStepsC arc)
noncomputable def dtQ (arc : Arc K) : K := Scalar.one / nStepsQ arc
theorem dtQ_eq (arc : Arc K) : dtQ arc = 1 / nStepsQ arc := by simp [dtQ]

/-- **closed form of `arc_to_quadratic_beziers_with_t`**: piece `j` (for `j = 0 … n-1`) is the
quadratic between the ellipse points at angles `start + step·j` and `start + step·(j+1)`, with the
range `tSeq j .. tSeq (j+1)`. -/
theorem quads_closed_form (arc : Arc K) :
    quadsWithT arc = (List.range' 0 (nQ arc)).map
      (fun j => (quadPiece arc (stepQ arc) j, tSeq (nQ arc) (dtQ arc) j, tSeq (nQ arc) (dtQ arc) (j+1))) := by
  have hz : (Scalar.zero : K) = tSeq (nQ arc) (dtQ arc) 0 := by simp [tSeq]
  unfold quadsWithT
  rw [hz]
  exact quadLoop_eq arc (stepQ arc) (dtQ arc) (nQ arc) (nQ arc) 0

/-- **closed form of `arc_to_cubic_beziers`** -/
theorem cubics_closed_form (arc : Arc K) :
    cubics arc = (List.range' 0 (nC arc)).map (fun j => cubicPiece arc (stepC arc) j) := by
  simpa [cubics, nC, stepC] using cubicLoop_eq arc (stepC arc) (nC arc) 0

/-- count formula (the definition of `n`, spelled out): lyon emits
`⌈min(|sweep|, π·2) / (π/4)⌉` quadratics and `⌈min(|sweep|, π·2) / (π/2)⌉` cubics. -/
theorem arc_beziers_count (arc : Arc K) :
    (quadsWithT arc).length = Transc.toNat (Transc.ceil (Min.min |arc.sweep| (Transc.pi * 2) / (Transc.pi / 4)))
    ∧ (cubics arc).length = Transc.toNat (Transc.ceil (Min.min |arc.sweep| (Transc.pi * 2) / (Transc.pi / 2))) := by
  constructor
  · rw [quads_closed_form]; simp [nQ, nStepsQ, effSweep, fracPi4, geom]
  · rw [cubics_closed_form]; simp [nC, nStepsC, effSweep, fracPi2, geom]

theorem quads_get (arc : Arc K) (j : Nat) (hj : j < nQ arc) :
    (quadsWithT arc)[j]? =
      some (quadPiece arc (stepQ arc) j, tSeq (nQ arc) (dtQ arc) j, tSeq (nQ arc) (dtQ arc) (j+1)) := by
  rw [quads_closed_form]
  simp [hj]

theorem cubics_get (arc : Arc K) (j : Nat) (hj : j < nC arc) :
    (cubics arc)[j]? = some (cubicPiece arc (stepC arc) j) := by
  rw [cubics_closed_form]
  simp [hj]

/-- the range ends below the last one are `j·dt` -/
theorem tSeq_lt (n : Nat) (dt : K) : ∀ j, j < n → tSeq n dt j = j * dt := by
  intro j
  induction j with
  | zero => intro _; simp [tSeq]
  | succ j ih =>
    intro h
    have hne : ¬ (j + 1 = n) := by omega
    simp only [tSeq, nextT, hne, if_false, ih (by omega)]
    push_cast; ring

/-- the last range end is the literal `1` (not `n·dt`) -/
theorem tSeq_last (n : Nat) (dt : K) (hn : 0 < n) : tSeq n dt n = 1 := by
  obtain ⟨m, rfl⟩ : ∃ m, n = m + 1 := ⟨n - 1, by omega⟩
  simp [tSeq, nextT]

/-- **parameter ranges of the quadratic pieces**: there are `n` pieces; piece `j` carries the range
`tSeq j .. tSeq (j+1)` — so consecutive ranges share their end —; the first range starts at `0`;
the last one ends at exactly `1`; and, when the cast `n_steps ↦ n` is faithful (`hcast`), the
inner ends are `j/n`, strictly increasing. -/
theorem arc_beziers_ranges (arc : Arc K) :
    (quadsWithT arc).length = nQ arc
    ∧ (∀ j, j < nQ arc → ∃ q, (quadsWithT arc)[j]? =
          some (q, tSeq (nQ arc) (dtQ arc) j, tSeq (nQ arc) (dtQ arc) (j+1)))
    ∧ tSeq (nQ arc) (dtQ arc) 0 = 0
    ∧ (0 < nQ arc → tSeq (nQ arc) (dtQ arc) (nQ arc) = 1)
    ∧ (((nQ arc : Nat) : K) = nStepsQ arc →
        (∀ j, j < nQ arc → tSeq (nQ arc) (dtQ arc) j = (j : K) / (nQ arc : K))
        ∧ (∀ j, j < nQ arc → tSeq (nQ arc) (dtQ arc) j < tSeq (nQ arc) (dtQ arc) (j+1))) := by
  refine ⟨?_, ?_, rfl, tSeq_last _ _, ?_⟩
  · rw [quads_closed_form]; simp
  · intro j hj; exact ⟨_, quads_get arc j hj⟩
  · intro hcast
    have hform : ∀ j, j < nQ arc → tSeq (nQ arc) (dtQ arc) j = (j : K) / (nQ arc : K) := by
      intro j hj
      rw [tSeq_lt _ _ j hj, dtQ_eq, hcast]; ring
    refine ⟨hform, ?_⟩
    intro j hj
    have hnpos : (0 : K) < (nQ arc : K) := by exact_mod_cast (by omega : 0 < nQ arc)
    rw [hform j hj]
    by_cases hlast : j + 1 = nQ arc
    · have : tSeq (nQ arc) (dtQ arc) (j+1) = 1 := by rw [hlast]; exact tSeq_last _ _ (by omega)
      rw [this, div_lt_one hnpos]; exact_mod_cast hj
    · rw [hform (j+1) (by omega)]
      apply div_lt_div_of_pos_right _ hnpos
      push_cast; linarith

/-- **connected**: each piece starts where the previous one ends (the very same expression, so this
holds bit for bit in floating point too). -/
theorem arc_beziers_connected (arc : Arc K) :
    (∀ j x y, (quadsWithT arc)[j]? = some x → (quadsWithT arc)[j+1]? = some y → x.1.b = y.1.a)
    ∧ (∀ j x y, (cubics arc)[j]? = some x → (cubics arc)[j+1]? = some y → x.b = y.a) := by
  constructor
  · intro j x y hx hy
    have hlen : (quadsWithT arc).length = nQ arc := by rw [quads_closed_form]; simp
    have hj1 : j + 1 < nQ arc := by
      rw [← hlen]; exact (List.getElem?_eq_some_iff.mp hy).1
    rw [quads_get arc j (by omega)] at hx
    rw [quads_get arc (j+1) hj1] at hy
    cases hx; cases hy; rfl
  · intro j x y hx hy
    have hlen : (cubics arc).length = nC arc := by rw [cubics_closed_form]; simp
    have hj1 : j + 1 < nC arc := by
      rw [← hlen]; exact (List.getElem?_eq_some_iff.mp hy).1
    rw [cubics_get arc j (by omega)] at hx
    rw [cubics_get arc (j+1) hj1] at hy
    cases hx; cases hy; rfl

/-! ### pieces begin and end on the arc -/

theorem abs_mul_signum (x : K) : |x| * signum x = x := by
  unfold signum
  simp only [sc_zero, sc_one]
  split_ifs with h
  · rw [abs_of_neg h]; ring
  · rw [abs_of_nonneg (not_lt.mp h)]; ring

/-- for `|sweep| ≤ 2π` the `j`-th step angle is the arc's angle at parameter `j / n_steps` -/
theorem angleAt_eq_getAngle (arc : Arc K) (ns : K) (j : Nat) (hsw : |arc.sweep| ≤ Transc.pi * 2) :
    angleAt arc (stepOf arc ns) j = arc.getAngle ((j : K) / ns) := by
  have he : effSweep arc = |arc.sweep| := by
    simp only [effSweep, geom, Nat.cast_ofNat]
    exact min_eq_left hsw
  simp only [angleAt, stepOf, Arc.getAngle, he, ofNat_eq]
  have h := abs_mul_signum arc.sweep
  calc arc.start + |arc.sweep| / ns * signum arc.sweep * (j : K)
      = arc.start + (|arc.sweep| * signum arc.sweep) * ((j : K) / ns) := by ring
    _ = arc.start + arc.sweep * ((j : K) / ns) := by rw [h]

theorem pointAt_getAngle (arc : Arc K) (t : K) : pointAt arc (arc.getAngle t) = arc.sample t := rfl

/-- **pieces begin and end on the arc, in parameter order** (partial: `|sweep| ≤ 2π`; see
`arc_beziers_beyond_turn_witness` for what happens beyond).  Piece `j` of either conversion runs
from `arc.sample (j/n)` to `arc.sample ((j+1)/n)`; in particular (with a faithful cast `hcast`)
the first piece starts at `arc.sample 0 = arc.from()` and the last one ends at
`arc.sample 1 = arc.to()`. -/
theorem arc_beziers_endpoints_on_arc_partial (arc : Arc K) (hsw : |arc.sweep| ≤ Transc.pi * 2) :
    (∀ j : Nat, (quadPiece arc (stepQ arc) j).a = arc.sample ((j : K) / nStepsQ arc)
        ∧ (quadPiece arc (stepQ arc) j).b = arc.sample (((j + 1 : Nat) : K) / nStepsQ arc))
    ∧ (∀ j : Nat, (cubicPiece arc (stepC arc) j).a = arc.sample ((j : K) / nStepsC arc)
        ∧ (cubicPiece arc (stepC arc) j).b = arc.sample (((j + 1 : Nat) : K) / nStepsC arc))
    ∧ (0 < nQ arc → ((nQ arc : Nat) : K) = nStepsQ arc →
        (quadPiece arc (stepQ arc) 0).a = arc.sample 0
        ∧ (quadPiece arc (stepQ arc) (nQ arc - 1)).b = arc.sample 1)
    ∧ (0 < nC arc → ((nC arc : Nat) : K) = nStepsC arc →
        (cubicPiece arc (stepC arc) 0).a = arc.sample 0
        ∧ (cubicPiece arc (stepC arc) (nC arc - 1)).b = arc.sample 1) := by
  have hq : ∀ j : Nat, (quadPiece arc (stepQ arc) j).a = arc.sample ((j : K) / nStepsQ arc)
        ∧ (quadPiece arc (stepQ arc) j).b = arc.sample (((j + 1 : Nat) : K) / nStepsQ arc) := by
    intro j
    simp only [quadPiece, stepQ, angleAt_eq_getAngle arc _ _ hsw, pointAt_getAngle]
    constructor <;> first | rfl | trivial
  have hc : ∀ j : Nat, (cubicPiece arc (stepC arc) j).a = arc.sample ((j : K) / nStepsC arc)
        ∧ (cubicPiece arc (stepC arc) j).b = arc.sample (((j + 1 : Nat) : K) / nStepsC arc) := by
    intro j
    simp only [cubicPiece, stepC, angleAt_eq_getAngle arc _ _ hsw, pointAt_getAngle]
    constructor <;> first | rfl | trivial
  refine ⟨hq, hc, ?_, ?_⟩
  · intro hn hcast
    have hne : (nStepsQ arc) ≠ 0 := by
      rw [← hcast]; exact_mod_cast (by omega : nQ arc ≠ 0)
    refine ⟨by rw [(hq 0).1]; simp, ?_⟩
    rw [(hq (nQ arc - 1)).2, Nat.sub_add_cancel hn, hcast, div_self hne]
  · intro hn hcast
    have hne : (nStepsC arc) ≠ 0 := by
      rw [← hcast]; exact_mod_cast (by omega : nC arc ≠ 0)
    refine ⟨by rw [(hc 0).1]; simp, ?_⟩
    rw [(hc (nC arc - 1)).2, Nat.sub_add_cancel hn, hcast, div_self hne]

/-- **witness of the defect beyond a full turn**: lyon clamps the sweep to `2π`
(`S::abs(sweep).min(S::PI() * S::TWO)`), so for `|sweep| > 2π` the last piece of the sequence ends
at the angle `start ± 2π` — the start point again — and not at the arc's end angle `start + sweep`:
the property's "start and end on the arc's end points … beyond a full turn" fails for every such
arc (finding C13-bezier-sweep-clamped). -/
theorem arc_beziers_beyond_turn_witness (arc : Arc K) (hpi : 0 < (Transc.pi : K))
    (hsw : Transc.pi * 2 < |arc.sweep|) (hn : 0 < nQ arc) (hcast : ((nQ arc : Nat) : K) = nStepsQ arc) :
    angleAt arc (stepQ arc) (nQ arc) = arc.start + Transc.pi * 2 * signum arc.sweep
    ∧ angleAt arc (stepQ arc) (nQ arc) ≠ arc.getAngle 1 := by
  have he : effSweep arc = Transc.pi * 2 := by
    simp only [effSweep, geom, Nat.cast_ofNat]
    exact min_eq_right (le_of_lt hsw)
  have hne : (nStepsQ arc) ≠ 0 := by
    rw [← hcast]; exact_mod_cast (by omega : nQ arc ≠ 0)
  have h1 : angleAt arc (stepQ arc) (nQ arc) = arc.start + Transc.pi * 2 * signum arc.sweep := by
    simp only [angleAt, stepQ, stepOf, he, ofNat_eq, hcast]
    field_simp
  refine ⟨h1, ?_⟩
  rw [h1]
  simp only [Arc.getAngle, signum, sc_zero, sc_one]
  intro h
  split_ifs at h with hneg
  · rw [abs_of_neg hneg] at hsw
    have : arc.sweep = -(Transc.pi * 2) := by linarith
    linarith
  · rw [abs_of_nonneg (not_lt.mp hneg)] at hsw
    have : arc.sweep = Transc.pi * 2 := by linarith
    linarith

/-! ### control points -/

theorem angleAt_succ (arc : Arc K) (step : K) (i : Nat) :
    angleAt arc step (i+1) = angleAt arc step i + step := by
  simp only [angleAt, ofNat_eq]; push_cast; ring

/-- **the quadratic control point `from + tangent(a1)·tan(δ/2)` lies on BOTH end tangents**: on the
tangent at the piece's start (angle `a1`) by construction, and on the tangent at its end (angle
`a1 + δ`) by the half-angle identity.  Laws used (hypotheses, all true of `Real.sin/cos/tan`):
`cos² + sin² = 1` at `a1`, `δ` and the x-rotation, the addition formulas at `a1 + δ`, and
`tan(δ·0.5)·sin δ = 1 − cos δ` (`Scalar.half = 1/2`: `sc_half`).  (`quadPiece` uses `a1 = angleAt i`, `a1 + δ = angleAt (i+1)` with
`δ = step`: `angleAt_succ`.) -/
theorem quad_ctrl_on_tangents (arc : Arc K) (a1 d : K)
    (hx : Transc.cos arc.xrot * Transc.cos arc.xrot + Transc.sin arc.xrot * Transc.sin arc.xrot = 1)
    (h1 : Transc.cos a1 * Transc.cos a1 + Transc.sin a1 * Transc.sin a1 = 1)
    (hd : Transc.cos d * Transc.cos d + Transc.sin d * Transc.sin d = 1)
    (hc : Transc.cos (a1 + d) = Transc.cos a1 * Transc.cos d - Transc.sin a1 * Transc.sin d)
    (hs : Transc.sin (a1 + d) = Transc.sin a1 * Transc.cos d + Transc.cos a1 * Transc.sin d)
    (hhalf : Transc.tan (d * Scalar.half) * Transc.sin d = 1 - Transc.cos d) :
    (quadCtrl arc a1 d - pointAt arc a1).cross (tangentAtAngle arc a1) = 0
    ∧ (quadCtrl arc a1 d - pointAt arc (a1 + d)).cross (tangentAtAngle arc (a1 + d)) = 0 := by
  constructor
  · simp only [quadCtrl, pointAt, tangentAtAngle, Arc.sampleEllipse, Arc.rotate, geom]
    ring
  · simp only [quadCtrl]
    generalize Transc.tan (d * Scalar.half) = τ at hhalf ⊢
    simp only [pointAt, tangentAtAngle, Arc.sampleEllipse, Arc.rotate, geom, hc, hs]
    generalize Transc.cos a1 = c1 at h1 ⊢
    generalize Transc.sin a1 = s1 at h1 ⊢
    generalize Transc.cos d = cd at hd hhalf ⊢
    generalize Transc.sin d = sd at hd hhalf ⊢
    generalize Transc.cos arc.xrot = cx at hx ⊢
    generalize Transc.sin arc.xrot = sx at hx ⊢
    linear_combination
      (arc.radii.x * arc.radii.y *
        ((c1 - τ * s1 - (c1 * cd - s1 * sd)) * (c1 * cd - s1 * sd)
          + (s1 + τ * c1 - (s1 * cd + c1 * sd)) * (s1 * cd + c1 * sd))) * hx
      + arc.radii.x * arc.radii.y * ((cd + τ * sd - (cd * cd + sd * sd)) * h1 + hhalf - hd)

/-- the cubic control points are on the end tangents by construction -/
theorem cubic_ctrl_on_tangents (arc : Arc K) (step : K) (j : Nat) :
    ((cubicPiece arc step j).c1 - (cubicPiece arc step j).a).cross (tangentAtAngle arc (angleAt arc step j)) = 0
    ∧ ((cubicPiece arc step j).b - (cubicPiece arc step j).c2).cross (tangentAtAngle arc (angleAt arc step (j+1))) = 0 := by
  constructor <;>
  · simp only [cubicPiece, geom]
    ring

/-! ## §2 `from_svg_arc`: what holds for any angle function -/

/-- **sweep direction and size bound.**  Whatever function computes the two angles, the flag
correction after the `% 2π` gives a non-negative sweep below a full turn when the sweep flag is set
and a non-positive one otherwise; so, unless the sweep is `0`, `sweep ≥ 0` iff the flag.
Law used: `|x % m| < m` (C `fmod`). -/
theorem svg_arc_sweep_sign (ang : P K → K) (a : SvgArc K)
    (hfm : ∀ x : K, |Transc.fmod x twoPi| < twoPi) :
    (a.sweep = true → 0 ≤ (fromSvgArcWith ang a).sweep ∧ (fromSvgArcWith ang a).sweep < twoPi)
    ∧ (a.sweep = false → -twoPi < (fromSvgArcWith ang a).sweep ∧ (fromSvgArcWith ang a).sweep ≤ 0)
    ∧ ((fromSvgArcWith ang a).sweep ≠ 0 → (0 ≤ (fromSvgArcWith ang a).sweep ↔ a.sweep = true)) := by
  have h := hfm (ang (endV a) - ang (startV a))
  rw [abs_lt] at h
  set s := Transc.fmod (ang (endV a) - ang (startV a)) twoPi with hs
  have hr : (fromSvgArcWith ang a).sweep = adjustSweep a.sweep s := rfl
  rw [hr]
  unfold adjustSweep
  simp only [sc_zero]
  cases hflag : a.sweep
  · simp only [Bool.false_eq_true, false_and, if_false, true_and, false_implies, true_implies,
      iff_false, not_le]
    split_ifs with h1
    · refine ⟨⟨by linarith, by linarith⟩, fun _ => by linarith⟩
    · have : s ≤ 0 := not_lt.mp h1
      refine ⟨⟨by linarith, this⟩, fun hne => lt_of_le_of_ne this hne⟩
  · simp only [true_and, Bool.true_eq_false, false_and, if_false, true_implies, false_implies,
      iff_true]
    split_ifs with h1
    · refine ⟨⟨by linarith, by linarith⟩, fun _ => by linarith⟩
    · have : 0 ≤ s := not_lt.mp h1
      refine ⟨⟨this, by linarith⟩, fun _ => this⟩

/-- **radii**: the result uses `|rx|, |ry|`, multiplied by `√rf` exactly when `rf > 1`
(F.6.6.2–3), for any angle function. -/
theorem svg_arc_radii (ang : P K → K) (a : SvgArc K) :
    (rf a ≤ 1 → (fromSvgArcWith ang a).radii = ⟨|a.radii.x|, |a.radii.y|⟩)
    ∧ (1 < rf a → (fromSvgArcWith ang a).radii =
        ⟨|a.radii.x| * Transc.sqrt (rf a), |a.radii.y| * Transc.sqrt (rf a)⟩) := by
  constructor
  · intro h
    simp only [fromSvgArcWith, rx, ry, scaleRadius, rx0, ry0, sc_abs, sc_one, gt_iff_lt, not_lt.mpr h, if_false]
  · intro h
    simp only [fromSvgArcWith, rx, ry, scaleRadius, rx0, ry0, sc_abs, sc_one, gt_iff_lt, h, if_true]

/-! ## §3 `from_svg_arc` starts and ends at the given points -/

/-- The laws of `sqrt`, `sin`, `cos`, `%` and of the angle function `ang` used by the conversion
theorems.  The code's angle function is `exactAngle v = atan2(v.y, v.x)`; `Real.sqrt`, `Real.sin`,
`Real.cos`, C's `fmod` and `atan2 = Complex.arg` satisfy the laws (`exactTrig_real`).  euclid's
`fast_atan2`, which the code used until /repo efc24b99, does NOT satisfy `angle_exact`
(`fast_atan2_not_exact_witness`). -/
structure ExactTrig (ang : P K → K) : Prop where
  sqrt_nonneg : ∀ x : K, 0 ≤ x → 0 ≤ Transc.sqrt x
  sqrt_sq : ∀ x : K, 0 ≤ x → Transc.sqrt x * Transc.sqrt x = x
  cos_sq_add_sin_sq : ∀ x : K, Transc.cos x * Transc.cos x + Transc.sin x * Transc.sin x = 1
  periodic : ∀ (x : K) (k : ℤ), Transc.cos (x + k * twoPi) = Transc.cos x
      ∧ Transc.sin (x + k * twoPi) = Transc.sin x
  fmod_shift : ∀ x : K, ∃ k : ℤ, Transc.fmod x twoPi = x + k * twoPi
  /-- the angle of a unit vector: `(cos, sin) (ang v) = v` -/
  angle_exact : ∀ v : P K, v.x * v.x + v.y * v.y = 1 →
      Transc.cos (ang v) = v.x ∧ Transc.sin (ang v) = v.y

/-- non-degeneracy = the negation of `SvgArc::is_straight_line` for a non-negative epsilon -/
theorem nondegenerate_of_not_straight (a : SvgArc K) (heps : 0 ≤ (Eps.eps : K))
    (h : isStraightLine a = false) : a.radii.x ≠ 0 ∧ a.radii.y ≠ 0 ∧ a.from_ ≠ a.to := by
  simp only [isStraightLine, Bool.or_eq_false_iff, decide_eq_false_iff_not, not_le, sc_abs] at h
  obtain ⟨⟨h1, h2⟩, h3⟩ := h
  refine ⟨?_, ?_, ?_⟩
  · intro h0; rw [h0, abs_zero] at h1; exact absurd h1 (not_lt.mpr heps)
  · intro h0; rw [h0, abs_zero] at h2; exact absurd h2 (not_lt.mpr heps)
  · intro h0
    rw [h0] at h3
    have : (a.to == a.to) = true := by
      show P.beq a.to a.to = true
      simp [P.beq]
    rw [this] at h3; exact absurd h3 (by simp)

/-- the additional laws of `sin`/`cos` used for the large-arc flag (true of `Real.sin/cos`:
`sinSign_real`) -/
structure SinSign (K : Type) [Field K] [LinearOrder K] [IsStrictOrderedRing K] [Transc K] : Prop where
  sin_sub : ∀ x y : K, Transc.sin (x - y) = Transc.sin x * Transc.cos y - Transc.cos x * Transc.sin y
  sin_nonneg : ∀ x : K, 0 ≤ x → x ≤ Transc.pi → 0 ≤ Transc.sin x
  sin_nonpos : ∀ x : K, Transc.pi ≤ x → x ≤ twoPi → Transc.sin x ≤ 0
  sin_nonpos' : ∀ x : K, -Transc.pi ≤ x → x ≤ 0 → Transc.sin x ≤ 0
  sin_nonneg' : ∀ x : K, -twoPi ≤ x → x ≤ -Transc.pi → 0 ≤ Transc.sin x

section conv
variable {ang : P K → K} (H : ExactTrig ang) (a : SvgArc K)
  (hrx : a.radii.x ≠ 0) (hry : a.radii.y ≠ 0) (hne : a.from_ ≠ a.to)
include H hrx hry hne

theorem cosPhi_sq : cosPhi a * cosPhi a + sinPhi a * sinPhi a = 1 := H.cos_sq_add_sin_sq _

/-- `p` (F.6.5.1) is not the zero vector -/
theorem pt_ne_zero : (pt a).x * (pt a).x + (pt a).y * (pt a).y ≠ 0 := by
  have hcs := cosPhi_sq H a hrx hry hne
  have e : (pt a).x * (pt a).x + (pt a).y * (pt a).y = (hd a).x * (hd a).x + (hd a).y * (hd a).y := by
    simp only [pt]
    linear_combination ((hd a).x * (hd a).x + (hd a).y * (hd a).y) * hcs
  rw [e]
  intro h0
  have hx : (hd a).x = 0 := by nlinarith [mul_self_nonneg (hd a).x, mul_self_nonneg (hd a).y]
  have hy : (hd a).y = 0 := by nlinarith [mul_self_nonneg (hd a).x, mul_self_nonneg (hd a).y]
  apply hne
  simp only [hd, geom, Nat.cast_ofNat] at hx hy
  apply P.ext' <;> linarith

theorem rx0_pos : 0 < rx0 a := by simp only [rx0, sc_abs]; exact abs_pos.mpr hrx
theorem ry0_pos : 0 < ry0 a := by simp only [ry0, sc_abs]; exact abs_pos.mpr hry

theorem rf_pos : 0 < rf a := by
  have h1 := rx0_pos H a hrx hry hne
  have h2 := ry0_pos H a hrx hry hne
  have hp := pt_ne_zero H a hrx hry hne
  have ha : 0 ≤ (pt a).x * (pt a).x / (rx0 a * rx0 a) := div_nonneg (mul_self_nonneg _) (by positivity)
  have hb : 0 ≤ (pt a).y * (pt a).y / (ry0 a * ry0 a) := div_nonneg (mul_self_nonneg _) (by positivity)
  simp only [rf]
  rcases lt_or_eq_of_le (add_nonneg ha hb) with h | h
  · exact h
  · exfalso
    have ha0 : (pt a).x * (pt a).x / (rx0 a * rx0 a) = 0 := by linarith
    have hb0 : (pt a).y * (pt a).y / (ry0 a * ry0 a) = 0 := by linarith
    have hx : (pt a).x * (pt a).x = 0 := by
      rcases div_eq_zero_iff.mp ha0 with h | h
      · exact h
      · exact absurd h (by positivity)
    have hy : (pt a).y * (pt a).y = 0 := by
      rcases div_eq_zero_iff.mp hb0 with h | h
      · exact h
      · exact absurd h (by positivity)
    exact hp (by rw [hx, hy]; ring)

/-- the (possibly scaled) radii are positive -/
theorem rx_ry_pos : 0 < rx a ∧ 0 < ry a := by
  have h1 := rx0_pos H a hrx hry hne
  have h2 := ry0_pos H a hrx hry hne
  simp only [rx, ry, scaleRadius, sc_one, gt_iff_lt]
  split_ifs with h
  · have hs0 := H.sqrt_nonneg (rf a) (by linarith)
    have hss := H.sqrt_sq (rf a) (by linarith)
    have hsp : 0 < Transc.sqrt (rf a) := by
      rcases lt_or_eq_of_le hs0 with h' | h'
      · exact h'
      · rw [← h'] at hss; linarith
    exact ⟨mul_pos h1 hsp, mul_pos h2 hsp⟩
  · exact ⟨h1, h2⟩

/-- F.6.6: with the scaled radii the chord fits: `0 < px²/rx² + py²/ry² ≤ 1`, and `= 1` when the
radii had to be scaled -/
theorem q_bounds :
    0 < (pt a).x / rx a * ((pt a).x / rx a) + (pt a).y / ry a * ((pt a).y / ry a)
    ∧ (pt a).x / rx a * ((pt a).x / rx a) + (pt a).y / ry a * ((pt a).y / ry a) ≤ 1
    ∧ (1 < rf a → (pt a).x / rx a * ((pt a).x / rx a) + (pt a).y / ry a * ((pt a).y / ry a) = 1) := by
  have h1 := rx0_pos H a hrx hry hne
  have h2 := ry0_pos H a hrx hry hne
  have hrf := rf_pos H a hrx hry hne
  by_cases h : 1 < rf a
  · have hs0 := H.sqrt_nonneg (rf a) (by linarith)
    have hss := H.sqrt_sq (rf a) (by linarith)
    have hsp : Transc.sqrt (rf a) ≠ 0 := by
      intro h'; rw [h'] at hss; linarith
    have e : (pt a).x / rx a * ((pt a).x / rx a) + (pt a).y / ry a * ((pt a).y / ry a) = 1 := by
      simp only [rx, ry, scaleRadius, sc_one, gt_iff_lt, h, if_true]
      have hr : rf a = (pt a).x * (pt a).x / (rx0 a * rx0 a) + (pt a).y * (pt a).y / (ry0 a * ry0 a) := rfl
      have e1 : (pt a).x / (rx0 a * Transc.sqrt (rf a)) * ((pt a).x / (rx0 a * Transc.sqrt (rf a)))
            + (pt a).y / (ry0 a * Transc.sqrt (rf a)) * ((pt a).y / (ry0 a * Transc.sqrt (rf a)))
          = ((pt a).x * (pt a).x / (rx0 a * rx0 a) + (pt a).y * (pt a).y / (ry0 a * ry0 a))
              / (Transc.sqrt (rf a) * Transc.sqrt (rf a)) := by
        field_simp
      rw [e1, hss, ← hr, div_self (ne_of_gt hrf)]
    exact ⟨by rw [e]; exact one_pos, le_of_eq e, fun _ => e⟩
  · have e : (pt a).x / rx a * ((pt a).x / rx a) + (pt a).y / ry a * ((pt a).y / ry a) = rf a := by
      have erx : rx a = rx0 a := by simp only [rx, scaleRadius, sc_one, gt_iff_lt, h, if_false]
      have ery : ry a = ry0 a := by simp only [ry, scaleRadius, sc_one, gt_iff_lt, h, if_false]
      rw [erx, ery]
      simp only [rf]
      field_simp
    rw [e]
    exact ⟨hrf, not_lt.mp h, fun h' => absurd h' h⟩

/-- F.6.5.2: `coe² · q = 1 − q` -/
theorem coe_sq :
    coe a * coe a * ((pt a).x / rx a * ((pt a).x / rx a) + (pt a).y / ry a * ((pt a).y / ry a))
      = 1 - ((pt a).x / rx a * ((pt a).x / rx a) + (pt a).y / ry a * ((pt a).y / ry a)) := by
  obtain ⟨hrxp, hryp⟩ := rx_ry_pos H a hrx hry hne
  obtain ⟨hq0, hq1, _⟩ := q_bounds H a hrx hry hne
  set q := (pt a).x / rx a * ((pt a).x / rx a) + (pt a).y / ry a * ((pt a).y / ry a) with hq
  have hX : (rxry a * rxry a - sumOfSq a) / sumOfSq a = (1 - q) / q := by
    simp only [rxry, sumOfSq, rxpy, rypx, hq]
    have : rx a ≠ 0 := ne_of_gt hrxp
    have : ry a ≠ 0 := ne_of_gt hryp
    have hq' : (pt a).x / rx a * ((pt a).x / rx a) + (pt a).y / ry a * ((pt a).y / ry a) ≠ 0 := ne_of_gt hq0
    have hS : rx a * (pt a).y * (rx a * (pt a).y) + ry a * (pt a).x * (ry a * (pt a).x)
        = (rx a * ry a) * (rx a * ry a) * ((pt a).x / rx a * ((pt a).x / rx a) + (pt a).y / ry a * ((pt a).y / ry a)) := by
      field_simp; ring
    rw [hS]
    field_simp
  have hXn : 0 ≤ (1 - q) / q := div_nonneg (by linarith) (le_of_lt hq0)
  have hsg : (signCoe a.large a.sweep : K) * signCoe a.large a.sweep = 1 := by
    unfold signCoe; simp only [sc_one]; split_ifs <;> ring
  have hc : coe a * coe a = (1 - q) / q := by
    simp only [coe, sc_abs, hX, abs_of_nonneg hXn]
    have := H.sqrt_sq _ hXn
    calc signCoe a.large a.sweep * Transc.sqrt ((1 - q) / q) * (signCoe a.large a.sweep * Transc.sqrt ((1 - q) / q))
        = (signCoe a.large a.sweep * signCoe a.large a.sweep) * (Transc.sqrt ((1 - q) / q) * Transc.sqrt ((1 - q) / q)) := by ring
      _ = (1 - q) / q := by rw [hsg, this, one_mul]
  rw [hc, div_mul_cancel₀ _ (ne_of_gt hq0)]

/-- `start_v` and `end_v` are unit vectors -/
theorem startV_endV_unit :
    (startV a).x * (startV a).x + (startV a).y * (startV a).y = 1
    ∧ (endV a).x * (endV a).x + (endV a).y * (endV a).y = 1 := by
  obtain ⟨hrxp, hryp⟩ := rx_ry_pos H a hrx hry hne
  have hk := coe_sq H a hrx hry hne
  have h1 : rx a ≠ 0 := ne_of_gt hrxp
  have h2 : ry a ≠ 0 := ne_of_gt hryp
  have sx : (startV a).x = (pt a).x / rx a - coe a * ((pt a).y / ry a) := by
    simp only [startV, tcx, rxpy]; field_simp
  have sy : (startV a).y = (pt a).y / ry a + coe a * ((pt a).x / rx a) := by
    simp only [startV, tcy, rypx]; field_simp; ring
  have ex : (endV a).x = -((pt a).x / rx a) - coe a * ((pt a).y / ry a) := by
    simp only [endV, tcx, rxpy]; field_simp
  have ey : (endV a).y = -((pt a).y / ry a) + coe a * ((pt a).x / rx a) := by
    simp only [endV, tcy, rypx]; field_simp; ring
  constructor
  · rw [sx, sy]; linear_combination hk
  · rw [ex, ey]; linear_combination hk

theorem cos_sin_xrot : Transc.cos a.xrot = cosPhi a ∧ Transc.sin a.xrot = sinPhi a := by
  obtain ⟨k, hk⟩ := H.fmod_shift a.xrot
  have := H.periodic a.xrot k
  simp only [cosPhi, sinPhi, xr, hk]
  exact ⟨this.1.symm, this.2.symm⟩

theorem adjust_shift (flag : Bool) (x : K) : ∃ j : ℤ, adjustSweep flag x = x + j * twoPi := by
  unfold adjustSweep
  split_ifs
  · exact ⟨1, by simp⟩
  · exact ⟨-1, by push_cast; ring⟩
  · exact ⟨0, by simp⟩

/-- end points, for `fromSvgArcWith ang` with any angle function satisfying `ExactTrig`
(the code's instance is `svg_arc_endpoints` below) -/
theorem svg_arc_endpoints_of_exact :
    (fromSvgArcWith ang a).sample 0 = a.from_ ∧ (fromSvgArcWith ang a).sample 1 = a.to := by
  obtain ⟨hrxp, hryp⟩ := rx_ry_pos H a hrx hry hne
  obtain ⟨hsU, heU⟩ := startV_endV_unit H a hrx hry hne
  obtain ⟨hcx, hsx⟩ := cos_sin_xrot H a hrx hry hne
  have hcs := cosPhi_sq H a hrx hry hne
  have h1 : rx a ≠ 0 := ne_of_gt hrxp
  have h2 : ry a ≠ 0 := ne_of_gt hryp
  obtain ⟨hcS, hsS⟩ := H.angle_exact _ hsU
  obtain ⟨hcE, hsE⟩ := H.angle_exact _ heU
  -- the end angle, up to whole turns
  obtain ⟨k, hk⟩ := H.fmod_shift (ang (endV a) - ang (startV a))
  obtain ⟨j, hj⟩ := adjust_shift H a hrx hry hne a.sweep (Transc.fmod (ang (endV a) - ang (startV a)) twoPi)
  have hend : ang (startV a) + adjustSweep a.sweep (Transc.fmod (ang (endV a) - ang (startV a)) twoPi) * 1
      = ang (endV a) + ((k + j : ℤ) : K) * twoPi := by
    rw [hj, hk]; push_cast; ring
  have hperE := H.periodic (ang (endV a)) (k + j)
  have rsx : rx a * (startV a).x = (pt a).x - tcx a := by simp only [startV]; field_simp
  have rsy : ry a * (startV a).y = (pt a).y - tcy a := by simp only [startV]; field_simp
  have rex : rx a * (endV a).x = -(pt a).x - tcx a := by simp only [endV]; field_simp
  have rey : ry a * (endV a).y = -(pt a).y - tcy a := by simp only [endV]; field_simp
  constructor
  · apply P.ext'
    · simp only [fromSvgArcWith, Arc.sample, Arc.getAngle, Arc.sampleEllipse, Arc.rotate, P.add_def,
        mul_zero, add_zero, hcS, hsS, hcx, hsx, rsx, rsy, center]
      simp only [pt, hd, hs, geom, Nat.cast_ofNat]
      linear_combination ((a.from_.x - a.to.x) / 2) * hcs
    · simp only [fromSvgArcWith, Arc.sample, Arc.getAngle, Arc.sampleEllipse, Arc.rotate, P.add_def,
        mul_zero, add_zero, hcS, hsS, hcx, hsx, rsx, rsy, center]
      simp only [pt, hd, hs, geom, Nat.cast_ofNat]
      linear_combination ((a.from_.y - a.to.y) / 2) * hcs
  · apply P.ext'
    · simp only [fromSvgArcWith, Arc.sample, Arc.getAngle, Arc.sampleEllipse, Arc.rotate, P.add_def,
        hend, hperE.1, hperE.2, hcE, hsE, hcx, hsx, rex, rey, center]
      simp only [pt, hd, hs, geom, Nat.cast_ofNat]
      linear_combination (-(a.from_.x - a.to.x) / 2) * hcs
    · simp only [fromSvgArcWith, Arc.sample, Arc.getAngle, Arc.sampleEllipse, Arc.rotate, P.add_def,
        hend, hperE.1, hperE.2, hcE, hsE, hcx, hsx, rex, rey, center]
      simp only [pt, hd, hs, geom, Nat.cast_ofNat]
      linear_combination (-(a.from_.y - a.to.y) / 2) * hcs

/-- **`svg_arc_radii_scaled`**: when the radii are too small to span the chord (`rf > 1`) they are
both multiplied by `√rf`; the scaled ellipse then satisfies F.6.6.2 with equality and its centre is
the midpoint of the chord (the chord is a diameter image). -/
theorem svg_arc_radii_scaled (h : 1 < rf a) :
    (fromSvgArcWith ang a).radii = ⟨|a.radii.x| * Transc.sqrt (rf a), |a.radii.y| * Transc.sqrt (rf a)⟩
    ∧ (pt a).x / rx a * ((pt a).x / rx a) + (pt a).y / ry a * ((pt a).y / ry a) = 1
    ∧ (fromSvgArcWith ang a).center = ⟨(a.from_.x + a.to.x) / 2, (a.from_.y + a.to.y) / 2⟩ := by
  have hq := (q_bounds H a hrx hry hne).2.2 h
  have hk := coe_sq H a hrx hry hne
  rw [hq] at hk
  have hc0 : coe a = 0 := by
    have : coe a * coe a = 0 := by linarith
    exact mul_self_eq_zero.mp this
  refine ⟨(svg_arc_radii ang a).2 h, hq, ?_⟩
  apply P.ext' <;>
  · simp only [fromSvgArcWith, center, tcx, tcy, hc0, hs, geom, Nat.cast_ofNat]
    ring

/-- round trip without the large-arc flag, for any angle function satisfying `ExactTrig` -/
theorem svg_arc_roundtrip_of_exact (hfm : ∀ x : K, |Transc.fmod x twoPi| < twoPi) :
    (toSvgArc (fromSvgArcWith ang a)).from_ = a.from_
    ∧ (toSvgArc (fromSvgArcWith ang a)).to = a.to
    ∧ (toSvgArc (fromSvgArcWith ang a)).xrot = a.xrot
    ∧ (toSvgArc (fromSvgArcWith ang a)).radii = ⟨rx a, ry a⟩
    ∧ (rf a ≤ 1 → (toSvgArc (fromSvgArcWith ang a)).radii = ⟨|a.radii.x|, |a.radii.y|⟩)
    ∧ ((fromSvgArcWith ang a).sweep ≠ 0 → (toSvgArc (fromSvgArcWith ang a)).sweep = a.sweep) := by
  obtain ⟨h0, h1⟩ := svg_arc_endpoints_of_exact H a hrx hry hne
  refine ⟨?_, ?_, rfl, rfl, (svg_arc_radii ang a).1, ?_⟩
  · simpa [toSvgArc] using h0
  · simpa [toSvgArc] using h1
  · intro hs0
    have := (svg_arc_sweep_sign ang a hfm).2.2 hs0
    simp only [toSvgArc, ge_iff_le, sc_zero]
    cases hf : a.sweep
    · rw [hf] at this; simpa using this
    · rw [hf] at this; simpa using this

/-- when the radii span the chord (`rf ≤ 1`) they are not scaled and `q = rf` -/
theorem q_eq_rf (h : ¬ 1 < rf a) :
    (pt a).x / rx a * ((pt a).x / rx a) + (pt a).y / ry a * ((pt a).y / ry a) = rf a := by
  have h1 := rx0_pos H a hrx hry hne
  have h2 := ry0_pos H a hrx hry hne
  have erx : rx a = rx0 a := by simp only [rx, scaleRadius, sc_one, gt_iff_lt, h, if_false]
  have ery : ry a = ry0 a := by simp only [ry, scaleRadius, sc_one, gt_iff_lt, h, if_false]
  rw [erx, ery]
  simp only [rf]
  field_simp

/-- `sin(sweep) = start_v × end_v = 2·coe·q`: the sign of `coe` (F.6.5.2) decides on which side of
the chord the centre lies, hence whether the arc is the large one -/
theorem sin_sweep (S : SinSign K) :
    Transc.sin (fromSvgArcWith ang a).sweep = 2 * coe a *
      ((pt a).x / rx a * ((pt a).x / rx a) + (pt a).y / ry a * ((pt a).y / ry a)) := by
  obtain ⟨hrxp, hryp⟩ := rx_ry_pos H a hrx hry hne
  obtain ⟨hsU, heU⟩ := startV_endV_unit H a hrx hry hne
  have h1 : rx a ≠ 0 := ne_of_gt hrxp
  have h2 : ry a ≠ 0 := ne_of_gt hryp
  obtain ⟨hcS, hsS⟩ := H.angle_exact _ hsU
  obtain ⟨hcE, hsE⟩ := H.angle_exact _ heU
  obtain ⟨k, hk⟩ := H.fmod_shift (ang (endV a) - ang (startV a))
  obtain ⟨j, hj⟩ := adjust_shift H a hrx hry hne a.sweep (Transc.fmod (ang (endV a) - ang (startV a)) twoPi)
  have hsw : (fromSvgArcWith ang a).sweep = (ang (endV a) - ang (startV a)) + ((k + j : ℤ) : K) * twoPi := by
    show adjustSweep a.sweep (Transc.fmod (ang (endV a) - ang (startV a)) twoPi) = _
    rw [hj, hk]; push_cast; ring
  have sx : (startV a).x = (pt a).x / rx a - coe a * ((pt a).y / ry a) := by
    simp only [startV, tcx, rxpy]; field_simp
  have sy : (startV a).y = (pt a).y / ry a + coe a * ((pt a).x / rx a) := by
    simp only [startV, tcy, rypx]; field_simp; ring
  have ex : (endV a).x = -((pt a).x / rx a) - coe a * ((pt a).y / ry a) := by
    simp only [endV, tcx, rxpy]; field_simp
  have ey : (endV a).y = -((pt a).y / ry a) + coe a * ((pt a).x / rx a) := by
    simp only [endV, tcy, rypx]; field_simp; ring
  rw [hsw, (H.periodic _ (k + j)).2, S.sin_sub, hcS, hsS, hcE, hsE, sx, sy, ex, ey]
  ring

/-- the sign of `coe` when the radii strictly span the chord -/
theorem coe_sign (hq : rf a < 1) :
    (a.large = a.sweep → coe a < 0) ∧ (a.large ≠ a.sweep → 0 < coe a) := by
  obtain ⟨hq0, _, _⟩ := q_bounds H a hrx hry hne
  have hk := coe_sq H a hrx hry hne
  rw [q_eq_rf H a hrx hry hne (by linarith)] at hk hq0
  have hne0 : coe a ≠ 0 := by
    intro h0; rw [h0] at hk; nlinarith
  have hr : 0 ≤ Transc.sqrt (Scalar.abs ((rxry a * rxry a - sumOfSq a) / sumOfSq a)) :=
    H.sqrt_nonneg _ (by simp only [sc_abs]; exact abs_nonneg _)
  constructor
  · intro h
    have : coe a ≤ 0 := by
      simp only [coe, signCoe, h, if_true, sc_one]
      nlinarith
    exact lt_of_le_of_ne this hne0
  · intro h
    have : 0 ≤ coe a := by
      simp only [coe, signCoe, h, if_false, sc_one]
      nlinarith
    exact lt_of_le_of_ne this (Ne.symm hne0)

/-- **the large-arc flag is recovered**: when the radii strictly span the chord (`rf < 1`; for
`rf ≥ 1` the sweep is exactly `±π` and `to_svg_arc` reports `large_arc = true` whatever the input
flag), `|sweep| ≥ π` iff the large-arc flag was set — the sign choice `sign_coe` of F.6.5.2 selects
the requested one of the two candidate arcs. -/
theorem svg_arc_large_flag (S : SinSign K) (hfm : ∀ x : K, |Transc.fmod x twoPi| < twoPi)
    (hq : rf a < 1) : (toSvgArc (fromSvgArcWith ang a)).large = a.large := by
  obtain ⟨hq0, _, _⟩ := q_bounds H a hrx hry hne
  have hsin := sin_sweep H a hrx hry hne S
  obtain ⟨hneg, hpos⟩ := coe_sign H a hrx hry hne hq
  obtain ⟨hst, hsf, _⟩ := svg_arc_sweep_sign ang a hfm
  have htp : (twoPi : K) = 2 * Transc.pi := by simp only [twoPi, ofNat_eq, Nat.cast_ofNat]
  set q := (pt a).x / rx a * ((pt a).x / rx a) + (pt a).y / ry a * ((pt a).y / ry a) with hqdef
  set d := (fromSvgArcWith ang a).sweep with hd
  show decide (Scalar.abs d ≥ Transc.pi) = a.large
  simp only [sc_abs, ge_iff_le]
  cases hl : a.large <;> cases hw : a.sweep
  · -- small, clockwise: coe < 0, sin d < 0, d ∈ (-π, 0]
    have hc := hneg (by rw [hl, hw])
    obtain ⟨h1, h2⟩ := hsf hw
    have hs : Transc.sin d < 0 := by rw [hsin]; nlinarith
    rw [decide_eq_false_iff_not, not_le, abs_of_nonpos h2]
    by_contra hcon
    have := S.sin_nonneg' d (by linarith) (by linarith)
    linarith
  · -- small, counter-clockwise: coe > 0, sin d > 0, d ∈ [0, π)
    have hc := hpos (by rw [hl, hw]; simp)
    obtain ⟨h1, h2⟩ := hst hw
    have hs : 0 < Transc.sin d := by rw [hsin]; nlinarith
    rw [decide_eq_false_iff_not, not_le, abs_of_nonneg h1]
    by_contra hcon
    have := S.sin_nonpos d (by linarith) (by linarith)
    linarith
  · -- large, clockwise: coe > 0, sin d > 0, d ≤ -π
    have hc := hpos (by rw [hl, hw]; simp)
    obtain ⟨h1, h2⟩ := hsf hw
    have hs : 0 < Transc.sin d := by rw [hsin]; nlinarith
    rw [decide_eq_true_iff, abs_of_nonpos h2]
    by_contra hcon
    have := S.sin_nonpos' d (by linarith) h2
    linarith
  · -- large, counter-clockwise: coe < 0, sin d < 0, d ≥ π
    have hc := hneg (by rw [hl, hw])
    obtain ⟨h1, h2⟩ := hst hw
    have hs : Transc.sin d < 0 := by rw [hsin]; nlinarith
    rw [decide_eq_true_iff, abs_of_nonneg h1]
    by_contra hcon
    have := S.sin_nonneg d h1 (by linarith)
    linarith

end conv

/-! ### the code: `fromSvgArc = fromSvgArcWith exactAngle` (libm `atan2`) -/

/-- **`svg_arc_endpoints`**: the centre-form arc computed by `Arc::from_svg_arc` starts at the given
start point and ends at the given end point — `(from_svg_arc a).sample 0 = a.from` and
`.sample 1 = a.to` — for every input that passes the function's own precondition
`assert!(!arc.is_straight_line())`: all end points, x-rotations, all four flag combinations, radii
of any sign, large enough or too small (after the F.6.6 scaling). -/
theorem svg_arc_endpoints (H : ExactTrig (K := K) exactAngle) (a : SvgArc K)
    (heps : 0 ≤ (Eps.eps : K)) (hs : isStraightLine a = false) :
    (fromSvgArc a).sample 0 = a.from_ ∧ (fromSvgArc a).sample 1 = a.to := by
  obtain ⟨h1, h2, h3⟩ := nondegenerate_of_not_straight a heps hs
  exact svg_arc_endpoints_of_exact H a h1 h2 h3

/-- **round trip** `to_svg_arc ∘ from_svg_arc`: the original end points, x-rotation and — unless
the sweep is `0` — sweep flag come back; the radii come back as `|rx|, |ry|` when they span the
chord (`rf ≤ 1`; scaled by `√rf` otherwise, `svg_arc_radii_scaled`); the large-arc flag comes back
when they span it strictly (`rf < 1`; for `rf ≥ 1` the arc is a half turn and `to_svg_arc` reports
it as large). -/
theorem svg_arc_roundtrip (H : ExactTrig (K := K) exactAngle) (S : SinSign K) (a : SvgArc K)
    (heps : 0 ≤ (Eps.eps : K)) (hs : isStraightLine a = false)
    (hfm : ∀ x : K, |Transc.fmod x twoPi| < twoPi) :
    (toSvgArc (fromSvgArc a)).from_ = a.from_
    ∧ (toSvgArc (fromSvgArc a)).to = a.to
    ∧ (toSvgArc (fromSvgArc a)).xrot = a.xrot
    ∧ (rf a ≤ 1 → (toSvgArc (fromSvgArc a)).radii = ⟨|a.radii.x|, |a.radii.y|⟩)
    ∧ ((fromSvgArc a).sweep ≠ 0 → (toSvgArc (fromSvgArc a)).sweep = a.sweep)
    ∧ (rf a < 1 → (toSvgArc (fromSvgArc a)).large = a.large) := by
  obtain ⟨h1, h2, h3⟩ := nondegenerate_of_not_straight a heps hs
  obtain ⟨r1, r2, r3, _, r5, r6⟩ := svg_arc_roundtrip_of_exact H a h1 h2 h3 hfm
  exact ⟨r1, r2, r3, r5, r6, svg_arc_large_flag H a h1 h2 h3 S hfm⟩

/-! ## §5 A quadratic piece stays within a fixed fraction of the radius of the true arc -/

/-- squared distance -/
noncomputable def sqDist (p c : P K) : K := (p.x - c.x) * (p.x - c.x) + (p.y - c.y) * (p.y - c.y)

/-- the `i`-th quadratic piece as a function of its start angle and step
(`quadPiece arc step i = quadAt arc (angleAt arc step i) step` up to `angleAt_succ`) -/
noncomputable def quadAt (arc : Arc K) (a1 d : K) : Quad K :=
  ⟨pointAt arc a1, quadCtrl arc a1 d, pointAt arc (a1 + d)⟩

/-- the pieces emitted by lyon are `quadAt` at the step angles -/
theorem quadPiece_eq_quadAt (arc : Arc K) (step : K) (i : Nat) :
    quadPiece arc step i = quadAt arc (angleAt arc step i) step := by
  simp only [quadPiece, quadAt, angleAt_succ]

/-- lyon's step never exceeds 45°: `|sweep_angle / n_steps * sign| ≤ π/4` because
`n_steps = ⌈sweep_angle / (π/4)⌉ ≥ sweep_angle / (π/4)` (law of `ceil`, hypothesis `hceil`) -/
theorem stepQ_le_quarter (arc : Arc K) (hpi : 0 < (Transc.pi : K))
    (hceil : effSweep arc / fracPi4 ≤ nStepsQ arc) (hn : 0 < nStepsQ arc) :
    |stepQ arc| ≤ Transc.pi / 4 := by
  have h4 : (fracPi4 : K) = Transc.pi / 4 := by simp only [fracPi4, geom, Nat.cast_ofNat]
  have hsg : |signum arc.sweep| = (1 : K) := by
    unfold signum; simp only [sc_zero, sc_one]; split_ifs <;> simp
  have he : 0 ≤ effSweep arc := by
    simp only [effSweep, geom, Nat.cast_ofNat]
    exact le_min (abs_nonneg _) (by positivity)
  rw [h4] at hceil
  have hq : 0 < (Transc.pi : K) / 4 := by positivity
  simp only [stepQ, stepOf]
  rw [abs_mul, hsg, mul_one, abs_of_nonneg (div_nonneg he (le_of_lt hn)), div_le_iff₀ hn]
  rw [div_le_iff₀ hq] at hceil
  linarith

/-- core identity on the unit circle, in the orthonormal frame (radius, tangent) at the start
point: with `c = cos(δ/2)`, `sn = sin(δ/2)`, `τ = tan(δ/2)` the quadratic is
`(1 − 2t²sn², 2t(1−t)τ + 2t²·sn·c)` and its squared norm exceeds 1 by a perfect square. -/
theorem quad_unit_dev (c sn τ t : K) (hu : c * c + sn * sn = 1) (hτ : τ * c = sn) :
    (1 - 2 * t * t * (sn * sn)) * (1 - 2 * t * t * (sn * sn))
      + (2 * t * (1 - t) * τ + 2 * t * t * (sn * c)) * (2 * t * (1 - t) * τ + 2 * t * t * (sn * c)) - 1
    = (2 * sn * τ * (t * (1 - t))) * (2 * sn * τ * (t * (1 - t))) := by
  subst hτ
  linear_combination (4 * t ^ 4 * τ ^ 2 * (c * c) - 4 * t ^ 2 * (1 - t) ^ 2 * τ ^ 2) * hu

/-- **deviation of one quadratic piece of a circular arc, exactly.**  For a circle (`radii = (r, r)`,
any centre, any x-rotation), any start angle `a1`, any step `δ` with half-angle data
`c = cos(δ/2) ≠ 0`, `sn = sin(δ/2)` (hypotheses `hcos hsin htan`: the double-angle formulas and
`tan(δ/2)·c = sn`) and any parameter `t`:
`|Q(t) − centre|² − r² = r²·(2·sn·tan(δ/2)·t(1−t))²`.
So the piece never enters the circle, touches it at both ends, and is farthest at `t = 1/2`. -/
theorem quad_arc_deviation_circle_eq (arc : Arc K) (r a1 d t c sn : K) (hr : arc.radii = ⟨r, r⟩)
    (hx : Transc.cos arc.xrot * Transc.cos arc.xrot + Transc.sin arc.xrot * Transc.sin arc.xrot = 1)
    (h1 : Transc.cos a1 * Transc.cos a1 + Transc.sin a1 * Transc.sin a1 = 1)
    (hc : Transc.cos (a1 + d) = Transc.cos a1 * Transc.cos d - Transc.sin a1 * Transc.sin d)
    (hs : Transc.sin (a1 + d) = Transc.sin a1 * Transc.cos d + Transc.cos a1 * Transc.sin d)
    (hu : c * c + sn * sn = 1)
    (hcos : Transc.cos d = 1 - 2 * (sn * sn)) (hsin : Transc.sin d = 2 * (sn * c))
    (htan : Transc.tan (d * Scalar.half) * c = sn) :
    sqDist ((quadAt arc a1 d).sample t) arc.center - r * r
      = r * r * ((2 * sn * Transc.tan (d * Scalar.half) * (t * (1 - t)))
          * (2 * sn * Transc.tan (d * Scalar.half) * (t * (1 - t)))) := by
  have key := quad_unit_dev c sn (Transc.tan (d * Scalar.half)) t hu htan
  simp only [quadAt, quadCtrl]
  generalize Transc.tan (d * Scalar.half) = τ at htan key ⊢
  simp only [sqDist, Quad.sample, pointAt, tangentAtAngle, Arc.sampleEllipse, Arc.rotate, geom, hc, hs,
    hr, hcos, hsin, Nat.cast_ofNat, Nat.cast_one]
  generalize Transc.cos a1 = c1 at h1 ⊢
  generalize Transc.sin a1 = s1 at h1 ⊢
  generalize Transc.cos arc.xrot = cx at hx ⊢
  generalize Transc.sin arc.xrot = sx at hx ⊢
  linear_combination
    (r * r * ((1 - 2 * t * t * (sn * sn)) * (1 - 2 * t * t * (sn * sn))
      + (2 * t * (1 - t) * τ + 2 * t * t * (sn * c)) * (2 * t * (1 - t) * τ + 2 * t * t * (sn * c)))
      * (cx * cx + sx * sx)) * h1
    + (r * r * ((1 - 2 * t * t * (sn * sn)) * (1 - 2 * t * t * (sn * sn))
      + (2 * t * (1 - t) * τ + 2 * t * t * (sn * c)) * (2 * t * (1 - t) * τ + 2 * t * t * (sn * c)))) * hx
    + (r * r) * key

/-- **`quad_arc_deviation_circle`**: for `t ∈ [0,1]` and `cos(δ/2) > 0` the squared distance of the
quadratic piece from the centre lies between `r²` and `r²·(1 + (sin²(δ/2) / (2cos(δ/2)))²)`. -/
theorem quad_arc_deviation_circle (arc : Arc K) (r a1 d t c sn : K) (hr : arc.radii = ⟨r, r⟩)
    (hx : Transc.cos arc.xrot * Transc.cos arc.xrot + Transc.sin arc.xrot * Transc.sin arc.xrot = 1)
    (h1 : Transc.cos a1 * Transc.cos a1 + Transc.sin a1 * Transc.sin a1 = 1)
    (hc : Transc.cos (a1 + d) = Transc.cos a1 * Transc.cos d - Transc.sin a1 * Transc.sin d)
    (hs : Transc.sin (a1 + d) = Transc.sin a1 * Transc.cos d + Transc.cos a1 * Transc.sin d)
    (hu : c * c + sn * sn = 1)
    (hcos : Transc.cos d = 1 - 2 * (sn * sn)) (hsin : Transc.sin d = 2 * (sn * c))
    (htan : Transc.tan (d * Scalar.half) * c = sn) (hcp : 0 < c) (ht0 : 0 ≤ t) (ht1 : t ≤ 1) :
    r * r ≤ sqDist ((quadAt arc a1 d).sample t) arc.center
    ∧ sqDist ((quadAt arc a1 d).sample t) arc.center
        ≤ r * r * (1 + (sn * sn / (2 * c)) * (sn * sn / (2 * c))) := by
  have e := quad_arc_deviation_circle_eq arc r a1 d t c sn hr hx h1 hc hs hu hcos hsin htan
  have hτ : Transc.tan (d * Scalar.half) = sn / c := by
    rw [eq_div_iff (ne_of_gt hcp)]; exact htan
  rw [hτ] at e
  set D := 2 * sn * (sn / c) * (t * (1 - t)) with hD
  have hD0 : 0 ≤ D := by
    have : 0 ≤ sn * (sn / c) := by
      rw [mul_div_assoc']; exact div_nonneg (mul_self_nonneg sn) (le_of_lt hcp)
    have h2 : 0 ≤ t * (1 - t) := mul_nonneg ht0 (by linarith)
    have : D = 2 * (sn * (sn / c)) * (t * (1 - t)) := by rw [hD]; ring
    rw [this]; positivity
  have hD1 : D ≤ sn * sn / (2 * c) := by
    have h4 : t * (1 - t) ≤ 1 / 4 := by nlinarith [mul_self_nonneg (t - 1 / 2)]
    have hs2 : 0 ≤ sn * sn / c := div_nonneg (mul_self_nonneg sn) (le_of_lt hcp)
    have e1 : D = 2 * (sn * sn / c) * (t * (1 - t)) := by rw [hD]; ring
    have e2 : sn * sn / (2 * c) = 2 * (sn * sn / c) * (1 / 4) := by field_simp; ring
    rw [e1, e2]
    exact mul_le_mul_of_nonneg_left h4 (by positivity)
  have hr2 : 0 ≤ r * r := mul_self_nonneg r
  constructor
  · nlinarith [mul_nonneg hr2 (mul_self_nonneg D)]
  · have : D * D ≤ (sn * sn / (2 * c)) * (sn * sn / (2 * c)) := mul_self_le_mul_self hD0 hD1
    nlinarith [mul_le_mul_of_nonneg_left this hr2]

/-- the point of the ellipse's plane that the unit-circle frame point `p` is mapped to:
`centre + Rot(x_rotation)·(rx·p.x, ry·p.y)`; the arc's point at angle `θ` is `ellMap arc (cos θ, sin θ)` -/
noncomputable def ellMap (arc : Arc K) (p : P K) : P K :=
  arc.center + Arc.rotate arc.xrot ⟨arc.radii.x * p.x, arc.radii.y * p.y⟩

/-- the unit circle arc with the same angles -/
noncomputable def unitArc (arc : Arc K) : Arc K := ⟨⟨0, 0⟩, ⟨1, 1⟩, arc.start, arc.sweep, 0⟩

/-- **a quadratic piece of an elliptic arc is the affine image of the piece of the unit circle**
(same start angle and step) under `ellMap`, parameter by parameter. -/
theorem quad_piece_affine_image (arc : Arc K) (a1 d t : K)
    (h0c : Transc.cos (0 : K) = 1) (h0s : Transc.sin (0 : K) = 0) :
    (quadAt arc a1 d).sample t = ellMap arc ((quadAt (unitArc arc) a1 d).sample t) := by
  apply P.ext' <;>
  · simp only [quadAt, quadCtrl, ellMap, unitArc, Quad.sample, pointAt, tangentAtAngle,
      Arc.sampleEllipse, Arc.rotate, geom, h0c, h0s, Nat.cast_ofNat, Nat.cast_one]
    ring

/-- `ellMap` stretches distances by at most the larger radius -/
theorem ellMap_sqDist_le (arc : Arc K) (p u : P K) (m : K)
    (hx : Transc.cos arc.xrot * Transc.cos arc.xrot + Transc.sin arc.xrot * Transc.sin arc.xrot = 1)
    (hmx : |arc.radii.x| ≤ m) (hmy : |arc.radii.y| ≤ m) :
    sqDist (ellMap arc p) (ellMap arc u) ≤ m * m * sqDist p u := by
  have e : sqDist (ellMap arc p) (ellMap arc u)
      = arc.radii.x * arc.radii.x * ((p.x - u.x) * (p.x - u.x))
        + arc.radii.y * arc.radii.y * ((p.y - u.y) * (p.y - u.y)) := by
    simp only [sqDist, ellMap, Arc.rotate, geom]
    linear_combination (arc.radii.x * arc.radii.x * ((p.x - u.x) * (p.x - u.x))
        + arc.radii.y * arc.radii.y * ((p.y - u.y) * (p.y - u.y))) * hx
  have h1 : arc.radii.x * arc.radii.x ≤ m * m := by
    rw [← abs_mul_abs_self arc.radii.x]; exact mul_self_le_mul_self (abs_nonneg _) hmx
  have h2 : arc.radii.y * arc.radii.y ≤ m * m := by
    rw [← abs_mul_abs_self arc.radii.y]; exact mul_self_le_mul_self (abs_nonneg _) hmy
  rw [e]
  simp only [sqDist]
  nlinarith [mul_le_mul_of_nonneg_right h1 (mul_self_nonneg (p.x - u.x)),
    mul_le_mul_of_nonneg_right h2 (mul_self_nonneg (p.y - u.y))]

/-! ## §4 euclid's `fast_atan2` is not an exact angle function -/

section witness
variable {F : Type} [Field F] [LinearOrder F] [IsStrictOrderedRing F] [Transc F]

/-- **witness (pure rational arithmetic, no `π` involved).**  For an exact angle function,
`atan2(1,2) + atan2(1,3) = atan2(1,1)` (Euler: `(2+i)(3+i) = 5+5i`, all three angles in the first
octant).  euclid's polynomial (`Vector2D::angle_from_x_axis`, `angle_to`) gives
`0.46364… + 0.32166… = 0.78530…` on the left and `0.78519…` on the right: it is not additive, so
it is not `(cos, sin)`-exact and does not satisfy `ExactTrig.angle_exact`.  This is why
`Arc::from_svg_arc` (and `WithSvg::arc`) must not take their angles with `angle_from_x_axis`, as
they did until /repo efc24b99 / 40e30eb0: the arc then missed its end points by up to
2·10⁻⁴·radius (former finding C13-fast-atan2-endpoint-drift; the oracle class stays active). -/
theorem fast_atan2_not_exact_witness :
    fastAtan2 (1 : F) 2 + fastAtan2 (1 : F) 3 ≠ fastAtan2 (1 : F) 1
    ∧ (1 : F) / 10000 < fastAtan2 (1 : F) 2 + fastAtan2 (1 : F) 3 - fastAtan2 (1 : F) 1 := by
  have e2 : fastAtan2 (1 : F) 2 = atanPoly (1 / 2) := by
    simp only [fastAtan2, atanFold1, atanFold2, atanFold3, geom]
    norm_num
  have e3 : fastAtan2 (1 : F) 3 = atanPoly (1 / 3) := by
    simp only [fastAtan2, atanFold1, atanFold2, atanFold3, geom]
    norm_num
  have e1 : fastAtan2 (1 : F) 1 = atanPoly 1 := by
    simp only [fastAtan2, atanFold1, atanFold2, atanFold3, geom]
    norm_num
  rw [e1, e2, e3]
  simp only [atanPoly, geom]
  constructor <;> norm_num

end witness

/-! ## The hypotheses are satisfiable: `ℝ` with Mathlib's functions -/

section real
open Real

/-- truncation toward zero (C `trunc`) -/
noncomputable def realTrunc (z : ℝ) : ℤ := if 0 ≤ z then ⌊z⌋ else ⌈z⌉

/-- `Transc ℝ` for the examples below.  Only the fields used by the C13 model are meaningful
(`sqrt sin cos tan atan2 ceil toNat fmod pi`); the others are placeholders. -/
noncomputable instance (priority := low) exampleTransc : Transc ℝ where
  sqrt := Real.sqrt
  cbrt := fun x => x
  sin := Real.sin
  cos := Real.cos
  tan := Real.tan
  acos := Real.arccos
  atan2 := fun y x => Complex.arg ⟨x, y⟩
  pow := fun x _ => x
  log2 := fun x => x
  ln := fun x => x
  floor := fun x => (⌊x⌋ : ℝ)
  ceil := fun x => (⌈x⌉ : ℝ)
  toNat := fun x => ⌊x⌋.toNat
  fmod := fun x m => x - (realTrunc (x / m) : ℝ) * m
  eps := 0
  pi := Real.pi
  isNaN := fun _ => false
  isFinite := fun _ => true

noncomputable instance (priority := low) exampleEps : ArcConv.Eps ℝ := ⟨1 / 100000000⟩

theorem twoPi_real : (twoPi : ℝ) = 2 * Real.pi := by
  simp only [twoPi, ofNat_eq, Nat.cast_ofNat]; rfl

theorem abs_sub_trunc_lt_one (z : ℝ) : |z - (realTrunc z : ℝ)| < 1 := by
  unfold realTrunc
  rw [abs_lt]
  split_ifs with h
  · have h1 := Int.floor_le z
    have h2 := Int.lt_floor_add_one z
    constructor <;> linarith
  · have h1 := Int.le_ceil z
    have h2 := Int.ceil_lt_add_one z
    constructor <;> linarith

/-- C's `fmod`: `|x % m| < m` for `m = 2π` -/
theorem fmod_real_lt (x : ℝ) : |Transc.fmod x (twoPi : ℝ)| < twoPi := by
  have hm : (0 : ℝ) < twoPi := by rw [twoPi_real]; positivity
  show |x - (realTrunc (x / twoPi) : ℝ) * twoPi| < twoPi
  have h := abs_sub_trunc_lt_one (x / twoPi)
  have e : x - (realTrunc (x / twoPi) : ℝ) * twoPi = (x / twoPi - (realTrunc (x / twoPi) : ℝ)) * twoPi := by
    field_simp
  rw [e, abs_mul, abs_of_pos hm]
  calc |x / twoPi - (realTrunc (x / twoPi) : ℝ)| * twoPi < 1 * twoPi := by
        exact mul_lt_mul_of_pos_right h hm
    _ = twoPi := one_mul _

/-- `ℝ` with `Real.sqrt/sin/cos`, C's `fmod` and `atan2(y, x) = Complex.arg (x + iy)` satisfies
every law the conversion theorems use — for the code's own angle function `exactAngle`. -/
theorem exactTrig_real : ExactTrig (K := ℝ) exactAngle where
  sqrt_nonneg := fun x _ => Real.sqrt_nonneg x
  sqrt_sq := fun x hx => Real.mul_self_sqrt hx
  cos_sq_add_sin_sq := fun x => by
    have := Real.cos_sq_add_sin_sq x
    show Real.cos x * Real.cos x + Real.sin x * Real.sin x = 1
    nlinarith
  periodic := fun x k => by
    rw [twoPi_real]
    exact ⟨Real.cos_add_int_mul_two_pi x k, Real.sin_add_int_mul_two_pi x k⟩
  fmod_shift := fun x => ⟨-realTrunc (x / twoPi), by
    show x - (realTrunc (x / twoPi) : ℝ) * twoPi = _
    push_cast; ring⟩
  angle_exact := fun v hv => by
    show Real.cos (Complex.arg ⟨v.x, v.y⟩) = v.x ∧ Real.sin (Complex.arg ⟨v.x, v.y⟩) = v.y
    have hn : ‖(⟨v.x, v.y⟩ : ℂ)‖ = 1 := by
      have h2 : ‖(⟨v.x, v.y⟩ : ℂ)‖ ^ 2 = 1 := by
        rw [Complex.sq_norm, Complex.normSq_apply]; exact hv
      have h0 : 0 ≤ ‖(⟨v.x, v.y⟩ : ℂ)‖ := norm_nonneg _
      nlinarith
    have hz : (⟨v.x, v.y⟩ : ℂ) ≠ 0 := by
      intro h; rw [h, norm_zero] at hn; exact zero_ne_one hn
    constructor
    · rw [Complex.cos_arg hz, hn, div_one]
    · rw [Complex.sin_arg, hn, div_one]

/-- `Real.sin` satisfies the sign laws used for the large-arc flag -/
theorem sinSign_real : SinSign ℝ where
  sin_sub := fun x y => Real.sin_sub x y
  sin_nonneg := fun x h0 h1 => Real.sin_nonneg_of_nonneg_of_le_pi h0 h1
  sin_nonpos := fun x h0 h1 => by
    rw [twoPi_real] at h1
    show Real.sin x ≤ 0
    have h0' : Real.pi ≤ x := h0
    have := Real.sin_nonneg_of_nonneg_of_le_pi (x := x - Real.pi) (by linarith) (by linarith)
    rw [Real.sin_sub_pi] at this
    linarith
  sin_nonpos' := fun x h0 h1 => Real.sin_nonpos_of_nonpos_of_neg_pi_le h1 h0
  sin_nonneg' := fun x h0 h1 => by
    rw [twoPi_real] at h0
    show 0 ≤ Real.sin x
    have h1' : x ≤ -Real.pi := h1
    have := Real.sin_nonneg_of_nonneg_of_le_pi (x := x + 2 * Real.pi) (by linarith) (by linarith)
    rwa [Real.sin_add_two_pi] at this

/-! ### the deviation bound over `ℝ`: 0.32 % of the radius for steps up to 45° -/

theorem sqrt_two_gt : (14142 / 10000 : ℝ) < Real.sqrt 2 := by
  rw [Real.lt_sqrt (by norm_num)]; norm_num

/-- half-angle data of a step `|δ| ≤ π/4` -/
theorem half_angle_real (d : ℝ) (hd : |d| ≤ Real.pi / 4) :
    Real.cos (d / 2) * Real.cos (d / 2) + Real.sin (d / 2) * Real.sin (d / 2) = 1
    ∧ Real.cos d = 1 - 2 * (Real.sin (d / 2) * Real.sin (d / 2))
    ∧ Real.sin d = 2 * (Real.sin (d / 2) * Real.cos (d / 2))
    ∧ Real.tan (d * Scalar.half) * Real.cos (d / 2) = Real.sin (d / 2)
    ∧ 0 < Real.cos (d / 2)
    ∧ (7071 / 10000 : ℝ) ≤ Real.cos d := by
  have hpi := Real.pi_pos
  obtain ⟨hl, hu⟩ := abs_le.mp hd
  have hsc := Real.sin_sq_add_cos_sq (d / 2)
  have hcp : 0 < Real.cos (d / 2) :=
    Real.cos_pos_of_mem_Ioo ⟨by linarith, by linarith⟩
  have h2 : Real.cos d = 2 * Real.cos (d / 2) ^ 2 - 1 := by
    have := Real.cos_two_mul (d / 2)
    rwa [show 2 * (d / 2) = d by ring] at this
  have h1 : Real.sin d = 2 * Real.sin (d / 2) * Real.cos (d / 2) := by
    have := Real.sin_two_mul (d / 2)
    rwa [show 2 * (d / 2) = d by ring] at this
  have hh : (Scalar.half : ℝ) = 1 / 2 := sc_half
  refine ⟨by nlinarith, by nlinarith, by rw [h1]; ring, ?_, hcp, ?_⟩
  · rw [hh, show d * (1 / 2 : ℝ) = d / 2 by ring, Real.tan_eq_sin_div_cos,
      div_mul_cancel₀ _ (ne_of_gt hcp)]
  · have hc4 : Real.cos (Real.pi / 4) ≤ Real.cos |d| :=
      Real.cos_le_cos_of_nonneg_of_le_pi (abs_nonneg d) (by linarith) hd
    rw [Real.cos_abs, Real.cos_pi_div_four] at hc4
    have := sqrt_two_gt
    linarith

/-- **`quad_arc_deviation_circle` over `ℝ`, numerically**: a quadratic piece of a circular arc of
radius `r ≥ 0` with a step of at most 45° (lyon's `n_steps = ⌈|sweep|/(π/4)⌉` guarantees this) stays
outside the circle and within `0.32 %` of the radius of it, for every start angle, x-rotation and
`t ∈ [0,1]`: `r ≤ |Q(t) − centre| ≤ 1.0032·r`.  (The exact maximum, at `δ = π/4`, `t = 1/2`, is
`r·(√(1 + (sin²(π/8)/(2cos(π/8)))²) − 1) = 3.14·10⁻³·r`; the oracle measures 3.2·10⁻³ incl. rounding.) -/
theorem quad_arc_deviation_circle_real (arc : Arc ℝ) (r a1 d t : ℝ) (hr : arc.radii = ⟨r, r⟩)
    (hr0 : 0 ≤ r) (hd : |d| ≤ Real.pi / 4) (ht0 : 0 ≤ t) (ht1 : t ≤ 1) :
    r ≤ Real.sqrt (sqDist ((quadAt arc a1 d).sample t) arc.center)
    ∧ Real.sqrt (sqDist ((quadAt arc a1 d).sample t) arc.center) ≤ r * (10032 / 10000) := by
  obtain ⟨hu, hcos, hsin, htan, hcp, hK⟩ := half_angle_real d hd
  obtain ⟨lo, hi⟩ := quad_arc_deviation_circle arc r a1 d t (Real.cos (d / 2)) (Real.sin (d / 2)) hr
    (exactTrig_real.cos_sq_add_sin_sq _) (exactTrig_real.cos_sq_add_sin_sq _)
    (Real.cos_add a1 d) (Real.sin_add a1 d) hu hcos hsin htan hcp ht0 ht1
  set c := Real.cos (d / 2)
  set sn := Real.sin (d / 2)
  have hK1 : Real.cos d ≤ 1 := Real.cos_le_one d
  have hX : sn * sn = (1 - Real.cos d) / 2 := by linarith
  have hY : c * c = (1 + Real.cos d) / 2 := by linarith
  have hbound : (sn * sn / (2 * c)) * (sn * sn / (2 * c)) ≤ 641 / 100000 := by
    have e : (sn * sn / (2 * c)) * (sn * sn / (2 * c)) = (sn * sn) * (sn * sn) / (4 * (c * c)) := by
      field_simp; ring
    rw [e, hX, hY, div_le_iff₀ (by nlinarith)]
    nlinarith
  constructor
  · calc r = Real.sqrt (r * r) := (Real.sqrt_mul_self hr0).symm
      _ ≤ Real.sqrt (sqDist ((quadAt arc a1 d).sample t) arc.center) := Real.sqrt_le_sqrt lo
  · rw [Real.sqrt_le_left (by positivity)]
    have hr2 : 0 ≤ r * r := mul_self_nonneg r
    nlinarith [mul_le_mul_of_nonneg_left hbound hr2]

/-- **the affine-image corollary for ellipses**: every point of a quadratic piece (step ≤ 45°) of an
elliptic arc — any radii, centre, x-rotation, start angle — is within `0.32 %` of the LARGER radius
of a point of the ellipse (`ellMap arc u` with `u` on the unit circle; squared form). -/
theorem quad_arc_deviation_ellipse_real (arc : Arc ℝ) (a1 d t : ℝ)
    (hd : |d| ≤ Real.pi / 4) (ht0 : 0 ≤ t) (ht1 : t ≤ 1) :
    ∃ u : P ℝ, u.x * u.x + u.y * u.y = 1
      ∧ sqDist ((quadAt arc a1 d).sample t) (ellMap arc u)
          ≤ (Max.max |arc.radii.x| |arc.radii.y| * (32 / 10000)) * (Max.max |arc.radii.x| |arc.radii.y| * (32 / 10000)) := by
  have h0c : Transc.cos (0 : ℝ) = 1 := Real.cos_zero
  have h0s : Transc.sin (0 : ℝ) = 0 := Real.sin_zero
  set Q := (quadAt (unitArc arc) a1 d).sample t with hQ
  obtain ⟨lo, hi⟩ := quad_arc_deviation_circle_real (unitArc arc) 1 a1 d t rfl zero_le_one hd ht0 ht1
  rw [← hQ] at lo hi
  have hsq : sqDist Q (unitArc arc).center = Q.x * Q.x + Q.y * Q.y := by
    simp [sqDist, unitArc]
  rw [hsq] at lo hi
  set ρ := Real.sqrt (Q.x * Q.x + Q.y * Q.y) with hρ
  have hρ2 : ρ * ρ = Q.x * Q.x + Q.y * Q.y :=
    Real.mul_self_sqrt (add_nonneg (mul_self_nonneg _) (mul_self_nonneg _))
  have hρ0 : ρ ≠ 0 := by linarith
  refine ⟨⟨Q.x / ρ, Q.y / ρ⟩, ?_, ?_⟩
  · show Q.x / ρ * (Q.x / ρ) + Q.y / ρ * (Q.y / ρ) = 1
    field_simp; linarith
  · rw [quad_piece_affine_image arc a1 d t h0c h0s, ← hQ]
    have hm := ellMap_sqDist_le arc Q ⟨Q.x / ρ, Q.y / ρ⟩ (Max.max |arc.radii.x| |arc.radii.y|)
      (exactTrig_real.cos_sq_add_sin_sq _) (le_max_left _ _) (le_max_right _ _)
    have hdist : sqDist Q ⟨Q.x / ρ, Q.y / ρ⟩ = (ρ - 1) * (ρ - 1) := by
      simp only [sqDist]
      field_simp
      nlinarith [hρ2]
    rw [hdist] at hm
    have hm0 : 0 ≤ Max.max |arc.radii.x| |arc.radii.y| := le_trans (abs_nonneg _) (le_max_left _ _)
    have h32 : (ρ - 1) * (ρ - 1) ≤ (32 / 10000) * (32 / 10000) :=
      mul_self_le_mul_self (by linarith) (by linarith)
    nlinarith [mul_le_mul_of_nonneg_left h32 (mul_self_nonneg (Max.max |arc.radii.x| |arc.radii.y|))]

/-- the float→int cast hypothesis `hcast` of §1 holds for every real arc -/
theorem cast_faithful_real (arc : Arc ℝ) :
    ((nQ arc : Nat) : ℝ) = nStepsQ arc ∧ ((nC arc : Nat) : ℝ) = nStepsC arc := by
  have key : ∀ x : ℝ, 0 ≤ x → (((⌊((⌈x⌉ : ℤ) : ℝ)⌋).toNat : Nat) : ℝ) = ((⌈x⌉ : ℤ) : ℝ) := by
    intro x hx
    rw [Int.floor_intCast]
    have h0 : 0 ≤ ⌈x⌉ := Int.ceil_nonneg hx
    have : ((⌈x⌉.toNat : Nat) : ℤ) = ⌈x⌉ := Int.toNat_of_nonneg h0
    exact_mod_cast this
  have hpi : (0 : ℝ) < Transc.pi := Real.pi_pos
  have he : 0 ≤ effSweep arc := by
    simp only [effSweep, geom, Nat.cast_ofNat]
    exact le_min (abs_nonneg _) (by positivity)
  constructor
  · exact key (effSweep arc / fracPi4) (div_nonneg he (by simp only [fracPi4, geom]; positivity))
  · exact key (effSweep arc / fracPi2) (div_nonneg he (by simp only [fracPi2, geom]; positivity))

/-- a concrete non-degenerate input: from (0,0) to (1,0), radii (1,-2), rotated, large arc, ccw -/
noncomputable def exampleArc : SvgArc ℝ := ⟨⟨0, 0⟩, ⟨1, 0⟩, ⟨1, -2⟩, 1 / 2, true, true⟩

theorem exampleArc_not_straight : isStraightLine exampleArc = false := by
  simp only [isStraightLine, Bool.or_eq_false_iff, decide_eq_false_iff_not, not_le, sc_abs]
  refine ⟨⟨?_, ?_⟩, ?_⟩
  · show (1 / 100000000 : ℝ) < |(1 : ℝ)|
    norm_num
  · show (1 / 100000000 : ℝ) < |(-2 : ℝ)|
    norm_num
  · show P.beq (⟨0, 0⟩ : P ℝ) ⟨1, 0⟩ = false
    simp [P.beq]

theorem exampleEps_nonneg : (0 : ℝ) ≤ Eps.eps := by
  show (0 : ℝ) ≤ 1 / 100000000
  norm_num

example : (fromSvgArc exampleArc).sample 0 = exampleArc.from_
    ∧ (fromSvgArc exampleArc).sample 1 = exampleArc.to :=
  svg_arc_endpoints exactTrig_real exampleArc exampleEps_nonneg exampleArc_not_straight

example : (toSvgArc (fromSvgArc exampleArc)).from_ = exampleArc.from_ :=
  (svg_arc_roundtrip exactTrig_real sinSign_real exampleArc exampleEps_nonneg exampleArc_not_straight
    fmod_real_lt).1

example : 0 ≤ (fromSvgArc exampleArc).sweep :=
  ((svg_arc_sweep_sign exactAngle exampleArc fmod_real_lt).1 rfl).1

/-- the radii (1/4, 1/4) are too small for the chord (0,0)–(1,0): `rf = 4 > 1` whatever the rotation -/
example : ∃ a : SvgArc ℝ, a.radii.x ≠ 0 ∧ a.radii.y ≠ 0 ∧ a.from_ ≠ a.to ∧ 1 < rf a := by
  refine ⟨⟨⟨0, 0⟩, ⟨1, 0⟩, ⟨1/4, 1/4⟩, 0, false, true⟩, by norm_num, by norm_num,
    by intro h; have := congrArg P.x h; norm_num at this, ?_⟩
  have hcs := exactTrig_real.cos_sq_add_sin_sq (xr (⟨⟨0, 0⟩, ⟨1, 0⟩, ⟨1/4, 1/4⟩, 0, false, true⟩ : SvgArc ℝ))
  simp only [rf, pt, hd, rx0, ry0, cosPhi, sinPhi, geom, Nat.cast_ofNat] at hcs ⊢
  norm_num
  nlinarith [hcs]

/-- the structural theorems' hypotheses hold for a half-turn arc: 4 quadratics, 2 cubics -/
example : ∃ arc : Arc ℝ, |arc.sweep| ≤ Transc.pi * 2 ∧ ((nQ arc : Nat) : ℝ) = nStepsQ arc
    ∧ ((nC arc : Nat) : ℝ) = nStepsC arc ∧ (0 : ℝ) ≤ Eps.eps :=
  ⟨⟨⟨1, 2⟩, ⟨3, 1⟩, 1, Real.pi, 1 / 3⟩, by
      show |Real.pi| ≤ Real.pi * 2
      rw [abs_of_pos Real.pi_pos]; linarith [Real.pi_pos],
    (cast_faithful_real _).1, (cast_faithful_real _).2, by
      show (0 : ℝ) ≤ 1 / 100000000
      norm_num⟩

/-- beyond a full turn (`sweep = 3π`): the hypotheses of `arc_beziers_beyond_turn_witness` hold -/
example : ∃ arc : Arc ℝ, Transc.pi * 2 < |arc.sweep| ∧ 0 < nQ arc := by
  refine ⟨⟨⟨0, 0⟩, ⟨1, 1⟩, 0, 3 * Real.pi, 0⟩, ?_, ?_⟩
  · show Real.pi * 2 < |3 * Real.pi|
    rw [abs_of_pos (by positivity)]; linarith [Real.pi_pos]
  · have hpi := Real.pi_pos
    have he : effSweep (⟨⟨0, 0⟩, ⟨1, 1⟩, 0, 3 * Real.pi, 0⟩ : Arc ℝ) = Real.pi * 2 := by
      simp only [effSweep, geom, Nat.cast_ofNat]
      show Min.min |3 * Real.pi| (Real.pi * 2) = Real.pi * 2
      rw [abs_of_pos (by positivity)]; exact min_eq_right (by linarith)
    have hn : nStepsQ (⟨⟨0, 0⟩, ⟨1, 1⟩, 0, 3 * Real.pi, 0⟩ : Arc ℝ) = 8 := by
      simp only [nStepsQ, he, fracPi4, geom, Nat.cast_ofNat]
      show ((⌈Real.pi * 2 / (Real.pi / 4)⌉ : ℤ) : ℝ) = 8
      rw [show Real.pi * 2 / (Real.pi / 4) = ((8 : ℤ) : ℝ) by field_simp; norm_num, Int.ceil_intCast]
      norm_num
    have := (cast_faithful_real (⟨⟨0, 0⟩, ⟨1, 1⟩, 0, 3 * Real.pi, 0⟩ : Arc ℝ)).1
    rw [hn] at this
    have : nQ (⟨⟨0, 0⟩, ⟨1, 1⟩, 0, 3 * Real.pi, 0⟩ : Arc ℝ) = 8 := by exact_mod_cast this
    omega

/-- the trigonometric hypotheses of `quad_ctrl_on_tangents` hold over `ℝ` for every arc, start
angle and step whose half is not an odd multiple of `π/2` (`cos(δ/2) ≠ 0`; lyon's steps are at
most `π/4`) -/
example (arc : Arc ℝ) (a1 d : ℝ) (hd : Real.cos (d / 2) ≠ 0) :
    (quadCtrl arc a1 d - pointAt arc a1).cross (tangentAtAngle arc a1) = 0
    ∧ (quadCtrl arc a1 d - pointAt arc (a1 + d)).cross (tangentAtAngle arc (a1 + d)) = 0 := by
  apply quad_ctrl_on_tangents
  · exact exactTrig_real.cos_sq_add_sin_sq _
  · exact exactTrig_real.cos_sq_add_sin_sq _
  · exact exactTrig_real.cos_sq_add_sin_sq _
  · exact Real.cos_add a1 d
  · exact Real.sin_add a1 d
  · show Real.tan (d * Scalar.half) * Real.sin d = 1 - Real.cos d
    have hh : (Scalar.half : ℝ) = 1 / 2 := sc_half
    rw [hh, show d * (1 / 2 : ℝ) = d / 2 by ring, Real.tan_eq_sin_div_cos]
    have h1 : Real.sin d = 2 * Real.sin (d / 2) * Real.cos (d / 2) := by
      have := Real.sin_two_mul (d / 2)
      rwa [show 2 * (d / 2) = d by ring] at this
    have h2 : Real.cos d = 2 * Real.cos (d / 2) ^ 2 - 1 := by
      have := Real.cos_two_mul (d / 2)
      rwa [show 2 * (d / 2) = d by ring] at this
    have hsc := Real.sin_sq_add_cos_sq (d / 2)
    rw [h1, h2]
    field_simp
    linear_combination 2 * hsc

/-- **numeric witness over `ℝ`**: at the diagonal, euclid's `fast_atan2(1, 1)` is more than
`2·10⁻⁴` rad below `π/4`. -/
theorem fast_atan2_diagonal_witness : fastAtan2 (1 : ℝ) 1 < Real.pi / 4 - 2 / 10000 := by
  have e1 : fastAtan2 (1 : ℝ) 1 = atanPoly 1 := by
    simp only [fastAtan2, atanFold1, atanFold2, atanFold3, geom]
    norm_num
  rw [e1]
  simp only [atanPoly, geom]
  have := Real.pi_gt_d6
  norm_num
  linarith

end real

end Lyon.C13
