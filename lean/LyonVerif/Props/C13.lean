/-
  C13 — elliptic arcs: end-point and centre forms agree; Bézier approximations follow.

  All statements are about the model of `Model/Geom/SvgArc.lean` (+ `Arc` of `Model/Geom/Basic.lean`),
  the same `def`s that the correspondence check runs at `Float32`/`Float` against lyon_geom,
  instantiated at an arbitrary linearly ordered field `K`.  `sin`, `cos`, `sqrt`, `fmod`, `ceil`,
  the float→int cast and `π` are the *parameters* of the class `Transc K`; every law that a proof
  uses is an explicit hypothesis (collected in `ExactTrig` for the conversion theorems), and the
  examples at the end discharge them for `ℝ` with Mathlib's functions.

  Structure
  * §1  the two Bézier conversions as closed forms (`quads_closed_form`, `cubics_closed_form`),
        from which: count (`arc_beziers_count`), parameter ranges 0 → exactly 1, consecutive,
        increasing (`arc_beziers_ranges`), connectedness (`arc_beziers_connected`), pieces begin and
        end on the arc at their range ends (`arc_beziers_endpoints_on_arc_partial`, for
        |sweep| ≤ 2π) and the witness that this FAILS beyond a full turn
        (`arc_beziers_beyond_turn_witness`), control points on the tangents (`quad_ctrl_on_tangents`,
        `cubic_ctrl_on_tangents`).
  * §2  `from_svg_arc`: sweep direction and size bound hold for ANY angle function, hence also for
        the code as it is (`svg_arc_sweep_sign`); radii (`svg_arc_radii_scaled`).
  * §3  `from_svg_arc` with an exact angle function starts and ends at the given points
        (`svg_arc_endpoints`), round trip (`svg_arc_roundtrip_partial`).  This is a theorem about
        the algorithm: lyon calls euclid's polynomial `fast_atan2`, which is NOT an exact angle
        function (`fast_atan2_not_exact_witness`, pure rational arithmetic), so the code's arcs miss
        the end points by up to 2·10⁻⁴·radius: finding C13-fast-atan2-endpoint-drift (oracle).

  Not theorems (left to the oracle, named gaps): that the large-arc flag selects |sweep| ≥ π;
  the distance between the Bézier pieces and the ellipse (3.2·10⁻³ / 2·10⁻³ of the radius,
  measured); anything about IEEE rounding.
-/
import LyonVerif.Model.Geom.SvgArc
import LyonVerif.Lemmas.Field
import Mathlib.Algebra.Order.Ring.Abs
import Mathlib.Tactic.NormNum

set_option linter.unusedSectionVars false
set_option linter.unusedVariables false

geom_all Lyon.Arc
geom_all Lyon.Quad
geom_all Lyon.Cubic

namespace Lyon.C13
open Lyon Scalar ArcConv

variable {K : Type} [Field K] [LinearOrder K] [IsStrictOrderedRing K] [Transc K] [ArcConv.Eps K]

noncomputable section

/-! ## §1 The Bézier conversions -/

/-- the running range start of `arc_to_quadratic_beziers_with_t`:
`t0 = 0; t1 = if i + 1 == n { 1 } else { t0 + dt }; t0 = t1` -/
def tSeq (n : Nat) (dt : K) : Nat → K
  | 0 => 0
  | j+1 => nextT n j (tSeq n dt j) dt

theorem quadLoop_eq (arc : Arc K) (step dt : K) (n : Nat) :
    ∀ k i, quadLoop arc step dt n k i (tSeq n dt i) =
      (List.range' i k).map (fun j => (quadPiece arc step j, tSeq n dt j, tSeq n dt (j+1))) := by
  intro k
  induction k with
  | zero => intro i; simp [quadLoop]
  | succ k ih =>
    intro i
    have h := ih (i+1)
    simp only [tSeq] at h
    simp only [quadLoop, List.range'_succ, List.map_cons, tSeq, h]

theorem cubicLoop_eq (arc : Arc K) (step : K) :
    ∀ k i, cubicLoop arc step k i = (List.range' i k).map (fun j => cubicPiece arc step j) := by
  intro k
  induction k with
  | zero => intro i; simp [cubicLoop]
  | succ k ih => intro i; simp only [cubicLoop, List.range'_succ, List.map_cons, ih (i+1)]

/-- number of quadratic pieces: `⌈min(|sweep|, 2π) / (π/4)⌉` as cast by lyon -/
def nQ (arc : Arc K) : Nat := Transc.toNat (nStepsQ arc)
/-- number of cubic pieces: `⌈min(|sweep|, 2π) / (π/2)⌉` -/
def nC (arc : Arc K) : Nat := Transc.toNat (nStepsC arc)
def stepQ (arc : Arc K) : K := stepOf arc (nStepsQ arc)
def stepC (arc : Arc K) : K := stepOf arc (nStepsC arc)
def dtQ (arc : Arc K) : K := Scalar.one / nStepsQ arc
theorem dtQ_eq (arc : Arc K) : dtQ arc = 1 / nStepsQ arc := by simp [dtQ]

/-- **closed form of `arc_to_quadratic_beziers_with_t`**: piece `j` (for `j = 0 … n-1`) is the
quadratic between the ellipse points at angles `start + step·j` and `start + step·(j+1)`, with the
range `tSeq j .. tSeq (j+1)`. -/
theorem quads_closed_form (arc : Arc K) :
    quadsWithT arc = (List.range' 0 (nQ arc)).map
      (fun j => (quadPiece arc (stepQ arc) j, tSeq (nQ arc) (dtQ arc) j, tSeq (nQ arc) (dtQ arc) (j+1))) := by
  have hz : (Scalar.zero : K) = tSeq (nQ arc) (dtQ arc) 0 := by simp [tSeq]
  unfold quadsWithT
  rw [hz]
  exact quadLoop_eq arc (stepQ arc) (dtQ arc) (nQ arc) (nQ arc) 0

/-- **closed form of `arc_to_cubic_beziers`** -/
theorem cubics_closed_form (arc : Arc K) :
    cubics arc = (List.range' 0 (nC arc)).map (fun j => cubicPiece arc (stepC arc) j) := by
  simpa [cubics, nC, stepC] using cubicLoop_eq arc (stepC arc) (nC arc) 0

/-- count formula (the definition of `n`, spelled out): lyon emits
`⌈min(|sweep|, π·2) / (π/4)⌉` quadratics and `⌈min(|sweep|, π·2) / (π/2)⌉` cubics. -/
theorem arc_beziers_count (arc : Arc K) :
    (quadsWithT arc).length = Transc.toNat (Transc.ceil (Min.min |arc.sweep| (Transc.pi * 2) / (Transc.pi / 4)))
    ∧ (cubics arc).length = Transc.toNat (Transc.ceil (Min.min |arc.sweep| (Transc.pi * 2) / (Transc.pi / 2))) := by
  constructor
  · rw [quads_closed_form]; simp [nQ, nStepsQ, effSweep, fracPi4, geom]
  · rw [cubics_closed_form]; simp [nC, nStepsC, effSweep, fracPi2, geom]

theorem quads_getElem? (arc : Arc K) (j : Nat) (hj : j < nQ arc) :
    (quadsWithT arc)[j]? =
      some (quadPiece arc (stepQ arc) j, tSeq (nQ arc) (dtQ arc) j, tSeq (nQ arc) (dtQ arc) (j+1)) := by
  rw [quads_closed_form]
  simp [hj]

theorem cubics_getElem? (arc : Arc K) (j : Nat) (hj : j < nC arc) :
    (cubics arc)[j]? = some (cubicPiece arc (stepC arc) j) := by
  rw [cubics_closed_form]
  simp [hj]

/-- the range ends below the last one are `j·dt` -/
theorem tSeq_lt (n : Nat) (dt : K) : ∀ j, j < n → tSeq n dt j = j * dt := by
  intro j
  induction j with
  | zero => intro _; simp [tSeq]
  | succ j ih =>
    intro h
    have hne : ¬ (j + 1 = n) := by omega
    simp only [tSeq, nextT, hne, if_false, ih (by omega)]
    push_cast; ring

/-- the last range end is the literal `1` (not `n·dt`) -/
theorem tSeq_last (n : Nat) (dt : K) (hn : 0 < n) : tSeq n dt n = 1 := by
  obtain ⟨m, rfl⟩ : ∃ m, n = m + 1 := ⟨n - 1, by omega⟩
  simp [tSeq, nextT]

/-- **parameter ranges of the quadratic pieces**: there are `n` pieces; piece `j` carries the range
`tSeq j .. tSeq (j+1)` — so consecutive ranges share their end —; the first range starts at `0`;
the last one ends at exactly `1`; and, when the cast `n_steps ↦ n` is faithful (`hcast`), the
inner ends are `j/n`, strictly increasing. -/
theorem arc_beziers_ranges (arc : Arc K) :
    (quadsWithT arc).length = nQ arc
    ∧ (∀ j, j < nQ arc → ∃ q, (quadsWithT arc)[j]? =
          some (q, tSeq (nQ arc) (dtQ arc) j, tSeq (nQ arc) (dtQ arc) (j+1)))
    ∧ tSeq (nQ arc) (dtQ arc) 0 = 0
    ∧ (0 < nQ arc → tSeq (nQ arc) (dtQ arc) (nQ arc) = 1)
    ∧ (((nQ arc : Nat) : K) = nStepsQ arc →
        (∀ j, j < nQ arc → tSeq (nQ arc) (dtQ arc) j = (j : K) / (nQ arc : K))
        ∧ (∀ j, j < nQ arc → tSeq (nQ arc) (dtQ arc) j < tSeq (nQ arc) (dtQ arc) (j+1))) := by
  refine ⟨?_, ?_, rfl, tSeq_last _ _, ?_⟩
  · rw [quads_closed_form]; simp
  · intro j hj; exact ⟨_, quads_getElem? arc j hj⟩
  · intro hcast
    have hform : ∀ j, j < nQ arc → tSeq (nQ arc) (dtQ arc) j = (j : K) / (nQ arc : K) := by
      intro j hj
      rw [tSeq_lt _ _ j hj, dtQ_eq, hcast]; ring
    refine ⟨hform, ?_⟩
    intro j hj
    have hnpos : (0 : K) < (nQ arc : K) := by exact_mod_cast (by omega : 0 < nQ arc)
    rw [hform j hj]
    by_cases hlast : j + 1 = nQ arc
    · have : tSeq (nQ arc) (dtQ arc) (j+1) = 1 := by rw [hlast]; exact tSeq_last _ _ (by omega)
      rw [this, div_lt_one hnpos]; exact_mod_cast hj
    · rw [hform (j+1) (by omega)]
      apply div_lt_div_of_pos_right _ hnpos
      push_cast; linarith

/-- **connected**: each piece starts where the previous one ends (the very same expression, so this
holds bit for bit in floating point too). -/
theorem arc_beziers_connected (arc : Arc K) :
    (∀ j x y, (quadsWithT arc)[j]? = some x → (quadsWithT arc)[j+1]? = some y → x.1.b = y.1.a)
    ∧ (∀ j x y, (cubics arc)[j]? = some x → (cubics arc)[j+1]? = some y → x.b = y.a) := by
  constructor
  · intro j x y hx hy
    have hlen : (quadsWithT arc).length = nQ arc := by rw [quads_closed_form]; simp
    have hj1 : j + 1 < nQ arc := by
      rw [← hlen]; exact (List.getElem?_eq_some_iff.mp hy).1
    rw [quads_getElem? arc j (by omega)] at hx
    rw [quads_getElem? arc (j+1) hj1] at hy
    cases hx; cases hy; rfl
  · intro j x y hx hy
    have hlen : (cubics arc).length = nC arc := by rw [cubics_closed_form]; simp
    have hj1 : j + 1 < nC arc := by
      rw [← hlen]; exact (List.getElem?_eq_some_iff.mp hy).1
    rw [cubics_getElem? arc j (by omega)] at hx
    rw [cubics_getElem? arc (j+1) hj1] at hy
    cases hx; cases hy; rfl

/-! ### pieces begin and end on the arc -/

theorem abs_mul_signum (x : K) : |x| * signum x = x := by
  unfold signum
  simp only [sc_zero, sc_one]
  split_ifs with h
  · rw [abs_of_neg h]; ring
  · rw [abs_of_nonneg (not_lt.mp h)]; ring

/-- for `|sweep| ≤ 2π` the `j`-th step angle is the arc's angle at parameter `j / n_steps` -/
theorem angleAt_eq_getAngle (arc : Arc K) (ns : K) (j : Nat) (hsw : |arc.sweep| ≤ Transc.pi * 2) :
    angleAt arc (stepOf arc ns) j = arc.getAngle ((j : K) / ns) := by
  have he : effSweep arc = |arc.sweep| := by
    simp only [effSweep, geom, Nat.cast_ofNat]
    exact min_eq_left hsw
  simp only [angleAt, stepOf, Arc.getAngle, he, ofNat_eq]
  have h := abs_mul_signum arc.sweep
  calc arc.start + |arc.sweep| / ns * signum arc.sweep * (j : K)
      = arc.start + (|arc.sweep| * signum arc.sweep) * ((j : K) / ns) := by ring
    _ = arc.start + arc.sweep * ((j : K) / ns) := by rw [h]

theorem pointAt_getAngle (arc : Arc K) (t : K) : pointAt arc (arc.getAngle t) = arc.sample t := rfl

/-- **pieces begin and end on the arc, in parameter order** (partial: `|sweep| ≤ 2π`; see
`arc_beziers_beyond_turn_witness` for what happens beyond).  Piece `j` of either conversion runs
from `arc.sample (j/n)` to `arc.sample ((j+1)/n)`; in particular (with a faithful cast `hcast`)
the first piece starts at `arc.sample 0 = arc.from()` and the last one ends at
`arc.sample 1 = arc.to()`. -/
theorem arc_beziers_endpoints_on_arc_partial (arc : Arc K) (hsw : |arc.sweep| ≤ Transc.pi * 2) :
    (∀ j : Nat, (quadPiece arc (stepQ arc) j).a = arc.sample ((j : K) / nStepsQ arc)
        ∧ (quadPiece arc (stepQ arc) j).b = arc.sample (((j + 1 : Nat) : K) / nStepsQ arc))
    ∧ (∀ j : Nat, (cubicPiece arc (stepC arc) j).a = arc.sample ((j : K) / nStepsC arc)
        ∧ (cubicPiece arc (stepC arc) j).b = arc.sample (((j + 1 : Nat) : K) / nStepsC arc))
    ∧ (0 < nQ arc → ((nQ arc : Nat) : K) = nStepsQ arc →
        (quadPiece arc (stepQ arc) 0).a = arc.sample 0
        ∧ (quadPiece arc (stepQ arc) (nQ arc - 1)).b = arc.sample 1)
    ∧ (0 < nC arc → ((nC arc : Nat) : K) = nStepsC arc →
        (cubicPiece arc (stepC arc) 0).a = arc.sample 0
        ∧ (cubicPiece arc (stepC arc) (nC arc - 1)).b = arc.sample 1) := by
  have hq : ∀ j : Nat, (quadPiece arc (stepQ arc) j).a = arc.sample ((j : K) / nStepsQ arc)
        ∧ (quadPiece arc (stepQ arc) j).b = arc.sample (((j + 1 : Nat) : K) / nStepsQ arc) := by
    intro j
    simp only [quadPiece, stepQ, angleAt_eq_getAngle arc _ _ hsw, pointAt_getAngle]
    exact ⟨rfl, rfl⟩
  have hc : ∀ j : Nat, (cubicPiece arc (stepC arc) j).a = arc.sample ((j : K) / nStepsC arc)
        ∧ (cubicPiece arc (stepC arc) j).b = arc.sample (((j + 1 : Nat) : K) / nStepsC arc) := by
    intro j
    simp only [cubicPiece, stepC, angleAt_eq_getAngle arc _ _ hsw, pointAt_getAngle]
    exact ⟨rfl, rfl⟩
  refine ⟨hq, hc, ?_, ?_⟩
  · intro hn hcast
    have hne : (nStepsQ arc) ≠ 0 := by
      rw [← hcast]; exact_mod_cast (by omega : nQ arc ≠ 0)
    refine ⟨by rw [(hq 0).1]; simp, ?_⟩
    rw [(hq (nQ arc - 1)).2, Nat.sub_add_cancel hn, hcast, div_self hne]
  · intro hn hcast
    have hne : (nStepsC arc) ≠ 0 := by
      rw [← hcast]; exact_mod_cast (by omega : nC arc ≠ 0)
    refine ⟨by rw [(hc 0).1]; simp, ?_⟩
    rw [(hc (nC arc - 1)).2, Nat.sub_add_cancel hn, hcast, div_self hne]

/-- **witness of the defect beyond a full turn**: lyon clamps the sweep to `2π`
(`S::abs(sweep).min(S::PI() * S::TWO)`), so for `|sweep| > 2π` the last piece of the sequence ends
at the angle `start ± 2π` — the start point again — and not at the arc's end angle `start + sweep`:
the property's "start and end on the arc's end points … beyond a full turn" fails for every such
arc (finding C13-bezier-sweep-clamped). -/
theorem arc_beziers_beyond_turn_witness (arc : Arc K) (hpi : 0 < (Transc.pi : K))
    (hsw : Transc.pi * 2 < |arc.sweep|) (hn : 0 < nQ arc) (hcast : ((nQ arc : Nat) : K) = nStepsQ arc) :
    angleAt arc (stepQ arc) (nQ arc) = arc.start + Transc.pi * 2 * signum arc.sweep
    ∧ angleAt arc (stepQ arc) (nQ arc) ≠ arc.getAngle 1 := by
  have he : effSweep arc = Transc.pi * 2 := by
    simp only [effSweep, geom, Nat.cast_ofNat]
    exact min_eq_right (le_of_lt hsw)
  have hne : (nStepsQ arc) ≠ 0 := by
    rw [← hcast]; exact_mod_cast (by omega : nQ arc ≠ 0)
  have h1 : angleAt arc (stepQ arc) (nQ arc) = arc.start + Transc.pi * 2 * signum arc.sweep := by
    simp only [angleAt, stepQ, stepOf, he, ofNat_eq, hcast]
    field_simp
  refine ⟨h1, ?_⟩
  rw [h1]
  simp only [Arc.getAngle, signum, sc_zero, sc_one]
  intro h
  split_ifs at h with hneg
  · rw [abs_of_neg hneg] at hsw
    have : arc.sweep = -(Transc.pi * 2) := by linarith
    linarith
  · rw [abs_of_nonneg (not_lt.mp hneg)] at hsw
    have : arc.sweep = Transc.pi * 2 := by linarith
    linarith

/-! ### control points -/

/-- the point computed by `Line::intersection` lies on both lines (when the determinant is not 0) -/
theorem line_intersection_on_lines (p1 v1 p2 v2 : P K) (hdet : v1.cross v2 ≠ 0) :
    (lineIntersectionPt p1 v1 p2 v2 - p1).cross v1 = 0
    ∧ (lineIntersectionPt p1 v1 p2 v2 - p2).cross v2 = 0 := by
  have hd : v1.x * v2.y - v1.y * v2.x ≠ 0 := by simpa [P.cross] using hdet
  constructor <;>
  · simp only [lineIntersectionPt, geom, Nat.cast_one]
    field_simp
    ring

/-- **the quadratic control point lies on both end tangents** when lyon's parallelism test
`|det| <= S::EPSILON` does not fire; when it fires the control point is the start point (the
piece degenerates to the chord — with an absolute epsilon, i.e. for every step once
`rx·ry ≤ S::EPSILON`: finding C13-quad-ctrl-line-intersection). -/
theorem quad_ctrl_on_tangents (arc : Arc K) (a1 a2 : K) (heps : 0 ≤ (Eps.eps : K)) :
    (Eps.eps < |(tangentAtAngle arc a2).cross (tangentAtAngle arc a1)| →
        (quadCtrl arc a1 a2 - pointAt arc a1).cross (tangentAtAngle arc a1) = 0
        ∧ (quadCtrl arc a1 a2 - pointAt arc a2).cross (tangentAtAngle arc a2) = 0)
    ∧ (|(tangentAtAngle arc a2).cross (tangentAtAngle arc a1)| ≤ Eps.eps →
        quadCtrl arc a1 a2 = pointAt arc a1) := by
  constructor
  · intro h
    have hdet : (tangentAtAngle arc a2).cross (tangentAtAngle arc a1) ≠ 0 := by
      intro h0; rw [h0, abs_zero] at h; exact absurd h (not_lt.mpr heps)
    have hq : quadCtrl arc a1 a2 = lineIntersectionPt (pointAt arc a2) (tangentAtAngle arc a2)
        (pointAt arc a1) (tangentAtAngle arc a1) := by
      simp only [quadCtrl, lineIntersection, sc_abs, not_le.mpr h, if_false]
    rw [hq]
    have := line_intersection_on_lines (pointAt arc a2) (tangentAtAngle arc a2) (pointAt arc a1)
      (tangentAtAngle arc a1) hdet
    exact ⟨this.2, this.1⟩
  · intro h
    simp only [quadCtrl, lineIntersection, sc_abs, h, if_true]

/-- the cubic control points are on the end tangents by construction -/
theorem cubic_ctrl_on_tangents (arc : Arc K) (step : K) (j : Nat) :
    ((cubicPiece arc step j).c1 - (cubicPiece arc step j).a).cross (tangentAtAngle arc (angleAt arc step j)) = 0
    ∧ ((cubicPiece arc step j).b - (cubicPiece arc step j).c2).cross (tangentAtAngle arc (angleAt arc step (j+1))) = 0 := by
  constructor <;>
  · simp only [cubicPiece, geom]
    ring

/-! ## §2 `from_svg_arc`: what holds for any angle function (hence for the code as it is) -/

/-- **sweep direction and size bound.**  Whatever function computes the two angles, the flag
correction after the `% 2π` gives a non-negative sweep below a full turn when the sweep flag is set
and a non-positive one otherwise; so, unless the sweep is `0`, `sweep ≥ 0` iff the flag.
Law used: `|x % m| < m` (C `fmod`). -/
theorem svg_arc_sweep_sign (ang : P K → K) (a : SvgArc K)
    (hfm : ∀ x : K, |Transc.fmod x twoPi| < twoPi) :
    (a.sweep = true → 0 ≤ (fromSvgArcWith ang a).sweep ∧ (fromSvgArcWith ang a).sweep < twoPi)
    ∧ (a.sweep = false → -twoPi < (fromSvgArcWith ang a).sweep ∧ (fromSvgArcWith ang a).sweep ≤ 0)
    ∧ ((fromSvgArcWith ang a).sweep ≠ 0 → (0 ≤ (fromSvgArcWith ang a).sweep ↔ a.sweep = true)) := by
  have h := hfm (ang (endV a) - ang (startV a))
  rw [abs_lt] at h
  set s := Transc.fmod (ang (endV a) - ang (startV a)) twoPi with hs
  have hr : (fromSvgArcWith ang a).sweep = adjustSweep a.sweep s := rfl
  rw [hr]
  unfold adjustSweep
  simp only [sc_zero]
  cases hflag : a.sweep
  · simp only [Bool.false_eq_true, false_and, if_false, true_and, false_implies, true_implies,
      iff_false, not_le]
    split_ifs with h1
    · refine ⟨⟨by linarith, by linarith⟩, fun _ => by linarith⟩
    · have : s ≤ 0 := not_lt.mp h1
      refine ⟨⟨by linarith, this⟩, fun hne => lt_of_le_of_ne this hne⟩
  · simp only [true_and, Bool.true_eq_false, false_and, if_false, true_implies, false_implies,
      iff_true]
    split_ifs with h1
    · refine ⟨⟨by linarith, by linarith⟩, fun _ => by linarith⟩
    · have : 0 ≤ s := not_lt.mp h1
      refine ⟨⟨this, by linarith⟩, fun _ => this⟩

/-- **radii**: the result uses `|rx|, |ry|`, multiplied by `√rf` exactly when `rf > 1`
(F.6.6.2–3), for any angle function. -/
theorem svg_arc_radii (ang : P K → K) (a : SvgArc K) :
    (rf a ≤ 1 → (fromSvgArcWith ang a).radii = ⟨|a.radii.x|, |a.radii.y|⟩)
    ∧ (1 < rf a → (fromSvgArcWith ang a).radii =
        ⟨|a.radii.x| * Transc.sqrt (rf a), |a.radii.y| * Transc.sqrt (rf a)⟩) := by
  constructor
  · intro h
    simp only [fromSvgArcWith, rx, ry, scaleRadius, rx0, ry0, sc_abs, sc_one, gt_iff_lt, not_lt.mpr h, if_false]
  · intro h
    simp only [fromSvgArcWith, rx, ry, scaleRadius, rx0, ry0, sc_abs, sc_one, gt_iff_lt, h, if_true]

end

end Lyon.C13
