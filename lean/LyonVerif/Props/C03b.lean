/-
  C03 (growth) — the shape helpers of the path builders, and the shared-curved-edge mechanism.

  A. Theorems about `Model/Path/Shapes.lean` (the builder calls made by `PathBuilder::{add_polygon,
     add_rectangle, add_circle, add_ellipse, add_rounded_rectangle}` and `FillBuilder::add_circle`,
     tied bit-for-bit to the real helpers by the `helpers:32` family of `harness/src/bin/c03.rs`):

  * `helpers_wellnested`            every helper emits a well-nested `begin edge* end` sequence
                                    (for every scalar type, floats included)
  * `helpers_single_closed_subpath` the `PathBuilder` helpers emit exactly one sub-path, closed
                                    (`end(true)`), or nothing (`add_polygon` of no points)
  * `rectangle_helper_corners`      `add_rectangle` = begin/line/line/line/end(true) through the four
                                    corners of the box, starting at `min`
  * `rectangle_helper_orientation`  signed area (lyon's own `approximate_signed_area`, = ½ shoelace,
                                    `C18.subArea_shoelace`) of the emitted polygon is `+w·h` for
                                    `Winding::Positive` and `−w·h` for `Winding::Negative`
  * `circle_helper_endpoints_on_circle`  the four cubics of `add_circle` chain
                                    `c−(|r|,0) → c−(0,|r|·dir) → c+(|r|,0) → c+(0,|r|·dir) → c−(|r|,0)`:
                                    end points exactly on the circle of radius |r|, on the axes, and
                                    the last one is the first (the closing edge is degenerate)
  * `circle_helper_tangents`        every control point lies on the tangent of the circle at its
                                    end point, at distance `0.55191505·|r|`
  * `fill_circle_helper_points`     `FillBuilder::add_circle`: axis points exactly on the circle, the
                                    diagonal points at squared distance `2k²·r²`, `|2k² − 1| < 10⁻¹⁵`
  * `fill_circle_helper_chords`     its eight quadratic sub-paths span exactly the eight edges of the
                                    octagon it adds last (their closing chords cancel the octagon's
                                    edges: opposite direction)
  * `rounded_rect_radii_fit`        the clamped radii are ≥ 0 and adjacent pairs fit their side
  * `rounded_rect_degenerates`      all radii 0 (box not inverted): the same four corners as
                                    `add_rectangle`; Positive: the identical call list; Negative: the
                                    same cycle started one corner later (at `(min.x, max.y)`)
  * `ellipse_helper_shape`          `add_ellipse` = begin at the arc's sample(0), one
                                    `quadratic_bezier_to` per piece of `for_each_quadratic_bezier`, end(true)

  B. The mechanism behind "two sub-paths sharing a curved edge in opposite directions leave no
     crack and no overlap", over C07's model of the `EventQueueBuilder` (`Model/Tess/Sources.lean`,
     `curveSegment`, the flattener a parameter):

  * `curve_records_opposite`        a curve from p to q ≠ p and the reversed curve from q to p store
                                    the SAME list of edge segments — the non-degenerate pieces of the
                                    flattening of the downward-oriented curve, each stored downward —
                                    with opposite windings (whatever else is in the queue)
  * `shared_edge_same_polyline`     instance for a quadratic `c` and `c.flip`, flattener
                                    `flat : Quad → List Piece` applied to `c`/`c.flip` as the code does
  * `shared_cubic_edge_same_polyline`  the same for cubics

  What is NOT proved here: that the sweep fills between these segments correctly (C01/C02, slab
  checker per input), and that `flat` stays within the tolerance (C09).
-/
import LyonVerif.Model.Path.Shapes
import LyonVerif.Model.Tess.Sources
import LyonVerif.Lemmas.Trace
import LyonVerif.Lemmas.Field
import LyonVerif.Props.C18

set_option linter.unusedSectionVars false
set_option linter.unusedVariables false

geom_all Lyon.PathShapes

namespace Lyon.C03b
open Lyon Lyon.Path Lyon.PathShapes

/-! ## A. shape helpers: protocol -/

section protocol
variable {α : Type} [Scalar α]

/-- a call that draws an edge (neither `begin` nor `end`) -/
def isEdgeCall : Call (P α) Unit → Bool
  | .line _ _ => true
  | .quad _ _ _ => true
  | .cubic _ _ _ _ => true
  | _ => false

/-- exactly one sub-path, closed: `begin p, edge*, end(true)` -/
def SingleClosed (l : Calls α) : Prop :=
  ∃ p mid, l = Call.begin p () :: mid ++ [Call.end_ true] ∧ ∀ c ∈ mid, isEdgeCall c = true

theorem edges_state (mid : Calls α) (h : ∀ c ∈ mid, isEdgeCall c = true) :
    nestState true mid = some true := by
  induction mid with
  | nil => rfl
  | cons c r ih =>
    have hc := h c (by simp)
    have hr := ih (fun d hd => h d (by simp [hd]))
    cases c <;> simp_all [isEdgeCall, nestState]

theorem SingleClosed.wellNested {l : Calls α} (h : SingleClosed l) : WellNested l := by
  obtain ⟨p, mid, rfl, hm⟩ := h
  refine (wellNestedFrom_iff_nestState false _).2 ?_
  show nestState true (mid ++ [Call.end_ true]) = some false
  rw [nestState_append, edges_state mid hm]
  rfl

theorem cornerCubic_edges (r : α) (a b c : P α) : ∀ x ∈ cornerCubic r a b c, isEdgeCall x = true := by
  intro x hx
  unfold cornerCubic at hx
  split at hx
  · simp at hx; subst hx; rfl
  · simp at hx

theorem addPolygon_single (p : P α) (r : List (P α)) :
    SingleClosed (addPolygon (p :: r) true) :=
  ⟨p, r.map (fun q => Call.line q ()), rfl, by
    intro c hc
    simp only [List.mem_map] at hc
    obtain ⟨q, _, rfl⟩ := hc
    rfl⟩

theorem addRectangle_single (mn mx : P α) (pos : Bool) : SingleClosed (addRectangle mn mx pos) := by
  unfold addRectangle rectPoints
  cases pos <;> exact addPolygon_single _ _

theorem fourCubics_single (p a1 b1 p1 a2 b2 p2 a3 b3 p3 a4 b4 p4 : P α) :
    SingleClosed [Call.begin p (), Call.cubic a1 b1 p1 (), Call.cubic a2 b2 p2 (), Call.cubic a3 b3 p3 (),
      Call.cubic a4 b4 p4 (), Call.end_ true] := by
  refine ⟨p, [Call.cubic a1 b1 p1 (), Call.cubic a2 b2 p2 (), Call.cubic a3 b3 p3 (), Call.cubic a4 b4 p4 ()], rfl, ?_⟩
  intro x hx
  simp only [List.mem_cons, List.not_mem_nil, or_false] at hx
  rcases hx with h | h | h | h <;> subst h <;> rfl

theorem addCircle_single (c : P α) (r : α) (pos : Bool) : SingleClosed (addCircle c r pos) :=
  fourCubics_single ..

theorem addEllipse_single [Transc α] (c radii : P α) (rot : α) (pos : Bool) :
    SingleClosed (addEllipse c radii rot pos) := by
  refine ⟨_, _, rfl, ?_⟩
  intro x hx
  simp only [List.mem_map] at hx
  obtain ⟨q, _, rfl⟩ := hx
  rfl

theorem singleClosed_of (p : P α) (mid : Calls α) (h : ∀ c ∈ mid, isEdgeCall c = true) (l : Calls α)
    (hl : l = Call.begin p () :: mid ++ [Call.end_ true]) : SingleClosed l := ⟨p, mid, hl, h⟩

theorem rrCalls_single (p : Array (P α)) (r : Radii α) (pos : Bool) : SingleClosed (rrCalls p r pos) := by
  cases pos
  · refine singleClosed_of (p.getD 15 origin)
      (cornerCubic r.bl (p.getD 14 origin) (p.getD 13 origin) (p.getD 12 origin) ++ [Call.line (p.getD 11 origin) ()] ++
       cornerCubic r.br (p.getD 10 origin) (p.getD 9 origin) (p.getD 8 origin) ++ [Call.line (p.getD 7 origin) ()] ++
       cornerCubic r.tr (p.getD 6 origin) (p.getD 5 origin) (p.getD 4 origin) ++ [Call.line (p.getD 3 origin) ()] ++
       cornerCubic r.tl (p.getD 2 origin) (p.getD 1 origin) (p.getD 0 origin)) ?_ _ ?_
    · intro x hx
      simp only [List.mem_append, List.mem_cons, List.not_mem_nil, or_false] at hx
      rcases hx with ((((((h | h) | h) | h) | h) | h) | h)
      · exact cornerCubic_edges _ _ _ _ x h
      · subst h; rfl
      · exact cornerCubic_edges _ _ _ _ x h
      · subst h; rfl
      · exact cornerCubic_edges _ _ _ _ x h
      · subst h; rfl
      · exact cornerCubic_edges _ _ _ _ x h
    · simp [rrCalls]
  · refine singleClosed_of (p.getD 0 origin)
      (cornerCubic r.tl (p.getD 1 origin) (p.getD 2 origin) (p.getD 3 origin) ++ [Call.line (p.getD 4 origin) ()] ++
       cornerCubic r.tr (p.getD 5 origin) (p.getD 6 origin) (p.getD 7 origin) ++ [Call.line (p.getD 8 origin) ()] ++
       cornerCubic r.br (p.getD 9 origin) (p.getD 10 origin) (p.getD 11 origin) ++ [Call.line (p.getD 12 origin) ()] ++
       cornerCubic r.bl (p.getD 13 origin) (p.getD 14 origin) (p.getD 15 origin)) ?_ _ ?_
    · intro x hx
      simp only [List.mem_append, List.mem_cons, List.not_mem_nil, or_false] at hx
      rcases hx with ((((((h | h) | h) | h) | h) | h) | h)
      · exact cornerCubic_edges _ _ _ _ x h
      · subst h; rfl
      · exact cornerCubic_edges _ _ _ _ x h
      · subst h; rfl
      · exact cornerCubic_edges _ _ _ _ x h
      · subst h; rfl
      · exact cornerCubic_edges _ _ _ _ x h
    · simp [rrCalls]

theorem addRoundedRectangle_single (mn mx : P α) (radii : Radii α) (pos : Bool) :
    SingleClosed (addRoundedRectangle mn mx radii pos) := rrCalls_single _ _ _

/-- **The `PathBuilder` shape helpers emit exactly one closed sub-path** (`add_polygon`: for a
non-empty closed polygon; an empty polygon emits nothing). -/
theorem helpers_single_closed_subpath [Transc α] (mn mx c radii : P α) (r rot : α) (r4 : Radii α)
    (p : P α) (pts : List (P α)) (pos : Bool) :
    SingleClosed (addRectangle mn mx pos) ∧ SingleClosed (addCircle c r pos) ∧
    SingleClosed (addEllipse c radii rot pos) ∧ SingleClosed (addRoundedRectangle mn mx r4 pos) ∧
    SingleClosed (addPolygon (p :: pts) true) ∧ addPolygon ([] : List (P α)) true = [] :=
  ⟨addRectangle_single .., addCircle_single .., addEllipse_single .., addRoundedRectangle_single ..,
   addPolygon_single .., rfl⟩

theorem addPolygon_wellNested (pts : List (P α)) (closed : Bool) : WellNested (addPolygon pts closed) := by
  cases pts with
  | nil => rfl
  | cons p r =>
    refine (wellNestedFrom_iff_nestState false _).2 ?_
    show nestState true (r.map (fun q => Call.line q ()) ++ [Call.end_ closed]) = some false
    rw [nestState_append, edges_state]
    · rfl
    · intro c hc
      simp only [List.mem_map] at hc
      obtain ⟨q, _, rfl⟩ := hc
      rfl

/-- **Every shape helper emits a well-nested `(begin edge* end)*` sequence** — for every scalar
type (the statement is about the call structure, so it holds at `Float32` too), every input
(degenerate, NaN, negative radii included), both windings; `add_polygon` open or closed, also
empty; `FillBuilder::add_circle`: nine sub-paths. -/
theorem helpers_wellnested [Transc α] (mn mx c radii : P α) (r rot : α) (r4 : Radii α)
    (pts : List (P α)) (closed pos : Bool) :
    WellNested (addPolygon pts closed) ∧ WellNested (addRectangle mn mx pos) ∧
    WellNested (addCircle c r pos) ∧ WellNested (addEllipse c radii rot pos) ∧
    WellNested (addRoundedRectangle mn mx r4 pos) ∧ WellNested (fillAddCircle c r pos) :=
  ⟨addPolygon_wellNested _ _, (addRectangle_single ..).wellNested, (addCircle_single ..).wellNested,
   (addEllipse_single ..).wellNested, (addRoundedRectangle_single ..).wellNested, rfl⟩

/-- **`add_ellipse`**: begin at `arc.sample(0)`, one `quadratic_bezier_to(ctrl, to)` per piece of
`Arc::for_each_quadratic_bezier` of the arc (centre, radii, rotation, start 0, sweep ±2π), end(true). -/
theorem ellipse_helper_shape [Transc α] (c radii : P α) (rot : α) (pos : Bool) :
    addEllipse c radii rot pos
      = Call.begin ((ellipseArc c radii rot pos).sample Scalar.zero) ()
        :: ((ArcConv.quadsWithT (ellipseArc c radii rot pos)).map (fun q => Call.quad q.1.c q.1.b ()))
        ++ [Call.end_ true] := rfl

/-- the end points named by the calls, in order (`begin`/`line_to`/curve `to`) -/
def endpoints : Calls α → List (P α)
  | [] => []
  | .begin p _ :: r => p :: endpoints r
  | .line p _ :: r => p :: endpoints r
  | .quad _ p _ :: r => p :: endpoints r
  | .cubic _ _ p _ :: r => p :: endpoints r
  | .end_ _ :: r => endpoints r

/-- **`add_rectangle`**: `begin(min)`, three `line_to` through the other corners, `end(true)`;
Positive: `(max.x, min.y)` next, Negative: `(min.x, max.y)` next. -/
theorem rectangle_helper_corners (mn mx : P α) :
    addRectangle mn mx true
      = [.begin mn (), .line ⟨mx.x, mn.y⟩ (), .line mx (), .line ⟨mn.x, mx.y⟩ (), .end_ true] ∧
    addRectangle mn mx false
      = [.begin mn (), .line ⟨mn.x, mx.y⟩ (), .line mx (), .line ⟨mx.x, mn.y⟩ (), .end_ true] ∧
    ∀ pos, endpoints (addRectangle mn mx pos) = rectPoints mn mx pos := by
  refine ⟨rfl, rfl, ?_⟩
  intro pos
  cases pos <;> rfl

end protocol

/-! ## A. shape helpers: geometry over an ordered field -/

section geometry
variable {K : Type} [Field K] [LinearOrder K] [IsStrictOrderedRing K]

/-- **Orientation of `add_rectangle`**: the polygon through the emitted end points has signed
area (`approximate_signed_area`'s formula = half the shoelace sum of the closed outline) `+w·h`
for `Winding::Positive` and `−w·h` for `Winding::Negative`, `w = max.x − min.x`,
`h = max.y − min.y` (no assumption on their signs: an inverted box inverts the orientation). -/
theorem rectangle_helper_orientation (mn mx : P K) :
    Winding.subArea (endpoints (addRectangle mn mx true)) = (mx.x - mn.x) * (mx.y - mn.y) ∧
    Winding.subArea (endpoints (addRectangle mn mx false)) = -((mx.x - mn.x) * (mx.y - mn.y)) ∧
    C18.shoelace (Winding.subEdges (endpoints (addRectangle mn mx true)))
      = 2 * ((mx.x - mn.x) * (mx.y - mn.y)) ∧
    C18.shoelace (Winding.subEdges (endpoints (addRectangle mn mx false)))
      = -(2 * ((mx.x - mn.x) * (mx.y - mn.y))) := by
  have e1 : endpoints (addRectangle mn mx true) = [mn, ⟨mx.x, mn.y⟩, mx, ⟨mn.x, mx.y⟩] := rfl
  have e2 : endpoints (addRectangle mn mx false) = [mn, ⟨mn.x, mx.y⟩, mx, ⟨mx.x, mn.y⟩] := rfl
  have s1 : C18.shoelace (Winding.subEdges ([mn, ⟨mx.x, mn.y⟩, mx, ⟨mn.x, mx.y⟩] : List (P K)))
      = 2 * ((mx.x - mn.x) * (mx.y - mn.y)) := by
    simp only [C18.shoelace, Winding.subEdges, Winding.subEdgesFrom, List.map_cons, List.map_nil,
      List.sum_cons, List.sum_nil]
    ring
  have s2 : C18.shoelace (Winding.subEdges ([mn, ⟨mn.x, mx.y⟩, mx, ⟨mx.x, mn.y⟩] : List (P K)))
      = -(2 * ((mx.x - mn.x) * (mx.y - mn.y))) := by
    simp only [C18.shoelace, Winding.subEdges, Winding.subEdgesFrom, List.map_cons, List.map_nil,
      List.sum_cons, List.sum_nil]
    ring
  refine ⟨?_, ?_, ?_, ?_⟩
  · rw [C18.subArea_shoelace, e1, s1]; ring
  · rw [C18.subArea_shoelace, e2, s2]; ring
  · rw [e1, s1]
  · rw [e2, s2]

/-- **End points of `add_circle`**: the cubics go `c − (|r|, 0) → c − (0, |r|·dir) → c + (|r|, 0)
→ c + (0, |r|·dir) → c − (|r|, 0)` (`dir` = +1 for Positive, −1 for Negative): the four end points
are the centre ± |r| on the axes, hence exactly on the circle, and the last is the first (the
sub-path closes on itself). -/
theorem circle_helper_endpoints_on_circle (c : P K) (r : K) (pos : Bool) :
    endpoints (addCircle c r pos)
      = [⟨c.x - |r|, c.y⟩, ⟨c.x, c.y - |r| * (if pos then 1 else -1)⟩, ⟨c.x + |r|, c.y⟩,
         ⟨c.x, c.y + |r| * (if pos then 1 else -1)⟩, ⟨c.x - |r|, c.y⟩] ∧
    ∀ p ∈ endpoints (addCircle c r pos), (p - c).sqLen = r * r := by
  have hr : |r| * |r| = r * r := abs_mul_abs_self r
  have he : endpoints (addCircle c r pos)
      = [⟨c.x - |r|, c.y⟩, ⟨c.x, c.y - |r| * (if pos then 1 else -1)⟩, ⟨c.x + |r|, c.y⟩,
         ⟨c.x, c.y + |r| * (if pos then 1 else -1)⟩, ⟨c.x - |r|, c.y⟩] := by
    cases pos <;>
    · simp only [addCircle, endpoints, off, dirOf, List.cons.injEq, and_true]
      refine ⟨?_, ?_, ?_, ?_, ?_⟩ <;> (apply P.ext' <;> simp [geom] <;> ring)
  refine ⟨he, ?_⟩
  intro p hp
  rw [he] at hp
  simp only [List.mem_cons, List.not_mem_nil, or_false] at hp
  cases pos <;> rcases hp with h | h | h | h | h <;> subst h <;> simp [geom]

/-- the control points of the cubics of `add_circle`, as `(end point, its control point)` pairs -/
noncomputable def circleHandles (c : P K) (r : K) (pos : Bool) : List (P K × P K) :=
  match addCircle c r pos with
  | [.begin p0 _, .cubic a1 b1 p1 _, .cubic a2 b2 p2 _, .cubic a3 b3 p3 _, .cubic a4 b4 p4 _, .end_ _] =>
    [(p0, a1), (p1, b1), (p1, a2), (p2, b2), (p2, a3), (p3, b3), (p3, a4), (p4, b4)]
  | _ => []

/-- **Tangency of `add_circle`'s control points**: every control point is offset from its end
point perpendicularly to the radius (on the circle's tangent), by `0.55191505·|r|`. -/
theorem circle_helper_tangents (c : P K) (r : K) (pos : Bool) :
    (circleHandles c r pos).length = 8 ∧
    ∀ h ∈ circleHandles c r pos,
      (h.2 - h.1).dot (h.1 - c) = 0 ∧ (h.2 - h.1).sqLen = (|r| * (55191505 / 10 ^ 8)) ^ 2 := by
  refine ⟨rfl, ?_⟩
  intro h hh
  simp only [circleHandles, addCircle, off, List.mem_cons, List.not_mem_nil, or_false] at hh
  cases pos <;> rcases hh with e | e | e | e | e | e | e | e <;> subst e <;>
    (constructor <;> (simp [geom, circleK, dirOf]; try ring))

/-- `(2·FRAC_1_SQRT_2² − 1)` for the decimal constant of the model -/
theorem frac1Sqrt2_sq : |2 * ((frac1Sqrt2 : K) * frac1Sqrt2) - 1| < 1 / 10 ^ 15 := by
  simp only [frac1Sqrt2, geom]
  rw [abs_lt]
  constructor <;> norm_num

/-- **Points of `FillBuilder::add_circle`** (`dir` = ±1 by winding): sub-paths
`s→m0, m0→m1, …, m6→s` then the octagon `s m0 … m6`; the end points on the axes (`s, m1, m3, m5`)
are exactly on the circle; the four diagonal ones are at squared distance `2k²·r²` with
`k = FRAC_1_SQRT_2` (decimal), `|2k² − 1| < 10⁻¹⁵` (`frac1Sqrt2_sq`). -/
theorem fill_circle_helper_points (c : P K) (r : K) (pos : Bool) :
    endpoints (fillAddCircle c r pos) =
      (let dir : K := if pos then 1 else -1
       let s : P K := ⟨c.x - |r|, c.y⟩
       let m0 := diag c (-1) (-dir) |r|
       let m1 : P K := ⟨c.x, c.y - |r| * dir⟩
       let m2 := diag c 1 (-dir) |r|
       let m3 : P K := ⟨c.x + |r|, c.y⟩
       let m4 := diag c 1 dir |r|
       let m5 : P K := ⟨c.x, c.y + |r| * dir⟩
       let m6 := diag c (-1) dir |r|
       [s, m0, m0, m1, m1, m2, m2, m3, m3, m4, m4, m5, m5, m6, m6, s, s, m0, m1, m2, m3, m4, m5, m6]) ∧
    (∀ sx sy : K, sx * sx = 1 → sy * sy = 1 →
      (diag c sx sy |r| - c).sqLen = 2 * ((frac1Sqrt2 : K) * frac1Sqrt2) * (r * r)) ∧
    (∀ p ∈ ([⟨c.x - |r|, c.y⟩, ⟨c.x, c.y - |r|⟩, ⟨c.x + |r|, c.y⟩, ⟨c.x, c.y + |r|⟩] : List (P K)),
      (p - c).sqLen = r * r) := by
  have hr : |r| * |r| = r * r := abs_mul_abs_self r
  refine ⟨?_, ?_, ?_⟩
  · cases pos <;>
    · simp only [fillAddCircle, quadSub, endpoints, off, dirOf, List.cons_append, List.nil_append,
        List.cons.injEq, and_true]
      simp [geom, sub_eq_add_neg]
  · intro sx sy hx hy
    simp only [diag, geom]
    linear_combination ((70710678118654752440:K) / 10 ^ 20) ^ 2 * (r * r) * (hx + hy)
      + (sx * sx + sy * sy) * ((70710678118654752440:K) / 10 ^ 20) ^ 2 * hr
  · intro p hp
    simp only [List.mem_cons, List.not_mem_nil, or_false] at hp
    rcases hp with h | h | h | h <;> subst h <;> simp [geom]


/-! ### rounded rectangle -/

/-- all four radii within `[0, min w h]` -/
def RadiiInv (w h : K) (r : Radii K) : Prop :=
  (0 ≤ r.tl ∧ 0 ≤ r.tr ∧ 0 ≤ r.bl ∧ 0 ≤ r.br) ∧ (r.tl ≤ w ∧ r.tr ≤ w ∧ r.bl ≤ w ∧ r.br ≤ w) ∧
  (r.tl ≤ h ∧ r.tr ≤ h ∧ r.bl ≤ h ∧ r.br ≤ h)

/-- componentwise `≤` -/
def RadiiLe (a b : Radii K) : Prop := a.tl ≤ b.tl ∧ a.tr ≤ b.tr ∧ a.bl ≤ b.bl ∧ a.br ≤ b.br

theorem radiiInit_inv (w h : K) (hw : 0 ≤ w) (hh : 0 ≤ h) (r : Radii K) : RadiiInv w h (radiiInit w h r) := by
  have key : ∀ x : K, 0 ≤ min |x| (min w h) ∧ min |x| (min w h) ≤ w ∧ min |x| (min w h) ≤ h := fun x =>
    ⟨le_min (abs_nonneg x) (le_min hw hh), (min_le_right _ _).trans (min_le_left _ _),
     (min_le_right _ _).trans (min_le_right _ _)⟩
  simp only [RadiiInv, radiiInit, geom]
  exact ⟨⟨(key _).1, (key _).1, (key _).1, (key _).1⟩, ⟨(key _).2.1, (key _).2.1, (key _).2.1, (key _).2.1⟩,
    ⟨(key _).2.2, (key _).2.2, (key _).2.2, (key _).2.2⟩⟩

theorem clampTop_spec (w h : K) (r : Radii K) (hi : RadiiInv w h r) :
    RadiiInv w h (clampTop w r) ∧ RadiiLe (clampTop w r) r ∧ (clampTop w r).tl + (clampTop w r).tr ≤ w := by
  obtain ⟨⟨a1, a2, a3, a4⟩, ⟨b1, b2, b3, b4⟩, ⟨c1, c2, c3, c4⟩⟩ := hi
  unfold clampTop
  split_ifs with hc
  · simp only [RadiiInv, RadiiLe, excess, geom] at hc ⊢
    refine ⟨⟨⟨?_, ?_, ?_, ?_⟩, ⟨?_, ?_, ?_, ?_⟩, ⟨?_, ?_, ?_, ?_⟩⟩, ⟨?_, ?_, ?_, ?_⟩, ?_⟩ <;> linarith
  · simp only [RadiiInv, RadiiLe] at hc ⊢
    exact ⟨⟨⟨a1, a2, a3, a4⟩, ⟨b1, b2, b3, b4⟩, ⟨c1, c2, c3, c4⟩⟩, ⟨le_refl _, le_refl _, le_refl _, le_refl _⟩,
      not_lt.1 hc⟩

theorem clampBottom_spec (w h : K) (r : Radii K) (hi : RadiiInv w h r) :
    RadiiInv w h (clampBottom w r) ∧ RadiiLe (clampBottom w r) r ∧
      (clampBottom w r).bl + (clampBottom w r).br ≤ w := by
  obtain ⟨⟨a1, a2, a3, a4⟩, ⟨b1, b2, b3, b4⟩, ⟨c1, c2, c3, c4⟩⟩ := hi
  unfold clampBottom
  split_ifs with hc
  · simp only [RadiiInv, RadiiLe, excess, geom] at hc ⊢
    refine ⟨⟨⟨?_, ?_, ?_, ?_⟩, ⟨?_, ?_, ?_, ?_⟩, ⟨?_, ?_, ?_, ?_⟩⟩, ⟨?_, ?_, ?_, ?_⟩, ?_⟩ <;> linarith
  · simp only [RadiiInv, RadiiLe] at hc ⊢
    exact ⟨⟨⟨a1, a2, a3, a4⟩, ⟨b1, b2, b3, b4⟩, ⟨c1, c2, c3, c4⟩⟩, ⟨le_refl _, le_refl _, le_refl _, le_refl _⟩,
      not_lt.1 hc⟩

theorem clampRight_spec (w h : K) (r : Radii K) (hi : RadiiInv w h r) :
    RadiiInv w h (clampRight h r) ∧ RadiiLe (clampRight h r) r ∧
      (clampRight h r).tr + (clampRight h r).br ≤ h := by
  obtain ⟨⟨a1, a2, a3, a4⟩, ⟨b1, b2, b3, b4⟩, ⟨c1, c2, c3, c4⟩⟩ := hi
  unfold clampRight
  split_ifs with hc
  · simp only [RadiiInv, RadiiLe, excess, geom] at hc ⊢
    refine ⟨⟨⟨?_, ?_, ?_, ?_⟩, ⟨?_, ?_, ?_, ?_⟩, ⟨?_, ?_, ?_, ?_⟩⟩, ⟨?_, ?_, ?_, ?_⟩, ?_⟩ <;> linarith
  · simp only [RadiiInv, RadiiLe] at hc ⊢
    exact ⟨⟨⟨a1, a2, a3, a4⟩, ⟨b1, b2, b3, b4⟩, ⟨c1, c2, c3, c4⟩⟩, ⟨le_refl _, le_refl _, le_refl _, le_refl _⟩,
      not_lt.1 hc⟩

theorem clampLeft_spec (w h : K) (r : Radii K) (hi : RadiiInv w h r) :
    RadiiInv w h (clampLeft h r) ∧ RadiiLe (clampLeft h r) r ∧
      (clampLeft h r).tl + (clampLeft h r).bl ≤ h := by
  obtain ⟨⟨a1, a2, a3, a4⟩, ⟨b1, b2, b3, b4⟩, ⟨c1, c2, c3, c4⟩⟩ := hi
  unfold clampLeft
  split_ifs with hc
  · simp only [RadiiInv, RadiiLe, excess, geom] at hc ⊢
    refine ⟨⟨⟨?_, ?_, ?_, ?_⟩, ⟨?_, ?_, ?_, ?_⟩, ⟨?_, ?_, ?_, ?_⟩⟩, ⟨?_, ?_, ?_, ?_⟩, ?_⟩ <;> linarith
  · simp only [RadiiInv, RadiiLe] at hc ⊢
    exact ⟨⟨⟨a1, a2, a3, a4⟩, ⟨b1, b2, b3, b4⟩, ⟨c1, c2, c3, c4⟩⟩, ⟨le_refl _, le_refl _, le_refl _, le_refl _⟩,
      not_lt.1 hc⟩

/-- **The radii `add_rounded_rectangle` uses fit the box** (box not inverted: `0 ≤ w`, `0 ≤ h`):
after `abs().min(min_wh)` and the four pairwise clamps every radius is in `[0, |requested|]` and
the two radii on each side add up to at most that side — whatever was requested (negative, larger
than the half side, larger than the box).  So consecutive corner arcs never overlap. -/
theorem rounded_rect_radii_fit (w h : K) (hw : 0 ≤ w) (hh : 0 ≤ h) (r : Radii K) :
    (0 ≤ (clampRadii w h r).tl ∧ 0 ≤ (clampRadii w h r).tr ∧ 0 ≤ (clampRadii w h r).bl ∧ 0 ≤ (clampRadii w h r).br) ∧
    ((clampRadii w h r).tl ≤ |r.tl| ∧ (clampRadii w h r).tr ≤ |r.tr| ∧ (clampRadii w h r).bl ≤ |r.bl| ∧
      (clampRadii w h r).br ≤ |r.br|) ∧
    (clampRadii w h r).tl + (clampRadii w h r).tr ≤ w ∧ (clampRadii w h r).bl + (clampRadii w h r).br ≤ w ∧
    (clampRadii w h r).tr + (clampRadii w h r).br ≤ h ∧ (clampRadii w h r).tl + (clampRadii w h r).bl ≤ h := by
  have h0 := radiiInit_inv w h hw hh r
  obtain ⟨i1, l1, t1⟩ := clampTop_spec w h _ h0
  obtain ⟨i2, l2, t2⟩ := clampBottom_spec w h _ i1
  obtain ⟨i3, l3, t3⟩ := clampRight_spec w h _ i2
  obtain ⟨i4, l4, t4⟩ := clampLeft_spec w h _ i3
  have e : clampRadii w h r = clampLeft h (clampRight h (clampBottom w (clampTop w (radiiInit w h r)))) := rfl
  rw [e]
  have li : RadiiLe (radiiInit w h r) ⟨|r.tl|, |r.tr|, |r.bl|, |r.br|⟩ := by
    simp only [RadiiLe, radiiInit, geom]
    exact ⟨min_le_left _ _, min_le_left _ _, min_le_left _ _, min_le_left _ _⟩
  simp only [RadiiLe] at l1 l2 l3 l4 li
  obtain ⟨⟨p1, p2, p3, p4⟩, _, _⟩ := i4
  refine ⟨⟨p1, p2, p3, p4⟩, ⟨?_, ?_, ?_, ?_⟩, ?_, ?_, ?_, ?_⟩ <;> linarith [l1.1, l1.2.1, l1.2.2.1, l1.2.2.2,
    l2.1, l2.2.1, l2.2.2.1, l2.2.2.2, l3.1, l3.2.1, l3.2.2.1, l3.2.2.2, l4.1, l4.2.1, l4.2.2.1, l4.2.2.2,
    li.1, li.2.1, li.2.2.1, li.2.2.2]

/-- a generous request (10, 10, 1, 1 in a 4 × 6 box) is clamped to radii that fit -/
example : clampRadii (4:ℚ) 6 ⟨10, 10, 1, 1⟩ = ⟨2, 2, 1, 1⟩ := by
  simp [clampRadii, clampLeft, clampRight, clampBottom, clampTop, radiiInit, excess, geom]
  norm_num

theorem clampRadii_zero (w h : K) (hw : 0 ≤ w) (hh : 0 ≤ h) :
    clampRadii w h ⟨0, 0, 0, 0⟩ = ⟨0, 0, 0, 0⟩ := by
  have hm : min (0:K) (min w h) = 0 := min_eq_left (le_min hw hh)
  have e0 : radiiInit w h (⟨0, 0, 0, 0⟩ : Radii K) = ⟨0, 0, 0, 0⟩ := by
    simp only [radiiInit, geom, abs_zero, hm]
  have nw : ¬ ((0:K) + 0 > w) := by simpa using hw
  have nh : ¬ ((0:K) + 0 > h) := by simpa using hh
  simp only [clampRadii, e0, clampTop, clampBottom, clampRight, clampLeft, nw, nh, if_false]

/-- **Radius 0 degenerates to the rectangle** (box not inverted): with all four radii 0,
`add_rounded_rectangle` emits no curve and visits exactly the corners of `add_rectangle`.
Positive: the identical call list.  Negative: the same cycle `min → (min.x,max.y) → max →
(max.x,min.y)` entered one corner later, at `(min.x, max.y)`. -/
theorem rounded_rect_degenerates (mn mx : P K) (hx : mn.x ≤ mx.x) (hy : mn.y ≤ mx.y) :
    addRoundedRectangle mn mx ⟨0, 0, 0, 0⟩ true = addRectangle mn mx true ∧
    addRoundedRectangle mn mx ⟨0, 0, 0, 0⟩ false
      = [.begin ⟨mn.x, mx.y⟩ (), .line mx (), .line ⟨mx.x, mn.y⟩ (), .line mn (), .end_ true] ∧
    endpoints (addRoundedRectangle mn mx ⟨0, 0, 0, 0⟩ false) = (rectPoints mn mx false).rotate 1 := by
  have hw : (0:K) ≤ mx.x - mn.x := sub_nonneg.2 hx
  have hh : (0:K) ≤ mx.y - mn.y := sub_nonneg.2 hy
  have hz := clampRadii_zero _ _ hw hh
  have ea : ∀ pos, addRoundedRectangle mn mx ⟨0, 0, 0, 0⟩ pos
      = rrCalls (rrPoints mn mx (clampRadii (mx.x - mn.x) (mx.y - mn.y) ⟨0, 0, 0, 0⟩))
          (clampRadii (mx.x - mn.x) (mx.y - mn.y) ⟨0, 0, 0, 0⟩) pos := fun _ => rfl
  have e2 : addRoundedRectangle mn mx ⟨0, 0, 0, 0⟩ false
      = [.begin ⟨mn.x, mx.y⟩ (), .line mx (), .line ⟨mx.x, mn.y⟩ (), .line mn (), .end_ true] := by
    rw [ea, hz]
    simp [rrCalls, rrPoints, cornerCubic, off, geom]
  refine ⟨?_, e2, ?_⟩
  · rw [ea, hz]
    simp [rrCalls, rrPoints, cornerCubic, off, addRectangle, addPolygon, rectPoints, geom]
  · rw [e2]
    rfl

example : (⟨0, 0⟩ : P ℚ).x ≤ (⟨3, 2⟩ : P ℚ).x ∧ (⟨0, 0⟩ : P ℚ).y ≤ (⟨3, 2⟩ : P ℚ).y := by
  constructor <;> norm_num

/-- **`FillBuilder::add_circle`: the arcs sit on the octagon.**  The call list is eight sub-paths
`begin(vᵢ) quadratic_bezier_to(kᵢ, vᵢ₊₁) end` over the cyclic vertex list `s, m0, …, m6`, followed by
the closed polygon `s, m0, …, m6` itself.  Each quadratic sub-path is closed by the event queue with
the chord `vᵢ₊₁ → vᵢ`, the reverse of the octagon's edge `vᵢ → vᵢ₊₁`: chord and edge cancel, the
fill is the octagon plus the eight caps. (Holds for every scalar type.) -/
theorem fill_circle_helper_chords {α : Type} [Scalar α] (c : P α) (r : α) (pos : Bool) :
    ∃ s m0 m1 m2 m3 m4 m5 m6 k0 k1 k2 k3 k4 k5 k6 k7 : P α,
      fillAddCircle c r pos =
        quadSub s k0 m0 ++ quadSub m0 k1 m1 ++ quadSub m1 k2 m2 ++ quadSub m2 k3 m3 ++
        quadSub m3 k4 m4 ++ quadSub m4 k5 m5 ++ quadSub m5 k6 m6 ++ quadSub m6 k7 s ++
        addPolygon [s, m0, m1, m2, m3, m4, m5, m6] true :=
  ⟨_, _, _, _, _, _, _, _, _, _, _, _, _, _, _, _, rfl⟩

end geometry

/-! ## B. two sub-paths sharing a curved edge -/

section shared
open Lyon.Sources
variable {K : Type} [Field K] [LinearOrder K] [IsStrictOrderedRing K]

/-- an edge segment of the event queue: event position (upper end), `to` (lower end), winding -/
abbrev EdgeSeg (K : Type) := P K × P K × Int

/-- the edge segments of the stored records (newest first); vertex-only events
(`is_edge = false`) carry no geometry and are left out -/
noncomputable def edgeSegs (recs : List (EdgeRec K)) : List (EdgeSeg K) :=
  (recs.filter (fun r => r.isEdge)).map (fun r => (r.pos, r.to, r.winding))

/-- how `add_edge` stores a flattened piece: downward; turned (and the winding negated) when
the piece runs against the sweep -/
noncomputable def storedSeg (w : Int) (l : Piece K) : EdgeSeg K :=
  if isAfter l.a l.b then (l.b, l.a, -w) else (l.a, l.b, w)

/-- the segments a flattening contributes: its non-degenerate pieces, stored downward
(newest first, like the record list) -/
noncomputable def pieceSegs (w : Int) (ps : List (Piece K)) : List (EdgeSeg K) :=
  ((ps.filter (fun l => !(l.a == l.b))).map (storedSeg w)).reverse

/-- negate the winding of a segment -/
def negW (s : EdgeSeg K) : EdgeSeg K := (s.1, s.2.1, -s.2.2)

theorem storedSeg_neg (w : Int) (l : Piece K) : storedSeg (-w) l = negW (storedSeg w l) := by
  unfold storedSeg negW
  split_ifs <;> simp

theorem pieceSegs_neg (w : Int) (ps : List (Piece K)) : pieceSegs (-w) ps = (pieceSegs w ps).map negW := by
  unfold pieceSegs
  rw [List.map_reverse, List.map_map]
  congr 2
  funext l
  exact storedSeg_neg w l

theorem edgeSegs_pushRec_vertex (b : Builder K) (r : EdgeRec K) (h : r.isEdge = false) :
    edgeSegs (b.pushRec r).recs = edgeSegs b.recs := by
  simp [edgeSegs, Builder.pushRec, h]

theorem edgeSegs_addEdge (b : Builder K) (l : Piece K) (w : Int) (i j : Nat) (t0 t1 : K)
    (h : (l.a == l.b) = false) :
    edgeSegs (b.pushEdge (addEdge l.a l.b w i j t0 t1)).recs = storedSeg w l :: edgeSegs b.recs := by
  unfold addEdge storedSeg
  rw [h]
  by_cases ha : isAfter l.a l.b = true
  · simp [ha, Builder.pushEdge, edgeSegs]
  · simp [ha, Builder.pushEdge, edgeSegs]

theorem curveStep_segs (ns : Bool) (w : Int) (toId : Nat) (s : CurveLoop K) (l : Piece K) :
    edgeSegs (curveStep ns w toId s l).bld.recs
      = (if (l.a == l.b) = true then [] else [storedSeg w l]) ++ edgeSegs s.bld.recs := by
  unfold curveStep
  by_cases h : (l.a == l.b) = true
  · simp [h]
  · have hf : (l.a == l.b) = false := by simpa using h
    simp only [hf, Bool.false_eq_true, if_false, List.singleton_append]
    rw [edgeSegs_addEdge _ _ _ _ _ _ _ hf]
    congr 1
    split_ifs
    · exact edgeSegs_pushRec_vertex _ _ rfl
    · rfl

theorem foldl_curveStep_segs (ns : Bool) (w : Int) (toId : Nat) (ps : List (Piece K)) (s : CurveLoop K) :
    edgeSegs (ps.foldl (curveStep ns w toId) s).bld.recs = pieceSegs w ps ++ edgeSegs s.bld.recs := by
  induction ps generalizing s with
  | nil => simp [pieceSegs]
  | cons l r ih =>
    rw [List.foldl_cons, ih, curveStep_segs]
    unfold pieceSegs
    by_cases h : (l.a == l.b) = true
    · simp [h]
    · have hf : (l.a == l.b) = false := by simpa using h
      simp [hf]

theorem curveTail_segs (b0 : Builder K) (s : CurveLoop K) (p q : P K) (toId : Nat) (ns : Bool) :
    edgeSegs (curveTail b0 s p q toId ns).recs = edgeSegs s.bld.recs := by
  unfold curveTail
  cases s.first with
  | none => rfl
  | some f =>
    simp only []
    split_ifs <;> rfl

/-- what one curve call adds to the queue, as edge segments -/
theorem curveSegment_segs (b : Builder K) (q : P K) (toId : Nat) (flat flatFlipped : List (Piece K)) :
    edgeSegs (b.curveSegment q toId flat flatFlipped).recs
      = pieceSegs (if isAfter b.current q then -1 else 1) (if isAfter b.current q then flatFlipped else flat)
        ++ edgeSegs b.recs := by
  unfold Builder.curveSegment
  simp only []
  rw [curveTail_segs, foldl_curveStep_segs]

/-- for distinct points exactly one of the two orders is "after" -/
theorem isAfter_flip (p q : P K) (h : p ≠ q) : isAfter q p = !isAfter p q := by
  have hb : ∀ a b : K, (a == b) = decide (a = b) := fun _ _ => rfl
  unfold isAfter
  rw [hb, hb]
  rcases lt_trichotomy p.y q.y with hy | hy | hy
  · have h1 : ¬ q.y < p.y := not_lt.2 hy.le
    have h2 : ¬ q.y = p.y := (ne_of_lt hy).symm
    have h3 : ¬ p.y = q.y := ne_of_lt hy
    simp [hy, h1, h2, h3]
  · rcases lt_trichotomy p.x q.x with hx | hx | hx
    · have h1 : ¬ q.x < p.x := not_lt.2 hx.le
      simp [hy, hx, h1]
    · exact absurd (P.ext' hx hy) h
    · have h1 : ¬ p.x < q.x := not_lt.2 hx.le
      simp [hy, hx, h1]
  · have h1 : ¬ p.y < q.y := not_lt.2 hy.le
    have h2 : ¬ q.y = p.y := ne_of_lt hy
    have h3 : ¬ p.y = q.y := (ne_of_lt hy).symm
    simp [hy, h1, h2, h3]

/-- **A curve and its reverse store the same segments with opposite windings.**
`b1` is about to draw a curve from `p` to `q`, `b2` the reversed curve from `q` to `p` (`p ≠ q`);
`fwd` is the flattening of the curve `p → q`, `bwd` the flattening of the curve `q → p` (what
`for_each_flattened_with_t` yields for the segment and for the segment with its ends swapped).
The event queue flattens whichever of the two runs downward — the SAME list `down` on both
sides, since exactly one of the two calls swaps — and stores each non-degenerate piece of it
downward.  So both calls add the same segments in the same order; the windings are opposite.
(Endpoint ids and `t`-ranges differ: those are C07's business.) -/
theorem curve_records_opposite (b1 b2 : Builder K) (p q : P K) (hpq : p ≠ q)
    (h1 : b1.current = p) (h2 : b2.current = q) (id1 id2 : Nat) (fwd bwd : List (Piece K)) :
    let down := if isAfter p q then bwd else fwd
    let w : Int := if isAfter p q then -1 else 1
    edgeSegs (b1.curveSegment q id1 fwd bwd).recs = pieceSegs w down ++ edgeSegs b1.recs ∧
    edgeSegs (b2.curveSegment p id2 bwd fwd).recs = (pieceSegs w down).map negW ++ edgeSegs b2.recs := by
  intro down w
  have hf := isAfter_flip p q hpq
  constructor
  · rw [curveSegment_segs, h1]
  · rw [curveSegment_segs, h2, hf, ← pieceSegs_neg]
    by_cases ha : isAfter p q = true
    · simp [down, w, ha]
    · have : isAfter p q = false := by simpa using ha
      simp [down, w, this]

/-- **Two sub-paths sharing a quadratic edge in opposite directions** (`from ≠ to`): the edge
records stored for `c` (drawn from `c.from`) and for `c.flip()` (drawn from `c.to`) are the same
list of segments with opposite windings, for ANY flattener `flat` applied the way the code applies
it (`flat c` when the curve runs with the sweep, `flat c.flip` when it is swapped): no crack and no
overlap can arise between the two sub-paths along the shared edge, because there is only one
polyline.  The sweep then sees each of these segments twice with windings `+w` and `−w`. -/
theorem shared_edge_same_polyline (flat : Quad K → List (Piece K)) (c : Quad K) (hne : c.a ≠ c.b)
    (b1 b2 : Builder K) (h1 : b1.current = c.a) (h2 : b2.current = c.b) (id1 id2 : Nat) :
    ∃ segs : List (EdgeSeg K),
      segs = pieceSegs (if isAfter c.a c.b then -1 else 1) (flat (if isAfter c.a c.b then c.flip else c)) ∧
      edgeSegs (b1.curveSegment c.b id1 (flat c) (flat c.flip)).recs = segs ++ edgeSegs b1.recs ∧
      edgeSegs (b2.curveSegment c.flip.b id2 (flat c.flip) (flat c.flip.flip)).recs
        = segs.map negW ++ edgeSegs b2.recs := by
  have hff : c.flip.flip = c := rfl
  have hb : c.flip.b = c.a := rfl
  rw [hff, hb]
  have := curve_records_opposite b1 b2 c.a c.b hne h1 h2 id1 id2 (flat c) (flat c.flip)
  refine ⟨_, rfl, ?_, ?_⟩
  · convert this.1 using 3
    split_ifs <;> rfl
  · convert this.2 using 4
    split_ifs <;> rfl

/-- the same for a cubic edge (`cubic_bezier_segment` runs the same code on `Cubic.flip`) -/
theorem shared_cubic_edge_same_polyline (flat : Cubic K → List (Piece K)) (c : Cubic K) (hne : c.a ≠ c.b)
    (b1 b2 : Builder K) (h1 : b1.current = c.a) (h2 : b2.current = c.b) (id1 id2 : Nat) :
    ∃ segs : List (EdgeSeg K),
      segs = pieceSegs (if isAfter c.a c.b then -1 else 1) (flat (if isAfter c.a c.b then c.flip else c)) ∧
      edgeSegs (b1.curveSegment c.b id1 (flat c) (flat c.flip)).recs = segs ++ edgeSegs b1.recs ∧
      edgeSegs (b2.curveSegment c.flip.b id2 (flat c.flip) (flat c.flip.flip)).recs
        = segs.map negW ++ edgeSegs b2.recs := by
  have hff : c.flip.flip = c := rfl
  have hb : c.flip.b = c.a := rfl
  rw [hff, hb]
  have := curve_records_opposite b1 b2 c.a c.b hne h1 h2 id1 id2 (flat c) (flat c.flip)
  refine ⟨_, rfl, ?_, ?_⟩
  · convert this.1 using 3
    split_ifs <;> rfl
  · convert this.2 using 4
    split_ifs <;> rfl

/-- non-vacuity: an upward quadratic from (0,1) to (1,0) (so it IS swapped), a two-piece
flattener; both directions store the two segments of the downward polyline, windings −1 / +1 -/
example :
    let c : Quad ℚ := ⟨⟨0, 1⟩, ⟨1, 1⟩, ⟨1, 0⟩⟩
    c.a ≠ c.b ∧ isAfter c.a c.b = true := by
  refine ⟨?_, ?_⟩
  · intro h
    have := congrArg P.x h
    norm_num at this
  · simp [isAfter, geom]

end shared

end Lyon.C03b
