/-
  C02 (growth 3) — from area equality to POINT-SET TILING for the basic monotone tessellator, and the EXACT area
  sum (no overlap) for the advanced one.

  Model: `Model/Tess/Monotone.lean` (`Basic.run`, the function the correspondence check executes
  against `monotone.rs` through hook H2).  `Props/C02c.lean` proved the algebraic core (`n − 2`
  triangles, strictly positive orientation, signed areas adding up to the shoelace area).  Here the
  triangles are treated as point sets over an ordered field `K`:

  * `InsidePoly seq q` — `q` lies strictly inside the y-monotone polygon of the sweep sequence:
    strictly on the inner side of the edge of the LEFT chain that spans `q` in sweep order, and of
    the edge of the RIGHT chain that spans `q` (`leftChain`, `rightChain`: apex, the chain's middle
    vertices, bottom vertex — the two halves of the loop `polygonOf seq` of `Props/C02c.lean`, see
    `polygon_is_two_chains`).  The sweep order is the lexicographic `(y, x)` order of `is_after`,
    so horizontal edges and vertices of equal height need no special treatment.
  * `TriIn pos t q` — `q` strictly inside the emitted triangle `t` (in its emitted vertex order);
    `TriInC pos t q` — `q` in the closed triangle.

  On EVERY valid sweep sequence (`SweepValid`; no general-position hypothesis: three collinear chain
  vertices give a zero-area triangle, an empty open tile that changes nothing — `Lemmas/MonotoneTileFlat.lean`):
  * `basic_vertex_cuts_ears` — every `vertex` call (state-level statement, the `ear_step` of the
                               standard proof): the triangles it emits lie inside the REMAINING polygon of the
                               state before (stack + future chains), are pairwise disjoint and disjoint from the
                               remaining polygon of the state after, which is a sub-region; nothing else is lost;
  * `basic_triangles_inside`   — every point strictly inside an emitted triangle is strictly inside the polygon;
  * `basic_triangles_disjoint` — no point is strictly inside two emitted triangles;
  * `basic_triangles_cover`    — every point strictly inside the polygon is in a closed emitted triangle;
  * `basic_tiling`             — the three together with the count `n − 2` and distinct ids: the triangles of
                                 the basic monotone tessellator TILE the interior of the monotone piece;
  * `basic_tiling_nondegenerate` — in general position (`NoCollinear`) every tile moreover has interior points.
  Proof: the stack invariant `VInv` (`Lemmas/MonotoneGeomInv.lean`) + `SweepValid` at the edge of the
  opposite chain that spans the stack; a same-side step pops ears `(top, lastPopped, cur)` off the
  stack's chain, a change of side splits the remaining polygon along the diagonal `top → cur` and
  pops the whole stack as ears of the upper part (`Lemmas/MonotoneTile*.lean`).

  ADVANCED tessellator (the one the fill uses), valid sweep sequence, exact arithmetic — the half that
  `adv_tiling_partial` of `Props/C02c.lean` left open (no overlap):
  * `adv_area_le_of_chord_clear` — THE PRECISE CONDITION: if in every reached state every buffered
    chain of ≥ 3 ids is chord-clear (`ChordClear`: no vertex of the opposite chain fed between the
    chain's first and last vertex lies strictly beyond the chord first → last), then the inner basic
    tessellator never swaps a fan triangle and `Σ wind(Adv.run) ≤ shoelace`;
  * `adv_chord_clear_run` — `sides_are_close` + `reference_point` + `conservative_reference_x` (incl.
    the repair 9b7220fb, which is what makes `refPt.x` bound the restarted chain) DO guarantee it on
    every valid sweep sequence: whenever a vertex is buffered without a flush on a chain of ≥ 2 ids,
    `left.consRefX ≤ right.consRefX` is a vertical line between the chain and every opposite vertex
    fed since the chain's head (`Lemmas/MonotoneTileAdvSep.lean`, invariant `Z3`);
  * `adv_area_le`, `adv_area_sum` — `Σ wind(Adv.run seq) = shoelace(polygonOf seq)`;
  * `adv_tiling_core` — full-strength counterpart of `basic_tiling_core`: `n − 2` triangles on distinct
    fed vertices, strictly positively oriented, areas adding up EXACTLY to the polygon's area;
  * `adv_area_eq_basic` — the two tessellators' area sums agree.
  (A search with the compiled model at `Rat` on 24.7 million exact lattice `SweepValid` sequences with
  4 ≤ n ≤ 18, 6.5 million of them with `Adv.run ≠ Basic.run`, found no sequence with
  `Σ wind(Adv.run) ≠ shoelace` before this was proved.)

  What this does NOT cover: containment/disjointness of the ADVANCED tessellator's triangles as point
  sets (only its algebraic core, now complete); floats (exact arithmetic only).
-/
import LyonVerif.Lemmas.MonotoneTileRun
import LyonVerif.Lemmas.MonotoneTileAdvSepRun

set_option linter.unusedSectionVars false
set_option linter.unusedVariables false

namespace Lyon.C02f
open Lyon Lyon.Mono Lyon.C02 Lyon.C02c

section Geometry
variable {K : Type} [Field K] [LinearOrder K] [IsStrictOrderedRing K]

/-! ### the polygon as a point set -/

/-- the two chains of `InsidePoly` are the two halves of the boundary loop `polygonOf seq`, whose
shoelace area `basic_area_sum` equates with the triangles' area sum -/
theorem polygon_is_two_chains (seq : List (P K × Bool)) (h : 2 ≤ seq.length) :
    polygonOf seq = leftChain seq ++ ((rightChain seq).tail.dropLast).reverse :=
  polygonOf_chains seq h

/-- the chains written out: apex, the middle vertices flagged left (right), bottom vertex -/
theorem chains_written_out (p0 : P K) (b0 : Bool) (v1 : P K × Bool) (rest : List (P K × Bool)) :
    leftChain ((p0, b0) :: v1 :: rest) = p0 :: leftsOf ((v1 :: rest).take ((v1 :: rest).length - 1)) ++
        [(((v1 :: rest).getLast?.map (·.1)).getD p0)] ∧
    rightChain ((p0, b0) :: v1 :: rest) = p0 :: rightsOf ((v1 :: rest).take ((v1 :: rest).length - 1)) ++
        [(((v1 :: rest).getLast?.map (·.1)).getD p0)] :=
  ⟨leftChain_eq p0 b0 v1 rest, rightChain_eq p0 b0 v1 rest⟩

/-- a point strictly inside the polygon comes strictly after the apex and strictly before the
bottom vertex in sweep order -/
theorem inside_between_apex_and_bottom (seq : List (P K × Bool)) (h : 2 ≤ seq.length) (hval : SweepValid seq)
    (q : P K) (hq : InsidePoly seq q) :
    AfterEq q (posOf seq 0) ∧ After (posOf seq (seq.length - 1)) q := by
  have hs := fut_sorted seq true hval 0 1 (by omega) (by omega)
  refine ⟨chainIn_lower true _ _ q hs hq.1, ?_⟩
  refine chainIn_upper true (leftChain seq) q _ hs ?_ hq.1
  obtain ⟨f, rest, e, _, _, _, _, _, _⟩ := futIds_head seq true _ 1 (by omega) rfl
  match seq, h with
  | (p0, b0) :: v1 :: rest, _ =>
    rw [leftChain_eq]
    simp only [List.length_cons, Nat.add_sub_cancel, List.getLast?_append, List.getLast?_singleton,
      Option.some_or]
    congr 1
    simp only [posOf, List.getElem?_cons_succ]
    rw [List.getLast?_eq_getElem?]
    simp

/-- a strictly positively oriented triangle has interior points: its centroid -/
theorem triangle_has_interior (a b c : P K) (h : 0 < wind a b c) :
    InTri a b c ⟨(a.x + b.x + c.x) / 3, (a.y + b.y + c.y) / 3⟩ := by
  have e1 : wind a b ⟨(a.x + b.x + c.x) / 3, (a.y + b.y + c.y) / 3⟩ = wind a b c / 3 := by
    simp only [wind, geom]; ring
  have e2 : wind b c ⟨(a.x + b.x + c.x) / 3, (a.y + b.y + c.y) / 3⟩ = wind a b c / 3 := by
    simp only [wind, geom]; ring
  have e3 : wind c a ⟨(a.x + b.x + c.x) / 3, (a.y + b.y + c.y) / 3⟩ = wind a b c / 3 := by
    simp only [wind, geom]; ring
  refine ⟨?_, ?_, ?_⟩ <;> simp only [e1, e2, e3] <;> positivity

/-! ### one step: ears are cut off the remaining polygon -/

/-- **ear step**: in a state `s` reached on a valid sweep sequence after `k`
vertices (`VInv`), feeding the next vertex `cur` (a middle vertex with its side, or the bottom
vertex) emits triangles `nt` such that, with `R = region seq s k` the remaining polygon before
(stack, bottom first, followed by the future vertices of its chain; the stack's bottom entry
followed by the future vertices of the other chain) and `R'` the remaining polygon after:
every new triangle lies inside `R`; `R' ⊆ R`; no new triangle meets `R'`; the new triangles are
pairwise disjoint; every point of `R` is in `R'` or in a closed new triangle. -/
theorem basic_vertex_cuts_ears (seq : List (P K × Bool)) (hval : SweepValid seq)
    (s : Basic K) (k : Nat) (cur : MV K) (h : VInv seq s k) (hk : k < seq.length) (hid : cur.id = k)
    (hpos : cur.pos = posOf seq cur.id)
    (hsd : (k + 1 = seq.length ∧ cur.left = !s.previous.left) ∨ (k + 1 < seq.length ∧ sideAt seq k = cur.left)) :
    ∃ nt, (s.vertex cur).tris = s.tris ++ nt ∧
      (∀ t ∈ nt, ∀ q, TriIn (posOf seq) t q → region seq s k q) ∧
      (∀ q, region seq (s.vertex cur) (k + 1) q → region seq s k q) ∧
      (∀ t ∈ nt, ∀ q, TriIn (posOf seq) t q → ¬ region seq (s.vertex cur) (k + 1) q) ∧
      nt.Pairwise (fun t t' => ∀ q, ¬ (TriIn (posOf seq) t q ∧ TriIn (posOf seq) t' q)) ∧
      (∀ q, region seq s k q → region seq (s.vertex cur) (k + 1) q ∨ ∃ t ∈ nt, TriInC (posOf seq) t q) := by
  obtain ⟨nt, e, t⟩ := vertex_tiles seq hval s k cur h hk hid hpos hsd
  exact ⟨nt, e, t.inside, t.sub, t.apart, t.disj, t.cover⟩

/-- the remaining polygon of the initial state is the whole polygon -/
theorem region_begin (p0 : P K) (b0 : Bool) (rest : List (P K × Bool)) :
    region ((p0, b0) :: rest) (Basic.begin p0 0) 1 = InsidePoly ((p0, b0) :: rest) := by
  unfold region InsidePoly leftChain rightChain
  simp [Basic.begin, C02c.botPos, posOf]

/-! ### the run -/

/-- **(a) every emitted triangle lies inside the monotone polygon**: on a valid sweep sequence
every point strictly inside a triangle of `Basic.run` is strictly inside the polygon. -/
theorem basic_triangles_inside (seq : List (P K × Bool)) (h : 2 ≤ seq.length) (hval : SweepValid seq) :
    ∀ t ∈ Basic.run seq, ∀ q, TriIn (posOf seq) t q → InsidePoly seq q :=
  (run_tiles seq h hval).inside

/-- **(b) the emitted triangles are pairwise interior-disjoint**: no point is strictly inside two
different triangles (two different positions of the output list) of `Basic.run`. -/
theorem basic_triangles_disjoint (seq : List (P K × Bool)) (h : 2 ≤ seq.length) (hval : SweepValid seq) :
    (Basic.run seq).Pairwise (fun t t' => ∀ q, ¬ (TriIn (posOf seq) t q ∧ TriIn (posOf seq) t' q)) :=
  (run_tiles seq h hval).disj

/-- **(c) nothing is left out**: every point strictly inside the polygon lies in a closed emitted
triangle. -/
theorem basic_triangles_cover (seq : List (P K × Bool)) (h : 2 ≤ seq.length) (hval : SweepValid seq) :
    ∀ q, InsidePoly seq q → ∃ t ∈ Basic.run seq, TriInC (posOf seq) t q := by
  intro q hq
  rcases (run_tiles seq h hval).cover q hq with g | g
  · exact absurd g id
  · exact g

/-- **the basic monotone tessellator tiles the monotone piece** (C02, second sentence, for
`BasicMonotoneTessellator` in exact arithmetic): a valid sweep sequence with `n` boundary vertices
is cut into exactly `n − 2` triangles, each on three distinct fed vertices, each lying inside the
polygon, pairwise interior-disjoint, and together covering the polygon's interior. -/
theorem basic_tiling (seq : List (P K × Bool)) (h : 2 ≤ seq.length) (hval : SweepValid seq) :
    (Basic.run seq).length = seq.length - 2 ∧
    (∀ t ∈ Basic.run seq, TriDistinct t ∧ ∀ q, TriIn (posOf seq) t q → InsidePoly seq q) ∧
    (Basic.run seq).Pairwise (fun t t' => ∀ q, ¬ (TriIn (posOf seq) t q ∧ TriIn (posOf seq) t' q)) ∧
    ∀ q, InsidePoly seq q → ∃ t ∈ Basic.run seq, TriInC (posOf seq) t q :=
  ⟨run_count seq h,
   fun t ht => ⟨run_ids_distinct seq t ht, basic_triangles_inside seq h hval t ht⟩,
   basic_triangles_disjoint seq h hval,
   basic_triangles_cover seq h hval⟩

/-- in general position every tile is moreover non-degenerate: it contains its centroid strictly -/
theorem basic_tiling_nondegenerate (seq : List (P K × Bool)) (hnc : NoCollinear seq) :
    ∀ t ∈ Basic.run seq, ∃ q, TriIn (posOf seq) t q :=
  fun t ht => ⟨_, triangle_has_interior _ _ _ (run_strict seq hnc t ht)⟩

/-- consequently the polygon's interior is non-empty as soon as there is a triangle (`n ≥ 3`) -/
theorem inside_nonempty (seq : List (P K × Bool)) (h : 3 ≤ seq.length) (hval : SweepValid seq)
    (hnc : NoCollinear seq) : ∃ q, InsidePoly seq q := by
  obtain ⟨hc, hi, _, _⟩ := basic_tiling seq (by omega) hval
  have hne : Basic.run seq ≠ [] := by
    intro e; rw [e] at hc; simp at hc; omega
  obtain ⟨t, ht⟩ := List.exists_mem_of_ne_nil _ hne
  obtain ⟨q, hq⟩ := basic_tiling_nondegenerate seq hnc t ht
  exact ⟨q, (hi t ht).2 q hq⟩

/-! ### the advanced tessellator: no overlap -/

/-- **the precise condition for `flush_side`'s fans**: on a valid sweep sequence on which every
buffered chain of every reached state is chord-clear (`ChordClearRun`), the advanced tessellator's
area sum does not exceed the polygon's area: every forward to the inner basic tessellator is
flip-free (`Lemmas/MonotoneTileAdvFwd.lean`: `fwd_tinv`), so the potential of `adv_area_ge` is constant. -/
theorem adv_area_le_of_chord_clear (seq : List (P K × Bool)) (h : 2 ≤ seq.length) (hval : SweepValid seq)
    (hcc : ChordClearRun seq) : sumW (posOf seq) (Adv.run seq) ≤ shoelaceW (polygonOf seq) :=
  adv_run_area_le seq h hval hcc

/-- **lyon's heuristics guarantee the condition**: on EVERY valid sweep sequence, in every state
reached while the middle vertices are fed, both buffered chains are chord-clear. -/
theorem adv_chord_clear_run (seq : List (P K × Bool)) (hval : SweepValid seq) : ChordClearRun seq :=
  adv_chord_clear seq hval

/-- what `ChordClearRun` says, written out for the state after `i` middle vertices -/
theorem chord_clear_written_out (seq : List (P K × Bool)) (hval : SweepValid seq) (i : Nat) (l : Bool)
    (s : SideEv K)
    (hs : s = (if l then (afeed (Adv.begin Adv.new (posOf seq 0) 0) 1 ((midsOf seq).take i)).left
               else (afeed (Adv.begin Adv.new (posOf seq 0) 0) 1 ((midsOf seq).take i)).right))
    (h3 : 3 ≤ s.events.length) (j : Nat) (hj1 : s.events.headD 0 < j) (hj2 : j < s.last.id)
    (hjs : sideAt seq j = !l) :
    0 ≤ sg (!l) * wind (posOf seq (s.events.headD 0)) (posOf seq j) s.last.pos := by
  have := adv_chord_clear seq hval i
  cases l
  · simp only [Bool.false_eq_true, if_false] at hs
    rw [hs] at h3 hj1 hj2 ⊢
    exact this.2 h3 j hj1 hj2 hjs
  · simp only [if_true] at hs
    rw [hs] at h3 hj1 hj2 ⊢
    exact this.1 h3 j hj1 hj2 hjs

/-- **area, advanced tessellator, upper bound** (the missing half of `adv_tiling_partial`) -/
theorem adv_area_le (seq : List (P K × Bool)) (h : 2 ≤ seq.length) (hval : SweepValid seq) :
    sumW (posOf seq) (Adv.run seq) ≤ shoelaceW (polygonOf seq) :=
  adv_run_area_le seq h hval (adv_chord_clear seq hval)

/-- **area, advanced tessellator, valid sweep sequence**: the emitted triangles' `wind`s add up
EXACTLY to the polygon's shoelace area -/
theorem adv_area_sum (seq : List (P K × Bool)) (h : 2 ≤ seq.length) (hval : SweepValid seq) :
    sumW (posOf seq) (Adv.run seq) = shoelaceW (polygonOf seq) :=
  adv_run_area_eq seq h hval

/-- the advanced and the basic tessellator produce the same total area -/
theorem adv_area_eq_basic (seq : List (P K × Bool)) (h : 2 ≤ seq.length) (hval : SweepValid seq) :
    sumW (posOf seq) (Adv.run seq) = sumW (posOf seq) (Basic.run seq) := by
  rw [adv_run_area_eq seq h hval, (run_area seq h).2 hval]

/-- **algebraic core of "tile the interior" for the ADVANCED monotone tessellator**, full strength:
a valid sweep sequence in general position with `n` vertices is cut into exactly `n − 2` triangles,
each on three distinct fed vertices, each strictly positively oriented, whose areas add up EXACTLY
to the polygon's area (no overlap in the area sense: `adv_tiling_partial` had `≥` only). -/
theorem adv_tiling_core (seq : List (P K × Bool)) (h : 2 ≤ seq.length) (hval : SweepValid seq)
    (hc : NoCollinear seq) :
    (Adv.run seq).length = seq.length - 2 ∧
    (∀ t ∈ Adv.run seq, TriDistinct t ∧ t.1 < seq.length ∧ t.2.1 < seq.length ∧ t.2.2 < seq.length ∧
      0 < triW (posOf seq) t) ∧
    sumW (posOf seq) (Adv.run seq) = shoelaceW (polygonOf seq) := by
  refine ⟨(run_spec seq).1 h, fun t ht => ⟨(run_spec seq).2 t ht, (run_ids_lt seq t ht).1,
    (run_ids_lt seq t ht).2.1, (run_ids_lt seq t ht).2.2, ?_⟩, adv_run_area_eq seq h hval⟩
  have h1 := adv_run_nonneg seq hval.1 t ht
  have h2 := (run_spec seq).2 t ht
  have h3 := run_ids_lt seq t ht
  have h4 := hc t.1 h3.1 t.2.1 h3.2.1 t.2.2 h3.2.2 h2.1 h2.2.1 h2.2.2
  exact lt_of_le_of_ne h1 (Ne.symm h4)

end Geometry

/-! ### non-vacuity over ℚ -/

section Examples

noncomputable instance (a b : P ℚ) : Decidable (a = b) :=
  decidable_of_iff (a.x = b.x ∧ a.y = b.y) ⟨fun h => P.ext' h.1 h.2, fun h => by rw [h]; exact ⟨rfl, rfl⟩⟩
noncomputable instance (q a : P ℚ) : Decidable (AfterEq q a) := by unfold AfterEq; infer_instance
noncomputable instance (a b q : P ℚ) : Decidable (Span a b q) := by unfold Span; infer_instance
noncomputable def decChainIn (c : Bool) : (l : List (P ℚ)) → (q : P ℚ) → Decidable (ChainIn c l q)
  | [], _ => isFalse id
  | [_], _ => isFalse id
  | a :: b :: r, q => by
    have := decChainIn c (b :: r) q
    unfold ChainIn; infer_instance
noncomputable instance (c : Bool) (l : List (P ℚ)) (q : P ℚ) : Decidable (ChainIn c l q) := decChainIn c l q
noncomputable instance (c : Bool) (C O : List (P ℚ)) (q : P ℚ) : Decidable (InPoly c C O q) := by
  unfold InPoly; infer_instance
noncomputable instance (seq : List (P ℚ × Bool)) (q : P ℚ) : Decidable (InsidePoly seq q) := by
  unfold InsidePoly; infer_instance
noncomputable instance (a b c q : P ℚ) : Decidable (InTri a b c q) := by unfold InTri; infer_instance
noncomputable instance (a b c q : P ℚ) : Decidable (InTriC a b c q) := by unfold InTriC; infer_instance
noncomputable instance (pos : Nat → P ℚ) (t : Tri) (q : P ℚ) : Decidable (TriIn pos t q) := by
  unfold TriIn; infer_instance
noncomputable instance (pos : Nat → P ℚ) (t : Tri) (q : P ℚ) : Decidable (TriInC pos t q) := by
  unfold TriInC; infer_instance

/-- a 6-vertex strictly y-monotone polygon, chains interleaved L R L R (`exSeq` of `Props/C02c.lean`) -/
def exA : List (P ℚ × Bool) :=
  [(⟨0, 0⟩, true), (⟨-2, 1⟩, true), (⟨2, 2⟩, false), (⟨-1, 3⟩, true), (⟨3, 4⟩, false), (⟨0, 6⟩, true)]

/-- a 7-vertex one with a reflex left chain (`exSeq2` of `Props/C02c.lean`) -/
def exB : List (P ℚ × Bool) :=
  [(⟨0, 0⟩, true), (⟨-2, 1⟩, true), (⟨-1, 2⟩, true), (⟨-3, 3⟩, true), (⟨2, 4⟩, false), (⟨3, 5⟩, false),
   (⟨0, 6⟩, true)]

/-- the hypotheses of all theorems above hold for the two example polygons of `Props/C02c.lean`
(6 vertices, chains interleaved L R L R; 7 vertices with a reflex left chain) … -/
example : 2 ≤ exA.length ∧ SweepValid exA ∧ NoCollinear exA := by decide +kernel
example : 3 ≤ exB.length ∧ SweepValid exB ∧ NoCollinear exB := by decide +kernel

/-- … their chains … -/
example : leftChain exA = [⟨0, 0⟩, ⟨-2, 1⟩, ⟨-1, 3⟩, ⟨0, 6⟩] ∧
    rightChain exA = [⟨0, 0⟩, ⟨2, 2⟩, ⟨3, 4⟩, ⟨0, 6⟩] := by
  constructor <;> rfl

/-- … `InsidePoly` says what it should: `(0, 3)` is inside, `(−2, 3)` (left of the left chain),
`(3, 2)` (right of the right chain), the vertex `(−2, 1)`, the boundary point `(1, 1)` of the edge
`(0,0) → (2,2)` and `(0, 7)` (below the bottom vertex) are not … -/
example : InsidePoly exA ⟨0, 3⟩ ∧ ¬ InsidePoly exA ⟨-2, 3⟩ ∧ ¬ InsidePoly exA ⟨3, 2⟩ ∧
    ¬ InsidePoly exA ⟨-2, 1⟩ ∧ ¬ InsidePoly exA ⟨1, 1⟩ ∧ ¬ InsidePoly exA ⟨0, 7⟩ := by
  decide +kernel

/-- … and `(0, 3)` is strictly inside exactly one emitted triangle, `(2, 3, 4)`. -/
example : Basic.run exA = [(0, 1, 2), (2, 1, 3), (2, 3, 4), (4, 3, 5)] ∧
    ¬ TriIn (posOf exA) (0, 1, 2) ⟨0, 3⟩ ∧ ¬ TriIn (posOf exA) (2, 1, 3) ⟨0, 3⟩ ∧
    TriIn (posOf exA) (2, 3, 4) ⟨0, 3⟩ ∧ ¬ TriIn (posOf exA) (4, 3, 5) ⟨0, 3⟩ := by
  decide +kernel

/-- a point on the internal diagonal `1 → 2` of that triangulation: strictly inside the polygon,
strictly inside NO triangle, in two closed ones (`basic_triangles_cover` needs closed tiles) -/
example : InsidePoly exA ⟨0, 3/2⟩ ∧ (∀ t ∈ Basic.run exA, ¬ TriIn (posOf exA) t ⟨0, 3/2⟩) ∧
    TriInC (posOf exA) (0, 1, 2) ⟨0, 3/2⟩ ∧ TriInC (posOf exA) (2, 1, 3) ⟨0, 3/2⟩ ∧
    ¬ TriInC (posOf exA) (2, 3, 4) ⟨0, 3/2⟩ ∧ ¬ TriInC (posOf exA) (4, 3, 5) ⟨0, 3/2⟩ := by
  decide +kernel

/-- non-vacuity of `basic_vertex_cuts_ears`: the state of `exSeq` before its fourth vertex
(index 3, left; stack `[2, 1]` on the right chain): `VInv` holds and the vertex changes side -/
example : ∃ nt, ((((Basic.begin (⟨0, 0⟩ : P ℚ) 0).vertex ⟨⟨-2, 1⟩, 1, true⟩).vertex ⟨⟨2, 2⟩, 2, false⟩).vertex
      ⟨⟨-1, 3⟩, 3, true⟩).tris =
    (((Basic.begin (⟨0, 0⟩ : P ℚ) 0).vertex ⟨⟨-2, 1⟩, 1, true⟩).vertex ⟨⟨2, 2⟩, 2, false⟩).tris ++ nt :=
  (basic_vertex_cuts_ears exA (by decide +kernel)
    ((Basic.begin (⟨0, 0⟩ : P ℚ) 0 |>.vertex ⟨⟨-2, 1⟩, 1, true⟩).vertex ⟨⟨2, 2⟩, 2, false⟩) 3 ⟨⟨-1, 3⟩, 3, true⟩
    (vertex_vInv exA _ 2 _ (vertex_vInv exA _ 1 _ (begin_vInv exA _ rfl) rfl rfl rfl) rfl rfl rfl)
    (by decide) rfl rfl (Or.inr ⟨by decide, rfl⟩)).imp (fun _ h => h.1)

/-- non-vacuity of `triangle_has_interior` -/
example : 0 < wind (⟨0, 0⟩ : P ℚ) ⟨-2, 1⟩ ⟨2, 2⟩ := by decide +kernel

/-- a valid sequence with three collinear left-chain vertices (`exCol` of `Props/C02c.lean`): the
point-set theorems apply (no general-position hypothesis); the zero-area triangles `(0, 1, 2)`,
`(0, 2, 3)` are empty open tiles, the point `(-1, 2)` is strictly inside `(0, 3, 4)` only -/
def exD : List (P ℚ × Bool) :=
  [(⟨0, 0⟩, true), (⟨-1, 1⟩, true), (⟨-2, 2⟩, true), (⟨-3, 3⟩, true), (⟨0, 4⟩, false)]

example : SweepValid exD ∧ ¬ NoCollinear exD ∧ Basic.run exD = [(0, 1, 2), (0, 2, 3), (0, 3, 4)] ∧
    InsidePoly exD ⟨-1, 2⟩ ∧ ¬ TriIn (posOf exD) (0, 1, 2) ⟨-1, 2⟩ ∧ ¬ TriIn (posOf exD) (0, 2, 3) ⟨-1, 2⟩ ∧
    TriIn (posOf exD) (0, 3, 4) ⟨-1, 2⟩ := by
  decide +kernel

/-- a polygon on which the advanced tessellator really buffers: its left chain `1, 3, 5` is kept as
one chain of three ids (the state after the five middle vertices), with the right vertices `2, 4`
in between — `SweepValid`, general position … -/
def exC : List (P ℚ × Bool) :=
  [(⟨0, 0⟩, true), (⟨-10, 1⟩, true), (⟨10, 2⟩, false), (⟨-12, 3⟩, true), (⟨11, 4⟩, false), (⟨-13, 5⟩, true),
   (⟨0, 7⟩, true)]

example : 2 ≤ exC.length ∧ SweepValid exC ∧ NoCollinear exC := by decide +kernel

/-- … the buffered chain (non-vacuity of `ChordClear`'s premise `3 ≤ events.length`, hence of
`adv_chord_clear_run` / `chord_clear_written_out`), flushed by `end` into the fan triangle `(1, 3, 5)`,
which the basic tessellator does not produce … -/
example : (afeed (Adv.begin Adv.new (posOf exC 0) 0) 1 ((midsOf exC).take 5)).left.events = [1, 3, 5] ∧
    (1, 3, 5) ∈ Adv.run exC ∧ (1, 3, 5) ∉ Basic.run exC := by
  decide +kernel

/-- … non-vacuity of `chord_clear_written_out`: that chain (head 1, last 5) and the right vertex 2 -/
example : 0 ≤ sg (!true) * wind
    (posOf exC ((afeed (Adv.begin Adv.new (posOf exC 0) 0) 1 ((midsOf exC).take 5)).left.events.headD 0))
    (posOf exC 2) (afeed (Adv.begin Adv.new (posOf exC 0) 0) 1 ((midsOf exC).take 5)).left.last.pos :=
  chord_clear_written_out exC (by decide +kernel) 5 true
    (afeed (Adv.begin Adv.new (posOf exC 0) 0) 1 ((midsOf exC).take 5)).left rfl (by decide +kernel) 2
    (by decide +kernel) (by decide +kernel) (by decide +kernel)

/-- … and the two area sums are the polygon's area (`adv_area_sum`, `adv_area_eq_basic`) -/
example : sumW (posOf exC) (Adv.run exC) = shoelaceW (polygonOf exC) ∧
    sumW (posOf exC) (Adv.run exC) = sumW (posOf exC) (Basic.run exC) ∧ 0 < shoelaceW (polygonOf exC) :=
  ⟨adv_area_sum exC (by decide) (by decide +kernel), adv_area_eq_basic exC (by decide) (by decide +kernel),
   by decide +kernel⟩

end Examples

end Lyon.C02f
