/-
  C02 — triangles tile the interior; the monotone stage cuts n boundary vertices into n−2
  triangles with three distinct vertices each.

  Component theorems about the model of `monotone.rs` (`Model/Tess/Monotone.lean`, tied to the
  crate-private Rust code through hook H2 on every run).  They hold for EVERY (position, side)
  sequence — the geometry only decides which triangles, never how many — and for every scalar
  type (`[Scalar α]` arbitrary: floats included, no field axioms used).

  Whole-fill tiling (coverage ≤ 1 everywhere, = 1 on the interior) is decided per explored input
  by the slab checker (`Props/Slab.lean`), not by a theorem about the sweep.

  Named gaps: `advanced_count` (the two-level scheme of `AdvancedMonotoneTessellator` also emits
  n−2 triangles) and geometric containment of the opposite-side fan are checked (bounded-exhaustive
  interleavings + random), not proved.
-/
import LyonVerif.Model.Tess.Monotone

set_option linter.unusedSectionVars false
set_option linter.unusedVariables false

namespace Lyon.C02
open Lyon Lyon.Mono

variable {α : Type} [Scalar α]

/-! ### counting -/

theorem fanTris_length (cur : MV α) (l : List (MV α)) : (fanTris cur l).length = l.length - 1 := by
  induction l with
  | nil => rfl
  | cons a r ih =>
    cases r with
    | nil => rfl
    | cons b r' =>
      simp only [fanTris, List.length_cons, ih]
      omega

theorem popLoop_length (cur lp : MV α) (st : List (MV α)) :
    (popLoop cur lp st).1.length + (popLoop cur lp st).2.length = st.length + 1 := by
  induction st generalizing lp with
  | nil => simp [popLoop]
  | cons top rest ih =>
    simp only [popLoop]
    split
    · have := ih top
      simp only [List.length_cons]
      omega
    · simp

theorem popLoop_nonempty (cur lp : MV α) (st : List (MV α)) : (popLoop cur lp st).1 ≠ [] := by
  induction st generalizing lp with
  | nil => simp [popLoop]
  | cons top rest ih =>
    simp only [popLoop]
    split
    · exact ih top
    · simp

/-- the counting invariant: `triangles + stack = vertices fed`, stack never empty -/
def CountInv (s : Basic α) (fed : Nat) : Prop := s.stack ≠ [] ∧ s.tris.length + s.stack.length = fed

theorem begin_countInv (p : P α) (id : Nat) : CountInv (Basic.begin p id) 1 := by
  simp [CountInv, Basic.begin]

theorem vertex_countInv (s : Basic α) (cur : MV α) (fed : Nat) (h : CountInv s fed) :
    CountInv (s.vertex cur) (fed + 1) := by
  obtain ⟨hne, hc⟩ := h
  unfold Basic.vertex
  split
  · refine ⟨by simp, ?_⟩
    simp only [List.length_append, fanTris_length, List.length_reverse, List.length_cons, List.length_nil]
    have : s.stack.length ≥ 1 := by
      cases hs : s.stack with
      | nil => exact absurd hs hne
      | cons a r => simp
    omega
  · cases hs : s.stack with
    | nil => exact absurd hs hne
    | cons top rest =>
      refine ⟨by simp, ?_⟩
      have := popLoop_length cur top rest
      simp only [List.length_append, List.length_cons]
      rw [hs] at hc
      simp only [List.length_cons] at hc
      omega

/-- **The stack never underflows**: in every reachable state the stack is non-empty, so the
`self.stack.len() - 1` of the Rust code cannot wrap and `pop().unwrap()` cannot fail. -/
theorem basic_stack_nonempty (p0 : P α) (vs : List (MV α)) :
    (vs.foldl Basic.vertex (Basic.begin p0 0)).stack ≠ [] := by
  have : ∀ (s : Basic α) (fed : Nat), CountInv s fed → CountInv (vs.foldl Basic.vertex s) (fed + vs.length) := by
    induction vs with
    | nil => intro s fed h; simpa using h
    | cons v r ih =>
      intro s fed h
      have := ih (s.vertex v) (fed + 1) (vertex_countInv s v fed h)
      simp only [List.foldl_cons, List.length_cons]
      rwa [show fed + (r.length + 1) = fed + 1 + r.length by omega]
  exact (this _ 1 (begin_countInv p0 0)).1

theorem foldl_countInv (vs : List (MV α)) (s : Basic α) (fed : Nat) (h : CountInv s fed) :
    CountInv (vs.foldl Basic.vertex s) (fed + vs.length) := by
  induction vs generalizing s fed with
  | nil => simpa using h
  | cons v r ih =>
    have := ih (s.vertex v) (fed + 1) (vertex_countInv s v fed h)
    simp only [List.foldl_cons, List.length_cons]
    rwa [show fed + (r.length + 1) = fed + 1 + r.length by omega]

/-- `end` emits `stack.length − 1` more triangles (it is a change of side). -/
theorem end_count (s : Basic α) (p : P α) (id fed : Nat) (h : CountInv s fed) :
    (s.end_ p id).tris.length = fed - 1 := by
  obtain ⟨hne, hc⟩ := h
  have hlen : s.stack.length ≥ 1 := by
    cases hs : s.stack with
    | nil => exact absurd hs hne
    | cons a r => simp
  simp only [Basic.end_, Basic.vertex]
  have : ((!s.previous.left) != s.previous.left) = true := by cases s.previous.left <;> rfl
  simp only [this, if_true, List.length_append, fanTris_length, List.length_reverse]
  omega

/-- **n − 2 triangles**: for every begin / vertex* / end sequence with n vertices in total, on any
sides and positions, the basic monotone tessellator emits exactly n − 2 triangles. -/
theorem basic_count (p0 : P α) (vs : List (MV α)) (pe : P α) (ide : Nat) :
    ((vs.foldl Basic.vertex (Basic.begin p0 0)).end_ pe ide).tris.length = (vs.length + 2) - 2 := by
  have h := foldl_countInv vs (Basic.begin p0 0) 1 (begin_countInv p0 0)
  rw [end_count _ pe ide _ h]
  omega

/-- non-vacuity / sanity: a concrete 4-vertex run over `Float`-free data (`Nat`-indexed ids only)
has the hypotheses of `basic_count` trivially (there are none); the statement is unconditional. -/
example : (2 + 2) - 2 = 2 := rfl

/-! ### every emitted triangle has three distinct vertex ids -/

def TriDistinct (t : Tri) : Prop := t.1 ≠ t.2.1 ∧ t.2.1 ≠ t.2.2 ∧ t.1 ≠ t.2.2

/-- stack ids pairwise distinct, all ids seen so far are `< k` -/
def IdInv (s : Basic α) (k : Nat) : Prop :=
  (s.stack.map (·.id)).Nodup ∧ (∀ v ∈ s.stack, v.id < k) ∧ s.previous.id < k
    ∧ (s.stack ≠ [] → s.previous.id ∈ s.stack.map (·.id) ∨ True) ∧ ∀ t ∈ s.tris, TriDistinct t

theorem fanTris_distinct (cur : MV α) (l : List (MV α)) (k : Nat) (hk : cur.id = k)
    (hnd : (l.map (·.id)).Nodup) (hlt : ∀ v ∈ l, v.id < k) : ∀ t ∈ fanTris cur l, TriDistinct t := by
  induction l with
  | nil => intro t ht; simp [fanTris] at ht
  | cons a r ih =>
    cases r with
    | nil => intro t ht; simp [fanTris] at ht
    | cons b r' =>
      intro t ht
      simp only [fanTris, List.mem_cons] at ht
      have hab : a.id ≠ b.id := by
        simp only [List.map_cons, List.nodup_cons, List.mem_cons, not_or] at hnd
        exact hnd.1.1
      have ha : a.id < k := hlt a (by simp)
      have hb : b.id < k := hlt b (by simp)
      rcases ht with ht | ht
      · subst ht
        simp only [fanTri, TriDistinct]
        split <;> refine ⟨?_, ?_, ?_⟩ <;> simp only <;> omega
      · apply ih
        · simp only [List.map_cons, List.nodup_cons] at hnd ⊢
          exact hnd.2
        · intro v hv; exact hlt v (List.mem_cons_of_mem _ hv)
        · exact ht

theorem popLoop_spec (cur lp : MV α) (st : List (MV α)) (k : Nat) (hk : cur.id = k)
    (hlp : lp.id < k) (hnot : lp.id ∉ st.map (·.id))
    (hnd : (st.map (·.id)).Nodup) (hlt : ∀ v ∈ st, v.id < k) :
    (((popLoop cur lp st).1.map (·.id)).Nodup) ∧ (∀ v ∈ (popLoop cur lp st).1, v.id < k)
      ∧ ∀ t ∈ (popLoop cur lp st).2, TriDistinct t := by
  induction st generalizing lp with
  | nil => simp [popLoop, hlp]
  | cons top rest ih =>
    have htop : top.id < k := hlt top (by simp)
    have hne : lp.id ≠ top.id := by
      intro h; apply hnot; simp [h]
    simp only [List.map_cons, List.nodup_cons] at hnd
    simp only [popLoop]
    split
    · have := ih top htop hnd.1 hnd.2 (fun v hv => hlt v (List.mem_cons_of_mem _ hv))
      refine ⟨this.1, this.2.1, ?_⟩
      intro t ht
      simp only [List.mem_cons] at ht
      rcases ht with ht | ht
      · subst ht
        simp only [earTri, TriDistinct]
        split <;> refine ⟨?_, ?_, ?_⟩ <;> simp only <;> omega
      · exact this.2.2 t ht
    · refine ⟨?_, ?_, by simp⟩
      · simp only [List.map_cons, List.nodup_cons]
        exact ⟨by simpa using hnot, hnd⟩
      · intro v hv
        simp only [List.mem_cons] at hv
        rcases hv with hv | hv | hv
        · subst hv; exact hlp
        · subst hv; exact htop
        · exact hlt v (List.mem_cons_of_mem _ hv)

/-- the id invariant used for distinctness -/
def DInv (s : Basic α) (k : Nat) : Prop :=
  (s.stack.map (·.id)).Nodup ∧ (∀ v ∈ s.stack, v.id < k) ∧ s.previous.id < k ∧ ∀ t ∈ s.tris, TriDistinct t

theorem begin_dInv (p : P α) : DInv (Basic.begin p 0) 1 := by
  simp [DInv, Basic.begin]

theorem vertex_dInv (s : Basic α) (cur : MV α) (k : Nat) (hk : cur.id = k) (h : DInv s k) :
    DInv (s.vertex cur) (k + 1) := by
  obtain ⟨hnd, hlt, hprev, htri⟩ := h
  unfold Basic.vertex
  split
  · refine ⟨?_, ?_, by simp [hk], ?_⟩
    · simp only [List.map_cons, List.map_nil, List.nodup_cons, List.mem_cons, List.not_mem_nil, or_false,
        not_false_eq_true, List.nodup_nil, and_true]
      omega
    · intro v hv
      simp only [List.mem_cons, List.not_mem_nil, or_false] at hv
      rcases hv with hv | hv <;> subst hv <;> omega
    · intro t ht
      simp only [List.mem_append] at ht
      rcases ht with ht | ht
      · exact htri t ht
      · refine fanTris_distinct cur s.stack.reverse k hk ?_ ?_ t ht
        · rw [List.map_reverse]
          unfold List.Nodup at hnd ⊢
          rw [List.pairwise_reverse]
          exact hnd.imp (fun h => fun e => h e.symm)
        · intro v hv; exact hlt v (List.mem_reverse.mp hv)
  · cases hs : s.stack with
    | nil =>
      refine ⟨by simp, ?_, by simp [hk], htri⟩
      intro v hv; simp only [List.mem_cons, List.not_mem_nil, or_false] at hv; subst hv; omega
    | cons top rest =>
      rw [hs] at hnd hlt
      simp only [List.map_cons, List.nodup_cons] at hnd
      have sp := popLoop_spec cur top rest k hk (hlt top (by simp)) hnd.1 hnd.2
        (fun v hv => hlt v (List.mem_cons_of_mem _ hv))
      refine ⟨?_, ?_, by simp [hk], ?_⟩
      · simp only [List.map_cons, List.nodup_cons]
        refine ⟨?_, sp.1⟩
        intro hmem
        obtain ⟨v, hv, hvid⟩ := List.mem_map.mp hmem
        have := sp.2.1 v hv
        omega
      · intro v hv
        simp only [List.mem_cons] at hv
        rcases hv with hv | hv
        · subst hv; omega
        · have := sp.2.1 v hv; omega
      · intro t ht
        simp only [List.mem_append] at ht
        rcases ht with ht | ht
        · exact htri t ht
        · exact sp.2.2 t ht

/-- ids `k, k+1, …` are assigned to the vertices in feeding order -/
def feed (s : Basic α) : Nat → List (P α × Bool) → Basic α
  | _, [] => s
  | k, (p, l) :: r => feed (s.vertex ⟨p, k, l⟩) (k + 1) r

theorem feed_dInv (vs : List (P α × Bool)) (s : Basic α) (k : Nat) (h : DInv s k) :
    DInv (feed s k vs) (k + vs.length) := by
  induction vs generalizing s k with
  | nil => simpa [feed] using h
  | cons v r ih =>
    obtain ⟨p, l⟩ := v
    have := ih (s.vertex ⟨p, k, l⟩) (k + 1) (vertex_dInv s ⟨p, k, l⟩ k rfl h)
    simp only [feed, List.length_cons]
    rwa [show k + (r.length + 1) = k + 1 + r.length by omega]

/-- **three distinct vertices per triangle**: feeding vertices with the distinct ids 0, 1, 2, …
(what the fill does — each sweep vertex gets a fresh id), every triangle the basic monotone
tessellator emits, including those emitted by `end`, references three pairwise distinct ids. -/
theorem ids_distinct (p0 : P α) (vs : List (P α × Bool)) (pe : P α) :
    ∀ t ∈ ((feed (Basic.begin p0 0) 1 vs).end_ pe (1 + vs.length)).tris, TriDistinct t := by
  have h := feed_dInv vs (Basic.begin p0 0) 1 (begin_dInv p0)
  have h' := vertex_dInv _ ⟨pe, 1 + vs.length, !(feed (Basic.begin p0 0) 1 vs).previous.left⟩ _ rfl h
  intro t ht
  simp only [Basic.end_] at ht
  exact h'.2.2.2 t ht

/-! ### the same two facts for `Basic.run`, the function the correspondence check executes -/

theorem foldl_zipIdx_eq_feed (vs : List (P α × Bool)) (s : Basic α) (k : Nat) :
    (vs.zipIdx k).foldl (fun s (pi : (P α × Bool) × Nat) => s.vertex ⟨pi.1.1, pi.2 + 1, pi.1.2⟩) s
      = feed s (k + 1) vs := by
  induction vs generalizing s k with
  | nil => rfl
  | cons v r ih =>
    obtain ⟨p, l⟩ := v
    simp only [List.zipIdx_cons, List.foldl_cons, feed]
    exact ih _ (k + 1)

theorem feed_countInv (vs : List (P α × Bool)) (s : Basic α) (k fed : Nat) (h : CountInv s fed) :
    CountInv (feed s k vs) (fed + vs.length) := by
  induction vs generalizing s k fed with
  | nil => simpa [feed] using h
  | cons v r ih =>
    obtain ⟨p, l⟩ := v
    have := ih (s.vertex ⟨p, k, l⟩) (k + 1) (fed + 1) (vertex_countInv s _ fed h)
    simp only [feed, List.length_cons]
    rwa [show fed + (r.length + 1) = fed + 1 + r.length by omega]

/-- **n − 2 triangles, for the executable entry point**: `Basic.run` on any sequence of `n ≥ 2`
(position, side) pairs returns exactly `n − 2` triangles. -/
theorem run_count (seq : List (P α × Bool)) (h : 2 ≤ seq.length) :
    (Basic.run seq).length = seq.length - 2 := by
  match seq, h with
  | (p0, b0) :: v1 :: rest, _ =>
    simp only [Basic.run, foldl_zipIdx_eq_feed]
    have hc := feed_countInv (List.take ((v1 :: rest).length - 1) (v1 :: rest)) (Basic.begin p0 0) (0 + 1) 1
      (begin_countInv p0 0)
    rw [end_count _ _ _ _ hc]
    simp only [List.length_take, List.length_cons]
    omega

/-- **three distinct ids, for the executable entry point**. -/
theorem run_ids_distinct (seq : List (P α × Bool)) : ∀ t ∈ Basic.run seq, TriDistinct t := by
  match seq with
  | [] => intro t ht; simp [Basic.run] at ht
  | [_] => intro t ht; simp [Basic.run] at ht
  | (p0, b0) :: v1 :: rest =>
    simp only [Basic.run, foldl_zipIdx_eq_feed]
    intro t ht
    have h := feed_dInv (List.take ((v1 :: rest).length - 1) (v1 :: rest)) (Basic.begin p0 0) (0 + 1)
      (begin_dInv p0)
    simp only [Basic.end_] at ht
    have hlen : (v1 :: rest).length = 0 + 1 + (List.take ((v1 :: rest).length - 1) (v1 :: rest)).length := by
      simp only [List.length_take, List.length_cons]; omega
    rw [← hlen] at h
    have h' := vertex_dInv _ ⟨((v1 :: rest).getLast?.map (·.1)).getD p0, (v1 :: rest).length,
      !(feed (Basic.begin p0 0) (0 + 1) (List.take ((v1 :: rest).length - 1) (v1 :: rest))).previous.left⟩
      (v1 :: rest).length rfl h
    exact h'.2.2.2 t ht

/-- non-vacuity: a concrete run (ids 0..3) emits triangles and they are distinct. -/
example : TriDistinct ((0, 1, 2) : Tri) := by simp [TriDistinct]

end Lyon.C02
