/-
  C04 — geometry-builder protocol, index validity and all-or-nothing output on error.

  The theorems are about the executable models `Model/Tess/GeomBuilder.lean` (a line-by-line model
  of `geometry_builder.rs`) and `Model/Tess/Skeleton.lean` (the control flow by which `fill.rs`,
  `stroke.rs` and `basic_shapes.rs` drive a builder, with the numeric core abstracted to the
  request sequence it issues).  They quantify over EVERY builder (`Sink σ`, any state type, any
  behaviour — hence every fault position), every request sequence of the core, every prior buffer
  content, every index configuration.  The same definitions are run by `model_c04` against the
  real code for every fault position k of every generated input (fault enumeration).

  Vocabulary (defined in `Lemmas/C04Spec.lean`): `Protocol tr res` — `tr = begin · body · term`, body
  only vertex/triangle calls, `term = end` iff `res = Ok`, `term = abort` iff `res` is an error, and
  the first refused vertex's error is `res`; `firstRefusal`; `idsFresh`; `wellScoped`; `beforeKth k`
  (requests strictly before the k-th vertex request); `tieSink inv k e` (real `BuffersBuilder`,
  optionally `InvertWinding`, behind the injector that refuses the k-th vertex).

  History (the model mirrors the code, so these are no longer theorems — they were, against the
  code before the fixes, and the oracle clauses/classes that caught them are still active):
  * lyon 34f2f5da "fill_rectangle and fill_circle abort the geometry when the builder refuses a
    vertex".  Before it the fast paths left through `?` without `abort_geometry`.  Former witnesses
    on the old `shapeRun` (error branch `⟨x.st, begin :: x.calls, Err e⟩`):
    `rect_circle_trace_witness` — rectangle, builder refusing the 3rd vertex: trace
    `[begin, V0, V1, V!]`, `Err(TooManyVertices)`, no terminator; `circle_trace_witness` — depth 1,
    6th vertex refused: `[begin, V0, V1, V2, V3, T0 3 1, T1 3 2, V4, T1 4 0, V!]`;
    `rect_circle_buffers_witness` — MAX = 5, two prior vertices: returns `TooManyVertices` and leaves
    `[100, 101, 0, 1, 2, 3]` behind; `rect_circle_trace_partial` — the error is returned and the trace
    is the protocol trace with its `abort` missing.  Now: `rect_circle_trace`,
    `rect_circle_all_or_nothing`.
  * lyon 85d83d35 "the stroker stops emitting geometry once a builder error is latched".  Before it
    the model had an arbitrary request sequence `post` between the latched error and the abort,
    `stroke_ids_fresh_partial` covered only the requests before the first refusal, and
    `stroke_ids_fresh_witness` showed `[begin, V!, V0, V1, T1 0 4294967295, abort]` (the real stroker
    did pass `VertexId::INVALID` to `add_triangle`).  Now: `stroke_ids_fresh` and the exact
    `skeleton_trace_stroke_fault_at_k`.
-/
import LyonVerif.Lemmas.C04Spec

set_option linter.unusedVariables false
set_option linter.unusedSimpArgs false

namespace Lyon.C04
open Lyon Lyon.Tess

/-! ## `skeleton_trace` -/

/-- **Fill** (`tessellate_impl`, hence `tessellate*`, `FillBuilder::build`, `tessellate_ellipse`):
for every builder, every core behaviour, and whether or not the core itself fails, the builder sees
`begin · (vertex|triangle)* · end` and the call returns `Ok`, or `begin · (vertex|triangle)* · abort`
and the call returns the error — one begin, one terminator, nothing after it; a refused vertex is
the last body call and its error is what is returned. -/
theorem skeleton_trace_fill {σ : Type} (S : Sink σ) (core : List CReq) (coreErr : Option TErr) (s : σ) :
    Protocol (tessellateImpl S true core coreErr s).trace (tessellateImpl S true core coreErr s).result := by
  have hq := runQ_calls S core (S.begin s) []
  unfold tessellateImpl
  dsimp only
  revert hq
  generalize runQ S core (S.begin s) [] = x
  intro hq
  cases hx : x.err with
  | some e =>
    simp only [QCalls, hx] at hq
    obtain ⟨pre, hpre, hall⟩ := hq
    have := protocol_refused pre [] e hall (by simp)
    simpa [hx, hpre] using this
  | none =>
    simp only [QCalls, hx] at hq
    cases coreErr with
    | some ce => simpa [hx] using protocol_core_err x.calls ce hq
    | none => simpa [hx] using protocol_ok x.calls hq

/-- A rejected tolerance returns before `begin_geometry`: the builder is not touched at all. -/
theorem fill_bad_tolerance {σ : Type} (S : Sink σ) (core : List CReq) (coreErr : Option TErr) (s : σ) :
    (tessellateImpl S false core coreErr s).trace = [] ∧ (tessellateImpl S false core coreErr s).st = s ∧
    (tessellateImpl S false core coreErr s).result = some (.unsupported 1) := by
  simp [tessellateImpl]

/-- **Stroke** (`StrokeBuilderImpl::new … build`, all `tessellate*` entry points and the
`StrokeBuilder` path-builder interface): `begin` (in the constructor), body calls, then `end` and
`Ok` — or, if a vertex is refused, that refusal is the last body call (`step`, `fixed_width_step`,
`end` do nothing once the error is latched), followed by exactly one `abort`, and the call returns
that error. -/
theorem skeleton_trace_stroke {σ : Type} (S : Sink σ) (events : List (List CReq)) (s : σ) :
    Protocol (strokeRun S events s).trace (strokeRun S events s).result := by
  obtain ⟨h1, h2, _⟩ := strokeRun_eq S events s
  rw [h1, h2]
  exact skeleton_trace_fill S events.flatten none s

/-- What `Protocol` means in counts: exactly one `begin`, and it is the first call; exactly one
terminator, and it is the last call. -/
theorem protocol_counts (tr : List Call) (res : Option TErr) (h : Protocol tr res) :
    (tr.filter fun c => decide (c = Call.begin)).length = 1 ∧ tr.head? = some .begin ∧
    (tr.filter Call.isTerminator).length = 1 ∧
    ∃ t, tr.getLast? = some t ∧ t.isTerminator = true ∧ (t = .endG ↔ res = none) := by
  obtain ⟨body, term, rfl, hb, hterm⟩ := h.shape
  have h1 : body.filter (fun c => decide (c = Call.begin)) = [] := by
    rw [List.filter_eq_nil_iff]
    intro c hc
    have := hb c hc
    cases c <;> simp_all [Call.isBody]
  have h2 : body.filter Call.isTerminator = [] := by
    rw [List.filter_eq_nil_iff]
    intro c hc
    have := hb c hc
    cases c <;> simp_all [Call.isBody, Call.isTerminator]
  rcases hterm with ⟨hr, rfl⟩ | ⟨hr, rfl⟩
  · refine ⟨by simp [List.filter_cons, List.filter_append, h1], rfl,
      by simp [List.filter_cons, List.filter_append, h2, Call.isTerminator], .endG, by rw [List.getLast?_append]; simp, rfl, by simp [hr]⟩
  · refine ⟨by simp [List.filter_cons, List.filter_append, h1], rfl,
      by simp [List.filter_cons, List.filter_append, h2, Call.isTerminator], .abort, by rw [List.getLast?_append]; simp, rfl, by simp [hr]⟩

/-! ## `buffers_abort_restores`, all-or-nothing -/

/-- **`BuffersBuilder`, abort**: for all prior buffer contents (any builder state `b` whose buffers
hold fewer than 2^32 vertices and indices — `first_vertex`/`first_index` are `u32`), all offsets and
index types, and ALL sequences of vertex / triangle calls after `begin_geometry` — accepted or
refused, with any ids — `abort_geometry` leaves exactly the contents present at `begin_geometry`. -/
theorem buffers_abort_restores (b : BB) (ops : List Op) (hops : ∀ o ∈ ops, Op.isBody o = true)
    (hv : b.buf.vertices.length < idxMod) (hi : b.buf.indices.length < idxMod) :
    ((bbSink.exec ops b.begin).1.abort).buf = b.buf :=
  (exec_preserves (bbSink_preserves_ext b.buf) ops b.begin hops (Ext.ofBegin b hv hi)).abort

/-- The `u32` bookkeeping is what the hypothesis of `buffers_abort_restores` is about: a builder
whose `first_vertex` does not point at the end of the prior contents loses them on abort.
(Stated on the model with a stale `first_vertex`, which is what `len as u32` produces past 2^32.) -/
theorem buffers_abort_needs_bookkeeping :
    (BB.abort { buf := ⟨[7, 8, 9], []⟩, firstVertex := 1, firstIndex := 0, vertexOffset := 0,
                cfg := IndexTy.u32.cfg }).buf.vertices = [7] := by decide

/-- **Fill, all-or-nothing**: with a `BuffersBuilder` (plain or winding-inverted) as output, for
every fault position `k` (injected refusal) and for the builder's own overflow, every core
behaviour and every core failure: if `tessellate_impl` returns an error the caller's buffers are
exactly what they were; if it returns `Ok` the old contents are a prefix of the new. -/
theorem fill_all_or_nothing (inv : Bool) (k : Nat) (e : GErr) (b : BB) (n : Nat) (tolOk : Bool)
    (core : List CReq) (coreErr : Option TErr)
    (hv : b.buf.vertices.length < idxMod) (hi : b.buf.indices.length < idxMod) :
    let o := tessellateImpl (tieSink inv k e) tolOk core coreErr (b, n)
    (o.result ≠ none → o.st.1.buf = b.buf) ∧
    (o.result = none → ∃ vs is, o.st.1.buf.vertices = b.buf.vertices ++ vs ∧
        o.st.1.buf.indices = b.buf.indices ++ is) := by
  intro o
  have hP := tieSink_preserves inv k e b.buf
  have h0 : Ext b.buf ((tieSink inv k e).begin (b, n)).1 := by
    rw [tieSink_begin]; exact Ext.ofBegin b hv hi
  have hx := runQ_preserves hP core _ [] h0
  cases tolOk with
  | false => simp [o, tessellateImpl]
  | true =>
    simp only [o, tessellateImpl]
    revert hx
    generalize runQ (tieSink inv k e) core ((tieSink inv k e).begin (b, n)) [] = x
    intro hx
    cases hxe : x.err with
    | some e' => simp [hxe, tieSink_abort, hx.abort]
    | none =>
      cases coreErr with
      | some ce => simp [hxe, tieSink_abort, hx.abort]
      | none =>
        simp only [hxe, tieSink_endG, Bool.not_true, Bool.false_eq_true, if_false]
        exact ⟨by simp, fun _ => ⟨hx.vs.choose, hx.is.choose, hx.vs.choose_spec, hx.is.choose_spec⟩⟩

/-- **Stroke, all-or-nothing**: the same for the stroke skeleton, for every fault position and for
the builder's own overflow. -/
theorem stroke_all_or_nothing (inv : Bool) (k : Nat) (e : GErr) (b : BB) (n : Nat)
    (events : List (List CReq))
    (hv : b.buf.vertices.length < idxMod) (hi : b.buf.indices.length < idxMod) :
    let o := strokeRun (tieSink inv k e) events (b, n)
    (o.result ≠ none → o.st.1.buf = b.buf) ∧
    (o.result = none → ∃ vs is, o.st.1.buf.vertices = b.buf.vertices ++ vs ∧
        o.st.1.buf.indices = b.buf.indices ++ is) := by
  intro o
  obtain ⟨_, h2, h3⟩ := strokeRun_eq (tieSink inv k e) events (b, n)
  simp only [o, h2, h3]
  exact fill_all_or_nothing inv k e b n true events.flatten none hv hi

/-! ## `too_many_vertices` -/

/-- **One call**: `add_fill_vertex` / `add_stroke_vertex` always push the vertex, and return
`TooManyVertices` exactly when the new length exceeds `MaxIndex::MAX`; otherwise the id is the
position of the vertex in the buffer. -/
theorem too_many_vertices (b : BB) (p : Nat) :
    (b.addVertex p).1.buf.vertices = b.buf.vertices ++ [p] ∧
    (b.addVertex p).2 =
      if b.buf.vertices.length + 1 > b.cfg.max then .error .tooManyVertices else .ok b.buf.vertices.length := by
  simp only [BB.addVertex, List.length_append, List.length_cons, List.length_nil]
  split <;> simp

/-- **A run of calls**: the call at which the vertex count exceeds the maximum — and every later
one — returns the error; all earlier ones return consecutive ids. -/
theorem too_many_vertices_seq (ps : List Nat) : ∀ b : BB,
    (bbSink.exec (ps.map Op.vertex) b).2 =
      (List.range ps.length).map fun j =>
        Call.vertex (if b.buf.vertices.length + j + 1 > b.cfg.max then .error .tooManyVertices
                     else .ok (b.buf.vertices.length + j)) := by
  induction ps with
  | nil => intro b; simp [Sink.exec]
  | cons p ps ih =>
    intro b
    have h1 := too_many_vertices b p
    simp only [List.map_cons, Sink.exec, List.length_cons, List.range_succ_eq_map, List.map_map]
    have hb : (bbSink.vertex b p) = b.addVertex p := rfl
    rw [hb, ih (b.addVertex p).1, h1.2]
    have hl : (b.addVertex p).1.buf.vertices.length = b.buf.vertices.length + 1 := by simp [h1.1]
    have hc : (b.addVertex p).1.cfg = b.cfg := by simp only [BB.addVertex]; split <;> rfl
    simp only [hl, hc, Nat.add_zero, List.cons.injEq, true_and]
    apply List.map_congr_left
    intro j _
    simp only [Function.comp, Nat.succ_eq_add_one]
    have e1 : b.buf.vertices.length + 1 + j = b.buf.vertices.length + (j + 1) := by omega
    rw [e1]

/-- **The `MaxIndex` table** of `geometry_builder.rs`, in declaration order
(u8 i8 u16 i16 u32 i32 u64 i64 usize isize). -/
theorem max_index_table :
    IndexTy.all.map IndexTy.max =
      [255, 127, 65535, 32767, 4294967295, 2147483647, 4294967295, 4294967295, 4294967295, 4294967295] := by
  decide

/-- For each of the ten index types every id the builder hands out (`< MAX`) is representable:
`MAX` does not exceed the largest value of the type, the `as` cast does not truncate, and the id
fits `VertexId(u32)`. -/
theorem max_index_fits (t : IndexTy) :
    t.max ≤ t.maxValue ∧ t.max < t.modulus ∧ t.max ≤ 4294967295 := by
  cases t <;> decide

/-- Per index type: with `MAX` vertices in the buffer the next vertex is refused, with fewer it is
accepted and gets the next position as id. -/
theorem too_many_vertices_table (t : IndexTy) (b : BB) (p : Nat) (hc : b.cfg = t.cfg) :
    (b.buf.vertices.length ≥ t.max → (b.addVertex p).2 = .error .tooManyVertices) ∧
    (b.buf.vertices.length < t.max → (b.addVertex p).2 = .ok b.buf.vertices.length) := by
  have h := (too_many_vertices b p).2
  have hm : b.cfg.max = t.max := by rw [hc]; rfl
  rw [hm] at h
  constructor
  · intro hge; rw [h, if_pos (by omega)]
  · intro hlt; rw [h, if_neg (by omega)]

example : (BB.addVertex (BB.new ⟨List.replicate 255 0, []⟩ IndexTy.u8.cfg) 1).2 = .error .tooManyVertices :=
  (too_many_vertices_table .u8 _ 1 rfl).1
    (by simp only [BB.new, List.length_replicate, IndexTy.max]; exact Nat.le_refl _)
example : (BB.addVertex (BB.new ⟨[5, 6], []⟩ ⟨3, 256⟩) 1).2 = .ok 2 := by decide
example : (BB.addVertex (BB.new ⟨[5, 6, 7], []⟩ ⟨3, 256⟩) 1).2 = .error .tooManyVertices := by decide

/-! ## Exact prediction for the fault at the k-th vertex -/

/-- **Fill, fault at the k-th vertex** (`skeleton_trace`, exact form used by the correspondence
check): if the fault-free run against `S` refuses nothing, then for EVERY `k` from 1 to the number
of vertices the core requests, the run against the builder that refuses the `k`-th vertex emits
`begin · (the fault-free calls strictly before the k-th vertex) · refused vertex · abort`,
returns that error, and leaves the inner builder in the state `abort` produces from the prefix. -/
theorem skeleton_trace_fault_at_k {σ : Type} (S : Sink σ) (e : GErr) (k : Nat) (core : List CReq)
    (coreErr : Option TErr) (s : σ)
    (hfree : (runQ S core (S.begin s) []).err = none) (h1 : 1 ≤ k) (h2 : k ≤ nVerts core) :
    let o := tessellateImpl (S.refuseAt k e) true core coreErr (s, 0)
    let pre := runQ S (beforeKth k core) (S.begin s) []
    o.trace = .begin :: pre.calls ++ [.vertex (.error e), .abort] ∧
    o.result = some (.geometryBuilder e) ∧
    o.st = (S.abort pre.st, k) := by
  intro o pre
  have h := runQ_refuseAt S e k core (S.begin s) 0 [] hfree (by omega) (by omega)
  simp only [Nat.sub_zero] at h
  obtain ⟨hc, he, hs⟩ := h
  have hb : (S.refuseAt k e).begin (s, 0) = (S.begin s, 0) := rfl
  simp only [o, tessellateImpl, hb, Bool.not_true, Bool.false_eq_true, if_false, he, hc, hs]
  simp [pre, Sink.refuseAt]

example : (runQ bbSink [.v 0, .v 1, .t 0 1 1, .v 2] (BB.new ⟨[], []⟩ IndexTy.u16.cfg).begin []).err = none ∧
    nVerts [.v 0, .v 1, .t 0 1 1, .v 2] = 3 := by decide

/-- **Stroke, fault at the k-th vertex** — exact: for EVERY `k` from 1 to the number of vertices the
stroker requests (over all events), against the builder that refuses the `k`-th vertex the builder
sees `begin · (the fault-free calls strictly before the k-th vertex) · refused vertex · abort` and
nothing else, and the call returns that error. -/
theorem skeleton_trace_stroke_fault_at_k {σ : Type} (S : Sink σ) (e : GErr) (k : Nat)
    (events : List (List CReq)) (s : σ)
    (hfree : (runQ S events.flatten (S.begin s) []).err = none) (h1 : 1 ≤ k) (h2 : k ≤ nVerts events.flatten) :
    let o := strokeRun (S.refuseAt k e) events (s, 0)
    let pre := runQ S (beforeKth k events.flatten) (S.begin s) []
    o.trace = .begin :: pre.calls ++ [.vertex (.error e), .abort] ∧
    o.result = some (.geometryBuilder e) ∧
    o.st = (S.abort pre.st, k) := by
  intro o pre
  obtain ⟨e1, e2, e3⟩ := strokeRun_eq (S.refuseAt k e) events (s, 0)
  simp only [o, e1, e2, e3]
  exact skeleton_trace_fault_at_k S e k events.flatten none s hfree h1 h2

example : let evs : List (List CReq) := [[], [.v 0, .v 1], [.v 2, .v 3, .t 0 1 3]]
    (runQ bbSink evs.flatten (BB.new ⟨[], []⟩ IndexTy.u16.cfg).begin []).err = none ∧ nVerts evs.flatten = 4 ∧
    (strokeRun (bbSink.refuseAt 3 .invalidVertex) evs (BB.new ⟨[], []⟩ IndexTy.u16.cfg, 0)).trace =
      [.begin, .vertex (.ok 0), .vertex (.ok 1), .vertex (.error .invalidVertex), .abort] ∧
    (strokeRun (bbSink.refuseAt 3 .invalidVertex) evs (BB.new ⟨[], []⟩ IndexTy.u16.cfg, 0)).pulled = 3 := by
  decide

/-! ## `rect_circle_trace` -/

/-- **Rectangle / circle fast paths** (`fill_rectangle`, `fill_circle`, any request sequence in
their place): the same protocol as the general fill path, for every builder and every fault
position — `begin · all · end` and `Ok`, or `begin · prefix_k · refused vertex · abort` and the error. -/
theorem rect_circle_trace {σ : Type} (S : Sink σ) (script : List CReq) (s : σ) :
    Protocol (shapeRun S script s).trace (shapeRun S script s).result := by
  rw [shapeRun_eq]
  exact skeleton_trace_fill S script none s

/-- The exact trace for the fault at the `k`-th vertex of a fast path. -/
theorem rect_circle_trace_fault_at_k {σ : Type} (S : Sink σ) (e : GErr) (k : Nat) (script : List CReq) (s : σ)
    (hfree : (runQ S script (S.begin s) []).err = none) (h1 : 1 ≤ k) (h2 : k ≤ nVerts script) :
    let o := shapeRun (S.refuseAt k e) script (s, 0)
    let pre := runQ S (beforeKth k script) (S.begin s) []
    o.trace = .begin :: pre.calls ++ [.vertex (.error e), .abort] ∧
    o.result = some (.geometryBuilder e) ∧
    o.st = (S.abort pre.st, k) := by
  intro o pre
  simp only [o, shapeRun_eq]
  exact skeleton_trace_fault_at_k S e k script none s hfree h1 h2

/-- **Fast paths, all-or-nothing**: with a `BuffersBuilder` output, for every fault position and
for the builder's own overflow, an error leaves the caller's buffers exactly as they were; success
only appends. -/
theorem rect_circle_all_or_nothing (inv : Bool) (k : Nat) (e : GErr) (b : BB) (n : Nat) (script : List CReq)
    (hv : b.buf.vertices.length < idxMod) (hi : b.buf.indices.length < idxMod) :
    let o := shapeRun (tieSink inv k e) script (b, n)
    (o.result ≠ none → o.st.1.buf = b.buf) ∧
    (o.result = none → ∃ vs is, o.st.1.buf.vertices = b.buf.vertices ++ vs ∧
        o.st.1.buf.indices = b.buf.indices ++ is) := by
  intro o
  simp only [o, shapeRun_eq]
  exact fill_all_or_nothing inv k e b n true script none hv hi

/-- The inputs of the former witnesses, on the repaired control flow: refused 3rd vertex of the
rectangle → `begin V V V! abort`; overflow at the rectangle's 4th vertex with two prior vertices →
buffers restored. -/
example :
    (shapeRun (tieSink false 3 .tooManyVertices) rectScript (BB.new ⟨[], []⟩ IndexTy.u16.cfg, 0)).trace =
      [.begin, .vertex (.ok 0), .vertex (.ok 1), .vertex (.error .tooManyVertices), .abort] ∧
    (shapeRun (tieSink false 0 .tooManyVertices) rectScript
        (BB.new ⟨[100, 101], [0, 0, 1]⟩ ⟨5, 65536⟩, 0)).st.1.buf = ⟨[100, 101], [0, 0, 1]⟩ ∧
    (shapeRun (tieSink false 0 .tooManyVertices) rectScript
        (BB.new ⟨[100, 101], [0, 0, 1]⟩ ⟨5, 65536⟩, 0)).result = some (.geometryBuilder .tooManyVertices) := by
  decide

/-- The rectangle script only names vertices it has been given (the circle: `circle_script_scoped`). -/
theorem rect_script_scoped : wellScoped 0 rectScript = true := by decide

theorem circle_script_counts :
    (List.range 5).map (fun n => nVerts (circleScript n)) = [4, 8, 16, 32, 64] := by decide

/-! ## `buffers_end_extends`, `ids_fresh` -/

/-- **`BuffersBuilder`, end**: for all prior contents, all vertex / triangle call sequences after
`begin_geometry` in which every triangle only uses ids returned since that `begin` (`idsFresh`,
which is what `ids_fresh` establishes for the tessellators): the old vertices and indices are an
untouched prefix, and every new index, minus the vertex offset, lies in `[old_len, new_len)` —
provided `id + vertex_offset` wraps neither in `u32` nor in the index type (for offset 0:
`max_index_fits`). -/
theorem buffers_end_extends (b : BB) (ops : List Op) (hops : ∀ o ∈ ops, Op.isBody o = true)
    (hv : b.buf.vertices.length < idxMod)
    (hfresh : idsFresh [] (bbSink.exec ops b.begin).2 = true)
    (hw1 : (bbSink.exec ops b.begin).1.buf.vertices.length + b.vertexOffset ≤ idxMod)
    (hw2 : (bbSink.exec ops b.begin).1.buf.vertices.length + b.vertexOffset ≤ b.cfg.modulus) :
    let f := ((bbSink.exec ops b.begin).1.endG).buf
    ∃ vs is, f.vertices = b.buf.vertices ++ vs ∧ f.indices = b.buf.indices ++ is ∧
      ∀ i ∈ is, b.buf.vertices.length + b.vertexOffset ≤ i ∧ i < f.vertices.length + b.vertexOffset := by
  intro f
  obtain ⟨_, _, vs, is, e1, e2, e3⟩ :=
    exec_valid b.buf.vertices.length ops b.begin [] hops (Nat.le_refl _) (by simp) hfresh
  refine ⟨vs, is, e1, e2, ?_⟩
  intro i hi
  obtain ⟨a, ha, h1, h2⟩ := e3 i hi
  have hoff : b.begin.vertexOffset = b.vertexOffset := rfl
  have hcfg : b.begin.cfg = b.cfg := rfl
  have hlt : a + b.vertexOffset < idxMod := by omega
  have hlt2 : a + b.vertexOffset < b.cfg.modulus := by omega
  have hconv : b.begin.conv a = a + b.vertexOffset := by
    simp only [BB.conv, hoff, hcfg, Nat.mod_eq_of_lt hlt, Nat.mod_eq_of_lt hlt2]
  show b.buf.vertices.length + b.vertexOffset ≤ i ∧ i < (bbSink.exec ops b.begin).1.buf.vertices.length + b.vertexOffset
  rw [ha, hconv]
  omega

example : let b := BB.new ⟨[9, 9], [0, 1, 0]⟩ IndexTy.u16.cfg
    let ops := [Op.vertex 5, .vertex 6, .vertex 7, .tri 2 3 4]
    (∀ o ∈ ops, Op.isBody o = true) ∧ idsFresh [] (bbSink.exec ops b.begin).2 = true ∧
    ((bbSink.exec ops b.begin).1.endG).buf = ⟨[9, 9, 5, 6, 7], [0, 1, 0, 2, 3, 4]⟩ := by decide

/-- Without the proviso the conclusion fails — a triangle naming an id from before `begin`
produces an index into the old contents (which is why the oracle checks `ids-fresh` on the real
tessellators). -/
theorem buffers_end_extends_needs_fresh :
    ((bbSink.exec [Op.vertex 5, .tri 0 1 2] (BB.new ⟨[9, 9], []⟩ IndexTy.u16.cfg).begin).1.endG).buf.indices =
      [0, 1, 2] := by decide

/-- **`ids_fresh`, fill**: a core that names only vertices it has requested before (ordinals in
range — `wellScoped`) makes the fill skeleton issue only triangles whose ids were returned since
`begin_geometry`, for every builder and every fault position. -/
theorem ids_fresh_fill {σ : Type} (S : Sink σ) (core : List CReq) (coreErr : Option TErr) (s : σ)
    (hw : wellScoped 0 core = true) :
    idsFresh [] (tessellateImpl S true core coreErr s).trace = true := by
  have h := runQ_fresh S core (S.begin s) [] hw
  unfold tessellateImpl
  dsimp only
  revert h
  generalize runQ S core (S.begin s) [] = x
  intro h
  cases hx : x.err with
  | some e =>
    simp only [Bool.not_true, Bool.false_eq_true, if_false, hx]
    show idsFresh [] (x.calls ++ [.abort]) = true
    rw [idsFresh_append_term _ rfl]; exact h
  | none =>
    cases coreErr with
    | some ce =>
      simp only [Bool.not_true, Bool.false_eq_true, if_false, hx]
      show idsFresh [] (x.calls ++ [.abort]) = true
      rw [idsFresh_append_term _ rfl]; exact h
    | none =>
      simp only [Bool.not_true, Bool.false_eq_true, if_false, hx]
      show idsFresh [] (x.calls ++ [.endG]) = true
      rw [idsFresh_append_term _ rfl]; exact h

/-- **`ids_fresh`, stroke** (full): a stroker core that names only vertices it has requested makes
the skeleton issue only triangles whose ids were returned since `begin_geometry` — for every
builder, every fault position, over the WHOLE trace (nothing is issued after a latched error). -/
theorem stroke_ids_fresh {σ : Type} (S : Sink σ) (events : List (List CReq)) (s : σ)
    (hw : wellScoped 0 events.flatten = true) :
    idsFresh [] (strokeRun S events s).trace = true := by
  rw [(strokeRun_eq S events s).1]
  exact ids_fresh_fill S events.flatten none s hw

example : wellScoped 0 ([[], [CReq.v 0, .v 1], [.v 2, .v 3, .t 0 1 3]] : List (List CReq)).flatten = true := by
  decide

/-! ## `offset_shift` -/

/-- **Prior contents only shift the output**: tessellating (fill skeleton, any well-scoped core)
into a `BuffersBuilder` over prior contents `B` yields `B ++ shift_{|B|}(the run on empty buffers)`:
the same new vertices, and the same new indices moved up by the number of prior vertices —
whenever the run fits the index type (`|B| + #vertices ≤ MAX`; `MAX ≤ modulus, 2^32` is
`max_index_fits` for the ten real types). -/
theorem offset_shift (B : Buffers) (cfg : IdxCfg) (core : List CReq) (hw : wellScoped 0 core = true)
    (hfit : B.vertices.length + nVerts core ≤ cfg.max) (hm1 : cfg.max ≤ cfg.modulus) (hm2 : cfg.max ≤ idxMod) :
    let o0 := tessellateImpl bbSink true core none (BB.new ⟨[], []⟩ cfg)
    let oB := tessellateImpl bbSink true core none (BB.new B cfg)
    o0.result = none ∧ oB.result = none ∧
    oB.st.buf.vertices = B.vertices ++ o0.st.buf.vertices ∧
    oB.st.buf.indices = B.indices ++ o0.st.buf.indices.map (· + B.vertices.length) := by
  intro o0 oB
  have h0 : Shifted B.vertices B.indices (bbSink.begin (BB.new ⟨[], []⟩ cfg)) (bbSink.begin (BB.new B cfg)) [] [] :=
    ⟨by simp [bbSink, BB.begin, BB.new], by simp [bbSink, BB.begin, BB.new], rfl, rfl, rfl, rfl, by simp⟩
  obtain ⟨e1, e2, hs⟩ := runQ_shift B.vertices B.indices core _ _ [] [] h0 hw
    (by simpa [bbSink, BB.begin, BB.new] using hfit) hm1 hm2
  simp only [o0, oB, tessellateImpl, Bool.not_true, Bool.false_eq_true, if_false, e1, e2]
  exact ⟨trivial, trivial, hs.vs, hs.is⟩

example : let core := [CReq.v 0, .v 1, .v 2, .t 0 1 2]
    wellScoped 0 core = true ∧
    (tessellateImpl bbSink true core none (BB.new ⟨[], []⟩ IndexTy.u16.cfg)).st.buf = ⟨[0, 1, 2], [0, 1, 2]⟩ ∧
    (tessellateImpl bbSink true core none (BB.new ⟨[7, 7], [1, 0, 1]⟩ IndexTy.u16.cfg)).st.buf =
      ⟨[7, 7, 0, 1, 2], [1, 0, 1, 2, 3, 4]⟩ := by decide

/-! ## The fast paths' request sequences -/

/-- `fill_circle`'s request sequence names only vertices it has requested before, for every
recursion depth (so `ids_fresh_fill` / `buffers_end_extends` apply to it). -/
theorem circle_script_scoped (n : Nat) : wellScoped 0 (circleScript n) = true := by
  have h := (circleQuadrants_scoped n 4 4 (Nat.le_refl 4)).1
  simp only [circleScript, List.cons_append, List.nil_append, wellScoped, Nat.zero_add, h]
  decide

/-- Rectangle and circle fast paths, fault-free or faulted: every triangle the builder sees uses
ids returned since `begin_geometry`. -/
theorem ids_fresh_shapes {σ : Type} (S : Sink σ) (s : σ) (n : Nat) :
    idsFresh [] (shapeRun S rectScript s).trace = true ∧
    idsFresh [] (shapeRun S (circleScript n) s).trace = true := by
  rw [shapeRun_eq, shapeRun_eq]
  exact ⟨ids_fresh_fill S _ none s rect_script_scoped, ids_fresh_fill S _ none s (circle_script_scoped n)⟩

/-! ## Non-vacuity of the hypotheses used above -/

example : let b := BB.new ⟨[1, 2, 3], [0, 1, 2]⟩ IndexTy.u16.cfg
    let ops := [Op.vertex 7, .tri 3 0 9, .vertex 8]
    (∀ o ∈ ops, Op.isBody o = true) ∧ b.buf.vertices.length < idxMod ∧ b.buf.indices.length < idxMod ∧
    (bbSink.exec ops b.begin).1.buf ≠ b.buf ∧ ((bbSink.exec ops b.begin).1.abort).buf = b.buf := by decide

example :
    let o := tessellateImpl (tieSink true 2 .invalidVertex) true [.v 0, .v 1, .t 0 0 0] none
              (BB.new ⟨[1, 2, 3], [0, 1, 2]⟩ IndexTy.u16.cfg, 0)
    o.result = some (.geometryBuilder .invalidVertex) ∧ o.st.1.buf = ⟨[1, 2, 3], [0, 1, 2]⟩ ∧
    o.trace = [.begin, .vertex (.ok 3), .vertex (.error .invalidVertex), .abort] := by decide

example :
    let o := strokeRun (tieSink false 2 .tooManyVertices) [[.v 0], [.v 1, .v 2], [.v 3]]
              (BB.new ⟨[1, 2, 3], [0, 1, 2]⟩ IndexTy.u16.cfg, 0)
    o.result = some (.geometryBuilder .tooManyVertices) ∧ o.st.1.buf = ⟨[1, 2, 3], [0, 1, 2]⟩ ∧ o.pulled = 2 ∧
    o.trace = [.begin, .vertex (.ok 3), .vertex (.error .tooManyVertices), .abort] := by
  decide

example : wellScoped 0 (circleScript 2) = true ∧ nVerts (circleScript 2) = 16 := by decide

/-! ## Skeleton runs are builder-call sequences; success gives valid indices -/

/-- What a skeleton does to a builder is a sequence of direct vertex / triangle calls
(`lower`, body calls only): `Sink.exec` on it reproduces `runQ`'s final state and recorded calls —
so the `BuffersBuilder`-level theorems (`buffers_abort_restores`, `buffers_end_extends`) apply to
every fill, stroke and fast-path run. -/
theorem exec_eq_runQ {σ : Type} (S : Sink σ) (core : List CReq) (s : σ) (ids : List Nat) :
    (∀ o ∈ lower S core s ids, Op.isBody o = true) ∧
    S.exec (lower S core s ids) s = ((runQ S core s ids).st, (runQ S core s ids).calls) :=
  ⟨lower_body S core s ids, exec_lower S core s ids⟩

/-- **Success: all new indices point at new vertices** — fill skeleton (and, by `strokeRun_eq` /
`shapeRun_eq`, the stroke and fast-path skeletons) into a `BuffersBuilder` with any prior contents
and vertex offset, any well-scoped core: if the call returns `Ok`, the old vertices and indices are
an untouched prefix and every new index minus the offset lies in `[old_len, new_len)` (no wrap of
`id + offset` in `u32` / the index type assumed). -/
theorem fill_success_indices_valid (b : BB) (core : List CReq) (hw : wellScoped 0 core = true)
    (hv : b.buf.vertices.length < idxMod)
    (hw1 : (tessellateImpl bbSink true core none b).st.buf.vertices.length + b.vertexOffset ≤ idxMod)
    (hw2 : (tessellateImpl bbSink true core none b).st.buf.vertices.length + b.vertexOffset ≤ b.cfg.modulus)
    (hok : (tessellateImpl bbSink true core none b).result = none) :
    let f := (tessellateImpl bbSink true core none b).st.buf
    ∃ vs is, f.vertices = b.buf.vertices ++ vs ∧ f.indices = b.buf.indices ++ is ∧
      ∀ i ∈ is, b.buf.vertices.length + b.vertexOffset ≤ i ∧ i < f.vertices.length + b.vertexOffset := by
  intro f
  have hfresh := runQ_fresh bbSink core b.begin [] hw
  have hex := exec_lower bbSink core b.begin []
  have hst : (tessellateImpl bbSink true core none b).st = (runQ bbSink core b.begin []).st := by
    have hb : bbSink.begin b = b.begin := rfl
    revert hok
    simp only [tessellateImpl, Bool.not_true, Bool.false_eq_true, if_false, hb]
    cases (runQ bbSink core b.begin []).err <;> simp [bbSink, BB.endG]
  have h1 : (bbSink.exec (lower bbSink core b.begin []) b.begin).1 = (runQ bbSink core b.begin []).st := by
    rw [hex]
  have h2 : (bbSink.exec (lower bbSink core b.begin []) b.begin).2 = (runQ bbSink core b.begin []).calls := by
    rw [hex]
  have := buffers_end_extends b (lower bbSink core b.begin []) (lower_body _ _ _ _) hv
    (by rw [h2]; exact hfresh) (by rw [h1, ← hst]; exact hw1) (by rw [h1, ← hst]; exact hw2)
  simp only [h1, BB.endG] at this
  simpa [f, hst] using this

example : let b := BB.new ⟨[9, 9], [0, 1, 0]⟩ IndexTy.u16.cfg
    wellScoped 0 [.v 0, .v 1, .v 2, .t 0 1 2] = true ∧
    (tessellateImpl bbSink true [.v 0, .v 1, .v 2, .t 0 1 2] none b).result = none ∧
    (tessellateImpl bbSink true [.v 0, .v 1, .v 2, .t 0 1 2] none b).st.buf = ⟨[9, 9, 0, 1, 2], [0, 1, 0, 2, 3, 4]⟩ := by
  decide

/-! ## Decidable protocol checker -/

/-- `protocolB` decides `Protocol`: a trace/result pair passes the executable check iff it has the
shape the property demands. -/
theorem protocol_checker_sound (tr : List Call) (res : Option TErr) :
    protocolB tr res = true ↔ Protocol tr res := by
  constructor
  · intro h
    simp only [protocolB, Bool.and_eq_true] at h
    obtain ⟨h1, h2⟩ := h
    cases tr with
    | nil => simp at h1
    | cons c rest =>
      cases c <;> try (simp at h1)
      obtain ⟨body, term, hl, hb, hc⟩ := (bodyThenTerm_iff res rest).mp h1
      refine ⟨⟨body, term, by simp [hl], hb, hc⟩, ?_⟩
      intro e he
      rw [he] at h2
      simpa using h2
  · intro h
    obtain ⟨body, term, hl, hb, hc⟩ := h.shape
    simp only [protocolB, Bool.and_eq_true]
    constructor
    · subst hl
      exact (bodyThenTerm_iff res (body ++ [term])).mpr ⟨body, term, rfl, hb, hc⟩
    · cases hf : firstRefusal tr with
      | none => rfl
      | some e => simpa using h.first_error e hf

example : protocolB [.begin, .vertex (.ok 0), .vertex (.error .invalidVertex), .abort]
      (some (.geometryBuilder .invalidVertex)) = true ∧
    protocolB [.begin, .vertex (.ok 0), .vertex (.error .invalidVertex)] (some (.geometryBuilder .invalidVertex)) = false ∧
    protocolB [.begin, .vertex (.ok 0), .endG, .tri 0 0 0] none = false := by decide

end Lyon.C04
