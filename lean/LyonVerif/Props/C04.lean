/-
  C04 — geometry-builder protocol, index validity and all-or-nothing output on error.

  The theorems are about the executable models `Model/Tess/GeomBuilder.lean` (a line-by-line model
  of `geometry_builder.rs`) and `Model/Tess/Skeleton.lean` (the control flow by which `fill.rs`,
  `stroke.rs` and `basic_shapes.rs` drive a builder, with the numeric core abstracted to the
  request sequence it issues).  They quantify over EVERY builder (`Sink σ`, any state type, any
  behaviour — hence every fault position), every request sequence of the core, every prior buffer
  content, every index configuration.  The same definitions are run by `model_c04` against the
  real code for every fault position k of every generated input (fault enumeration).

  Vocabulary (defined in `Lemmas/C04Spec.lean`): `Protocol tr res` — `tr = begin · body · term`, body
  only vertex/triangle calls, `term = end` iff `res = Ok`, `term = abort` iff `res` is an error, and
  the first refused vertex's error is `res`; `firstRefusal`; `idsFresh`; `wellScoped`; `beforeKth k`
  (requests strictly before the k-th vertex request); `tieSink inv k e` (real `BuffersBuilder`,
  optionally `InvertWinding`, behind the injector that refuses the k-th vertex).

  False of the current code, kept visible:
  * `rect_circle_trace` — `fill_rectangle` / `fill_circle` leave through `?` without
    `abort_geometry` (`rect_circle_trace_witness`, `rect_circle_buffers_witness`); what does hold is
    `rect_circle_trace_partial`; the repaired control flow satisfies the full statement
    (`rect_circle_trace_fixed`).
  * after a latched error the stroker may still hand `VertexId::INVALID` to `add_triangle`
    (observed on the real code by the oracle); the model leaves the post-error requests arbitrary
    (`post`), so `stroke_ids_fresh_partial` speaks about the requests before the first refusal only.
-/
import LyonVerif.Lemmas.C04Spec

set_option linter.unusedVariables false
set_option linter.unusedSimpArgs false

namespace Lyon.C04
open Lyon Lyon.Tess

/-! ## `skeleton_trace` -/

/-- **Fill** (`tessellate_impl`, hence `tessellate*`, `FillBuilder::build`, `tessellate_ellipse`):
for every builder, every core behaviour, and whether or not the core itself fails, the builder sees
`begin · (vertex|triangle)* · end` and the call returns `Ok`, or `begin · (vertex|triangle)* · abort`
and the call returns the error — one begin, one terminator, nothing after it; a refused vertex is
the last body call and its error is what is returned. -/
theorem skeleton_trace_fill {σ : Type} (S : Sink σ) (core : List CReq) (coreErr : Option TErr) (s : σ) :
    Protocol (tessellateImpl S true core coreErr s).trace (tessellateImpl S true core coreErr s).result := by
  have hq := runQ_calls S core (S.begin s) []
  unfold tessellateImpl
  dsimp only
  revert hq
  generalize runQ S core (S.begin s) [] = x
  intro hq
  cases hx : x.err with
  | some e =>
    simp only [QCalls, hx] at hq
    obtain ⟨pre, hpre, hall⟩ := hq
    have := protocol_refused pre [] e hall (by simp)
    simpa [hx, hpre] using this
  | none =>
    simp only [QCalls, hx] at hq
    cases coreErr with
    | some ce => simpa [hx] using protocol_core_err x.calls ce hq
    | none => simpa [hx] using protocol_ok x.calls hq

/-- A rejected tolerance returns before `begin_geometry`: the builder is not touched at all. -/
theorem fill_bad_tolerance {σ : Type} (S : Sink σ) (core : List CReq) (coreErr : Option TErr) (s : σ) :
    (tessellateImpl S false core coreErr s).trace = [] ∧ (tessellateImpl S false core coreErr s).st = s ∧
    (tessellateImpl S false core coreErr s).result = some (.unsupported 1) := by
  simp [tessellateImpl]

/-- **Stroke** (`StrokeBuilderImpl::new … build`, all `tessellate*` entry points and the
`StrokeBuilder` path-builder interface): `begin` (in the constructor), body calls, then `end` and
`Ok` — or, if a vertex was refused, the FIRST refusal is latched, whatever the core does afterwards
(`post`, arbitrary, later refusals ignored) stays in the body, and the call ends with exactly one
`abort` and returns that first error. -/
theorem skeleton_trace_stroke {σ : Type} (S : Sink σ) (events : List (List CReq)) (post : List CReq) (s : σ) :
    Protocol (strokeRun S events post s).trace (strokeRun S events post s).result := by
  have hq := strokeEvents_calls S events (S.begin s) []
  unfold strokeRun
  dsimp only
  revert hq
  generalize strokeEvents S events (S.begin s) [] = x
  intro hq
  cases hx : x.err with
  | none =>
    simp only [QCalls, hx] at hq
    simpa [hx] using protocol_ok x.calls hq
  | some e =>
    simp only [QCalls, hx] at hq
    obtain ⟨pre, hpre, hall⟩ := hq
    have := protocol_refused pre (runIgn S post x.st x.ids).2 e hall (runIgn_body S post x.st x.ids)
    simpa [hx, hpre] using this

/-- What `Protocol` means in counts: exactly one `begin`, and it is the first call; exactly one
terminator, and it is the last call. -/
theorem protocol_counts (tr : List Call) (res : Option TErr) (h : Protocol tr res) :
    (tr.filter fun c => decide (c = Call.begin)).length = 1 ∧ tr.head? = some .begin ∧
    (tr.filter Call.isTerminator).length = 1 ∧
    ∃ t, tr.getLast? = some t ∧ t.isTerminator = true ∧ (t = .endG ↔ res = none) := by
  obtain ⟨body, term, rfl, hb, hterm⟩ := h.shape
  have h1 : body.filter (fun c => decide (c = Call.begin)) = [] := by
    rw [List.filter_eq_nil_iff]
    intro c hc
    have := hb c hc
    cases c <;> simp_all [Call.isBody]
  have h2 : body.filter Call.isTerminator = [] := by
    rw [List.filter_eq_nil_iff]
    intro c hc
    have := hb c hc
    cases c <;> simp_all [Call.isBody, Call.isTerminator]
  rcases hterm with ⟨hr, rfl⟩ | ⟨hr, rfl⟩
  · refine ⟨by simp [List.filter_cons, List.filter_append, h1], rfl,
      by simp [List.filter_cons, List.filter_append, h2, Call.isTerminator], .endG, by rw [List.getLast?_append]; simp, rfl, by simp [hr]⟩
  · refine ⟨by simp [List.filter_cons, List.filter_append, h1], rfl,
      by simp [List.filter_cons, List.filter_append, h2, Call.isTerminator], .abort, by rw [List.getLast?_append]; simp, rfl, by simp [hr]⟩

/-! ## `buffers_abort_restores`, all-or-nothing -/

/-- **`BuffersBuilder`, abort**: for all prior buffer contents (any builder state `b` whose buffers
hold fewer than 2^32 vertices and indices — `first_vertex`/`first_index` are `u32`), all offsets and
index types, and ALL sequences of vertex / triangle calls after `begin_geometry` — accepted or
refused, with any ids — `abort_geometry` leaves exactly the contents present at `begin_geometry`. -/
theorem buffers_abort_restores (b : BB) (ops : List Op) (hops : ∀ o ∈ ops, Op.isBody o = true)
    (hv : b.buf.vertices.length < idxMod) (hi : b.buf.indices.length < idxMod) :
    ((bbSink.exec ops b.begin).1.abort).buf = b.buf :=
  (exec_preserves (bbSink_preserves_ext b.buf) ops b.begin hops (Ext.ofBegin b hv hi)).abort

/-- The `u32` bookkeeping is what the hypothesis of `buffers_abort_restores` is about: a builder
whose `first_vertex` does not point at the end of the prior contents loses them on abort.
(Stated on the model with a stale `first_vertex`, which is what `len as u32` produces past 2^32.) -/
theorem buffers_abort_needs_bookkeeping :
    (BB.abort { buf := ⟨[7, 8, 9], []⟩, firstVertex := 1, firstIndex := 0, vertexOffset := 0,
                cfg := IndexTy.u32.cfg }).buf.vertices = [7] := by decide

/-- **Fill, all-or-nothing**: with a `BuffersBuilder` (plain or winding-inverted) as output, for
every fault position `k` (injected refusal) and for the builder's own overflow, every core
behaviour and every core failure: if `tessellate_impl` returns an error the caller's buffers are
exactly what they were; if it returns `Ok` the old contents are a prefix of the new. -/
theorem fill_all_or_nothing (inv : Bool) (k : Nat) (e : GErr) (b : BB) (n : Nat) (tolOk : Bool)
    (core : List CReq) (coreErr : Option TErr)
    (hv : b.buf.vertices.length < idxMod) (hi : b.buf.indices.length < idxMod) :
    let o := tessellateImpl (tieSink inv k e) tolOk core coreErr (b, n)
    (o.result ≠ none → o.st.1.buf = b.buf) ∧
    (o.result = none → ∃ vs is, o.st.1.buf.vertices = b.buf.vertices ++ vs ∧
        o.st.1.buf.indices = b.buf.indices ++ is) := by
  intro o
  have hP := tieSink_preserves inv k e b.buf
  have h0 : Ext b.buf ((tieSink inv k e).begin (b, n)).1 := by
    rw [tieSink_begin]; exact Ext.ofBegin b hv hi
  have hx := runQ_preserves hP core _ [] h0
  cases tolOk with
  | false => simp [o, tessellateImpl]
  | true =>
    simp only [o, tessellateImpl]
    revert hx
    generalize runQ (tieSink inv k e) core ((tieSink inv k e).begin (b, n)) [] = x
    intro hx
    cases hxe : x.err with
    | some e' => simp [hxe, tieSink_abort, hx.abort]
    | none =>
      cases coreErr with
      | some ce => simp [hxe, tieSink_abort, hx.abort]
      | none =>
        simp only [hxe, tieSink_endG, Bool.not_true, Bool.false_eq_true, if_false]
        exact ⟨by simp, fun _ => ⟨hx.vs.choose, hx.is.choose, hx.vs.choose_spec, hx.is.choose_spec⟩⟩

/-- **Stroke, all-or-nothing**: the same for the stroke skeleton — whatever the core still does
between the latched error and `build()` (`post` arbitrary, including further vertices that are
accepted), the abort restores the caller's buffers exactly. -/
theorem stroke_all_or_nothing (inv : Bool) (k : Nat) (e : GErr) (b : BB) (n : Nat)
    (events : List (List CReq)) (post : List CReq)
    (hv : b.buf.vertices.length < idxMod) (hi : b.buf.indices.length < idxMod) :
    let o := strokeRun (tieSink inv k e) events post (b, n)
    (o.result ≠ none → o.st.1.buf = b.buf) ∧
    (o.result = none → ∃ vs is, o.st.1.buf.vertices = b.buf.vertices ++ vs ∧
        o.st.1.buf.indices = b.buf.indices ++ is) := by
  intro o
  have hP := tieSink_preserves inv k e b.buf
  have h0 : Ext b.buf ((tieSink inv k e).begin (b, n)).1 := by
    rw [tieSink_begin]; exact Ext.ofBegin b hv hi
  have hx := strokeEvents_preserves hP events _ [] h0
  simp only [o, strokeRun]
  revert hx
  generalize strokeEvents (tieSink inv k e) events ((tieSink inv k e).begin (b, n)) [] = x
  intro hx
  cases hxe : x.err with
  | some e' =>
    have hy := runIgn_preserves hP post x.st x.ids hx
    simp [hxe, tieSink_abort, hy.abort]
  | none =>
    simp only [hxe, tieSink_endG]
    exact ⟨by simp, fun _ => ⟨hx.vs.choose, hx.is.choose, hx.vs.choose_spec, hx.is.choose_spec⟩⟩

/-! ## `too_many_vertices` -/

/-- **One call**: `add_fill_vertex` / `add_stroke_vertex` always push the vertex, and return
`TooManyVertices` exactly when the new length exceeds `MaxIndex::MAX`; otherwise the id is the
position of the vertex in the buffer. -/
theorem too_many_vertices (b : BB) (p : Nat) :
    (b.addVertex p).1.buf.vertices = b.buf.vertices ++ [p] ∧
    (b.addVertex p).2 =
      if b.buf.vertices.length + 1 > b.cfg.max then .error .tooManyVertices else .ok b.buf.vertices.length := by
  simp only [BB.addVertex, List.length_append, List.length_cons, List.length_nil]
  split <;> simp

/-- **A run of calls**: the call at which the vertex count exceeds the maximum — and every later
one — returns the error; all earlier ones return consecutive ids. -/
theorem too_many_vertices_seq (ps : List Nat) : ∀ b : BB,
    (bbSink.exec (ps.map Op.vertex) b).2 =
      (List.range ps.length).map fun j =>
        Call.vertex (if b.buf.vertices.length + j + 1 > b.cfg.max then .error .tooManyVertices
                     else .ok (b.buf.vertices.length + j)) := by
  induction ps with
  | nil => intro b; simp [Sink.exec]
  | cons p ps ih =>
    intro b
    have h1 := too_many_vertices b p
    simp only [List.map_cons, Sink.exec, List.length_cons, List.range_succ_eq_map, List.map_map]
    have hb : (bbSink.vertex b p) = b.addVertex p := rfl
    rw [hb, ih (b.addVertex p).1, h1.2]
    have hl : (b.addVertex p).1.buf.vertices.length = b.buf.vertices.length + 1 := by simp [h1.1]
    have hc : (b.addVertex p).1.cfg = b.cfg := by simp only [BB.addVertex]; split <;> rfl
    simp only [hl, hc, Nat.add_zero, List.cons.injEq, true_and]
    apply List.map_congr_left
    intro j _
    simp only [Function.comp, Nat.succ_eq_add_one]
    have e1 : b.buf.vertices.length + 1 + j = b.buf.vertices.length + (j + 1) := by omega
    rw [e1]

/-- **The `MaxIndex` table** of `geometry_builder.rs`, in declaration order
(u8 i8 u16 i16 u32 i32 u64 i64 usize isize). -/
theorem max_index_table :
    IndexTy.all.map IndexTy.max =
      [255, 127, 65535, 32767, 4294967295, 2147483647, 4294967295, 4294967295, 4294967295, 4294967295] := by
  decide

/-- For each of the ten index types every id the builder hands out (`< MAX`) is representable:
`MAX` does not exceed the largest value of the type, the `as` cast does not truncate, and the id
fits `VertexId(u32)`. -/
theorem max_index_fits (t : IndexTy) :
    t.max ≤ t.maxValue ∧ t.max < t.modulus ∧ t.max ≤ 4294967295 := by
  cases t <;> decide

/-- Per index type: with `MAX` vertices in the buffer the next vertex is refused, with fewer it is
accepted and gets the next position as id. -/
theorem too_many_vertices_table (t : IndexTy) (b : BB) (p : Nat) (hc : b.cfg = t.cfg) :
    (b.buf.vertices.length ≥ t.max → (b.addVertex p).2 = .error .tooManyVertices) ∧
    (b.buf.vertices.length < t.max → (b.addVertex p).2 = .ok b.buf.vertices.length) := by
  have h := (too_many_vertices b p).2
  have hm : b.cfg.max = t.max := by rw [hc]; rfl
  rw [hm] at h
  constructor
  · intro hge; rw [h, if_pos (by omega)]
  · intro hlt; rw [h, if_neg (by omega)]

example : (BB.addVertex (BB.new ⟨List.replicate 255 0, []⟩ IndexTy.u8.cfg) 1).2 = .error .tooManyVertices :=
  (too_many_vertices_table .u8 _ 1 rfl).1
    (by simp only [BB.new, List.length_replicate, IndexTy.max]; exact Nat.le_refl _)
example : (BB.addVertex (BB.new ⟨[5, 6], []⟩ ⟨3, 256⟩) 1).2 = .ok 2 := by decide
example : (BB.addVertex (BB.new ⟨[5, 6, 7], []⟩ ⟨3, 256⟩) 1).2 = .error .tooManyVertices := by decide

/-! ## Exact prediction for the fault at the k-th vertex -/

/-- **Fill, fault at the k-th vertex** (`skeleton_trace`, exact form used by the correspondence
check): if the fault-free run against `S` refuses nothing, then for EVERY `k` from 1 to the number
of vertices the core requests, the run against the builder that refuses the `k`-th vertex emits
`begin · (the fault-free calls strictly before the k-th vertex) · refused vertex · abort`,
returns that error, and leaves the inner builder in the state `abort` produces from the prefix. -/
theorem skeleton_trace_fault_at_k {σ : Type} (S : Sink σ) (e : GErr) (k : Nat) (core : List CReq)
    (coreErr : Option TErr) (s : σ)
    (hfree : (runQ S core (S.begin s) []).err = none) (h1 : 1 ≤ k) (h2 : k ≤ nVerts core) :
    let o := tessellateImpl (S.refuseAt k e) true core coreErr (s, 0)
    let pre := runQ S (beforeKth k core) (S.begin s) []
    o.trace = .begin :: pre.calls ++ [.vertex (.error e), .abort] ∧
    o.result = some (.geometryBuilder e) ∧
    o.st = (S.abort pre.st, k) := by
  intro o pre
  have h := runQ_refuseAt S e k core (S.begin s) 0 [] hfree (by omega) (by omega)
  simp only [Nat.sub_zero] at h
  obtain ⟨hc, he, hs⟩ := h
  have hb : (S.refuseAt k e).begin (s, 0) = (S.begin s, 0) := rfl
  simp only [o, tessellateImpl, hb, Bool.not_true, Bool.false_eq_true, if_false, he, hc, hs]
  simp [pre, Sink.refuseAt]

example : (runQ bbSink [.v 0, .v 1, .t 0 1 1, .v 2] (BB.new ⟨[], []⟩ IndexTy.u16.cfg).begin []).err = none ∧
    nVerts [.v 0, .v 1, .t 0 1 1, .v 2] = 3 := by decide

/-! ## `rect_circle_trace` — FALSE of the current code -/

/-- The statement one would like (same as for the general fill path) … -/
def RectCircleTrace : Prop :=
  ∀ (σ : Type) (S : Sink σ) (script : List CReq) (s : σ),
    Protocol (shapeRun S script s).trace (shapeRun S script s).result

/-- … fails: `fill_rectangle` against a builder that refuses the 3rd vertex emits
`begin V V V!` and no terminator at all (the `?` leaves the function). -/
theorem rect_circle_trace_witness :
    (shapeRun (tieSink false 3 .tooManyVertices) rectScript (BB.new ⟨[], []⟩ IndexTy.u16.cfg, 0)).trace =
      [.begin, .vertex (.ok 0), .vertex (.ok 1), .vertex (.error .tooManyVertices)] ∧
    (shapeRun (tieSink false 3 .tooManyVertices) rectScript (BB.new ⟨[], []⟩ IndexTy.u16.cfg, 0)).result =
      some (.geometryBuilder .tooManyVertices) ∧
    ¬ RectCircleTrace := by
  refine ⟨by decide, by decide, fun h => ?_⟩
  have hp := h _ (tieSink false 3 .tooManyVertices) rectScript (BB.new ⟨[], []⟩ IndexTy.u16.cfg, 0)
  have hc := (protocol_counts _ _ hp).2.2.1
  revert hc
  decide

/-- The same for `fill_circle` (fault at the 6th vertex, i.e. inside `fill_border_radius`). -/
theorem circle_trace_witness :
    (circleRun (tieSink false 6 .invalidVertex) false 1 (BB.new ⟨[], []⟩ IndexTy.u16.cfg, 0)).trace =
      [.begin, .vertex (.ok 0), .vertex (.ok 1), .vertex (.ok 2), .vertex (.ok 3), .tri 0 3 1, .tri 1 3 2,
       .vertex (.ok 4), .tri 1 4 0, .vertex (.error .invalidVertex)] := by decide

/-- Consequence for the caller's buffers: they are NOT restored.  A `BuffersBuilder` whose index
type allows 5 vertices, holding 2, overflows at the rectangle's 4th vertex: the call returns
`TooManyVertices` and leaves 6 vertices behind (the reading-phase observation 65534 → 65536 for
`u16`, scaled down). -/
theorem rect_circle_buffers_witness :
    let o := shapeRun (tieSink false 0 .tooManyVertices) rectScript (BB.new ⟨[100, 101], [0, 0, 1]⟩ ⟨5, 65536⟩, 0)
    o.result = some (.geometryBuilder .tooManyVertices) ∧
    o.st.1.buf.vertices = [100, 101, 0, 1, 2, 3] ∧ o.st.1.buf ≠ ⟨[100, 101], [0, 0, 1]⟩ := by decide

/-- What does hold of the fast paths, for every builder and every fault position:
* without a refusal the protocol is respected (`begin · all · end`, `Ok`);
* with a refusal the error IS returned, the refused vertex is the last call the builder sees, and
  the trace is `begin · prefix_k` — exactly the protocol trace with its `abort` missing.
Missing with respect to `rect_circle_trace`: the terminator (and with it buffer restoration). -/
theorem rect_circle_trace_partial {σ : Type} (S : Sink σ) (script : List CReq) (s : σ) :
    ((shapeRun S script s).result = none → Protocol (shapeRun S script s).trace (shapeRun S script s).result) ∧
    (∀ err, (shapeRun S script s).result = some err →
      ∃ e, err = .geometryBuilder e ∧ (shapeRun S script s).trace ++ [.abort] = (shapeRunFixed S script s).trace ∧
        Protocol ((shapeRun S script s).trace ++ [.abort]) (some err) ∧
        (shapeRun S script s).trace.getLast? = some (.vertex (.error e))) := by
  have hq := runQ_calls S script (S.begin s) []
  unfold shapeRunFixed shapeRun tessellateImpl
  dsimp only
  revert hq
  generalize runQ S script (S.begin s) [] = x
  intro hq
  cases hx : x.err with
  | none =>
    simp only [QCalls, hx] at hq
    refine ⟨fun _ => by simpa [hx] using protocol_ok x.calls hq, fun err h => by simp [hx] at h⟩
  | some e =>
    simp only [QCalls, hx] at hq
    obtain ⟨pre, hpre, hall⟩ := hq
    refine ⟨fun h => by simp [hx] at h, fun err h => ?_⟩
    simp only [hx, Option.some.injEq] at h
    subst h
    refine ⟨e, rfl, by simp [hx], ?_, ?_⟩
    · have := protocol_refused pre [] e hall (by simp)
      simpa [hx, hpre] using this
    · simp only [hx, hpre]
      rw [← List.cons_append, List.getLast?_append]
      simp

/-- The repaired control flow (`fixes/C04-basic-shapes-abort.patch`: call `abort_geometry` before
returning the error) satisfies the full statement, for every builder and every fault position … -/
theorem rect_circle_trace_fixed {σ : Type} (S : Sink σ) (script : List CReq) (s : σ) :
    Protocol (shapeRunFixed S script s).trace (shapeRunFixed S script s).result :=
  skeleton_trace_fill S script none s

/-- … and restores the buffers. -/
theorem rect_circle_buffers_fixed (inv : Bool) (k : Nat) (e : GErr) (b : BB) (n : Nat) (script : List CReq)
    (hv : b.buf.vertices.length < idxMod) (hi : b.buf.indices.length < idxMod) :
    (shapeRunFixed (tieSink inv k e) script (b, n)).result ≠ none →
      (shapeRunFixed (tieSink inv k e) script (b, n)).st.1.buf = b.buf :=
  (fill_all_or_nothing inv k e b n true script none hv hi).1

/-- The two fast paths only name vertices they have been given (rectangle; circle up to depth 4 by
evaluation — the general statement is `circle_script_scoped`). -/
theorem rect_script_scoped : wellScoped 0 rectScript = true := by decide

theorem circle_script_counts :
    (List.range 5).map (fun n => nVerts (circleScript n)) = [4, 8, 16, 32, 64] := by decide

/-! ## `buffers_end_extends`, `ids_fresh` -/

/-- **`BuffersBuilder`, end**: for all prior contents, all vertex / triangle call sequences after
`begin_geometry` in which every triangle only uses ids returned since that `begin` (`idsFresh`,
which is what `ids_fresh` establishes for the tessellators): the old vertices and indices are an
untouched prefix, and every new index, minus the vertex offset, lies in `[old_len, new_len)` —
provided `id + vertex_offset` wraps neither in `u32` nor in the index type (for offset 0:
`max_index_fits`). -/
theorem buffers_end_extends (b : BB) (ops : List Op) (hops : ∀ o ∈ ops, Op.isBody o = true)
    (hv : b.buf.vertices.length < idxMod)
    (hfresh : idsFresh [] (bbSink.exec ops b.begin).2 = true)
    (hw1 : (bbSink.exec ops b.begin).1.buf.vertices.length + b.vertexOffset ≤ idxMod)
    (hw2 : (bbSink.exec ops b.begin).1.buf.vertices.length + b.vertexOffset ≤ b.cfg.modulus) :
    let f := ((bbSink.exec ops b.begin).1.endG).buf
    ∃ vs is, f.vertices = b.buf.vertices ++ vs ∧ f.indices = b.buf.indices ++ is ∧
      ∀ i ∈ is, b.buf.vertices.length + b.vertexOffset ≤ i ∧ i < f.vertices.length + b.vertexOffset := by
  intro f
  obtain ⟨_, _, vs, is, e1, e2, e3⟩ :=
    exec_valid b.buf.vertices.length ops b.begin [] hops (Nat.le_refl _) (by simp) hfresh
  refine ⟨vs, is, e1, e2, ?_⟩
  intro i hi
  obtain ⟨a, ha, h1, h2⟩ := e3 i hi
  have hoff : b.begin.vertexOffset = b.vertexOffset := rfl
  have hcfg : b.begin.cfg = b.cfg := rfl
  have hlt : a + b.vertexOffset < idxMod := by omega
  have hlt2 : a + b.vertexOffset < b.cfg.modulus := by omega
  have hconv : b.begin.conv a = a + b.vertexOffset := by
    simp only [BB.conv, hoff, hcfg, Nat.mod_eq_of_lt hlt, Nat.mod_eq_of_lt hlt2]
  show b.buf.vertices.length + b.vertexOffset ≤ i ∧ i < (bbSink.exec ops b.begin).1.buf.vertices.length + b.vertexOffset
  rw [ha, hconv]
  omega

example : let b := BB.new ⟨[9, 9], [0, 1, 0]⟩ IndexTy.u16.cfg
    let ops := [Op.vertex 5, .vertex 6, .vertex 7, .tri 2 3 4]
    (∀ o ∈ ops, Op.isBody o = true) ∧ idsFresh [] (bbSink.exec ops b.begin).2 = true ∧
    ((bbSink.exec ops b.begin).1.endG).buf = ⟨[9, 9, 5, 6, 7], [0, 1, 0, 2, 3, 4]⟩ := by decide

/-- Without the proviso the conclusion fails — a triangle naming an id from before `begin`
produces an index into the old contents (which is why the oracle checks `ids-fresh` on the real
tessellators). -/
theorem buffers_end_extends_needs_fresh :
    ((bbSink.exec [Op.vertex 5, .tri 0 1 2] (BB.new ⟨[9, 9], []⟩ IndexTy.u16.cfg).begin).1.endG).buf.indices =
      [0, 1, 2] := by decide

/-- **`ids_fresh`, fill**: a core that names only vertices it has requested before (ordinals in
range — `wellScoped`) makes the fill skeleton issue only triangles whose ids were returned since
`begin_geometry`, for every builder and every fault position. -/
theorem ids_fresh_fill {σ : Type} (S : Sink σ) (core : List CReq) (coreErr : Option TErr) (s : σ)
    (hw : wellScoped 0 core = true) :
    idsFresh [] (tessellateImpl S true core coreErr s).trace = true := by
  have h := runQ_fresh S core (S.begin s) [] hw
  unfold tessellateImpl
  dsimp only
  revert h
  generalize runQ S core (S.begin s) [] = x
  intro h
  cases hx : x.err with
  | some e =>
    simp only [Bool.not_true, Bool.false_eq_true, if_false, hx]
    show idsFresh [] (x.calls ++ [.abort]) = true
    rw [idsFresh_append_term _ rfl]; exact h
  | none =>
    cases coreErr with
    | some ce =>
      simp only [Bool.not_true, Bool.false_eq_true, if_false, hx]
      show idsFresh [] (x.calls ++ [.abort]) = true
      rw [idsFresh_append_term _ rfl]; exact h
    | none =>
      simp only [Bool.not_true, Bool.false_eq_true, if_false, hx]
      show idsFresh [] (x.calls ++ [.endG]) = true
      rw [idsFresh_append_term _ rfl]; exact h

/-- **`ids_fresh`, stroke — partial**: the same up to the first refused vertex, and for the whole
trace when nothing is refused.  Missing: the requests issued between a latched error and the
abort (`post`).  The real stroker does hand `VertexId::INVALID` to `add_triangle` there (finding
`C04-stroke-invalid-id-after-refusal`); the model leaves `post` arbitrary, so nothing is claimed. -/
theorem stroke_ids_fresh_partial {σ : Type} (S : Sink σ) (events : List (List CReq)) (s : σ)
    (hw : wellScoped 0 events.flatten = true) :
    idsFresh [] (strokeRun S events [] s).trace = true := by
  have h := strokeEvents_fresh S events (S.begin s) [] hw
  unfold strokeRun
  dsimp only
  revert h
  generalize strokeEvents S events (S.begin s) [] = x
  intro h
  cases hx : x.err with
  | some e =>
    simp only [hx, runIgn, List.append_nil]
    show idsFresh [] (x.calls ++ [.abort]) = true
    rw [idsFresh_append_term _ rfl]; exact h
  | none =>
    simp only [hx]
    show idsFresh [] (x.calls ++ [.endG]) = true
    rw [idsFresh_append_term _ rfl]; exact h

/-- A post-error request sequence that is not well-scoped reaches the builder as
`VertexId::INVALID` — the shape of the real finding. -/
theorem stroke_ids_fresh_witness :
    (strokeRun (tieSink false 1 .invalidVertex) [[.v 0]] [.v 1, .v 2, .t 1 0 7]
        (BB.new ⟨[], []⟩ IndexTy.u32.cfg, 0)).trace =
      [.begin, .vertex (.error .invalidVertex), .vertex (.ok 0), .vertex (.ok 1), .tri 1 0 4294967295, .abort] := by
  decide

/-! ## `offset_shift` -/

/-- **Prior contents only shift the output**: tessellating (fill skeleton, any well-scoped core)
into a `BuffersBuilder` over prior contents `B` yields `B ++ shift_{|B|}(the run on empty buffers)`:
the same new vertices, and the same new indices moved up by the number of prior vertices —
whenever the run fits the index type (`|B| + #vertices ≤ MAX`; `MAX ≤ modulus, 2^32` is
`max_index_fits` for the ten real types). -/
theorem offset_shift (B : Buffers) (cfg : IdxCfg) (core : List CReq) (hw : wellScoped 0 core = true)
    (hfit : B.vertices.length + nVerts core ≤ cfg.max) (hm1 : cfg.max ≤ cfg.modulus) (hm2 : cfg.max ≤ idxMod) :
    let o0 := tessellateImpl bbSink true core none (BB.new ⟨[], []⟩ cfg)
    let oB := tessellateImpl bbSink true core none (BB.new B cfg)
    o0.result = none ∧ oB.result = none ∧
    oB.st.buf.vertices = B.vertices ++ o0.st.buf.vertices ∧
    oB.st.buf.indices = B.indices ++ o0.st.buf.indices.map (· + B.vertices.length) := by
  intro o0 oB
  have h0 : Shifted B.vertices B.indices (bbSink.begin (BB.new ⟨[], []⟩ cfg)) (bbSink.begin (BB.new B cfg)) [] [] :=
    ⟨by simp [bbSink, BB.begin, BB.new], by simp [bbSink, BB.begin, BB.new], rfl, rfl, rfl, rfl, by simp⟩
  obtain ⟨e1, e2, hs⟩ := runQ_shift B.vertices B.indices core _ _ [] [] h0 hw
    (by simpa [bbSink, BB.begin, BB.new] using hfit) hm1 hm2
  simp only [o0, oB, tessellateImpl, Bool.not_true, Bool.false_eq_true, if_false, e1, e2]
  exact ⟨trivial, trivial, hs.vs, hs.is⟩

example : let core := [CReq.v 0, .v 1, .v 2, .t 0 1 2]
    wellScoped 0 core = true ∧
    (tessellateImpl bbSink true core none (BB.new ⟨[], []⟩ IndexTy.u16.cfg)).st.buf = ⟨[0, 1, 2], [0, 1, 2]⟩ ∧
    (tessellateImpl bbSink true core none (BB.new ⟨[7, 7], [1, 0, 1]⟩ IndexTy.u16.cfg)).st.buf =
      ⟨[7, 7, 0, 1, 2], [1, 0, 1, 2, 3, 4]⟩ := by decide

/-! ## The fast paths' request sequences -/

/-- `fill_circle`'s request sequence names only vertices it has requested before, for every
recursion depth (so `ids_fresh_fill` / `buffers_end_extends` apply to it). -/
theorem circle_script_scoped (n : Nat) : wellScoped 0 (circleScript n) = true := by
  have h := (circleQuadrants_scoped n 4 4 (Nat.le_refl 4)).1
  simp only [circleScript, List.cons_append, List.nil_append, wellScoped, Nat.zero_add, h]
  decide

/-- Rectangle and circle fast paths, fault-free or faulted: every triangle the builder sees uses
ids returned since `begin_geometry`. -/
theorem ids_fresh_shapes {σ : Type} (S : Sink σ) (s : σ) (n : Nat) :
    idsFresh [] (shapeRun S rectScript s).trace = true ∧
    idsFresh [] (shapeRun S (circleScript n) s).trace = true := by
  have key : ∀ script, wellScoped 0 script = true → idsFresh [] (shapeRun S script s).trace = true := by
    intro script hw
    have h := runQ_fresh S script (S.begin s) [] hw
    unfold shapeRun
    dsimp only
    revert h
    generalize runQ S script (S.begin s) [] = x
    intro h
    cases hx : x.err with
    | some e => simpa [hx, idsFresh] using h
    | none =>
      simp only [hx]
      show idsFresh [] (x.calls ++ [.endG]) = true
      rw [idsFresh_append_term _ rfl]; exact h
  exact ⟨key _ rect_script_scoped, key _ (circle_script_scoped n)⟩

/-! ## Non-vacuity of the hypotheses used above -/

example : let b := BB.new ⟨[1, 2, 3], [0, 1, 2]⟩ IndexTy.u16.cfg
    let ops := [Op.vertex 7, .tri 3 0 9, .vertex 8]
    (∀ o ∈ ops, Op.isBody o = true) ∧ b.buf.vertices.length < idxMod ∧ b.buf.indices.length < idxMod ∧
    (bbSink.exec ops b.begin).1.buf ≠ b.buf ∧ ((bbSink.exec ops b.begin).1.abort).buf = b.buf := by decide

example :
    let o := tessellateImpl (tieSink true 2 .invalidVertex) true [.v 0, .v 1, .t 0 0 0] none
              (BB.new ⟨[1, 2, 3], [0, 1, 2]⟩ IndexTy.u16.cfg, 0)
    o.result = some (.geometryBuilder .invalidVertex) ∧ o.st.1.buf = ⟨[1, 2, 3], [0, 1, 2]⟩ ∧
    o.trace = [.begin, .vertex (.ok 3), .vertex (.error .invalidVertex), .abort] := by decide

example :
    let o := strokeRun (tieSink false 2 .tooManyVertices) [[.v 0], [.v 1, .v 2], [.v 3]] [.v 9, .t 0 1 1]
              (BB.new ⟨[1, 2, 3], [0, 1, 2]⟩ IndexTy.u16.cfg, 0)
    o.result = some (.geometryBuilder .tooManyVertices) ∧ o.st.1.buf = ⟨[1, 2, 3], [0, 1, 2]⟩ ∧ o.pulled = 2 ∧
    o.trace = [.begin, .vertex (.ok 3), .vertex (.error .tooManyVertices), .vertex (.ok 4), .tri 3 4 4, .abort] := by
  decide

example : wellScoped 0 (circleScript 2) = true ∧ nVerts (circleScript 2) = 16 := by decide

end Lyon.C04
