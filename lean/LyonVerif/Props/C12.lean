/-
  C12 — intersection queries are exact for segments and sound for curves.

  All statements are about the model functions of `Model/Geom/Intersect.lean` (the same `def`s
  the correspondence check runs at `Float32`/`Float` against lyon) instantiated at an arbitrary
  linearly ordered field `K`; `Float::signum` is instantiated by the sign function of the field
  (`Lemmas/IxField.lean`), lyon's `EPSILON`/`epsilon_for` and `sqrt`/`pow`/`acos`/`cos` are
  parameters whose laws are stated as hypotheses where used.
-/
import LyonVerif.Model.Geom.Intersect
import LyonVerif.Lemmas.IxField

set_option linter.unusedSectionVars false
set_option linter.unusedVariables false

namespace Lyon.C12
open Lyon Scalar Lyon.Ix
variable {K : Type} [Field K] [LinearOrder K] [IsStrictOrderedRing K]

/-! ### Segment × segment -/

/-- **Segment × segment, exact.**  `intersection_t` returns `(t, u)` iff none of the four endpoint
pairs coincide (the code's `==` tests), the segments are not parallel, both parameters are in the
closed unit interval (the code tests `t < 0 || t > |v1×v2|` on the undivided numerators, i.e.
non-strict bounds: touching at an endpoint of ONE segment counts) and they denote the same point. -/
theorem seg_intersection_iff (s o : Seg K) (t u : K) :
    s.intersectionT o = some (t, u) ↔
      ¬ (s.b = o.b ∨ s.a = o.a ∨ s.a = o.b ∨ s.b = o.a)
      ∧ s.toVector.cross o.toVector ≠ 0
      ∧ 0 ≤ t ∧ t ≤ 1 ∧ 0 ≤ u ∧ u ≤ 1
      ∧ s.sample t = o.sample u := by
  unfold Seg.intersectionT
  by_cases hsh : s.sharesEndpoint o = true
  · have := (sharesEndpoint_iff s o).mp hsh
    rw [if_pos hsh]
    constructor
    · intro h; cases h
    · rintro ⟨h, _⟩; exact absurd this h
  · have hsh' : ¬ (s.b = o.b ∨ s.a = o.a ∨ s.a = o.b ∨ s.b = o.a) := fun h => hsh ((sharesEndpoint_iff s o).mpr h)
    rw [if_neg hsh]
    by_cases hd0 : (s.ixDet o == (Scalar.zero : K)) = true
    · have : s.toVector.cross o.toVector = 0 := (beq_zero_iff _).mp hd0
      rw [if_pos hd0]
      constructor
      · intro h; cases h
      · rintro ⟨_, h, _⟩; exact absurd this h
    · rw [if_neg hd0]
      have hd : s.ixDet o ≠ 0 := fun h => hd0 ((beq_zero_iff _).mpr h)
      have hpos : 0 < |s.ixDet o| := abs_pos.mpr hd
      have hT : s.ixT o / |s.ixDet o| = (o.a - s.a).cross o.toVector / s.ixDet o := signed_div _ _ hd
      have hU : s.ixU o / |s.ixDet o| = (o.a - s.a).cross s.toVector / s.ixDet o := signed_div _ _ hd
      have hse := sample_eq_iff s o t u hd
      have hz : (Scalar.zero : K) = 0 := by simp [Scalar.zero]
      have hr : ¬ (s.ixT o < Scalar.zero ∨ s.ixT o > Scalar.abs (s.ixDet o) ∨ s.ixU o < Scalar.zero ∨ s.ixU o > Scalar.abs (s.ixDet o))
          ↔ ((0 ≤ s.ixT o / |s.ixDet o| ∧ s.ixT o / |s.ixDet o| ≤ 1) ∧ (0 ≤ s.ixU o / |s.ixDet o| ∧ s.ixU o / |s.ixDet o| ≤ 1)) := by
        rw [← range_iff _ _ hpos, ← range_iff _ _ hpos, hz, sc_abs]
        tauto
      by_cases hrange : (s.ixT o < Scalar.zero ∨ s.ixT o > Scalar.abs (s.ixDet o) ∨ s.ixU o < Scalar.zero ∨ s.ixU o > Scalar.abs (s.ixDet o))
      · rw [if_pos hrange]
        have hnr := (not_congr hr).mp (not_not.mpr hrange)
        constructor
        · intro h; cases h
        · rintro ⟨_, _, h0, h1, h2, h3, hs⟩
          obtain ⟨ht, hu⟩ := hse.mp hs
          exfalso
          apply hnr
          rw [hT, hU, ← ht, ← hu]
          exact ⟨⟨h0, h1⟩, ⟨h2, h3⟩⟩
      · rw [if_neg hrange]
        have hin := hr.mp hrange
        rw [sc_abs, hT, hU] at *
        constructor
        · intro h
          simp only [Option.some.injEq, Prod.mk.injEq] at h
          obtain ⟨ht, hu⟩ := h
          refine ⟨hsh', hd, ?_, ?_, ?_, ?_, hse.mpr ⟨ht.symm, hu.symm⟩⟩
          · rw [← ht]; exact hin.1.1
          · rw [← ht]; exact hin.1.2
          · rw [← hu]; exact hin.2.1
          · rw [← hu]; exact hin.2.2
        · rintro ⟨_, _, _, _, _, _, hs⟩
          obtain ⟨ht, hu⟩ := hse.mp hs
          rw [ht, hu]

end Lyon.C12
